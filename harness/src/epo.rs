//! Stream `epo` — compressed epoch blocks and the epoch store of the tiered storage
//! (`crates/grafeo-core/src/storage/epoch_store.rs`; gated behind the cargo feature `tiered-storage`,
//! so the source file itself is included here via `#[path]`, see below).
//!
//! Every op line is self-contained. Formats:
//!   record list  `-` | rec{,rec}    rec = `<key>:<f1>.<f2>.….<f8>`
//!       node fields: id.epoch.props_offset.label_count._reserved.props_count.flags._padding
//!       edge fields: id.src.dst.type_id.props_offset.props_count.flags.epoch
//!   `epo block <epoch> <nodes> <edges> <q>{,<q>}`   CompressedEpochBlock::from_records, then queries:
//!       `n<id>` get_node_by_id   `e<id>` get_edge_by_id   `N<off>:<len>` get_node   `E<off>:<len>` get_edge
//!       `i<k>` get_node at the k-th returned node index entry   `j<k>` same for edges
//!       `mn<id>` / `me<id>` zone_map().might_contain_node / _edge
//!       `c` counts   `h` header   `x` the returned index entries
//!   `epo enc <n|e> <f1.….f8>`   bincode bytes of one record and their decoding (same config as the code)
//!   `epo dec <n|e> <hex>`       decode_from_slice of arbitrary bytes
//!   `epo store <op>{/<op>}`     one EpochStore history:
//!       `F<epoch>|<nodes>|<edges>` freeze_epoch   `G<min>` gc
//!       `n<epoch>:<id>` `e<epoch>:<id>` get_*_by_id   `N<epoch>:<off>:<len>` `E…` get_*
//!       `c<epoch>` contains_epoch   `b<epoch>` get_block   `k` epoch_count   `t` total_size   `s` stats
#![allow(unused)]
use crate::util::*;
use grafeo_common::types::{EdgeId, EpochId, NodeId};
use grafeo_core::graph::lpg::{EdgeFlags, EdgeRecord, NodeFlags, NodeRecord};

// `storage::epoch_store` is gated behind grafeo-core's cargo feature `tiered-storage`, which the
// harness must not enable (it switches ~107 cfg sites of the store every other stream tests).
// The REAL source file is therefore compiled into this crate via `#[path]`; the two shim modules
// below satisfy its `use super::codec::CompressionCodec` and `use crate::graph::lpg::{..}`
// (the latter needs the one-line re-export `use epo::graph;` in main.rs).
pub mod graph {
    pub mod lpg {
        pub use grafeo_core::graph::lpg::{EdgeRecord, NodeRecord};
    }
}
mod tiered {
    pub mod codec {
        pub use grafeo_core::storage::codec::CompressionCodec;
    }
    #[path = "/repo/crates/grafeo-core/src/storage/epoch_store.rs"]
    pub mod epoch_store;
}
use tiered::epoch_store::{CompressedEpochBlock, CompressionType, EpochStore, IndexEntry};

// ───────────────────────── parsing ─────────────────────────

fn p_fields(s: &str) -> Option<Vec<u64>> {
    s.split('.').map(|t| if t.starts_with('+') { None } else { t.parse().ok() }).collect()
}

fn node_of(f: &[u64]) -> Option<NodeRecord> {
    if f.len() != 8 {
        return None;
    }
    Some(NodeRecord {
        id: NodeId::new(f[0]),
        epoch: EpochId::new(f[1]),
        props_offset: u32::try_from(f[2]).ok()?,
        label_count: u16::try_from(f[3]).ok()?,
        _reserved: u16::try_from(f[4]).ok()?,
        props_count: u16::try_from(f[5]).ok()?,
        flags: NodeFlags(u16::try_from(f[6]).ok()?),
        _padding: u32::try_from(f[7]).ok()?,
    })
}

fn edge_of(f: &[u64]) -> Option<EdgeRecord> {
    if f.len() != 8 {
        return None;
    }
    Some(EdgeRecord {
        id: EdgeId::new(f[0]),
        src: NodeId::new(f[1]),
        dst: NodeId::new(f[2]),
        type_id: u32::try_from(f[3]).ok()?,
        props_offset: u32::try_from(f[4]).ok()?,
        props_count: u16::try_from(f[5]).ok()?,
        flags: EdgeFlags(u16::try_from(f[6]).ok()?),
        epoch: EpochId::new(f[7]),
    })
}

fn p_u64(s: &str) -> Option<u64> {
    if s.starts_with('+') { None } else { s.parse().ok() }
}
fn p_u32(s: &str) -> Option<u32> {
    if s.starts_with('+') { None } else { s.parse().ok() }
}
fn p_u16(s: &str) -> Option<u16> {
    if s.starts_with('+') { None } else { s.parse().ok() }
}

fn p_nodes(s: &str) -> Option<Vec<(u64, NodeRecord)>> {
    if s == "-" {
        return Some(vec![]);
    }
    s.split(',')
        .map(|r| {
            let (k, fs) = r.split_once(':')?;
            if fs.contains(':') {
                return None;
            }
            Some((p_u64(k)?, node_of(&p_fields(fs)?)?))
        })
        .collect()
}

fn p_edges(s: &str) -> Option<Vec<(u64, EdgeRecord)>> {
    if s == "-" {
        return Some(vec![]);
    }
    s.split(',')
        .map(|r| {
            let (k, fs) = r.split_once(':')?;
            if fs.contains(':') {
                return None;
            }
            Some((p_u64(k)?, edge_of(&p_fields(fs)?)?))
        })
        .collect()
}

// ───────────────────────── printing ─────────────────────────

fn node_s(r: Option<NodeRecord>) -> String {
    match r {
        None => "none".into(),
        Some(r) => format!(
            "{}.{}.{}.{}.{}.{}.{}.{}",
            r.id.as_u64(),
            r.epoch.as_u64(),
            r.props_offset,
            r.label_count,
            r._reserved,
            r.props_count,
            r.flags.0,
            r._padding
        ),
    }
}

fn edge_s(r: Option<EdgeRecord>) -> String {
    match r {
        None => "none".into(),
        Some(r) => format!(
            "{}.{}.{}.{}.{}.{}.{}.{}",
            r.id.as_u64(),
            r.src.as_u64(),
            r.dst.as_u64(),
            r.type_id,
            r.props_offset,
            r.props_count,
            r.flags.0,
            r.epoch.as_u64()
        ),
    }
}

fn entry_s(e: &IndexEntry) -> String {
    format!("{}@{}+{}", e.entity_id, e.offset, e.length)
}
fn entries_s(es: &[IndexEntry]) -> String {
    if es.is_empty() { "-".into() } else { es.iter().map(entry_s).collect::<Vec<_>>().join(",") }
}
fn b(x: bool) -> &'static str {
    if x { "1" } else { "0" }
}
fn ctype(c: CompressionType) -> u8 {
    match c {
        CompressionType::None => 0,
        CompressionType::Dictionary => 1,
        CompressionType::Delta => 2,
        CompressionType::Combined => 3,
    }
}

// ───────────────────────── run ─────────────────────────

fn block_query(blk: &CompressedEpochBlock, ni: &[IndexEntry], ei: &[IndexEntry], q: &str) -> Option<String> {
    let c = q.chars().next()?;
    Some(match c {
        'n' => node_s(blk.get_node_by_id(p_u64(&q[1..])?)),
        'e' => edge_s(blk.get_edge_by_id(p_u64(&q[1..])?)),
        'N' | 'E' => {
            let (o, l) = q[1..].split_once(':')?;
            let (o, l) = (p_u32(o)?, p_u16(l)?);
            if c == 'N' { node_s(blk.get_node(o, l)) } else { edge_s(blk.get_edge(o, l)) }
        }
        'i' | 'j' => {
            let t = &q[1..];
            if t.starts_with('+') {
                return None;
            }
            let k: u128 = t.parse().ok()?;
            let idx = if c == 'i' { ni } else { ei };
            if k >= idx.len() as u128 {
                "oob".into()
            } else {
                let en = &idx[k as usize];
                let r = if c == 'i' { node_s(blk.get_node(en.offset, en.length)) } else { edge_s(blk.get_edge(en.offset, en.length)) };
                format!("{}={}", entry_s(en), r)
            }
        }
        'm' => {
            let id = p_u64(q.get(2..)?)?;
            match q.as_bytes().get(1)? {
                b'n' => b(blk.zone_map().might_contain_node(id)).into(),
                b'e' => b(blk.zone_map().might_contain_edge(id)).into(),
                _ => return None,
            }
        }
        'c' if q == "c" => {
            format!("{},{},{},{}", blk.node_count(), blk.edge_count(), blk.zone_map().node_count, blk.zone_map().edge_count)
        }
        'h' if q == "h" => {
            let h = blk.header();
            let z = &h.zone_map;
            format!(
                "{},{},{},{},{},{},{},{},{},{},{},{},{}",
                blk.epoch().as_u64(),
                ctype(h.compression_type),
                z.min_node_id,
                z.max_node_id,
                z.min_edge_id,
                z.max_edge_id,
                z.min_epoch,
                z.max_epoch,
                h.node_data_size,
                h.edge_data_size,
                h.node_uncompressed_size,
                h.edge_uncompressed_size,
                blk.compressed_size()
            )
        }
        'x' if q == "x" => format!("{}/{}", entries_s(ni), entries_s(ei)),
        _ => return None,
    })
}

fn store_op(st: &EpochStore, q: &str) -> Option<String> {
    let c = q.chars().next()?;
    Some(match c {
        'F' => {
            let parts: Vec<&str> = q[1..].split('|').collect();
            if parts.len() != 3 {
                return None;
            }
            let e = p_u64(parts[0])?;
            let ns = p_nodes(parts[1])?;
            let es = p_edges(parts[2])?;
            let (ni, ei) = st.freeze_epoch(EpochId::new(e), ns, es);
            format!("F:{}:{}", ni.len(), ei.len())
        }
        'G' => format!("G:{}", st.gc(EpochId::new(p_u64(&q[1..])?))),
        'n' | 'e' => {
            let parts: Vec<&str> = q[1..].split(':').collect();
            if parts.len() != 2 {
                return None;
            }
            let (e, id) = (EpochId::new(p_u64(parts[0])?), p_u64(parts[1])?);
            if c == 'n' { node_s(st.get_node_by_id(e, id)) } else { edge_s(st.get_edge_by_id(e, id)) }
        }
        'N' | 'E' => {
            let parts: Vec<&str> = q[1..].split(':').collect();
            if parts.len() != 3 {
                return None;
            }
            let (e, o, l) = (EpochId::new(p_u64(parts[0])?), p_u32(parts[1])?, p_u16(parts[2])?);
            if c == 'N' { node_s(st.get_node(e, o, l)) } else { edge_s(st.get_edge(e, o, l)) }
        }
        'c' => b(st.contains_epoch(EpochId::new(p_u64(&q[1..])?))).into(),
        'b' => match st.get_block(EpochId::new(p_u64(&q[1..])?)) {
            None => "none".into(),
            Some(blk) => format!("{},{},{}", blk.epoch().as_u64(), blk.node_count(), blk.edge_count()),
        },
        'k' if q == "k" => st.epoch_count().to_string(),
        't' if q == "t" => st.total_size().to_string(),
        's' if q == "s" => {
            let s = st.stats();
            format!(
                "{},{},{},{},{},{}",
                s.epoch_count,
                s.total_nodes,
                s.total_edges,
                s.total_compressed_bytes,
                s.total_uncompressed_bytes,
                b(s.compression_ratio == 1.0)
            )
        }
        _ => return None,
    })
}

fn run_inner(toks: &[&str]) -> Option<String> {
    match toks {
        ["block", e, ns, es, qs] => {
            let e = p_u64(e)?;
            let ns = p_nodes(ns)?;
            let es = p_edges(es)?;
            // validate the queries before touching the code (a malformed query is `bad-op`)
            let (blk, ni, ei) = CompressedEpochBlock::from_records(EpochId::new(e), ns, es);
            let mut out = Vec::new();
            for q in qs.split(',') {
                out.push(block_query(&blk, &ni, &ei, q)?);
            }
            Some(out.join(";"))
        }
        ["enc", kind, r] => {
            let f = p_fields(r)?;
            let cfg = bincode::config::standard();
            match *kind {
                "n" => {
                    let rec = node_of(&f)?;
                    let bs = bincode::serde::encode_to_vec(&rec, cfg).ok()?;
                    let back = bincode::serde::decode_from_slice::<NodeRecord, _>(&bs, cfg).ok().map(|x| x.0);
                    Some(format!("{}|{}", hex(&bs), node_s(back)))
                }
                "e" => {
                    let rec = edge_of(&f)?;
                    let bs = bincode::serde::encode_to_vec(&rec, cfg).ok()?;
                    let back = bincode::serde::decode_from_slice::<EdgeRecord, _>(&bs, cfg).ok().map(|x| x.0);
                    Some(format!("{}|{}", hex(&bs), edge_s(back)))
                }
                _ => None,
            }
        }
        ["dec", kind, h] => {
            let bs = unhex(h)?;
            let cfg = bincode::config::standard();
            match *kind {
                "n" => Some(node_s(bincode::serde::decode_from_slice::<NodeRecord, _>(&bs, cfg).ok().map(|x| x.0))),
                "e" => Some(edge_s(bincode::serde::decode_from_slice::<EdgeRecord, _>(&bs, cfg).ok().map(|x| x.0))),
                _ => None,
            }
        }
        ["store", prog] => {
            let st = EpochStore::new();
            let mut out = Vec::new();
            for q in prog.split('/') {
                out.push(store_op(&st, q)?);
            }
            Some(out.join(";"))
        }
        _ => None,
    }
}

pub fn run(toks: &[&str]) -> String {
    let toks: Vec<String> = toks.iter().map(|s| s.to_string()).collect();
    guarded(move || {
        let t: Vec<&str> = toks.iter().map(|s| s.as_str()).collect();
        run_inner(&t).unwrap_or_else(|| "bad-op".to_string())
    })
}

// ───────────────────────── generate ─────────────────────────

const U64_POOL: &[u64] = &[
    0, 1, 2, 249, 250, 251, 252, 253, 254, 255, 256, 65534, 65535, 65536, 65537, 4294967294, 4294967295, 4294967296,
    4294967297, 1 << 40, (1 << 63) - 1, 1 << 63, u64::MAX - 1, u64::MAX,
];
const U32_POOL: &[u64] = &[0, 1, 250, 251, 252, 253, 255, 256, 65535, 65536, 65537, 4294967294, 4294967295];
const U16_POOL: &[u64] = &[0, 1, 2, 3, 250, 251, 252, 253, 254, 255, 256, 32768, 65534, 65535];

fn val(r: &mut Rng, w: u32) -> u64 {
    let pool = match w {
        64 => U64_POOL,
        32 => U32_POOL,
        _ => U16_POOL,
    };
    match r.below(10) {
        0..=3 => *r.pick(pool),
        4..=6 => r.below(8),
        _ => {
            let x = r.next();
            if w == 64 { x >> r.below(64) } else { (x >> r.below(w as u64)) & ((1u64 << w) - 1) }
        }
    }
}

const NODE_WS: [u32; 8] = [64, 64, 32, 16, 16, 16, 16, 32];
const EDGE_WS: [u32; 8] = [64, 64, 64, 32, 32, 16, 16, 64];

fn fields(r: &mut Rng, ws: &[u32; 8], key: u64) -> String {
    let mut f: Vec<u64> = ws.iter().map(|w| val(r, *w)).collect();
    // the record's own id field usually equals the key (the caller's convention), sometimes not
    if !r.chance(1, 6) {
        f[0] = key;
    }
    f.iter().map(|x| x.to_string()).collect::<Vec<_>>().join(".")
}

/// keys of one record list; returns (keys, has_duplicates)
fn keys(r: &mut Rng, stats: &mut Stats) -> Vec<u64> {
    let n = match r.below(12) {
        0 => 0,
        1 => 1,
        2 => 2,
        3..=6 => r.range(3, 8),
        7..=9 => r.range(9, 20),
        10 => r.range(21, 24),
        _ => r.range(25, 70),
    } as usize;
    let mode = r.below(6);
    let mut ks: Vec<u64> = Vec::new();
    let base = match r.below(5) {
        0 => 0,
        1 => 240,
        2 => 65530,
        3 => 4294967290,
        _ => u64::MAX - 80,
    };
    let mut seen = std::collections::HashSet::new();
    let allow_dups = n <= 20 && r.chance(1, 4);
    let mut guard = 0;
    while ks.len() < n && guard < 10_000 {
        guard += 1;
        let k = match mode {
            0 | 1 => base.wrapping_add(r.below(80)),
            2 => *r.pick(U64_POOL),
            3 => r.next() >> r.below(64),
            _ => base.wrapping_add(r.below(3 * n as u64 + 2)),
        };
        let k = if base == u64::MAX - 80 && k < base && mode != 2 && mode != 3 { u64::MAX - r.below(80) } else { k };
        if seen.contains(&k) && !allow_dups {
            continue;
        }
        seen.insert(k);
        ks.push(k);
    }
    if allow_dups && ks.len() >= 2 && r.chance(3, 4) {
        // force at least one duplicate
        let i = r.below(ks.len() as u64) as usize;
        let j = r.below(ks.len() as u64) as usize;
        ks[i] = ks[j];
    }
    match r.below(4) {
        0 => ks.sort_unstable(),
        1 => {
            ks.sort_unstable();
            ks.reverse();
        }
        _ => {}
    }
    let mut d = ks.clone();
    d.sort_unstable();
    d.dedup();
    if d.len() != ks.len() {
        stats.dup_lists += 1;
    }
    if ks.len() > 20 {
        stats.big_lists += 1;
    }
    if ks.is_empty() {
        stats.empty_lists += 1;
    }
    if ks.windows(2).any(|w| w[0] > w[1]) {
        stats.unsorted_lists += 1;
    }
    ks
}

fn recs(r: &mut Rng, ws: &[u32; 8], ks: &[u64]) -> String {
    if ks.is_empty() {
        return "-".into();
    }
    ks.iter().map(|k| format!("{}:{}", k, fields(r, ws, *k))).collect::<Vec<_>>().join(",")
}

#[derive(Default)]
struct Stats {
    dup_lists: usize,
    big_lists: usize,
    empty_lists: usize,
    unsorted_lists: usize,
    block_lines: usize,
    store_lines: usize,
    enc_lines: usize,
    dec_lines: usize,
    malformed: usize,
    q_present: usize,
    q_absent: usize,
    q_offset: usize,
    refreeze: usize,
    gc_ops: usize,
}

fn probe_ids(r: &mut Rng, ks: &[u64], stats: &mut Stats) -> Vec<u64> {
    let mut v = Vec::new();
    for k in ks.iter().take(12) {
        v.push(*k);
        stats.q_present += 1;
    }
    if ks.len() > 12 {
        for _ in 0..4 {
            v.push(*r.pick(ks));
        }
    }
    for k in ks.iter().take(3) {
        v.push(k.wrapping_add(1));
        v.push(k.wrapping_sub(1));
        stats.q_absent += 2;
    }
    v.push(0);
    v.push(u64::MAX);
    v.push(r.next() >> r.below(64));
    if let (Some(mn), Some(mx)) = (ks.iter().min(), ks.iter().max()) {
        v.push(mn.wrapping_sub(1));
        v.push(mx.wrapping_add(1));
        v.push(mn / 2 + mx / 2);
    }
    v
}

fn block_line(r: &mut Rng, stats: &mut Stats) -> String {
    let nk = keys(r, stats);
    let ek = keys(r, stats);
    let ns = recs(r, &NODE_WS, &nk);
    let es = recs(r, &EDGE_WS, &ek);
    let mut qs: Vec<String> = vec!["c".into(), "h".into()];
    if r.chance(1, 2) {
        qs.push("x".into());
    }
    for id in probe_ids(r, &nk, stats) {
        qs.push(format!("n{}", id));
        if r.chance(1, 2) {
            qs.push(format!("mn{}", id));
        }
    }
    for id in probe_ids(r, &ek, stats) {
        qs.push(format!("e{}", id));
        if r.chance(1, 2) {
            qs.push(format!("me{}", id));
        }
    }
    for k in 0..nk.len().min(10) {
        qs.push(format!("i{}", k));
    }
    if nk.len() > 10 {
        qs.push(format!("i{}", nk.len() - 1));
    }
    qs.push(format!("i{}", nk.len()));
    for k in 0..ek.len().min(10) {
        qs.push(format!("j{}", k));
    }
    qs.push(format!("j{}", ek.len() + r.below(3) as usize));
    // arbitrary (offset, length) reads: misaligned, too long, past the end
    for _ in 0..4 {
        let o = match r.below(4) {
            0 => r.below(8),
            1 => r.below(40 * (nk.len() as u64 + 1)),
            2 => *r.pick(U32_POOL),
            _ => r.below(200),
        };
        let l = match r.below(4) {
            0 => r.below(12),
            1 => r.below(45),
            2 => *r.pick(U16_POOL),
            _ => 8,
        };
        qs.push(format!("{}{}:{}", if r.chance(1, 2) { 'N' } else { 'E' }, o, l));
        stats.q_offset += 1;
    }
    stats.block_lines += 1;
    format!("epo block {} {} {} {}", val(r, 64), ns, es, qs.join(","))
}

fn store_line(r: &mut Rng, stats: &mut Stats) -> String {
    let n_ops = r.range(2, 10);
    let epochs: Vec<u64> = match r.below(4) {
        0 => vec![0, 1, 2, 3],
        1 => vec![u64::MAX, u64::MAX - 1, 0, 5],
        2 => vec![7, 7, 8, 9],
        _ => (0..4).map(|_| val(r, 64)).collect(),
    };
    let mut ops: Vec<String> = Vec::new();
    let mut frozen: Vec<(u64, Vec<u64>, Vec<u64>)> = Vec::new();
    for _ in 0..n_ops {
        match r.below(10) {
            0..=4 => {
                let e = *r.pick(&epochs);
                let mut nk = keys(r, stats);
                nk.truncate(12);
                let mut ek = keys(r, stats);
                ek.truncate(8);
                if frozen.iter().any(|f| f.0 == e) {
                    stats.refreeze += 1;
                }
                ops.push(format!("F{}|{}|{}", e, recs(r, &NODE_WS, &nk), recs(r, &EDGE_WS, &ek)));
                frozen.push((e, nk, ek));
            }
            5..=6 => {
                let m = match r.below(4) {
                    0 => *r.pick(&epochs),
                    1 => r.pick(&epochs).wrapping_add(1),
                    2 => 0,
                    _ => u64::MAX,
                };
                ops.push(format!("G{}", m));
                stats.gc_ops += 1;
            }
            _ => {}
        }
        // observations
        ops.push("k".into());
        if r.chance(1, 2) {
            ops.push("t".into());
        }
        if r.chance(1, 2) {
            ops.push("s".into());
        }
        let e = *r.pick(&epochs);
        ops.push(format!("c{}", e));
        ops.push(format!("b{}", e));
        if let Some(f) = frozen.iter().rev().find(|f| r.0 % 3 != 0 || f.0 == e) {
            let (fe, nk, ek) = f.clone();
            for k in nk.iter().take(3) {
                ops.push(format!("n{}:{}", fe, k));
            }
            for k in ek.iter().take(3) {
                ops.push(format!("e{}:{}", fe, k));
            }
            ops.push(format!("n{}:{}", fe, val(r, 64)));
            ops.push(format!("N{}:{}:{}", fe, r.below(60), r.below(45)));
            ops.push(format!("E{}:{}:{}", fe, r.below(60), r.below(45)));
        }
    }
    stats.store_lines += 1;
    format!("epo store {}", ops.join("/"))
}

fn malformed(r: &mut Rng, stats: &mut Stats) -> String {
    stats.malformed += 1;
    match r.below(8) {
        0 => "epo block 1 1:1.1.0.0.0.0.0 - c".into(),                      // 7 fields
        1 => "epo block 1 1:1.1.0.65536.0.0.0.0 - c".into(),                 // u16 field out of range
        2 => "epo block 1 - 1:1.1.1.4294967296.0.0.0.0 c".into(),            // u32 field out of range
        3 => "epo block 18446744073709551616 - - c".into(),                  // epoch out of range
        4 => "epo block 1 - - q".into(),                                     // unknown query
        5 => "epo store F1|-".into(),
        6 => "epo enc x 1.2.3.4.5.6.7.8".into(),
        _ => "epo block 1 - - n18446744073709551616".into(),
    }
}

fn dec_line(r: &mut Rng, stats: &mut Stats) -> String {
    stats.dec_lines += 1;
    // a valid encoding, then mutated: tag bytes swapped, truncated, extended
    let ws = if r.chance(1, 2) { NODE_WS } else { EDGE_WS };
    let kind = if ws == NODE_WS { "n" } else { "e" };
    let mut bs: Vec<u8> = Vec::new();
    for w in ws.iter() {
        let v = val(r, *w);
        let tag_mode = r.below(12);
        if tag_mode == 0 {
            // a deliberately wide (non-minimal or too wide) tag
            let t = *r.pick(&[251u8, 252, 253, 254, 255]);
            bs.push(t);
            let k = match t {
                251 => 2,
                252 => 4,
                253 => 8,
                _ => 0,
            };
            bs.extend_from_slice(&v.to_le_bytes()[..k]);
        } else if v < 251 {
            bs.push(v as u8);
        } else if v < 65536 {
            bs.push(251);
            bs.extend_from_slice(&(v as u16).to_le_bytes());
        } else if v < 4294967296 {
            bs.push(252);
            bs.extend_from_slice(&(v as u32).to_le_bytes());
        } else {
            bs.push(253);
            bs.extend_from_slice(&v.to_le_bytes());
        }
    }
    match r.below(5) {
        0 => {
            let k = r.below(bs.len() as u64 + 1) as usize;
            bs.truncate(k);
        }
        1 => bs.push(r.below(256) as u8),
        _ => {}
    }
    format!("epo dec {} {}", kind, if bs.is_empty() { "-".to_string() } else { hex(&bs) })
}

pub fn generate(seed: u64, cases: usize, out: &mut Vec<String>) {
    let mut r = Rng::new(seed ^ 0xE90C_57A7_0B10_C15E);
    let mut stats = Stats::default();
    out.push(format!("# case 0 seed {}", seed));
    // fixed boundary lines
    for l in [
        "epo block 1 - - c,h,x,mn0,me0,n0,e0,mn18446744073709551615,me18446744073709551615,N0:0,E0:0,N0:1,i0,j0",
        "epo block 1 1:1.1.0.0.0.0.0.0,2:2.1.0.0.0.0.0.0,3:3.1.0.0.0.0.0.0 10:10.1.2.0.0.0.0.1,20:20.2.3.0.0.0.0.1 c,h,x,n1,n2,n3,n0,n4,e10,e20,e15,i0,i1,i2,i3,j0,j1,j2,mn1,mn3,mn4,me10,me9",
        // unsorted input
        "epo block 7 10:10.7.0.0.0.0.0.0,5:5.7.0.0.0.0.0.0,1:1.7.0.0.0.0.0.0 200:200.5.10.0.0.0.0.7,100:100.1.5.0.0.0.0.7 x,n1,n5,n10,n2,e100,e200,e150,i0,i1,i2,j0,j1",
        // duplicate ids: which record wins
        "epo block 7 5:5.1.0.0.0.0.0.0,5:5.2.0.0.0.0.0.0,5:5.3.0.0.0.0.0.0,4:4.9.0.0.0.0.0.0 - c,x,n5,n4,i0,i1,i2,i3",
        "epo block 7 - 9:9.1.1.0.0.0.0.1,3:3.1.1.0.0.0.0.2,9:9.1.1.0.0.0.0.3,9:9.1.1.0.0.0.0.4 c,x,e9,e3,j0,j1,j2,j3",
        // extreme values in every field
        "epo block 18446744073709551615 18446744073709551615:18446744073709551615.18446744073709551615.4294967295.65535.65535.65535.65535.4294967295,0:0.0.0.0.0.0.0.0 18446744073709551615:18446744073709551615.18446744073709551615.18446744073709551615.4294967295.4294967295.65535.65535.18446744073709551615,0:0.0.0.0.0.0.0.0 c,h,x,n0,n18446744073709551615,n1,n18446744073709551614,e0,e18446744073709551615,mn0,mn18446744073709551615,mn5,i0,i1,j0,j1,N0:8,N8:40,N8:39,N8:41,E0:8,E8:53,E8:52",
        // key differs from the record's own id
        "epo block 3 8:9.3.0.0.0.0.0.0,9:8.3.0.0.0.0.0.0 - n8,n9,i0,i1",
        // varint thresholds
        "epo enc n 250.251.65535.250.251.65535.0.65536",
        "epo enc n 4294967295.4294967296.4294967295.65535.65535.65535.65535.4294967295",
        "epo enc e 18446744073709551615.65536.65535.251.250.251.250.0",
        "epo enc e 0.0.0.0.0.0.0.0",
        // tags the typed decoder must refuse / accept
        "epo dec n 0000fc00000000000000000000",
        "epo dec n 000000fc0100000000000000",
        "epo dec n 000000fb010000000000",
        "epo dec n fd0100000000000000fe0000000000",
        "epo dec n 00ff",
        "epo dec n -",
        "epo dec n 00000000000000",
        "epo dec n 0000000000000000",
        "epo dec n 000000000000000001",
        "epo dec e fb0100fc01000000fd010000000000000000000000fd0000000000000080",
        // store: freeze, read, gc
        "epo store k/t/s/c1/b1/n1:1/G5/k",
        "epo store F1|1:1.1.0.0.0.0.0.0,2:2.1.0.0.0.0.0.0|10:10.1.2.0.0.0.0.1/k/t/s/c1/b1/n1:1/n1:2/n1:3/e1:10/N1:0:3/E1:0:8/n2:1",
        "epo store F1|1:1.1.0.0.0.0.0.0|-/F2|2:2.2.0.0.0.0.0.0|-/F3|3:3.3.0.0.0.0.0.0|-/k/G3/k/t/s/c1/c2/c3/n3:3/n1:1/G3/G4/k/t/s",
        // the same epoch frozen twice: the block is replaced, the counters are bumped twice
        "epo store F1|1:1.1.0.0.0.0.0.0|-/F1|2:2.1.0.0.0.0.0.0|-/k/t/s/n1:1/n1:2/b1/G2/k/t/s",
        "epo store F0|-|-/F0|-|-/k/s/G0/k/G1/k/s",
        "epo store F18446744073709551615|5:5.1.0.0.0.0.0.0|-/G18446744073709551615/k/c18446744073709551615/n18446744073709551615:5",
    ] {
        out.push(l.to_string());
    }
    for case in 0..cases {
        out.push(format!("# case {} seed {}", case + 1, seed));
        let l = match r.below(20) {
            0..=10 => block_line(&mut r, &mut stats),
            11..=15 => store_line(&mut r, &mut stats),
            16 => {
                stats.enc_lines += 1;
                let ws = if r.chance(1, 2) { NODE_WS } else { EDGE_WS };
                let k = val(&mut r, 64);
                format!("epo enc {} {}", if ws == NODE_WS { "n" } else { "e" }, fields(&mut r, &ws, k))
            }
            17..=18 => dec_line(&mut r, &mut stats),
            // (harness-level malformed lines are `bad-op` on both sides and rejected by check.py:
            // the malformed share of this stream is the garbage-bytes `dec` op and the arbitrary
            // (offset, length) reads)
            _ => dec_line(&mut r, &mut stats),
        };
        out.push(l);
    }
    if std::env::var("VH_STATS").is_ok() {
        eprintln!(
            "epo: block={} store={} enc={} dec={} malformed={} | lists: empty={} dup={} >20={} unsorted={} | queries: present={} absent={} offset={} | store: refreeze={} gc={}",
            stats.block_lines,
            stats.store_lines,
            stats.enc_lines,
            stats.dec_lines,
            stats.malformed,
            stats.empty_lists,
            stats.dup_lists,
            stats.big_lists,
            stats.unsorted_lists,
            stats.q_present,
            stats.q_absent,
            stats.q_offset,
            stats.refreeze,
            stats.gc_ops
        );
    }
}
