//! Stream `pers` — persistent GrafeoDB: mutate, checkpoint, close, reopen, dump, copy (C05, C07).
use crate::util::*;
use crate::vals::{tok, untok};
use grafeo_common::types::{EdgeId, NodeId};
use grafeo_engine::database::GrafeoDB;

pub struct PersSt {
    dir: Option<tempfile::TempDir>,
    db: Option<GrafeoDB>,
}

impl PersSt {
    pub fn new() -> Self {
        PersSt { dir: None, db: None }
    }
}

const TOKENS: [&str; 6] = ["I1", "I2", "I-7", "S61", "S", "B1"];

pub fn generate(seed: u64, cases: usize, out: &mut Vec<String>) {
    let mut r = Rng::new(seed ^ 0x70657273);
    for c in 0..cases {
        out.push(format!("# case {} seed {}", c, seed));
        out.push("pers open".into());
        let flavour = r.below(4); // 0: logged API only, 1: + remove property, 2: + query inserts, 3: + mid checkpoints
        let sessions = r.range(1, 3);
        let (mut nn, mut ne) = (0u64, 0u64);
        for s in 0..sessions {
            let len = r.range(3, 18);
            for _ in 0..len {
                let node = |r: &mut Rng, nn: u64| if nn == 0 || r.chance(1, 25) { nn + r.below(2) } else { r.below(nn) };
                match r.below(100) {
                    0..=24 => {
                        out.push(format!("pers cn {}", list_arg(&(0..r.below(3)).map(|_| r.below(3)).collect::<Vec<_>>())));
                        nn += 1;
                    }
                    25..=44 => {
                        // properties go to existing ids (setting one on a missing id is C14's finding)
                        if nn > 0 {
                            out.push(format!("pers snp {} {} {}", r.below(nn), r.below(2), r.pick(&TOKENS)));
                        }
                    }
                    45..=54 => {
                        if nn > 0 {
                            out.push(format!("pers ce {} {} {}", r.below(nn), r.below(nn), r.below(2)));
                            ne += 1;
                        }
                    }
                    55..=59 => {
                        if ne > 0 {
                            out.push(format!("pers sep {} 0 {}", r.below(ne), r.pick(&TOKENS)));
                        }
                    }
                    60..=64 => out.push(format!("pers de {}", if ne == 0 { 0 } else { r.below(ne + 1) })),
                    65..=69 => out.push(format!("pers dn {}", node(&mut r, nn))),
                    70..=75 => out.push(format!("pers al {} {}", node(&mut r, nn), r.below(3))),
                    76..=79 => out.push(format!("pers rl {} {}", node(&mut r, nn), r.below(3))),
                    80..=86 => {
                        if flavour >= 1 {
                            out.push(format!("pers rnp {} {}", node(&mut r, nn), r.below(2)));
                        }
                    }
                    87..=92 => {
                        if flavour == 2 {
                            out.push(format!("pers qins {} {} {}", r.below(3), r.below(2), r.pick(&["I1", "I2", "I3"])));
                            nn += 1;
                        }
                    }
                    _ => {
                        if flavour == 3 {
                            out.push("pers ckpt".into());
                        } else if flavour == 0 && r.chance(1, 2) {
                            // the log moves on to its next file (what happens by itself at 64 MB)
                            out.push("pers rotate".into());
                        }
                    }
                }
            }
            // a burst of log rotations (three or more files behind the active one), with writes in
            // between: the checkpoint that close() takes must not lose the oldest files
            if r.chance(1, 5) {
                for _ in 0..r.range(3, 5) {
                    out.push("pers rotate".into());
                    if r.chance(1, 2) {
                        out.push(format!("pers cn {}", r.below(3)));
                        nn += 1;
                    }
                }
                if r.chance(1, 2) {
                    out.push("pers ckpt".into());
                }
            }
            out.push("pers dump".into());
            if r.chance(1, 3) {
                out.push(format!("pers copy {}", r.pick(&["expimp", "tomem", "save"])));
            }
            if r.chance(1, 3) {
                out.push(format!("pers copyadd {} {}", r.pick(&["expimp", "tomem", "save", "save"]), r.range(1, 3)));
            }
            out.push("pers close".into());
            out.push("pers reopen".into());
            out.push("pers dump".into());
            // let the specification follow what is really there, so later sessions are judged on their own
            out.push("pers resync".into());
            let _ = s;
        }
        out.push("pers close".into());
    }
}

fn code(s: &str) -> u64 {
    s[1..].parse().unwrap()
}

fn dump(db: &GrafeoDB) -> String {
    let mut ns: Vec<(u64, String)> = db
        .iter_nodes()
        .map(|n| {
            let mut ls: Vec<u64> = n.labels.iter().map(|l| code(l.as_str())).collect();
            ls.sort_unstable();
            let mut ps: Vec<(u64, String)> = n.properties.iter().map(|(k, v)| (code(k.as_str()), tok(v))).collect();
            ps.sort();
            (
                n.id.as_u64(),
                format!("{}:{}:{}", n.id.as_u64(), join(&ls), ps.iter().map(|(k, v)| format!("{}={}", k, v)).collect::<Vec<_>>().join(",")),
            )
        })
        .collect();
    ns.sort();
    let mut es: Vec<(u64, String)> = db
        .iter_edges()
        .map(|e| {
            let mut ps: Vec<(u64, String)> = e.properties.iter().map(|(k, v)| (code(k.as_str()), tok(v))).collect();
            ps.sort();
            (
                e.id.as_u64(),
                format!(
                    "{}:{}>{}:{}:{}",
                    e.id.as_u64(),
                    e.src.as_u64(),
                    e.dst.as_u64(),
                    code(e.edge_type.as_str()),
                    ps.iter().map(|(k, v)| format!("{}={}", k, v)).collect::<Vec<_>>().join(",")
                ),
            )
        })
        .collect();
    es.sort();
    // adjacency as the traversal paths see it (what an incoming / outgoing pattern walks over)
    let store = db.store();
    let adj: Vec<String> = ns
        .iter()
        .map(|(id, _)| {
            let nid = grafeo_common::types::NodeId::new(*id);
            let mut o: Vec<(u64, u64)> = store.edges_from(nid, grafeo_core::graph::Direction::Outgoing).map(|(n, e)| (e.as_u64(), n.as_u64())).collect();
            let mut i: Vec<(u64, u64)> = store.edges_from(nid, grafeo_core::graph::Direction::Incoming).map(|(n, e)| (e.as_u64(), n.as_u64())).collect();
            o.sort_unstable();
            i.sort_unstable();
            let f = |v: &Vec<(u64, u64)>| v.iter().map(|(e, n)| format!("{}.{}", e, n)).collect::<Vec<_>>().join(",");
            format!("{}>{}<{}", id, f(&o), f(&i))
        })
        .collect();
    format!(
        "{}|{}|{}",
        ns.iter().map(|x| x.1.clone()).collect::<Vec<_>>().join(";"),
        es.iter().map(|x| x.1.clone()).collect::<Vec<_>>().join(";"),
        adj.join(";")
    )
}

pub fn run(st: &mut PersSt, args: &[&str]) -> String {
    let a = args.to_vec();
    guarded(move || {
        let nid = |x: &str| NodeId::new(x.parse().unwrap());
        let eid = |x: &str| EdgeId::new(x.parse().unwrap());
        if a.as_slice() == ["open"] {
            st.db = None;
            let dir = tempfile::tempdir().unwrap();
            st.db = Some(GrafeoDB::open(dir.path().join("db")).unwrap());
            st.dir = Some(dir);
            return "-".into();
        }
        if a.as_slice() == ["reopen"] {
            st.db = None; // Drop closes if still open
            let p = st.dir.as_ref().unwrap().path().join("db");
            st.db = Some(GrafeoDB::open(p).unwrap());
            return "-".into();
        }
        let db = st.db.as_ref().expect("database not open");
        match a.as_slice() {
            ["cn", ls] => {
                let labels: Vec<String> = parse_u64s(ls).unwrap().iter().map(|c| format!("L{}", c)).collect();
                let refs: Vec<&str> = labels.iter().map(|x| x.as_str()).collect();
                format!("{}", db.create_node(&refs).as_u64())
            }
            ["snp", id, k, v] => {
                db.set_node_property(nid(id), &format!("k{}", k), untok(v));
                "-".into()
            }
            ["rnp", id, k] => match db.remove_node_property(nid(id), &format!("k{}", k)) {
                true => "removed".into(),
                false => "none".into(),
            },
            ["dn", id] => format!("{}", db.delete_node(nid(id))),
            ["ce", s, d, t] => format!("{}", db.create_edge(nid(s), nid(d), &format!("T{}", t)).as_u64()),
            ["de", id] => format!("{}", db.delete_edge(eid(id))),
            ["sep", id, k, v] => {
                db.set_edge_property(eid(id), &format!("k{}", k), untok(v));
                "-".into()
            }
            ["al", id, l] => format!("{}", db.add_node_label(nid(id), &format!("L{}", l))),
            ["rl", id, l] => format!("{}", db.remove_node_label(nid(id), &format!("L{}", l))),
            ["qins", l, k, v] => {
                let lit = match untok(v) {
                    grafeo_common::types::Value::Int64(i) => i.to_string(),
                    other => panic!("unsupported literal {:?}", other),
                };
                let q = format!("INSERT (:L{} {{k{}: {}}})", l, k, lit);
                let before: std::collections::BTreeSet<u64> = db.iter_nodes().map(|n| n.id.as_u64()).collect();
                db.execute(&q).unwrap();
                let after: Vec<u64> = db.iter_nodes().map(|n| n.id.as_u64()).filter(|i| !before.contains(i)).collect();
                assert_eq!(after.len(), 1, "INSERT should create exactly one node");
                format!("{}", after[0])
            }
            ["ckpt"] => {
                db.wal_checkpoint().unwrap();
                "-".into()
            }
            ["rotate"] => {
                db.wal().expect("persistent database").rotate().unwrap();
                "-".into()
            }
            ["close"] => {
                db.close().unwrap();
                "-".into()
            }
            ["dump"] => dump(db),
            ["resync"] => "-".into(),
            ["copy", kind] => match *kind {
                "expimp" => {
                    let bytes = db.export_snapshot().unwrap();
                    // deterministic, and the source is unchanged
                    assert_eq!(bytes, db.export_snapshot().unwrap());
                    dump(&GrafeoDB::import_snapshot(&bytes).unwrap())
                }
                "tomem" => dump(&db.to_memory().unwrap()),
                _ => {
                    let d2 = tempfile::tempdir().unwrap();
                    let p = d2.path().join("copy");
                    db.save(&p).unwrap();
                    let c = GrafeoDB::open(&p).unwrap();
                    dump(&c)
                }
            },
            ["copyadd", kind, n] => {
                let n: usize = n.parse().unwrap();
                let _keep;
                let c = match *kind {
                    "expimp" => GrafeoDB::import_snapshot(&db.export_snapshot().unwrap()).unwrap(),
                    "tomem" => db.to_memory().unwrap(),
                    _ => {
                        let d2 = tempfile::tempdir().unwrap();
                        let p = d2.path().join("copy");
                        db.save(&p).unwrap();
                        let c = GrafeoDB::open(&p).unwrap();
                        _keep = d2;
                        c
                    }
                };
                let mut ids: Vec<u64> = c.iter_nodes().map(|n| n.id.as_u64()).collect();
                ids.sort_unstable();
                match (ids.first(), ids.last()) {
                    (Some(a), Some(b)) => {
                        let made: Vec<String> =
                            (0..n).map(|_| c.create_edge(NodeId::new(*a), NodeId::new(*b), "T0").as_u64().to_string()).collect();
                        format!("{}|{}", made.join(","), dump(&c))
                    }
                    _ => "-".into(),
                }
            }
            _ => "bad-op".into(),
        }
    })
}
