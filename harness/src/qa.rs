//! Stream `qa` — grouping / aggregates through GQL and Cypher, and the same core questions asked
//! through the Gremlin and GraphQL front ends (C08). Graphs travel in the op line in `q`'s format.
//!
//! * `qa agg nodes edges start hops preds items ord skip lim lang`
//! * `qa gremlin nodes edges start hops preds order skip lim proj dedup agg`
//! * `qa graphql nodes edges label hops preds cols order skip first`
//! * `qa gqlstar nodes edges label t1 t2`
//! * `qa cross nodes edges label hops preds key` (one question, four languages: `gql/cypher/gremlin/graphql`)
//! * `qa raw nodes edges lang <hex query text>` (debugging aid: columns and rows as returned)
#![allow(unused)]
use crate::q::{GEdge, GNode, build_db, edges_arg, gen_graph, gen_query, nodes_arg, parse_edges, parse_nodes};
use crate::util::*;
use crate::vals::tok;
use grafeo_common::types::Value;

const VARS: [&str; 3] = ["a", "b", "c"];

// ------------------------------------------------------------------ result rendering

pub fn tokv(v: &Value) -> String {
    match v {
        Value::List(l) => {
            let mut xs: Vec<String> = l.iter().map(tokv).collect();
            xs.sort();
            format!("L[{}]", xs.join(","))
        }
        Value::Float64(f) if f.is_nan() => "Fnan".into(),
        other => tok(other),
    }
}

fn show_rows(ordered: bool, rows: &[Vec<Value>]) -> String {
    let mut rs: Vec<String> = rows.iter().map(|r| r.iter().map(tokv).collect::<Vec<_>>().join("|")).collect();
    if !ordered {
        rs.sort();
    }
    if rs.is_empty() { "norows".into() } else { rs.join(";") }
}

fn show_result(ordered: bool, res: grafeo_common::utils::error::Result<grafeo_engine::database::QueryResult>) -> String {
    match res {
        Ok(r) => show_rows(ordered, &r.rows),
        Err(e) => {
            let m = e.to_string().to_lowercase();
            let kind = if m.contains("syntax") {
                "syntax"
            } else if m.contains("semantic") {
                "semantic"
            } else if m.contains("internal") {
                "internal"
            } else {
                "other"
            };
            format!("error:{}", kind)
        }
    }
}

// ------------------------------------------------------------------ query text

fn lit_q(v: &str, dq: bool) -> String {
    match crate::vals::untok(v) {
        Value::Int64(i) => i.to_string(),
        Value::String(s) => if dq { format!("\"{}\"", s) } else { format!("'{}'", s) },
        Value::Null => "null".into(),
        other => panic!("literal {:?}", other),
    }
}

/// `MATCH … [WHERE …]` of the core fragment (q.rs renders it; the RETURN part is replaced).
fn match_where(start: &str, hops: &str, preds: &str) -> String {
    let t = crate::q::render(start, hops, preds, "c", "0", "-", "-", "-");
    t.strip_suffix(" RETURN count(a)").expect("render shape").to_string()
}

fn item_text(it: &str) -> String {
    let vk = |s: &str| {
        let (v, k) = s.split_once('.').unwrap();
        format!("{}.k{}", VARS[v.parse::<usize>().unwrap()], k)
    };
    let (f, arg) = it.split_once(':').unwrap_or((it, ""));
    match f {
        "key" => vk(arg),
        "cstar" => "count(*)".into(),
        "cntv" => format!("count({})", VARS[arg.parse::<usize>().unwrap()]),
        "cntvd" => format!("count(DISTINCT {})", VARS[arg.parse::<usize>().unwrap()]),
        "cnt" => format!("count({})", vk(arg)),
        "cntd" => format!("count(DISTINCT {})", vk(arg)),
        "sum" => format!("sum({})", vk(arg)),
        "sumd" => format!("sum(DISTINCT {})", vk(arg)),
        "avg" => format!("avg({})", vk(arg)),
        "avgd" => format!("avg(DISTINCT {})", vk(arg)),
        "min" => format!("min({})", vk(arg)),
        "max" => format!("max({})", vk(arg)),
        "col" => format!("collect({})", vk(arg)),
        "cold" => format!("collect(DISTINCT {})", vk(arg)),
        other => panic!("item {other}"),
    }
}

pub fn render_agg(start: &str, hops: &str, preds: &str, items: &str, ord: &str, skip: &str, lim: &str) -> String {
    let mut s = match_where(start, hops, preds);
    let its: Vec<&str> = items.split(',').collect();
    let cols: Vec<String> = its
        .iter()
        .enumerate()
        .map(|(i, it)| if it.starts_with("key:") { item_text(it) } else { format!("{} AS x{}", item_text(it), i) })
        .collect();
    s += &format!(" RETURN {}", cols.join(", "));
    if ord != "-" {
        let os: Vec<String> = ord
            .split(',')
            .map(|o| {
                let (i, d) = o.split_at(o.len() - 1);
                let i: usize = i.parse().unwrap();
                let e = if its[i].starts_with("key:") { item_text(its[i]) } else { format!("x{}", i) };
                format!("{}{}", e, if d == "d" { " DESC" } else { "" })
            })
            .collect();
        s += &format!(" ORDER BY {}", os.join(", "));
    }
    if skip != "-" {
        s += &format!(" SKIP {}", skip);
    }
    if lim != "-" {
        s += &format!(" LIMIT {}", lim);
    }
    s
}

fn has_steps(preds: &str, var: usize) -> String {
    let mut s = String::new();
    if preds == "-" {
        return s;
    }
    for p in preds.split(',') {
        let f: Vec<&str> = p.split('/').collect();
        if f[1].parse::<usize>().unwrap() != var {
            continue;
        }
        let key = format!("k{}", f[2]);
        match f[0] {
            "c" => {
                let op = match f[3] {
                    "eq" => "eq",
                    "ne" => "neq",
                    "lt" => "lt",
                    "le" => "lte",
                    "gt" => "gt",
                    _ => "gte",
                };
                s += &format!(".has('{}', {}({}))", key, op, lit_q(f[4], false));
            }
            "y" => s += &format!(".has('{}')", key),
            "z" => s += &format!(".hasNot('{}')", key),
            other => panic!("gremlin predicate {other}"),
        }
    }
    s
}

pub fn render_gremlin(start: &str, hops: &str, preds: &str, order: &str, skip: &str, lim: &str, proj: &str, dedup: &str, agg: &str) -> String {
    let mut s = String::from("g.V()");
    if start != "*" {
        s += &format!(".hasLabel('L{}')", start);
    }
    s += &has_steps(preds, 0);
    if hops != "-" {
        for (i, h) in hops.split(',').enumerate() {
            let p: Vec<&str> = h.split('/').collect();
            let step = match p[1] {
                "o" => "out",
                "i" => "in",
                _ => "both",
            };
            let ty = if p[0] == "*" { String::new() } else { format!("'T{}'", p[0]) };
            s += &format!(".{}({})", step, ty);
            if p[2] != "*" {
                s += &format!(".hasLabel('L{}')", p[2]);
            }
            s += &has_steps(preds, i + 1);
        }
    }
    if dedup == "n" {
        s += ".dedup()";
    }
    if order != "-" {
        let (k, d) = order.split_at(order.len() - 1);
        s += &format!(".order().by('k{}', {})", k, if d == "d" { "desc" } else { "asc" });
    }
    match (skip, lim) {
        ("-", "-") => {}
        ("-", n) => s += &format!(".limit({})", n),
        (k, "-") => s += &format!(".skip({})", k),
        (k, n) => {
            let k: u64 = k.parse().unwrap();
            let n: u64 = n.parse().unwrap();
            s += &format!(".range({}, {})", k, k + n);
        }
    }
    if proj != "-" {
        s += &format!(".values('k{}')", proj);
    }
    if dedup == "v" {
        s += ".dedup()";
    }
    if agg != "-" {
        s += &format!(".{}()", agg);
    }
    s
}

fn gql_args(preds: &str, var: usize, extra: &[String]) -> String {
    let mut direct: Vec<String> = vec![];
    let mut wh: Vec<String> = vec![];
    if preds != "-" {
        for p in preds.split(',') {
            let f: Vec<&str> = p.split('/').collect();
            if f[1].parse::<usize>().unwrap() != var {
                continue;
            }
            assert_eq!(f[0], "c", "graphql predicate");
            let v = lit_q(f[4], true);
            match f[3] {
                "eq" => direct.push(format!("k{}: {}", f[2], v)),
                "ne" => wh.push(format!("k{}_ne: {}", f[2], v)),
                "lt" => wh.push(format!("k{}_lt: {}", f[2], v)),
                "le" => wh.push(format!("k{}_lte: {}", f[2], v)),
                "gt" => wh.push(format!("k{}_gt: {}", f[2], v)),
                _ => wh.push(format!("k{}_gte: {}", f[2], v)),
            }
        }
    }
    let mut all = direct;
    if !wh.is_empty() {
        all.push(format!("where: {{{}}}", wh.join(", ")));
    }
    all.extend(extra.iter().cloned());
    if all.is_empty() { String::new() } else { format!("({})", all.join(", ")) }
}

pub fn render_graphql(label: &str, hops: &str, preds: &str, cols: &str, order: &str, skip: &str, first: &str) -> String {
    let hs: Vec<&str> = if hops == "-" { vec![] } else { hops.split(',').collect() };
    let level_cols = |lvl: usize| -> String {
        cols.split(',')
            .filter_map(|c| {
                let (v, k) = c.split_once('.').unwrap();
                if v.parse::<usize>().unwrap() == lvl { Some(format!("k{}", k)) } else { None }
            })
            .collect::<Vec<_>>()
            .join(" ")
    };
    // innermost level first
    let mut body = format!("{{ {} }}", level_cols(hs.len()));
    for lvl in (0..hs.len()).rev() {
        let p: Vec<&str> = hs[lvl].split('/').collect();
        assert!(p[1] == "o" && p[2] == "*" && p[0] != "*", "graphql hop");
        let nested = format!("T{}{} {}", p[0], gql_args(preds, lvl + 1, &[]), body);
        let sc = level_cols(lvl);
        body = if sc.is_empty() { format!("{{ {} }}", nested) } else { format!("{{ {} {} }}", sc, nested) };
    }
    let mut extra = vec![];
    if order != "-" {
        let (k, d) = order.split_at(order.len() - 1);
        extra.push(format!("orderBy: {{k{}: {}}}", k, if d == "d" { "DESC" } else { "ASC" }));
    }
    if skip != "-" {
        extra.push(format!("skip: {}", skip));
    }
    if first != "-" {
        extra.push(format!("first: {}", first));
    }
    format!("{{ l{}{} {} }}", label, gql_args(preds, 0, &extra), body)
}

// ------------------------------------------------------------------ generator

/// heterogeneous values on top of `gen_graph`'s: numeric strings, floats-in-strings, large integers
fn spice(r: &mut Rng, nodes: &mut [GNode]) {
    let exotic = [
        "S37", "S3130", "S39", "S322e35", "S316532", "S2d33", "S30", "S2e35", "S696e66", "S6e616e", "S2b34", "S3165", // "7" "10" "9" "2.5" "1e2" "-3" "0" ".5" "inf" "nan" "+4" "1e"
        "I4611686018427387904", "I9223372036854775807", "I-9223372036854775808", "I9007199254740993", "I0", "I-1",
    ];
    for n in nodes.iter_mut() {
        for p in n.props.iter_mut() {
            if p.0 != 9 && r.chance(1, 3) {
                p.1 = r.pick(&exotic).to_string();
            }
        }
    }
}

/// Key 3 is the numeric column: Int64 and Float64 values mixed, from a small pool with numeric
/// ties across the kinds (5 and 5.0, 0 and 0.0 and -0.0), a float beyond 2^53, negatives, and now
/// and then an infinity or a NaN. Predicates never look at it (the core model has no floats).
fn add_numeric_column(r: &mut Rng, nodes: &mut [GNode]) {
    let f = |x: f64| format!("F{:016x}", x.to_bits());
    let common = [
        "I5".to_string(), f(5.0), f(2.5), f(1.0), "I1".to_string(), f(-0.0), f(0.0), "I0".to_string(), f(7.5),
        "I7".to_string(), f(-3.5), "I-3".to_string(), f(9007199254740994.0), "I2".to_string(), f(2.5), f(5.0),
    ];
    let rare = [f(f64::INFINITY), f(f64::NAN), f(f64::NEG_INFINITY), f(9007199254740992.0), "I9007199254740993".to_string(), f(0.1), f(0.2)];
    let exotic = r.chance(1, 6);
    for n in nodes.iter_mut() {
        if r.chance(9, 10) {
            let v = if exotic && r.chance(1, 4) { r.pick(&rare).clone() } else { r.pick(&common).clone() };
            n.props.push((3, v));
        }
    }
}

/// the property key of an aggregate or a group key: the numeric column often
fn pick_key(r: &mut Rng) -> u64 {
    if r.chance(11, 20) { 3 } else { r.below(3) }
}

fn gen_items(r: &mut Rng, nvars: u64) -> (String, String, String, String) {
    let nkeys = *r.pick(&[0usize, 0, 0, 1, 1, 1, 1, 2]);
    let unique_keys = nkeys > 0 && r.chance(1, 3);
    let mut keys: Vec<String> = vec![];
    for i in 0..nkeys {
        let k = if unique_keys {
            if (i as u64) >= nvars {
                break;
            }
            format!("key:{}.9", i)
        } else {
            format!("key:{}.{}", r.below(nvars), if r.chance(1, 4) { 3 } else { r.below(3) })
        };
        if !keys.contains(&k) {
            keys.push(k);
        }
    }
    let fns = ["cnt", "cnt", "cntd", "sum", "sum", "sumd", "avg", "avg", "avgd", "min", "min", "max", "max", "col", "cold", "cntv", "cntvd"];
    let mut aggs: Vec<String> = vec![];
    for _ in 0..r.range(1, 3) {
        if r.chance(1, 80) {
            aggs.push("cstar".into());
            continue;
        }
        let f = *r.pick(&fns);
        if f == "cntv" || f == "cntvd" {
            aggs.push(format!("{}:{}", f, r.below(nvars)));
        } else {
            aggs.push(format!("{}:{}.{}", f, r.below(nvars), if r.chance(1, 8) { 9 } else { pick_key(r) }));
        }
    }
    let nk = keys.len();
    let mut items: Vec<String> = keys.into_iter().chain(aggs.into_iter()).collect();
    if r.chance(1, 6) {
        // interleave: RETURN order differs from "keys first"
        for i in (1..items.len()).rev() {
            let j = r.below(i as u64 + 1) as usize;
            items.swap(i, j);
        }
    }
    // ORDER BY only where it is total: every key is the unique key of a distinct variable
    let (mut ord, mut skip, mut lim) = ("-".to_string(), "-".to_string(), "-".to_string());
    if unique_keys && nk > 0 && r.chance(2, 3) {
        let mut os: Vec<String> = vec![];
        if r.chance(1, 2) {
            if let Some(i) = items.iter().position(|it| it.starts_with("cnt")) {
                os.push(format!("{}{}", i, r.pick(&["a", "d"])));
            }
        }
        for (i, it) in items.iter().enumerate() {
            if it.starts_with("key:") {
                os.push(format!("{}{}", i, r.pick(&["a", "a", "d"])));
            }
        }
        ord = os.join(",");
        if r.chance(1, 2) {
            if r.chance(1, 2) {
                skip = r.below(3).to_string();
            }
            if r.chance(2, 3) {
                lim = r.below(4).to_string();
            }
        }
    }
    (items.join(","), ord, skip, lim)
}

fn nvars_of(hops: &str) -> u64 {
    if hops == "-" { 1 } else { hops.split(',').count() as u64 + 1 }
}

/// A denser graph than `q::gen_graph`: most vertices carry labels and properties from a small
/// domain (so that groups have several members), more edges, parallel edges and self-loops.
fn gen_graph2(r: &mut Rng) -> (Vec<GNode>, Vec<GEdge>) {
    let nn = match r.below(30) {
        0 => 0,
        1 => 1,
        _ => r.range(3, 10),
    };
    let vals = ["I1", "I2", "I2", "I3", "I5", "S61", "S62", "I-4"];
    let nodes: Vec<GNode> = (0..nn)
        .map(|id| {
            let mut labels: Vec<u64> = if r.chance(1, 10) { vec![] } else { (0..r.range(1, 2)).map(|_| r.below(3)).collect() };
            labels.sort_unstable();
            labels.dedup();
            let mut props = vec![(9u64, format!("I{}", id * 10))];
            for k in 0..3 {
                if r.chance(7, 10) {
                    props.push((k, r.pick(&vals).to_string()));
                }
            }
            GNode { id, labels, props }
        })
        .collect();
    let ne = if nn == 0 { 0 } else { r.below(2 * nn + 3) };
    let edges: Vec<GEdge> = (0..ne)
        .map(|id| {
            let s = r.below(nn);
            let d = if r.chance(1, 8) { s } else { r.below(nn) };
            GEdge { id, src: s, dst: d, ty: r.below(2) }
        })
        .collect();
    (nodes, edges)
}

/// start label, hops, predicates of a core pattern that matches often
fn gen_core(r: &mut Rng, typed_out_only: bool) -> (String, String, String) {
    let lab = |r: &mut Rng, p: u64| if r.chance(p, 10) { "*".to_string() } else { r.below(3).to_string() };
    let start = lab(r, 6);
    let nh = *r.pick(&[0usize, 0, 0, 1, 1, 1, 1, 2, 2]);
    let hops: Vec<String> = (0..nh)
        .map(|_| {
            if typed_out_only {
                format!("{}/o/*", r.below(2))
            } else {
                format!("{}/{}/{}", if r.chance(3, 5) { "*".to_string() } else { r.below(2).to_string() }, r.pick(&["o", "o", "i", "b"]), lab(r, 8))
            }
        })
        .collect();
    let np = *r.pick(&[0u64, 0, 0, 0, 1, 1, 1, 2]);
    let lits = ["I1", "I2", "I3", "I5", "S61", "S62"];
    let mut preds: Vec<String> = vec![];
    let mut seen: Vec<(u64, u64, String)> = vec![];
    for _ in 0..np {
        let v = r.below(nh as u64 + 1);
        let k = r.below(3);
        let op = r.pick(&["eq", "ne", "ne", "lt", "le", "gt", "ge", "ge"]).to_string();
        if seen.contains(&(v, k, op.clone())) {
            continue;
        }
        seen.push((v, k, op.clone()));
        preds.push(format!("c/{}/{}/{}/{}", v, k, op, r.pick(&lits)));
    }
    (start, list_arg(&hops), list_arg(&preds))
}

pub fn generate(seed: u64, cases: usize, out: &mut Vec<String>) {
    let mut r = Rng::new(seed ^ 0x7161);
    for c in 0..cases {
        out.push(format!("# case {} seed {}", c, seed));
        let (mut nodes, edges) = if r.chance(1, 4) { gen_graph(&mut r) } else { gen_graph2(&mut r) };
        if r.chance(1, 3) {
            spice(&mut r, &mut nodes);
        }
        add_numeric_column(&mut r, &mut nodes);
        let (na, ea) = (nodes_arg(&nodes), edges_arg(&edges));
        // ---- grouping / aggregates, GQL and Cypher
        for i in 0..4 {
            let (mut start, mut hops, mut preds) = if i == 0 {
                let (s, h, p, _, _, _, _, _) = gen_query(&mut r);
                (s, h, p)
            } else {
                gen_core(&mut r, false)
            };
            let (mut items, mut ord, mut skip, mut lim) = gen_items(&mut r, nvars_of(&hops));
            if i == 3 && r.chance(1, 3) {
                // counts over variables on a two-hop chain (the planner's factorized aggregate)
                let lab = |r: &mut Rng| if r.chance(3, 4) { "*".to_string() } else { r.below(3).to_string() };
                start = if r.chance(1, 2) { "*".to_string() } else { r.below(3).to_string() };
                hops = (0..2)
                    .map(|_| format!("{}/{}/{}", if r.chance(1, 2) { "*".to_string() } else { r.below(2).to_string() }, r.pick(&["o", "o", "i", "b"]), lab(&mut r)))
                    .collect::<Vec<_>>()
                    .join(",");
                preds = match r.below(4) {
                    0 => format!("c/0/{}/{}/I2", r.below(3), r.pick(&["ge", "ne", "lt"])),
                    1 => format!("c/{}/{}/{}/I2", r.below(3), r.below(3), r.pick(&["ge", "ne", "lt"])),
                    _ => "-".to_string(),
                };
                items = (0..r.range(1, 2)).map(|_| format!("{}:{}", r.pick(&["cntv", "cntvd", "cntvd"]), r.below(3))).collect::<Vec<_>>().join(",");
                ord = "-".into();
                skip = "-".into();
                lim = "-".into();
            }
            for lang in ["gql", "cypher"] {
                if lang == "gql" && (preds.contains("z/") || preds.contains("y/")) {
                    continue;
                }
                out.push(format!("qa agg {} {} {} {} {} {} {} {} {} {}", na, ea, start, hops, preds, items, ord, skip, lim, lang));
            }
        }
        // ---- the numeric column on its own: aggregates over Int64 and Float64 values of one group
        if r.chance(2, 3) {
            let hops = if r.chance(2, 3) { "-".to_string() } else { format!("*/{}/*", r.pick(&["o", "i", "b"])) };
            let last = nvars_of(&hops) - 1;
            let mut items: Vec<String> = vec![];
            if r.chance(1, 2) {
                items.push(format!("key:0.{}", r.below(3)));
            }
            let fns = ["min", "max", "sum", "avg", "cntd", "cold", "sumd", "avgd", "col", "cnt"];
            for _ in 0..r.range(2, 3) {
                items.push(format!("{}:{}.3", r.pick(&fns), last));
            }
            let lang = *r.pick(&["gql", "cypher"]);
            out.push(format!("qa agg {} {} * {} - {} - - - {}", na, ea, hops, items.join(","), lang));
        }
        // ---- Gremlin
        for i in 0..3 {
            let (start, hops, preds) = if i == 0 {
                let (s, h, p, _, _, _, _, _) = gen_query(&mut r);
                let ps: Vec<&str> = if p == "-" { vec![] } else { p.split(',').filter(|x| !x.starts_with("n/")).collect() };
                (s, h, if ps.is_empty() { "-".to_string() } else { ps.join(",") })
            } else {
                gen_core(&mut r, false)
            };
            let order = if r.chance(2, 5) { format!("9{}", r.pick(&["a", "d"])) } else { "-".to_string() };
            let (skip, lim) = if order != "-" && r.chance(1, 2) {
                (if r.chance(1, 2) { r.below(3).to_string() } else { "-".into() }, if r.chance(2, 3) { r.below(4).to_string() } else { "-".into() })
            } else {
                ("-".into(), "-".into())
            };
            let proj = if r.chance(3, 4) { if r.chance(2, 5) { "9".to_string() } else { r.below(3).to_string() } } else { "-".to_string() };
            let dedup = if proj != "-" { *r.pick(&["0", "0", "0", "n", "v"]) } else { *r.pick(&["0", "0", "n"]) };
            let agg = if proj != "-" { *r.pick(&["-", "-", "-", "count", "sum", "mean", "min", "max"]) } else { *r.pick(&["-", "-", "count"]) };
            out.push(format!("qa gremlin {} {} {} {} {} {} {} {} {} {} {}", na, ea, start, hops, preds, order, skip, lim, proj, dedup, agg));
        }
        // ---- GraphQL
        let present: Vec<u64> = {
            let mut ls: Vec<u64> = nodes.iter().flat_map(|n| n.labels.iter().copied()).collect();
            ls.sort_unstable();
            ls.dedup();
            ls
        };
        let pick_label = |r: &mut Rng| if !present.is_empty() && r.chance(9, 10) { *r.pick(&present) } else { r.below(3) };
        for _ in 0..2 {
            let label = pick_label(&mut r);
            let (_, hops, preds) = gen_core(&mut r, true);
            let nh = if hops == "-" { 0 } else { hops.split(',').count() };
            let mut cols: Vec<String> = vec![];
            for lvl in 0..=nh {
                for k in [9u64, 0, 1, 2] {
                    let want = if k == 9 { lvl == nh || r.chance(2, 3) } else { r.chance(1, 3) };
                    if want {
                        cols.push(format!("{}.{}", lvl, k));
                    }
                }
            }
            let order = if r.chance(1, 10) { format!("9{}", r.pick(&["a", "d"])) } else { "-".to_string() };
            // a window over tied rows is not determined: skip / first with orderBy only without hops
            let (skip, first) = if r.chance(1, 5) && (order == "-" || hops == "-") {
                (if r.chance(1, 2) { r.below(3).to_string() } else { "-".into() }, if r.chance(2, 3) { r.below(4).to_string() } else { "-".into() })
            } else {
                ("-".into(), "-".into())
            };
            out.push(format!("qa graphql {} {} {} {} {} {} {} {} {}", na, ea, label, hops, preds, cols.join(","), order, skip, first));
        }
        // ---- one question, four languages
        {
            let (_, hops, preds) = gen_core(&mut r, true);
            let key = if r.chance(2, 3) { 9 } else { r.below(3) };
            out.push(format!("qa cross {} {} {} {} {} {}", na, ea, pick_label(&mut r), hops, preds, key));
        }
        if r.chance(1, 3) {
            out.push(format!("qa gqlstar {} {} {} {} {}", na, ea, pick_label(&mut r), r.below(2), r.below(2)));
        }
    }
}

// ------------------------------------------------------------------ run

pub fn run(args: &[&str]) -> String {
    let a = args.to_vec();
    guarded(move || match a.as_slice() {
        ["agg", nodes, edges, start, hops, preds, items, ord, skip, lim, lang] => {
            let db = build_db(&parse_nodes(nodes), &parse_edges(edges));
            let text = render_agg(start, hops, preds, items, ord, skip, lim);
            let s = db.session();
            let res = if *lang == "gql" { s.execute(&text) } else { s.execute_cypher(&text) };
            show_result(*ord != "-", res)
        }
        ["gremlin", nodes, edges, start, hops, preds, order, skip, lim, proj, dedup, agg] => {
            let db = build_db(&parse_nodes(nodes), &parse_edges(edges));
            let text = render_gremlin(start, hops, preds, order, skip, lim, proj, dedup, agg);
            let s = db.session();
            show_result(*order != "-" && *agg == "-" && *dedup != "v", s.execute_gremlin(&text))
        }
        ["graphql", nodes, edges, label, hops, preds, cols, order, skip, first] => {
            let db = build_db(&parse_nodes(nodes), &parse_edges(edges));
            let text = render_graphql(label, hops, preds, cols, order, skip, first);
            let s = db.session();
            // rows of one root object tie on the sort key: compare as a set when there are hops
            show_result(*order != "-" && *hops == "-", s.execute_graphql(&text))
        }
        ["cross", nodes, edges, label, hops, preds, key] => {
            let last = if *hops == "-" { 0 } else { hops.split(',').count() };
            let col = format!("{}.{}", last, key);
            let core = crate::q::render(label, hops, preds, &col, "0", "-", "-", "-");
            let mut outs = vec![];
            for lang in ["gql", "cypher", "gremlin", "graphql"] {
                let db = build_db(&parse_nodes(nodes), &parse_edges(edges));
                let s = db.session();
                let res = match lang {
                    "gql" => s.execute(&core),
                    "cypher" => s.execute_cypher(&core),
                    "gremlin" => s.execute_gremlin(&render_gremlin(label, hops, preds, "-", "-", "-", key, "0", "-")),
                    _ => s.execute_graphql(&render_graphql(label, hops, preds, &col, "-", "-", "-")),
                };
                outs.push(show_result(false, res));
            }
            outs.join("/")
        }
        ["gqlstar", nodes, edges, label, t1, t2] => {
            let db = build_db(&parse_nodes(nodes), &parse_edges(edges));
            let text = format!("{{ l{} {{ k9 T{} {{ k9 }} T{} {{ k9 }} }} }}", label, t1, t2);
            let s = db.session();
            show_result(false, s.execute_graphql(&text))
        }
        // the query text of an op line (what `run` sends to the engine)
        ["text", "agg", _n, _e, start, hops, preds, items, ord, skip, lim, _lang] => render_agg(start, hops, preds, items, ord, skip, lim),
        ["text", "gremlin", _n, _e, start, hops, preds, order, skip, lim, proj, dedup, agg] => render_gremlin(start, hops, preds, order, skip, lim, proj, dedup, agg),
        ["text", "graphql", _n, _e, label, hops, preds, cols, order, skip, first] => render_graphql(label, hops, preds, cols, order, skip, first),
        ["text", "gqlstar", _n, _e, label, t1, t2] => format!("{{ l{} {{ k9 T{} {{ k9 }} T{} {{ k9 }} }} }}", label, t1, t2),
        ["text", "cross", _n, _e, label, hops, preds, key] => {
            let last = if *hops == "-" { 0 } else { hops.split(',').count() };
            let col = format!("{}.{}", last, key);
            format!(
                "{} || {} || {}",
                crate::q::render(label, hops, preds, &col, "0", "-", "-", "-"),
                render_gremlin(label, hops, preds, "-", "-", "-", key, "0", "-"),
                render_graphql(label, hops, preds, &col, "-", "-", "-")
            )
        }
        ["raw", nodes, edges, lang, hexq] => {
            let db = build_db(&parse_nodes(nodes), &parse_edges(edges));
            let text = String::from_utf8(unhex(hexq).unwrap()).unwrap();
            let s = db.session();
            let res = match *lang {
                "gql" => s.execute(&text),
                "cypher" => s.execute_cypher(&text),
                "gremlin" => s.execute_gremlin(&text),
                _ => s.execute_graphql(&text),
            };
            match res {
                Ok(r) => format!("{:?} {}", r.columns, r.rows.iter().map(|r| r.iter().map(tokv).collect::<Vec<_>>().join("|")).collect::<Vec<_>>().join(";")),
                Err(e) => format!("error:{}", e.to_string().lines().next().unwrap_or("")),
            }
        }
        _ => "bad-op".into(),
    })
}
