#!/bin/sh
# Build the framework from files on disk only (offline). Run once after a fresh restore.
set -e
cd "$(dirname "$0")"
export CARGO_NET_OFFLINE=true
python3 tools/extract.py
python3 tools/extract_locks.py
(cd lean && lake build GrafeoModel gdriver)
[ -f harness/Cargo.lock ] || cp /repo/Cargo.lock harness/Cargo.lock
(cd harness && cargo build --offline)
