-- Library root: every property module (so that `lake build GrafeoModel` checks all proofs).
-- `Generated/*.lean` are regenerated from /repo by tools/extract.py and tools/extract_locks.py.
import GrafeoModel.Props.C01
import GrafeoModel.Props.C01SI
import GrafeoModel.Props.C03
import GrafeoModel.Props.C04
import GrafeoModel.Props.C05
import GrafeoModel.Props.C05b
import GrafeoModel.Props.C06
import GrafeoModel.Props.C08Perm
import GrafeoModel.Props.C09
import GrafeoModel.Props.C10
import GrafeoModel.Props.C11
import GrafeoModel.Props.C11b
import GrafeoModel.Props.C12
import GrafeoModel.Props.C13
import GrafeoModel.Props.C14
import GrafeoModel.Props.C14Paths
import GrafeoModel.Props.C15
import GrafeoModel.Props.C16
import GrafeoModel.Props.C17
import GrafeoModel.Props.C18
import GrafeoModel.Props.C19
import GrafeoModel.Props.C20
import GrafeoModel.Props.C20LpgCreate
