import GrafeoModel.Props.C15
