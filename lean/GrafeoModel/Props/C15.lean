import GrafeoModel.Proofs.CodecLemmas

/-!
# C15 — every compression codec is lossless

Property theorems only (helper lemmas are in `Proofs/CodecLemmas.lean`).
Kinds: F full strength, P partial (hypothesis is a decidable predicate, non-vacuity shown),
W witness of a refuted full statement (replayed against the implementation by the check),
N non-vacuity example.
-/

namespace Grafeo.Codec

/-- F: zig-zag is a bijection on 64-bit words (both directions). -/
theorem c15_zigzag_roundtrip (v : BitVec 64) : zzDec (zzEnc v) = v ∧ zzEnc (zzDec v) = v :=
  ⟨zzDec_zzEnc v, zzEnc_zzDec v⟩

/-- F: signed delta encoding round-trips for **every** `i64` sequence (wrapping arithmetic;
this is the repaired code — before the `fix:` commit `[i64::MIN, i64::MAX]` panicked in a
build with overflow checks). -/
theorem c15_signed_delta_roundtrip (vs : List (BitVec 64)) :
    (SDeltaEnc.encode vs).decode = vs := by
  cases vs with
  | nil => rfl
  | cons a t =>
    simp only [SDeltaEnc.encode, SDeltaEnc.decode, zzDec_zzEnc, sWrapSums_zzDeltas]
    simp

/-- F (documented contract: sorted input): unsigned delta encoding round-trips. -/
theorem c15_delta_roundtrip (vs : List Nat) (hs : Sorted vs) (hb : ∀ v ∈ vs, v < W) :
    (DeltaEnc.encode vs).decode = vs := by
  cases vs with
  | nil => rfl
  | cons a t =>
    simp only [DeltaEnc.encode, DeltaEnc.decode, wrapSums_satDeltas a t hs hb]
    simp

/-- N: the hypotheses of `c15_delta_roundtrip` are met by a non-trivial sequence. -/
example : Sorted [3, 3, 10, W - 1] ∧ ∀ v ∈ [3, 3, 10, W - 1], v < W := by
  refine ⟨by simp [Sorted, W], ?_⟩
  intro v hv; simp [W] at hv ⊢; omega

theorem satDeltas_lt (l : List Nat) (hl : ∀ v ∈ l, v < W) : ∀ w ∈ satDeltas l, w < W := by
  induction l with
  | nil => intro w hw; simp [satDeltas] at hw
  | cons x xs ih =>
    cases xs with
    | nil => intro w hw; simp [satDeltas] at hw
    | cons y ys =>
      intro w hw
      simp only [satDeltas, List.mem_cons] at hw
      rcases hw with rfl | hw
      · have := hl y (by simp); omega
      · exact ih (fun v hv => hl v (List.mem_cons_of_mem _ hv)) w hw

/-- serialisation round-trip for any well-formed delta block. -/
theorem DeltaEnc.fromBytes_toBytes (e : DeltaEnc) (hbase : e.base < W)
    (hd : ∀ w ∈ e.deltas, w < W) (hc : e.count < 4294967296)
    (hl : e.deltas.length = e.count - 1) : DeltaEnc.fromBytes e.toBytes = some e := by
  obtain ⟨base, deltas, count⟩ := e
  simp only at hbase hd hc hl
  have l8 : (leBytes 8 base).length = 8 := leBytes_length _ _
  have l4 : (leBytes 4 (count % 4294967296)).length = 4 := leBytes_length _ _
  unfold DeltaEnc.fromBytes DeltaEnc.toBytes Generated.deltaHeaderLen
  simp only
  split
  · rename_i h
    simp only [List.length_append, l8, l4] at h; omega
  · have e1 : (leBytes 8 base ++ leBytes 4 (count % 4294967296) ++
        (deltas.map (leBytes 8)).flatten).take 8 = leBytes 8 base := by
      rw [List.append_assoc]; exact take_append_len _ _ 8 l8
    have e2 : (leBytes 8 base ++ leBytes 4 (count % 4294967296) ++
        (deltas.map (leBytes 8)).flatten).drop 8 =
        leBytes 4 (count % 4294967296) ++ (deltas.map (leBytes 8)).flatten := by
      rw [List.append_assoc]; exact drop_append_len _ _ 8 l8
    have e3 : (leBytes 8 base ++ leBytes 4 (count % 4294967296) ++
        (deltas.map (leBytes 8)).flatten).drop 12 = (deltas.map (leBytes 8)).flatten :=
      drop_append_len _ _ 12 (by simp only [List.length_append, l8, l4])
    rw [e1, e2, e3, take_append_len _ _ 4 l4]
    rw [ofLe_leBytes 8 base (by rw [← W_eq]; exact hbase)]
    rw [ofLe_leBytes 4 _ (by rw [← u32_eq]; exact Nat.mod_lt _ (by decide))]
    rw [Nat.mod_eq_of_lt hc, ← hl]
    have := readWords_flatten deltas [] hd
    rw [List.append_nil] at this
    rw [this]

/-- F: serialising a delta block and reading it back changes nothing
(count fits the `u32` field; words are `u64`). -/
theorem c15_delta_bytes_roundtrip (vs : List Nat) (hb : ∀ v ∈ vs, v < W)
    (hc : vs.length < 4294967296) :
    DeltaEnc.fromBytes (DeltaEnc.encode vs).toBytes = some (DeltaEnc.encode vs) := by
  apply DeltaEnc.fromBytes_toBytes
  · cases vs with
    | nil => decide
    | cons a t => exact hb a (by simp)
  · cases vs with
    | nil => intro w hw; simp [DeltaEnc.encode] at hw
    | cons a t => exact satDeltas_lt _ hb
  · cases vs with
    | nil => decide
    | cons a t => exact hc
  · cases vs with
    | nil => rfl
    | cons a t => exact satDeltas_length _

/-- slot `i` of a packed block is element `i` (helper shared by `get` and `unpack`). -/
theorem slot_packWithBits (vs : List Nat) (b : Nat) (hb1 : 1 ≤ b) (hb : b ≤ 64)
    (hv : ∀ v ∈ vs, v < 2 ^ b) (i : Nat) (hi : i < vs.length) :
    (packWithBits vs b).slot i = some vs[i] := by
  have hne : vs ≠ [] := by intro h; subst h; simp at hi
  have hb0 : b ≠ 0 := by omega
  have hvpw : 0 < 64 / b := Nat.div_pos hb (by omega)
  simp only [packWithBits, if_neg hne, if_neg hb0, Packed.slot]
  obtain ⟨c, hc1, hc2, hc3⟩ := chunksOf_get (64 / b) hvpw vs.length vs (Nat.le_refl _) i hi
  rw [List.getElem?_map, hc1]
  simp only [Option.map_some]
  have hil : i % (64 / b) < c.length := by
    have : c[i % (64 / b)]? = some vs[i] := by rw [hc3]; exact List.getElem?_eq_getElem hi
    exact (List.getElem?_eq_some_iff.mp this).1
  have hfit : c.length * b ≤ 64 := by
    have := Nat.mul_le_mul_right b hc2
    have := Nat.div_mul_le_self 64 b
    omega
  rw [packWord_slot b c (i % (64 / b)) hb hfit hil]
  have : c[i % (64 / b)] = vs[i] := by
    have h1 : c[i % (64 / b)]? = some vs[i] := by rw [hc3]; exact List.getElem?_eq_getElem hi
    rw [List.getElem?_eq_getElem hil] at h1
    exact Option.some.inj h1
  rw [this, Nat.mod_eq_of_lt (hv _ (List.getElem_mem hi))]

theorem packWithBits_count_bits (vs : List Nat) (b : Nat) (hne : vs ≠ []) (hb : 1 ≤ b) :
    (packWithBits vs b).count = vs.length ∧ (packWithBits vs b).bits = b := by
  have hb0 : b ≠ 0 := by omega
  simp only [packWithBits, if_neg hne, if_neg hb0]
  exact ⟨trivial, trivial⟩

theorem pack_bits (vs : List Nat) (hne : vs ≠ []) (hb : ∀ v ∈ vs, v < W) :
    pack vs = packWithBits vs (bitsNeeded (listMax vs)) ∧
    1 ≤ bitsNeeded (listMax vs) ∧ bitsNeeded (listMax vs) ≤ 64 ∧
    ∀ v ∈ vs, v < 2 ^ bitsNeeded (listMax vs) := by
  have hm : listMax vs < W := listMax_lt vs W (by decide) hb
  obtain ⟨h1, h2, h3⟩ := bitsNeeded_bounds _ hm
  refine ⟨by simp [pack, hne], h1, h2, ?_⟩
  intro v hv
  exact Nat.lt_of_le_of_lt (le_listMax vs v hv) h3

/-- F: random access into a packed block returns the original element, for every
sequence of `u64` values, every length, every resulting bit width 1..=64. -/
theorem c15_get_pack (vs : List Nat) (hb : ∀ v ∈ vs, v < W) (i : Nat) (hi : i < vs.length) :
    (pack vs).get i = .ok vs[i] := by
  have hne : vs ≠ [] := by intro h; subst h; simp at hi
  obtain ⟨e, h1, h2, h3⟩ := pack_bits vs hne hb
  have hs := slot_packWithBits vs _ h1 h2 h3 i hi
  rw [e] at *
  obtain ⟨hcount, hbits⟩ := packWithBits_count_bits vs _ hne h1
  unfold Packed.get
  rw [hcount, hbits, if_neg (by omega), if_neg (by omega), if_neg (by omega), hs]

/-- F: `index >= len` is reported as absent, never as a value. -/
theorem c15_get_pack_out_of_range (vs : List Nat) (i : Nat) (hi : vs.length ≤ i) :
    (pack vs).get i = .err := by
  unfold Packed.get
  rw [pack_count, if_pos hi]

/-- F: unpacking a packed block returns the original sequence. -/
theorem c15_unpack_pack (vs : List Nat) (hb : ∀ v ∈ vs, v < W) :
    (pack vs).unpack = .ok vs := by
  by_cases hne : vs = []
  · subst hne; rfl
  obtain ⟨e, h1, h2, h3⟩ := pack_bits vs hne hb
  rw [e]
  obtain ⟨hcount, hbits⟩ := packWithBits_count_bits vs _ hne h1
  have hlen : vs.length ≠ 0 := by
    intro h; exact hne (List.length_eq_zero_iff.mp h)
  unfold Packed.unpack
  rw [hcount, hbits, if_neg hlen, if_neg (by omega), if_neg (by omega)]
  have := unpackLoop_eq (packWithBits vs (bitsNeeded (listMax vs))) (fun k => vs.getD k 0)
    vs.length 0 (fun k hk => by
      rw [Nat.zero_add, slot_packWithBits vs _ h1 h2 h3 k hk]
      simp [List.getD, List.getElem?_eq_getElem hk])
  rw [this]
  show Res.ok _ = Res.ok vs
  congr 1
  apply List.ext_getElem?
  intro k
  by_cases hk : k < vs.length
  · rw [List.getElem?_map, List.getElem?_range' hk]
    simp [List.getD, List.getElem?_eq_getElem hk]
  · rw [List.getElem?_eq_none (by simpa using Nat.le_of_not_lt hk),
        List.getElem?_eq_none (by simpa using Nat.le_of_not_lt hk)]

/-- F: delta + bit-packing round-trips on every sorted `u64` sequence (the repaired code: a single
value records the width 1, so `[0]` is no longer taken for the empty sequence). -/
theorem c15_delta_bitpacked_roundtrip (vs : List Nat) (hs : Sorted vs)
    (hb : ∀ v ∈ vs, v < W) :
    (DBP.encode vs).decode = .ok vs ∧ (DBP.encode vs).len = vs.length := by
  cases vs with
  | nil => exact ⟨rfl, rfl⟩
  | cons a t =>
    have hd : ∀ w ∈ satDeltas (a :: t), w < W := satDeltas_lt _ hb
    cases t with
    | nil =>
      have henc : DBP.encode [a] = ⟨a, packWithBits [] 1⟩ := rfl
      rw [henc]
      exact ⟨by simp [DBP.decode, DBP.isEmpty, packWithBits, Packed.unpack, wrapSums],
             by simp [DBP.len, DBP.isEmpty, packWithBits]⟩
    | cons b r =>
      have hne : satDeltas (a :: b :: r) ≠ [] := by simp [satDeltas]
      have henc : DBP.encode (a :: b :: r) = ⟨a, pack (satDeltas (a :: b :: r))⟩ := by
        simp only [DBP.encode, if_neg hne]
      have hcount : (pack (satDeltas (a :: b :: r))).count = r.length + 1 := by
        rw [pack_count, satDeltas_length]; simp
      rw [henc]
      refine ⟨?_, ?_⟩
      · unfold DBP.decode DBP.isEmpty
        simp only [hcount]
        rw [if_neg (by simp)]
        rw [c15_unpack_pack _ hd]
        simp only [wrapSums_satDeltas a (b :: r) hs hb]
      · unfold DBP.len DBP.isEmpty
        simp only [hcount]
        rw [if_neg (by simp)]
        simp

/-- W (regression): before the repair `DeltaBitPacked::encode(&[0]).decode()` was `[]`, with length 0
(finding `C15-dbp-zero-singleton`). -/
theorem c15_delta_bitpacked_zero_singleton_witness :
    Old.DBP.decode (Old.DBP.encode [0]) = .ok [] ∧ Old.DBP.len (Old.DBP.encode [0]) = 0 ∧
    (DBP.encode [0]).decode = .ok [0] := by decide

/-- N -/
example : (DBP.encode [5, 5, 9, 1000]).decode = .ok [5, 5, 9, 1000] := by decide

/-- F: run-length encoding round-trips for every sequence. -/
theorem c15_rle_roundtrip (vs : List Nat) : (Rle.encode vs).decode = vs := by
  cases vs with
  | nil => rfl
  | cons v t => simp [Rle.encode, Rle.decode, rleLoop_decode]

/-- F: the recorded total count is the input length. -/
theorem c15_rle_total (vs : List Nat) :
    (Rle.encode vs).total = vs.length ∧ (Rle.fromRuns (Rle.encode vs).runs).total = vs.length := by
  cases vs with
  | nil => exact ⟨rfl, rfl⟩
  | cons v t =>
    refine ⟨rfl, ?_⟩
    simp only [Rle.encode, Rle.fromRuns, rleLoop_total]; simp; omega

/-- F: random access agrees with full decoding, for every index. -/
theorem c15_rle_get (vs : List Nat) (i : Nat) : (Rle.encode vs).get i = vs[i]? := by
  unfold Rle.get
  rw [(c15_rle_total vs).1]
  split
  · rename_i h; exact (List.getElem?_eq_none h).symm
  · rw [rleGetLoop_eq _ 0 i (Nat.zero_le _)]
    have := c15_rle_roundtrip vs
    unfold Rle.decode at this
    rw [this]; simp

/-- F: signed run-length encoding round-trips for every `i64` sequence. -/
theorem c15_signed_rle_roundtrip (vs : List (BitVec 64)) : SRle.decode (SRle.encode vs) = vs := by
  unfold SRle.decode SRle.encode
  rw [c15_rle_roundtrip, List.map_map]
  have : ((fun n => zzDec (BitVec.ofNat 64 n)) ∘ fun v => (zzEnc v).toNat) = id := by
    funext v; simp [zzDec_zzEnc]
  rw [this, List.map_id]

end Grafeo.Codec
