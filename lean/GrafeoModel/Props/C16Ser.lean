import GrafeoModel.Model.Ser
/-
C16, serialisation half: "every value survives each serialisation the system applies to it, bit for bit".

Theorems about the models of `Model/Ser.lean`:
* spill format (hand-written, crates/grafeo-core/src/execution/spill/serializer.rs, after fix a3c259e):
  round trip for ALL well-formed values (any nesting depth, any trailing bytes), rows, totality
  of the decoder on ALL byte strings (never out of fuel, never a panic or abort, the unread rest is a
  proper suffix of the input), equivalence with an eagerly checking decoder, conservativity of the fix,
  and — as regression witnesses — the panics and aborts of the decoder before the fix (`Spill.Old`);
* bincode format of `Value` (model of the third-party codec's format): round trip;
* JSON of the C binding: `json_to_value ∘ value_to_json` is the identity exactly on `Json.safe`
  values (partial) and changes the others (witnesses).
-/
namespace Grafeo.Ser
open Spill

/-! ## little-endian integers, reader -/

@[simp] theorem Res.bind_ok {α β : Type} (a : α) (f : α → Res β) : (Res.ok a).bind f = f a := rfl

theorem le_length (k n : Nat) : (le k n).length = k := by
  induction k generalizing n with
  | zero => rfl
  | succ k ih => simp [le, ih]

theorem ofLe_le (k n : Nat) : ofLe (le k n) = n % 256 ^ k := by
  induction k generalizing n with
  | zero => simp [le, ofLe, Nat.mod_one]
  | succ k ih =>
    simp only [le, ofLe, ih]
    have h : (UInt8.ofNat (n % 256)).toNat = n % 256 := by
      simp [UInt8.toNat_ofNat']
    rw [h, Nat.pow_succ]
    rw [Nat.mul_comm (256 ^ k) 256, Nat.mod_mul, Nat.add_comm]

theorem readN_append (xs rest : List UInt8) : readN xs.length (xs ++ rest) = .ok (xs, rest) := by
  simp [readN]

theorem u64_rt (x : UInt64) : UInt64.ofNat (ofLe (u64le x)) = x := by
  simp only [u64le, ofLe_le]
  have : x.toNat < 256 ^ 8 := by have := x.toNat_lt; omega
  rw [Nat.mod_eq_of_lt this]; simp

theorem readU64_append (x : UInt64) (rest : List UInt8) : readU64 (u64le x ++ rest) = .ok (x, rest) := by
  have h : (u64le x).length = 8 := le_length 8 _
  have := readN_append (u64le x) rest
  rw [h] at this
  simp [readU64, this, u64_rt]

theorem u32_rt (x : UInt32) : UInt32.ofNat (ofLe (u32le x)) = x := by
  simp only [u32le, ofLe_le]
  have : x.toNat < 256 ^ 4 := by have := x.toNat_lt; omega
  rw [Nat.mod_eq_of_lt this]; simp

theorem readU32_append (x : UInt32) (rest : List UInt8) : readU32 (u32le x ++ rest) = .ok (x, rest) := by
  have h : (u32le x).length = 4 := le_length 4 _
  have := readN_append (u32le x) rest
  rw [h] at this
  simp [readU32, this, u32_rt]

theorem readLen_append (n : Nat) (rest : List UInt8) :
    readU64 (lenLe n ++ rest) = .ok (UInt64.ofNat n, rest) := by
  have : lenLe n = u64le (UInt64.ofNat n) := by
    simp [lenLe, u64le, UInt64.toNat_ofNat', W64]
  rw [this, readU64_append]

theorem toNat_ofNat_len (n : Nat) (h : n < W64) : (UInt64.ofNat n).toNat = n := by
  simp [UInt64.toNat_ofNat', W64] at *; omega

theorem alloc_ok (n elem : Nat) (h : n * elem < addrSpace) : alloc n elem = .ok () := by
  unfold alloc
  have h1 : ¬ (n * elem > isizeMax) := by unfold isizeMax; unfold addrSpace at h; omega
  have h2 : ¬ (n * elem ≥ addrSpace) := by omega
  simp [h1, h2]

theorem addr_lt_W64 {n : Nat} (h : n < addrSpace) : n < W64 := by
  simp [addrSpace, W64] at *; omega

theorem allocNow_ok (n e : Nat) (r : List UInt8) : allocNow n e r = .ok () := rfl

theorem decBlob_append (b rest : List UInt8) (h : b.length < W64) :
    decBlob allocNow (lenLe b.length ++ (b ++ rest)) = .ok (b, rest) := by
  simp [decBlob, allocNow_ok, readLen_append _, toNat_ofNat_len _ h, readN_append]

theorem decUtf8_append (b rest : List UInt8) (h : b.length < W64) (hu : validUtf8 b = true) :
    decUtf8 allocNow (lenLe b.length ++ (b ++ rest)) = .ok (b, rest) := by
  simp [decUtf8, decBlob_append b rest h, hu]

theorem decF32s_append (fs : List UInt32) (rest : List UInt8) :
    decF32s fs.length (encF32s fs ++ rest) = .ok (fs, rest) := by
  induction fs with
  | nil => simp [decF32s, encF32s]
  | cons f fs ih => simp [decF32s, encF32s, List.append_assoc, readU32_append, ih]

/-! map -/
theorem cmpBytes_swap (a b : List UInt8) : cmpBytes a b = .lt → cmpBytes b a = .gt := by
  induction a generalizing b with
  | nil => cases b <;> simp [cmpBytes]
  | cons x xs ih =>
    cases b with
    | nil => simp [cmpBytes]
    | cons y ys =>
      simp only [cmpBytes]
      by_cases h1 : x < y
      · have h2 : ¬ y < x := by
          intro h; exact absurd (UInt8.lt_trans h1 h) (UInt8.lt_irrefl _)
        simp [h1, h2]
      · by_cases h2 : y < x
        · simp [h1, h2]
        · simp only [h1, h2, if_false]; exact ih ys

theorem insertKV_end {α : Type} (k : List UInt8) (v : α) (es : List (List UInt8 × α))
    (h : ∀ e ∈ es, cmpBytes e.1 k = .lt) : insertKV k v es = es ++ [(k, v)] := by
  induction es with
  | nil => rfl
  | cons e es ih =>
    obtain ⟨k', v'⟩ := e
    have h1 := cmpBytes_swap _ _ (h (k', v') (by simp))
    simp only [insertKV, h1, List.cons_append]
    rw [ih (fun e he => h e (by simp [he]))]

theorem foldl_insert_sorted {α : Type} (es acc : List (List UInt8 × α))
    (hacc : ∀ a ∈ acc, ∀ e ∈ es, cmpBytes a.1 e.1 = .lt) (h : keysOK (es.map Prod.fst) = true) :
    es.foldl (fun m e => insertKV e.1 e.2 m) acc = acc ++ es := by
  induction es generalizing acc with
  | nil => simp
  | cons e es ih =>
    simp only [List.map_cons, keysOK, Bool.and_eq_true, List.all_eq_true, List.mem_map, beq_iff_eq] at h
    simp only [List.foldl_cons]
    rw [insertKV_end e.1 e.2 acc (fun a ha => hacc a ha e (by simp))]
    rw [ih (acc ++ [(e.1, e.2)]) _ h.2]
    · simp
    · intro a ha e' he'
      rcases List.mem_append.mp ha with h1 | h1
      · exact hacc a h1 e' (by simp [he'])
      · simp only [List.mem_singleton] at h1
        subst h1
        exact h.1 e'.1 ⟨e', he', rfl⟩

theorem mkMap_sorted {α : Type} (es : List (List UInt8 × α)) (h : keysOK (es.map Prod.fst) = true) :
    mkMap es = es := by
  unfold mkMap
  rw [foldl_insert_sorted es [] (by simp) h]; simp

/-! main -/
theorem decV_succ (A : AllocFn) (f : Nat) (tag : UInt8) (r : List UInt8) :
    decV A (f + 1) (tag :: r) = decBody A (decV A f) tag r := rfl

mutual
theorem dec_enc (v : SVal) (hw : wf v = true) (f : Nat) (hf : depth v < f) (rest : List UInt8) :
    decV allocNow f (enc v ++ rest) = .ok (v, rest) := by
  obtain ⟨f, rfl⟩ : ∃ g, f = g + 1 := ⟨f - 1, by omega⟩
  cases v with
  | null => simp [enc, decV_succ, decBody]
  | bool b => cases b <;> simp [enc, decV_succ, decBody, decBool, readU8]
  | int x => simp [enc, decV_succ, decBody, readU64_append]
  | float x => simp [enc, decV_succ, decBody, readU64_append]
  | ts x => simp [enc, decV_succ, decBody, readU64_append]
  | str s =>
    simp only [wf, Bool.and_eq_true, decide_eq_true_eq] at hw
    simp [enc, decV_succ, decBody, decUtf8_append s rest hw.2 hw.1]
  | bytes b =>
    simp only [wf, decide_eq_true_eq] at hw
    simp [enc, decV_succ, decBody, decBlob_append b rest hw]
  | vec fs =>
    simp only [wf, decide_eq_true_eq] at hw
    simp [enc, decV_succ, decBody, decVec, allocNow_ok, List.append_assoc, readLen_append _, toNat_ofNat_len _ hw,
      decF32s_append]
  | list xs =>
    simp only [wf, Bool.and_eq_true, decide_eq_true_eq] at hw
    have hd : depthList xs < f := by simp [depth] at hf; omega
    simp [enc, decV_succ, decBody, decList, allocNow_ok, List.append_assoc, readLen_append _, toNat_ofNat_len _ hw.1,
      decItems_enc xs hw.2 f hd rest]
  | map es =>
    simp only [wf, Bool.and_eq_true, decide_eq_true_eq] at hw
    have hd : depthEntries es < f := by simp [depth] at hf; omega
    simp [enc, decV_succ, decBody, decMap, List.append_assoc, readLen_append _, toNat_ofNat_len _ hw.1.1,
      decEntries_enc es hw.2 f hd rest, mkMap_sorted es hw.1.2]

theorem decItems_enc (xs : List SVal) (hw : wfList xs = true) (f : Nat) (hf : depthList xs < f) (rest : List UInt8) :
    decItems (decV allocNow f) xs.length (encList xs ++ rest) = .ok (xs, rest) := by
  cases xs with
  | nil => simp [decItems, encList]
  | cons x xs =>
    simp only [wfList, Bool.and_eq_true] at hw
    simp only [depthList] at hf
    simp [decItems, encList, List.append_assoc, dec_enc x hw.1 f (by omega) _, decItems_enc xs hw.2 f (by omega) rest]

theorem decEntries_enc (es : List (List UInt8 × SVal)) (hw : wfEntries es = true) (f : Nat) (hf : depthEntries es < f)
    (rest : List UInt8) :
    decEntries allocNow (decV allocNow f) es.length (encEntries es ++ rest) = .ok (es, rest) := by
  cases es with
  | nil => simp [decEntries, encEntries]
  | cons e es =>
    obtain ⟨k, v⟩ := e
    simp only [wfEntries, Bool.and_eq_true, decide_eq_true_eq] at hw
    simp only [depthEntries] at hf
    simp [decEntries, encEntries, List.append_assoc, decUtf8_append k _ hw.1.1.2 hw.1.1.1,
      dec_enc v hw.1.2 f (by omega) _, decEntries_enc es hw.2 f (by omega) rest]
end

/-! ## totality and panic-freedom of the spill decoder -/

/-- `x` is the outcome of a decoding step that started at the suffix `bs` of the input; `P` is the
condition under which the step is claimed not to panic or abort. -/
structure Good {α : Type} (P : Prop) (bs : List UInt8) (x : Res (α × List UInt8)) : Prop where
  nofuel : x ≠ .fuel
  safe : P → x ≠ .panic ∧ x ≠ .abort
  suffix : ∀ a r, x = .ok (a, r) → r <:+ bs

variable {P : Prop} {top : List UInt8}

theorem Good.weaken {α : Type} {s bs : List UInt8} {x : Res (α × List UInt8)} (h : Good P s x) (hs : s <:+ bs) :
    Good P bs x :=
  ⟨h.nofuel, h.safe, fun a r e => (h.suffix a r e).trans hs⟩

theorem Good.bind {α β : Type} {bs : List UInt8} {x : Res (α × List UInt8)} {f : α × List UInt8 → Res (β × List UInt8)}
    (hx : Good P bs x) (hf : ∀ a r, x = .ok (a, r) → r <:+ bs → Good P r (f (a, r))) : Good P bs (x.bind f) := by
  cases x with
  | ok p =>
    obtain ⟨a, r⟩ := p
    exact (hf a r rfl (hx.suffix a r rfl)).weaken (hx.suffix a r rfl)
  | err e => exact ⟨by simp [Res.bind], fun _ => by simp [Res.bind], by simp [Res.bind]⟩
  | panic => exact ⟨by simp [Res.bind], fun hb => absurd rfl (hx.safe hb).1, by simp [Res.bind]⟩
  | abort => exact ⟨by simp [Res.bind], fun hb => absurd rfl (hx.safe hb).2, by simp [Res.bind]⟩
  | fuel => exact absurd rfl hx.nofuel

theorem good_ok {α : Type} {bs r : List UInt8} (a : α) (h : r <:+ bs) : Good P bs (Res.ok (a, r)) :=
  ⟨by simp, fun _ => by simp, fun a' r' e => by cases e; exact h⟩

theorem good_err {α : Type} (bs : List UInt8) (e : Err) : Good (α := α) P bs (Res.err e) :=
  ⟨by simp, fun _ => by simp, by simp⟩

theorem good_readN (n : Nat) (bs : List UInt8) : Good P bs (readN n bs) := by
  unfold readN
  split
  · exact good_ok _ (List.drop_suffix n bs)
  · exact good_err _ _

theorem good_readU8 (bs : List UInt8) : Good P bs (readU8 bs) := by
  cases bs with
  | nil => exact good_err _ _
  | cons b r => exact good_ok _ (List.suffix_cons b r)

theorem good_readU64 (bs : List UInt8) : Good P bs (readU64 bs) :=
  (good_readN 8 bs).bind fun _ _ _ _ => good_ok _ (List.suffix_refl _)

theorem good_readU32 (bs : List UInt8) : Good P bs (readU32 bs) :=
  (good_readN 4 bs).bind fun _ _ _ _ => good_ok _ (List.suffix_refl _)

/-- what the totality argument needs from an allocation policy: after a length field `x` was read at the
suffix `bs` of `top`, allocating for it (elements of at most 24 bytes) and continuing with a good step is a
good step. -/
def GoodAlloc (P : Prop) (top : List UInt8) (A : AllocFn) : Prop :=
  ∀ {α : Type} (bs r : List UInt8) (x : UInt64) (elem : Nat) (y : Res (α × List UInt8)),
    bs <:+ top → readU64 bs = .ok (x, r) → elem ≤ sizeofValue → Good P r y →
      Good P r ((A x.toNat elem r).bind fun _ => y)

/-- the code as it is: nothing is allocated for an announced count. -/
theorem goodAlloc_now : GoodAlloc True top allocNow := by
  intro α bs r x elem y _ _ _ hy
  exact hy

/-- the code before the fix: no claim about panics (`P = False`), but it never runs out of fuel and
never reads past the end either. -/
theorem goodAlloc_old : GoodAlloc False top allocAsIs := by
  intro α bs r x elem y _ _ _ hy
  unfold allocAsIs alloc
  split
  · exact ⟨by simp [Res.bind], fun hb => hb.elim, by simp [Res.bind]⟩
  · split
    · exact ⟨by simp [Res.bind], fun hb => hb.elim, by simp [Res.bind]⟩
    · exact hy

/-- the reference policy: fine unconditionally. -/
theorem goodAlloc_checked : GoodAlloc True top allocChecked := by
  intro α bs r x elem y _ _ _ hy
  unfold allocChecked
  split
  · exact hy
  · exact ⟨by simp [Res.bind], fun _ => by simp [Res.bind], by simp [Res.bind]⟩

section generic
variable {A : AllocFn} (hA : GoodAlloc P top A)
include hA

/-- a length field read at `bs ⊑ top`, then an allocation of `elem ≤ 24` bytes per unit. -/
theorem good_len_alloc {α : Type} {bs : List UInt8} (hbs : bs <:+ top) (elem : Nat) (he : elem ≤ sizeofValue)
    (k : UInt64 → List UInt8 → Res (α × List UInt8))
    (hk : ∀ x r, r <:+ bs → Good P r (k x r)) :
    Good P bs ((readU64 bs).bind fun p => (A p.1.toNat elem p.2).bind fun _ => k p.1 p.2) :=
  (good_readU64 bs).bind fun x r hx hr => hA bs r x elem _ hbs hx he (hk x r hr)

theorem good_decBlob {bs : List UInt8} (hbs : bs <:+ top) : Good P bs (decBlob A bs) :=
  good_len_alloc hA hbs 1 (by decide) (fun x r => readN x.toNat r) fun _ r _ => good_readN _ r

theorem good_decUtf8 {bs : List UInt8} (hbs : bs <:+ top) : Good P bs (decUtf8 A bs) :=
  (good_decBlob hA hbs).bind fun a r _ _ => by
    show Good P r (if validUtf8 (a, r).1 = true then Res.ok (a, r) else Res.err Err.utf8)
    split
    · exact good_ok _ (List.suffix_refl _)
    · exact good_err _ _

omit hA in
theorem good_decF32s (n : Nat) (bs : List UInt8) : Good P bs (decF32s n bs) := by
  induction n generalizing bs with
  | zero => exact good_ok _ (List.suffix_refl _)
  | succ n ih =>
    exact (good_readU32 bs).bind fun _ r _ _ => (ih r).bind fun _ _ _ _ => good_ok _ (List.suffix_refl _)

omit hA in
theorem good_decItems {dec : Dec} {bs : List UInt8} (hd : ∀ s, s <:+ bs → Good P s (dec s)) (n : Nat) :
    ∀ s, s <:+ bs → Good P s (decItems dec n s) := by
  induction n with
  | zero => intro s _; exact good_ok _ (List.suffix_refl _)
  | succ n ih =>
    intro s hs
    exact (hd s hs).bind fun _ r _ hr => (ih r (hr.trans hs)).bind fun _ _ _ _ => good_ok _ (List.suffix_refl _)

theorem good_decEntries {dec : Dec} {bs : List UInt8} (hbs : bs <:+ top) (hd : ∀ s, s <:+ bs → Good P s (dec s)) (n : Nat) :
    ∀ s, s <:+ bs → Good P s (decEntries A dec n s) := by
  induction n with
  | zero => intro s _; exact good_ok _ (List.suffix_refl _)
  | succ n ih =>
    intro s hs
    exact (good_decUtf8 hA (hs.trans hbs)).bind fun _ r _ hr =>
      (hd r (hr.trans hs)).bind fun _ r2 _ hr2 =>
        (ih r2 ((hr2.trans hr).trans hs)).bind fun _ _ _ _ => good_ok _ (List.suffix_refl _)

theorem good_decBody {dec : Dec} {r : List UInt8} (hr : r <:+ top) (hd : ∀ s, s <:+ r → Good P s (dec s)) (tag : UInt8) :
    Good P r (decBody A dec tag r) := by
  unfold decBody
  repeat' split
  · exact good_ok _ (List.suffix_refl _)
  · exact (good_readU8 r).bind fun _ _ _ _ => good_ok _ (List.suffix_refl _)
  · exact (good_readU64 r).bind fun _ _ _ _ => good_ok _ (List.suffix_refl _)
  · exact (good_readU64 r).bind fun _ _ _ _ => good_ok _ (List.suffix_refl _)
  · exact (good_decUtf8 hA hr).bind fun _ _ _ _ => good_ok _ (List.suffix_refl _)
  · exact (good_decBlob hA hr).bind fun _ _ _ _ => good_ok _ (List.suffix_refl _)
  · exact (good_readU64 r).bind fun _ _ _ _ => good_ok _ (List.suffix_refl _)
  · exact good_len_alloc hA hr sizeofValue (Nat.le_refl _)
      (fun x r' => (decItems dec x.toNat r').bind fun q => .ok (SVal.list q.1, q.2))
      fun x r' hr' => (good_decItems hd _ r' hr').bind fun _ _ _ _ => good_ok _ (List.suffix_refl _)
  · exact (good_readU64 r).bind fun x r' _ hr' =>
      (good_decEntries hA hr hd _ r' hr').bind fun _ _ _ _ => good_ok _ (List.suffix_refl _)
  · exact good_len_alloc hA hr 4 (by decide)
      (fun x r' => (decF32s x.toNat r').bind fun q => .ok (SVal.vec q.1, q.2))
      fun x r' _ => (good_decF32s _ r').bind fun _ _ _ _ => good_ok _ (List.suffix_refl _)
  · exact good_err _ _

theorem good_decV (f : Nat) : ∀ bs, bs <:+ top → bs.length < f → Good P bs (decV A f bs) := by
  induction f with
  | zero => intro bs _ h; omega
  | succ f ih =>
    intro bs hbs hlen
    cases bs with
    | nil => exact good_err _ _
    | cons tag r =>
      have hr : r <:+ top := (List.suffix_cons tag r).trans hbs
      have hd : ∀ s, s <:+ r → Good P s (decV A f s) := fun s hs =>
        ih s (hs.trans hr) (by have := hs.length_le; simp at hlen; omega)
      exact (good_decBody hA hr hd tag).weaken (List.suffix_cons tag r)

/-- the value returned for `tag :: r` leaves a suffix of `r`: at least the tag byte was consumed. -/
theorem decV_rest_suffix (f : Nat) (tag : UInt8) (r : List UInt8) (htop : tag :: r <:+ top) (hlen : r.length < f)
    (v : SVal) (rest : List UInt8) (h : decV A (f + 1) (tag :: r) = .ok (v, rest)) : rest <:+ r := by
  have hr : r <:+ top := (List.suffix_cons tag r).trans htop
  have hg : Good P r (decBody A (decV A f) tag r) :=
    good_decBody hA hr (fun s hs => good_decV hA f s (hs.trans hr) (by have := hs.length_le; omega)) tag
  exact hg.suffix v rest h

end generic

/-! ## C16 (serialisation): spill format -/

@[simp] theorem lenLe_length (n : Nat) : (lenLe n).length = 8 := le_length 8 _

mutual
theorem depth_lt_enc (v : SVal) : depth v < (enc v).length := by
  cases v with
  | list xs => have := depthList_le_enc xs; simp [depth, enc]; omega
  | map es => have := depthEntries_le_enc es; simp [depth, enc]; omega
  | null => simp [depth, enc]
  | bool b => simp [depth, enc]
  | int x => simp [depth, enc]
  | float x => simp [depth, enc]
  | str s => simp [depth, enc]
  | bytes b => simp [depth, enc]
  | ts t => simp [depth, enc]
  | vec fs => simp [depth, enc]
theorem depthList_le_enc (xs : List SVal) : depthList xs ≤ (encList xs).length := by
  cases xs with
  | nil => simp [depthList]
  | cons x xs => have := depth_lt_enc x; have := depthList_le_enc xs; simp [depthList, encList]; omega
theorem depthEntries_le_enc (es : List (List UInt8 × SVal)) : depthEntries es ≤ (encEntries es).length := by
  cases es with
  | nil => simp [depthEntries]
  | cons e es =>
    obtain ⟨k, v⟩ := e
    have := depth_lt_enc v; have := depthEntries_le_enc es; simp [depthEntries, encEntries]; omega
end

/-- **Round trip (full).** For every value that satisfies the invariants of the Rust types (`wf`:
UTF-8 strings and keys, strictly ascending map keys, lengths that are `usize`s) — of any type, any
nesting depth — and any bytes following it, `deserialize_value` applied to the output of
`serialize_value` returns exactly that value, bit for bit, and leaves exactly the following bytes. -/
theorem c16ser_spill_roundtrip (v : SVal) (hw : wf v = true) (rest : List UInt8) :
    decode (enc v ++ rest) = .ok (v, rest) := by
  unfold decode
  apply dec_enc v hw
  have := depth_lt_enc v
  simp; omega

/-- the encoder is injective on well-formed values: two values with the same bytes are the same. -/
theorem c16ser_spill_enc_injective (v w : SVal) (hv : wf v = true) (hw : wf w = true) (h : enc v = enc w) : v = w := by
  have h1 := c16ser_spill_roundtrip v hv []
  have h2 := c16ser_spill_roundtrip w hw []
  rw [h] at h1
  rw [h1] at h2
  cases h2; rfl

/-- **Rows (full).** `deserialize_row` (with the column check or with `expected = 0`) returns the
row `serialize_row` wrote, and leaves the following bytes (the next row of the spill file). -/
theorem c16ser_spill_row_roundtrip (row : List SVal) (hw : wfList row = true)
    (hl : row.length < W64) (rest : List UInt8) :
    decodeRow row.length (encRow row ++ rest) = .ok (row, rest) ∧ decodeRow 0 (encRow row ++ rest) = .ok (row, rest) := by
  have hd : depthList row < (encRow row ++ rest).length + 1 := by
    have := depthList_le_enc row
    simp [encRow]; omega
  constructor <;>
    simp [decodeRow, decodeRowWith, allocNow_ok, encRow, List.append_assoc, readLen_append, toNat_ofNat_len _ hl,
      decItems_enc row hw _ (by simpa [encRow, List.append_assoc] using hd) rest]

/-- **Totality (full).** On arbitrary bytes the decoder never exhausts the model's recursion budget, and
when it returns a value the unread rest is a proper suffix of the input: it consumed at least the tag
byte and never read past the end. -/
theorem c16ser_spill_decode_total (bs : List UInt8) :
    decode bs ≠ .fuel ∧ ∀ v rest, decode bs = .ok (v, rest) → ∃ used, used ≠ [] ∧ bs = used ++ rest := by
  have hg := good_decV (goodAlloc_now (top := bs)) (bs.length + 1) bs (List.suffix_refl _) (Nat.lt_succ_self _)
  refine ⟨hg.nofuel, fun v rest h => ?_⟩
  cases bs with
  | nil => simp [decode, decV] at h
  | cons tag r =>
    obtain ⟨t, ht⟩ := decV_rest_suffix (goodAlloc_now (top := tag :: r)) _ tag r (List.suffix_refl _)
      (Nat.lt_succ_self _) v rest h
    exact ⟨tag :: t, by simp, by simp [← ht]⟩

/-- **No panic (full).** On ALL byte strings `deserialize_value` returns `Ok` or `Err`: the outcomes are
`ok`, `err eof`, `err utf8`, `err (tag t)` — it neither panics nor aborts nor (in the model) runs out of
recursion budget. (Before fix a3c259e this was false: `c16ser_spill_old_*` below.) -/
theorem c16ser_spill_decode_never_panics (bs : List UInt8) : (decode bs).returned = true := by
  have hg := good_decV (goodAlloc_now (top := bs)) (bs.length + 1) bs (List.suffix_refl _) (Nat.lt_succ_self _)
  have hs := hg.safe trivial
  have hf := hg.nofuel
  unfold decode at *
  cases hd : decV allocNow (bs.length + 1) bs <;> simp_all [Res.returned]

/-- the same for rows. -/
theorem c16ser_spill_row_never_panics (expected : Nat) (bs : List UInt8) : (decodeRow expected bs).returned = true := by
  have hd : ∀ s, s <:+ bs → Good True s (decV allocNow (bs.length + 1) s) := fun s hs =>
    good_decV (goodAlloc_now (top := bs)) (bs.length + 1) s hs (by have := hs.length_le; omega)
  have hg : Good True bs (decodeRow expected bs) := by
    unfold decodeRow decodeRowWith
    refine (good_readU64 bs).bind fun x r _ hr => ?_
    show Good True r (if expected > 0 ∧ x.toNat ≠ expected then Res.err Err.cols
      else (allocNow x.toNat sizeofValue r).bind fun _ => decItems (decV allocNow (bs.length + 1)) x.toNat r)
    split
    · exact good_err _ _
    · exact good_decItems hd _ r hr
  have hs := hg.safe trivial
  have hf := hg.nofuel
  cases hd : decodeRow expected bs <;> simp_all [Res.returned]

/-- a value with every variant, non-ASCII text, NaN with payload, −0, nested list and map -/
def sample : SVal :=
  .list [.null, .bool true, .int 0xffffffffffffffff, .float 0x7ff8000000000001, .float 0x8000000000000000,
    .str [0xc3, 0xa9], .str [], .bytes [0, 0xff], .ts 0x8000000000000000, .vec [0x7fc00001, 0x80000000],
    .map [([], .list []), ([0x61], .map [([0x6b], .null)])]]

/-! ## one allocation policy against another -/

theorem bind_eq_ok {α β : Type} {x : Res α} {f : α → Res β} {b : β} (h : x.bind f = .ok b) :
    ∃ a, x = .ok a ∧ f a = .ok b := by
  cases x with
  | ok a => exact ⟨a, rfl, h⟩
  | err e => simp [Res.bind] at h
  | panic => simp [Res.bind] at h
  | abort => simp [Res.bind] at h
  | fuel => simp [Res.bind] at h

theorem readN_ok {n : Nat} {s b r : List UInt8} (h : readN n s = .ok (b, r)) : r.length + n = s.length := by
  unfold readN at h
  split at h
  · cases h; simp; omega
  · cases h

theorem readU64_ok {s r : List UInt8} {x : UInt64} (h : readU64 s = .ok (x, r)) : r.length + 8 = s.length := by
  obtain ⟨p, hp, hq⟩ := bind_eq_ok h
  obtain ⟨b, r'⟩ := p
  cases hq
  exact readN_ok hp

theorem readU32_ok {s r : List UInt8} {x : UInt32} (h : readU32 s = .ok (x, r)) : r.length + 4 = s.length := by
  obtain ⟨p, hp, hq⟩ := bind_eq_ok h
  obtain ⟨b, r'⟩ := p
  cases hq
  exact readN_ok hp

theorem readU8_ok {s r : List UInt8} {x : UInt8} (h : readU8 s = .ok (x, r)) : r.length + 1 = s.length := by
  cases s with
  | nil => cases h
  | cons b t => cases h; simp

theorem decF32s_ok {n : Nat} {s r : List UInt8} {fs : List UInt32} (h : decF32s n s = .ok (fs, r)) :
    r.length + 4 * n = s.length := by
  induction n generalizing s fs with
  | zero => cases h; simp
  | succ n ih =>
    obtain ⟨p, hp, h1⟩ := bind_eq_ok h
    obtain ⟨q, hq, h2⟩ := bind_eq_ok h1
    cases h2
    have := readU32_ok hp
    have := ih hq
    omega

section sim
variable {A B : AllocFn} {L : Nat}
  (hAB : ∀ n e r, e ≤ sizeofValue → n ≤ r.length → r.length ≤ L → A n e r = .ok () → B n e r = .ok ())
include hAB

theorem sim_blob {s b r : List UInt8} (hs : s.length ≤ L) (h : decBlob A s = .ok (b, r)) :
    decBlob B s = .ok (b, r) ∧ r.length + 8 ≤ s.length := by
  obtain ⟨p, hp, h1⟩ := bind_eq_ok h
  obtain ⟨u, hu, h2⟩ := bind_eq_ok h1
  have e1 := readU64_ok hp
  have e2 := readN_ok h2
  have hb := hAB p.1.toNat 1 p.2 (by decide) (by omega) (by omega) (by cases u; exact hu)
  refine ⟨?_, by omega⟩
  simp [decBlob, hp, hb, h2]

theorem sim_utf8 {s b r : List UInt8} (hs : s.length ≤ L) (h : decUtf8 A s = .ok (b, r)) :
    decUtf8 B s = .ok (b, r) ∧ r.length + 8 ≤ s.length := by
  obtain ⟨p, hp, h1⟩ := bind_eq_ok h
  obtain ⟨hb, hl⟩ := sim_blob hAB hs hp
  split at h1
  · rename_i hv
    cases h1
    exact ⟨by simp [decUtf8, hb, hv], hl⟩
  · cases h1

omit hAB in
theorem sim_items {dec dec' : Dec}
    (hd : ∀ s v r, s.length ≤ L → dec s = .ok (v, r) → dec' s = .ok (v, r) ∧ r.length < s.length) :
    ∀ n s xs r, s.length ≤ L → decItems dec n s = .ok (xs, r) →
      decItems dec' n s = .ok (xs, r) ∧ n + r.length ≤ s.length := by
  intro n
  induction n with
  | zero => intro s xs r _ h; cases h; exact ⟨rfl, by simp⟩
  | succ n ih =>
    intro s xs r hs h
    obtain ⟨p, hp, h1⟩ := bind_eq_ok h
    obtain ⟨q, hq, h2⟩ := bind_eq_ok h1
    cases h2
    obtain ⟨v, r1⟩ := p
    obtain ⟨e1, l1⟩ := hd s v r1 hs hp
    obtain ⟨e2, l2⟩ := ih r1 q.1 q.2 (by omega) hq
    refine ⟨by simp [decItems, e1, e2], ?_⟩
    omega

theorem sim_entries {dec dec' : Dec}
    (hd : ∀ s v r, s.length ≤ L → dec s = .ok (v, r) → dec' s = .ok (v, r) ∧ r.length < s.length) :
    ∀ n s es r, s.length ≤ L → decEntries A dec n s = .ok (es, r) →
      decEntries B dec' n s = .ok (es, r) ∧ r.length ≤ s.length := by
  intro n
  induction n with
  | zero => intro s es r _ h; cases h; exact ⟨rfl, Nat.le_refl _⟩
  | succ n ih =>
    intro s es r hs h
    obtain ⟨k, hk, h1⟩ := bind_eq_ok h
    obtain ⟨v, hv, h2⟩ := bind_eq_ok h1
    obtain ⟨q, hq, h3⟩ := bind_eq_ok h2
    cases h3
    obtain ⟨kb, kr⟩ := k
    obtain ⟨vv, vr⟩ := v
    obtain ⟨e1, l1⟩ := sim_utf8 hAB hs hk
    obtain ⟨e2, l2⟩ := hd kr vv vr (by omega) hv
    obtain ⟨e3, l3⟩ := ih vr q.1 q.2 (by omega) hq
    refine ⟨by simp [decEntries, e1, e2, e3], ?_⟩
    omega

theorem sim_body {dec dec' : Dec}
    (hd : ∀ s v r, s.length ≤ L → dec s = .ok (v, r) → dec' s = .ok (v, r) ∧ r.length < s.length)
    (tag : UInt8) {s : List UInt8} {v : SVal} {r : List UInt8} (hs : s.length ≤ L)
    (h : decBody A dec tag s = .ok (v, r)) :
    decBody B dec' tag s = .ok (v, r) ∧ r.length ≤ s.length := by
  unfold decBody at h
  repeat' split at h
  · cases h; exact ⟨by simp [decBody, *], Nat.le_refl _⟩
  · obtain ⟨p, hp, h1⟩ := bind_eq_ok h
    have := readU8_ok hp
    cases h1
    exact ⟨by simp [decBody, *], by omega⟩
  · obtain ⟨p, hp, h1⟩ := bind_eq_ok h
    have := readU64_ok hp
    cases h1; exact ⟨by simp [decBody, *], by omega⟩
  · obtain ⟨p, hp, h1⟩ := bind_eq_ok h
    have := readU64_ok hp
    cases h1; exact ⟨by simp [decBody, *], by omega⟩
  · obtain ⟨p, hp, h1⟩ := bind_eq_ok h
    obtain ⟨e1, l1⟩ := sim_utf8 hAB hs hp
    cases h1; exact ⟨by simp [decBody, *], by omega⟩
  · obtain ⟨p, hp, h1⟩ := bind_eq_ok h
    obtain ⟨e1, l1⟩ := sim_blob hAB hs hp
    cases h1; exact ⟨by simp [decBody, *], by omega⟩
  · obtain ⟨p, hp, h1⟩ := bind_eq_ok h
    have := readU64_ok hp
    cases h1; exact ⟨by simp [decBody, *], by omega⟩
  · -- list
    obtain ⟨p, hp, h1⟩ := bind_eq_ok h
    obtain ⟨u, hu, h2⟩ := bind_eq_ok h1
    obtain ⟨q, hq, h3⟩ := bind_eq_ok h2
    cases h3
    have e0 := readU64_ok hp
    obtain ⟨e1, l1⟩ := sim_items hd p.1.toNat p.2 q.1 q.2 (by omega) hq
    have hb := hAB p.1.toNat sizeofValue p.2 (Nat.le_refl _) (by omega) (by omega) (by cases u; exact hu)
    exact ⟨by simp [decBody, decList, *], by omega⟩
  · -- map
    obtain ⟨p, hp, h1⟩ := bind_eq_ok h
    obtain ⟨q, hq, h3⟩ := bind_eq_ok h1
    cases h3
    have e0 := readU64_ok hp
    obtain ⟨e1, l1⟩ := sim_entries hAB hd p.1.toNat p.2 q.1 q.2 (by omega) hq
    exact ⟨by simp [decBody, decMap, *], by omega⟩
  · -- vector
    obtain ⟨p, hp, h1⟩ := bind_eq_ok h
    obtain ⟨u, hu, h2⟩ := bind_eq_ok h1
    obtain ⟨q, hq, h3⟩ := bind_eq_ok h2
    cases h3
    have e0 := readU64_ok hp
    have e1 := decF32s_ok hq
    have hb := hAB p.1.toNat 4 p.2 (by decide) (by omega) (by omega) (by cases u; exact hu)
    exact ⟨by simp [decBody, decVec, *], by omega⟩
  · cases h

theorem sim_decV (f : Nat) : ∀ s v r, s.length ≤ L → decV A f s = .ok (v, r) →
    decV B f s = .ok (v, r) ∧ r.length < s.length := by
  induction f with
  | zero => intro s v r _ h; cases h
  | succ f ih =>
    intro s v r hs h
    cases s with
    | nil => cases h
    | cons tag t =>
      obtain ⟨e, l⟩ := sim_body hAB ih tag (by simp at hs; omega) h
      exact ⟨e, by simp; omega⟩

theorem sim_row (expected : Nat) {s : List UInt8} {xs : List SVal} {r : List UInt8} (hs : s.length ≤ L)
    (h : decodeRowWith A expected s = .ok (xs, r)) : decodeRowWith B expected s = .ok (xs, r) := by
  unfold decodeRowWith at h ⊢
  obtain ⟨p, hp, h1⟩ := bind_eq_ok h
  have e0 := readU64_ok hp
  split at h1
  · cases h1
  · rename_i hc
    obtain ⟨u, hu, h2⟩ := bind_eq_ok h1
    obtain ⟨e1, l1⟩ := sim_items (sim_decV hAB (s.length + 1)) p.1.toNat p.2 xs r (by omega) h2
    have hb := hAB p.1.toNat sizeofValue p.2 (Nat.le_refl _) (by omega) (by omega) (by cases u; exact hu)
    simp [hp, hc, hb, e1]

end sim

theorem any_imp_now (L : Nat) (A : AllocFn) (n e : Nat) (r : List UInt8) (_ : e ≤ sizeofValue) (_ : n ≤ r.length)
    (_ : r.length ≤ L) (_ : A n e r = .ok ()) : allocNow n e r = .ok () := rfl

theorem any_imp_checked (L : Nat) (A : AllocFn) (n e : Nat) (r : List UInt8) (_ : e ≤ sizeofValue) (hn : n ≤ r.length)
    (_ : r.length ≤ L) (_ : A n e r = .ok ()) : allocChecked n e r = .ok () := by
  simp [allocChecked, hn]

theorem any_imp_old (L : Nat) (hL : L * sizeofValue < addrSpace) (A : AllocFn) (n e : Nat) (r : List UInt8)
    (he : e ≤ sizeofValue) (hn : n ≤ r.length) (hr : r.length ≤ L) (_ : A n e r = .ok ()) :
    allocAsIs n e r = .ok () := by
  apply alloc_ok
  calc n * e ≤ L * sizeofValue := Nat.mul_le_mul (by omega) he
    _ < addrSpace := hL

/-- **The decoder accepts exactly what an eagerly checking decoder accepts (full).** `decodeChecked`
refuses a count larger than the number of unread bytes before reading any element; the code only finds
out while reading. Both return the same value and rest on the same inputs. -/
theorem c16ser_spill_ok_iff_checked (bs : List UInt8) (v : SVal) (rest : List UInt8) :
    decode bs = .ok (v, rest) ↔ decodeChecked bs = .ok (v, rest) :=
  ⟨fun h => (sim_decV (any_imp_checked bs.length allocNow) (bs.length + 1) bs v rest (Nat.le_refl _) h).1,
   fun h => (sim_decV (any_imp_now bs.length allocChecked) (bs.length + 1) bs v rest (Nat.le_refl _) h).1⟩

theorem c16ser_spill_row_ok_iff_checked (expected : Nat) (bs : List UInt8) (xs : List SVal) (rest : List UInt8) :
    decodeRow expected bs = .ok (xs, rest) ↔ decodeRowChecked expected bs = .ok (xs, rest) :=
  ⟨fun h => sim_row (any_imp_checked bs.length allocNow) expected (Nat.le_refl _) h,
   fun h => sim_row (any_imp_now bs.length allocChecked) expected (Nat.le_refl _) h⟩

/-- **The fix is conservative (full).** Everything the decoder accepted before fix a3c259e it accepts now
with the same result; and every input that fits into the address space (`length * 24 < 2^47`) and is
accepted now was accepted before with the same result. The two differ only on rejected inputs. -/
theorem c16ser_spill_fix_conservative (bs : List UInt8) (v : SVal) (rest : List UInt8) :
    (Old.decode bs = .ok (v, rest) → decode bs = .ok (v, rest))
    ∧ (bs.length * sizeofValue < addrSpace → decode bs = .ok (v, rest) → Old.decode bs = .ok (v, rest)) :=
  ⟨fun h => (sim_decV (any_imp_now bs.length allocAsIs) (bs.length + 1) bs v rest (Nat.le_refl _) h).1,
   fun hL h => (sim_decV (any_imp_old bs.length hL allocNow) (bs.length + 1) bs v rest (Nat.le_refl _) h).1⟩

/-- the old decoder, too, never ran out of budget and never read past the end (totality of the model). -/
theorem c16ser_spill_old_decode_total (bs : List UInt8) : Old.decode bs ≠ .fuel :=
  (good_decV (goodAlloc_old (top := bs)) (bs.length + 1) bs (List.suffix_refl _) (Nat.lt_succ_self _)).nofuel

/-- **Regression witness: panic (before the fix).** A 9-byte input — tag `String`, length `u64::MAX` — made
`deserialize_value` evaluate `vec![0u8; usize::MAX]`: "capacity overflow" panic. Now: `eof`. -/
theorem c16ser_spill_old_panic_witness :
    Old.decode [4, 0xff, 0xff, 0xff, 0xff, 0xff, 0xff, 0xff, 0xff] = .panic
    ∧ decode [4, 0xff, 0xff, 0xff, 0xff, 0xff, 0xff, 0xff, 0xff] = .err .eof := by
  refine ⟨by rfl, by rfl⟩

/-- **Regression witness: abort (before the fix).** Tag `String`, length `2^47`: the allocation of 128 TiB
failed and the process aborted (`handle_alloc_error`). Now: `eof`. -/
theorem c16ser_spill_old_abort_witness :
    Old.decode [4, 0, 0, 0, 0, 0, 0x80, 0, 0] = .abort ∧ decode [4, 0, 0, 0, 0, 0, 0x80, 0, 0] = .err .eof := by
  refine ⟨by rfl, by rfl⟩

/-- **Regression witness: lists and rows (before the fix).** `Vec::with_capacity(len)` with 24-byte
elements: `len = 0x0555555555555556` overflowed `isize::MAX` bytes (panic), one less was an allocation
failure (abort), before a single element was read. Now the elements present are read and the input
ends: `eof`. -/
theorem c16ser_spill_old_list_witness :
    Old.decode [7, 0x56, 0x55, 0x55, 0x55, 0x55, 0x55, 0x55, 0x05, 1, 2] = .panic
    ∧ Old.decode [7, 0x55, 0x55, 0x55, 0x55, 0x55, 0x55, 0x55, 0x05, 1, 2] = .abort
    ∧ Old.decodeRow 0 [0xff, 0xff, 0xff, 0xff, 0xff, 0xff, 0xff, 0xff] = .panic
    ∧ decode [7, 0x56, 0x55, 0x55, 0x55, 0x55, 0x55, 0x55, 0x05, 1, 2] = .err .eof
    ∧ decode [7, 0x55, 0x55, 0x55, 0x55, 0x55, 0x55, 0x55, 0x05, 1, 2] = .err .eof
    ∧ decodeRow 0 [0xff, 0xff, 0xff, 0xff, 0xff, 0xff, 0xff, 0xff] = .err .eof := by
  refine ⟨by rfl, by rfl, by rfl, by rfl, by rfl, by rfl⟩

/-- before the fix the statement "the decoder returns on every input" was false. -/
theorem c16ser_spill_old_never_panics_false : ¬ ∀ bs : List UInt8, (Old.decode bs).returned = true := by
  intro h
  have := h [4, 0xff, 0xff, 0xff, 0xff, 0xff, 0xff, 0xff, 0xff]
  rw [c16ser_spill_old_panic_witness.1] at this
  simp [Res.returned] at this

/-- the decoder is not injective (it is a left inverse of the encoder, not a bijection): a `Bool` byte
other than 0/1 reads as `true`, map entries may come in any order and with repeated keys; and a count
that is a lie ends in the error of the first element that fails, not necessarily `eof`. -/
theorem c16ser_spill_decode_noncanonical_witness :
    decode [1, 2] = .ok (.bool true, []) ∧ decode (enc (.bool true)) = .ok (.bool true, [])
    ∧ decode [8, 2,0,0,0,0,0,0,0, 1,0,0,0,0,0,0,0, 0x62, 0, 1,0,0,0,0,0,0,0, 0x61, 1, 1]
        = .ok (.map [([0x61], .bool true), ([0x62], .null)], [])
    ∧ decode [7, 0xff, 0xff, 0xff, 0xff, 0xff, 0xff, 0xff, 0xff, 11] = .err (.tag 11)
    ∧ decodeChecked [7, 0xff, 0xff, 0xff, 0xff, 0xff, 0xff, 0xff, 0xff, 11] = .err .eof := by
  refine ⟨by rfl, by rfl, by rfl, by rfl, by rfl⟩

/-- non-vacuity of the spill theorems: the hypotheses hold for a value with every variant, and the
conclusions are the expected concrete results (also for the error outcomes). -/
theorem c16ser_spill_nonvacuity :
    wf sample = true
    ∧ decode (enc sample ++ [1, 2, 3]) = .ok (sample, [1, 2, 3])
    ∧ decodeChecked (enc sample ++ [1, 2, 3]) = .ok (sample, [1, 2, 3])
    ∧ Old.decode (enc sample ++ [1, 2, 3]) = .ok (sample, [1, 2, 3])
    ∧ decodeRow 2 (encRow [sample, .null] ++ [9]) = .ok ([sample, .null], [9])
    ∧ decode [7, 1, 0, 0, 0, 0, 0, 0, 0, 0] = .ok (.list [.null], [])
    ∧ decode [7, 2, 0, 0, 0, 0, 0, 0, 0, 1, 1] = .err .eof
    ∧ decode [4, 1, 0, 0, 0, 0, 0, 0, 0, 0xff] = .err .utf8
    ∧ decode [11] = .err (.tag 11)
    ∧ decodeRow 3 [2, 0, 0, 0, 0, 0, 0, 0] = .err .cols :=
  ⟨by rfl, c16ser_spill_roundtrip sample (by rfl) _,
   (c16ser_spill_ok_iff_checked _ _ _).1 (c16ser_spill_roundtrip sample (by rfl) _),
   ((c16ser_spill_fix_conservative _ _ _).2 (by decide +kernel) (c16ser_spill_roundtrip sample (by rfl) _)),
   (c16ser_spill_row_roundtrip [sample, .null] (by rfl) (by decide) [9]).1, by rfl, by rfl, by rfl, by rfl, by rfl⟩

/-! ## bincode format -/
namespace BinP
open Bin

theorem readN_le (k n : Nat) (rest : List UInt8) : readN k (le k n ++ rest) = .ok (le k n, rest) := by
  have := readN_append (le k n) rest
  rwa [le_length] at this

theorem readVarint_varint (n : Nat) (hn : n < W64) (rest : List UInt8) :
    readVarint 8 (varint n ++ rest) = .ok (n, rest) := by
  unfold varint
  split
  · rename_i h
    have h1 : (UInt8.ofNat n).toNat = n := by rw [UInt8.toNat_ofNat']; omega
    have h2 : UInt8.ofNat n < 251 := by rw [UInt8.lt_iff_toNat_lt, h1]; exact h
    simp [readVarint, h2, h1]
  · split
    · rename_i h1 h2
      simp [readVarint, readN_le, ofLe_le]
      omega
    · split
      · rename_i h1 h2 h3
        simp [readVarint, readN_le, ofLe_le]
        omega
      · rename_i h1 h2 h3
        simp only [W64] at hn
        simp [readVarint, readN_le, ofLe_le, W64]
        omega

theorem readVarint4_tag (t : Nat) (ht : t < 251) (rest : List UInt8) :
    readVarint 4 (UInt8.ofNat t :: rest) = .ok (t, rest) := by
  have h1 : (UInt8.ofNat t).toNat = t := by rw [UInt8.toNat_ofNat']; omega
  have h2 : UInt8.ofNat t < 251 := by rw [UInt8.lt_iff_toNat_lt, h1]; exact ht
  simp [readVarint, h2, h1]

theorem zigzag_lt (x : UInt64) : zigzag x < W64 := by
  have := x.toNat_lt
  unfold zigzag W64
  split <;> omega

theorem unzigzag_zigzag (x : UInt64) : unzigzag (zigzag x) = x := by
  have hx := x.toNat_lt
  unfold zigzag unzigzag
  split
  · rename_i h
    have : 2 * x.toNat % 2 = 0 := by omega
    simp [this]
  · rename_i h
    simp only [W64]
    have h1 : (2 * (18446744073709551616 - x.toNat) - 1) % 2 ≠ 0 := by omega
    have h2 : 18446744073709551616 - 1 - (2 * (18446744073709551616 - x.toNat) - 1) / 2 = x.toNat := by omega
    simp [h1, h2]

theorem decU8s_append (b rest : List UInt8) : decU8s b.length (b ++ rest) = .ok (b, rest) := by
  induction b with
  | nil => simp [decU8s]
  | cons x b ih => simp [decU8s, readU8, ih]

theorem decStr_append (s rest : List UInt8) (hl : s.length < W64) (hu : validUtf8 s = true) :
    decStr (varint s.length ++ (s ++ rest)) = .ok (s, rest) := by
  simp [decStr, readVarint_varint _ hl, readN_append, hu]

theorem decV_succ (f : Nat) (bs : List UInt8) :
    Bin.decV (f + 1) bs = (readVarint 4 bs).bind fun p => Bin.decBody (Bin.decV f) p.1 p.2 := rfl

theorem tag_lit (t : Nat) (ht : t < 251) (rest : List UInt8) (b : UInt8) (hb : b = UInt8.ofNat t) :
    readVarint 4 (b :: rest) = .ok (t, rest) := by subst hb; exact readVarint4_tag t ht rest

mutual
theorem dec_enc (v : SVal) (hw : wf v = true) (f : Nat) (hf : depth v < f) (rest : List UInt8) :
    Bin.decV f (Bin.enc v ++ rest) = .ok (v, rest) := by
  obtain ⟨f, rfl⟩ : ∃ g, f = g + 1 := ⟨f - 1, by omega⟩
  cases v with
  | null => simp [Bin.enc, decV_succ, tag_lit 0 (by omega) _ 0 rfl, Bin.decBody]
  | bool b => cases b <;> simp [Bin.enc, decV_succ, tag_lit 1 (by omega) _ 1 rfl, Bin.decBody, Bin.decBool, readU8]
  | int x => simp [Bin.enc, decV_succ, tag_lit 2 (by omega) _ 2 rfl, Bin.decBody, readVarint_varint _ (zigzag_lt x), unzigzag_zigzag]
  | float x => simp [Bin.enc, decV_succ, tag_lit 3 (by omega) _ 3 rfl, Bin.decBody, readU64_append]
  | ts x => simp [Bin.enc, decV_succ, tag_lit 6 (by omega) _ 6 rfl, Bin.decBody, readVarint_varint _ (zigzag_lt x), unzigzag_zigzag]
  | str s =>
    simp only [wf, Bool.and_eq_true, decide_eq_true_eq] at hw
    simp [Bin.enc, decV_succ, tag_lit 4 (by omega) _ 4 rfl, Bin.decBody, decStr_append s rest hw.2 hw.1]
  | bytes b =>
    simp only [wf, decide_eq_true_eq] at hw
    simp [Bin.enc, decV_succ, tag_lit 5 (by omega) _ 5 rfl, Bin.decBody, readVarint_varint _ hw, decU8s_append]
  | vec fs =>
    simp only [wf, decide_eq_true_eq] at hw
    simp [Bin.enc, decV_succ, tag_lit 9 (by omega) _ 9 rfl, Bin.decBody, List.append_assoc, readVarint_varint _ hw, decF32s_append]
  | list xs =>
    simp only [wf, Bool.and_eq_true, decide_eq_true_eq] at hw
    have hd : depthList xs < f := by simp [depth] at hf; omega
    simp [Bin.enc, decV_succ, tag_lit 7 (by omega) _ 7 rfl, Bin.decBody, List.append_assoc, readVarint_varint _ hw.1,
      decItems_enc xs hw.2 f hd rest]
  | map es =>
    simp only [wf, Bool.and_eq_true, decide_eq_true_eq] at hw
    have hd : depthEntries es < f := by simp [depth] at hf; omega
    simp [Bin.enc, decV_succ, tag_lit 8 (by omega) _ 8 rfl, Bin.decBody, List.append_assoc, readVarint_varint _ hw.1.1,
      decEntries_enc es hw.2 f hd rest, mkMap_sorted es hw.1.2]

theorem decItems_enc (xs : List SVal) (hw : wfList xs = true) (f : Nat) (hf : depthList xs < f) (rest : List UInt8) :
    Spill.decItems (Bin.decV f) xs.length (Bin.encList xs ++ rest) = .ok (xs, rest) := by
  cases xs with
  | nil => simp [Spill.decItems, Bin.encList]
  | cons x xs =>
    simp only [wfList, Bool.and_eq_true] at hw
    simp only [depthList] at hf
    simp [Spill.decItems, Bin.encList, List.append_assoc, dec_enc x hw.1 f (by omega) _, decItems_enc xs hw.2 f (by omega) rest]

theorem decEntries_enc (es : List (List UInt8 × SVal)) (hw : wfEntries es = true) (f : Nat) (hf : depthEntries es < f)
    (rest : List UInt8) :
    Bin.decEntries (Bin.decV f) es.length (Bin.encEntries es ++ rest) = .ok (es, rest) := by
  cases es with
  | nil => simp [Bin.decEntries, Bin.encEntries]
  | cons e es =>
    obtain ⟨k, v⟩ := e
    simp only [wfEntries, Bool.and_eq_true, decide_eq_true_eq] at hw
    simp only [depthEntries] at hf
    simp [Bin.decEntries, Bin.encEntries, List.append_assoc, decStr_append k _ hw.1.1.2 hw.1.1.1,
      dec_enc v hw.1.2 f (by omega) _, decEntries_enc es hw.2 f (by omega) rest]
end

theorem varint_pos (n : Nat) : 0 < (varint n).length := by
  unfold varint; repeat' split
  all_goals simp

mutual
theorem depth_lt_enc (v : SVal) : depth v < (Bin.enc v).length := by
  cases v with
  | list xs => have := depthList_le_enc xs; have := varint_pos xs.length; simp [depth, Bin.enc]; omega
  | map es => have := depthEntries_le_enc es; have := varint_pos es.length; simp [depth, Bin.enc]; omega
  | null => simp [depth, Bin.enc]
  | bool b => simp [depth, Bin.enc]
  | int x => simp [depth, Bin.enc]
  | float x => simp [depth, Bin.enc]
  | str s => simp [depth, Bin.enc]
  | bytes b => simp [depth, Bin.enc]
  | ts t => simp [depth, Bin.enc]
  | vec fs => simp [depth, Bin.enc]
theorem depthList_le_enc (xs : List SVal) : depthList xs ≤ (Bin.encList xs).length := by
  cases xs with
  | nil => simp [depthList]
  | cons x xs => have := depth_lt_enc x; have := depthList_le_enc xs; simp [depthList, Bin.encList]; omega
theorem depthEntries_le_enc (es : List (List UInt8 × SVal)) : depthEntries es ≤ (Bin.encEntries es).length := by
  cases es with
  | nil => simp [depthEntries]
  | cons e es =>
    obtain ⟨k, v⟩ := e
    have := depth_lt_enc v; have := depthEntries_le_enc es; simp [depthEntries, Bin.encEntries]; omega
end
end BinP

/-- **bincode round trip (full, for the model of the format).** The bytes the `bincode` standard
configuration produces for the derived `Serialize` of a well-formed `Value` (`Value::serialize`, the value
field of WAL records and snapshots) decode to exactly that value, with any trailing bytes left over.
The codec itself is third-party code: this theorem is about the model of its format, which the stream
`ser bin|wal|snap` compares byte for byte with the real crate. -/
theorem c16ser_bincode_roundtrip (v : SVal) (hw : wf v = true) (rest : List UInt8) :
    Bin.decode (Bin.enc v ++ rest) = .ok (v, rest) := by
  unfold Bin.decode
  apply BinP.dec_enc v hw
  have := BinP.depth_lt_enc v
  simp; omega

theorem c16ser_bincode_enc_injective (v w : SVal) (hv : wf v = true) (hw : wf w = true) (h : Bin.enc v = Bin.enc w) : v = w := by
  have h1 := c16ser_bincode_roundtrip v hv []
  have h2 := c16ser_bincode_roundtrip w hw []
  rw [h] at h1
  rw [h1] at h2
  cases h2; rfl

/-- zig-zag and varint are exact on all 2^64 patterns / all lengths below 2^64. -/
theorem c16ser_bincode_int_roundtrip (x : UInt64) (rest : List UInt8) :
    (Bin.readVarint 8 (Bin.varint (Bin.zigzag x) ++ rest)).bind (fun p => Res.ok (Bin.unzigzag p.1, p.2)) = .ok (x, rest) := by
  simp [BinP.readVarint_varint _ (BinP.zigzag_lt x), BinP.unzigzag_zigzag]

theorem c16ser_bincode_nonvacuity :
    Bin.decode (Bin.enc sample ++ [7]) = .ok (sample, [7])
    ∧ Bin.enc (.int 0xffffffffffffffff) = [2, 1]
    ∧ Bin.enc (.int 300) = [2, 251, 0x58, 0x02]
    ∧ Bin.decode [1, 2] = .err .badbool
    ∧ Bin.importSnapshot (Bin.encSnapshot1 0 [107] sample) = .ok (1, 0) :=
  ⟨c16ser_bincode_roundtrip sample (by rfl) _, by rfl, by rfl, by rfl, by rfl⟩

example : Bin.decode (Bin.enc sample ++ [7]) = .ok (sample, [7]) := c16ser_bincode_roundtrip sample (by rfl) _
example : Bin.enc (.int 0xffffffffffffffff) = [2, 1] := by rfl                    -- −1 ↦ zig-zag 1
example : Bin.enc (.int 300) = [2, 251, 0x58, 0x02] := by rfl                      -- 300 ↦ 600 ↦ marker 251 + u16
example : Bin.decode [1, 2] = .err .badbool := by rfl                               -- (the spill decoder reads `true`)
example : Bin.decode [4, 253, 0xff, 0xff, 0xff, 0xff, 0xff, 0xff, 0xff, 0xff] = .err .eof := by rfl  -- borrowed str: no allocation

/-! ## snapshot import under the byte budget (`decode_snapshot`) -/
namespace SnapP
open Bin

/-- the decoder returned, and when it returned `Ok`: no more unread bytes and no more budget than before. -/
def Fine {α : Type} (s : List UInt8) (b : Nat) : LR α → Prop
  | .ok p => p.2.1.length ≤ s.length ∧ p.2.2 ≤ b
  | .err _ => True
  | _ => False

theorem Fine.weaken {α : Type} {s r : List UInt8} {b b' : Nat} {y : LR α} (h : Fine r b' y)
    (hr : r.length ≤ s.length) (hb : b' ≤ b) : Fine s b y := by
  cases y with
  | ok p => simp only [Fine] at h ⊢; omega
  | err e => trivial
  | panic => exact h.elim
  | abort => exact h.elim
  | fuel => exact h.elim

theorem Fine.bind {α β : Type} {s : List UInt8} {b : Nat} {x : LR α} {f : α × List UInt8 × Nat → LR β}
    (hx : Fine s b x) (hf : ∀ a r b', r.length ≤ s.length → b' ≤ b → Fine r b' (f (a, r, b'))) :
    Fine s b (x.bind f) := by
  cases x with
  | ok p =>
    obtain ⟨a, r, b'⟩ := p
    simp only [Fine] at hx
    exact (hf a r b' hx.1 hx.2).weaken hx.1 hx.2
  | err e => trivial
  | panic => exact hx.elim
  | abort => exact hx.elim
  | fuel => exact hx.elim

theorem Fine.bind_returned {α γ : Type} {s : List UInt8} {b : Nat} {x : LR α} {g : α × List UInt8 × Nat → Res γ}
    (hx : Fine s b x) (hg : ∀ a r b', r.length ≤ s.length → b' ≤ b → (g (a, r, b')).returned = true) :
    (x.bind g).returned = true := by
  cases x with
  | ok p =>
    obtain ⟨a, r, b'⟩ := p
    simp only [Fine] at hx
    exact hg a r b' hx.1 hx.2
  | err e => rfl
  | panic => exact hx.elim
  | abort => exact hx.elim
  | fuel => exact hx.elim

theorem readN_spec (k : Nat) (s : List UInt8) :
    (∃ a r, readN k s = .ok (a, r) ∧ r.length + k = s.length) ∨ readN k s = .err .eof := by
  unfold readN
  by_cases h : k ≤ s.length
  · left; refine ⟨s.take k, s.drop k, by simp [h], ?_⟩
    simp; omega
  · right; simp [h]

/-- a varint is at least one byte; `readVarint` never panics. -/
theorem readVarint_cases (m : Nat) (s : List UInt8) :
    (∃ n r, readVarint m s = .ok (n, r) ∧ r.length < s.length) ∨ (∃ e, readVarint m s = .err e) := by
  cases s with
  | nil => right; exact ⟨.eof, rfl⟩
  | cons x xs =>
    have key : ∀ k, 0 < k →
        (∃ n r, ((readN k xs).bind fun p => Res.ok (ofLe p.1, p.2)) = .ok (n, r) ∧ r.length < (x :: xs).length)
        ∨ ∃ e, ((readN k xs).bind fun p => (Res.ok (ofLe p.1, p.2) : Res (Nat × List UInt8))) = .err e := by
      intro k hk
      rcases readN_spec k xs with ⟨a, r, h, hl⟩ | h
      · left; exact ⟨ofLe a, r, by simp [h, Res.bind], by simp; omega⟩
      · right; exact ⟨.eof, by simp [h, Res.bind]⟩
    unfold readVarint
    simp only
    split
    · left; exact ⟨x.toNat, xs, rfl, by simp⟩
    · split
      · exact key 2 (by omega)
      · split
        · exact key 4 (by omega)
        · split
          · exact key 8 (by omega)
          · right; exact ⟨.inttype, rfl⟩

theorem readVarint_ok {m : Nat} {s r : List UInt8} {n : Nat} (h : readVarint m s = .ok (n, r)) : r.length < s.length := by
  rcases readVarint_cases m s with ⟨n', r', h', hl⟩ | ⟨e, h'⟩
  · rw [h'] at h; cases h; exact hl
  · rw [h'] at h; cases h

theorem readVarint_ret (m : Nat) (s : List UInt8) : (∃ p, readVarint m s = .ok p) ∨ (∃ e, readVarint m s = .err e) := by
  rcases readVarint_cases m s with ⟨n', r', h', _⟩ | h
  · left; exact ⟨_, h'⟩
  · right; exact h

theorem fine_rdVarint (w m b : Nat) (s : List UInt8) : Fine s b (rdVarint w m b s) := by
  unfold rdVarint claim
  split
  · simp only [Res.bind]
    rcases readVarint_ret m s with ⟨⟨n, r⟩, h⟩ | ⟨e, h⟩
    · have := readVarint_ok h
      simp only [h, Fine]; omega
    · simp only [h, Fine]
  · simp [Res.bind, Fine]

theorem rdVarint_lt {w m b : Nat} {s r : List UInt8} {n b' : Nat} (h : rdVarint w m b s = .ok (n, r, b')) : r.length < s.length := by
  unfold rdVarint claim at h
  split at h
  · simp only [Res.bind] at h
    rcases readVarint_ret m s with ⟨⟨n', r'⟩, h'⟩ | ⟨e, h'⟩
    · have := readVarint_ok h'
      simp only [h'] at h
      cases h; exact this
    · simp [h'] at h
  · simp [Res.bind] at h

theorem fine_rdU8 (b : Nat) (s : List UInt8) : Fine s b (rdU8 b s) := by
  unfold rdU8 claim readU8
  split
  · cases s <;> simp [Res.bind, Fine]
  · simp [Res.bind, Fine]

theorem fine_rdN (n b : Nat) (s : List UInt8) : Fine s b (rdN n b s) := by
  unfold rdN claim readN
  split
  · split <;> simp [Res.bind, Fine]
  · simp [Res.bind, Fine]

theorem fine_mStr (b : Nat) (s : List UInt8) : Fine s b (mStr b s) := by
  unfold mStr
  refine Fine.bind (fine_rdVarint 8 8 b s) (fun n r b1 _ _ => ?_)
  refine Fine.bind (fine_rdN n b1 r) (fun a r2 b2 _ _ => ?_)
  split <;> simp [Fine]

theorem fine_mU8 (b : Nat) (s : List UInt8) : Fine s b (mU8 b s) :=
  Fine.bind (fine_rdU8 b s) (fun _ _ _ _ _ => by simp [Fine])

theorem fine_mF32 (b : Nat) (s : List UInt8) : Fine s b (mF32 b s) :=
  Fine.bind (fine_rdN 4 b s) (fun _ _ _ _ _ => by simp [Fine])

theorem fine_mBool (b : Nat) (s : List UInt8) : Fine s b (mBool b s) :=
  Fine.bind (fine_rdU8 b s) (fun _ _ _ _ _ => by split <;> simp [Fine])

/-- a loop is fine if its body is, for every budget up to `B` and every input of at most `L` bytes. -/
theorem fine_skipN {one : Skip} {L B : Nat} (h1 : ∀ b s, b ≤ B → s.length ≤ L → Fine s b (one b s)) :
    ∀ n b s, b ≤ B → s.length ≤ L → Fine s b (skipN one n b s) := by
  intro n
  induction n with
  | zero => intro b s _ _; simp [skipN, Fine]
  | succ n ih =>
    intro b s hb hs
    simp only [skipN]
    exact Fine.bind (h1 b s hb hs) (fun _ r b' hr hb' => ih b' r (by omega) (by omega))

theorem fine_mEntry {dec : Skip} {L B : Nat} (hd : ∀ b s, b ≤ B → s.length ≤ L → Fine s b (dec b s)) :
    ∀ b s, b ≤ B → s.length ≤ L → Fine s b (mEntry dec b s) := fun b s hb hs =>
  Fine.bind (fine_mStr b s) (fun _ r b' hr hb' => hd b' r (by omega) (by omega))

theorem fine_mBody {dec : Skip} {L B : Nat} (hd : ∀ b s, b ≤ B → s.length ≤ L → Fine s b (dec b s))
    (idx b : Nat) (r : List UInt8) (hb : b ≤ B) (hr : r.length ≤ L) : Fine r b (mBody dec idx b r) := by
  unfold mBody
  repeat' split
  · simp [Fine]
  · exact fine_mBool b r
  · exact Fine.bind (fine_rdVarint 8 8 b r) (fun _ _ _ _ _ => by simp [Fine])
  · exact Fine.bind (fine_rdN 8 b r) (fun _ _ _ _ _ => by simp [Fine])
  · exact fine_mStr b r
  · exact Fine.bind (fine_rdVarint 8 8 b r) (fun n r' b' _ _ =>
      fine_skipN (L := L) (B := B) (fun b s _ _ => fine_mU8 b s) n b' r' (by omega) (by omega))
  · exact Fine.bind (fine_rdVarint 8 8 b r) (fun _ _ _ _ _ => by simp [Fine])
  · exact Fine.bind (fine_rdVarint 8 8 b r) (fun n r' b' _ _ => fine_skipN hd n b' r' (by omega) (by omega))
  · exact Fine.bind (fine_rdVarint 8 8 b r) (fun n r' b' _ _ =>
      fine_skipN (fine_mEntry hd) n b' r' (by omega) (by omega))
  · exact Fine.bind (fine_rdVarint 8 8 b r) (fun n r' b' _ _ =>
      fine_skipN (L := L) (B := B) (fun b s _ _ => fine_mF32 b s) n b' r' (by omega) (by omega))
  · simp [Fine]

/-- the value decoder under a limit returns, and its fuel suffices: every nesting level costs a byte. -/
theorem fine_mV (f : Nat) : ∀ b s, s.length < f → Fine s b (mV f b s) := by
  induction f with
  | zero => intro b s h; omega
  | succ f ih =>
    intro b s hs
    simp only [mV]
    have h1 := fine_rdVarint 4 4 b s
    cases hrd : rdVarint 4 4 b s with
    | ok p =>
      obtain ⟨idx, r, b1⟩ := p
      have hlt := rdVarint_lt hrd
      rw [hrd] at h1
      simp only [Fine] at h1
      simp only [Res.bind]
      exact (fine_mBody (L := r.length) (B := b1) (fun b' s' _ hs' => ih b' s' (by omega)) idx b1 r
        (Nat.le_refl _) (Nat.le_refl _)).weaken h1.1 h1.2
    | err e => simp [Res.bind, Fine]
    | panic => rw [hrd] at h1; exact h1.elim
    | abort => rw [hrd] at h1; exact h1.elim
    | fuel => rw [hrd] at h1; exact h1.elim

/-- the owned `String`: the announced length is claimed first, so what is allocated is at most the
remaining budget. -/
theorem fine_decString (b : Nat) (s : List UInt8) (hb : b < addrSpace) : Fine s b (decString b s) := by
  unfold decString
  refine Fine.bind (fine_rdVarint 8 8 b s) (fun n r b1 _ hb1 => ?_)
  simp only [claim]
  split
  · have ha : alloc n 1 = .ok () := alloc_ok n 1 (by omega)
    simp only [Res.bind, ha]
    rcases readN_spec n r with ⟨a, r', h, hl⟩ | h
    · simp only [h]
      split <;> simp [Fine]
      omega
    · simp [h, Fine]
  · simp [Res.bind, Fine]

theorem fine_mProp {f L B : Nat} (hB : B < addrSpace) (hL : L < f) :
    ∀ b s, b ≤ B → s.length ≤ L → Fine s b (mProp f b s) := fun b s hb hs =>
  Fine.bind (fine_decString b s (by omega)) (fun _ r b' hr _ => fine_mV f b' r (by omega))

theorem fine_decStrings {L B : Nat} (hB : B < addrSpace) :
    ∀ n b s, b ≤ B → s.length ≤ L → Fine s b (decStrings n b s) :=
  fine_skipN (L := L) (B := B) (fun b s hb _ => fine_decString b s (by omega))

theorem fine_decProps {f L B : Nat} (hB : B < addrSpace) (hL : L < f) :
    ∀ n b s, b ≤ B → s.length ≤ L → Fine s b (decProps f n b s) :=
  fine_skipN (fine_mProp hB hL)

theorem fine_decNodes {f L B : Nat} (hB : B < addrSpace) (hL : L < f) :
    ∀ n b s, b ≤ B → s.length ≤ L → Fine s b (decNodes f n b s) := by
  intro n
  induction n with
  | zero => intro b s _ _; simp [decNodes, Fine]
  | succ n ih =>
    intro b s hb hs
    simp only [decNodes]
    refine Fine.bind (fine_rdVarint 8 8 b s) (fun _ r1 b1 _ _ => ?_)
    refine Fine.bind (fine_rdVarint 8 8 b1 r1) (fun nl r2 b2 _ _ => ?_)
    refine Fine.bind (fine_decStrings (L := L) hB nl b2 r2 (by omega) (by omega)) (fun _ r3 b3 _ _ => ?_)
    refine Fine.bind (fine_rdVarint 8 8 b3 r3) (fun np r4 b4 _ _ => ?_)
    refine Fine.bind (fine_decProps hB hL np b4 r4 (by omega) (by omega)) (fun _ r5 b5 _ _ => ?_)
    refine Fine.bind (ih b5 r5 (by omega) (by omega)) (fun _ _ _ _ _ => by simp [Fine])

theorem fine_decEdges {f L B : Nat} (hB : B < addrSpace) (hL : L < f) :
    ∀ n b s, b ≤ B → s.length ≤ L → Fine s b (decEdges f n b s) := by
  intro n
  induction n with
  | zero => intro b s _ _; simp [decEdges, Fine]
  | succ n ih =>
    intro b s hb hs
    simp only [decEdges]
    refine Fine.bind (fine_rdVarint 8 8 b s) (fun _ r1 b1 _ _ => ?_)
    refine Fine.bind (fine_rdVarint 8 8 b1 r1) (fun _ r2 b2 _ _ => ?_)
    refine Fine.bind (fine_rdVarint 8 8 b2 r2) (fun _ r3 b3 _ _ => ?_)
    refine Fine.bind (fine_decString b3 r3 (by omega)) (fun _ r4 b4 _ _ => ?_)
    refine Fine.bind (fine_rdVarint 8 8 b4 r4) (fun np r5 b5 _ _ => ?_)
    refine Fine.bind (fine_decProps hB hL np b5 r5 (by omega) (by omega)) (fun _ r6 b6 _ _ => ?_)
    refine Fine.bind (ih b6 r6 (by omega) (by omega)) (fun _ _ _ _ _ => by simp [Fine])

theorem sizeClass_spec (need : Nat) (h : need ≤ 17592186044415) :
    need ≤ sizeClass need ∧ sizeClass need ≤ 17592186044415 := by
  unfold sizeClass
  repeat' split
  all_goals omega

theorem need_eq (n : Nat) (h : n < 2199023255544) : satAdd (satMul n 8) 64 = n * 8 + 64 := by
  have h1 : n * 8 ≤ usizeMax := by unfold usizeMax; omega
  have h2 : n * 8 + 64 ≤ usizeMax := by unfold usizeMax; omega
  simp [satAdd, satMul, h1, h2]

/-- the size classes: at least `8·len + 64`, and below the address space for inputs below 2 TiB. -/
theorem budget_ge (n : Nat) (h : n < 2199023255544) : n * 8 + 64 ≤ budget n := by
  unfold budget; rw [need_eq n h]
  exact (sizeClass_spec _ (by omega)).1

theorem budget_lt_addrSpace (n : Nat) (h : n < 2199023255544) : budget n < addrSpace := by
  unfold budget; rw [need_eq n h]
  have := (sizeClass_spec (n * 8 + 64) (by omega)).2
  unfold addrSpace; omega

end SnapP

/-- **`import_snapshot` returns on every input (full, for inputs below 2 TiB).** Whatever the bytes —
truncated, lying length prefixes, unknown tags, nesting as deep as the input is long — the model of
`GrafeoDB::import_snapshot` after the repair ends in `Ok` or `Err`: no capacity-overflow panic, no
allocation failure, and the model's recursion budget is never exhausted. The hypothesis is the range in
which the size class of `decode_snapshot` (`≥ 8·len + 64`) stays below the modelled address space
(`2^47`): `len < 2^41 − 8`. Beyond it the class is `usize::MAX >> 1`, a lying prefix between `2^47` and
the remaining budget would again be handed to the allocator; such an input does not fit into the memory
of the machines the engine runs on, and is outside this theorem. -/
theorem c16ser_snapshot_import_never_panics (bs : List UInt8) (h : bs.length < 2199023255544) :
    (Bin.importSnapshot bs).returned = true := by
  open SnapP Bin in
  have hB := budget_lt_addrSpace bs.length h
  unfold Bin.importSnapshot
  simp only
  refine Fine.bind_returned (fine_rdU8 (budget bs.length) bs) (fun ver r1 b1 _ _ => ?_)
  refine Fine.bind_returned (fine_rdVarint 8 8 b1 r1) (fun nn r2 b2 _ _ => ?_)
  refine Fine.bind_returned (fine_decNodes (L := bs.length) hB (Nat.lt_succ_self _) nn b2 r2 (by omega) (by omega))
    (fun ns r3 b3 _ _ => ?_)
  refine Fine.bind_returned (fine_rdVarint 8 8 b3 r3) (fun ne r4 b4 _ _ => ?_)
  refine Fine.bind_returned (fine_decEdges (L := bs.length) hB (Nat.lt_succ_self _) ne b4 r4 (by omega) (by omega))
    (fun es r5 b5 _ _ => ?_)
  split <;> rfl

/-! ### a valid encoding stays within the budget -/
namespace SnapP
open Bin

mutual
/-- the bytes the limited decoder claims for a value. -/
def cl : SVal → Nat
  | .null => 4
  | .bool _ => 5
  | .int _ => 12
  | .float _ => 12
  | .str s => 12 + s.length
  | .bytes b => 12 + b.length
  | .ts _ => 12
  | .list xs => 12 + clList xs
  | .map es => 12 + clEntries es
  | .vec fs => 12 + 4 * fs.length
def clList : List SVal → Nat
  | [] => 0
  | x :: xs => cl x + clList xs
def clEntries : List (List UInt8 × SVal) → Nat
  | [] => 0
  | (k, v) :: es => (8 + k.length) + cl v + clEntries es
end

theorem claim_ok {b n : Nat} (h : n ≤ b) : claim b n = .ok (b - n) := by simp [claim, h]

theorem rdVarint_varint (w n b : Nat) (rest : List UInt8) (hn : n < W64) (hw : w ≤ b) :
    rdVarint w 8 b (varint n ++ rest) = .ok (n, rest, b - w) := by
  simp [rdVarint, claim_ok hw, Res.bind, BinP.readVarint_varint n hn rest]

theorem rdTag (t : Nat) (ht : t < 251) (rest : List UInt8) (x : UInt8) (hx : x = UInt8.ofNat t) (b : Nat) (hb : 4 ≤ b) :
    rdVarint 4 4 b (x :: rest) = .ok (t, rest, b - 4) := by
  simp [rdVarint, claim_ok hb, Res.bind, BinP.tag_lit t ht rest x hx]

theorem rdN_append (xs rest : List UInt8) (b : Nat) (h : xs.length ≤ b) :
    rdN xs.length b (xs ++ rest) = .ok (xs, rest, b - xs.length) := by
  simp [rdN, claim_ok h, Res.bind, readN_append]

theorem mStr_append (s rest : List UInt8) (b : Nat) (hl : s.length < W64) (hu : validUtf8 s = true) (h : 8 + s.length ≤ b) :
    mStr b (varint s.length ++ (s ++ rest)) = .ok ((), rest, b - (8 + s.length)) := by
  simp [mStr, rdVarint_varint 8 s.length b _ hl (by omega), Res.bind, rdN_append s rest (b - 8) (by omega), hu, Nat.sub_sub]

theorem decString_append (s rest : List UInt8) (b : Nat) (hl : s.length < W64) (hu : validUtf8 s = true)
    (h : 8 + s.length ≤ b) (hb : b < addrSpace) :
    decString b (varint s.length ++ (s ++ rest)) = .ok ((), rest, b - (8 + s.length)) := by
  have h2 : s.length ≤ b - 8 := by omega
  simp [decString, rdVarint_varint 8 s.length b _ hl (by omega), Res.bind, claim_ok h2,
    alloc_ok s.length 1 (by omega), readN_append, hu, Nat.sub_sub]

theorem skipU8s (bs rest : List UInt8) : ∀ b, bs.length ≤ b → skipN mU8 bs.length b (bs ++ rest) = .ok ((), rest, b - bs.length) := by
  induction bs with
  | nil => intro b _; simp [skipN]
  | cons x xs ih =>
    intro b hb
    simp only [List.length_cons] at hb
    have h1 : 1 ≤ b := by omega
    simp [skipN, mU8, rdU8, claim_ok h1, readU8, Res.bind, ih (b - 1) (by omega), Nat.sub_sub, Nat.add_comm]

theorem skipF32s (fs : List UInt32) (rest : List UInt8) :
    ∀ b, 4 * fs.length ≤ b → skipN mF32 fs.length b (Spill.encF32s fs ++ rest) = .ok ((), rest, b - 4 * fs.length) := by
  induction fs with
  | nil => intro b _; simp [skipN, Spill.encF32s]
  | cons x xs ih =>
    intro b hb
    simp only [List.length_cons] at hb
    have h4 := rdN_append (le 4 x.toNat) (Spill.encF32s xs ++ rest) b (by rw [le_length]; omega)
    rw [le_length] at h4
    simp [skipN, mF32, Spill.encF32s, u32le, List.append_assoc, h4, Res.bind, ih (b - 4) (by omega), Nat.sub_sub]
    omega

mutual
theorem mV_enc (v : SVal) (hw : wf v = true) (f : Nat) (hf : depth v < f) (rest : List UInt8) (b : Nat) (hb : cl v ≤ b) :
    mV f b (Bin.enc v ++ rest) = .ok ((), rest, b - cl v) := by
  obtain ⟨f, rfl⟩ : ∃ g, f = g + 1 := ⟨f - 1, by omega⟩
  cases v with
  | null => simp [cl] at hb; simp [Bin.enc, mV, rdTag 0 (by omega) _ 0 rfl b (by omega), Res.bind, mBody, cl]
  | bool x =>
    simp [cl] at hb
    have h1 : 1 ≤ b - 4 := by omega
    cases x <;> simp [Bin.enc, mV, rdTag 1 (by omega) _ 1 rfl b (by omega), Res.bind, mBody, mBool, rdU8, claim_ok h1, readU8, cl, Nat.sub_sub]
  | int x =>
    simp [cl] at hb
    simp [Bin.enc, mV, rdTag 2 (by omega) _ 2 rfl b (by omega), Res.bind, mBody,
      rdVarint_varint 8 _ (b - 4) rest (BinP.zigzag_lt x) (by omega), cl, Nat.sub_sub]
  | ts x =>
    simp [cl] at hb
    simp [Bin.enc, mV, rdTag 6 (by omega) _ 6 rfl b (by omega), Res.bind, mBody,
      rdVarint_varint 8 _ (b - 4) rest (BinP.zigzag_lt x) (by omega), cl, Nat.sub_sub]
  | float x =>
    simp [cl] at hb
    have h8 := rdN_append (u64le x) rest (b - 4) (by simp [u64le, le_length]; omega)
    simp only [u64le, le_length] at h8
    simp [Bin.enc, mV, rdTag 3 (by omega) _ 3 rfl b (by omega), Res.bind, mBody, u64le, h8, cl, Nat.sub_sub]
  | str s =>
    simp only [wf, Bool.and_eq_true, decide_eq_true_eq] at hw
    simp [cl] at hb
    simp [Bin.enc, mV, rdTag 4 (by omega) _ 4 rfl b (by omega), Res.bind, mBody,
      mStr_append s rest (b - 4) hw.2 hw.1 (by omega), cl, Nat.sub_sub]
    omega
  | bytes x =>
    simp only [wf, decide_eq_true_eq] at hw
    simp [cl] at hb
    simp [Bin.enc, mV, rdTag 5 (by omega) _ 5 rfl b (by omega), Res.bind, mBody,
      rdVarint_varint 8 _ (b - 4) _ hw (by omega), skipU8s x rest (b - 12) (by omega), cl, Nat.sub_sub]
    all_goals omega
  | vec fs =>
    simp only [wf, decide_eq_true_eq] at hw
    simp [cl] at hb
    simp [Bin.enc, mV, rdTag 9 (by omega) _ 9 rfl b (by omega), Res.bind, mBody, List.append_assoc,
      rdVarint_varint 8 _ (b - 4) _ hw (by omega), skipF32s fs rest (b - 12) (by omega), cl, Nat.sub_sub]
    all_goals omega
  | list xs =>
    simp only [wf, Bool.and_eq_true, decide_eq_true_eq] at hw
    have hd : depthList xs < f := by simp [depth] at hf; omega
    simp [cl] at hb
    simp [Bin.enc, mV, rdTag 7 (by omega) _ 7 rfl b (by omega), Res.bind, mBody, List.append_assoc,
      rdVarint_varint 8 _ (b - 4) _ hw.1 (by omega), mItems_enc xs hw.2 f hd rest (b - 12) (by omega), cl, Nat.sub_sub]
    all_goals omega
  | map es =>
    simp only [wf, Bool.and_eq_true, decide_eq_true_eq] at hw
    have hd : depthEntries es < f := by simp [depth] at hf; omega
    simp [cl] at hb
    simp [Bin.enc, mV, rdTag 8 (by omega) _ 8 rfl b (by omega), Res.bind, mBody, List.append_assoc,
      rdVarint_varint 8 _ (b - 4) _ hw.1.1 (by omega), mEntries_enc es hw.2 f hd rest (b - 12) (by omega), cl, Nat.sub_sub]
    all_goals omega

theorem mItems_enc (xs : List SVal) (hw : wfList xs = true) (f : Nat) (hf : depthList xs < f) (rest : List UInt8)
    (b : Nat) (hb : clList xs ≤ b) :
    skipN (mV f) xs.length b (Bin.encList xs ++ rest) = .ok ((), rest, b - clList xs) := by
  cases xs with
  | nil => simp [skipN, Bin.encList, clList]
  | cons x xs =>
    simp only [wfList, Bool.and_eq_true] at hw
    simp only [depthList] at hf
    simp only [clList] at hb
    simp [skipN, Bin.encList, List.append_assoc, mV_enc x hw.1 f (by omega) _ b (by omega), Res.bind,
      mItems_enc xs hw.2 f (by omega) rest (b - cl x) (by omega), clList, Nat.sub_sub]

theorem mEntries_enc (es : List (List UInt8 × SVal)) (hw : wfEntries es = true) (f : Nat) (hf : depthEntries es < f)
    (rest : List UInt8) (b : Nat) (hb : clEntries es ≤ b) :
    skipN (mEntry (mV f)) es.length b (Bin.encEntries es ++ rest) = .ok ((), rest, b - clEntries es) := by
  cases es with
  | nil => simp [skipN, Bin.encEntries, clEntries]
  | cons e es =>
    obtain ⟨k, v⟩ := e
    simp only [wfEntries, Bool.and_eq_true, decide_eq_true_eq] at hw
    simp only [depthEntries] at hf
    simp only [clEntries] at hb
    simp [skipN, mEntry, Bin.encEntries, List.append_assoc, mStr_append k _ b hw.1.1.2 hw.1.1.1 (by omega), Res.bind,
      mV_enc v hw.1.2 f (by omega) _ (b - (8 + k.length)) (by omega),
      mEntries_enc es hw.2 f (by omega) rest (b - (8 + k.length + cl v)) (by omega), clEntries, Nat.sub_sub]
end

end SnapP

namespace SnapP
open Bin

theorem encF32s_length (fs : List UInt32) : (Spill.encF32s fs).length = 4 * fs.length := by
  induction fs with
  | nil => simp [Spill.encF32s]
  | cons x xs ih => simp [Spill.encF32s, u32le, le_length, ih]; omega

mutual
/-- a decoded item claims at most 8 times the bytes it occupies (a one-byte varint of a `u64` claims 8). -/
theorem cl_le_enc (v : SVal) : cl v ≤ 8 * (Bin.enc v).length := by
  cases v with
  | null => simp [cl, Bin.enc]
  | bool b => simp [cl, Bin.enc]
  | int x => have := BinP.varint_pos (zigzag x); simp [cl, Bin.enc]; omega
  | ts x => have := BinP.varint_pos (zigzag x); simp [cl, Bin.enc]; omega
  | float x => simp [cl, Bin.enc, u64le, le_length]
  | str s => have := BinP.varint_pos s.length; simp [cl, Bin.enc]; omega
  | bytes s => have := BinP.varint_pos s.length; simp [cl, Bin.enc]; omega
  | vec fs => have := BinP.varint_pos fs.length; simp [cl, Bin.enc, encF32s_length]; omega
  | list xs => have := BinP.varint_pos xs.length; have := clList_le_enc xs; simp [cl, Bin.enc]; omega
  | map es => have := BinP.varint_pos es.length; have := clEntries_le_enc es; simp [cl, Bin.enc]; omega
theorem clList_le_enc (xs : List SVal) : clList xs ≤ 8 * (Bin.encList xs).length := by
  cases xs with
  | nil => simp [clList]
  | cons x xs => have := cl_le_enc x; have := clList_le_enc xs; simp [clList, Bin.encList]; omega
theorem clEntries_le_enc (es : List (List UInt8 × SVal)) : clEntries es ≤ 8 * (Bin.encEntries es).length := by
  cases es with
  | nil => simp [clEntries]
  | cons e es =>
    obtain ⟨k, v⟩ := e
    have := cl_le_enc v; have := clEntries_le_enc es; have := BinP.varint_pos k.length
    simp [clEntries, Bin.encEntries]; omega
end

end SnapP

/-- **A valid value is accepted under every sufficient budget (full).** The limited value decoder reads
the encoding of a well-formed value, leaves the rest, and uses up exactly `cl v` of the budget — which is
at most 8 bytes per encoded byte, the factor `decode_snapshot` provides for. -/
theorem c16ser_snapshot_value_within_budget (v : SVal) (hw : wf v = true) (rest : List UInt8) (b : Nat)
    (hb : 8 * (Bin.enc v).length ≤ b) :
    Bin.mV ((Bin.enc v).length + 1) b (Bin.enc v ++ rest) = .ok ((), rest, b - SnapP.cl v) ∧ SnapP.cl v ≤ b := by
  have h1 := SnapP.cl_le_enc v
  have h2 := BinP.depth_lt_enc v
  exact ⟨SnapP.mV_enc v hw _ (by omega) rest b (by omega), by omega⟩

/-- **A valid snapshot still imports (full, for the shape `ser snap` exports: one node, one property).**
For every id, every UTF-8 key and every well-formed value, the bytes `export_snapshot` produces are
accepted by `import_snapshot` after the repair: the claims of a valid encoding (`49 + |key| + cl v`) never
exceed the budget `≥ 8·len + 64`. (The first version of the repair, budget `2·len + 64`, failed this
on 2730 empty nodes; corpus case `snapshot-budget`.) -/
theorem c16ser_snapshot_import_valid (id : Nat) (key : List UInt8) (v : SVal) (hid : id < W64)
    (hk : validUtf8 key = true) (hkl : key.length < W64) (hw : wf v = true)
    (hlen : (Bin.encSnapshot1 id key v).length < 2199023255544) :
    Bin.importSnapshot (Bin.encSnapshot1 id key v) = .ok (1, 0) := by
  open SnapP Bin in
  have hge := budget_ge _ hlen
  have hlt := budget_lt_addrSpace _ hlen
  have hcl := cl_le_enc v
  have hd := BinP.depth_lt_enc v
  have hL : 7 + key.length + (Bin.enc v).length ≤ (encSnapshot1 id key v).length := by
    have := BinP.varint_pos id; have := BinP.varint_pos key.length; have := BinP.varint_pos 1; have := BinP.varint_pos 0
    simp [encSnapshot1, encStr]; omega
  unfold Bin.importSnapshot
  simp only []
  generalize budget (encSnapshot1 id key v).length = B at *
  generalize hF : (encSnapshot1 id key v).length + 1 = F
  have hdf : depth v < F := by omega
  have hB : 49 + key.length + cl v ≤ B := by omega
  clear hge hL hF hlen
  have he : encSnapshot1 id key v = 1 :: (varint 1 ++ (varint id ++ (varint 0 ++ (varint 1 ++
      (varint key.length ++ (key ++ (Bin.enc v ++ (varint 0 ++ [])))))))) := by simp [encSnapshot1, encStr]
  rw [he]
  have h1 : 1 < W64 := by decide
  have h0 : 0 < W64 := by decide
  have c1 : claim B 1 = .ok (B - 1) := claim_ok (by omega)
  simp only [rdU8, c1, readU8, Res.bind]
  rw [rdVarint_varint 8 1 _ _ h1 (by omega)]
  simp only [Res.bind, decNodes]
  rw [rdVarint_varint 8 id _ _ hid (by omega)]
  simp only [Res.bind]
  rw [rdVarint_varint 8 0 _ _ h0 (by omega)]
  simp only [Res.bind, decStrings, skipN]
  rw [rdVarint_varint 8 1 _ _ h1 (by omega)]
  simp only [Res.bind, decProps, skipN, mProp]
  rw [decString_append key _ _ hkl hk (by omega) (by omega)]
  simp only [Res.bind]
  rw [mV_enc v hw F hdf _ _ (by omega)]
  simp only [Res.bind]
  rw [rdVarint_varint 8 0 _ _ h0 (by omega)]
  simp [Res.bind, decEdges, dedupCount]

/-- **Regression witness: `import_snapshot` before the repair, on 13 bytes.** version 1, one node, id 0,
one label whose length field is `u64::MAX`: without a limit the owned `String` is decoded by
`vec![0u8; len]` before the bytes are read → panic; with length `2^62` → allocation failure, abort. -/
theorem c16ser_snapshot_import_old_panic_witness :
    Bin.Old.importSnapshot [1, 1, 0, 1, 253, 0xff, 0xff, 0xff, 0xff, 0xff, 0xff, 0xff, 0xff] = .panic
    ∧ Bin.Old.importSnapshot [1, 1, 0, 1, 253, 0, 0, 0, 0, 0, 0, 0, 0x40] = .abort := by
  refine ⟨by rfl, by rfl⟩

/-- **The same bytes after the repair** are refused before anything is allocated (`LimitExceeded`), and a
snapshot that is valid still imports (one node, one property holding every kind of value; 1000 nodes). -/
theorem c16ser_snapshot_import_nonvacuity :
    Bin.importSnapshot [1, 1, 0, 1, 253, 0xff, 0xff, 0xff, 0xff, 0xff, 0xff, 0xff, 0xff] = .err .limit
    ∧ Bin.importSnapshot [1, 1, 0, 1, 253, 0, 0, 0, 0, 0, 0, 0, 0x40] = .err .limit
    ∧ Bin.importSnapshot (Bin.encSnapshot1 0 [107] sample) = .ok (1, 0)
    ∧ Bin.importSnapshot [2, 0, 0] = .err .version
    ∧ Bin.importSnapshot [1, 1, 0, 1, 2, 0xc3] = .err .eof := by
  refine ⟨by rfl, by rfl, by rfl, by rfl, by rfl⟩

example : Bin.importSnapshot (Bin.encSnapshot1 0 [107] sample) = .ok (1, 0) := by rfl
example : Bin.importSnapshot [2, 0, 0] = .err .version := by rfl
example : Bin.Old.importSnapshot (Bin.encSnapshot1 0 [107] sample) = .ok (1, 0) := by rfl

/-! ## JSON of the C binding -/
namespace JsonP
open Json

theorem asI64_numOfI64 (x : UInt64) : asI64 (numOfI64 x) = some x := by
  unfold numOfI64
  split
  · rename_i h; simp [asI64, h]
  · simp [asI64]

theorem keys_ofEntries (es : List (List UInt8 × SVal)) : (ofEntries es).map Prod.fst = es.map Prod.fst := by
  induction es with
  | nil => rfl
  | cons e es ih => obtain ⟨k, v⟩ := e; simp [ofEntries, ih]

/-- what `obj.get(key).and_then(as_i64)` sees in the image of a non-integer value -/
def numI64 : J → Option UInt64
  | .num n => asI64 n
  | _ => none

theorem tsField_eq (es : List (List UInt8 × J)) : tsField es = (lookupKV tsKey es).bind numI64 := by
  unfold tsField
  cases h : lookupKV tsKey es with
  | none => rfl
  | some j => cases j <;> rfl

theorem numI64_ofVal (v : SVal) (h : isInt v = false) : numI64 (ofVal v) = none := by
  cases v with
  | int x => simp [isInt] at h
  | float x =>
    simp only [ofVal, ofF64]
    split <;> simp [numI64, asI64]
  | null => simp [ofVal, numI64]
  | bool b => simp [ofVal, numI64]
  | str s => simp [ofVal, numI64]
  | bytes b => simp [ofVal, numI64]
  | ts t => simp [ofVal, numI64]
  | list xs => simp [ofVal, numI64]
  | map es => simp [ofVal, numI64]
  | vec fs => simp [ofVal, numI64]

theorem tsField_ofEntries (es : List (List UInt8 × SVal)) (h : safeEntries es = true) :
    tsField (ofEntries es) = none := by
  rw [tsField_eq]
  induction es with
  | nil => rfl
  | cons e es ih =>
    obtain ⟨k, v⟩ := e
    simp only [safeEntries, Bool.and_eq_true, Bool.not_eq_true', Bool.and_eq_false_iff, beq_eq_false_iff_ne] at h
    simp only [ofEntries, lookupKV]
    split
    · rename_i hk
      rcases h.1.1 with h1 | h1
      · exact absurd hk h1
      · simp [Option.bind, numI64_ofVal v h1]
    · exact ih h.2

mutual
theorem toVal_ofVal (v : SVal) (h : safe v = true) : toVal (ofVal v) = v := by
  cases v with
  | null => simp [ofVal, toVal]
  | bool b => simp [ofVal, toVal]
  | int x => simp [ofVal, toVal, asI64_numOfI64]
  | float x =>
    simp only [safe] at h
    simp [ofVal, ofF64, h, toVal, asI64, asF64]
  | str s => simp [ofVal, toVal]
  | bytes b => simp [safe] at h
  | vec fs => simp [safe] at h
  | ts t =>
    have : tsField [(tsKey, J.num (numOfI64 t))] = some t := by
      simp [tsField, lookupKV, asI64_numOfI64]
    simp [ofVal, toVal, this]
  | list xs =>
    simp only [safe] at h
    simp [ofVal, toVal, toList_ofList xs h]
  | map es =>
    simp only [safe, Bool.and_eq_true] at h
    have hk : keysOK ((ofEntries es).map Prod.fst) = true := by rw [keys_ofEntries]; exact h.1
    simp [ofVal, toVal, mkMap_sorted _ hk, tsField_ofEntries es h.2, toEntries_ofEntries es h.2, mkMap_sorted es h.1]
theorem toList_ofList (xs : List SVal) (h : safeList xs = true) : toList (ofList xs) = xs := by
  cases xs with
  | nil => rfl
  | cons x xs =>
    simp only [safeList, Bool.and_eq_true] at h
    simp [ofList, toList, toVal_ofVal x h.1, toList_ofList xs h.2]
theorem toEntries_ofEntries (es : List (List UInt8 × SVal)) (h : safeEntries es = true) : toEntries (ofEntries es) = es := by
  cases es with
  | nil => rfl
  | cons e es =>
    obtain ⟨k, v⟩ := e
    simp only [safeEntries, Bool.and_eq_true] at h
    simp [ofEntries, toEntries, toVal_ofVal v h.1.2, toEntries_ofEntries es h.2]
end

end JsonP

/-- **JSON of the C binding (partial).** For every value that contains no `Bytes`, no `Vector`, no
non-finite float and no map in which the key `"$timestamp_us"` is bound to an integer (decidable:
`Json.safe`; it also asks for the `BTreeMap` key order), `json_to_value (value_to_json v) = v`, bit for
bit — all `i64` (including `MIN`), all finite floats (−0.0, subnormals), timestamps, strings, nesting. -/
theorem c16ser_json_roundtrip_partial (v : SVal) (h : Json.safe v = true) : Json.roundTrip v = v :=
  JsonP.toVal_ofVal v h

/-- **Witnesses: what the JSON path changes.** NaN and ±∞ become `Null`; `Bytes` come back as a list of
integers; a `Vector` as a list of (widened) floats; a map with the key `"$timestamp_us"` bound to an
integer comes back as a `Timestamp` and loses its other entries; empty `Bytes`/`Vector` become `[]`. -/
theorem c16ser_json_loss_witnesses :
    Json.roundTrip (.float 0x7ff8000000000000) = .null
    ∧ Json.roundTrip (.float 0x7ff0000000000000) = .null
    ∧ Json.roundTrip (.bytes [0, 255]) = .list [.int 0, .int 255]
    ∧ Json.roundTrip (.vec [0x3f800000, 0x3dcccccd]) = .list [.float 0x3ff0000000000000, .float 0x3fb99999a0000000]
    ∧ Json.roundTrip (.map [(Json.tsKey, .int 5), ([0x61], .int 1)]) = .ts 5
    ∧ Json.roundTrip (.bytes []) = .list [] ∧ Json.roundTrip (.vec []) = .list [] := by
  refine ⟨by rfl, by rfl, by rfl, by rfl, by rfl, by rfl, by rfl⟩

/-- the full statement "every well-formed value survives the JSON path" is false. -/
theorem c16ser_json_roundtrip_false : ¬ ∀ v : SVal, wf v = true → Json.roundTrip v = v := by
  intro h
  have h1 := h (.float 0x7ff8000000000000) (by rfl)
  rw [c16ser_json_loss_witnesses.1] at h1
  cases h1

/-- a safe value with everything the partial theorem covers -/
def jsonSample : SVal :=
  .list [.null, .bool false, .int 0x8000000000000000, .int 0x7fffffffffffffff, .float 0x8000000000000000,
    .float 1, .float 0x7fefffffffffffff, .str [0xf0, 0x9f, 0x8c, 0x8d], .ts 0xfffffffffffffffb,
    .map [([], .list []), (Json.tsKey, .str [0x41]), ([0x61], .map [])]]

theorem c16ser_json_nonvacuity :
    Json.safe jsonSample = true ∧ Json.roundTrip jsonSample = jsonSample
    ∧ Json.safe (.map [(Json.tsKey, .int 5)]) = false :=
  ⟨by rfl, c16ser_json_roundtrip_partial _ (by rfl), by rfl⟩

example : Json.safe jsonSample = true := by rfl
example : Json.roundTrip jsonSample = jsonSample := c16ser_json_roundtrip_partial _ (by rfl)
example : Json.safe (.map [(Json.tsKey, .int 5)]) = false := by rfl

end Grafeo.Ser
