import GrafeoModel.Model.Codec2
import GrafeoModel.Proofs.CodecLemmas
import GrafeoModel.Props.C15

/-!
# C15 (second part) — dictionary, bit vector, codec selector, compressed property columns,
compressed adjacency chunks, succinct structures

Model: `Model/Codec2.lean` (transliteration of the Rust code). Theorems named `c15b_*` are the
property theorems (kinds in `C15b.obligations`: F full, P partial with a decidable hypothesis,
W witness of a refuted full statement — replayed on the implementation through stream `c15b`,
N non-vacuity); everything else is a helper lemma.
-/
namespace Grafeo.Codec2
open Grafeo.Codec

theorem getBit_eq_testBit (w j : Nat) : getBit w j = w.testBit j := by
  unfold getBit
  rw [Nat.one_shiftLeft]
  by_cases h : w.testBit j
  · rw [h]
    have : (w &&& 2 ^ j).testBit j = true := by simp [h]
    have hne : w &&& 2 ^ j ≠ 0 := by
      intro h0; rw [h0] at this; simp at this
    simp [hne]
  · have hf : w.testBit j = false := by simpa using h
    rw [hf]
    have : w &&& 2 ^ j = 0 := by
      apply Nat.eq_of_testBit_eq
      intro i
      simp only [Nat.testBit_and, Nat.testBit_two_pow, Nat.zero_testBit]
      by_cases hij : j = i
      · subst hij; simp [hf]
      · simp [hij]
    simp [this]

theorem testBit_setBit (w j i : Nat) : (setBit w j).testBit i = (w.testBit i || decide (j = i)) := by
  unfold setBit
  rw [Nat.one_shiftLeft, Nat.testBit_or, Nat.testBit_two_pow]

theorem getBit_setBit (w j i : Nat) : getBit (setBit w j) i = (getBit w i || decide (j = i)) := by
  rw [getBit_eq_testBit, getBit_eq_testBit, testBit_setBit]

theorem getBit_zero (j : Nat) : getBit 0 j = false := by
  rw [getBit_eq_testBit]; simp

/-! ### dictionary -/

theorem orBitAt_length (bm : List Nat) (p : Nat) : (orBitAt bm p).length = bm.length := by
  simp [orBitAt]

theorem bitmapNull_orBitAt (bm : List Nat) (p i : Nat) :
    bitmapNull (orBitAt bm p) i = (bitmapNull bm i || (decide (p = i) && decide (i / 64 < bm.length))) := by
  unfold bitmapNull orBitAt
  rw [List.getElem?_modify]
  cases h : bm[i / 64]? with
  | none =>
    have : ¬ i / 64 < bm.length := by
      intro hl; rw [List.getElem?_eq_getElem hl] at h; cases h
    simp [this]
  | some w =>
    have hl : i / 64 < bm.length := by
      apply Classical.byContradiction; intro hn
      rw [List.getElem?_eq_none (by omega)] at h; cases h
    simp only [Option.map_eq_map, Option.map_some, hl, decide_true, Bool.and_true]
    by_cases hp : p / 64 = i / 64
    · rw [if_pos hp, getBit_setBit]
      congr 1
      by_cases hq : p % 64 = i % 64
      · have : p = i := by omega
        simp [this]
      · have : p ≠ i := by intro h; subst h; exact hq rfl
        simp [hq, this]
    · rw [if_neg hp]
      have : p ≠ i := by intro h; subst h; exact hp rfl
      simp [this]

theorem bitmapNull_foldl (ps : List Nat) (bm : List Nat) (i : Nat) :
    bitmapNull (ps.foldl orBitAt bm) i =
      (bitmapNull bm i || (decide (i ∈ ps) && decide (i / 64 < bm.length))) := by
  induction ps generalizing bm with
  | nil => simp
  | cons p ps ih =>
    rw [List.foldl_cons, ih, bitmapNull_orBitAt, orBitAt_length]
    by_cases h1 : p = i
    · subst h1; simp; cases bitmapNull bm p <;> cases decide (p / 64 < bm.length) <;> simp
    · have : i ≠ p := fun h => h1 h.symm
      simp [h1, this]

theorem bitmapNull_replicate (n i : Nat) : bitmapNull (List.replicate n 0) i = false := by
  unfold bitmapNull
  cases h : (List.replicate n 0)[i / 64]? with
  | none => rfl
  | some w =>
    have := List.getElem?_eq_some_iff.mp h
    obtain ⟨hl, he⟩ := this
    simp at he; subst he; exact getBit_zero _

theorem findCode_some (s : Str) (l : List Str) (k c : Nat) (h : findCode s l k = some c) :
    k ≤ c ∧ l[c - k]? = some s := by
  induction l generalizing k with
  | nil => simp [findCode] at h
  | cons x xs ih =>
    unfold findCode at h
    split at h
    · rename_i hx; cases h; subst hx; simp
    · obtain ⟨h1, h2⟩ := ih (k + 1) h
      refine ⟨by omega, ?_⟩
      have : c - k = (c - (k + 1)) + 1 := by omega
      rw [this, List.getElem?_cons_succ]; exact h2

theorem findCode_none (s : Str) (l : List Str) (k : Nat) (h : findCode s l k = none) : s ∉ l := by
  induction l generalizing k with
  | nil => simp
  | cons x xs ih =>
    unfold findCode at h
    split at h
    · cases h
    · rename_i hx
      intro hm
      rcases List.mem_cons.mp hm with h1 | h1
      · exact hx h1.symm
      · exact ih (k + 1) h h1

theorem findCode_lt (s : Str) (l : List Str) (k c : Nat) (h : findCode s l k = some c) :
    c < k + l.length := by
  obtain ⟨h1, h2⟩ := findCode_some s l k c h
  have := (List.getElem?_eq_some_iff.mp h2).1
  omega

/-- invariant of the builder after the values `pre` have been added to an empty builder -/
structure DBInv (b : DictBuilder) (pre : List (Option Str)) : Prop where
  len : b.codes.length = pre.length
  val : ∀ i s, pre[i]? = some (some s) →
    (∃ c, b.codes[i]? = some c ∧ b.dictionary[c]? = some s) ∧ i ∉ b.nullPositions
  nul : ∀ i, pre[i]? = some none → i ∈ b.nullPositions
  npos : ∀ p ∈ b.nullPositions, p < b.codes.length
  dlen : b.dictionary.length ≤ pre.length
  dict : b.dictionary = Spec.distinct pre []

theorem distinct_append (xs ys : List (Option Str)) (acc : List Str) :
    Spec.distinct (xs ++ ys) acc = Spec.distinct ys (Spec.distinct xs acc) := by
  induction xs generalizing acc with
  | nil => rfl
  | cons x xs ih =>
    cases x with
    | none => simp [Spec.distinct, ih]
    | some s =>
      simp only [List.cons_append, Spec.distinct]
      split <;> exact ih _

theorem getElem?_append_one_cases {α} (l : List α) (a : α) (i : Nat) (x : α)
    (h : (l ++ [a])[i]? = some x) : (i < l.length ∧ l[i]? = some x) ∨ (i = l.length ∧ a = x) := by
  by_cases hi : i < l.length
  · left; rw [List.getElem?_append_left hi] at h; exact ⟨hi, h⟩
  · right
    rw [List.getElem?_append_right (by omega)] at h
    have : i - l.length = 0 := by
      apply Classical.byContradiction; intro hn
      have : i - l.length = (i - l.length - 1) + 1 := by omega
      rw [this] at h; simp at h
    rw [this] at h; simp at h
    exact ⟨by omega, h⟩

theorem DBInv.step (b : DictBuilder) (pre : List (Option Str)) (v : Option Str)
    (inv : DBInv b pre) (hl : pre.length < 4294967296) : DBInv (b.addOpt v) (pre ++ [v]) := by
  obtain ⟨len, val, nul, npos, dlen, dict⟩ := inv
  cases v with
  | none =>
    simp only [DictBuilder.addOpt, DictBuilder.addNull]
    refine ⟨by simp [len], ?_, ?_, ?_, by simp; omega, ?_⟩
    · intro i s h
      rcases getElem?_append_one_cases _ _ _ _ h with ⟨hi, h'⟩ | ⟨_, h'⟩
      · obtain ⟨⟨c, hc1, hc2⟩, hn⟩ := val i s h'
        refine ⟨⟨c, ?_, hc2⟩, ?_⟩
        · simp only; rw [List.getElem?_append_left (by omega)]; exact hc1
        · simp only [List.mem_append, List.mem_singleton, not_or]
          exact ⟨hn, by omega⟩
      · cases h'
    · intro i h
      rcases getElem?_append_one_cases _ _ _ _ h with ⟨_, h'⟩ | ⟨hi, _⟩
      · simp only [List.mem_append]; left; exact nul i h'
      · simp only [List.mem_append, List.mem_singleton]; right; omega
    · intro p hp
      simp only [List.mem_append, List.mem_singleton] at hp
      simp only [List.length_append, List.length_singleton]
      rcases hp with hp | hp
      · have := npos p hp; omega
      · omega
    · simp only; rw [distinct_append, ← dict]; rfl
  | some s =>
    simp only [DictBuilder.addOpt, DictBuilder.add]
    cases hf : findCode s b.dictionary 0 with
    | some c =>
      obtain ⟨_, hc⟩ := findCode_some s _ 0 c hf
      simp only [Nat.sub_zero] at hc
      refine ⟨by simp [len], ?_, ?_, ?_, by simp; omega, ?_⟩
      · intro i t h
        rcases getElem?_append_one_cases _ _ _ _ h with ⟨hi, h'⟩ | ⟨hi, h'⟩
        · obtain ⟨⟨c', hc1, hc2⟩, hn⟩ := val i t h'
          refine ⟨⟨c', ?_, hc2⟩, hn⟩
          simp only; rw [List.getElem?_append_left (by omega)]; exact hc1
        · cases h'
          refine ⟨⟨c, ?_, hc⟩, ?_⟩
          · simp only; rw [List.getElem?_append_right (by omega)]; simp [hi, len]
          · intro hm; have := npos i hm; omega
      · intro i h
        rcases getElem?_append_one_cases _ _ _ _ h with ⟨_, h'⟩ | ⟨_, h'⟩
        · exact nul i h'
        · cases h'
      · intro p hp
        have := npos p hp
        simp only [List.length_append, List.length_singleton]; omega
      · simp only; rw [distinct_append, ← dict]
        have hmem : s ∈ b.dictionary := by
          obtain ⟨hl, he⟩ := List.getElem?_eq_some_iff.mp hc
          rw [← he]; exact List.getElem_mem hl
        simp [Spec.distinct, hmem]
    | none =>
      have hnm := findCode_none s _ 0 hf
      refine ⟨by simp [len], ?_, ?_, ?_, by simp; omega, ?_⟩
      · intro i t h
        rcases getElem?_append_one_cases _ _ _ _ h with ⟨hi, h'⟩ | ⟨hi, h'⟩
        · obtain ⟨⟨c', hc1, hc2⟩, hn⟩ := val i t h'
          refine ⟨⟨c', ?_, ?_⟩, hn⟩
          · simp only; rw [List.getElem?_append_left (by omega)]; exact hc1
          · simp only
            have := (List.getElem?_eq_some_iff.mp hc2).1
            rw [List.getElem?_append_left this]; exact hc2
        · cases h'
          refine ⟨⟨b.dictionary.length, ?_, ?_⟩, ?_⟩
          · simp only; rw [List.getElem?_append_right (by omega)]
            have : b.dictionary.length % 4294967296 = b.dictionary.length := Nat.mod_eq_of_lt (by omega)
            simp [hi, len, this]
          · simp
          · intro hm; have := npos i hm; omega
      · intro i h
        rcases getElem?_append_one_cases _ _ _ _ h with ⟨_, h'⟩ | ⟨_, h'⟩
        · exact nul i h'
        · cases h'
      · intro p hp
        have := npos p hp
        simp only [List.length_append, List.length_singleton]; omega
      · simp only; rw [distinct_append, ← dict]
        simp [Spec.distinct, hnm]

theorem DBInv.all (b : DictBuilder) (pre vs : List (Option Str))
    (inv : DBInv b pre) (hl : (pre ++ vs).length < 4294967296) :
    DBInv (b.addAll vs) (pre ++ vs) := by
  induction vs generalizing b pre with
  | nil => simpa [DictBuilder.addAll] using inv
  | cons v vs ih =>
    simp only [DictBuilder.addAll]
    have h1 : pre.length < 4294967296 := by simp at hl; omega
    have := ih (b.addOpt v) (pre ++ [v]) (inv.step b pre v h1) (by simpa using hl)
    simpa using this

theorem DBInv.empty : DBInv {} [] where
  len := rfl
  val := by intro i s h; simp at h
  nul := by intro i h; simp at h
  npos := by intro p hp; cases hp
  dlen := by simp
  dict := rfl

theorem isNull_build (b : DictBuilder) (hn : ∀ p ∈ b.nullPositions, p < b.codes.length) (i : Nat) :
    b.build.isNull i = decide (i ∈ b.nullPositions) := by
  unfold DictBuilder.build Dict.isNull
  by_cases he : b.nullPositions.isEmpty
  · have : b.nullPositions = [] := List.isEmpty_iff.mp he
    simp [this]
  · simp only [he, Bool.false_eq_true, if_false]
    rw [bitmapNull_foldl, bitmapNull_replicate]
    simp only [Bool.false_or, List.length_replicate]
    by_cases hm : i ∈ b.nullPositions
    · have := hn i hm
      have : i / 64 < nWords b.codes.length := by unfold nWords; omega
      simp [hm, this]
    · simp [hm]

theorem dictOf_inv (vs : List (Option Str)) (h : vs.length < 4294967296) :
    DBInv (DictBuilder.addAll {} vs) vs := by
  have := DBInv.all {} [] vs DBInv.empty (by simpa using h)
  simpa using this

/-- F: random access into a built dictionary returns the value that was added at that position
(`None` for a null and beyond the end). -/
theorem c15b_dict_get (vs : List (Option Str)) (h : vs.length < 4294967296) (i : Nat) :
    (dictOf vs).get i = (vs[i]?).join := by
  have inv := dictOf_inv vs h
  unfold dictOf Dict.get
  rw [isNull_build _ inv.npos]
  cases hv : vs[i]? with
  | none =>
    have hi : vs.length ≤ i := by
      apply Classical.byContradiction; intro hn
      rw [List.getElem?_eq_getElem (by omega)] at hv; cases hv
    have hnm : i ∉ (DictBuilder.addAll {} vs).nullPositions := by
      intro hm; have := inv.npos i hm; rw [inv.len] at this; omega
    have hc : (DictBuilder.addAll {} vs).codes[i]? = none :=
      List.getElem?_eq_none (by rw [inv.len]; exact hi)
    simp [hnm, Dict.lookupCode, DictBuilder.build, hc]
  | some o =>
    cases o with
    | none =>
      have := inv.nul i hv
      simp [this]
    | some s =>
      obtain ⟨⟨c, hc1, hc2⟩, hn⟩ := inv.val i s hv
      simp [hn, Dict.lookupCode, DictBuilder.build, hc1, hc2]

/-- F: decoding a built dictionary returns the original sequence (nulls included). -/
theorem c15b_dict_roundtrip (vs : List (Option Str)) (h : vs.length < 4294967296) :
    (dictOf vs).decode = vs := by
  have inv := dictOf_inv vs h
  unfold Dict.decode
  have hl : (dictOf vs).codes.length = vs.length := inv.len
  apply List.ext_getElem?
  intro i
  rw [hl, List.getElem?_map]
  by_cases hi : i < vs.length
  · rw [List.getElem?_range hi, Option.map_some, c15b_dict_get vs h i, List.getElem?_eq_getElem hi]
    cases vs[i] <;> rfl
  · rw [List.getElem?_eq_none (by simpa using Nat.le_of_not_lt hi)]
    rw [List.getElem?_eq_none (by omega)]; rfl

theorem findCode_eq_idxOf (s : Str) (l : List Str) (k : Nat) :
    findCode s l k = (l.idxOf? s).map (· + k) := by
  induction l generalizing k with
  | nil => simp [findCode]
  | cons x xs ih =>
    unfold findCode
    by_cases hx : x = s
    · subst hx; simp [List.idxOf?_cons]
    · rw [if_neg hx, ih, List.idxOf?_cons]
      have : (x == s) = false := by simpa using hx
      simp only [this]
      cases xs.idxOf? s <;> simp <;> omega

/-- F: the dictionary holds every distinct non-null value once, in order of first appearance, and
`encode` (look a value up) returns its position there — `None` exactly for values never added. -/
theorem c15b_dict_encode (vs : List (Option Str)) (h : vs.length < 4294967296) (s : Str) :
    (dictOf vs).dictionary = Spec.distinct vs [] ∧
    (dictOf vs).encode s = (Spec.distinct vs []).idxOf? s := by
  have inv := dictOf_inv vs h
  have hd : (dictOf vs).dictionary = Spec.distinct vs [] := inv.dict
  refine ⟨hd, ?_⟩
  unfold Dict.encode
  rw [findCode_eq_idxOf, hd]
  cases (Spec.distinct vs []).idxOf? s <;> simp

/-- N -/
theorem c15b_dict_nonvacuity : (dictOf [some [80], none, some [67], some [80]]).decode = [some [80], none, some [67], some [80]] ∧
    (dictOf [some [80], none, some [67], some [80]]).codes = [0, 0, 1, 0] := by decide

/-! ### bit vector -/

theorem fromBoolsLoop_length (data : List Nat) (i : Nat) (bs : List Bool) :
    (fromBoolsLoop data i bs).length = data.length := by
  induction bs generalizing data i with
  | nil => rfl
  | cons b bs ih =>
    unfold fromBoolsLoop
    rw [ih]; split <;> simp [orBitAt_length]

/-- bit `q` after the `from_bools` loop: what was there, or the input bit that was OR-ed in -/
theorem bitmapNull_fromBoolsLoop (data : List Nat) (i : Nat) (bs : List Bool) (q : Nat) :
    bitmapNull (fromBoolsLoop data i bs) q =
      (bitmapNull data q || (decide (i ≤ q) && bs.getD (q - i) false && decide (q / 64 < data.length))) := by
  induction bs generalizing data i with
  | nil => simp [fromBoolsLoop]
  | cons b bs ih =>
    unfold fromBoolsLoop
    rw [ih]
    by_cases hq : q = i
    · subst hq
      have hno : ¬ q + 1 ≤ q := by omega
      cases b
      · simp [hno]
      · simp [bitmapNull_orBitAt, orBitAt_length, hno]
    · by_cases hlt : i ≤ q
      · have h1 : i + 1 ≤ q := by omega
        have h2 : q - i = (q - (i + 1)) + 1 := by omega
        have h3 : i ≠ q := fun h => hq h.symm
        cases b
        · simp [h1, hlt, h2]
        · simp [h1, hlt, h2, bitmapNull_orBitAt, orBitAt_length, h3]
      · have h1 : ¬ i + 1 ≤ q := by omega
        have h3 : i ≠ q := fun h => hq h.symm
        cases b
        · simp [h1, hlt]
        · simp [h1, hlt, bitmapNull_orBitAt, h3]

/-- every bit of `from_bools(bs)` — inside and beyond `len` — is the corresponding input bit -/
theorem bitmapNull_fromBools (bs : List Bool) (q : Nat) :
    bitmapNull (BVec.fromBools bs).data q = bs.getD q false := by
  unfold BVec.fromBools
  simp only
  rw [bitmapNull_fromBoolsLoop, bitmapNull_replicate]
  simp only [Bool.false_or, Nat.zero_le, decide_true, Bool.true_and, Nat.sub_zero, List.length_replicate]
  by_cases hq : q < bs.length
  · have : q / 64 < nWords bs.length := by unfold nWords; omega
    simp [this]
  · have : bs[q]?.getD false = false := by
      simp [List.getElem?_eq_none (Nat.le_of_not_lt hq)]
    simp [this]

theorem setBit_lt (w j : Nat) (hw : w < W) (hj : j < 64) : setBit w j < W := by
  unfold setBit
  rw [W_eq2, Nat.one_shiftLeft]
  exact Nat.or_lt_two_pow (by rw [← W_eq2]; exact hw) (Nat.pow_lt_pow_right (by decide) hj)

theorem orBitAt_lt (data : List Nat) (p : Nat) (h : ∀ w ∈ data, w < W) : ∀ w ∈ orBitAt data p, w < W := by
  intro w hw
  unfold orBitAt at hw
  obtain ⟨k, hk, he⟩ := List.getElem_of_mem hw
  have hk' : k < data.length := by simpa using hk
  have := List.getElem?_modify (fun w => setBit w (p % 64)) (p / 64) data k
  rw [List.getElem?_eq_getElem hk, List.getElem?_eq_getElem hk', he] at this
  simp only [Option.map_eq_map, Option.map_some, Option.some.injEq] at this
  rw [this]
  split
  · exact setBit_lt _ _ (h _ (List.getElem_mem hk')) (Nat.mod_lt _ (by decide))
  · exact h _ (List.getElem_mem hk')

theorem fromBoolsLoop_lt (data : List Nat) (i : Nat) (bs : List Bool) (h : ∀ w ∈ data, w < W) :
    ∀ w ∈ fromBoolsLoop data i bs, w < W := by
  induction bs generalizing data i with
  | nil => exact h
  | cons b bs ih =>
    unfold fromBoolsLoop
    apply ih
    split
    · exact orBitAt_lt data i h
    · exact h

theorem fromBools_wf (bs : List Bool) : (BVec.fromBools bs).WF := by
  refine ⟨by simp [BVec.fromBools, fromBoolsLoop_length], ?_⟩
  apply fromBoolsLoop_lt
  intro w hw
  simp only [List.mem_replicate] at hw
  rw [hw.2]; decide

theorem fromBools_clean (bs : List Bool) : (BVec.fromBools bs).Clean := by
  intro q hq
  rw [bitmapNull_fromBools]
  simp [List.getD, List.getElem?_eq_none (show bs.length ≤ q from hq)]

/-- `get` of a well-formed vector reads the bit at that position -/
theorem get_wf (v : BVec) (hw : v.WF) (i : Nat) :
    v.get i = if i < v.len then .ok (bitmapNull v.data i) else .err := by
  unfold BVec.get
  by_cases hi : i < v.len
  · rw [if_neg (by omega), if_pos hi]
    have : i / 64 < v.data.length := by rw [hw.1]; unfold nWords; omega
    unfold bitmapNull
    rw [List.getElem?_eq_getElem this]
  · rw [if_pos (by omega), if_neg hi]

theorem toBoolsFrom_eq (v : BVec) (f : Nat → Bool) (n s : Nat)
    (h : ∀ k, k < n → v.get (s + k) = .ok (f (s + k))) :
    toBoolsFrom v n s = .ok ((List.range' s n).map f) := by
  induction n generalizing s with
  | zero => rfl
  | succ n ih =>
    unfold toBoolsFrom
    have h0 := h 0 (by omega)
    rw [Nat.add_zero] at h0
    rw [h0]
    have := ih (s + 1) (fun k hk => by
      have := h (k + 1) (by omega)
      rw [show s + 1 + k = s + (k + 1) by omega]; exact this)
    rw [this]
    simp [List.range'_succ]

/-- `to_bools` of a well-formed vector lists its first `len` bits -/
theorem toBools_wf (v : BVec) (hw : v.WF) :
    v.toBools = .ok ((List.range v.len).map (bitmapNull v.data)) := by
  unfold BVec.toBools
  rw [toBoolsFrom_eq v (bitmapNull v.data) v.len 0 (fun k hk => by
    rw [get_wf v hw, if_pos (by omega)])]
  simp [List.range_eq_range']

/-- F: random access into `from_bools(bs)` returns `bs[i]`, `None` beyond the end. -/
theorem c15b_bitvec_get (bs : List Bool) (i : Nat) :
    (BVec.fromBools bs).get i = if h : i < bs.length then .ok bs[i] else .err := by
  rw [get_wf _ (fromBools_wf bs)]
  have hl : (BVec.fromBools bs).len = bs.length := rfl
  rw [hl]
  by_cases hi : i < bs.length
  · rw [if_pos hi, dif_pos hi, bitmapNull_fromBools]
    simp [List.getD, List.getElem?_eq_getElem hi]
  · rw [if_neg hi, dif_neg hi]

/-- F: `to_bools(from_bools(bs)) = bs` for every sequence of booleans. -/
theorem c15b_bitvec_roundtrip (bs : List Bool) : (BVec.fromBools bs).toBools = .ok bs := by
  rw [toBools_wf _ (fromBools_wf bs)]
  congr 1
  apply List.ext_getElem?
  intro i
  have hl : (BVec.fromBools bs).len = bs.length := rfl
  rw [hl, List.getElem?_map]
  by_cases hi : i < bs.length
  · rw [List.getElem?_range hi, Option.map_some, bitmapNull_fromBools]
    simp [List.getD, List.getElem?_eq_getElem hi]
  · rw [List.getElem?_eq_none (by simpa using Nat.le_of_not_lt hi),
        List.getElem?_eq_none (by omega)]; rfl


/-- number of set bit positions below `n` -/
def onesBelow (data : List Nat) (n : Nat) : Nat := (List.range n).countP (bitmapNull data)

theorem onesBelow_succ (data : List Nat) (n : Nat) :
    onesBelow data (n + 1) = onesBelow data n + (if bitmapNull data n then 1 else 0) := by
  unfold onesBelow
  rw [List.range_succ, List.countP_append]
  simp [List.countP_cons]

theorem onesBelow_zero (data : List Nat) : onesBelow data 0 = 0 := rfl

theorem onesBelow_mono (data : List Nat) (a b : Nat) (h : a ≤ b) : onesBelow data a ≤ onesBelow data b := by
  induction b with
  | zero => have : a = 0 := by omega
            subst this; exact Nat.le_refl _
  | succ b ih =>
    by_cases hab : a = b + 1
    · subst hab; exact Nat.le_refl _
    · have := ih (by omega)
      rw [onesBelow_succ]; omega

/-- `popF n w` counts the set bits among the lowest `n` -/
theorem popF_eq (n w : Nat) : popF n w = (List.range n).countP (fun j => w.testBit j) := by
  induction n generalizing w with
  | zero => rfl
  | succ n ih =>
    unfold popF
    rw [ih, List.range_succ_eq_map, List.countP_cons, List.countP_map]
    have : ((fun j => w.testBit j) ∘ Nat.succ) = (fun j => (w / 2).testBit j) := by
      funext j; simp [Nat.testBit_succ]
    rw [this]
    have h0 : w.testBit 0 = decide (w % 2 = 1) := Nat.testBit_zero w
    rw [h0]
    rcases Nat.mod_two_eq_zero_or_one w with h | h <;> simp [h] <;> omega

/-- ones among the `r ≤ 64` lowest bits of word `k` = the popcount of the masked word -/
theorem popcount_mask (w r : Nat) (hr : r ≤ 64) :
    popcount (w &&& (2 ^ r - 1)) = (List.range r).countP (fun j => w.testBit j) := by
  unfold popcount
  rw [popF_eq]
  have h64 : List.range 64 = List.range r ++ List.range' r (64 - r) := by
    have e : 64 = r + (64 - r) := by omega
    rw [List.range_eq_range', List.range_eq_range']
    conv => lhs; rw [e]
    rw [← List.range'_append_1]; simp
  rw [h64, List.countP_append]
  have h2 : (List.range' r (64 - r)).countP (fun j => (w &&& (2 ^ r - 1)).testBit j) = 0 := by
    rw [List.countP_eq_zero]
    intro j hj
    have := (List.mem_range'_1.mp hj).1
    simp [Nat.testBit_and, Nat.testBit_two_pow_sub_one]; omega
  rw [h2, Nat.add_zero]
  apply List.countP_congr
  intro j hj
  have := List.mem_range.mp hj
  simp [Nat.testBit_and, Nat.testBit_two_pow_sub_one, this]

theorem popcount_eq (w : Nat) : popcount w = (List.range 64).countP (fun j => w.testBit j) := by
  unfold popcount; exact popF_eq 64 w

theorem bitmapNull_word (data : List Nat) (k j : Nat) (hj : j < 64) :
    bitmapNull data (64 * k + j) = (data.getD k 0).testBit j := by
  unfold bitmapNull
  have h1 : (64 * k + j) / 64 = k := by omega
  have h2 : (64 * k + j) % 64 = j := by omega
  rw [h1, h2]
  cases h : data[k]? with
  | none => simp [List.getD, h]
  | some w => simp [List.getD, h, getBit_eq_testBit]

theorem onesBelow_add (data : List Nat) (a b : Nat) :
    onesBelow data (a + b) = onesBelow data a + (List.range b).countP (fun j => bitmapNull data (a + j)) := by
  induction b with
  | zero => simp [onesBelow_zero]
  | succ b ih =>
    rw [← Nat.add_assoc, onesBelow_succ, ih, List.range_succ, List.countP_append]
    simp [List.countP_cons]; omega

/-- ones below `64k + r` (`r ≤ 64`) = ones below `64k` + popcount of the masked word `k` -/
theorem onesBelow_word (data : List Nat) (k r : Nat) (hr : r ≤ 64) :
    onesBelow data (64 * k + r) = onesBelow data (64 * k) + popcount (data.getD k 0 &&& (2 ^ r - 1)) := by
  rw [onesBelow_add, popcount_mask _ _ hr]
  congr 1
  apply List.countP_congr
  intro j hj
  have := List.mem_range.mp hj
  rw [bitmapNull_word data k j (by omega)]

theorem onesBelow_fullword (data : List Nat) (k : Nat) :
    onesBelow data (64 * (k + 1)) = onesBelow data (64 * k) + popcount (data.getD k 0) := by
  have := onesBelow_word data k 64 (Nat.le_refl _)
  rw [show 64 * (k + 1) = 64 * k + 64 by omega, this, popcount_mask _ _ (Nat.le_refl _), popcount_eq]

/-- the sum of the popcounts of the first `k` words = ones below `64k` -/
theorem sum_popcount_take (data : List Nat) (k : Nat) (hk : k ≤ data.length) :
    ((data.take k).map popcount).sum = onesBelow data (64 * k) := by
  induction k with
  | zero => simp [onesBelow_zero]
  | succ k ih =>
    have hk' : k < data.length := by omega
    rw [List.take_add_one, List.map_append, List.sum_append, ih (by omega), onesBelow_fullword]
    simp [List.getElem?_eq_getElem hk', List.getD]

/-- `count_ones` of a well-formed vector = number of set bits below `len` (padding is masked) -/
theorem countOnes_wf (v : BVec) (hw : v.WF) : v.countOnes = .ok (onesBelow v.data v.len) := by
  obtain ⟨data, len⟩ := v
  obtain ⟨hlen, _⟩ := hw
  simp only at hlen
  unfold BVec.countOnes
  simp only
  by_cases h0 : len = 0
  · rw [if_pos h0, h0, onesBelow_zero]
  · rw [if_neg h0]
    unfold nWords at hlen
    obtain ⟨k, r, hk, hr64⟩ : ∃ k r, len = 64 * k + r ∧ r < 64 :=
      ⟨len / 64, len % 64, by omega, by omega⟩
    have e1 : len / 64 = k := by omega
    have e2 : len % 64 = r := by omega
    rw [e1, e2]
    rw [if_neg (by omega), sum_popcount_take _ _ (by omega)]
    by_cases hr : r > 0
    · have : k < data.length := by omega
      rw [if_pos ⟨hr, this⟩, hk, onesBelow_word _ _ _ (by omega)]
    · rw [if_neg (by omega)]
      have : r = 0 := by omega
      rw [hk, this, Nat.add_zero]

theorem onesBelow_fromBools (bs : List Bool) (n : Nat) :
    onesBelow (BVec.fromBools bs).data n = (bs.take n).count true := by
  induction n with
  | zero => simp [onesBelow_zero]
  | succ n ih =>
    rw [onesBelow_succ, ih, bitmapNull_fromBools]
    by_cases hn : n < bs.length
    · rw [List.take_add_one, List.count_append]
      simp [List.getD, List.getElem?_eq_getElem hn]
      cases bs[n] <;> simp
    · rw [List.take_of_length_le (by omega), List.take_of_length_le (by omega)]
      simp [List.getD, List.getElem?_eq_none (Nat.le_of_not_lt hn)]

/-- F: `count_ones(from_bools(bs))` is the number of `true`s in `bs`. -/
theorem c15b_bitvec_count_ones (bs : List Bool) :
    (BVec.fromBools bs).countOnes = .ok (bs.count true) := by
  rw [countOnes_wf _ (fromBools_wf bs), onesBelow_fromBools]
  have hl : (BVec.fromBools bs).len = bs.length := rfl
  rw [hl, List.take_length]


/-! ### push on clean vectors, bytes -/

theorem bitmapNull_append_zero (data : List Nat) (q : Nat) :
    bitmapNull (data ++ [0]) q = bitmapNull data q := by
  unfold bitmapNull
  by_cases h : q / 64 < data.length
  · rw [List.getElem?_append_left h]
  · rw [List.getElem?_eq_none (Nat.le_of_not_lt h)]
    by_cases h2 : q / 64 = data.length
    · rw [List.getElem?_append_right (by omega), h2]; simp [getBit_zero]
    · rw [List.getElem?_eq_none (by simp; omega)]

/-- pushing onto a well-formed vector whose padding is clean appends exactly one bit -/
theorem push_clean (v : BVec) (hw : v.WF) (hc : v.Clean) (b : Bool) :
    ∃ v', v.push b = .ok v' ∧ v'.WF ∧ v'.Clean ∧ v'.len = v.len + 1 ∧
      ∀ q, bitmapNull v'.data q = if q = v.len then b else bitmapNull v.data q := by
  obtain ⟨data, len⟩ := v
  obtain ⟨hlen, hlt⟩ := hw
  simp only at hlen hlt
  unfold BVec.Clean at hc
  simp only at hc
  unfold nWords at hlen
  -- the word array after the optional `data.push(0)`
  have key : ∀ data', data'.length = (len + 1 + 63) / 64 → (∀ w ∈ data', w < W) →
      (∀ q, bitmapNull data' q = bitmapNull data q) →
      ∃ v', (match data'[len / 64]? with
          | none => if b then Res.panic else Res.ok (BVec.mk data' (len + 1))
          | some _ => Res.ok (BVec.mk (if b then orBitAt data' len else data') (len + 1))) = .ok v' ∧
        v'.WF ∧ v'.Clean ∧ v'.len = len + 1 ∧
        ∀ q, bitmapNull v'.data q = if q = len then b else bitmapNull data q := by
    intro data' hl' hlt' hbits
    have hin : len / 64 < data'.length := by omega
    rw [List.getElem?_eq_getElem hin]
    simp only
    refine ⟨_, rfl, ?_, ?_, rfl, ?_⟩
    · refine ⟨?_, ?_⟩
      · simp only [nWords]; split <;> simp [orBitAt_length, hl']
      · simp only; split
        · exact orBitAt_lt _ _ hlt'
        · exact hlt'
    · intro q hq
      simp only at hq ⊢
      cases b
      · simp only [Bool.false_eq_true, if_false]; rw [hbits]; exact hc q (by omega)
      · simp only [if_true]; rw [bitmapNull_orBitAt, hbits, hc q (by omega)]
        have : len ≠ q := by omega
        simp [this]
    · intro q
      simp only
      cases b
      · simp only [Bool.false_eq_true, if_false]; rw [hbits]
        by_cases hq : q = len
        · subst hq; rw [if_pos rfl]; exact hc q (Nat.le_refl _)
        · rw [if_neg hq]
      · simp only [if_true]; rw [bitmapNull_orBitAt, hbits]
        by_cases hq : q = len
        · subst hq; simp [hin]
        · have : len ≠ q := fun h => hq h.symm
          simp [hq, this]
  unfold BVec.push
  simp only
  by_cases hg : len / 64 ≥ data.length
  · rw [if_pos hg]
    apply key
    · simp; omega
    · intro w hw; rcases List.mem_append.mp hw with h | h
      · exact hlt w h
      · simp at h; subst h; decide
    · exact bitmapNull_append_zero data
  · rw [if_neg hg]
    apply key
    · omega
    · exact hlt
    · intro q; rfl

/-! ### the unused bits of the last word stay clear -/

theorem modify_lt (data : List Nat) (i : Nat) (f : Nat → Nat) (h : ∀ w ∈ data, w < W)
    (hf : ∀ w, w < W → f w < W) : ∀ w ∈ data.modify i f, w < W := by
  intro w hw
  obtain ⟨k, hk, he⟩ := List.getElem_of_mem hw
  have hk' : k < data.length := by simpa using hk
  have := List.getElem?_modify f i data k
  rw [List.getElem?_eq_getElem hk, List.getElem?_eq_getElem hk', he] at this
  simp only [Option.map_eq_map, Option.map_some, Option.some.injEq] at this
  rw [this]
  have hwk := h _ (List.getElem_mem hk')
  split
  · exact hf _ hwk
  · exact hwk

theorem bitmapNull_clearPadding (data : List Nat) (len : Nat) (hl : data.length = nWords len) (q : Nat) :
    bitmapNull (BVec.clearPadding ⟨data, len⟩).data q = (bitmapNull data q && decide (q < len)) := by
  unfold nWords at hl
  unfold BVec.clearPadding
  simp only
  by_cases hr : len % 64 > 0
  · rw [if_pos hr]
    simp only
    unfold bitmapNull
    rw [List.getElem?_modify]
    cases hq : data[q / 64]? with
    | none => simp
    | some w =>
      have hql : q / 64 < data.length := by
        apply Classical.byContradiction; intro hn
        rw [List.getElem?_eq_none (by omega)] at hq; cases hq
      simp only [Option.map_eq_map, Option.map_some]
      by_cases hlast : data.length - 1 = q / 64
      · rw [if_pos hlast, getBit_eq_testBit, getBit_eq_testBit, Nat.testBit_and,
          Nat.testBit_two_pow_sub_one]
        congr 1
        have : (q % 64 < len % 64) ↔ q < len := by omega
        simp [this]
      · rw [if_neg hlast]
        have : q < len := by omega
        simp [this]
  · rw [if_neg hr]
    simp only
    by_cases hq : q < len
    · simp [hq]
    · have : bitmapNull data q = false := by
        unfold bitmapNull
        rw [List.getElem?_eq_none (by omega)]
      simp [this]

theorem clearPadding_wf_clean (data : List Nat) (len : Nat) (hl : data.length = nWords len)
    (hw : ∀ w ∈ data, w < W) :
    (BVec.clearPadding ⟨data, len⟩).WF ∧ (BVec.clearPadding ⟨data, len⟩).Clean ∧
    (BVec.clearPadding ⟨data, len⟩).len = len := by
  have hlen : (BVec.clearPadding ⟨data, len⟩).len = len := by
    unfold BVec.clearPadding; split <;> rfl
  refine ⟨⟨?_, ?_⟩, ?_, hlen⟩
  · rw [hlen]; unfold BVec.clearPadding; split
    · simp [hl]
    · exact hl
  · unfold BVec.clearPadding; split
    · exact modify_lt _ _ _ hw (fun w hw' => Nat.lt_of_le_of_lt Nat.and_le_left hw')
    · exact hw
  · intro q hq
    rw [hlen] at hq
    rw [bitmapNull_clearPadding data len hl]
    have : ¬ q < len := by omega
    simp [this]

/-- a well-formed vector with clear padding is unchanged by `clear_padding` -/
theorem clearPadding_id (v : BVec) (hw : v.WF) (hc : v.Clean) : v.clearPadding = v := by
  obtain ⟨data, len⟩ := v
  obtain ⟨hl, hlt⟩ := hw
  simp only at hl hlt
  unfold BVec.Clean at hc
  simp only at hc
  unfold BVec.clearPadding
  simp only
  split
  · rename_i hr
    congr 1
    apply List.ext_getElem?
    intro k
    rw [List.getElem?_modify]
    cases hk : data[k]? with
    | none => rfl
    | some w =>
      simp only [Option.map_eq_map, Option.map_some, Option.some.injEq]
      split
      · rename_i hlast
        have hkl : k < data.length := by
          apply Classical.byContradiction; intro hn
          rw [List.getElem?_eq_none (by omega)] at hk; cases hk
        unfold nWords at hl
        have hwlt : w < W := hlt w (by
          obtain ⟨_, he⟩ := List.getElem?_eq_some_iff.mp hk
          rw [← he]; exact List.getElem_mem _)
        have : w < 2 ^ (len % 64) := by
          apply Nat.lt_pow_two_of_testBit
          intro j hj
          by_cases hj64 : j < 64
          · have := hc (64 * k + j) (by omega)
            rw [bitmapNull_word data k j hj64] at this
            simpa [List.getD, hk] using this
          · apply Nat.testBit_lt_two_pow
            rw [W_eq2] at hwlt
            exact Nat.lt_of_lt_of_le hwlt (Nat.pow_le_pow_right (by decide) (by omega))
        exact Nat.and_two_pow_sub_one_of_lt_two_pow this
      · rfl
  · rfl

theorem bitmapNull_replicate_ones (n q : Nat) :
    bitmapNull (List.replicate n (W - 1)) q = decide (q / 64 < n) := by
  unfold bitmapNull
  by_cases h : q / 64 < n
  · rw [List.getElem?_eq_getElem (by simpa using h)]
    simp only [List.getElem_replicate, h, decide_true]
    rw [getBit_eq_testBit]
    have : W - 1 = 2 ^ 64 - 1 := by decide
    rw [this, Nat.testBit_two_pow_sub_one]; simp; omega
  · rw [List.getElem?_eq_none (by simpa using Nat.le_of_not_lt h)]; simp [h]

/-- every bit of `filled(n, b)`: `b` below `n`, clear beyond -/
theorem bitmapNull_filled (n : Nat) (b : Bool) (q : Nat) :
    bitmapNull (BVec.filled n b).data q = (b && decide (q < n)) := by
  unfold BVec.filled
  rw [bitmapNull_clearPadding _ _ (by simp)]
  cases b
  · simp only [Bool.false_eq_true, if_false, bitmapNull_replicate, Bool.false_and]
  · simp only [if_true, bitmapNull_replicate_ones, Bool.true_and]
    unfold nWords
    by_cases hq : q < n
    · have : q / 64 < (n + 63) / 64 := by omega
      simp [hq, this]
    · simp [hq]

theorem filled_wf_clean (n : Nat) (b : Bool) :
    (BVec.filled n b).WF ∧ (BVec.filled n b).Clean ∧ (BVec.filled n b).len = n := by
  unfold BVec.filled
  apply clearPadding_wf_clean _ _ (by simp)
  intro w hw
  simp only [List.mem_replicate] at hw
  rw [hw.2]; split <;> decide

theorem filled_false_wf_clean (n : Nat) : (BVec.filled n false).WF ∧ (BVec.filled n false).Clean :=
  ⟨(filled_wf_clean n false).1, (filled_wf_clean n false).2.1⟩

theorem notW_lt (w : Nat) (h : w < W) : notW w < W := by
  unfold notW
  rw [W_eq2] at *
  exact Nat.xor_lt_two_pow (by omega) h

theorem not_wf_clean (v : BVec) (hw : v.WF) : v.not.WF ∧ v.not.Clean := by
  unfold BVec.not
  have := clearPadding_wf_clean (v.data.map notW) v.len (by simp [hw.1]) (by
    intro w hm
    obtain ⟨x, hx, rfl⟩ := List.mem_map.mp hm
    exact notW_lt x (hw.2 x hx))
  exact ⟨this.1, this.2.1⟩

theorem zipWords_wf_clean (f : Nat → Nat → Nat) (hf : ∀ x y, x < W → y < W → f x y < W)
    (a b : BVec) (ha : a.WF) (hb : b.WF) : (zipWords f a b).WF ∧ (zipWords f a b).Clean := by
  unfold zipWords
  have := clearPadding_wf_clean ((List.zipWith f a.data b.data).take (nWords (min a.len b.len)))
    (min a.len b.len) (by
      rw [List.length_take, List.length_zipWith, ha.1, hb.1]
      unfold nWords; omega) (by
      intro w hm
      have hm' := List.mem_of_mem_take hm
      obtain ⟨k, hk, he⟩ := List.getElem_of_mem hm'
      rw [List.getElem_zipWith] at he
      rw [← he]
      simp only [List.length_zipWith] at hk
      exact hf _ _ (ha.2 _ (List.getElem_mem _)) (hb.2 _ (List.getElem_mem _)))
  exact ⟨this.1, this.2.1⟩

theorem ofLe_lt (bs : List Nat) (h : ∀ b ∈ bs, b < 256) : ofLe bs < 256 ^ bs.length := by
  induction bs with
  | nil => simp [ofLe]
  | cons b t ih =>
    have hb := h b (by simp)
    have ht := ih (fun x hx => h x (by simp [hx]))
    simp only [ofLe, List.length_cons, Nat.pow_succ]
    omega

theorem readWords_lt (n : Nat) (bs ws : List Nat) (h : ∀ b ∈ bs, b < 256)
    (hr : readWords n bs = some ws) : ws.length = n ∧ ∀ w ∈ ws, w < W := by
  induction n generalizing bs ws with
  | zero => simp only [readWords, Option.some.injEq] at hr; subst hr; exact ⟨rfl, by intro w hw; cases hw⟩
  | succ n ih =>
    unfold readWords at hr
    split at hr
    · cases hr
    · rename_i hlen
      cases hrec : readWords n (bs.drop 8) with
      | none => rw [hrec] at hr; cases hr
      | some r =>
        rw [hrec] at hr
        simp only [Option.some.injEq] at hr
        subst hr
        obtain ⟨h1, h2⟩ := ih (bs.drop 8) r (fun b hb => h b (List.mem_of_mem_drop hb)) hrec
        refine ⟨by simp [h1], ?_⟩
        intro w hw
        rcases List.mem_cons.mp hw with rfl | hw
        · have := ofLe_lt (bs.take 8) (fun b hb => h b (List.mem_of_mem_take hb))
          have hl8 : (bs.take 8).length = 8 := by rw [List.length_take]; omega
          rw [hl8, ← W_eq] at this; exact this
        · exact h2 w hw

theorem fromBytes_wf_clean (bs : List Nat) (h : ∀ b ∈ bs, b < 256) (v : BVec)
    (hv : BVec.fromBytes bs = some v) : v.WF ∧ v.Clean := by
  unfold BVec.fromBytes at hv
  split at hv
  · cases hv
  · split at hv
    · cases hv
    · cases hr : readWords (nWords (ofLe (bs.take 4))) (bs.drop 4) with
      | none => rw [hr] at hv; cases hv
      | some ws =>
        rw [hr] at hv
        simp only [Option.some.injEq] at hv
        subst hv
        obtain ⟨h1, h2⟩ := readWords_lt _ _ _ (fun b hb => h b (List.mem_of_mem_drop hb)) hr
        have := clearPadding_wf_clean ws (ofLe (bs.take 4)) h1 h2
        exact ⟨this.1, this.2.1⟩

/-- `set` on a well-formed vector -/
theorem set_wf (v : BVec) (hw : v.WF) (i : Nat) (hi : i < v.len) (b : Bool) :
    ∃ v', v.set i b = .ok v' ∧ v'.WF ∧ v'.len = v.len ∧
      ∀ q, bitmapNull v'.data q = if q = i then b else bitmapNull v.data q := by
  obtain ⟨data, len⟩ := v
  obtain ⟨hlen, hlt⟩ := hw
  simp only at hlen hlt hi
  unfold nWords at hlen
  have hin : i / 64 < data.length := by omega
  unfold BVec.set
  simp only
  rw [if_neg (by omega), List.getElem?_eq_getElem hin]
  simp only
  refine ⟨_, rfl, ⟨by simp [nWords]; omega, ?_⟩, rfl, ?_⟩
  · intro w hw
    simp only at hw
    obtain ⟨k, hk, he⟩ := List.getElem_of_mem hw
    have hk' : k < data.length := by simpa using hk
    have := List.getElem?_modify (fun w => if b then setBit w (i % 64) else clearBit w (i % 64)) (i / 64) data k
    rw [List.getElem?_eq_getElem hk, List.getElem?_eq_getElem hk', he] at this
    simp only [Option.map_eq_map, Option.map_some, Option.some.injEq] at this
    rw [this]
    have hwk := hlt _ (List.getElem_mem hk')
    split
    · split
      · exact setBit_lt _ _ hwk (Nat.mod_lt _ (by decide))
      · unfold clearBit
        exact Nat.lt_of_le_of_lt Nat.and_le_left hwk
    · exact hwk
  · intro q
    simp only
    unfold bitmapNull
    rw [List.getElem?_modify]
    cases hq : data[q / 64]? with
    | none =>
      have : q ≠ i := by
        intro h; subst h; rw [List.getElem?_eq_getElem hin] at hq; cases hq
      simp [this]
    | some w =>
      simp only [Option.map_eq_map, Option.map_some]
      by_cases h64 : i / 64 = q / 64
      · rw [if_pos h64]
        by_cases hqi : q = i
        · subst hqi
          rw [if_pos rfl]
          cases b
          · simp only [Bool.false_eq_true, if_false, getBit_eq_testBit, clearBit, Nat.one_shiftLeft,
              Nat.testBit_and, Nat.testBit_xor, Nat.testBit_two_pow]
            have hw64 : (W - 1).testBit (q % 64) = true := by
              have : W - 1 = 2 ^ 64 - 1 := by decide
              rw [this, Nat.testBit_two_pow_sub_one]; simp; omega
            simp [hw64]
          · simp only [if_true, getBit_setBit]; simp
        · rw [if_neg hqi]
          have hne : i % 64 ≠ q % 64 := by omega
          cases b
          · simp only [Bool.false_eq_true, if_false, getBit_eq_testBit, clearBit, Nat.one_shiftLeft,
              Nat.testBit_and, Nat.testBit_xor, Nat.testBit_two_pow]
            have hw64 : (W - 1).testBit (q % 64) = true := by
              have : W - 1 = 2 ^ 64 - 1 := by decide
              rw [this, Nat.testBit_two_pow_sub_one]; simp; omega
            simp [hw64, hne]
          · simp only [if_true, getBit_setBit]; simp [hne]
      · rw [if_neg h64]
        have : q ≠ i := by intro h; subst h; exact h64 rfl
        rw [if_neg this]


theorem empty_wf_clean : BVec.empty.WF ∧ BVec.empty.Clean := by
  refine ⟨⟨rfl, by intro w hw; cases hw⟩, ?_⟩
  intro q _; rfl

/-- the bit vectors the public API can produce -/
inductive BVec.Built : BVec → Prop where
  | empty : BVec.Built BVec.empty
  | fromBools (bs : List Bool) : BVec.Built (BVec.fromBools bs)
  | filled (n : Nat) (b : Bool) : BVec.Built (BVec.filled n b)
  | push (v : BVec) (b : Bool) (v' : BVec) : BVec.Built v → v.push b = .ok v' → BVec.Built v'
  | set (v : BVec) (i : Nat) (b : Bool) (v' : BVec) : BVec.Built v → v.set i b = .ok v' → BVec.Built v'
  | not (v : BVec) : BVec.Built v → BVec.Built v.not
  | and (a b : BVec) : BVec.Built a → BVec.Built b → BVec.Built (a.and b)
  | or (a b : BVec) : BVec.Built a → BVec.Built b → BVec.Built (a.or b)
  | xor (a b : BVec) : BVec.Built a → BVec.Built b → BVec.Built (a.xor b)
  | fromBytes (bs : List Nat) (v : BVec) : (∀ b ∈ bs, b < 256) → BVec.fromBytes bs = some v → BVec.Built v

/-- F: every bit vector the API produces is well formed and has no bit set at or beyond its length
(so the derived equality compares exactly the stored bits). -/
theorem c15b_bitvec_built_clean (v : BVec) (h : v.Built) : v.WF ∧ v.Clean := by
  induction h with
  | empty => exact empty_wf_clean
  | fromBools bs => exact ⟨fromBools_wf bs, fromBools_clean bs⟩
  | filled n b => exact ⟨(filled_wf_clean n b).1, (filled_wf_clean n b).2.1⟩
  | push v b v' _ hp ih =>
    obtain ⟨v2, h1, h2, h3, _, _⟩ := push_clean v ih.1 ih.2 b
    rw [hp] at h1; cases h1; exact ⟨h2, h3⟩
  | set v i b v' _ hs ih =>
    by_cases hi : i < v.len
    · obtain ⟨v2, h1, h2, h3, h4⟩ := set_wf v ih.1 i hi b
      rw [hs] at h1; cases h1
      refine ⟨h2, ?_⟩
      intro q hq
      rw [h3] at hq
      rw [h4, if_neg (by omega)]
      exact ih.2 q hq
    · unfold BVec.set at hs
      rw [if_pos (by omega)] at hs; cases hs
  | not v _ ih => exact not_wf_clean v ih.1
  | and a b _ _ iha ihb =>
    exact zipWords_wf_clean _ (fun x y hx _ => Nat.lt_of_le_of_lt Nat.and_le_left hx) a b iha.1 ihb.1
  | or a b _ _ iha ihb =>
    exact zipWords_wf_clean _ (fun x y hx hy => by
      rw [W_eq2] at *; exact Nat.or_lt_two_pow hx hy) a b iha.1 ihb.1
  | xor a b _ _ iha ihb =>
    exact zipWords_wf_clean _ (fun x y hx hy => by
      rw [W_eq2] at *; exact Nat.xor_lt_two_pow hx hy) a b iha.1 ihb.1
  | fromBytes bs v hb hv => exact fromBytes_wf_clean bs hb v hv

/-- F: `push` appends — on every vector the API can produce (after `ones`, `not`, `or`, … too): the
bits read back are the old bits followed by the pushed bit. -/
theorem c15b_bitvec_push (v : BVec) (hv : v.Built) (b : Bool) (bs : List Bool)
    (hb : v.toBools = .ok bs) :
    ∃ v', v.push b = .ok v' ∧ v'.Built ∧ v'.toBools = .ok (bs ++ [b]) := by
  obtain ⟨hw, hc⟩ := c15b_bitvec_built_clean v hv
  obtain ⟨v', h1, h2, h3, h4, h5⟩ := push_clean v hw hc b
  refine ⟨v', h1, BVec.Built.push v b v' hv h1, ?_⟩
  rw [toBools_wf v hw] at hb
  cases hb
  rw [toBools_wf v' h2, h4, List.range_succ, List.map_append]
  congr 1
  congr 1
  · apply List.map_congr_left
    intro q hq
    have := List.mem_range.mp hq
    rw [h5, if_neg (by omega)]
  · simp [h5]

/-- W (regression): before the repair `BitVector::ones(1)` filled the 63 unused bits too, so the
`false` pushed next read back as `true`; likewise after `not()`. Now both read back `false`. -/
theorem c15b_bitvec_push_dirty_witness :
    (match (Old.BVec.filled 1 true).push false with
      | .ok v => v.toBools
      | _ => .panic) = .ok [true, true] ∧
    (match (Old.BVec.not (BVec.fromBools [true])).push false with
      | .ok v => v.toBools
      | _ => .panic) = .ok [false, true] ∧
    (match (BVec.filled 1 true).push false with
      | .ok v => v.toBools
      | _ => .panic) = .ok [true, false] ∧
    (match (BVec.fromBools [true]).not.push false with
      | .ok v => v.toBools
      | _ => .panic) = .ok [false, false] ∧
    BVec.filled 1 true = BVec.fromBools [true] := by
  refine ⟨by decide, by decide, by decide, by decide, by decide⟩


/-- pushing a whole list onto a clean vector -/
theorem pushAll_clean (v : BVec) (hw : v.WF) (hc : v.Clean) (bs : List Bool) :
    ∃ v', v.pushAll bs = .ok v' ∧ v'.WF ∧ v'.Clean ∧ v'.len = v.len + bs.length ∧
      ∀ q, bitmapNull v'.data q =
        if q < v.len then bitmapNull v.data q else bs.getD (q - v.len) false := by
  induction bs generalizing v with
  | nil =>
    refine ⟨v, rfl, hw, hc, rfl, ?_⟩
    intro q
    by_cases hq : q < v.len
    · rw [if_pos hq]
    · rw [if_neg hq, hc q (by omega)]; rfl
  | cons b bs ih =>
    obtain ⟨v1, h1, h2, h3, h4, h5⟩ := push_clean v hw hc b
    obtain ⟨v2, g1, g2, g3, g4, g5⟩ := ih v1 h2 h3
    refine ⟨v2, ?_, g2, g3, by rw [g4, h4]; simp; omega, ?_⟩
    · unfold BVec.pushAll; rw [h1]; exact g1
    · intro q
      rw [g5, h4, h5]
      by_cases hq : q < v.len
      · rw [if_pos (by omega), if_neg (by omega), if_pos hq]
      · rw [if_neg hq]
        by_cases hq2 : q = v.len
        · subst hq2; rw [if_pos (by omega), if_pos rfl]; simp
        · rw [if_neg (by omega)]
          have : q - v.len = (q - (v.len + 1)) + 1 := by omega
          rw [this]; simp [List.getD]

/-- F: collecting booleans by repeated `push` (the `FromIterator` impl, the way the wavelet tree
and Elias-Fano build their vectors) gives a vector that reads back as the input. -/
theorem c15b_bitvec_collect (bs : List Bool) :
    ∃ v, BVec.empty.pushAll bs = .ok v ∧ v.WF ∧ v.Clean ∧ v.toBools = .ok bs := by
  obtain ⟨v, h1, h2, h3, h4, h5⟩ := pushAll_clean BVec.empty empty_wf_clean.1 empty_wf_clean.2 bs
  refine ⟨v, h1, h2, h3, ?_⟩
  rw [toBools_wf v h2]
  congr 1
  have hl : v.len = bs.length := by rw [h4]; simp [BVec.empty]
  apply List.ext_getElem?
  intro i
  rw [hl, List.getElem?_map]
  by_cases hi : i < bs.length
  · rw [List.getElem?_range hi, Option.map_some, h5]
    simp [BVec.empty, List.getD, List.getElem?_eq_getElem hi]
  · rw [List.getElem?_eq_none (by simpa using Nat.le_of_not_lt hi),
        List.getElem?_eq_none (by omega)]; rfl

/-- serialisation round trip for any well-formed bit vector with clear padding -/
theorem fromBytes_toBytes (v : BVec) (hw : v.WF) (hc : v.Clean) (hl : v.len < 4294967296) :
    BVec.fromBytes v.toBytes = some v := by
  have hid := clearPadding_id v hw hc
  obtain ⟨data, len⟩ := v
  obtain ⟨hlen, hlt⟩ := hw
  simp only at hlen hlt hl
  have l4 : (leBytes 4 (len % 4294967296)).length = 4 := leBytes_length _ _
  have lf : ((data.map (leBytes 8)).flatten).length = 8 * data.length := by
    clear hlen hlt hid hc
    induction data with
    | nil => rfl
    | cons w ws ih => simp [List.flatten_cons, leBytes_length, ih]; omega
  unfold BVec.fromBytes BVec.toBytes
  simp only
  rw [Nat.mod_eq_of_lt hl] at l4 ⊢
  rw [take_append_len _ _ 4 l4, drop_append_len _ _ 4 l4]
  rw [ofLe_leBytes 4 _ (by rw [← u32_eq]; exact hl)]
  rw [if_neg (by simp only [List.length_append, l4]; omega)]
  rw [if_neg (by simp only [List.length_append, l4, lf]; omega)]
  have := readWords_flatten data [] hlt
  rw [List.append_nil] at this
  rw [← hlen, this]
  simp only
  rw [hid]

/-- F: serialising a bit vector and reading it back changes nothing (the length field is a `u32`). -/
theorem c15b_bitvec_bytes_roundtrip (bs : List Bool) (hl : bs.length < 4294967296) :
    BVec.fromBytes (BVec.fromBools bs).toBytes = some (BVec.fromBools bs) :=
  fromBytes_toBytes _ (fromBools_wf bs) (fromBools_clean bs) hl

/-- F: the same for every vector the API can produce. -/
theorem c15b_bitvec_built_bytes_roundtrip (v : BVec) (hv : v.Built) (hl : v.len < 4294967296) :
    BVec.fromBytes v.toBytes = some v :=
  fromBytes_toBytes v (c15b_bitvec_built_clean v hv).1 (c15b_bitvec_built_clean v hv).2 hl

/-! ### byte formats of the integer codecs (needed by the codec selector) -/

theorem flatten_le8_length (ws : List Nat) : ((ws.map (leBytes 8)).flatten).length = 8 * ws.length := by
  induction ws with
  | nil => rfl
  | cons w ws ih => simp [List.flatten_cons, leBytes_length, ih]; omega

theorem packWord_lt (b j : Nat) (vs : List Nat) : packWord b j vs < W := by
  induction vs generalizing j with
  | nil => simp [packWord, W]
  | cons v vs ih =>
    unfold packWord
    rw [W_eq2]
    apply Nat.or_lt_two_pow
    · rw [← W_eq2]; exact Nat.mod_lt _ (by decide)
    · rw [← W_eq2]; exact ih _

theorem chunksOf_length (n : Nat) (hn : 0 < n) (f : Nat) (l : List Nat) (hf : l.length ≤ f) :
    (chunksOf n f l).length = (l.length + n - 1) / n := by
  induction f generalizing l with
  | zero =>
    have : l = [] := List.length_eq_zero_iff.mp (by omega)
    subst this
    simp [chunksOf]
    exact (Nat.div_eq_of_lt (by omega)).symm
  | succ f ih =>
    cases l with
    | nil =>
      simp [chunksOf]
      exact (Nat.div_eq_of_lt (by omega)).symm
    | cons x xs =>
      simp only [chunksOf, List.length_cons]
      rw [ih _ (by simp only [List.length_drop, List.length_cons] at *; omega)]
      simp only [List.length_drop, List.length_cons]
      by_cases hle : xs.length + 1 ≤ n
      · have h1 : xs.length + 1 - n = 0 := by omega
        rw [h1]
        have e1 : (0 + n - 1) / n = 0 := Nat.div_eq_of_lt (by omega)
        have e2 : (xs.length + 1 + n - 1) / n = 1 := by
          apply Nat.div_eq_of_lt_le <;> omega
        omega
      · have : xs.length + 1 + n - 1 = (xs.length + 1 - n + n - 1) + n := by omega
        rw [this, Nat.add_div_right _ hn]

/-- serialisation round trip of a packed block with consistent header -/
theorem Packed.fromBytes_toBytes (p : Packed) (hb : p.bits ≤ 64) (hc : p.count < 4294967296)
    (hd : ∀ w ∈ p.data, w < W)
    (hl : p.data.length = if p.bits = 0 ∨ p.count = 0 then 0
                           else (p.count + 64 / p.bits - 1) / (64 / p.bits)) :
    Packed.fromBytes p.toBytes = .ok p := by
  obtain ⟨data, bits, count⟩ := p
  simp only at hb hc hd hl
  have l4 : (leBytes 4 count).length = 4 := leBytes_length _ _
  unfold Packed.fromBytes Packed.toBytes Generated.bitpackHeaderLen
  simp only
  rw [Nat.mod_eq_of_lt hc, Nat.mod_eq_of_lt (show bits < 256 by omega)]
  rw [if_neg (by simp only [List.length_cons, List.length_append, l4]; omega)]
  simp only [List.headD_cons, List.drop_succ_cons, List.drop_zero]
  rw [take_append_len _ _ 4 l4, ofLe_leBytes 4 _ (by rw [← u32_eq]; exact hc)]
  split
  · rename_i h; simp at h; omega
  · have hdrop : ((leBytes 4 count ++ (data.map (leBytes 8)).flatten).drop 4) = (data.map (leBytes 8)).flatten :=
      drop_append_len _ _ 4 l4
    rw [hdrop]
    have hrw := readWords_flatten data [] hd
    rw [List.append_nil] at hrw
    by_cases hz : bits = 0 ∨ count = 0
    · have hl0 : data.length = 0 := by rw [hl, if_pos hz]
      have : data = [] := List.length_eq_zero_iff.mp hl0
      subst this
      rcases hz with hz | hz <;> simp [hz, readWords]
    · rw [if_neg hz] at hl
      have h1 : bits ≠ 0 := fun h => hz (Or.inl h)
      have h2 : count ≠ 0 := fun h => hz (Or.inr h)
      simp [h1, h2, ← hl, hrw]

theorem pack_wellformed (vs : List Nat) (hb : ∀ v ∈ vs, v < W) :
    (pack vs).bits ≤ 64 ∧ (pack vs).count = vs.length ∧ (∀ w ∈ (pack vs).data, w < W) ∧
    (pack vs).data.length = if (pack vs).bits = 0 ∨ (pack vs).count = 0 then 0
      else ((pack vs).count + 64 / (pack vs).bits - 1) / (64 / (pack vs).bits) := by
  by_cases hne : vs = []
  · subst hne; exact ⟨by decide, rfl, (by intro w hw; cases hw), (by decide)⟩
  · obtain ⟨e, h1, h2, _⟩ := pack_bits vs hne hb
    obtain ⟨hcount, hbits⟩ := packWithBits_count_bits vs _ hne h1
    rw [e, hcount, hbits]
    have hb0 : bitsNeeded (listMax vs) ≠ 0 := by omega
    have hlen : vs.length ≠ 0 := fun h => hne (List.length_eq_zero_iff.mp h)
    refine ⟨h2, rfl, ?_, ?_⟩
    · intro w hw
      simp only [packWithBits, if_neg hne, if_neg hb0, List.mem_map] at hw
      obtain ⟨c, _, rfl⟩ := hw
      exact packWord_lt _ _ _
    · rw [if_neg (by omega)]
      simp only [packWithBits, if_neg hne, if_neg hb0, List.length_map]
      exact chunksOf_length _ (Nat.div_pos h2 (by omega)) _ _ (Nat.le_refl _)

/-- F: serialising a bit-packed block and reading it back changes nothing. -/
theorem c15b_pack_bytes_roundtrip (vs : List Nat) (hb : ∀ v ∈ vs, v < W)
    (hc : vs.length < 4294967296) : Packed.fromBytes (pack vs).toBytes = .ok (pack vs) := by
  obtain ⟨h1, h2, h3, h4⟩ := pack_wellformed vs hb
  exact Packed.fromBytes_toBytes _ h1 (by rw [h2]; exact hc) h3 h4

/-- F: serialising a delta + bit-packed block and reading it back changes nothing. -/
theorem c15b_dbp_bytes_roundtrip (vs : List Nat) (hb : ∀ v ∈ vs, v < W)
    (hc : vs.length < 4294967296) : DBP.fromBytes (DBP.encode vs).toBytes = .ok (DBP.encode vs) := by
  have key : ∀ (base : Nat) (p : Packed), base < W → Packed.fromBytes p.toBytes = .ok p →
      DBP.fromBytes (DBP.mk base p).toBytes = .ok (DBP.mk base p) := by
    intro base p hbase hp
    have l8 : (leBytes 8 base).length = 8 := leBytes_length _ _
    unfold DBP.fromBytes DBP.toBytes
    simp only
    rw [if_neg (by simp only [List.length_append, l8]; omega)]
    rw [drop_append_len _ _ 8 l8, take_append_len _ _ 8 l8, hp]
    simp only
    rw [ofLe_leBytes 8 _ (by rw [← W_eq]; exact hbase)]
  cases vs with
  | nil => exact key 0 (pack []) (by decide) (by decide)
  | cons a t =>
    by_cases hd : satDeltas (a :: t) = []
    · have : DBP.encode (a :: t) = ⟨a, packWithBits [] 1⟩ := by simp only [DBP.encode, if_pos hd]
      rw [this]
      exact key a _ (hb a (by simp)) (by decide)
    · have : DBP.encode (a :: t) = ⟨a, pack (satDeltas (a :: t))⟩ := by simp only [DBP.encode, if_neg hd]
      rw [this]
      apply key a _ (hb a (by simp))
      apply c15b_pack_bytes_roundtrip _ (satDeltas_lt _ hb)
      rw [satDeltas_length]; simp at hc ⊢; omega

theorem readRuns_flatten (rs : List (Nat × Nat)) (h : ∀ r ∈ rs, r.1 < W ∧ r.2 < W) :
    readRuns rs.length ((rs.map (fun (v, n) => leBytes 8 v ++ leBytes 8 n)).flatten) = some rs := by
  induction rs with
  | nil => simp [readRuns]
  | cons r rs ih =>
    obtain ⟨v, n⟩ := r
    have ⟨hv, hn⟩ := h (v, n) (by simp)
    have ih' := ih (fun x hx => h x (by simp [hx]))
    have l8v : (leBytes 8 v).length = 8 := leBytes_length _ _
    have l8n : (leBytes 8 n).length = 8 := leBytes_length _ _
    simp only [List.map_cons, List.flatten_cons, List.length_cons, readRuns]
    have hlen : ¬ ((leBytes 8 v ++ leBytes 8 n ++
        (rs.map (fun (v, n) => leBytes 8 v ++ leBytes 8 n)).flatten).length < 16) := by
      simp only [List.length_append, l8v, l8n]; omega
    rw [if_neg hlen]
    have e16 : (leBytes 8 v ++ leBytes 8 n ++
        (rs.map (fun (v, n) => leBytes 8 v ++ leBytes 8 n)).flatten).drop 16 =
        (rs.map (fun (v, n) => leBytes 8 v ++ leBytes 8 n)).flatten :=
      drop_append_len _ _ 16 (by simp only [List.length_append, l8v, l8n])
    rw [e16, ih']
    simp only
    rw [List.append_assoc, take_append_len _ _ 8 l8v, drop_append_len _ _ 8 l8v,
        take_append_len _ _ 8 l8n, ofLe_leBytes 8 v (by rw [← W_eq]; exact hv),
        ofLe_leBytes 8 n (by rw [← W_eq]; exact hn)]

theorem Rle.fromBytes_toBytes (r : Rle) (hl : r.runs.length < W) (h : ∀ x ∈ r.runs, x.1 < W ∧ x.2 < W) :
    Rle.fromBytes r.toBytes = some (Rle.fromRuns r.runs) := by
  have l8 : (leBytes 8 r.runs.length).length = 8 := leBytes_length _ _
  unfold Rle.fromBytes Rle.toBytes
  rw [if_neg (by simp only [List.length_append, l8]; omega)]
  rw [take_append_len _ _ 8 l8, drop_append_len _ _ 8 l8,
      ofLe_leBytes 8 _ (by rw [← W_eq]; exact hl), readRuns_flatten _ h]

theorem rleLoop_bounds (cv cl : Nat) (vs : List Nat) (B : Nat) (hcv : cv < W) (hv : ∀ v ∈ vs, v < W)
    (hcl : cl + vs.length ≤ B) :
    (rleLoop cv cl vs).length ≤ vs.length + 1 ∧ ∀ x ∈ rleLoop cv cl vs, x.1 < W ∧ x.2 ≤ B := by
  induction vs generalizing cv cl with
  | nil =>
    simp only [rleLoop, List.length_cons, List.length_nil, List.mem_singleton]
    refine ⟨by omega, ?_⟩
    intro x hx; subst hx; simp at hcl; exact ⟨hcv, hcl⟩
  | cons v vs ih =>
    unfold rleLoop
    have hv' : ∀ u ∈ vs, u < W := fun u hu => hv u (by simp [hu])
    simp only [List.length_cons] at hcl
    split
    · obtain ⟨h1, h2⟩ := ih cv (cl + 1) hcv hv' (by omega)
      exact ⟨by simp only [List.length_cons]; omega, h2⟩
    · obtain ⟨h1, h2⟩ := ih v 1 (hv v (by simp)) hv' (by omega)
      refine ⟨by simp only [List.length_cons]; omega, ?_⟩
      intro x hx
      rcases List.mem_cons.mp hx with rfl | hx
      · exact ⟨hcv, by simp only; omega⟩
      · exact h2 x hx

theorem Rle.decode_fromRuns (r : Rle) : (Rle.fromRuns r.runs).decode = r.decode := rfl

/-- F: serialising a run-length block and reading it back gives a block that decodes to the
original sequence and reports its length. -/
theorem c15b_rle_bytes_roundtrip (vs : List Nat) (hb : ∀ v ∈ vs, v < W) (hc : vs.length < 4294967296) :
    ∃ r, Rle.fromBytes (Rle.encode vs).toBytes = some r ∧ r.decode = vs ∧ r.total = vs.length ∧
      r.runs.length ≤ vs.length := by
  have hruns : (Rle.encode vs).runs.length ≤ vs.length ∧
      ∀ x ∈ (Rle.encode vs).runs, x.1 < W ∧ x.2 ≤ vs.length := by
    cases vs with
    | nil => exact ⟨Nat.le_refl _, by intro x hx; cases hx⟩
    | cons v t =>
      obtain ⟨h1, h2⟩ := rleLoop_bounds v 1 t (t.length + 1) (hb v (by simp))
        (fun u hu => hb u (by simp [hu])) (by omega)
      exact ⟨by simpa [Rle.encode] using h1, by simpa [Rle.encode] using h2⟩
  refine ⟨Rle.fromRuns (Rle.encode vs).runs, ?_, ?_, (c15_rle_total vs).2, hruns.1⟩
  · apply Rle.fromBytes_toBytes
    · have : (4294967296 : Nat) < W := by decide
      omega
    · intro x hx
      obtain ⟨h1, h2⟩ := hruns.2 x hx
      have : (4294967296 : Nat) < W := by decide
      exact ⟨h1, by omega⟩
  · rw [Rle.decode_fromRuns, c15_rle_roundtrip]


/-! ### zig-zag, without `bv_decide` -/

theorem bv_and_one (u : BitVec 64) : (u &&& 1#64).toNat = u.toNat % 2 := by
  rw [BitVec.toNat_and]
  have : (1#64).toNat = 2 ^ 1 - 1 := by decide
  rw [this, Nat.and_two_pow_sub_one_eq_mod]

/-- zig-zag decoding undoes zig-zag encoding (arithmetic proof, no external decision procedure) -/
theorem zzDec_zzEnc' (v : BitVec 64) : zzDec (zzEnc v) = v := by
  unfold zzDec zzEnc Generated.zigzagShift
  have hv := v.isLt
  cases hm : v.msb with
  | false =>
    have hlt : v.toNat < 2 ^ 63 := by
      rw [BitVec.msb_eq_decide] at hm; simpa using hm
    have hs : v.sshiftRight 63 = 0#64 := by
      rw [BitVec.sshiftRight_eq_of_msb_false hm]
      apply BitVec.eq_of_toNat_eq
      rw [BitVec.toNat_ushiftRight, Nat.shiftRight_eq_div_pow]
      simp only [BitVec.toNat_ofNat, Nat.zero_mod]
      exact Nat.div_eq_of_lt hlt
    rw [hs, BitVec.xor_zero]
    have h2 : (v <<< 1).toNat = 2 * v.toNat := by
      rw [BitVec.toNat_shiftLeft, Nat.shiftLeft_eq]; omega
    have hl : (v <<< 1) &&& 1#64 = 0#64 := by
      apply BitVec.eq_of_toNat_eq
      rw [bv_and_one, h2]; simp
    have hl' : (v <<< 1) &&& 1 = 0#64 := hl
    rw [hl']
    simp only [BitVec.neg_zero, BitVec.xor_zero]
    apply BitVec.eq_of_toNat_eq
    rw [BitVec.toNat_ushiftRight, h2, Nat.shiftRight_eq_div_pow]; omega
  | true =>
    have hge : 2 ^ 63 ≤ v.toNat := by
      rw [BitVec.msb_eq_decide] at hm; simpa using hm
    have hs : v.sshiftRight 63 = BitVec.allOnes 64 := by
      rw [BitVec.sshiftRight_eq_of_msb_true hm]
      apply BitVec.eq_of_toNat_eq
      rw [BitVec.toNat_not, BitVec.toNat_ushiftRight, BitVec.toNat_not, Nat.shiftRight_eq_div_pow,
        BitVec.toNat_allOnes]
      have : (2 ^ 64 - 1 - v.toNat) / 2 ^ 63 = 0 := Nat.div_eq_of_lt (by omega)
      rw [this]
    rw [hs, BitVec.xor_allOnes]
    have h2 : (v <<< 1).toNat = 2 * v.toNat - 2 ^ 64 := by
      rw [BitVec.toNat_shiftLeft, Nat.shiftLeft_eq]; omega
    have hn : (~~~(v <<< 1)).toNat = 2 ^ 65 - 1 - 2 * v.toNat := by
      rw [BitVec.toNat_not, h2]; omega
    have hl : ~~~(v <<< 1) &&& 1#64 = 1#64 := by
      apply BitVec.eq_of_toNat_eq
      rw [bv_and_one, hn]
      have : (1#64).toNat = 1 := by decide
      rw [this]; omega
    have hl' : ~~~(v <<< 1) &&& 1 = 1#64 := hl
    rw [hl', BitVec.neg_one_eq_allOnes, BitVec.xor_allOnes]
    apply BitVec.eq_of_toNat_eq
    rw [BitVec.toNat_not, BitVec.toNat_ushiftRight, hn, Nat.shiftRight_eq_div_pow]; omega


/-! ### the automatic codec selector -/

theorem rawWords_flatten (vs : List Nat) (hb : ∀ v ∈ vs, v < W) :
    rawWords ((vs.map (leBytes 8)).flatten) = vs := by
  unfold rawWords
  rw [flatten_le8_length]
  have e : 8 * vs.length / 8 = vs.length := by omega
  rw [e]
  have := readWords_flatten vs [] hb
  rw [List.append_nil] at this
  rw [this]; rfl

theorem isSortedB_sorted (vs : List Nat) (h : isSortedB vs = true) : Sorted vs := by
  induction vs with
  | nil => trivial
  | cons a t ih =>
    cases t with
    | nil => trivial
    | cons b r =>
      simp only [isSortedB, Bool.and_eq_true, decide_eq_true_eq] at h
      exact ⟨h.1, ih h.2⟩

/-- whatever codec is used — provided delta + bit-packing is only used on sorted input —
decompression returns the input -/
theorem decompress_encodeWith (vs : List Nat) (c : IntCodec) (hb : ∀ v ∈ vs, v < W)
    (hl : vs.length < 4294967296)
    (hs : ∀ b, c = .deltaBitPacked b → Sorted vs) :
    decompressInts (encodeWith vs c) = .ok vs := by
  cases c with
  | none =>
    simp only [encodeWith, decompressInts]
    rw [rawWords_flatten vs hb]
  | bitPacked b =>
    simp only [encodeWith, decompressInts]
    rw [c15b_pack_bytes_roundtrip vs hb hl]
    exact c15_unpack_pack vs hb
  | deltaBitPacked b =>
    have h1 := hs b rfl
    simp only [encodeWith, decompressInts]
    rw [c15b_dbp_bytes_roundtrip vs hb hl]
    exact (c15_delta_bitpacked_roundtrip vs h1 hb).1
  | runLength =>
    obtain ⟨r, h1, h2, _, h4⟩ := c15b_rle_bytes_roundtrip vs hb hl
    simp only [encodeWith, decompressInts]
    unfold rleDecompress
    rw [h1]
    simp only [h2]

theorem selectInts_dbp (vs : List Nat) (b : Nat) (h : selectInts vs = .deltaBitPacked b) :
    isSortedB vs = true ∧ 8 ≤ vs.length := by
  unfold selectInts at h
  split at h
  · cases h
  · split at h
    · cases h
    · split at h
      · rename_i h8 _ hsrt
        exact ⟨hsrt, by omega⟩
      · split at h
        · cases h
        · split at h <;> cases h

/-- F: whatever codec the automatic selector picks, compressing a `u64` sequence and decompressing it
returns the sequence — every length (the count fields are `u32`), every value. -/
theorem c15b_selector_roundtrip (vs : List Nat) (hb : ∀ v ∈ vs, v < W) (hl : vs.length < 4294967296) :
    decompressInts (compressInts vs) = .ok vs := by
  unfold compressInts
  apply decompress_encodeWith vs _ hb hl
  intro b hsel
  exact isSortedB_sorted vs (selectInts_dbp vs b hsel).1

/-- F: the same through the zig-zag front end for `i64` sequences (`compress_signed_integers`). -/
theorem c15b_selector_signed_roundtrip (vs : List (BitVec 64)) (hl : vs.length < 4294967296) :
    decodeSigned (decompressInts (compressSigned vs)) = .ok vs := by
  unfold compressSigned
  rw [c15b_selector_roundtrip _ (by
    intro v hv
    simp only [List.mem_map] at hv
    obtain ⟨x, _, rfl⟩ := hv
    rw [W_eq2]; exact (zzEnc x).isLt) (by simpa using hl)]
  simp only [decodeSigned, List.map_map]
  congr 1
  have : ((fun w => zzDec (BitVec.ofNat 64 w)) ∘ fun v => (zzEnc v).toNat) = id := by
    funext v; simp [zzDec_zzEnc']
  rw [this, List.map_id]

/-- F: compressed booleans decompress to the original sequence. -/
theorem c15b_selector_bool_roundtrip (bs : List Bool) (hl : bs.length < 4294967296) :
    decompressBools (compressBools bs) = .ok bs := by
  simp only [compressBools, decompressBools]
  rw [c15b_bitvec_bytes_roundtrip bs hl]
  exact c15b_bitvec_roundtrip bs

/-- W (regression): a run count of 2^60 in the header made the old `RunLengthEncoding::from_bytes`
panic while reserving memory ("capacity overflow"); now it is the ordinary read error. -/
theorem c15b_rle_capacity_witness :
    Old.rleDecompress (leBytes 8 1152921504606846976) = .panic ∧
    rleDecompress (leBytes 8 1152921504606846976) = .err := by decide

/-- N: the selector really uses the four codecs. -/
theorem c15b_selector_nonvacuity : selectInts [1, 1, 1, 1, 1, 1, 1, 1, 1] = .runLength ∧
    selectInts [1, 2, 3, 4, 5, 6, 7, 9] = .deltaBitPacked 2 ∧
    selectInts [5, 1, 7, 2, 6, 3, 9, 4] = .bitPacked 4 ∧
    selectInts [5, 1, 7, 2, 6, 3, 9, 4294967296] = .none ∧
    selectInts [1, 2, 3] = .none := by decide


/-! ### compressed property columns -/

/-- keys of the hot map are unique (kept by insert and remove) -/
def KeysNodup (m : HotMap) : Prop := (m.map (·.1)).Nodup

theorem hmGet_insert (m : HotMap) (k : Nat) (v : PV) (id : Nat) :
    hmGet (hmInsert m k v) id = if k = id then some v else hmGet m id := by
  induction m with
  | nil => simp [hmInsert, hmGet]
  | cons kv r ih =>
    obtain ⟨k', w⟩ := kv
    unfold hmInsert
    by_cases h : k' = k
    · subst h; rw [if_pos rfl]
      by_cases h2 : k' = id <;> simp [hmGet, h2]
    · rw [if_neg h]
      by_cases h2 : k' = id
      · subst h2; simp [hmGet, show k ≠ k' from fun e => h e.symm]
      · simp only [hmGet, if_neg h2, ih]

theorem hmGet_some_mem (m : HotMap) (id : Nat) (v : PV) (h : hmGet m id = some v) : (id, v) ∈ m := by
  induction m with
  | nil => simp [hmGet] at h
  | cons kv r ih =>
    obtain ⟨k, w⟩ := kv
    unfold hmGet at h
    split at h
    · rename_i hk; cases h; subst hk; simp
    · exact List.mem_cons_of_mem _ (ih h)

theorem hmGet_of_mem (m : HotMap) (hk : KeysNodup m) (id : Nat) (v : PV) (h : (id, v) ∈ m) :
    hmGet m id = some v := by
  induction m with
  | nil => cases h
  | cons kv r ih =>
    obtain ⟨k, w⟩ := kv
    unfold KeysNodup at hk
    simp only [List.map_cons, List.nodup_cons] at hk
    unfold hmGet
    rcases List.mem_cons.mp h with h1 | h1
    · cases h1; simp
    · have : k ≠ id := by
        intro e; subst e
        exact hk.1 (List.mem_map.mpr ⟨(k, v), h1, rfl⟩)
      rw [if_neg this]; exact ih hk.2 h1

theorem hmGet_none_of_not_key (m : HotMap) (id : Nat) (h : id ∉ m.map (·.1)) : hmGet m id = none := by
  cases hg : hmGet m id with
  | none => rfl
  | some v => exact absurd (List.mem_map.mpr ⟨(id, v), hmGet_some_mem m id v hg, rfl⟩) h

theorem keysNodup_insert (m : HotMap) (hk : KeysNodup m) (k : Nat) (v : PV) : KeysNodup (hmInsert m k v) := by
  induction m with
  | nil => simp [hmInsert, KeysNodup]
  | cons kv r ih =>
    obtain ⟨k', w⟩ := kv
    unfold KeysNodup at hk ⊢
    simp only [List.map_cons, List.nodup_cons] at hk
    unfold hmInsert
    split
    · simp only [List.map_cons, List.nodup_cons]; exact hk
    · rename_i hne
      simp only [List.map_cons, List.nodup_cons]
      refine ⟨?_, ih hk.2⟩
      intro hm
      obtain ⟨⟨a, b⟩, hab, rfl⟩ := List.mem_map.mp hm
      -- (a, b) ∈ hmInsert r k v: either the new pair or an old one
      have : (a, b) = (k, v) ∨ (a, b) ∈ r := by
        clear ih hk hm
        induction r with
        | nil => simp [hmInsert] at hab; left; exact Prod.ext hab.1 hab.2
        | cons kv2 r2 ih2 =>
          obtain ⟨k2, w2⟩ := kv2
          unfold hmInsert at hab
          split at hab
          · rcases List.mem_cons.mp hab with h | h
            · left; rename_i hk2; cases h; rw [hk2]
            · right; exact List.mem_cons_of_mem _ h
          · rcases List.mem_cons.mp hab with h | h
            · right; rw [h]; simp
            · rcases ih2 h with h | h
              · left; exact h
              · right; exact List.mem_cons_of_mem _ h
      rcases this with h | h
      · cases h; exact hne rfl
      · exact hk.1 (List.mem_map.mpr ⟨(a, b), h, rfl⟩)

theorem keysNodup_sublist (m m' : HotMap) (hs : m'.Sublist m) (hk : KeysNodup m) : KeysNodup m' :=
  List.Nodup.sublist (List.Sublist.map _ hs) hk

theorem keysNodup_remove (m : HotMap) (hk : KeysNodup m) (k : Nat) : KeysNodup (hmRemove m k) := by
  apply keysNodup_sublist _ _ _ hk
  induction m with
  | nil => exact List.Sublist.refl _
  | cons kv r ih =>
    obtain ⟨k', w⟩ := kv
    unfold hmRemove
    unfold KeysNodup at hk
    simp only [List.map_cons, List.nodup_cons] at hk
    split
    · exact List.sublist_cons_self _ _
    · exact List.Sublist.cons_cons _ (ih hk.2)

/-- `reinsertF` over paired ids and values is a fold of inserts -/
theorem reinsertF_eq_foldl {α : Type} (mk : α → PV) (get : Nat → Option α) (pairs : List (Nat × α))
    (m : HotMap) (i0 : Nat) (hget : ∀ j (hj : j < pairs.length), get (i0 + j) = some pairs[j].2) :
    reinsertF mk get m i0 (pairs.map (·.1)) = pairs.foldl (fun m p => hmInsert m p.1 (mk p.2)) m := by
  induction pairs generalizing m i0 with
  | nil => rfl
  | cons p ps ih =>
    simp only [List.map_cons, reinsertF, List.foldl_cons]
    have h0 := hget 0 (by simp)
    simp only [Nat.add_zero, List.getElem_cons_zero] at h0
    rw [h0]
    apply ih
    intro j hj
    have := hget (j + 1) (by simp; omega)
    rw [show i0 + 1 + j = i0 + (j + 1) by omega, this]; rfl

/-- lookup after a fold of inserts with unique keys -/
theorem hmGet_foldl_insert {α : Type} (mk : α → PV) (pairs : List (Nat × α))
    (hk : (pairs.map (·.1)).Nodup) (m : HotMap) (id : Nat) :
    hmGet (pairs.foldl (fun m p => hmInsert m p.1 (mk p.2)) m) id =
      match pairs.find? (fun p => p.1 == id) with
      | some p => some (mk p.2)
      | none => hmGet m id := by
  induction pairs generalizing m with
  | nil => rfl
  | cons p ps ih =>
    simp only [List.map_cons, List.nodup_cons] at hk
    rw [List.foldl_cons, ih hk.2, List.find?_cons]
    by_cases hp : p.1 = id
    · have : (p.1 == id) = true := by simpa using hp
      rw [this]
      -- id is not a key of ps
      have hnone : ps.find? (fun q => q.1 == id) = none := by
        rw [List.find?_eq_none]
        intro q hq hqid
        have : q.1 = id := by simpa using hqid
        exact hk.1 (by rw [hp, ← this]; exact List.mem_map.mpr ⟨q, hq, rfl⟩)
      rw [hnone]; simp only [hmGet_insert, if_pos hp]
    · have : (p.1 == id) = false := by simpa using hp
      rw [this]
      cases ps.find? (fun q => q.1 == id) with
      | some q => rfl
      | none => simp only [hmGet_insert, if_neg hp]

/-- the heart of the column round trip: splitting a map by a type test, carrying the selected part
through any permutation and an encoding `un` with left inverse `mk`, and inserting it back,
gives a map with the same lookups -/
theorem restore_get {α : Type} (values : HotMap) (hk : KeysNodup values) (sel : PV → Bool)
    (mk : α → PV) (un : PV → α) (hmk : ∀ v, sel v = true → mk (un v) = v)
    (sorted : HotMap) (hp : sorted.Perm (values.filter (fun kv => sel kv.2))) (id : Nat) :
    hmGet ((sorted.map (fun kv => (kv.1, un kv.2))).foldl (fun m p => hmInsert m p.1 (mk p.2))
      (values.filter (fun kv => !sel kv.2))) id = hmGet values id := by
  have hkf : KeysNodup (values.filter (fun kv => sel kv.2)) :=
    keysNodup_sublist _ _ List.filter_sublist hk
  have hkn : KeysNodup (values.filter (fun kv => !sel kv.2)) :=
    keysNodup_sublist _ _ List.filter_sublist hk
  have hks : KeysNodup sorted := by
    unfold KeysNodup
    exact (List.Perm.nodup_iff (List.Perm.map _ hp)).mpr hkf
  have hkeys : ((sorted.map (fun kv => (kv.1, un kv.2))).map (·.1)) = sorted.map (·.1) := by
    rw [List.map_map]; rfl
  rw [hmGet_foldl_insert mk _ (by rw [hkeys]; exact hks)]
  rw [List.find?_map]
  cases hf : sorted.find? ((fun p => p.1 == id) ∘ fun kv => (kv.1, un kv.2)) with
  | some kv =>
    simp only [Option.map_some]
    have hmem : kv ∈ sorted := List.mem_of_find?_eq_some hf
    have hid : kv.1 = id := by
      have := List.find?_some hf; simpa using this
    have hmem2 : kv ∈ values.filter (fun kv => sel kv.2) := hp.mem_iff.mp hmem
    obtain ⟨hv, hs⟩ := List.mem_filter.mp hmem2
    rw [hmk _ (by simpa using hs)]
    symm; apply hmGet_of_mem values hk
    rw [← hid]; exact hv
  | none =>
    simp only [Option.map_none]
    rw [List.find?_eq_none] at hf
    -- no selected entry has key id
    cases hg : hmGet values id with
    | none =>
      apply hmGet_none_of_not_key
      intro hm
      obtain ⟨kv, hkv, hkid⟩ := List.mem_map.mp hm
      have hv := (List.mem_filter.mp hkv).1
      have := hmGet_of_mem values hk kv.1 kv.2 hv
      rw [hkid, hg] at this; cases this
    | some v =>
      have hv := hmGet_some_mem values id v hg
      have hns : sel v = false := by
        cases hsv : sel v with
        | false => rfl
        | true =>
          have : (id, v) ∈ sorted := hp.mem_iff.mpr (List.mem_filter.mpr ⟨hv, by simpa using hsv⟩)
          have := hf (id, v) this
          simp at this
      apply hmGet_of_mem _ hkn
      exact List.mem_filter.mpr ⟨hv, by simp [hns]⟩


theorem insertBy_perm {α : Type} (key : α → Nat) (a : α) (l : List α) : (insertBy key a l).Perm (a :: l) := by
  induction l with
  | nil => exact List.Perm.refl _
  | cons y ys ih =>
    unfold insertBy
    split
    · exact List.Perm.refl _
    · exact (List.Perm.cons y ih).trans (List.Perm.swap a y ys)

theorem sortBy_perm {α : Type} (key : α → Nat) (l : List α) : (sortBy key l).Perm l := by
  induction l with
  | nil => exact List.Perm.refl _
  | cons a t ih =>
    unfold sortBy at ih ⊢
    rw [List.foldr_cons]
    exact (insertBy_perm key a _).trans (List.Perm.cons a ih)

theorem sortById_perm (l : HotMap) : (sortById l).Perm l := sortBy_perm _ l

theorem decompressAll_of_none (c : PCol) (hn : c.compressed = none) : c.decompressAll = .ok c := by
  unfold PCol.decompressAll; rw [hn]

theorem filter_length_lt (c : PCol) (p : Nat × PV → Bool) (hl : c.values.length < 4294967296) :
    (sortById (c.values.filter p)).length < 4294967296 := by
  have h1 := (sortById_perm (c.values.filter p)).length_eq
  have h2 := List.length_filter_le p c.values
  omega

/-! ### the logical content of a column: hot values and the pairs its compressed part stands for -/

/-- `reinsertF` over ids paired with values is a fold of inserts -/
theorem reinsertF_eq_foldl' {α : Type} (mk : α → PV) (get : Nat → Option α) (pairs : HotMap)
    (m : HotMap) (i0 : Nat)
    (hget : ∀ j (hj : j < pairs.length), (get (i0 + j)).map mk = some pairs[j].2) :
    reinsertF mk get m i0 (pairs.map (·.1)) = pairs.foldl (fun m p => hmInsert m p.1 p.2) m := by
  induction pairs generalizing m i0 with
  | nil => rfl
  | cons p ps ih =>
    simp only [List.map_cons, reinsertF, List.foldl_cons]
    have h0 := hget 0 (by simp)
    simp only [Nat.add_zero, List.getElem_cons_zero] at h0
    cases hg : get i0 with
    | none => rw [hg] at h0; cases h0
    | some x =>
      rw [hg] at h0
      simp only [Option.map_some, Option.some.injEq] at h0
      simp only [h0]
      apply ih
      intro j hj
      have := hget (j + 1) (by simp; omega)
      rw [show i0 + 1 + j = i0 + (j + 1) by omega, this]; rfl

/-- what a compressed part stands for: the pairs (id, value), in position order -/
def CCDok : CCD → HotMap → Prop
  | .ints cd ids, pairs => ids = pairs.map (·.1) ∧
      ∃ ws, decompressInts cd = .ok ws ∧
        ws.map (fun w => PV.int (zzDec (BitVec.ofNat 64 w))) = pairs.map (·.2)
  | .strs enc ids, pairs => ids = pairs.map (·.1) ∧
      ∀ j (hj : j < pairs.length), (enc.get j).map PV.str = some pairs[j].2
  | .bools cd ids, pairs => ids = pairs.map (·.1) ∧
      ∃ bs, decompressBools cd = .ok bs ∧ bs.map PV.bool = pairs.map (·.2)

theorem CCDok.ids_eq (d : CCD) (pairs : HotMap) (h : CCDok d pairs) : d.ids = pairs.map (·.1) := by
  cases d <;> exact h.1

theorem CCDok.valueAt (d : CCD) (pairs : HotMap) (h : CCDok d pairs) (j : Nat) (hj : j < pairs.length) :
    d.valueAt j = .ok (some pairs[j].2) := by
  cases d with
  | ints cd ids =>
    obtain ⟨_, ws, h1, h2⟩ := h
    simp only [CCD.valueAt, h1]
    have := congrArg (fun l => l[j]?) h2
    simp only [List.getElem?_map, List.getElem?_eq_getElem hj, Option.map_some] at this
    rw [this]
  | strs enc ids =>
    simp only [CCD.valueAt, h.2 j hj]
  | bools cd ids =>
    obtain ⟨_, bs, h1, h2⟩ := h
    simp only [CCD.valueAt, h1]
    have := congrArg (fun l => l[j]?) h2
    simp only [List.getElem?_map, List.getElem?_eq_getElem hj, Option.map_some] at this
    rw [this]

/-- decompression puts the pairs back into the hot buffer -/
theorem CCDok.decompress (c : PCol) (d : CCD) (pairs : HotMap) (hc : c.compressed = some d)
    (h : CCDok d pairs) :
    c.decompressAll = .ok { c with values := pairs.foldl (fun m p => hmInsert m p.1 p.2) c.values,
                                   compressed := none, compressedCount := 0 } := by
  unfold PCol.decompressAll
  rw [hc]
  cases d with
  | ints cd ids =>
    obtain ⟨hid, ws, h1, h2⟩ := h
    simp only [h1, decodeSigned]
    congr 2
    rw [hid]
    apply reinsertF_eq_foldl'
    intro j hj
    have := congrArg (fun l => l[j]?) h2
    simp only [List.getElem?_map, List.getElem?_eq_getElem hj, Option.map_some] at this
    rw [Nat.zero_add, List.getElem?_map]
    cases hw : ws[j]? with
    | none => rw [hw] at this; cases this
    | some w => rw [hw] at this; simpa using this
  | strs enc ids =>
    obtain ⟨hid, h2⟩ := h
    simp only
    congr 2
    rw [hid]
    apply reinsertF_eq_foldl'
    intro j hj
    rw [Nat.zero_add]; exact h2 j hj
  | bools cd ids =>
    obtain ⟨hid, bs, h1, h2⟩ := h
    simp only [h1]
    congr 2
    rw [hid]
    apply reinsertF_eq_foldl'
    intro j hj
    have := congrArg (fun l => l[j]?) h2
    simp only [List.getElem?_map, List.getElem?_eq_getElem hj, Option.map_some] at this
    rw [Nat.zero_add]; exact this

/-- invariant of a column: unique hot keys; the compressed part stands for `pairs`, whose ids are
distinct and absent from the hot buffer -/
structure PInv (c : PCol) (pairs : HotMap) : Prop where
  keys : KeysNodup c.values
  comp : match c.compressed with
    | none => pairs = []
    | some d => CCDok d pairs
  pk : (pairs.map (·.1)).Nodup
  disj : ∀ id, id ∈ pairs.map (·.1) → hmGet c.values id = none

/-- the value an entity has: hot buffer first, then the compressed pairs -/
def logical (c : PCol) (pairs : HotMap) (id : Nat) : Option PV :=
  match hmGet c.values id with
  | some v => some v
  | none => (pairs.find? (fun p => p.1 == id)).map (·.2)

theorem find?_of_idxOf? (pairs : HotMap) (id pos : Nat)
    (h : (pairs.map (·.1)).idxOf? id = some pos) :
    ∃ hp : pos < pairs.length, pairs.find? (fun p => p.1 == id) = some pairs[pos] := by
  induction pairs generalizing pos with
  | nil => simp at h
  | cons p ps ih =>
    simp only [List.map_cons, List.idxOf?_cons] at h
    by_cases hp : p.1 = id
    · have hb : (p.1 == id) = true := by simpa using hp
      rw [hb] at h
      simp only [if_true, Option.some.injEq] at h
      subst h
      exact ⟨by simp, by simp [List.find?_cons, hb]⟩
    · have hb : (p.1 == id) = false := by simpa using hp
      rw [hb] at h
      cases hi : (ps.map (·.1)).idxOf? id with
      | none => rw [hi] at h; simp at h
      | some q =>
        rw [hi] at h
        simp at h
        subst h
        obtain ⟨hq, hf⟩ := ih q hi
        exact ⟨by simp; omega, by simp [List.find?_cons, hb, hf]⟩

theorem find?_none_of_idxOf? (pairs : HotMap) (id : Nat)
    (h : (pairs.map (·.1)).idxOf? id = none) : pairs.find? (fun p => p.1 == id) = none := by
  induction pairs with
  | nil => rfl
  | cons p ps ih =>
    simp only [List.map_cons, List.idxOf?_cons] at h
    by_cases hp : p.1 = id
    · have hb : (p.1 == id) = true := by simpa using hp
      rw [hb] at h; simp at h
    · have hb : (p.1 == id) = false := by simpa using hp
      rw [hb] at h
      cases hi : (ps.map (·.1)).idxOf? id with
      | none => simp [List.find?_cons, hb, ih hi]
      | some q => rw [hi] at h; simp at h

theorem idxOf?_none_iff (l : List Nat) (id : Nat) : l.idxOf? id = none ↔ id ∉ l := by
  induction l with
  | nil => simp
  | cons x xs ih =>
    rw [List.idxOf?_cons]
    by_cases hx : x = id
    · have hb : (x == id) = true := by simpa using hx
      simp [hb, hx]
    · have hb : (x == id) = false := by simpa using hx
      rw [hb]
      have hne : id ≠ x := fun h => hx h.symm
      cases hi : xs.idxOf? id with
      | none => simp [hne, ih.mp hi]
      | some q =>
        simp only [Bool.false_eq_true, if_false, Option.map_some, reduceCtorEq, false_iff,
          Decidable.not_not, List.mem_cons]
        right
        apply Classical.byContradiction
        intro hn; rw [ih.mpr hn] at hi; cases hi

/-- F (per read): `get` returns the logical value — also for compressed entities -/
theorem get_logical (c : PCol) (pairs : HotMap) (inv : PInv c pairs) (id : Nat) :
    c.get id = .ok (logical c pairs id) := by
  unfold PCol.get logical
  cases hh : hmGet c.values id with
  | some v => rfl
  | none =>
    simp only
    unfold PCol.getCompressed
    have hcomp := inv.comp
    cases hc : c.compressed with
    | none =>
      rw [hc] at hcomp
      simp only at hcomp
      subst hcomp; rfl
    | some d =>
      rw [hc] at hcomp
      simp only at hcomp ⊢
      rw [CCDok.ids_eq d pairs hcomp]
      cases hi : (pairs.map (·.1)).idxOf? id with
      | none => simp only; rw [find?_none_of_idxOf? pairs id hi]; rfl
      | some pos =>
        obtain ⟨hp, hf⟩ := find?_of_idxOf? pairs id pos hi
        simp only
        rw [CCDok.valueAt d pairs hcomp pos hp, hf]; rfl

theorem hmInsert_length_le (m : HotMap) (k : Nat) (v : PV) : (hmInsert m k v).length ≤ m.length + 1 := by
  induction m with
  | nil => simp [hmInsert]
  | cons kv r ih =>
    obtain ⟨k', w⟩ := kv
    unfold hmInsert
    split
    · simp
    · simp only [List.length_cons]; omega

theorem foldl_insert_props (pairs : HotMap) (m : HotMap) (hk : KeysNodup m) :
    KeysNodup (pairs.foldl (fun m p => hmInsert m p.1 p.2) m) ∧
    (pairs.foldl (fun m p => hmInsert m p.1 p.2) m).length ≤ m.length + pairs.length := by
  induction pairs generalizing m with
  | nil => exact ⟨hk, by simp⟩
  | cons p ps ih =>
    rw [List.foldl_cons]
    obtain ⟨h1, h2⟩ := ih (hmInsert m p.1 p.2) (keysNodup_insert m hk p.1 p.2)
    refine ⟨h1, ?_⟩
    have := hmInsert_length_le m p.1 p.2
    simp only [List.length_cons]; omega

/-- with disjoint keys, hot-then-pairs is the same lookup as pairs-inserted-over-hot -/
theorem logical_eq_foldl (c : PCol) (pairs : HotMap) (pk : (pairs.map (·.1)).Nodup)
    (disj : ∀ id, id ∈ pairs.map (·.1) → hmGet c.values id = none) (id : Nat) :
    logical c pairs id = hmGet (pairs.foldl (fun m p => hmInsert m p.1 p.2) c.values) id := by
  have h := hmGet_foldl_insert (fun v : PV => v) pairs pk c.values id
  rw [h]
  unfold logical
  cases hf : pairs.find? (fun p => p.1 == id) with
  | none => cases hmGet c.values id <;> rfl
  | some p =>
    have hmem : p ∈ pairs := List.mem_of_find?_eq_some hf
    have hid : p.1 = id := by have := List.find?_some hf; simpa using this
    rw [disj id (by rw [← hid]; exact List.mem_map.mpr ⟨p, hmem, rfl⟩)]
    rfl

theorem filter_split_length (values : HotMap) (sel : PV → Bool) :
    (values.filter (fun kv => !sel kv.2)).length + (sortById (values.filter (fun kv => sel kv.2))).length =
      values.length := by
  rw [(sortById_perm _).length_eq, ← List.countP_eq_length_filter, ← List.countP_eq_length_filter]
  have h := List.length_eq_countP_add_countP (p := fun kv : Nat × PV => sel kv.2) (l := values)
  have e : values.countP (fun kv => !sel kv.2) = values.countP (fun a => decide ¬sel a.2 = true) := by
    apply List.countP_congr; intro x _; cases sel x.2 <;> simp
  rw [e]; omega

/-- moving the selected entries of a hot buffer into a compressed part that stands for them keeps
the invariant and every logical value -/
theorem split_inv (c c' : PCol) (hk : KeysNodup c.values) (sel : PV → Bool) (d : CCD)
    (hv : c'.values = c.values.filter (fun kv => !sel kv.2)) (hc : c'.compressed = some d)
    (hd : CCDok d (sortById (c.values.filter (fun kv => sel kv.2)))) :
    PInv c' (sortById (c.values.filter (fun kv => sel kv.2))) ∧
    (∀ id, logical c' (sortById (c.values.filter (fun kv => sel kv.2))) id = hmGet c.values id) ∧
    c'.values.length + (sortById (c.values.filter (fun kv => sel kv.2))).length = c.values.length := by
  have hperm := sortById_perm (c.values.filter (fun kv => sel kv.2))
  have hkf : KeysNodup (c.values.filter (fun kv => sel kv.2)) :=
    keysNodup_sublist _ _ List.filter_sublist hk
  have hks : ((sortById (c.values.filter (fun kv => sel kv.2))).map (·.1)).Nodup :=
    (List.Perm.nodup_iff (List.Perm.map _ hperm)).mpr hkf
  have hkn : KeysNodup c'.values := by rw [hv]; exact keysNodup_sublist _ _ List.filter_sublist hk
  have hdisj : ∀ id, id ∈ (sortById (c.values.filter (fun kv => sel kv.2))).map (·.1) →
      hmGet c'.values id = none := by
    intro id hid
    obtain ⟨kv, hkv, hkid⟩ := List.mem_map.mp hid
    have hkv' := hperm.mem_iff.mp hkv
    obtain ⟨hin, hs⟩ := List.mem_filter.mp hkv'
    cases hg : hmGet c'.values id with
    | none => rfl
    | some v =>
      have hm := hmGet_some_mem _ _ _ hg
      rw [hv] at hm
      obtain ⟨hin2, hs2⟩ := List.mem_filter.mp hm
      have e1 := hmGet_of_mem c.values hk id v hin2
      have e2 := hmGet_of_mem c.values hk kv.1 kv.2 hin
      rw [hkid, e1] at e2
      cases e2
      simp only at hs2
      rw [hs] at hs2; cases hs2
  refine ⟨⟨hkn, by rw [hc]; exact hd, hks, hdisj⟩, ?_, by rw [hv]; exact filter_split_length c.values sel⟩
  intro id
  rw [logical_eq_foldl c' _ hks hdisj, hv]
  have := restore_get c.values hk sel (fun v : PV => v) (fun v => v) (fun _ _ => rfl)
    (sortById (c.values.filter (fun kv => sel kv.2))) hperm id
  have e : (sortById (c.values.filter (fun kv => sel kv.2))).map (fun kv => (kv.1, kv.2)) =
      sortById (c.values.filter (fun kv => sel kv.2)) := by
    simp
  rw [e] at this
  exact this

theorem compressAsInts_inv (c : PCol) (hk : KeysNodup c.values) (hn : c.compressed = none)
    (hl : c.values.length < 4294967296) :
    ∃ pairs, PInv c.compressAsInts pairs ∧ (∀ id, logical c.compressAsInts pairs id = hmGet c.values id) ∧
      c.compressAsInts.values.length + pairs.length ≤ c.values.length := by
  have hnone : PInv c [] ∧ (∀ id, logical c [] id = hmGet c.values id) ∧
      c.values.length + ([] : HotMap).length ≤ c.values.length := by
    refine ⟨⟨hk, by rw [hn], List.nodup_nil, by intro id h; cases h⟩, ?_, by simp⟩
    intro id; unfold logical; cases hmGet c.values id <;> rfl
  unfold PCol.compressAsInts
  simp only
  split
  · exact ⟨[], hnone⟩
  · split
    · refine ⟨sortById (c.values.filter (fun kv => isInt kv.2)), ?_⟩
      have := split_inv c { c with
          compressed := some (.ints (compressSigned ((sortById (c.values.filter (fun kv => isInt kv.2))).map (fun kv => intOf kv.2)))
            ((sortById (c.values.filter (fun kv => isInt kv.2))).map (·.1))),
          compressedCount := (sortById (c.values.filter (fun kv => isInt kv.2))).length,
          values := c.values.filter (fun kv => !isInt kv.2) } hk isInt _ rfl rfl (by
        refine ⟨rfl, _, c15b_selector_roundtrip _ (by
          intro v hv
          simp only [List.mem_map] at hv
          obtain ⟨x, _, rfl⟩ := hv
          rw [W_eq2]; exact (zzEnc _).isLt) (by
          rw [List.length_map, List.length_map]; exact filter_length_lt c _ hl), ?_⟩
        rw [List.map_map, List.map_map]
        apply List.map_congr_left
        intro kv hkv
        have hkv' := (sortById_perm _).mem_iff.mp hkv
        have hs := (List.mem_filter.mp hkv').2
        simp only [Function.comp]
        have : BitVec.ofNat 64 (zzEnc (intOf kv.2)).toNat = zzEnc (intOf kv.2) := by simp
        rw [this, zzDec_zzEnc']
        cases hv : kv.2 <;> simp [hv, isInt] at hs ⊢
        rfl)
      exact ⟨this.1, this.2.1, by rw [this.2.2]; exact Nat.le_refl _⟩
    · exact ⟨[], hnone⟩

theorem compressAsBools_inv (c : PCol) (hk : KeysNodup c.values) (hn : c.compressed = none)
    (hl : c.values.length < 4294967296) :
    ∃ pairs, PInv c.compressAsBools pairs ∧ (∀ id, logical c.compressAsBools pairs id = hmGet c.values id) ∧
      c.compressAsBools.values.length + pairs.length ≤ c.values.length := by
  have hnone : PInv c [] ∧ (∀ id, logical c [] id = hmGet c.values id) ∧
      c.values.length + ([] : HotMap).length ≤ c.values.length := by
    refine ⟨⟨hk, by rw [hn], List.nodup_nil, by intro id h; cases h⟩, ?_, by simp⟩
    intro id; unfold logical; cases hmGet c.values id <;> rfl
  unfold PCol.compressAsBools
  simp only
  split
  · exact ⟨[], hnone⟩
  · refine ⟨sortById (c.values.filter (fun kv => isBool kv.2)), ?_⟩
    have := split_inv c { c with
        compressed := some (.bools (compressBools ((sortById (c.values.filter (fun kv => isBool kv.2))).map (fun kv => boolOf kv.2)))
          ((sortById (c.values.filter (fun kv => isBool kv.2))).map (·.1))),
        compressedCount := (sortById (c.values.filter (fun kv => isBool kv.2))).length,
        values := c.values.filter (fun kv => !isBool kv.2) } hk isBool _ rfl rfl (by
      refine ⟨rfl, _, c15b_selector_bool_roundtrip _ (by
        rw [List.length_map]; exact filter_length_lt c _ hl), ?_⟩
      rw [List.map_map]
      apply List.map_congr_left
      intro kv hkv
      have hkv' := (sortById_perm _).mem_iff.mp hkv
      have hs := (List.mem_filter.mp hkv').2
      simp only [Function.comp]
      cases hv : kv.2 <;> simp [hv, isBool] at hs ⊢
      rfl)
    exact ⟨this.1, this.2.1, by rw [this.2.2]; exact Nat.le_refl _⟩

theorem compressAsStrs_inv (c : PCol) (hk : KeysNodup c.values) (hn : c.compressed = none)
    (hl : c.values.length < 4294967296) :
    ∃ pairs, PInv c.compressAsStrs pairs ∧ (∀ id, logical c.compressAsStrs pairs id = hmGet c.values id) ∧
      c.compressAsStrs.values.length + pairs.length ≤ c.values.length := by
  have hnone : PInv c [] ∧ (∀ id, logical c [] id = hmGet c.values id) ∧
      c.values.length + ([] : HotMap).length ≤ c.values.length := by
    refine ⟨⟨hk, by rw [hn], List.nodup_nil, by intro id h; cases h⟩, ?_, by simp⟩
    intro id; unfold logical; cases hmGet c.values id <;> rfl
  unfold PCol.compressAsStrs
  simp only
  split
  · exact ⟨[], hnone⟩
  · split
    · refine ⟨sortById (c.values.filter (fun kv => isStr kv.2)), ?_⟩
      have := split_inv c { c with
          compressed := some (.strs (dictOf ((sortById (c.values.filter (fun kv => isStr kv.2))).map (fun kv => some (strOf kv.2))))
            ((sortById (c.values.filter (fun kv => isStr kv.2))).map (·.1))),
          compressedCount := (sortById (c.values.filter (fun kv => isStr kv.2))).length,
          values := c.values.filter (fun kv => !isStr kv.2) } hk isStr _ rfl rfl (by
        refine ⟨rfl, ?_⟩
        intro j hj
        rw [c15b_dict_get _ (by rw [List.length_map]; exact filter_length_lt c _ hl)]
        simp only [List.getElem?_map, List.getElem?_eq_getElem hj, Option.map_some, Option.join]
        have hkv' := (sortById_perm _).mem_iff.mp (List.getElem_mem hj)
        have hs : isStr (sortById (c.values.filter (fun kv => isStr kv.2)))[j].2 = true :=
          (List.mem_filter.mp hkv').2
        generalize (sortById (c.values.filter (fun kv => isStr kv.2)))[j].2 = x at hs ⊢
        cases x <;> simp [isStr, strOf] at hs ⊢)
      exact ⟨this.1, this.2.1, by rw [this.2.2]; exact Nat.le_refl _⟩
    · exact ⟨[], hnone⟩

/-- `compress` keeps the invariant and every logical value -/
theorem compress_inv (c : PCol) (pairs : HotMap) (inv : PInv c pairs)
    (hl : c.values.length < 4294967296) :
    ∃ pairs', PInv c.compress pairs' ∧ (∀ id, logical c.compress pairs' id = logical c pairs id) ∧
      c.compress.values.length + pairs'.length ≤ c.values.length + pairs.length := by
  have hsame : ∃ pairs', PInv c pairs' ∧ (∀ id, logical c pairs' id = logical c pairs id) ∧
      c.values.length + pairs'.length ≤ c.values.length + pairs.length :=
    ⟨pairs, inv, fun _ => rfl, Nat.le_refl _⟩
  unfold PCol.compress
  split
  · exact hsame
  · split
    · exact hsame
    · rename_i hne hcs
      have hn : c.compressed = none := by
        cases h : c.compressed with
        | none => rfl
        | some d => rw [h] at hcs; simp at hcs
      have hp : pairs = [] := by have := inv.comp; rw [hn] at this; exact this
      subst hp
      have hlog : ∀ id, hmGet c.values id = logical c [] id := by
        intro id; unfold logical; cases hmGet c.values id <;> rfl
      split
      · obtain ⟨p', h1, h2, h3⟩ := compressAsInts_inv c inv.keys hn hl
        exact ⟨p', h1, fun id => by rw [h2 id, hlog id], by simpa using h3⟩
      · split
        · obtain ⟨p', h1, h2, h3⟩ := compressAsStrs_inv c inv.keys hn hl
          exact ⟨p', h1, fun id => by rw [h2 id, hlog id], by simpa using h3⟩
        · split
          · obtain ⟨p', h1, h2, h3⟩ := compressAsBools_inv c inv.keys hn hl
            exact ⟨p', h1, fun id => by rw [h2 id, hlog id], by simpa using h3⟩
          · exact hsame

/-- `decompress_all` keeps the invariant and every logical value, and leaves nothing compressed -/
theorem decompress_inv (c : PCol) (pairs : HotMap) (inv : PInv c pairs) :
    ∃ c', c.decompressAll = .ok c' ∧ c'.compressed = none ∧ c'.mode = c.mode ∧ PInv c' [] ∧
      (∀ id, logical c' [] id = logical c pairs id) ∧ c'.values.length ≤ c.values.length + pairs.length := by
  have hcomp := inv.comp
  cases hc : c.compressed with
  | none =>
    rw [hc] at hcomp
    simp only at hcomp
    subst hcomp
    exact ⟨c, decompressAll_of_none c hc, hc, rfl, inv, fun _ => rfl, by simp⟩
  | some d =>
    rw [hc] at hcomp
    simp only at hcomp
    obtain ⟨h1, h2⟩ := foldl_insert_props pairs c.values inv.keys
    refine ⟨_, CCDok.decompress c d pairs hc hcomp, rfl, rfl,
      ⟨h1, rfl, List.nodup_nil, by intro id h; cases h⟩, ?_, h2⟩
    intro id
    rw [logical_eq_foldl c pairs inv.pk inv.disj]
    unfold logical
    simp only
    cases hmGet (pairs.foldl (fun m p => hmInsert m p.1 p.2) c.values) id <;> rfl

/-! ### reads do not depend on the compression mode -/

inductive ColOp where
  | set (id : Nat) (v : PV) | remove (id : Nat) | compress | setMode (m : CMode)
  deriving DecidableEq, Repr

def PCol.step (c : PCol) : ColOp → Res PCol
  | .set id v => c.set id v
  | .remove id => c.remove id
  | .compress => .ok c.compress
  | .setMode m => c.setMode m

def PCol.run (c : PCol) : List ColOp → Res PCol
  | [] => .ok c
  | o :: os => match c.step o with
    | .ok c' => c'.run os
    | .err => .err
    | .panic => .panic

/-- the same operations with compression switched off: a plain map -/
def plainStep (m : HotMap) : ColOp → HotMap
  | .set id v => hmInsert m id v
  | .remove id => hmRemove m id
  | _ => m

def plainRun (m : HotMap) (ops : List ColOp) : HotMap := ops.foldl plainStep m

theorem hmGet_remove (m : HotMap) (hk : KeysNodup m) (k id : Nat) :
    hmGet (hmRemove m k) id = if k = id then none else hmGet m id := by
  induction m with
  | nil => simp [hmRemove, hmGet]
  | cons kv r ih =>
    obtain ⟨k', w⟩ := kv
    unfold KeysNodup at hk
    simp only [List.map_cons, List.nodup_cons] at hk
    unfold hmRemove
    by_cases h : k' = k
    · subst h
      rw [if_pos rfl]
      by_cases h2 : k' = id
      · subst h2
        rw [if_pos rfl]
        exact hmGet_none_of_not_key r k' hk.1
      · rw [if_neg h2]; simp [hmGet, h2]
    · rw [if_neg h]
      by_cases h2 : k' = id
      · subst h2
        have : k ≠ k' := fun e => h e.symm
        simp [hmGet, this]
      · simp only [hmGet, if_neg h2]
        exact ih hk.2

theorem hmRemove_length_le (m : HotMap) (k : Nat) : (hmRemove m k).length ≤ m.length := by
  induction m with
  | nil => simp [hmRemove]
  | cons kv r ih =>
    obtain ⟨k', w⟩ := kv
    unfold hmRemove
    split
    · simp
    · simp only [List.length_cons]; omega

theorem thaw_of_none (c : PCol) (id : Nat) (h : c.compressedPos id = none) : c.thaw id = .ok c := by
  unfold PCol.thaw; rw [h]; rfl

theorem thaw_of_some (c : PCol) (id pos : Nat) (h : c.compressedPos id = some pos) :
    c.thaw id = c.decompressAll := by
  unfold PCol.thaw; rw [h]; rfl

theorem thaw_inv (c : PCol) (pairs : HotMap) (inv : PInv c pairs) (id : Nat) :
    ∃ c' pairs', c.thaw id = .ok c' ∧ c'.mode = c.mode ∧ PInv c' pairs' ∧
      (∀ id', logical c' pairs' id' = logical c pairs id') ∧ id ∉ pairs'.map (·.1) ∧
      c'.values.length + pairs'.length ≤ c.values.length + pairs.length := by
  cases hp : c.compressedPos id with
  | some pos =>
    rw [thaw_of_some c id pos hp]
    obtain ⟨c', h1, _, h3, h4, h5, h6⟩ := decompress_inv c pairs inv
    exact ⟨c', [], h1, h3, h4, h5, by simp, by simpa using h6⟩
  | none =>
    rw [thaw_of_none c id hp]
    refine ⟨c, pairs, rfl, rfl, inv, fun _ => rfl, ?_, Nat.le_refl _⟩
    have hcomp := inv.comp
    unfold PCol.compressedPos at hp
    cases hc : c.compressed with
    | none =>
      rw [hc] at hcomp
      simp only at hcomp
      subst hcomp; simp
    | some d =>
      rw [hc] at hcomp hp
      simp only at hcomp hp
      rw [CCDok.ids_eq d pairs hcomp] at hp
      exact (idxOf?_none_iff _ _).mp hp

theorem setHot_inv (c : PCol) (pairs : HotMap) (inv : PInv c pairs) (id : Nat) (v : PV)
    (hid : id ∉ pairs.map (·.1)) (hl : c.values.length + 1 < 4294967296) :
    ∃ pairs', PInv (c.setHot id v) pairs' ∧
      (∀ id', logical (c.setHot id v) pairs' id' = if id = id' then some v else logical c pairs id') ∧
      (c.setHot id v).values.length + pairs'.length ≤ c.values.length + pairs.length + 1 := by
  have hins := hmInsert_length_le c.values id v
  have inv1 : PInv { c with values := hmInsert c.values id v } pairs := by
    refine ⟨keysNodup_insert c.values inv.keys id v, inv.comp, inv.pk, ?_⟩
    intro id' hid'
    simp only
    rw [hmGet_insert, if_neg (by intro h; subst h; exact hid hid')]
    exact inv.disj id' hid'
  have hlog1 : ∀ id', logical { c with values := hmInsert c.values id v } pairs id' =
      if id = id' then some v else logical c pairs id' := by
    intro id'
    unfold logical
    simp only
    rw [hmGet_insert]
    by_cases h : id = id'
    · simp [h]
    · simp [h]
  unfold PCol.setHot
  split
  · split
    · obtain ⟨p', h1, h2, h3⟩ := compress_inv _ pairs inv1 (by simp only; omega)
      refine ⟨p', h1, fun id' => by rw [h2 id', hlog1 id'], ?_⟩
      simp only at h3; omega
    · exact ⟨pairs, inv1, hlog1, by simp only; omega⟩
  · exact ⟨pairs, inv1, hlog1, by simp only; omega⟩

/-- one operation acts on the logical content like the plain map -/
theorem step_inv (c : PCol) (pairs : HotMap) (inv : PInv c pairs) (o : ColOp)
    (hl : c.values.length + pairs.length + 1 < 4294967296) :
    ∃ c' pairs', c.step o = .ok c' ∧ PInv c' pairs' ∧
      c'.values.length + pairs'.length ≤ c.values.length + pairs.length + 1 ∧
      ∀ (m0 : HotMap), KeysNodup m0 → (∀ id, logical c pairs id = hmGet m0 id) →
        ∀ id, logical c' pairs' id = hmGet (plainStep m0 o) id := by
  cases o with
  | set id v =>
    obtain ⟨c0, p0, t1, _, t3, t4, t5, t6⟩ := thaw_inv c pairs inv id
    obtain ⟨p1, s1, s2, s3⟩ := setHot_inv c0 p0 t3 id v t5 (by omega)
    refine ⟨c0.setHot id v, p1, by simp only [PCol.step, PCol.set, t1], s1, by omega, ?_⟩
    intro m0 _ hlog id'
    rw [s2 id']
    simp only [plainStep, hmGet_insert]
    split
    · rfl
    · rw [t4 id', hlog id']
  | remove id =>
    obtain ⟨c0, p0, t1, _, t3, t4, t5, t6⟩ := thaw_inv c pairs inv id
    have hrl := hmRemove_length_le c0.values id
    refine ⟨{ c0 with values := hmRemove c0.values id }, p0,
      by simp only [PCol.step, PCol.remove, t1], ?_, by simp only; omega, ?_⟩
    · refine ⟨keysNodup_remove c0.values t3.keys id, t3.comp, t3.pk, ?_⟩
      intro id' hid'
      simp only
      rw [hmGet_remove c0.values t3.keys]
      split
      · rfl
      · exact t3.disj id' hid'
    · intro m0 hk0 hlog id'
      simp only [plainStep]
      rw [hmGet_remove m0 hk0]
      unfold logical
      simp only
      rw [hmGet_remove c0.values t3.keys]
      by_cases h : id = id'
      · subst h
        rw [if_pos rfl, if_pos rfl]
        simp only
        have : p0.find? (fun p => p.1 == id) = none := by
          rw [List.find?_eq_none]
          intro p hp hpe
          have : p.1 = id := by simpa using hpe
          exact t5 (by rw [← this]; exact List.mem_map.mpr ⟨p, hp, rfl⟩)
        rw [this]; rfl
      · rw [if_neg h, if_neg h, ← hlog id', ← t4 id']
        rfl
  | compress =>
    obtain ⟨p', h1, h2, h3⟩ := compress_inv c pairs inv (by omega)
    refine ⟨c.compress, p', rfl, h1, by omega, ?_⟩
    intro m0 _ hlog id
    rw [h2 id, hlog id]; rfl
  | setMode m =>
    simp only [PCol.step, PCol.setMode]
    have invm : PInv { c with mode := m } pairs := ⟨inv.keys, inv.comp, inv.pk, inv.disj⟩
    have hlogm : ∀ id, logical { c with mode := m } pairs id = logical c pairs id := fun _ => rfl
    split
    · split
      · obtain ⟨c', d1, _, _, d4, d5, d6⟩ := decompress_inv _ pairs invm
        refine ⟨c', [], d1, d4, by simp only at d6 ⊢; simp; omega, ?_⟩
        intro m0 _ hlog id
        rw [d5 id, hlogm id, hlog id]; rfl
      · exact ⟨_, pairs, rfl, invm, by simp only; omega, fun m0 _ hlog id => by rw [hlogm id, hlog id]; rfl⟩
    · exact ⟨_, pairs, rfl, invm, by simp only; omega, fun m0 _ hlog id => by rw [hlogm id, hlog id]; rfl⟩

theorem plainStep_keys (m : HotMap) (hk : KeysNodup m) (o : ColOp) : KeysNodup (plainStep m o) := by
  cases o with
  | set id v => exact keysNodup_insert m hk id v
  | remove id => exact keysNodup_remove m hk id
  | compress => exact hk
  | setMode _ => exact hk

theorem run_inv (ops : List ColOp) (c : PCol) (pairs : HotMap) (inv : PInv c pairs) (m0 : HotMap)
    (hk0 : KeysNodup m0) (hlog : ∀ id, logical c pairs id = hmGet m0 id)
    (hb : c.values.length + pairs.length + ops.length < 4294967296) :
    ∃ c' pairs', c.run ops = .ok c' ∧ PInv c' pairs' ∧
      ∀ id, logical c' pairs' id = hmGet (plainRun m0 ops) id := by
  induction ops generalizing c pairs m0 with
  | nil => exact ⟨c, pairs, rfl, inv, hlog⟩
  | cons o os ih =>
    simp only [List.length_cons] at hb
    obtain ⟨c1, p1, s1, s2, s3, s4⟩ := step_inv c pairs inv o (by omega)
    obtain ⟨c', p', r1, r2, r3⟩ := ih c1 p1 s2 (plainStep m0 o) (plainStep_keys m0 hk0 o)
      (s4 m0 hk0 hlog) (by omega)
    refine ⟨c', p', ?_, r2, r3⟩
    unfold PCol.run
    rw [s1]; exact r1

/-- F: a read never depends on the compression mode, on whether or when compression happened, or on
writes made after it: for every sequence of `set`, `remove`, `compress`, `set_compression_mode`
(fewer than 2^32 operations) started in any mode, every `get` returns what the same sequence
returns on a plain map. -/
theorem c15b_propcol_mode_independent (m : CMode) (ops : List ColOp) (hb : ops.length < 4294967296) :
    ∃ c', PCol.run { mode := m } ops = .ok c' ∧ ∀ id, c'.get id = .ok (hmGet (plainRun [] ops) id) := by
  have inv0 : PInv ({ mode := m } : PCol) [] :=
    ⟨List.nodup_nil, rfl, List.nodup_nil, by intro id h; cases h⟩
  obtain ⟨c', p', r1, r2, r3⟩ := run_inv ops { mode := m } [] inv0 [] List.nodup_nil
    (fun id => rfl) (by simpa using hb)
  refine ⟨c', r1, fun id => ?_⟩
  rw [get_logical c' p' r2 id, r3 id]

/-- F: compressing a column and decompressing it restores every value, and while it is compressed
every value stays readable. -/
theorem c15b_propcol_compress_decompress (c : PCol) (hk : KeysNodup c.values) (hn : c.compressed = none)
    (hl : c.values.length < 4294967296) :
    (∀ id, c.compress.get id = .ok (hmGet c.values id)) ∧
    ∃ c', c.compress.decompressAll = .ok c' ∧ c'.compressed = none ∧
      ∀ id, hmGet c'.values id = hmGet c.values id := by
  have inv0 : PInv c [] := ⟨hk, by rw [hn], List.nodup_nil, by intro id h; cases h⟩
  have hlog0 : ∀ id, logical c [] id = hmGet c.values id := by
    intro id; unfold logical; cases hmGet c.values id <;> rfl
  obtain ⟨p', h1, h2, _⟩ := compress_inv c [] inv0 hl
  refine ⟨fun id => by rw [get_logical _ p' h1 id, h2 id, hlog0 id], ?_⟩
  obtain ⟨c', d1, d2, _, _, d5, _⟩ := decompress_inv _ p' h1
  refine ⟨c', d1, d2, fun id => ?_⟩
  have := d5 id
  rw [h2 id, hlog0 id] at this
  rw [← this]
  unfold logical; cases hmGet c'.values id <;> rfl

def intCol (n : Nat) : List ColOp := (List.range n).map (fun i => ColOp.set i (.int (BitVec.ofNat 64 (1000 + i))))

/-- N: the statement is about runs that really compress: eight integers are compressed and stay
readable, and a later write wins over the compressed copy. -/
theorem c15b_propcol_nonvacuity :
    (match PCol.run {} (intCol 8 ++ [.compress]) with
      | .ok c => (c.compressed.isSome, c.get 0)
      | _ => (false, .err)) = (true, .ok (some (.int 1000))) ∧
    (match PCol.run {} (intCol 8 ++ [.compress, .set 3 (.int 7), .setMode .none]) with
      | .ok c => c.get 3
      | _ => .err) = .ok (some (.int 7)) := by decide

/-- eight integers set through the old code -/
def oldCol8 : PCol :=
  (List.range 8).foldl (fun c i => Old.PCol.set c i (.int (BitVec.ofNat 64 (1000 + i)))) {}

/-- W (regression): before the repair `get` looked at the hot buffer only — eight integers and
`force_compress()` made every value unreadable — and `set`/`remove` left the compressed copy in
place, so decompression brought the old value back. -/
theorem c15b_propcol_unreadable_witness :
    Old.PCol.get oldCol8.compress 0 = none ∧
    (match (Old.PCol.set oldCol8.compress 3 (.int 7)).decompressAll with
      | .ok c => Old.PCol.get c 3
      | _ => none) = some (.int 1003) ∧
    (match (Old.PCol.remove oldCol8.compress 3).decompressAll with
      | .ok c => Old.PCol.get c 3
      | _ => none) = some (.int 1003) := by decide

/-! ### compressed adjacency chunks -/

theorem sorted_cons_of_le (a : Nat) (l : List Nat) (hs : Sorted l) (h : ∀ x ∈ l.head?, a ≤ x) : Sorted (a :: l) := by
  cases l with
  | nil => trivial
  | cons b r => exact ⟨h b (by simp), hs⟩

theorem head_insertBy {α : Type} (key : α → Nat) (a : α) (l : List α) :
    (insertBy key a l).head? = some a ∨ (insertBy key a l).head? = l.head? := by
  cases l with
  | nil => left; rfl
  | cons y ys =>
    unfold insertBy
    split
    · left; rfl
    · right; rfl

theorem insertBy_sorted {α : Type} (key : α → Nat) (a : α) (l : List α) (hs : Sorted (l.map key)) :
    Sorted ((insertBy key a l).map key) := by
  induction l with
  | nil => trivial
  | cons y ys ih =>
    unfold insertBy
    split
    · rename_i hle; exact ⟨hle, hs⟩
    · rename_i hnle
      have hys : Sorted (ys.map key) := by
        cases ys with
        | nil => trivial
        | cons z zs => exact hs.2
      have := ih hys
      simp only [List.map_cons]
      apply sorted_cons_of_le _ _ this
      intro x hx
      rw [List.head?_map] at hx
      rcases head_insertBy key a ys with h | h
      · rw [h] at hx; simp at hx; omega
      · rw [h] at hx
        cases ys with
        | nil => simp at hx
        | cons z zs =>
          simp at hx
          have := hs.1
          omega

theorem sortBy_sorted {α : Type} (key : α → Nat) (l : List α) : Sorted ((sortBy key l).map key) := by
  induction l with
  | nil => trivial
  | cons a t ih =>
    unfold sortBy at ih ⊢
    rw [List.foldr_cons]
    exact insertBy_sorted key a _ ih

theorem zip_map_fst_snd {α β : Type} (l : List (α × β)) : List.zip (l.map (·.1)) (l.map (·.2)) = l := by
  induction l with
  | nil => rfl
  | cons x xs ih => simp [ih]

theorem sortByDst_perm (es : List Entry) : (sortByDst es).Perm es := sortBy_perm _ es

/-- F: a compressed adjacency chunk decodes to the chunk's entries, stably sorted by destination —
a permutation of what was stored (also for a single edge to node 0, which used to disappear). -/
theorem c15b_adj_chunk_roundtrip (c : AChunk) (hb : ∀ e ∈ c.entries, e.1 < W ∧ e.2 < W) :
    c.compress.iter = .ok (sortByDst c.entries) ∧ (sortByDst c.entries).Perm c.entries := by
  refine ⟨?_, sortByDst_perm _⟩
  have hmem : ∀ e ∈ sortByDst c.entries, e.1 < W ∧ e.2 < W := fun e he =>
    hb e ((sortByDst_perm c.entries).mem_iff.mp he)
  unfold AChunk.compress CChunk.iter
  simp only
  rw [(c15_delta_bitpacked_roundtrip ((sortByDst c.entries).map (·.1)) (sortBy_sorted _ _)
    (by intro v hv; obtain ⟨e, he, rfl⟩ := List.mem_map.mp hv; exact (hmem e he).1)).1]
  simp only
  rw [c15_unpack_pack _ (by intro v hv; obtain ⟨e, he, rfl⟩ := List.mem_map.mp hv; exact (hmem e he).2)]
  simp only
  rw [zip_map_fst_snd]

/-- `CompressedAdjacencyChunk::iter` over the old `DeltaBitPacked::decode` -/
def Old.chunkIter (c : CChunk) : Res (List Entry) :=
  match Old.DBP.decode c.dsts with
  | .ok ds => (match c.edges.unpack with
    | .ok es => .ok (List.zip ds es)
    | .err => .err
    | .panic => .panic)
  | .err => .err
  | .panic => .panic

/-- W (regression): a chunk holding the single edge `(dst 0, edge 7)` used to decode to nothing —
the edge was lost through the `DeltaBitPacked` emptiness test; now it is kept. -/
theorem c15b_adj_chunk_zero_singleton_witness :
    Old.chunkIter ⟨Old.DBP.encode [0], pack [7], 1⟩ = .ok [] ∧
    (AChunk.mk [(0, 7)] 64).compress.iter = .ok [(0, 7)] ∧
    ((({} : AList).addEdge (0, 7)).compact 64).freezeAll.iter = .ok [(0, 7)] := by decide

/-- N -/
theorem c15b_adj_chunk_nonvacuity : (AChunk.mk [(3, 1), (1, 2), (3, 0), (0, 9)] 64).compress.iter = .ok [(0, 9), (1, 2), (3, 1), (3, 0)] := by
  decide

theorem coldEntries_append (a b : List CChunk) (ea eb : List Entry)
    (ha : coldEntries a = .ok ea) (hb : coldEntries b = .ok eb) : coldEntries (a ++ b) = .ok (ea ++ eb) := by
  induction a generalizing ea with
  | nil => simp only [coldEntries, Res.ok.injEq] at ha; subst ha; simpa using hb
  | cons c cs ih =>
    simp only [List.cons_append, coldEntries] at ha ⊢
    cases hc : c.iter with
    | ok es =>
      rw [hc] at ha
      simp only at ha ⊢
      cases hcs : coldEntries cs with
      | ok r =>
        rw [hcs] at ha
        simp only [Res.ok.injEq] at ha
        rw [ih r hcs]; simp only [Res.ok.injEq]; rw [← ha]; simp
      | err => rw [hcs] at ha; cases ha
      | panic => rw [hcs] at ha; cases ha
    | err => rw [hc] at ha; cases ha
    | panic => rw [hc] at ha; cases ha

theorem coldEntries_compress (hot : List AChunk)
    (hb : ∀ c ∈ hot, ∀ e ∈ c.entries, e.1 < W ∧ e.2 < W) :
    ∃ es, coldEntries (hot.map AChunk.compress) = .ok es ∧ es.Perm (hot.map (·.entries)).flatten := by
  induction hot with
  | nil => exact ⟨[], rfl, List.Perm.refl _⟩
  | cons c cs ih =>
    obtain ⟨es, h1, h2⟩ := ih (fun c' hc' => hb c' (List.mem_cons_of_mem _ hc'))
    obtain ⟨g1, g2⟩ := c15b_adj_chunk_roundtrip c (hb c (by simp))
    refine ⟨sortByDst c.entries ++ es, ?_, ?_⟩
    · simp only [List.map_cons, coldEntries, g1, h1]
    · simp only [List.map_cons, List.flatten_cons]
      exact List.Perm.append g2 h2

/-- F: `freeze_all` (compress every hot chunk) keeps the edge list of a node up to order. -/
theorem c15b_adj_freeze (l : AList) (es : List Entry) (h : l.iter = .ok es)
    (hb : ∀ c ∈ l.hot, ∀ e ∈ c.entries, e.1 < W ∧ e.2 < W) :
    ∃ es', l.freezeAll.iter = .ok es' ∧ es'.Perm es := by
  unfold AList.iter at h
  cases hc : coldEntries l.cold with
  | ok ce =>
    rw [hc] at h
    simp only [Res.ok.injEq] at h
    obtain ⟨ne, h1, h2⟩ := coldEntries_compress (l.hot.filter (fun c => c.entries.length > 0))
      (fun c hc' => hb c (List.mem_filter.mp hc').1)
    unfold AList.freezeAll AList.iter
    simp only
    rw [coldEntries_append _ _ ce ne hc h1]
    simp only [List.map_nil, List.flatten_nil, List.append_nil]
    refine ⟨_, rfl, ?_⟩
    rw [← h]
    apply List.Perm.filter
    -- dropping empty chunks does not change the concatenation
    have hflat : ((l.hot.filter (fun c => c.entries.length > 0)).map (·.entries)).flatten =
        (l.hot.map (·.entries)).flatten := by
      clear h hb h1 h2 hc
      induction l.hot with
      | nil => rfl
      | cons c cs ih =>
        simp only [List.filter_cons]
        split
        · simp only [List.map_cons, List.flatten_cons, ih]
        · rename_i hlen
          have : c.entries = [] := by
            apply List.length_eq_zero_iff.mp
            simpa using hlen
          simp only [List.map_cons, List.flatten_cons, ih, this, List.nil_append]
    rw [hflat] at h2
    rw [List.append_assoc, List.append_assoc]
    apply List.Perm.append_left
    exact List.Perm.append_right _ h2
  | err => rw [hc] at h; cases h
  | panic => rw [hc] at h; cases h


/-! ### succinct bit vector: what `from_bitvec` builds -/

-- `omega` needs this for coefficients such as 512 and 4096
set_option maxRecDepth 40000


/-- ones among the valid bits of the first `k` words -/
def cum (data : List Nat) (len k : Nat) : Nat := onesBelow data (min (64 * k) len)

theorem cum_zero (data : List Nat) (len : Nat) : cum data len 0 = 0 := by
  simp [cum, onesBelow_zero]

theorem cum_mono (data : List Nat) (len a b : Nat) (h : a ≤ b) : cum data len a ≤ cum data len b := by
  unfold cum; apply onesBelow_mono; omega

theorem cum_step (data : List Nat) (len k w : Nat) (hw : data[k]? = some w) :
    cum data len k + wordOnes len k w = cum data len (k + 1) := by
  have hgd : data.getD k 0 = w := by simp [List.getD, hw]
  unfold cum wordOnes bitsInWord
  by_cases hA : k * 64 + 64 ≤ len
  · rw [if_pos hA, if_pos rfl]
    rw [Nat.min_eq_left (by omega), Nat.min_eq_left (by omega), onesBelow_fullword, hgd]
  · rw [if_neg hA]
    have hr : len - k * 64 ≠ 64 := by omega
    rw [if_neg hr]
    by_cases hB : 64 * k ≤ len
    · rw [Nat.min_eq_left hB, Nat.min_eq_right (by omega)]
      have : len = 64 * k + (len - k * 64) := by omega
      conv => rhs; rw [this]
      rw [onesBelow_word _ _ _ (by omega), hgd]
    · have : len - k * 64 = 0 := by omega
      rw [this, Nat.min_eq_right (by omega), Nat.min_eq_right (by omega)]
      simp [popcount, popF]

theorem wordOnes_le (len k w : Nat) : wordOnes len k w ≤ bitsInWord len k := by
  unfold wordOnes
  have hb : bitsInWord len k ≤ 64 := by unfold bitsInWord; split <;> omega
  split
  · rename_i h; rw [h, popcount_eq]
    have := List.countP_le_length (p := fun j => w.testBit j) (l := List.range 64)
    simpa using this
  · rw [popcount_mask _ _ hb]
    have := List.countP_le_length (p := fun j => w.testBit j) (l := List.range (bitsInWord len k))
    simpa using this

/-- the valid-bit count of the first `k` words -/
theorem bits_step (len k : Nat) : min (64 * k) len + bitsInWord len k = min (64 * (k + 1)) len := by
  unfold bitsInWord; split <;> omega

theorem pushSamples_spec (f : Nat) (s : List Nat) (next bp : Nat) (hf : next ≤ s.length * 4096 + f * 4096) :
    ∃ m, pushSamples f s next bp = s ++ List.replicate m (bp % 4294967296) ∧
      next ≤ (s.length + m) * 4096 ∧ (m > 0 → s.length * 4096 < next) := by
  induction f generalizing s with
  | zero =>
    refine ⟨0, by simp [pushSamples], by omega, by omega⟩
  | succ f ih =>
    unfold pushSamples selectSampleRate
    split
    · rename_i hlt
      obtain ⟨m, h1, h2, _⟩ := ih (s ++ [bp % 4294967296]) (by simp; omega)
      refine ⟨m + 1, ?_, ?_, fun _ => hlt⟩
      · rw [h1, List.append_assoc]; congr 1
      · simp at h2; omega
    · exact ⟨0, by simp, by omega, by omega⟩

/-- ones from the start of a block's superblock to the block's start -/
def relRank (data : List Nat) (len b : Nat) : Nat := cum data len b - cum data len (8 * (b / 8))

theorem cum_diff_le (data : List Nat) (len a b : Nat) (h : a ≤ b) :
    cum data len b ≤ cum data len a + 64 * (b - a) := by
  unfold cum
  have e : min (64 * b) len = min (64 * a) len + (min (64 * b) len - min (64 * a) len) := by omega
  rw [e, onesBelow_add]
  have := List.countP_le_length (p := fun j => bitmapNull data (min (64 * a) len + j))
    (l := List.range (min (64 * b) len - min (64 * a) len))
  simp only [List.length_range] at this
  omega

/-- the relative rank fits the nine bits it is stored in -/
theorem relRank_lt (data : List Nat) (len b : Nat) : relRank data len b < 512 := by
  unfold relRank
  have := cum_diff_le data len (8 * (b / 8)) b (by omega)
  omega

/-- the packed block-rank words after `k` blocks -/
def BrInv (data : List Nat) (len : Nat) (br : List Nat) (k : Nat) : Prop :=
  br.length = (k + 7) / 8 ∧
  ∀ j w, br[j]? = some w → ∀ t, w.testBit t =
    (decide (8 * j + t / 9 + 1 < k) && decide (t / 9 < 7) &&
      (relRank data len (8 * j + t / 9 + 1)).testBit (t % 9))

theorem BrInv.init (data : List Nat) (len : Nat) : BrInv data len [] 0 :=
  ⟨rfl, by intro j w h; simp at h⟩

theorem BrInv.step (data : List Nat) (len : Nat) (br : List Nat) (k : Nat) (h : BrInv data len br k) :
    BrInv data len (packRank (if k % 8 = 0 then br ++ [0] else br) (k % 8) (relRank data len k)) (k + 1) := by
  obtain ⟨hlen, hbits⟩ := h
  by_cases h8 : k % 8 = 0
  · -- a new superblock: a fresh zero word
    rw [if_pos h8]
    unfold packRank
    rw [if_neg (by omega)]
    refine ⟨by simp [hlen]; omega, ?_⟩
    intro j w hj t
    by_cases hjl : j < br.length
    · rw [List.getElem?_append_left hjl] at hj
      rw [hbits j w hj t]
      by_cases h7 : t / 9 < 7
      · have a1 : 8 * j + t / 9 + 1 < k := by omega
        have a2 : 8 * j + t / 9 + 1 < k + 1 := by omega
        simp [a1, a2, h7]
      · simp [h7]
    · rw [List.getElem?_append_right (by omega)] at hj
      have : j - br.length = 0 := by
        apply Classical.byContradiction; intro hn
        have : j - br.length = (j - br.length - 1) + 1 := by omega
        rw [this] at hj; simp at hj
      rw [this] at hj
      simp at hj
      subst hj
      have : ¬ 8 * j + t / 9 + 1 < k + 1 := by omega
      simp [this]
  · rw [if_neg h8]
    unfold packRank
    rw [if_pos (by omega)]
    refine ⟨by simp [hlen]; omega, ?_⟩
    intro j w hj t
    rw [List.getElem?_modify] at hj
    cases hw : br[j]? with
    | none => rw [hw] at hj; simp at hj
    | some w0 =>
      rw [hw] at hj
      simp only [Option.map_eq_map, Option.map_some, Option.some.injEq] at hj
      have hjl : j < br.length := by
        apply Classical.byContradiction; intro hn
        rw [List.getElem?_eq_none (by omega)] at hw; cases hw
      have hold := hbits j w0 hw t
      by_cases hlast : br.length - 1 = j
      · rw [if_pos hlast] at hj
        subst hj
        have hj8 : j = k / 8 := by omega
        have hrel := relRank_lt data len k
        have hsh : relRank data len k <<< (9 * (k % 8 - 1)) < W := by
          rw [Nat.shiftLeft_eq, W_eq2]
          calc relRank data len k * 2 ^ (9 * (k % 8 - 1)) < 2 ^ 9 * 2 ^ (9 * (k % 8 - 1)) :=
                Nat.mul_lt_mul_of_lt_of_le hrel (Nat.le_refl _) (Nat.two_pow_pos _)
            _ = 2 ^ (9 + 9 * (k % 8 - 1)) := (Nat.pow_add 2 9 _).symm
            _ ≤ 2 ^ 64 := Nat.pow_le_pow_right (by decide) (by omega)
        rw [Nat.mod_eq_of_lt hsh, Nat.testBit_or, hold, Nat.testBit_shiftLeft]
        by_cases hslot : t / 9 = k % 8 - 1
        · -- the field written now
          have a1 : ¬ 8 * j + t / 9 + 1 < k := by omega
          have a2 : 8 * j + t / 9 + 1 < k + 1 := by omega
          have a3 : t / 9 < 7 := by omega
          have a4 : t ≥ 9 * (k % 8 - 1) := by omega
          have a5 : t - 9 * (k % 8 - 1) = t % 9 := by omega
          have a6 : 8 * j + t / 9 + 1 = k := by omega
          simp [a1, a2, a3, a4, a5, a6]
        · have hz : (decide (t ≥ 9 * (k % 8 - 1)) && (relRank data len k).testBit (t - 9 * (k % 8 - 1))) = false := by
            by_cases hge : t ≥ 9 * (k % 8 - 1)
            · have : (relRank data len k).testBit (t - 9 * (k % 8 - 1)) = false := by
                apply Nat.testBit_lt_two_pow
                exact Nat.lt_of_lt_of_le hrel (by
                  have : (512 : Nat) = 2 ^ 9 := by decide
                  rw [this]; exact Nat.pow_le_pow_right (by decide) (by omega))
              simp [this]
            · simp [hge]
          rw [hz, Bool.or_false]
          by_cases h7 : t / 9 < 7
          · have : (8 * j + t / 9 + 1 < k) ↔ (8 * j + t / 9 + 1 < k + 1) := by omega
            simp [this]
          · simp [h7]
      · rw [if_neg hlast] at hj
        subst hj
        rw [hold]
        by_cases h7 : t / 9 < 7
        · have a1 : 8 * j + t / 9 + 1 < k := by omega
          have a2 : 8 * j + t / 9 + 1 < k + 1 := by omega
          simp [a1, a2, h7]
        · simp [h7]

/-- `block_rank(b)` is exactly the relative rank of block `b` -/
theorem BrInv.blockRank_eq (data : List Nat) (len : Nat) (br : List Nat) (k : Nat) (h : BrInv data len br k)
    (b : Nat) (hb : b < k) : Grafeo.Codec2.blockRank br b = relRank data len b := by
  obtain ⟨hlen, hbits⟩ := h
  unfold Grafeo.Codec2.blockRank
  by_cases h8 : b % 8 = 0
  · rw [if_pos h8]
    unfold relRank
    have : 8 * (b / 8) = b := by omega
    rw [this]; omega
  · rw [if_neg h8]
    have hjl : b / 8 < br.length := by omega
    rw [List.getElem?_eq_getElem hjl]
    simp only
    apply Nat.eq_of_testBit_eq
    intro t
    have h511 : (511 : Nat) = 2 ^ 9 - 1 := by decide
    rw [Nat.testBit_and, Nat.testBit_shiftRight, h511, Nat.testBit_two_pow_sub_one,
      hbits (b / 8) _ (List.getElem?_eq_getElem hjl)]
    by_cases ht : t < 9
    · have a1 : (9 * (b % 8 - 1) + t) / 9 = b % 8 - 1 := by omega
      have a2 : (9 * (b % 8 - 1) + t) % 9 = t := by omega
      have a3 : 8 * (b / 8) + (b % 8 - 1) + 1 = b := by omega
      have a4 : b % 8 - 1 < 7 := by omega
      rw [a1, a2, a3]
      simp [hb, a4, ht]
    · have : (relRank data len b).testBit t = false := by
        apply Nat.testBit_lt_two_pow
        exact Nat.lt_of_lt_of_le (relRank_lt data len b) (by
          have : (512 : Nat) = 2 ^ 9 := by decide
          rw [this]; exact Nat.pow_le_pow_right (by decide) (by omega))
      simp [ht, this]

/-- closed form of the loop state after `k` words -/
structure SbvInv (data : List Nat) (len : Nat) (st : SbvSt) (k : Nat) : Prop where
  ones : st.ones = cum data len k
  zeros : st.zeros = min (64 * k) len - cum data len k
  sb : st.sb = (List.range ((k + 7) / 8)).map (fun j => cum data len (8 * j))
  br : BrInv data len st.br k
  sbStart : k > 0 → st.sbStart = cum data len (8 * ((k - 1) / 8))
  s1len : st.ones ≤ st.s1.length * 4096
  s1 : ∀ j x, st.s1[j]? = some x → ∃ b, b < k ∧ x = (64 * b) % 4294967296 ∧ cum data len b ≤ 4096 * j
  s0len : st.zeros ≤ st.s0.length * 4096
  s0 : ∀ j x, st.s0[j]? = some x → ∃ b, b < k ∧ x = (64 * b) % 4294967296 ∧
        min (64 * b) len - cum data len b ≤ 4096 * j

theorem cum_le_bits (data : List Nat) (len k : Nat) : cum data len k ≤ min (64 * k) len := by
  unfold cum onesBelow
  have := List.countP_le_length (p := bitmapNull data) (l := List.range (min (64 * k) len))
  simpa using this

theorem SbvInv.init (data : List Nat) (len : Nat) : SbvInv data len {} 0 where
  ones := by simp [cum_zero]
  zeros := by simp
  sb := by simp
  br := BrInv.init data len
  sbStart := by intro h; omega
  s1len := by simp
  s1 := by intro j x h; simp at h
  s0len := by simp
  s0 := by intro j x h; simp at h

theorem SbvInv.step (data : List Nat) (len : Nat) (st : SbvSt) (k w : Nat)
    (inv : SbvInv data len st k) (hw : data[k]? = some w) :
    SbvInv data len (sbvStep len st k w) (k + 1) := by
  obtain ⟨hones, hzeros, hsb, hbr, hstart, hs1l, hs1, hs0l, hs0⟩ := inv
  have hcs := cum_step data len k w hw
  have hwo := wordOnes_le len k w
  have hbs := bits_step len k
  have hcb := cum_le_bits data len k
  have hstart' : (if k % 8 = 0 then st.ones else st.sbStart) = cum data len (8 * (k / 8)) := by
    by_cases h8 : k % 8 = 0
    · rw [if_pos h8, hones]; congr 1; omega
    · rw [if_neg h8, hstart (by omega)]; congr 2; omega
  have hb64 : bitsInWord len k ≤ 64 := by unfold bitsInWord; split <;> omega
  -- sample pushes
  obtain ⟨m1, e1, l1, p1⟩ := pushSamples_spec 64 st.s1 (st.ones + wordOnes len k w) (k * 64) (by omega)
  obtain ⟨m0, e0, l0, p0⟩ := pushSamples_spec 64 st.s0
    (st.zeros + (bitsInWord len k - wordOnes len k w)) (k * 64) (by omega)
  refine ⟨?_, ?_, ?_, ?_, ?_, ?_, ?_, ?_, ?_⟩
  · simp only [sbvStep]; rw [hones]; exact hcs
  · simp only [sbvStep]; rw [hzeros]; omega
  · simp only [sbvStep]
    by_cases h8 : k % 8 = 0
    · rw [if_pos h8, hsb, hones]
      have e : (k + 1 + 7) / 8 = (k + 7) / 8 + 1 := by omega
      rw [e, List.range_succ, List.map_append]
      congr 1
      simp only [List.map_cons, List.map_nil]
      congr 2; omega
    · rw [if_neg h8, hsb]
      have e : (k + 1 + 7) / 8 = (k + 7) / 8 := by omega
      rw [e]
  · simp only [sbvStep]
    rw [hstart', hones]
    exact BrInv.step data len st.br k hbr
  · intro _
    simp only [sbvStep, Nat.add_sub_cancel]
    exact hstart'
  · simp only [sbvStep]; rw [e1]; simp only [List.length_append, List.length_replicate]; omega
  · intro j x hj
    simp only [sbvStep] at hj
    rw [e1] at hj
    by_cases hjl : j < st.s1.length
    · rw [List.getElem?_append_left hjl] at hj
      obtain ⟨b, hb1, hb2, hb3⟩ := hs1 j x hj
      exact ⟨b, by omega, hb2, hb3⟩
    · rw [List.getElem?_append_right (by omega)] at hj
      have := List.getElem?_eq_some_iff.mp hj
      obtain ⟨hlt, hx⟩ := this
      simp only [List.getElem_replicate] at hx
      refine ⟨k, by omega, by rw [← hx]; congr 1; omega, ?_⟩
      rw [← hones]; omega
  · simp only [sbvStep]; rw [e0]; simp only [List.length_append, List.length_replicate]; omega
  · intro j x hj
    simp only [sbvStep] at hj
    rw [e0] at hj
    by_cases hjl : j < st.s0.length
    · rw [List.getElem?_append_left hjl] at hj
      obtain ⟨b, hb1, hb2, hb3⟩ := hs0 j x hj
      exact ⟨b, by omega, hb2, hb3⟩
    · rw [List.getElem?_append_right (by omega)] at hj
      have := List.getElem?_eq_some_iff.mp hj
      obtain ⟨hlt, hx⟩ := this
      simp only [List.getElem_replicate] at hx
      refine ⟨k, by omega, by rw [← hx]; congr 1; omega, ?_⟩
      rw [← hzeros]; omega

theorem SbvInv.loop (data : List Nat) (len : Nat) (ws : List Nat) (st : SbvSt) (k : Nat)
    (inv : SbvInv data len st k) (hws : ∀ i, ws[i]? = data[k + i]?) (hk : k + ws.length = data.length) :
    SbvInv data len (sbvLoop len st k ws) data.length := by
  induction ws generalizing st k with
  | nil => simp at hk; subst hk; exact inv
  | cons w ws ih =>
    unfold sbvLoop
    apply ih
    · apply inv.step
      have := hws 0; simp at this; exact this.symm
    · intro i
      have := hws (i + 1)
      simp only [List.getElem?_cons_succ] at this
      rw [this]; congr 1; omega
    · simp at hk; omega

theorem sbv_inv (v : BVec) : SbvInv v.data v.len (sbvLoop v.len {} 0 v.data) v.data.length :=
  SbvInv.loop v.data v.len v.data {} 0 (SbvInv.init _ _) (by intro i; simp) (by simp)


set_option maxRecDepth 40000

theorem ofBVec_inner (v : BVec) : (SBV.ofBVec v).inner = v := rfl
/-- the stored block ranks are exact: nine bits hold every value up to 448 -/
theorem ofBVec_blockRank (v : BVec) (b : Nat) (hb : b < v.data.length) :
    blockRank (SBV.ofBVec v).blockRanks b = cum v.data v.len b - cum v.data v.len (8 * (b / 8)) :=
  BrInv.blockRank_eq v.data v.len _ _ (sbv_inv v).br b hb
theorem ofBVec_ones (v : BVec) : (SBV.ofBVec v).onesCount = cum v.data v.len v.data.length := (sbv_inv v).ones

theorem ofBVec_sb (v : BVec) (j : Nat) (hj : j < (v.data.length + 7) / 8) :
    (SBV.ofBVec v).superblockRanks[j]? = some (cum v.data v.len (8 * j)) := by
  have hsb := (sbv_inv v).sb
  have hl : (sbvLoop v.len {} 0 v.data).sb.length = (v.data.length + 7) / 8 := by rw [hsb]; simp
  have hget : (sbvLoop v.len {} 0 v.data).sb[j]? = some (cum v.data v.len (8 * j)) := by
    rw [hsb, List.getElem?_map, List.getElem?_range hj]; rfl
  unfold SBV.ofBVec
  simp only
  split
  · rw [List.getElem?_append_left (by omega)]; exact hget
  · exact hget

theorem cum_full (v : BVec) (hw : v.WF) : cum v.data v.len v.data.length = onesBelow v.data v.len := by
  unfold cum
  have := hw.1
  unfold nWords at this
  rw [Nat.min_eq_right (by omega)]

theorem onesBelow_le (data : List Nat) (n : Nat) : onesBelow data n ≤ n := by
  unfold onesBelow
  have := List.countP_le_length (p := bitmapNull data) (l := List.range n)
  simpa using this

/-- `rank1` of the index built over a well-formed vector, when no block rank was truncated -/
theorem rank1_correct (v : BVec) (hw : v.WF) (pos : Nat) :
    (SBV.ofBVec v).rank1 pos = .ok (onesBelow v.data (min pos v.len)) := by
  unfold SBV.rank1
  rw [ofBVec_inner]
  by_cases h0 : pos = 0
  · rw [if_pos h0, h0]; simp [onesBelow_zero]
  · rw [if_neg h0]
    by_cases hge : pos ≥ v.len
    · rw [if_pos hge, ofBVec_ones, cum_full v hw, Nat.min_eq_right hge]
    · rw [if_neg hge, Nat.min_eq_left (by omega)]
      have hlen := hw.1
      unfold nWords at hlen
      obtain ⟨b, r, hp, hr64⟩ : ∃ b r, pos = 64 * b + r ∧ r < 64 := ⟨pos / 64, pos % 64, by omega, by omega⟩
      have e1 : pos / 64 = b := by omega
      have e2 : pos % 64 = r := by omega
      have e3 : pos / 512 = b / 8 := by omega
      rw [e1, e2, e3]
      have hb : b < v.data.length := by omega
      rw [ofBVec_sb v (b / 8) (by omega)]
      simp only
      rw [ofBVec_blockRank v b hb]
      have hmono := cum_mono v.data v.len (8 * (b / 8)) b (by omega)
      have hcb : cum v.data v.len b = onesBelow v.data (64 * b) := by
        unfold cum; rw [Nat.min_eq_left (by omega)]
      have hsum : cum v.data v.len (8 * (b / 8)) +
          (cum v.data v.len b - cum v.data v.len (8 * (b / 8))) = onesBelow v.data (64 * b) := by
        omega
      rw [hsum, hp]
      by_cases hr : r > 0
      · rw [if_pos ⟨hr, hb⟩, onesBelow_word _ _ _ (by omega)]
      · rw [if_neg (by omega)]
        have : r = 0 := by omega
        rw [this, Nat.add_zero]

theorem rank0_correct (v : BVec) (hw : v.WF) (pos : Nat) :
    (SBV.ofBVec v).rank0 pos = .ok (min pos v.len - onesBelow v.data (min pos v.len)) := by
  unfold SBV.rank0
  rw [ofBVec_inner, rank1_correct v hw]
  simp only [Nat.min_assoc, Nat.min_self]
  unfold usub
  rw [if_neg (by have := onesBelow_le v.data (min pos v.len); omega)]

theorem take_map_range {α : Type} (f : Nat → α) (n pos : Nat) :
    ((List.range n).map f).take pos = (List.range (min pos n)).map f := by
  rw [← List.map_take, List.take_range]

theorem specRank_true (f : Nat → Bool) (n pos : Nat) :
    Spec.rank true ((List.range n).map f) pos = (List.range (min pos n)).countP f := by
  unfold Spec.rank
  rw [take_map_range, List.countP_eq_length_filter, List.filter_map, List.length_map]
  congr 2
  funext x; simp

theorem specRank_false (f : Nat → Bool) (n pos : Nat) :
    Spec.rank false ((List.range n).map f) pos = min pos n - (List.range (min pos n)).countP f := by
  unfold Spec.rank
  rw [take_map_range, List.filter_map, List.length_map]
  have h := List.length_eq_countP_add_countP (p := f) (l := List.range (min pos n))
  rw [List.length_range] at h
  rw [List.countP_eq_length_filter (p := fun a => decide ¬f a = true)] at h
  have e : (List.filter (fun a => decide ¬f a = true) (List.range (min pos n))) =
      (List.filter ((fun x => x == false) ∘ f) (List.range (min pos n))) := by
    congr 1; funext x; simp only [Function.comp]; cases f x <;> simp
  rw [← e]; omega

/-- F: `rank1(pos)` is the number of ones and `rank0(pos)` the number of zeros among the first `pos`
bits (the whole vector for `pos ≥ len`) — for every well-formed bit vector: the relative block ranks
are at most 448 and are stored in nine bits, so none is truncated. -/
theorem c15b_sbv_rank (v : BVec) (hw : v.WF) (bs : List Bool)
    (hb : v.toBools = .ok bs) (pos : Nat) :
    (SBV.ofBVec v).rank1 pos = .ok (Spec.rank true bs pos) ∧
    (SBV.ofBVec v).rank0 pos = .ok (Spec.rank false bs pos) := by
  rw [toBools_wf v hw] at hb
  cases hb
  rw [rank1_correct v hw, rank0_correct v hw, specRank_true, specRank_false]
  exact ⟨rfl, rfl⟩

/-- W (regression): with the block ranks stored as `u8`, in 321 set bits the fifth block starts 256
ones into its superblock, `256 as u8` is 0, and `rank1(300)` answered 44; now it answers 300. -/
theorem c15b_sbv_rank_trunc_witness :
    Old.rank1 (BVec.fromBools (List.replicate 321 true)) 300 = .ok 44 ∧
    Spec.rank true (List.replicate 321 true) 300 = 300 ∧
    (SBV.ofBVec (BVec.fromBools (List.replicate 321 true))).rank1 300 = .ok 300 := by
  refine ⟨by decide +kernel, by decide +kernel, by decide +kernel⟩

/-! ### `select_in_word` -/

/-- number of indices below `a` satisfying `P` -/
def cnt (P : Nat → Bool) (a : Nat) : Nat := (List.range a).countP P

theorem cnt_succ (P : Nat → Bool) (a : Nat) : cnt P (a + 1) = cnt P a + (if P a then 1 else 0) := by
  unfold cnt
  rw [List.range_succ, List.countP_append]
  simp [List.countP_cons]

theorem cnt_zero (P : Nat → Bool) : cnt P 0 = 0 := rfl

theorem cnt_mono (P : Nat → Bool) (a b : Nat) (h : a ≤ b) : cnt P a ≤ cnt P b := by
  induction b with
  | zero => have : a = 0 := by omega
            subst this; exact Nat.le_refl _
  | succ b ih =>
    by_cases hab : a = b + 1
    · subst hab; exact Nat.le_refl _
    · have := ih (by omega)
      rw [cnt_succ]; omega

theorem cnt_add (P : Nat → Bool) (a b : Nat) : cnt P (a + b) = cnt P a + cnt (fun j => P (a + j)) b := by
  induction b with
  | zero => simp [cnt_zero]
  | succ b ih => rw [← Nat.add_assoc, cnt_succ, ih, cnt_succ]; omega

theorem cnt_congr (P Q : Nat → Bool) (a : Nat) (h : ∀ j, j < a → P j = Q j) : cnt P a = cnt Q a := by
  unfold cnt
  apply List.countP_congr
  intro j hj
  have := h j (List.mem_range.mp hj)
  simp [this]

theorem shiftRight_mod2 (w j : Nat) : ((w >>> j) % 2 = 1) ↔ w.testBit j = true := by
  rw [Nat.testBit_eq_decide_div_mod_eq, Nat.shiftRight_eq_div_pow]; simp

/-- the bit scan finds the `remaining`-th set bit at or after `bit` -/
theorem selectInByte_spec (byte : Nat) (n bit remaining : Nat) (hn : bit + n = 8)
    (hr : remaining < cnt (fun j => byte.testBit j) 8 - cnt (fun j => byte.testBit j) bit) :
    ∃ t, selectInByte byte n bit remaining = some t ∧ t < 8 ∧ byte.testBit t = true ∧
      cnt (fun j => byte.testBit j) t = cnt (fun j => byte.testBit j) bit + remaining := by
  induction n generalizing bit remaining with
  | zero =>
    have : bit = 8 := by omega
    subst this; omega
  | succ n ih =>
    unfold selectInByte
    have hcs := cnt_succ (fun j => byte.testBit j) bit
    by_cases hb : byte.testBit bit = true
    · rw [if_pos ((shiftRight_mod2 byte bit).mpr hb)]
      simp only [hb, if_true] at hcs
      by_cases h0 : remaining = 0
      · rw [if_pos h0]
        exact ⟨bit, rfl, by omega, hb, by omega⟩
      · rw [if_neg h0]
        obtain ⟨t, h1, h2, h3, h4⟩ := ih (bit + 1) (remaining - 1) (by omega) (by omega)
        exact ⟨t, h1, h2, h3, by omega⟩
    · have hbf : byte.testBit bit = false := by simpa using hb
      rw [if_neg (fun h => hb ((shiftRight_mod2 byte bit).mp h))]
      simp only [hbf, Bool.false_eq_true, if_false, Nat.add_zero] at hcs
      obtain ⟨t, h1, h2, h3, h4⟩ := ih (bit + 1) remaining (by omega) (by omega)
      exact ⟨t, h1, h2, h3, by omega⟩

theorem byte_testBit (word byteIdx t : Nat) (ht : t < 8) :
    ((word >>> (byteIdx * 8)) % 256).testBit t = word.testBit (byteIdx * 8 + t) := by
  have : (256 : Nat) = 2 ^ 8 := by decide
  rw [this, Nat.testBit_mod_two_pow, Nat.testBit_shiftRight]
  simp [ht]

theorem byte_testBit_hi (word byteIdx t : Nat) (ht : 8 ≤ t) :
    ((word >>> (byteIdx * 8)) % 256).testBit t = false := by
  have : (256 : Nat) = 2 ^ 8 := by decide
  rw [this, Nat.testBit_mod_two_pow]
  simp; omega

/-- popcount of byte `byteIdx` of the word = its share of the word's set bits -/
theorem popcount_byte (word byteIdx : Nat) :
    popcount ((word >>> (byteIdx * 8)) % 256) =
      cnt (fun j => word.testBit j) (byteIdx * 8 + 8) - cnt (fun j => word.testBit j) (byteIdx * 8) := by
  rw [popcount_eq]
  have h1 : (List.range 64).countP (fun j => ((word >>> (byteIdx * 8)) % 256).testBit j) =
      cnt (fun j => ((word >>> (byteIdx * 8)) % 256).testBit j) (8 + 56) := rfl
  rw [h1, cnt_add]
  have h2 : cnt (fun j => ((word >>> (byteIdx * 8)) % 256).testBit (8 + j)) 56 = 0 := by
    unfold cnt
    rw [List.countP_eq_zero]
    intro j _
    simp [byte_testBit_hi word byteIdx (8 + j) (by omega)]
  rw [h2, Nat.add_zero, cnt_add (fun j => word.testBit j) (byteIdx * 8) 8]
  have h3 : cnt (fun j => ((word >>> (byteIdx * 8)) % 256).testBit j) 8 =
      cnt (fun j => word.testBit (byteIdx * 8 + j)) 8 :=
    cnt_congr _ _ 8 (fun j hj => byte_testBit word byteIdx j hj)
  rw [h3]; omega

/-- the byte loop finds the `r`-th set bit of the word -/
theorem selectBytes_spec (word : Nat) (n byteIdx remaining r : Nat) (hn : byteIdx + n = 8)
    (hrem : cnt (fun j => word.testBit j) (byteIdx * 8) + remaining = r)
    (hr : r < cnt (fun j => word.testBit j) 64) :
    ∃ j, selectBytes word n byteIdx remaining = .ok (some j) ∧ j < 64 ∧ word.testBit j = true ∧
      cnt (fun j => word.testBit j) j = r := by
  induction n generalizing byteIdx remaining with
  | zero =>
    have : byteIdx = 8 := by omega
    subst this
    simp only [Nat.reduceMul] at hrem
    omega
  | succ n ih =>
    unfold selectBytes
    simp only
    have hpb := popcount_byte word byteIdx
    have hmono := cnt_mono (fun j => word.testBit j) (byteIdx * 8) (byteIdx * 8 + 8) (by omega)
    by_cases hlt : remaining < popcount ((word >>> (byteIdx * 8)) % 256)
    · rw [if_pos hlt]
      -- the byte's own counting function
      have hc8 : cnt (fun j => ((word >>> (byteIdx * 8)) % 256).testBit j) 8 =
          popcount ((word >>> (byteIdx * 8)) % 256) := by
        rw [hpb, cnt_add (fun j => word.testBit j) (byteIdx * 8) 8]
        have : cnt (fun j => ((word >>> (byteIdx * 8)) % 256).testBit j) 8 =
            cnt (fun j => word.testBit (byteIdx * 8 + j)) 8 :=
          cnt_congr _ _ 8 (fun j hj => byte_testBit word byteIdx j hj)
        rw [this]; omega
      obtain ⟨t, h1, h2, h3, h4⟩ := selectInByte_spec ((word >>> (byteIdx * 8)) % 256) 8 0 remaining rfl
        (by rw [cnt_zero, hc8]; omega)
      rw [h1]
      simp only
      refine ⟨byteIdx * 8 + t, rfl, by omega, ?_, ?_⟩
      · rw [← byte_testBit word byteIdx t h2]; exact h3
      · rw [cnt_add (fun j => word.testBit j) (byteIdx * 8) t]
        have : cnt (fun j => word.testBit (byteIdx * 8 + j)) t =
            cnt (fun j => ((word >>> (byteIdx * 8)) % 256).testBit j) t :=
          cnt_congr _ _ t (fun j hj => (byte_testBit word byteIdx j (by omega)).symm)
        rw [this, h4, cnt_zero]; omega
    · rw [if_neg hlt]
      apply ih (byteIdx + 1) (remaining - popcount ((word >>> (byteIdx * 8)) % 256)) (by omega)
      rw [show (byteIdx + 1) * 8 = byteIdx * 8 + 8 by omega]
      omega

/-- `select_in_word(word, r)` is the position of the `r`-th set bit among the lowest 64 -/
theorem selectInWord_spec (word r : Nat) (hr : r < cnt (fun j => word.testBit j) 64) :
    ∃ j, selectInWord word r = .ok (some j) ∧ j < 64 ∧ word.testBit j = true ∧
      cnt (fun j => word.testBit j) j = r := by
  unfold selectInWord
  have hp : popcount word = cnt (fun j => word.testBit j) 64 := popcount_eq word
  rw [if_neg (by omega)]
  exact selectBytes_spec word 8 0 r r rfl (by simp [cnt_zero]) hr


set_option maxRecDepth 40000

/-! ### `select1` -/

theorem bsSuper_spec (sb : List Nat) (target : Nat) (f lo hi : Nat)
    (hlo : lo < hi) (hhi : hi ≤ sb.length) (hf : hi - lo ≤ f)
    (h1 : ∃ x, sb[lo]? = some x ∧ x < target)
    (h2 : hi = sb.length ∨ ∃ y, sb[hi]? = some y ∧ target ≤ y) :
    ∃ r, bsSuper sb target f lo hi = .ok r ∧ r < hi ∧ (∃ x, sb[r]? = some x ∧ x < target) ∧
      (r + 1 = sb.length ∨ ∃ y, sb[r + 1]? = some y ∧ target ≤ y) := by
  induction f generalizing lo hi with
  | zero => omega
  | succ f ih =>
    unfold bsSuper
    by_cases hlt : lo + 1 < hi
    · rw [if_pos hlt]
      have hmid : lo + (hi - lo) / 2 < sb.length := by omega
      rw [List.getElem?_eq_getElem hmid]
      simp only
      by_cases hr : sb[lo + (hi - lo) / 2] < target
      · rw [if_pos hr]
        exact ih (lo + (hi - lo) / 2) hi (by omega) hhi (by omega)
          ⟨_, List.getElem?_eq_getElem hmid, hr⟩ h2
      · rw [if_neg hr]
        obtain ⟨r, g1, g2, g3, g4⟩ := ih lo (lo + (hi - lo) / 2) (by omega) (by omega) (by omega) h1
          (Or.inr ⟨_, List.getElem?_eq_getElem hmid, by omega⟩)
        exact ⟨r, g1, by omega, g3, g4⟩
    · rw [if_neg hlt]
      have : lo + 1 = hi := by omega
      refine ⟨lo, rfl, by omega, h1, ?_⟩
      rw [this]; exact h2

theorem blockScan_spec (br : List Nat) (base target : Nat) (n i cur : Nat)
    (hcur : cur + 1 = i) (hg : base + blockRank br cur < target) :
    ∃ r, blockScan br base target n i cur = r ∧ cur ≤ r ∧ r < i + n ∧
      base + blockRank br r < target ∧
      (r + 1 = i + n ∨ (r + 1 < i + n ∧ target ≤ base + blockRank br (r + 1))) := by
  induction n generalizing i cur with
  | zero => exact ⟨cur, rfl, Nat.le_refl _, by omega, hg, Or.inl (by omega)⟩
  | succ n ih =>
    unfold blockScan
    by_cases hge : base + blockRank br i ≥ target
    · rw [if_pos hge]
      refine ⟨cur, rfl, Nat.le_refl _, by omega, hg, Or.inr ⟨by omega, ?_⟩⟩
      rw [hcur]; exact hge
    · rw [if_neg hge]
      obtain ⟨r, g1, g2, g3, g4, g5⟩ := ih (i + 1) i rfl (by omega)
      exact ⟨r, g1, by omega, by omega, g4, by
        rcases g5 with g5 | ⟨g5, g6⟩
        · left; omega
        · right; exact ⟨by omega, g6⟩⟩

theorem cum_sat (v : BVec) (hw : v.WF) (j : Nat) (hj : v.data.length ≤ j) :
    cum v.data v.len j = onesBelow v.data v.len := by
  unfold cum
  have := hw.1
  unfold nWords at this
  rw [Nat.min_eq_right (by omega)]

/-- every entry of the superblock array is the rank at its superblock's first bit -/
theorem ofBVec_sb_all (v : BVec) (hw : v.WF) :
    (v.data.length + 7) / 8 ≤ (SBV.ofBVec v).superblockRanks.length ∧
    (SBV.ofBVec v).superblockRanks.length ≤ (v.data.length + 7) / 8 + 1 ∧
    ∀ j, j < (SBV.ofBVec v).superblockRanks.length →
      (SBV.ofBVec v).superblockRanks[j]? = some (cum v.data v.len (8 * j)) := by
  have hsb := (sbv_inv v).sb
  have hones := (sbv_inv v).ones
  have hl : (sbvLoop v.len {} 0 v.data).sb.length = (v.data.length + 7) / 8 := by rw [hsb]; simp
  unfold SBV.ofBVec
  simp only
  split
  · refine ⟨by simp [hl], by simp [hl], ?_⟩
    intro j hj
    simp only [List.length_append, List.length_singleton, hl] at hj
    by_cases hjl : j < (v.data.length + 7) / 8
    · rw [List.getElem?_append_left (by omega), hsb, List.getElem?_map, List.getElem?_range hjl]; rfl
    · have : j = (v.data.length + 7) / 8 := by omega
      rw [List.getElem?_append_right (by omega), hl, this]
      simp only [Nat.sub_self, List.getElem?_cons_zero, Option.some.injEq]
      rw [hones, cum_sat v hw _ (Nat.le_refl _), cum_sat v hw _ (by omega)]
  · refine ⟨by omega, by omega, ?_⟩
    intro j hj
    rw [hl] at hj
    rw [hsb, List.getElem?_map, List.getElem?_range hj]; rfl

theorem cum_eq_onesBelow (v : BVec) (b : Nat) (h : 64 * b ≤ v.len) :
    cum v.data v.len b = onesBelow v.data (64 * b) := by
  unfold cum; rw [Nat.min_eq_left h]

/-- ones among the valid bits of word `b`, as a count over the word's bits -/
theorem cum_word (v : BVec) (hw : v.WF) (b : Nat) (hb : b < v.data.length) (t : Nat)
    (ht : 64 * b + t ≤ v.len) (ht64 : t ≤ 64) :
    onesBelow v.data (64 * b + t) = cum v.data v.len b + cnt (fun j => (v.data.getD b 0).testBit j) t := by
  rw [cum_eq_onesBelow v b (by omega), onesBelow_add]
  congr 1
  unfold cnt
  apply List.countP_congr
  intro j hj
  have := List.mem_range.mp hj
  rw [bitmapNull_word v.data b j (by omega)]

theorem select1_correct (v : BVec) (hw : v.WF) (k : Nat) (hk : k < onesBelow v.data v.len) :
    ∃ p, (SBV.ofBVec v).select1 k = .ok (some p) ∧ p < v.len ∧ bitmapNull v.data p = true ∧
      onesBelow v.data p = k := by
  have hlen := hw.1
  unfold nWords at hlen
  have hinv := sbv_inv v
  obtain ⟨hL1, hL2, hsball⟩ := ofBVec_sb_all v hw
  have hnW : 0 < v.data.length := by
    apply Classical.byContradiction; intro h
    have : v.len = 0 := by omega
    rw [this, onesBelow_zero] at hk; omega
  -- 1. the sampled start superblock
  have hstart : ∃ lo, (SBV.ofBVec v).select1Samples.getD (k / selectSampleRate) 0 / 512 = lo ∧
      lo < (v.data.length + 7) / 8 ∧ cum v.data v.len (8 * lo) ≤ k := by
    have hs : (SBV.ofBVec v).select1Samples = (sbvLoop v.len {} 0 v.data).s1 := rfl
    rw [hs]
    cases hx : (sbvLoop v.len {} 0 v.data).s1[k / selectSampleRate]? with
    | none =>
      refine ⟨0, by simp [List.getD, hx], by omega, by simp [cum_zero]⟩
    | some x =>
      obtain ⟨b, hb1, hb2, hb3⟩ := hinv.s1 _ x hx
      have hxle : x ≤ 64 * b := by rw [hb2]; exact Nat.mod_le _ _
      refine ⟨x / 512, by simp [List.getD, hx], by omega, ?_⟩
      have := cum_mono v.data v.len (8 * (x / 512)) b (by omega)
      unfold selectSampleRate at hb3
      omega
  obtain ⟨lo, hlo1, hlo2, hlo3⟩ := hstart
  -- 2. the superblock
  obtain ⟨sbi, hs1, hs2, ⟨x, hs3, hs4⟩, hs5⟩ := bsSuper_spec (SBV.ofBVec v).superblockRanks (k + 1)
    (SBV.ofBVec v).superblockRanks.length lo (SBV.ofBVec v).superblockRanks.length
    (by omega) (Nat.le_refl _) (by omega) ⟨_, hsball lo (by omega), by omega⟩ (Or.inl rfl)
  rw [hsball sbi hs2] at hs3
  cases hs3
  have hsbi_lt : sbi < (v.data.length + 7) / 8 := by
    apply Classical.byContradiction; intro h
    have : cum v.data v.len (8 * sbi) = onesBelow v.data v.len := cum_sat v hw _ (by omega)
    omega
  have hnext : k < cum v.data v.len (8 * (sbi + 1)) := by
    rcases hs5 with h | ⟨y, hy1, hy2⟩
    · rw [cum_sat v hw _ (by omega)]; exact hk
    · rw [hsball (sbi + 1) (by
        apply Classical.byContradiction; intro h
        rw [List.getElem?_eq_none (by omega)] at hy1; cases hy1)] at hy1
      cases hy1; omega
  -- 3. the block
  have hbrget : ∀ b, b < v.data.length → b / 8 = sbi →
      blockRank (SBV.ofBVec v).blockRanks b = cum v.data v.len b - cum v.data v.len (8 * sbi) := by
    intro b hb hb8
    rw [ofBVec_blockRank v b hb, hb8]
  have hstartblk : sbi * 8 < v.data.length := by omega
  have hblock : ∃ bi, blockScan (SBV.ofBVec v).blockRanks (cum v.data v.len (8 * sbi)) (k + 1)
        (min ((sbi + 1) * 8) (SBV.ofBVec v).inner.data.length - sbi * 8) (sbi * 8) (sbi * 8) = bi ∧
      bi < v.data.length ∧ bi / 8 = sbi ∧ cum v.data v.len bi ≤ k ∧ k < cum v.data v.len (bi + 1) := by
    rw [ofBVec_inner]
    obtain ⟨n, hn'⟩ : ∃ n, min ((sbi + 1) * 8) v.data.length - sbi * 8 = n + 1 :=
      ⟨min ((sbi + 1) * 8) v.data.length - sbi * 8 - 1, by omega⟩
    rw [hn']
    unfold blockScan
    have e8 : 8 * sbi = sbi * 8 := by omega
    have hc8 : cum v.data v.len (sbi * 8) = cum v.data v.len (8 * sbi) := by rw [e8]
    have h0 := hbrget (sbi * 8) hstartblk (by omega)
    rw [if_neg (by rw [h0]; omega)]
    obtain ⟨r, g1, g2, g3, g4, g6⟩ := blockScan_spec (SBV.ofBVec v).blockRanks
      (cum v.data v.len (8 * sbi)) (k + 1) n (sbi * 8 + 1) (sbi * 8) rfl (by rw [h0]; omega)
    have hr8 : r / 8 = sbi := by omega
    have hrlt : r < v.data.length := by omega
    rw [hbrget r hrlt hr8] at g4
    have hm := cum_mono v.data v.len (8 * sbi) r (by omega)
    refine ⟨r, g1, hrlt, hr8, by omega, ?_⟩
    rcases g6 with g6 | ⟨hlt6, hy2⟩
    · -- the last block of the superblock (or of the vector)
      by_cases hlast : r + 1 = (sbi + 1) * 8
      · rw [hlast, show (sbi + 1) * 8 = 8 * (sbi + 1) by omega]; exact hnext
      · have hend : v.data.length ≤ r + 1 := by omega
        rw [cum_sat v hw _ hend]; exact hk
    · have hr1 : r + 1 < v.data.length := by omega
      rw [hbrget (r + 1) hr1 (by omega)] at hy2
      have hm2 := cum_mono v.data v.len (8 * sbi) (r + 1) (by omega)
      omega
  obtain ⟨bi, hb1, hb2, hb3, hb4, hb5⟩ := hblock
  -- 4. the word
  unfold SBV.select1
  rw [ofBVec_ones, cum_full v hw, if_neg (by omega)]
  rw [hlo1, hs1]
  simp only
  rw [hsball sbi hs2]
  simp only
  rw [hb1, hbrget bi hb2 hb3]
  unfold select1Word
  have hm := cum_mono v.data v.len (8 * sbi) bi (by omega)
  have hbase : cum v.data v.len (8 * sbi) + (cum v.data v.len bi - cum v.data v.len (8 * sbi)) =
      cum v.data v.len bi := by omega
  rw [hbase, if_neg (by omega), ofBVec_inner, List.getElem?_eq_getElem hb2]
  simp only
  -- valid bits of word `bi`
  have hgd : v.data.getD bi 0 = v.data[bi] := by simp [List.getD, List.getElem?_eq_getElem hb2]
  have hvb : ∃ vb, vb ≤ 64 ∧ 64 * bi + vb ≤ v.len ∧
      cum v.data v.len (bi + 1) = cum v.data v.len bi + cnt (fun j => v.data[bi].testBit j) vb := by
    by_cases hfull : 64 * (bi + 1) ≤ v.len
    · refine ⟨64, Nat.le_refl _, by omega, ?_⟩
      rw [cum_eq_onesBelow v (bi + 1) hfull, show 64 * (bi + 1) = 64 * bi + 64 by omega,
        cum_word v hw bi hb2 64 (by omega) (Nat.le_refl _), hgd]
    · refine ⟨v.len - 64 * bi, by omega, by omega, ?_⟩
      have : cum v.data v.len (bi + 1) = onesBelow v.data (64 * bi + (v.len - 64 * bi)) := by
        unfold cum; rw [Nat.min_eq_right (by omega)]; congr 1; omega
      rw [this, cum_word v hw bi hb2 _ (by omega) (by omega), hgd]
  obtain ⟨vb, hvb1, hvb2, hvb3⟩ := hvb
  have hcm := cnt_mono (fun j => v.data[bi].testBit j) vb 64 hvb1
  obtain ⟨j, hj1, hj2, hj3, hj4⟩ := selectInWord_spec v.data[bi] (k - cum v.data v.len bi) (by omega)
  rw [hj1]
  simp only
  -- the found bit is a valid one
  have hjvb : j < vb := by
    apply Classical.byContradiction; intro h
    have := cnt_mono (fun j => v.data[bi].testBit j) vb j (by omega)
    omega
  rw [if_pos (by omega)]
  refine ⟨bi * 64 + j, rfl, by omega, ?_, ?_⟩
  · rw [show bi * 64 + j = 64 * bi + j by omega, bitmapNull_word v.data bi j hj2, hgd]; exact hj3
  · rw [show bi * 64 + j = 64 * bi + j by omega, cum_word v hw bi hb2 j (by omega) (by omega), hgd, hj4]
    omega

theorem select1_none (v : BVec) (hw : v.WF) (k : Nat) (hk : onesBelow v.data v.len ≤ k) :
    (SBV.ofBVec v).select1 k = .ok none := by
  unfold SBV.select1
  rw [ofBVec_ones, cum_full v hw, if_pos hk]


set_option maxRecDepth 40000

/-! ### `select0`, and the plain definitions of select -/

theorem specSelect_of (b : Bool) (bs : List Bool) (k off p : Nat) (hp : p < bs.length) (hb : bs[p] = b)
    (hc : ((bs.take p).filter (· == b)).length = k) : Spec.select b bs k off = some (off + p) := by
  induction bs generalizing k off p with
  | nil => simp at hp
  | cons x xs ih =>
    unfold Spec.select
    cases p with
    | zero =>
      simp only [List.getElem_cons_zero] at hb
      simp only [List.take_zero, List.filter_nil, List.length_nil] at hc
      subst hb
      simp [← hc]
    | succ p =>
      simp only [List.getElem_cons_succ] at hb
      simp only [List.length_cons] at hp
      simp only [List.take_succ_cons, List.filter_cons] at hc
      by_cases hx : (x == b) = true
      · rw [if_pos hx] at hc ⊢
        simp only [List.length_cons] at hc
        rw [if_neg (by omega)]
        rw [ih (k - 1) (off + 1) p (by omega) hb (by omega)]
        congr 1; omega
      · rw [if_neg hx] at hc ⊢
        rw [ih k (off + 1) p (by omega) hb hc]
        congr 1; omega

theorem specSelect_none (b : Bool) (bs : List Bool) (k off : Nat)
    (h : (bs.filter (· == b)).length ≤ k) : Spec.select b bs k off = none := by
  induction bs generalizing k off with
  | nil => rfl
  | cons x xs ih =>
    unfold Spec.select
    simp only [List.filter_cons] at h
    by_cases hx : (x == b) = true
    · rw [if_pos hx] at h ⊢
      simp only [List.length_cons] at h
      rw [if_neg (by omega)]
      exact ih (k - 1) (off + 1) (by omega)
    · rw [if_neg hx] at h ⊢
      exact ih k (off + 1) h

/-- zeros among the first `p` bits of the vector -/
def zerosBelow (v : BVec) (p : Nat) : Nat := min p v.len - onesBelow v.data (min p v.len)

theorem zerosBelow_succ (v : BVec) (p : Nat) (hp : p < v.len) :
    zerosBelow v (p + 1) = zerosBelow v p + (if bitmapNull v.data p then 0 else 1) := by
  unfold zerosBelow
  rw [Nat.min_eq_left (by omega), Nat.min_eq_left (by omega), onesBelow_succ]
  have := onesBelow_le v.data p
  split <;> omega

theorem zerosBelow_mono (v : BVec) (a b : Nat) (h : a ≤ b) : zerosBelow v a ≤ zerosBelow v b := by
  induction b with
  | zero => have : a = 0 := by omega
            subst this; exact Nat.le_refl _
  | succ b ih =>
    by_cases hab : a = b + 1
    · subst hab; exact Nat.le_refl _
    · have h1 := ih (by omega)
      by_cases hb : b < v.len
      · rw [zerosBelow_succ v b hb]; omega
      · have : zerosBelow v (b + 1) = zerosBelow v b := by
          unfold zerosBelow
          rw [Nat.min_eq_right (by omega), Nat.min_eq_right (by omega)]
        omega

theorem sel0Search_spec (s : SBV) (Z : Nat → Nat) (hZ : ∀ p, s.rank0 p = .ok (Z p)) (L k f lo hi : Nat)
    (hlohi : lo ≤ hi) (hf : hi - lo < f) (h1 : Z lo ≤ k) (h2 : hi = L ∨ k < Z (hi + 1)) :
    ∃ r, sel0Search s k f lo hi = .ok r ∧ lo ≤ r ∧ r ≤ hi ∧ Z r ≤ k ∧ (r = L ∨ k < Z (r + 1)) := by
  induction f generalizing lo hi with
  | zero => omega
  | succ f ih =>
    unfold sel0Search
    by_cases hlt : lo < hi
    · rw [if_pos hlt, hZ]
      simp only
      by_cases hle : Z (lo + (hi - lo) / 2 + 1) ≤ k
      · rw [if_pos hle]
        obtain ⟨r, g1, g2, g3, g4, g5⟩ := ih (lo + (hi - lo) / 2 + 1) hi (by omega) (by omega) hle h2
        exact ⟨r, g1, by omega, g3, g4, g5⟩
      · rw [if_neg hle]
        obtain ⟨r, g1, g2, g3, g4, g5⟩ := ih lo (lo + (hi - lo) / 2) (by omega) (by omega) h1
          (Or.inr (by omega))
        exact ⟨r, g1, g2, by omega, g4, g5⟩
    · rw [if_neg hlt]
      have : lo = hi := by omega
      subst this
      exact ⟨lo, rfl, Nat.le_refl _, Nat.le_refl _, h1, h2⟩

theorem select0_correct (v : BVec) (hw : v.WF) (k : Nat)
    (hk : k < v.len - onesBelow v.data v.len) :
    ∃ p, (SBV.ofBVec v).select0 k = .ok (some p) ∧ p < v.len ∧ bitmapNull v.data p = false ∧
      zerosBelow v p = k := by
  have hlen := hw.1
  unfold nWords at hlen
  have hinv := sbv_inv v
  have hZ : ∀ p, (SBV.ofBVec v).rank0 p = .ok (zerosBelow v p) := fun p => rank0_correct v hw p
  have htot : zerosBelow v v.len = v.len - onesBelow v.data v.len := by
    unfold zerosBelow; rw [Nat.min_self]
  -- the sampled start position
  have hstart : ∃ lo, (SBV.ofBVec v).select0Samples.getD (k / selectSampleRate) 0 = lo ∧
      lo ≤ v.len ∧ zerosBelow v lo ≤ k := by
    have hs : (SBV.ofBVec v).select0Samples = (sbvLoop v.len {} 0 v.data).s0 := rfl
    rw [hs]
    cases hx : (sbvLoop v.len {} 0 v.data).s0[k / selectSampleRate]? with
    | none =>
      refine ⟨0, by simp [List.getD, hx], by omega, ?_⟩
      unfold zerosBelow; simp
    | some x =>
      obtain ⟨b, hb1, hb2, hb3⟩ := hinv.s0 _ x hx
      have hxle : x ≤ 64 * b := by rw [hb2]; exact Nat.mod_le _ _
      refine ⟨x, by simp [List.getD, hx], by omega, ?_⟩
      have hm := zerosBelow_mono v x (64 * b) hxle
      have : zerosBelow v (64 * b) = min (64 * b) v.len - cum v.data v.len b := rfl
      unfold selectSampleRate at hb3
      omega
  obtain ⟨lo, hlo1, hlo2, hlo3⟩ := hstart
  obtain ⟨r, g1, g2, g3, g4, g5⟩ := sel0Search_spec (SBV.ofBVec v) (zerosBelow v) hZ v.len k (v.len + 1)
    lo v.len hlo2 (by omega) hlo3 (Or.inl rfl)
  have hrlt : r < v.len := by
    apply Classical.byContradiction; intro h
    have : r = v.len := by omega
    rw [this, htot] at g4; omega
  have hnext : k < zerosBelow v (r + 1) := by
    rcases g5 with g5 | g5
    · omega
    · exact g5
  have hstep := zerosBelow_succ v r hrlt
  have hbit : bitmapNull v.data r = false := by
    cases hb : bitmapNull v.data r with
    | false => rfl
    | true => rw [hb] at hstep; simp at hstep; omega
  rw [hbit] at hstep
  simp only [Bool.false_eq_true, if_false] at hstep
  unfold SBV.select0
  rw [ofBVec_inner, ofBVec_ones, cum_full v hw]
  unfold usub
  rw [if_neg (by have := onesBelow_le v.data v.len; omega)]
  simp only
  rw [if_neg (by omega), hlo1, g1]
  simp only
  rw [if_pos hrlt, hZ]
  simp only
  rw [if_pos (by omega)]
  exact ⟨r, rfl, hrlt, hbit, by omega⟩

theorem select0_none (v : BVec) (hw : v.WF) (k : Nat) (hk : v.len - onesBelow v.data v.len ≤ k) :
    (SBV.ofBVec v).select0 k = .ok none := by
  unfold SBV.select0
  rw [ofBVec_inner, ofBVec_ones, cum_full v hw]
  unfold usub
  rw [if_neg (by have := onesBelow_le v.data v.len; omega)]
  simp only
  rw [if_pos hk]

theorem filter_true_length (f : Nat → Bool) (n : Nat) :
    (((List.range n).map f).filter (· == true)).length = (List.range n).countP f := by
  have := specRank_true f n n
  unfold Spec.rank at this
  rw [List.take_of_length_le (by simp), Nat.min_self] at this
  exact this

theorem filter_false_length (f : Nat → Bool) (n : Nat) :
    (((List.range n).map f).filter (· == false)).length = n - (List.range n).countP f := by
  have := specRank_false f n n
  unfold Spec.rank at this
  rw [List.take_of_length_le (by simp), Nat.min_self] at this
  exact this

/-- F: `select1(k)` is the position of the `k`-th one and `select0(k)` the position of the `k`-th zero
(0-indexed), `None` when there are not that many — for every well-formed bit vector. -/
theorem c15b_sbv_select (v : BVec) (hw : v.WF) (bs : List Bool)
    (hb : v.toBools = .ok bs) (k : Nat) :
    (SBV.ofBVec v).select1 k = .ok (Spec.select true bs k 0) ∧
    (SBV.ofBVec v).select0 k = .ok (Spec.select false bs k 0) := by
  rw [toBools_wf v hw] at hb
  cases hb
  constructor
  · by_cases hk : k < onesBelow v.data v.len
    · obtain ⟨p, h1, h2, h3, h4⟩ := select1_correct v hw k hk
      rw [h1]
      have := specSelect_of true ((List.range v.len).map (bitmapNull v.data)) k 0 p (by simpa using h2)
        (by simp [h3]) (by
          have := specRank_true (bitmapNull v.data) v.len p
          unfold Spec.rank at this
          rw [this, Nat.min_eq_left (by omega)]; exact h4)
      rw [this, Nat.zero_add]
    · rw [select1_none v hw k (by omega), specSelect_none]
      rw [filter_true_length]; unfold onesBelow at hk; omega
  · by_cases hk : k < v.len - onesBelow v.data v.len
    · obtain ⟨p, h1, h2, h3, h4⟩ := select0_correct v hw k hk
      rw [h1]
      have := specSelect_of false ((List.range v.len).map (bitmapNull v.data)) k 0 p (by simpa using h2)
        (by simp [h3]) (by
          have := specRank_false (bitmapNull v.data) v.len p
          unfold Spec.rank at this
          rw [this, Nat.min_eq_left (by omega)]
          unfold zerosBelow at h4
          rw [Nat.min_eq_left (by omega)] at h4
          exact h4)
      rw [this, Nat.zero_add]
    · rw [select0_none v hw k (by omega), specSelect_none]
      rw [filter_false_length]; unfold onesBelow at hk; omega

/-! ### Elias-Fano -/

/-- positions set by the upper-bits loop -/
def posFrom (lb : Nat) : Nat → List Nat → List Nat
  | _, [] => []
  | i, v :: vs => ((v >>> lb) + i) :: posFrom lb (i + 1) vs

theorem posFrom_length (lb i : Nat) (vs : List Nat) : (posFrom lb i vs).length = vs.length := by
  induction vs generalizing i with
  | nil => rfl
  | cons v vs ih => simp [posFrom, ih]

theorem posFrom_get (lb i : Nat) (vs : List Nat) (t : Nat) (ht : t < vs.length) :
    (posFrom lb i vs)[t]? = some ((vs[t] >>> lb) + i + t) := by
  induction vs generalizing i t with
  | nil => simp at ht
  | cons v vs ih =>
    cases t with
    | zero => simp [posFrom]
    | succ t =>
      simp only [posFrom, List.getElem?_cons_succ, List.getElem_cons_succ]
      rw [ih (i + 1) t (by simpa using ht)]
      congr 1; omega

theorem setUpper_spec (lb L : Nat) (u : BVec) (hw : u.WF) (hl : u.len = L) (i : Nat) (vs : List Nat)
    (hpos : ∀ p ∈ posFrom lb i vs, p < L) :
    ∃ u', setUpper lb L u i vs = .ok u' ∧ u'.WF ∧ u'.len = L ∧
      ∀ q, bitmapNull u'.data q = (bitmapNull u.data q || decide (q ∈ posFrom lb i vs)) := by
  induction vs generalizing u i with
  | nil => exact ⟨u, rfl, hw, hl, by intro q; simp [posFrom]⟩
  | cons v vs ih =>
    unfold setUpper
    have hp0 : (v >>> lb) + i < L := hpos _ (by simp [posFrom])
    rw [if_pos hp0]
    obtain ⟨u1, h1, h2, h3, h4⟩ := set_wf u hw ((v >>> lb) + i) (by omega) true
    rw [h1]
    simp only
    obtain ⟨u2, g1, g2, g3, g4⟩ := ih u1 h2 (by omega) (i + 1)
      (fun p hp => hpos p (by simp [posFrom, hp]))
    refine ⟨u2, g1, g2, g3, ?_⟩
    intro q
    rw [g4, h4]
    simp only [posFrom, List.mem_cons]
    by_cases hq : q = (v >>> lb) + i
    · simp [hq]
    · simp [hq]

/-- counting the members of a strictly increasing list below its `i`-th element gives `i` -/
theorem countP_mem_sorted (l : List Nat) (hs : l.Pairwise (· < ·)) (i : Nat) (hi : i < l.length) :
    (List.range l[i]).countP (fun q => decide (q ∈ l)) = i := by
  induction l generalizing i with
  | nil => simp at hi
  | cons a t ih =>
    rw [List.pairwise_cons] at hs
    obtain ⟨ha, ht⟩ := hs
    -- split membership in `a :: t`
    have hsplit : ∀ p, (List.range p).countP (fun q => decide (q ∈ a :: t)) =
        (if a < p then 1 else 0) + (List.range p).countP (fun q => decide (q ∈ t)) := by
      intro p
      induction p with
      | zero => simp
      | succ p ihp =>
        rw [List.range_succ, List.countP_append, List.countP_append, ihp]
        simp only [List.countP_cons, List.countP_nil, List.mem_cons, Nat.zero_add]
        by_cases hpa : p = a
        · subst hpa
          have : p ∉ t := fun h => Nat.lt_irrefl _ (ha p h)
          simp [this]; omega
        · by_cases hpt : p ∈ t
          · simp [hpa, hpt]; split <;> split <;> omega
          · simp [hpa, hpt]; split <;> split <;> omega
    rw [hsplit]
    cases i with
    | zero =>
      simp only [List.getElem_cons_zero, Nat.lt_irrefl, if_false, Nat.zero_add]
      rw [List.countP_eq_zero]
      intro q hq
      have := List.mem_range.mp hq
      simp only [decide_eq_true_eq]
      intro hqt
      have := ha q hqt
      omega
    | succ i =>
      simp only [List.getElem_cons_succ]
      have hi' : i < t.length := by simpa using hi
      have hlt : a < t[i] := ha _ (List.getElem_mem hi')
      rw [if_pos hlt, ih ht i hi']
      omega

theorem onesBelow_lt_of_bit (data : List Nat) (p p' : Nat) (h : p < p') (hb : bitmapNull data p = true) :
    onesBelow data p < onesBelow data p' := by
  have h1 := onesBelow_succ data p
  rw [hb] at h1
  simp only [if_true] at h1
  have h2 := onesBelow_mono data (p + 1) p' (by omega)
  omega

theorem strictlyIncreasing_pairwise (vs : List Nat) (h : strictlyIncreasing vs = true) :
    vs.Pairwise (· < ·) := by
  induction vs with
  | nil => exact List.Pairwise.nil
  | cons a t ih =>
    cases t with
    | nil => exact List.pairwise_singleton _ _
    | cons b r =>
      simp only [strictlyIncreasing, Bool.and_eq_true, decide_eq_true_eq] at h
      have ht := ih h.2
      rw [List.pairwise_cons]
      refine ⟨?_, ht⟩
      intro x hx
      rcases List.mem_cons.mp hx with rfl | hx
      · exact h.1
      · have := (List.pairwise_cons.mp ht).1 x hx
        omega

theorem posFrom_pairwise (lb i : Nat) (vs : List Nat) (hs : vs.Pairwise (· < ·)) :
    (posFrom lb i vs).Pairwise (· < ·) := by
  induction vs generalizing i with
  | nil => exact List.Pairwise.nil
  | cons v vs ih =>
    rw [List.pairwise_cons] at hs
    simp only [posFrom, List.pairwise_cons]
    refine ⟨?_, ih (i + 1) hs.2⟩
    intro p hp
    obtain ⟨t, ht, he⟩ := List.getElem_of_mem hp
    have ht' : t < vs.length := by simpa [posFrom_length] using ht
    have := posFrom_get lb (i + 1) vs t ht'
    rw [List.getElem?_eq_getElem ht, he] at this
    cases this
    have hlt : v < vs[t] := hs.1 _ (List.getElem_mem _)
    have : v >>> lb ≤ vs[t] >>> lb := by
      rw [Nat.shiftRight_eq_div_pow, Nat.shiftRight_eq_div_pow]
      exact Nat.div_le_div_right (by omega)
    omega


set_option maxRecDepth 40000

theorem lowBitsOf_length (low n j : Nat) : (lowBitsOf low n j).length = n := by
  induction n generalizing j with
  | zero => rfl
  | succ n ih => simp [lowBitsOf, ih]

theorem lowBitsOf_get (low n j t : Nat) (ht : t < n) :
    (lowBitsOf low n j)[t]? = some (low.testBit (j + t)) := by
  induction n generalizing j t with
  | zero => omega
  | succ n ih =>
    cases t with
    | zero =>
      simp only [lowBitsOf, List.getElem?_cons_zero, Nat.add_zero, Option.some.injEq]
      rw [Nat.testBit_eq_decide_div_mod_eq, Nat.shiftRight_eq_div_pow]
      by_cases h : low / 2 ^ j % 2 = 1 <;> simp [h]
    | succ t =>
      simp only [lowBitsOf, List.getElem?_cons_succ]
      rw [ih (j + 1) t (by omega)]
      congr 2; omega

/-- bit `i * lb + j` of the concatenated lower bits is bit `j` of the masked `i`-th value -/
theorem lowerBitsList_get (mask lb : Nat) (vs : List Nat) (i j : Nat) (hi : i < vs.length) (hj : j < lb) :
    (lowerBitsList mask lb vs)[i * lb + j]? = some ((vs[i] &&& mask).testBit j) := by
  induction vs generalizing i with
  | nil => simp at hi
  | cons v vs ih =>
    unfold lowerBitsList
    cases i with
    | zero =>
      rw [Nat.zero_mul, Nat.zero_add, List.getElem?_append_left (by rw [lowBitsOf_length]; exact hj),
        lowBitsOf_get _ _ _ _ hj]
      simp
    | succ i =>
      rw [List.getElem?_append_right (by rw [lowBitsOf_length, Nat.succ_mul]; omega), lowBitsOf_length]
      have : (i + 1) * lb + j - lb = i * lb + j := by rw [Nat.succ_mul]; omega
      rw [this, ih i (by simpa using hi)]
      simp

theorem lowerBitsList_length (mask lb : Nat) (vs : List Nat) :
    (lowerBitsList mask lb vs).length = vs.length * lb := by
  induction vs with
  | nil => simp [lowerBitsList]
  | cons v vs ih => simp [lowerBitsList, lowBitsOf_length, ih, Nat.succ_mul]; omega

theorem testBit_getLowerLoop (lower : BVec) (start n j t : Nat) :
    (getLowerLoop lower start n j).testBit t =
      (decide (j ≤ t ∧ t < j + n) && decide (lower.get (start + t) = .ok true)) := by
  induction n generalizing j with
  | zero =>
    simp only [getLowerLoop, Nat.zero_testBit, Nat.add_zero]
    have : ¬ (j ≤ t ∧ t < j) := by omega
    simp [this]
  | succ n ih =>
    unfold getLowerLoop
    rw [Nat.testBit_or, ih]
    by_cases htj : t = j
    · subst htj
      have h1 : ¬ (t + 1 ≤ t ∧ t < t + 1 + n) := by omega
      have h2 : (t ≤ t ∧ t < t + (n + 1)) := by omega
      simp only [h1, h2, decide_false, decide_true, Bool.false_and, Bool.or_false, Bool.true_and]
      split
      · rename_i hg
        rw [hg, Nat.one_shiftLeft, Nat.testBit_two_pow]; simp
      · rename_i hg
        have : ¬ (lower.get (start + t) = .ok true) := fun h => hg h
        simp [this]
    · have h0 : ∀ x : Nat, (x = 1 <<< j ∨ x = 0) → x.testBit t = false := by
        intro x hx
        rcases hx with rfl | rfl
        · rw [Nat.one_shiftLeft, Nat.testBit_two_pow]; simp <;> omega
        · simp
      have hm : (match lower.get (start + j) with
          | Res.ok true => 1 <<< j
          | _ => 0).testBit t = false := by
        apply h0
        split
        · left; rfl
        · right; rfl
      split
      · rw [h0 _ (Or.inl rfl), Bool.false_or]
        congr 1
        by_cases h : j + 1 ≤ t ∧ t < j + 1 + n
        · have : j ≤ t ∧ t < j + (n + 1) := by omega
          simp [h, this]
        · have : ¬ (j ≤ t ∧ t < j + (n + 1)) := by omega
          simp [h, this]
      · rw [h0 _ (Or.inr rfl), Bool.false_or]
        congr 1
        by_cases h : j + 1 ≤ t ∧ t < j + 1 + n
        · have : j ≤ t ∧ t < j + (n + 1) := by omega
          simp [h, this]
        · have : ¬ (j ≤ t ∧ t < j + (n + 1)) := by omega
          simp [h, this]

theorem efMask_eq (lb : Nat) (h : lb < 64) : efMask lb = 2 ^ lb - 1 := by
  unfold efMask
  by_cases h0 : lb = 0
  · rw [if_pos h0, h0]
  · rw [if_neg h0, if_neg (by omega)]

theorem efLowerBits_le (n last : Nat) : efLowerBits n last ≤ 63 := by
  unfold efLowerBits; split
  · omega
  · exact Nat.min_le_right _ _

/-- F: Elias-Fano random access returns the `i`-th element — for every strictly increasing `u64`
sequence, up to `u64::MAX`, whatever its clustering. -/
theorem c15b_ef_get (vs : List Nat) (hs : strictlyIncreasing vs = true) (hW : ∀ v ∈ vs, v < W)
    (last : Nat) (hlast : vs.getLast? = some last) :
    ∃ e, EF.new vs = .ok e ∧ e.n = vs.length ∧
      ∀ i (hi : i < vs.length), e.get i = .ok vs[i] := by
  have hlb : efLowerBits vs.length last < 64 := by have := efLowerBits_le vs.length last; omega
  have hpw := strictlyIncreasing_pairwise vs hs
  have hn0 : 0 < vs.length := by
    cases vs with
    | nil => simp at hlast
    | cons a t => simp
  -- every element is at most `last`
  have hle : ∀ i (hi : i < vs.length), vs[i] ≤ last := by
    intro i hi
    have hl : last = vs[vs.length - 1] := by
      have := List.getLast?_eq_getElem? (l := vs)
      rw [this, List.getElem?_eq_getElem (by omega)] at hlast
      exact (Option.some.inj hlast).symm
    by_cases hil : i = vs.length - 1
    · subst hil; omega
    · have := List.pairwise_iff_getElem.mp hpw i (vs.length - 1) hi (by omega) (by omega)
      omega
  generalize hlbdef : efLowerBits vs.length last = lb at hlb
  -- 1. the lower bits
  obtain ⟨lower, hl1, hl2, hl3, hl4, hl5⟩ := pushAll_clean BVec.empty empty_wf_clean.1 empty_wf_clean.2
    (lowerBitsList (efMask lb) lb vs)
  -- 2. the upper bits
  have hposlt : ∀ p ∈ posFrom lb 0 vs, p < vs.length + (last >>> lb) := by
    intro p hp
    obtain ⟨t, ht, he⟩ := List.getElem_of_mem hp
    have ht' : t < vs.length := by simpa [posFrom_length] using ht
    have := posFrom_get lb 0 vs t ht'
    rw [List.getElem?_eq_getElem ht, he] at this
    cases this
    have : vs[t] >>> lb ≤ last >>> lb := by
      rw [Nat.shiftRight_eq_div_pow, Nat.shiftRight_eq_div_pow]
      exact Nat.div_le_div_right (hle t ht')
    omega
  obtain ⟨ub, hu1, hu2, hu3, hu4⟩ := setUpper_spec lb (vs.length + (last >>> lb))
    (BVec.filled (vs.length + (last >>> lb)) false) (filled_false_wf_clean _).1 (filled_wf_clean _ false).2.2 0 vs hposlt
  have hubits : ∀ q, bitmapNull ub.data q = decide (q ∈ posFrom lb 0 vs) := by
    intro q
    rw [hu4]
    have : bitmapNull (BVec.filled (vs.length + (last >>> lb)) false).data q = false := by
      rw [bitmapNull_filled]; rfl
    rw [this, Bool.false_or]
  refine ⟨⟨vs.length, min (last + 1) (W - 1), last, lb, lower, SBV.ofBVec ub⟩, ?_, rfl, ?_⟩
  · unfold EF.new
    rw [hlast]
    simp only
    rw [hs]
    simp only [Bool.not_true, Bool.false_eq_true, if_false]
    rw [hlbdef, hl1]
    simp only
    rw [if_neg (by omega), hu1]
  · intro i hi
    -- the i-th one of the upper vector is at `high_i + i`
    have hpi := posFrom_get lb 0 vs i hi
    have hpil : i < (posFrom lb 0 vs).length := by rw [posFrom_length]; exact hi
    rw [List.getElem?_eq_getElem hpil] at hpi
    have hpi' : (posFrom lb 0 vs)[i] = (vs[i] >>> lb) + i := by
      have := Option.some.inj hpi; omega
    have hcount : onesBelow ub.data ((vs[i] >>> lb) + i) = i := by
      unfold onesBelow
      have h1 : (List.range ((vs[i] >>> lb) + i)).countP (bitmapNull ub.data) =
          (List.range ((vs[i] >>> lb) + i)).countP (fun q => decide (q ∈ posFrom lb 0 vs)) := by
        apply List.countP_congr; intro q _; rw [hubits]
      rw [h1, ← hpi']
      exact countP_mem_sorted _ (posFrom_pairwise lb 0 vs hpw) i hpil
    have hbit : bitmapNull ub.data ((vs[i] >>> lb) + i) = true := by
      rw [hubits, ← hpi']; simp [List.getElem_mem]
    have hplt : (vs[i] >>> lb) + i < ub.len := by
      rw [hu3]; exact hposlt _ (by rw [← hpi']; exact List.getElem_mem hpil)
    have htotal : i < onesBelow ub.data ub.len := by
      have := onesBelow_lt_of_bit ub.data _ _ hplt hbit
      omega
    obtain ⟨p, hp1, hp2, hp3, hp4⟩ := select1_correct ub hu2 i htotal
    have hpeq : p = (vs[i] >>> lb) + i := by
      apply Classical.byContradiction; intro hne
      rcases Nat.lt_or_gt_of_ne hne with h | h
      · have := onesBelow_lt_of_bit ub.data _ _ h hp3; omega
      · have := onesBelow_lt_of_bit ub.data _ _ h hbit; omega
    -- the lower bits
    have hlow : EF.getLower ⟨vs.length, min (last + 1) (W - 1), last, lb, lower, SBV.ofBVec ub⟩ i = vs[i] % 2 ^ lb := by
      unfold EF.getLower
      simp only
      by_cases h0 : lb = 0
      · rw [if_pos h0, h0]; simp [Nat.mod_one]
      · rw [if_neg h0]
        apply Nat.eq_of_testBit_eq
        intro t
        rw [testBit_getLowerLoop, Nat.testBit_mod_two_pow]
        by_cases ht : t < lb
        · have hlen : i * lb + t < lower.len := by
            rw [hl4, lowerBitsList_length]
            simp only [BVec.empty, Nat.zero_add]
            calc i * lb + t < i * lb + lb := by omega
              _ = (i + 1) * lb := by rw [Nat.succ_mul]
              _ ≤ vs.length * lb := Nat.mul_le_mul_right _ (by omega)
          rw [get_wf lower hl2, if_pos hlen, hl5]
          simp only [BVec.empty, Nat.not_lt_zero, if_false, Nat.sub_zero]
          have := lowerBitsList_get (efMask lb) lb vs i t hi ht
          simp only [List.getD, this, Option.getD_some]
          rw [efMask_eq lb hlb, Nat.and_two_pow_sub_one_eq_mod, Nat.testBit_mod_two_pow]
          simp [ht]
        · simp [ht]
    subst hpeq
    unfold EF.get
    simp only
    rw [if_neg (by omega), hp1]
    simp only
    rw [if_neg (Nat.not_lt.mpr (Nat.le_add_left _ _)), hlow, Nat.add_sub_cancel]
    congr 1
    -- (high << lb) | low = value
    have hv : vs[i] < W := hW _ (List.getElem_mem hi)
    have hsh : (vs[i] >>> lb) <<< lb ≤ vs[i] := by
      rw [Nat.shiftRight_eq_div_pow, Nat.shiftLeft_eq]
      exact Nat.div_mul_le_self _ _
    rw [Nat.mod_eq_of_lt (by omega)]
    have hlowlt : vs[i] % 2 ^ lb < 2 ^ lb := Nat.mod_lt _ (Nat.two_pow_pos _)
    rw [← Nat.shiftLeft_add_eq_or_of_lt hlowlt, Nat.shiftRight_eq_div_pow, Nat.shiftLeft_eq]
    rw [Nat.mul_comm]; exact Nat.div_add_mod _ _

/-- W (regression): the old constructor panicked on a single element `2^63 - 1` or larger
(`lower_bits = 64`, `values[n-1] >> 64`) and on `u64::MAX` (`values[n-1] + 1`); now both are stored. -/
theorem c15b_ef_extreme_witness :
    Old.efNewPanics [9223372036854775807] = true ∧ Old.efNewPanics [18446744073709551615] = true ∧
    (match EF.new [9223372036854775807] with
      | .ok e => e.get 0
      | _ => .err) = .ok 9223372036854775807 ∧
    (match EF.new [0, 18446744073709551615] with
      | .ok e => (e.get 1, e.contains 18446744073709551615)
      | _ => (.err, .err)) = (.ok 18446744073709551615, .ok true) := by decide +kernel

/-- N: a dense cluster followed by a distant value (the case the truncated block ranks broke). -/
theorem c15b_ef_nonvacuity :
    (match EF.new (List.range 300 ++ [1000000]) with
      | .ok e => (e.get 260, e.get 300)
      | _ => (.err, .err)) = (.ok 260, .ok 1000000) := by decide +kernel

set_option maxRecDepth 40000

theorem efDecodeFrom_eq (e : EF) (f : Nat → Nat) (n s : Nat)
    (h : ∀ k, k < n → e.get (s + k) = .ok (f (s + k))) :
    efDecodeFrom e n s = .ok ((List.range' s n).map f) := by
  induction n generalizing s with
  | zero => rfl
  | succ n ih =>
    unfold efDecodeFrom
    have h0 := h 0 (by omega)
    rw [Nat.add_zero] at h0
    rw [h0]
    have := ih (s + 1) (fun k hk => by
      have := h (k + 1) (by omega)
      rw [show s + 1 + k = s + (k + 1) by omega]; exact this)
    rw [this]
    simp [List.range'_succ]

/-- F: iterating an Elias-Fano sequence returns the original sequence. -/
theorem c15b_ef_decode (vs : List Nat) (hs : strictlyIncreasing vs = true) (hW : ∀ v ∈ vs, v < W)
    (last : Nat) (hlast : vs.getLast? = some last) :
    ∃ e, EF.new vs = .ok e ∧ e.decode = .ok vs := by
  obtain ⟨e, h1, h2, h3⟩ := c15b_ef_get vs hs hW last hlast
  refine ⟨e, h1, ?_⟩
  unfold EF.decode
  rw [h2, efDecodeFrom_eq e (fun i => vs.getD i 0) vs.length 0 (fun k hk => by
    rw [Nat.zero_add, h3 k hk]; simp [List.getD, List.getElem?_eq_getElem hk])]
  congr 1
  apply List.ext_getElem?
  intro i
  rw [List.getElem?_map]
  by_cases hi : i < vs.length
  · rw [← List.range_eq_range', List.getElem?_range hi]
    simp [List.getD, List.getElem?_eq_getElem hi]
  · rw [← List.range_eq_range', List.getElem?_eq_none (by simpa using Nat.le_of_not_lt hi),
      List.getElem?_eq_none (by omega)]; rfl

/-- the empty sequence -/
example : EF.new [] = .ok ⟨0, 0, 0, 0, BVec.empty, SBV.ofBVec BVec.empty⟩ := rfl


set_option maxRecDepth 40000

/-! ### wavelet tree: list lemmas for one level -/

theorem filter_take_countP {α : Type} (P : α → Bool) (S : List α) (p : Nat) :
    (S.filter P).take ((S.take p).countP P) = (S.take p).filter P := by
  induction S generalizing p with
  | nil => simp
  | cons x xs ih =>
    cases p with
    | zero => simp
    | succ p =>
      simp only [List.take_succ_cons, List.filter_cons, List.countP_cons]
      by_cases hx : P x = true
      · simp only [hx, if_true, List.take_succ_cons, ih]
      · simp only [hx, Bool.false_eq_true, if_false, Nat.add_zero, ih]

theorem filter_drop_countP {α : Type} (P : α → Bool) (S : List α) (p : Nat) :
    (S.filter P).drop ((S.take p).countP P) = (S.drop p).filter P := by
  induction S generalizing p with
  | nil => simp
  | cons x xs ih =>
    cases p with
    | zero => simp
    | succ p =>
      simp only [List.take_succ_cons, List.filter_cons, List.countP_cons, List.drop_succ_cons]
      by_cases hx : P x = true
      · simp only [hx, if_true, List.drop_succ_cons, ih]
      · simp only [hx, Bool.false_eq_true, if_false, Nat.add_zero, ih]

/-- elements `lo ≤ · < hi` -/
def slice {α : Type} (S : List α) (lo hi : Nat) : List α := (S.take hi).drop lo

theorem countP_take_le {α : Type} (P : α → Bool) (S : List α) (p : Nat) :
    (S.take p).countP P ≤ (S.filter P).length := by
  rw [← List.countP_eq_length_filter]
  exact List.Sublist.countP_le (List.take_sublist p S)

theorem countP_take_mono {α : Type} (P : α → Bool) (S : List α) (a b : Nat) (h : a ≤ b) :
    (S.take a).countP P ≤ (S.take b).countP P := by
  apply List.Sublist.countP_le
  rw [show S.take a = (S.take b).take a by rw [List.take_take]; congr 1; omega]
  exact List.take_sublist a _

/-- the zero side of the stable partition holds, at the mapped interval, exactly the selected elements -/
theorem slice_left {α : Type} (P : α → Bool) (S F1 : List α) (lo hi : Nat) (h : lo ≤ hi) :
    slice (S.filter P ++ F1) ((S.take lo).countP P) ((S.take hi).countP P) =
      (slice S lo hi).filter P := by
  unfold slice
  rw [List.take_append_of_le_length (countP_take_le P S hi), filter_take_countP]
  have := filter_drop_countP P (S.take hi) lo
  rw [List.take_take, Nat.min_eq_left h] at this
  exact this

theorem slice_right {α : Type} (P : α → Bool) (S F0 : List α) (lo hi : Nat) (h : lo ≤ hi) :
    slice (F0 ++ S.filter P) (F0.length + (S.take lo).countP P) (F0.length + (S.take hi).countP P) =
      (slice S lo hi).filter P := by
  unfold slice
  rw [List.take_length_add_append, List.drop_length_add_append, filter_take_countP]
  have := filter_drop_countP P (S.take hi) lo
  rw [List.take_take, Nat.min_eq_left h] at this
  exact this

theorem getElem_filter_countP {α : Type} (P : α → Bool) (S : List α) (pos : Nat) (hp : pos < S.length)
    (hP : P S[pos] = true) : (S.filter P)[(S.take pos).countP P]? = some S[pos] := by
  have h := filter_drop_countP P S pos
  have hd : S.drop pos = S[pos] :: S.drop (pos + 1) := List.drop_eq_getElem_cons hp
  rw [hd, List.filter_cons, if_pos hP] at h
  have := congrArg List.head? h
  rw [List.head?_drop] at this
  simpa using this

theorem bitOf_eq_testBit (b c : Nat) : bitOf b c = c.testBit b := by
  unfold bitOf
  rw [Nat.testBit_eq_decide_div_mod_eq, Nat.shiftRight_eq_div_pow]
  by_cases h : c / 2 ^ b % 2 = 1 <;> simp [h]

/-! ### what one level's bit vector answers -/

structure LevelOK (s : SBV) (S : List Nat) (b : Nat) : Prop where
  rank1 : ∀ p, s.rank1 p = .ok ((S.take p).countP (bitOf b))
  rank0 : ∀ p, s.rank0 p = .ok ((S.take p).countP (fun c => !bitOf b c))
  zeros : s.countZeros = .ok (S.countP (fun c => !bitOf b c))
  get : ∀ p (hp : p < S.length), s.inner.get p = .ok (bitOf b S[p])
  sel1 : ∀ k, s.select1 k = .ok (Spec.select true (S.map (bitOf b)) k 0)
  sel0 : ∀ k, s.select0 k = .ok (Spec.select false (S.map (bitOf b)) k 0)

theorem specRank_map (P : Nat → Bool) (S : List Nat) (p : Nat) :
    Spec.rank true (S.map P) p = (S.take p).countP P ∧
    Spec.rank false (S.map P) p = (S.take p).countP (fun c => !P c) := by
  unfold Spec.rank
  rw [← List.map_take, List.filter_map, List.length_map, List.filter_map, List.length_map,
    List.countP_eq_length_filter, List.countP_eq_length_filter]
  constructor
  · congr 2; funext x; simp
  · congr 2; funext x; simp

theorem levelOK_of (S : List Nat) (b : Nat) (bits : BVec)
    (hb : BVec.empty.pushAll (levelBits b S) = .ok bits) :
    LevelOK (SBV.ofBVec bits) S b := by
  obtain ⟨v, h1, h2, h3, h4⟩ := c15b_bitvec_collect (levelBits b S)
  rw [hb] at h1
  cases h1
  have hr := fun p => c15b_sbv_rank bits h2 _ h4 p
  have hs := fun k => c15b_sbv_select bits h2 _ h4 k
  have hlen : bits.len = S.length := by
    have := toBools_wf bits h2
    rw [h4] at this
    have := congrArg (fun r => match r with | Res.ok l => l.length | _ => 0) this
    simp [levelBits] at this
    exact this.symm
  refine ⟨?_, ?_, ?_, ?_, fun k => (hs k).1, fun k => (hs k).2⟩
  · intro p; rw [(hr p).1]; unfold levelBits; rw [(specRank_map _ S p).1]
  · intro p; rw [(hr p).2]; unfold levelBits; rw [(specRank_map _ S p).2]
  · -- zeros = len - ones
    unfold SBV.countZeros
    rw [ofBVec_inner, ofBVec_ones, cum_full bits h2]
    have h1 := rank1_correct bits h2 bits.len
    rw [(hr bits.len).1, Nat.min_self] at h1
    have heq := Res.ok.inj h1
    unfold levelBits at heq
    rw [← heq, (specRank_map _ S bits.len).1, hlen, List.take_length]
    unfold usub
    have hsum := List.length_eq_countP_add_countP (p := bitOf b) (l := S)
    rw [if_neg (by omega)]
    congr 1
    have : S.countP (fun c => !bitOf b c) = S.countP (fun a => decide ¬bitOf b a = true) := by
      apply List.countP_congr; intro x _; cases bitOf b x <;> simp
    rw [this]; omega
  · intro p hp
    rw [ofBVec_inner, get_wf bits h2, if_pos (by omega)]
    congr 1
    have := toBools_wf bits h2
    rw [h4] at this
    have heq := Res.ok.inj this
    have := congrArg (fun l => l[p]?) heq
    simp only [levelBits, List.getElem?_map, List.getElem?_eq_getElem hp, Option.map_some,
      List.getElem?_range (show p < bits.len by omega)] at this
    exact (Option.some.inj this).symm


set_option maxRecDepth 40000

/-! ### wavelet tree: access and rank -/

theorem buildLevels_succ (n : Nat) (S : List Nat) :
    ∃ bits rest, BVec.empty.pushAll (levelBits n S) = .ok bits ∧
      buildLevels n (partitionLevel n S) = .ok rest ∧
      buildLevels (n + 1) S = .ok (SBV.ofBVec bits :: rest) := by
  induction n generalizing S with
  | zero =>
    obtain ⟨bits, hb, _⟩ := c15b_bitvec_collect (levelBits 0 S)
    exact ⟨bits, [], hb, rfl, by simp [buildLevels, hb]⟩
  | succ n ih =>
    obtain ⟨bits, hb, _⟩ := c15b_bitvec_collect (levelBits (n + 1) S)
    obtain ⟨b2, r2, _, _, h3⟩ := ih (partitionLevel (n + 1) S)
    refine ⟨bits, _, hb, h3, ?_⟩
    conv => lhs; unfold buildLevels
    rw [hb]; simp only; rw [h3]

theorem partitionLevel_length (b : Nat) (S : List Nat) : (partitionLevel b S).length = S.length := by
  unfold partitionLevel
  rw [List.length_append, ← List.countP_eq_length_filter, ← List.countP_eq_length_filter]
  have hsum := List.length_eq_countP_add_countP (p := bitOf b) (l := S)
  have : S.countP (fun c => !bitOf b c) = S.countP (fun a => decide ¬bitOf b a = true) := by
    apply List.countP_congr; intro x _; cases bitOf b x <;> simp
  rw [this]; omega

theorem countP_take_le_len {α : Type} (P : α → Bool) (S : List α) (p : Nat) :
    (S.take p).countP P ≤ S.countP P := List.Sublist.countP_le (List.take_sublist p S)

/-- position of an element in the next level's arrangement -/
theorem partition_get (b : Nat) (S : List Nat) (pos : Nat) (hp : pos < S.length) :
    (partitionLevel b S)[if bitOf b S[pos] then S.countP (fun c => !bitOf b c) + (S.take pos).countP (bitOf b)
      else (S.take pos).countP (fun c => !bitOf b c)]? = some S[pos] := by
  unfold partitionLevel
  by_cases hb : bitOf b S[pos] = true
  · rw [if_pos hb, List.countP_eq_length_filter, List.getElem?_append_right (by omega),
      Nat.add_sub_cancel_left]
    exact getElem_filter_countP _ S pos hp hb
  · rw [if_neg hb]
    have hb' : (fun c => !bitOf b c) S[pos] = true := by simpa using hb
    have h := getElem_filter_countP (fun c => !bitOf b c) S pos hp hb'
    have hlt : (S.take pos).countP (fun c => !bitOf b c) < (S.filter (fun c => !bitOf b c)).length := by
      apply Classical.byContradiction; intro hn
      rw [List.getElem?_eq_none (by omega)] at h; cases h
    rw [List.getElem?_append_left hlt]; exact h


theorem accessLoop_spec (n : Nat) (S : List Nat) (levels : List SBV) (hb : buildLevels n S = .ok levels)
    (pos : Nat) (hp : pos < S.length) (code0 : Nat) :
    ∃ code, accessLoop levels n pos code0 = .ok code ∧
      ∀ t, code.testBit t = (code0.testBit t || (decide (t < n) && S[pos].testBit t)) := by
  induction n generalizing S levels pos code0 with
  | zero =>
    simp only [buildLevels, Res.ok.injEq] at hb
    subst hb
    exact ⟨code0, rfl, by intro t; simp⟩
  | succ n ih =>
    obtain ⟨bits, rest, h1, h2, h3⟩ := buildLevels_succ n S
    rw [h3] at hb
    cases hb
    have hlv := levelOK_of S n bits h1
    have hpg := partition_get n S pos hp
    unfold accessLoop
    unfold getOrFalse
    rw [hlv.get pos hp]
    simp only
    by_cases hbit : bitOf n S[pos] = true
    · rw [hbit] at hpg ⊢
      simp only [if_true] at hpg
      simp only
      rw [hlv.zeros, hlv.rank1]
      simp only [Nat.add_sub_cancel]
      have hpos' : S.countP (fun c => !bitOf n c) + (S.take pos).countP (bitOf n) <
          (partitionLevel n S).length := by
        apply Classical.byContradiction; intro hn
        rw [List.getElem?_eq_none (by omega)] at hpg; cases hpg
      obtain ⟨code, g1, g2⟩ := ih (partitionLevel n S) rest h2 _ hpos' (code0 ||| 1 <<< n)
      refine ⟨code, g1, ?_⟩
      intro t
      rw [g2 t]
      rw [List.getElem?_eq_getElem hpos'] at hpg
      rw [Option.some.inj hpg, Nat.testBit_or, Nat.one_shiftLeft, Nat.testBit_two_pow]
      have hbn : S[pos].testBit n = true := by rw [← bitOf_eq_testBit]; exact hbit
      by_cases htn : t = n
      · subst htn; simp [hbn]
      · have : n ≠ t := fun h => htn h.symm
        by_cases hlt : t < n
        · have : t < n + 1 := by omega
          simp [*]
        · have : ¬ t < n + 1 := by omega
          simp [*]
    · have hbf : bitOf n S[pos] = false := by simpa using hbit
      rw [hbf] at hpg ⊢
      simp only [Bool.false_eq_true, if_false] at hpg
      simp only
      rw [hlv.rank0]
      simp only [Nat.add_sub_cancel]
      have hpos' : (S.take pos).countP (fun c => !bitOf n c) < (partitionLevel n S).length := by
        apply Classical.byContradiction; intro hn
        rw [List.getElem?_eq_none (by omega)] at hpg; cases hpg
      obtain ⟨code, g1, g2⟩ := ih (partitionLevel n S) rest h2 _ hpos' code0
      refine ⟨code, g1, ?_⟩
      intro t
      rw [g2 t]
      rw [List.getElem?_eq_getElem hpos'] at hpg
      rw [Option.some.inj hpg]
      have hbn : S[pos].testBit n = false := by rw [← bitOf_eq_testBit]; exact hbf
      by_cases htn : t = n
      · subst htn; simp [hbn]
      · by_cases hlt : t < n
        · have : t < n + 1 := by omega
          simp [*]
        · have : ¬ t < n + 1 := by omega
          simp [*]

/-- low `n+1` bits agree ⇔ bit `n` agrees and the low `n` bits agree -/
theorem low_bits_split (n code x : Nat) : (x % 2 ^ (n + 1) == code % 2 ^ (n + 1)) =
    ((bitOf n x == bitOf n code) && (x % 2 ^ n == code % 2 ^ n)) := by
  have hx : x % 2 ^ (n + 1) = x % 2 ^ n + 2 ^ n * (if bitOf n x then 1 else 0) := by
    rw [bitOf_eq_testBit, Nat.testBit_eq_decide_div_mod_eq, Nat.pow_succ, Nat.mod_mul]
    by_cases h : x / 2 ^ n % 2 = 1
    · simp [h]
    · have : x / 2 ^ n % 2 = 0 := by omega
      simp [this]
  have hc : code % 2 ^ (n + 1) = code % 2 ^ n + 2 ^ n * (if bitOf n code then 1 else 0) := by
    rw [bitOf_eq_testBit, Nat.testBit_eq_decide_div_mod_eq, Nat.pow_succ, Nat.mod_mul]
    by_cases h : code / 2 ^ n % 2 = 1
    · simp [h]
    · have : code / 2 ^ n % 2 = 0 := by omega
      simp [this]
  have hxl : x % 2 ^ n < 2 ^ n := Nat.mod_lt _ (Nat.two_pow_pos _)
  have hcl : code % 2 ^ n < 2 ^ n := Nat.mod_lt _ (Nat.two_pow_pos _)
  rw [hx, hc]
  generalize 2 ^ n = m at hxl hcl ⊢
  generalize x % m = a at hxl ⊢
  generalize code % m = c at hcl ⊢
  clear hx hc
  cases bitOf n x <;> cases bitOf n code <;> simp
  · omega
  · omega
  · rw [Bool.eq_iff_iff]; simp only [beq_iff_eq]; omega

/-- the interval `[lo, hi)` shrinks to the elements whose low `n` bits are those of `code` -/
theorem descend_spec (n : Nat) (S : List Nat) (levels : List SBV) (hb : buildLevels n S = .ok levels)
    (code lo hi : Nat) (hlh : lo ≤ hi) (hhi : hi ≤ S.length) :
    ∃ lo' hi', descend code levels n lo hi = .ok (lo', hi') ∧ lo' ≤ hi' ∧
      hi' - lo' = (slice S lo hi).countP (fun x => x % 2 ^ n == code % 2 ^ n) := by
  induction n generalizing S levels lo hi with
  | zero =>
    simp only [buildLevels, Res.ok.injEq] at hb
    subst hb
    refine ⟨lo, hi, rfl, hlh, ?_⟩
    simp only [Nat.pow_zero, Nat.mod_one, beq_self_eq_true, List.countP_true]
    unfold slice; simp; omega
  | succ n ih =>
    obtain ⟨bits, rest, h1, h2, h3⟩ := buildLevels_succ n S
    rw [h3] at hb
    cases hb
    have hlv := levelOK_of S n bits h1
    have hplen := partitionLevel_length n S
    have hsplit := fun x => low_bits_split n code x
    unfold descend
    simp only [Nat.add_sub_cancel]
    by_cases hcb : bitOf n code = true
    · rw [hcb]
      simp only [Bool.not_true, Bool.false_eq_true, if_false]
      rw [hlv.zeros, hlv.rank1, hlv.rank1]
      simp only
      have hsl := slice_right (bitOf n) S (S.filter (fun c => !bitOf n c)) lo hi hlh
      rw [← List.countP_eq_length_filter] at hsl
      obtain ⟨lo', hi', g1, g2, g3⟩ := ih (partitionLevel n S) rest h2
        (S.countP (fun c => !bitOf n c) + (S.take lo).countP (bitOf n))
        (S.countP (fun c => !bitOf n c) + (S.take hi).countP (bitOf n))
        (by have := countP_take_mono (bitOf n) S lo hi hlh; omega)
        (by
          rw [hplen]
          have := countP_take_le_len (bitOf n) S hi
          have hsum := List.length_eq_countP_add_countP (p := bitOf n) (l := S)
          have e : S.countP (fun c => !bitOf n c) = S.countP (fun a => decide ¬bitOf n a = true) := by
            apply List.countP_congr; intro x _; cases bitOf n x <;> simp
          omega)
      refine ⟨lo', hi', g1, g2, ?_⟩
      rw [g3]
      unfold partitionLevel
      rw [hsl, List.countP_filter]
      apply List.countP_congr
      intro x _
      rw [hsplit x, hcb]
      cases bitOf n x <;> simp
    · have hcf : bitOf n code = false := by simpa using hcb
      rw [hcf]
      simp only [Bool.not_false, if_true]
      rw [hlv.rank0, hlv.rank0]
      simp only
      have hsl := slice_left (fun c => !bitOf n c) S (S.filter (bitOf n)) lo hi hlh
      obtain ⟨lo', hi', g1, g2, g3⟩ := ih (partitionLevel n S) rest h2
        ((S.take lo).countP (fun c => !bitOf n c)) ((S.take hi).countP (fun c => !bitOf n c))
        (countP_take_mono _ S lo hi hlh)
        (by
          rw [hplen]
          have := countP_take_le_len (fun c => !bitOf n c) S hi
          have := List.countP_le_length (p := fun c => !bitOf n c) (l := S)
          omega)
      refine ⟨lo', hi', g1, g2, ?_⟩
      rw [g3]
      unfold partitionLevel
      rw [hsl, List.countP_filter]
      apply List.countP_congr
      intro x _
      rw [hsplit x, hcf]
      cases bitOf n x <;> simp


set_option maxRecDepth 40000

theorem mem_insertSorted (x y : Nat) (l : List Nat) : y ∈ insertSorted x l ↔ y = x ∨ y ∈ l := by
  induction l with
  | nil => simp [insertSorted]
  | cons z zs ih =>
    unfold insertSorted
    split
    · simp
    · split
      · rename_i h; subst h; simp
      · simp only [List.mem_cons, ih]
        constructor
        · rintro (h | h | h)
          · right; left; exact h
          · left; exact h
          · right; right; exact h
        · rintro (h | h | h)
          · right; left; exact h
          · left; exact h
          · right; right; exact h

theorem mem_sortDedup (y : Nat) (l : List Nat) : y ∈ sortDedup l ↔ y ∈ l := by
  induction l with
  | nil => simp [sortDedup]
  | cons x xs ih => simp only [sortDedup, mem_insertSorted, ih, List.mem_cons]

theorem idxOf?_of_mem (l : List Nat) (s : Nat) (h : s ∈ l) :
    ∃ c, l.idxOf? s = some c ∧ c < l.length ∧ l[c]? = some s := by
  induction l with
  | nil => cases h
  | cons x xs ih =>
    rw [List.idxOf?_cons]
    by_cases hx : x = s
    · subst hx; exact ⟨0, by simp, by simp, by simp⟩
    · have hb : (x == s) = false := by simpa using hx
      rw [hb]
      have hm : s ∈ xs := by
        rcases List.mem_cons.mp h with h | h
        · exact absurd h.symm hx
        · exact h
      obtain ⟨c, h1, h2, h3⟩ := ih hm
      refine ⟨c + 1, by simp [h1], by simp; omega, by simpa using h3⟩

theorem idxOf?_some_get (l : List Nat) (s c : Nat) (h : l.idxOf? s = some c) : l[c]? = some s := by
  induction l generalizing c with
  | nil => simp at h
  | cons x xs ih =>
    rw [List.idxOf?_cons] at h
    by_cases hx : x = s
    · have hb : (x == s) = true := by simpa using hx
      rw [hb] at h; simp at h; subst h; simp [hx]
    · have hb : (x == s) = false := by simpa using hx
      rw [hb] at h
      cases hc : xs.idxOf? s with
      | none => rw [hc] at h; simp at h
      | some c' =>
        rw [hc] at h; simp at h; subst h
        simpa using ih c' hc

/-- what `WaveletTree::new` builds for a non-empty sequence -/
theorem wtNew_nonempty (seq : List Nat) (hne : seq ≠ []) :
    ∃ levels, WT.new seq = .ok ⟨levels,
        if (sortDedup seq).length ≤ 1 then 1 else bitLen ((sortDedup seq).length - 1),
        (sortDedup seq).length, seq.length, sortDedup seq⟩ ∧
      buildLevels (if (sortDedup seq).length ≤ 1 then 1 else bitLen ((sortDedup seq).length - 1))
        (seq.map (fun s => (codeOf (sortDedup seq) s).getD 0)) = .ok levels := by
  have hbl : ∀ n S, ∃ levels, buildLevels n S = .ok levels := by
    intro n S
    cases n with
    | zero => exact ⟨[], rfl⟩
    | succ n => obtain ⟨b, r, _, _, h⟩ := buildLevels_succ n S; exact ⟨_, h⟩
  obtain ⟨levels, hl⟩ := hbl (if (sortDedup seq).length ≤ 1 then 1 else bitLen ((sortDedup seq).length - 1))
    (seq.map (fun s => (codeOf (sortDedup seq) s).getD 0))
  refine ⟨levels, ?_, hl⟩
  unfold WT.new
  have : seq.isEmpty = false := by cases seq <;> simp_all
  rw [this]
  simp only [Bool.false_eq_true, if_false]
  rw [hl]

theorem sigma_le (sigma : Nat) : sigma ≤ 2 ^ (if sigma ≤ 1 then 1 else bitLen (sigma - 1)) := by
  split
  · omega
  · have := lt_two_pow_bitLen (sigma - 1); omega

/-- code of a symbol that occurs in the sequence -/
theorem code_of_mem (seq : List Nat) (s : Nat) (hs : s ∈ seq) :
    ∃ c, codeOf (sortDedup seq) s = some c ∧ (sortDedup seq)[c]? = some s ∧
      c < 2 ^ (if (sortDedup seq).length ≤ 1 then 1 else bitLen ((sortDedup seq).length - 1)) := by
  obtain ⟨c, h1, h2, h3⟩ := idxOf?_of_mem (sortDedup seq) s ((mem_sortDedup s seq).mpr hs)
  exact ⟨c, h1, h3, Nat.lt_of_lt_of_le h2 (sigma_le _)⟩

/-- F: `access(i)` of a wavelet tree is the `i`-th symbol. -/
theorem c15b_wt_access (seq : List Nat) (w : WT) (hw : WT.new seq = .ok w)
    (i : Nat) (hi : i < seq.length) : w.access i = .ok seq[i] := by
  have hne : seq ≠ [] := by intro h; subst h; simp at hi
  obtain ⟨levels, h1, h2⟩ := wtNew_nonempty seq hne
  rw [h1] at hw
  cases hw
  obtain ⟨c, hc1, hc2, hc3⟩ := code_of_mem seq seq[i] (List.getElem_mem hi)
  have hlen : i < (seq.map (fun s => (codeOf (sortDedup seq) s).getD 0)).length := by simpa using hi
  obtain ⟨code, g1, g2⟩ := accessLoop_spec _ _ levels h2 i hlen 0
  unfold WT.access
  simp only
  rw [if_neg (by omega), g1]
  simp only
  have hcode : code = c := by
    apply Nat.eq_of_testBit_eq
    intro t
    rw [g2 t]
    simp only [Nat.zero_testBit, Bool.false_or, List.getElem_map, hc1, Option.getD_some]
    by_cases ht : t < (if (sortDedup seq).length ≤ 1 then 1 else bitLen ((sortDedup seq).length - 1))
    · simp [ht]
    · have : c.testBit t = false := by
        apply Nat.testBit_lt_two_pow
        exact Nat.lt_of_lt_of_le hc3 (Nat.pow_le_pow_right (by decide) (by omega))
      simp [ht, this]
  rw [hcode]
  simp [List.getD, hc2]

theorem accessAll_eq (w : WT) (f : Nat → Nat) (n s : Nat)
    (h : ∀ k, k < n → w.access (s + k) = .ok (f (s + k))) :
    accessAll w n s = .ok ((List.range' s n).map f) := by
  induction n generalizing s with
  | zero => rfl
  | succ n ih =>
    unfold accessAll
    have h0 := h 0 (by omega)
    rw [Nat.add_zero] at h0
    rw [h0]
    have := ih (s + 1) (fun k hk => by
      have := h (k + 1) (by omega)
      rw [show s + 1 + k = s + (k + 1) by omega]; exact this)
    rw [this]
    simp [List.range'_succ]

/-- F: iterating the tree returns the original sequence. -/
theorem c15b_wt_decode (seq : List Nat) (w : WT) (hw : WT.new seq = .ok w)
    : w.decode = .ok seq := by
  have hlen : w.len = seq.length := by
    by_cases hne : seq = []
    · subst hne; simp [WT.new] at hw; subst hw; rfl
    · obtain ⟨levels, h1, _⟩ := wtNew_nonempty seq hne
      rw [h1] at hw; cases hw; rfl
  unfold WT.decode
  rw [hlen, accessAll_eq w (fun i => seq.getD i 0) seq.length 0 (fun k hk => by
    rw [Nat.zero_add, c15b_wt_access seq w hw k hk]
    simp [List.getD, List.getElem?_eq_getElem hk])]
  congr 1
  apply List.ext_getElem?
  intro i
  rw [List.getElem?_map]
  by_cases hi : i < seq.length
  · rw [← List.range_eq_range', List.getElem?_range hi]
    simp [List.getD, List.getElem?_eq_getElem hi]
  · rw [← List.range_eq_range', List.getElem?_eq_none (by simpa using Nat.le_of_not_lt hi),
      List.getElem?_eq_none (by omega)]; rfl

/-- F: `rank(symbol, i)` is the number of occurrences of `symbol` among the first `i` symbols. -/
theorem c15b_wt_rank (seq : List Nat) (w : WT) (hw : WT.new seq = .ok w)
    (sym i : Nat) : w.rank sym i = .ok (Spec.symRank seq sym i) := by
  by_cases hne : seq = []
  · subst hne
    simp [WT.new] at hw; subst hw
    simp [WT.rank, Spec.symRank]
  obtain ⟨levels, h1, h2⟩ := wtNew_nonempty seq hne
  rw [h1] at hw
  cases hw
  unfold WT.rank
  simp only
  by_cases h0 : i = 0
  · subst h0; simp [Spec.symRank]
  have hlen0 : seq.length ≠ 0 := fun h => hne (List.length_eq_zero_iff.mp h)
  rw [if_neg (by omega)]
  by_cases hmem : sym ∈ seq
  · obtain ⟨c, hc1, hc2, hc3⟩ := code_of_mem seq sym hmem
    rw [hc1]
    simp only
    obtain ⟨lo', hi', g1, g2, g3⟩ := descend_spec _ _ levels h2 c 0 (min i seq.length)
      (Nat.zero_le _) (by simp; omega)
    rw [g1]
    simp only
    unfold usub
    rw [if_neg (by omega)]
    congr 1
    rw [g3]
    unfold slice Spec.symRank
    rw [List.drop_zero, ← List.map_take, List.countP_map, List.countP_eq_length_filter]
    have htake : seq.take (min i seq.length) = seq.take i := by
      by_cases hle : i ≤ seq.length
      · rw [Nat.min_eq_left hle]
      · rw [Nat.min_eq_right (by omega), List.take_of_length_le (Nat.le_refl _),
          List.take_of_length_le (by omega)]
    rw [htake]
    congr 1
    apply List.filter_congr
    intro x hx
    have hxm : x ∈ seq := List.mem_of_mem_take hx
    obtain ⟨cx, hx1, hx2, hx3⟩ := code_of_mem seq x hxm
    simp only [Function.comp, hx1, Option.getD_some]
    rw [Nat.mod_eq_of_lt hx3, Nat.mod_eq_of_lt hc3]
    by_cases hxs : x = sym
    · subst hxs
      rw [hc1] at hx1; cases hx1; simp
    · have : cx ≠ c := by
        intro h; subst h
        rw [hc2] at hx2; cases hx2; exact hxs rfl
      have h1 : (cx == c) = false := by simpa using this
      have h2 : (x == sym) = false := by simpa using hxs
      rw [h1, h2]
  · have hnone : codeOf (sortDedup seq) sym = none := by
      unfold codeOf
      cases h : (sortDedup seq).idxOf? sym with
      | none => rfl
      | some c =>
        have := idxOf?_some_get _ _ _ h
        have hm : sym ∈ sortDedup seq := by
          obtain ⟨hl, he⟩ := List.getElem?_eq_some_iff.mp this
          rw [← he]; exact List.getElem_mem hl
        exact absurd ((mem_sortDedup sym seq).mp hm) hmem
    rw [hnone]
    simp only
    congr 1
    unfold Spec.symRank
    symm
    rw [List.length_eq_zero_iff, List.filter_eq_nil_iff]
    intro x hx
    have hxm : x ∈ seq := List.mem_of_mem_take hx
    have : x ≠ sym := fun h => hmem (h ▸ hxm)
    simpa using this


set_option maxRecDepth 40000

/-- N: a long run of one symbol (the case the truncated block ranks broke) and a small alphabet. -/
theorem c15b_wt_nonvacuity :
    (match WT.new (List.replicate 600 9 ++ [3]) with
      | .ok w => (w.rank 9 300, w.select 9 300, w.access 600)
      | _ => (.err, .err, .err)) = (.ok 300, .ok (some 300), .ok 3) ∧
    (match WT.new [0, 1, 0, 2, 1, 0, 2, 2] with
      | .ok w => (w.rank 0 6, w.access 3)
      | _ => (.err, .err)) = (.ok 3, .ok 2) := by
  constructor <;> decide +kernel

/-! ### wavelet tree: select -/

theorem ascend_append (code : Nat) (xs ys : List SBV) (bp pos : Nat) :
    ascend code (xs ++ ys) bp pos =
      match ascend code xs bp pos with
      | .ok (some p) => ascend code ys (bp + xs.length) p
      | .ok none => .ok none
      | .err => .err
      | .panic => .panic := by
  induction xs generalizing bp pos with
  | nil => simp [ascend]
  | cons x xs ih =>
    simp only [List.cons_append, ascend, List.length_cons]
    have e : bp + (xs.length + 1) = bp + 1 + xs.length := by omega
    split
    · cases h : x.select0 pos with
      | ok o =>
        cases o with
        | some p => simp only [ih, e]
        | none => rfl
      | err => rfl
      | panic => rfl
    · cases hz : x.countZeros with
      | ok z =>
        simp only
        split
        · rfl
        · cases h : x.select1 (pos - z) with
          | ok o =>
            cases o with
            | some p => simp only [ih, e]
            | none => rfl
          | err => rfl
          | panic => rfl
      | err => rfl
      | panic => rfl

/-- the `k`-th element satisfying `P` exists when there are more than `k` of them -/
theorem exists_kth {α : Type} (P : α → Bool) (S : List α) (k : Nat) (hk : k < S.countP P) :
    ∃ p, ∃ hp : p < S.length, P S[p] = true ∧ (S.take p).countP P = k := by
  induction S generalizing k with
  | nil => simp at hk
  | cons x xs ih =>
    rw [List.countP_cons] at hk
    by_cases hx : P x = true
    · simp only [hx, if_true] at hk
      cases k with
      | zero => exact ⟨0, by simp, by simpa using hx, by simp⟩
      | succ k =>
        obtain ⟨p, hp, h1, h2⟩ := ih k (by omega)
        refine ⟨p + 1, by simp; omega, by simpa using h1, ?_⟩
        rw [List.take_succ_cons, List.countP_cons, h2]; simp [hx]
    · simp only [hx, Bool.false_eq_true, if_false, Nat.add_zero] at hk
      obtain ⟨p, hp, h1, h2⟩ := ih k hk
      refine ⟨p + 1, by simp; omega, by simpa using h1, ?_⟩
      rw [List.take_succ_cons, List.countP_cons, h2]; simp [hx]

theorem select_true_map (P : Nat → Bool) (S : List Nat) (k : Nat) (hk : k < S.countP P) :
    ∃ p, ∃ hp : p < S.length, Spec.select true (S.map P) k 0 = some p ∧ P S[p] = true ∧
      (S.take p).countP P = k := by
  obtain ⟨p, hp, h1, h2⟩ := exists_kth P S k hk
  refine ⟨p, hp, ?_, h1, h2⟩
  have := specSelect_of true (S.map P) k 0 p (by simpa using hp) (by simpa using h1) (by
    have := (specRank_map P S p).1
    unfold Spec.rank at this
    rw [this, h2])
  rw [this, Nat.zero_add]

theorem select_false_map (P : Nat → Bool) (S : List Nat) (k : Nat) (hk : k < S.countP (fun c => !P c)) :
    ∃ p, ∃ hp : p < S.length, Spec.select false (S.map P) k 0 = some p ∧ P S[p] = false ∧
      (S.take p).countP (fun c => !P c) = k := by
  obtain ⟨p, hp, h1, h2⟩ := exists_kth (fun c => !P c) S k hk
  have h1' : P S[p] = false := by simpa using h1
  refine ⟨p, hp, ?_, h1', h2⟩
  have := specSelect_of false (S.map P) k 0 p (by simpa using hp) (by simpa using h1') (by
    have := (specRank_map P S p).2
    unfold Spec.rank at this
    rw [this, h2])
  rw [this, Nat.zero_add]

theorem countP_take_succ {α : Type} (P : α → Bool) (S : List α) (p : Nat) (hp : p < S.length) :
    (S.take (p + 1)).countP P = (S.take p).countP P + (if P S[p] then 1 else 0) := by
  rw [List.take_add_one, List.countP_append]
  simp [List.getElem?_eq_getElem hp, List.countP_cons]

theorem buildLevels_length (n : Nat) (S : List Nat) (levels : List SBV)
    (h : buildLevels n S = .ok levels) : levels.length = n := by
  induction n generalizing S levels with
  | zero => simp only [buildLevels, Res.ok.injEq] at h; subst h; rfl
  | succ n ih =>
    obtain ⟨bits, rest, _, h2, h3⟩ := buildLevels_succ n S
    rw [h3] at h; cases h
    simp [ih _ _ h2]

/-- descent followed by ascent: the `k`-th element of `[lo, hi)` whose low `n` bits are those of
`code` is found at its position in the original arrangement -/
theorem ascend_spec (n : Nat) (S : List Nat) (levels : List SBV) (hb : buildLevels n S = .ok levels)
    (code lo hi : Nat) (hlh : lo ≤ hi) (hhi : hi ≤ S.length)
    (lo' hi' : Nat) (hd : descend code levels n lo hi = .ok (lo', hi')) (k : Nat) (hk : k < hi' - lo') :
    ∃ p, ∃ hp : p < S.length, ascend code levels.reverse 0 (lo' + k) = .ok (some p) ∧ lo ≤ p ∧ p < hi ∧
      S[p] % 2 ^ n = code % 2 ^ n ∧
      (slice S lo p).countP (fun x => x % 2 ^ n == code % 2 ^ n) = k := by
  induction n generalizing S levels lo hi lo' hi' with
  | zero =>
    simp only [buildLevels, Res.ok.injEq] at hb
    subst hb
    simp only [descend, Res.ok.injEq, Prod.mk.injEq] at hd
    obtain ⟨rfl, rfl⟩ := hd
    refine ⟨lo + k, by omega, rfl, by omega, by omega, by simp [Nat.mod_one], ?_⟩
    simp only [Nat.pow_zero, Nat.mod_one, beq_self_eq_true, List.countP_true]
    unfold slice; simp; omega
  | succ n ih =>
    obtain ⟨bits, rest, h1, h2, h3⟩ := buildLevels_succ n S
    rw [h3] at hb
    cases hb
    have hlv := levelOK_of S n bits h1
    have hplen := partitionLevel_length n S
    have hrl := buildLevels_length n _ rest h2
    have hsplit := fun x => low_bits_split n code x
    have hsum := List.length_eq_countP_add_countP (p := bitOf n) (l := S)
    have hnot : S.countP (fun c => !bitOf n c) = S.countP (fun a => decide ¬bitOf n a = true) := by
      apply List.countP_congr; intro x _; cases bitOf n x <;> simp
    rw [List.reverse_cons, ascend_append]
    unfold descend at hd
    simp only [Nat.add_sub_cancel] at hd
    by_cases hcb : bitOf n code = true
    · rw [hcb] at hd
      simp only [Bool.not_true, Bool.false_eq_true, if_false] at hd
      rw [hlv.zeros, hlv.rank1, hlv.rank1] at hd
      simp only at hd
      have hmono := countP_take_mono (bitOf n) S lo hi hlh
      have hle := countP_take_le_len (bitOf n) S hi
      obtain ⟨p', hp', g1, g2, g3, g4, g5⟩ := ih (partitionLevel n S) rest h2
        (S.countP (fun c => !bitOf n c) + (S.take lo).countP (bitOf n))
        (S.countP (fun c => !bitOf n c) + (S.take hi).countP (bitOf n))
        (by omega) (by rw [hplen]; omega) lo' hi' hd hk
      rw [g1]
      simp only [Nat.zero_add, List.length_reverse, hrl, ascend, hcb, Bool.not_true,
        Bool.false_eq_true, if_false]
      rw [hlv.zeros]
      simp only
      rw [if_neg (by omega), hlv.sel1]
      obtain ⟨p, hp, s1, s2, s3⟩ := select_true_map (bitOf n) S
        (p' - S.countP (fun c => !bitOf n c)) (by omega)
      rw [s1]
      simp only
      have hps := countP_take_succ (bitOf n) S p hp
      rw [s2] at hps
      simp only [if_true] at hps
      have hlo : lo ≤ p := by
        apply Classical.byContradiction; intro hn
        have := countP_take_mono (bitOf n) S (p + 1) lo (by omega)
        omega
      have hhi' : p < hi := by
        apply Classical.byContradiction; intro hn
        have := countP_take_mono (bitOf n) S hi p (by omega)
        omega
      -- the element found is the one that sits at `p'` on the next level
      have hpg := partition_get n S p hp
      rw [s2] at hpg
      simp only [if_true] at hpg
      have hpe : S.countP (fun c => !bitOf n c) + (S.take p).countP (bitOf n) = p' := by omega
      rw [hpe, List.getElem?_eq_getElem hp'] at hpg
      have hel : (partitionLevel n S)[p'] = S[p] := Option.some.inj hpg
      refine ⟨p, hp, rfl, hlo, hhi', ?_, ?_⟩
      · have := hsplit S[p]
        have g4' : S[p] % 2 ^ n = code % 2 ^ n := by rw [← hel]; exact g4
        rw [s2, hcb, g4'] at this
        simpa using this
      · have hsl := slice_right (bitOf n) S (S.filter (fun c => !bitOf n c)) lo p hlo
        rw [← List.countP_eq_length_filter, hpe] at hsl
        unfold partitionLevel at g5
        rw [hsl, List.countP_filter] at g5
        rw [← g5]
        apply List.countP_congr
        intro x _
        rw [hsplit x, hcb]
        cases bitOf n x <;> simp
    · have hcf : bitOf n code = false := by simpa using hcb
      rw [hcf] at hd
      simp only [Bool.not_false, if_true] at hd
      rw [hlv.rank0, hlv.rank0] at hd
      simp only at hd
      have hmono := countP_take_mono (fun c => !bitOf n c) S lo hi hlh
      have hle := countP_take_le_len (fun c => !bitOf n c) S hi
      have hcl := List.countP_le_length (p := fun c => !bitOf n c) (l := S)
      obtain ⟨p', hp', g1, g2, g3, g4, g5⟩ := ih (partitionLevel n S) rest h2
        ((S.take lo).countP (fun c => !bitOf n c)) ((S.take hi).countP (fun c => !bitOf n c))
        hmono (by rw [hplen]; omega) lo' hi' hd hk
      rw [g1]
      simp only [Nat.zero_add, List.length_reverse, hrl, ascend, hcf, Bool.not_false, if_true]
      rw [hlv.sel0]
      obtain ⟨p, hp, s1, s2, s3⟩ := select_false_map (bitOf n) S p' (by omega)
      rw [s1]
      simp only
      have hps := countP_take_succ (fun c => !bitOf n c) S p hp
      simp only [s2, Bool.not_false, if_true] at hps
      have hlo : lo ≤ p := by
        apply Classical.byContradiction; intro hn
        have := countP_take_mono (fun c => !bitOf n c) S (p + 1) lo (by omega)
        omega
      have hhi' : p < hi := by
        apply Classical.byContradiction; intro hn
        have := countP_take_mono (fun c => !bitOf n c) S hi p (by omega)
        omega
      have hpg := partition_get n S p hp
      rw [s2] at hpg
      simp only [Bool.false_eq_true, if_false] at hpg
      rw [s3, List.getElem?_eq_getElem hp'] at hpg
      have hel : (partitionLevel n S)[p'] = S[p] := Option.some.inj hpg
      refine ⟨p, hp, rfl, hlo, hhi', ?_, ?_⟩
      · have := hsplit S[p]
        have g4' : S[p] % 2 ^ n = code % 2 ^ n := by rw [← hel]; exact g4
        rw [s2, hcf, g4'] at this
        simpa using this
      · have hsl := slice_left (fun c => !bitOf n c) S (S.filter (bitOf n)) lo p hlo
        rw [s3] at hsl
        unfold partitionLevel at g5
        rw [hsl, List.countP_filter] at g5
        rw [← g5]
        apply List.countP_congr
        intro x _
        rw [hsplit x, hcf]
        cases bitOf n x <;> simp


set_option maxRecDepth 40000

theorem symSelect_eq (s : Nat) (l : List Nat) (k off : Nat) :
    Spec.symSelect s l k off = Spec.select true (l.map (· == s)) k off := by
  induction l generalizing k off with
  | nil => rfl
  | cons x xs ih =>
    simp only [Spec.symSelect, List.map_cons, Spec.select, ih]
    by_cases hx : (x == s) = true
    · simp [hx]
    · have : (x == s) = false := by simpa using hx
      simp [this]

/-- codes agree on the low `h` bits exactly when the symbols agree -/
theorem code_match (seq : List Nat) (sym c : Nat) (hc1 : codeOf (sortDedup seq) sym = some c)
    (hc2 : (sortDedup seq)[c]? = some sym)
    (hc3 : c < 2 ^ (if (sortDedup seq).length ≤ 1 then 1 else bitLen ((sortDedup seq).length - 1)))
    (x : Nat) (hx : x ∈ seq) :
    ((codeOf (sortDedup seq) x).getD 0 %
        2 ^ (if (sortDedup seq).length ≤ 1 then 1 else bitLen ((sortDedup seq).length - 1)) ==
      c % 2 ^ (if (sortDedup seq).length ≤ 1 then 1 else bitLen ((sortDedup seq).length - 1))) =
      (x == sym) := by
  obtain ⟨cx, hx1, hx2, hx3⟩ := code_of_mem seq x hx
  simp only [hx1, Option.getD_some]
  rw [Nat.mod_eq_of_lt hx3, Nat.mod_eq_of_lt hc3]
  by_cases hxs : x = sym
  · subst hxs
    rw [hc1] at hx1; cases hx1; simp
  · have : cx ≠ c := by
      intro h; subst h
      rw [hc2] at hx2; cases hx2; exact hxs rfl
    have h1 : (cx == c) = false := by simpa using this
    have h2 : (x == sym) = false := by simpa using hxs
    rw [h1, h2]

/-- F: `select(symbol, k)` is the position of the `k`-th occurrence of `symbol` (0-indexed), `None`
when there are not that many. -/
theorem c15b_wt_select (seq : List Nat) (w : WT) (hw : WT.new seq = .ok w)
    (sym k : Nat) : w.select sym k = .ok (Spec.symSelect sym seq k 0) := by
  rw [symSelect_eq]
  by_cases hne : seq = []
  · subst hne
    simp [WT.new] at hw; subst hw
    simp [WT.select, Spec.select]
  obtain ⟨levels, h1, h2⟩ := wtNew_nonempty seq hne
  rw [h1] at hw
  cases hw
  have hlen0 : seq.length ≠ 0 := fun h => hne (List.length_eq_zero_iff.mp h)
  unfold WT.select
  simp only
  rw [if_neg hlen0]
  by_cases hmem : sym ∈ seq
  · obtain ⟨c, hc1, hc2, hc3⟩ := code_of_mem seq sym hmem
    rw [hc1]
    simp only
    have hcl : (seq.map (fun s => (codeOf (sortDedup seq) s).getD 0)).length = seq.length := by simp
    obtain ⟨lo', hi', g1, g2, g3⟩ := descend_spec _ _ levels h2 c 0 seq.length
      (Nat.zero_le _) (by rw [hcl]; exact Nat.le_refl _)
    rw [g1]
    simp only
    rw [if_neg (by omega)]
    -- counting on codes = counting on symbols
    have hcount : ∀ p, p ≤ seq.length →
        (slice (seq.map (fun s => (codeOf (sortDedup seq) s).getD 0)) 0 p).countP
          (fun x => x % 2 ^ (if (sortDedup seq).length ≤ 1 then 1 else bitLen ((sortDedup seq).length - 1)) ==
            c % 2 ^ (if (sortDedup seq).length ≤ 1 then 1 else bitLen ((sortDedup seq).length - 1))) =
        (seq.take p).countP (· == sym) := by
      intro p _
      unfold slice
      rw [List.drop_zero, ← List.map_take, List.countP_map]
      apply List.countP_congr
      intro x hx
      have := code_match seq sym c hc1 hc2 hc3 x (List.mem_of_mem_take hx)
      simp only [Function.comp]
      rw [this]
    rw [hcount seq.length (Nat.le_refl _), List.take_length] at g3
    by_cases hk : k ≥ hi' - lo'
    · rw [if_pos hk]
      congr 1
      symm
      apply specSelect_none
      rw [List.filter_map, List.length_map, ← List.countP_eq_length_filter]
      have : seq.countP ((fun x => x == true) ∘ fun x => x == sym) = seq.countP (· == sym) := by
        apply List.countP_congr; intro x _; simp
      rw [this]; omega
    · rw [if_neg hk]
      obtain ⟨p, hp, a1, a2, a3, a4, a5⟩ := ascend_spec _ _ levels h2 c 0 seq.length
        (Nat.zero_le _) (by rw [hcl]; exact Nat.le_refl _) lo' hi' g1 k (by omega)
      rw [a1]
      congr 2
      rw [hcl] at hp
      rw [hcount p (by omega)] at a5
      have hsym : seq[p] = sym := by
        have := code_match seq sym c hc1 hc2 hc3 seq[p] (List.getElem_mem hp)
        simp only [List.getElem_map] at a4
        rw [a4] at this
        simpa using this.symm
      have := specSelect_of true (seq.map (· == sym)) k 0 p (by simpa using hp) (by simp [hsym]) (by
        rw [← List.map_take, List.filter_map, List.length_map, ← List.countP_eq_length_filter]
        rw [← a5]
        apply List.countP_congr; intro x _; simp)
      rw [this, Nat.zero_add]
  · have hnone : codeOf (sortDedup seq) sym = none := by
      unfold codeOf
      cases h : (sortDedup seq).idxOf? sym with
      | none => rfl
      | some c =>
        have := idxOf?_some_get _ _ _ h
        have hm : sym ∈ sortDedup seq := by
          obtain ⟨hl, he⟩ := List.getElem?_eq_some_iff.mp this
          rw [← he]; exact List.getElem_mem hl
        exact absurd ((mem_sortDedup sym seq).mp hm) hmem
    rw [hnone]
    simp only
    congr 1
    symm
    apply specSelect_none
    have : (seq.map (· == sym)).filter (· == true) = [] := by
      rw [List.filter_eq_nil_iff]
      intro b hb
      obtain ⟨x, hx, rfl⟩ := List.mem_map.mp hb
      have : x ≠ sym := fun h => hmem (h ▸ hx)
      simpa using this
    rw [this]; simp


set_option maxRecDepth 40000

/-! ### adjacency list: `compact` -/

/-- all entries of a list of hot chunks, in order -/
def flat (hot : List AChunk) : List Entry := (hot.map (·.entries)).flatten

theorem flat_append (a b : List AChunk) : flat (a ++ b) = flat a ++ flat b := by
  simp [flat]

theorem flat_singleton (c : AChunk) : flat [c] = c.entries := by simp [flat]

theorem drainLoop_flat (cap : Nat) (hcap : 0 < cap) (hot : List AChunk) (cur : AChunk) (es : List Entry) :
    flat (drainLoop cap hot cur es).1 ++ (drainLoop cap hot cur es).2.entries =
      flat hot ++ cur.entries ++ es := by
  induction es generalizing hot cur with
  | nil => simp [drainLoop]
  | cons e es ih =>
    unfold drainLoop
    cases hp : cur.push e with
    | some c =>
      simp only
      rw [ih]
      unfold AChunk.push at hp
      split at hp
      · cases hp
      · cases hp; simp
    | none =>
      simp only
      rw [ih]
      have : (AChunk.mk [] cap).push e = some ⟨[e], cap⟩ := by
        unfold AChunk.push
        rw [if_neg (by simp; omega)]; rfl
      rw [this]
      simp [flat_append, flat_singleton]

/-- moving hot chunks to cold storage keeps the entries, up to order -/
theorem toCold_perm (f : Nat) (hot : List AChunk) (cold : List CChunk) (ce : List Entry)
    (hc : coldEntries cold = .ok ce)
    (hb : ∀ c ∈ hot, ∀ e ∈ c.entries, e.1 < W ∧ e.2 < W) :
    ∃ ce', coldEntries (toCold f hot cold).2 = .ok ce' ∧
      (ce' ++ flat (toCold f hot cold).1).Perm (ce ++ flat hot) := by
  induction f generalizing hot cold ce with
  | zero => exact ⟨ce, hc, List.Perm.refl _⟩
  | succ f ih =>
    unfold toCold
    split
    · cases hot with
      | nil => exact ⟨ce, hc, List.Perm.refl _⟩
      | cons oldest rest =>
        simp only
        have hb' : ∀ c ∈ rest, ∀ e ∈ c.entries, e.1 < W ∧ e.2 < W :=
          fun c hc' => hb c (List.mem_cons_of_mem _ hc')
        split
        · rename_i hlen
          obtain ⟨ce', h1, h2⟩ := ih rest cold ce hc hb'
          refine ⟨ce', h1, ?_⟩
          have : oldest.entries = [] := List.length_eq_zero_iff.mp hlen
          simpa [flat, this] using h2
        · obtain ⟨g1, g2⟩ := c15b_adj_chunk_roundtrip oldest (hb oldest (by simp))
          have hc2 : coldEntries (cold ++ [oldest.compress]) = .ok (ce ++ sortByDst oldest.entries) :=
            coldEntries_append cold [oldest.compress] ce (sortByDst oldest.entries) hc
              (by simp [coldEntries, g1])
          obtain ⟨ce', h1, h2⟩ := ih rest (cold ++ [oldest.compress]) _ hc2 hb'
          refine ⟨ce', h1, h2.trans ?_⟩
          have e : flat (oldest :: rest) = oldest.entries ++ flat rest := by simp [flat]
          rw [e, List.append_assoc]
          exact List.Perm.append_left _ (List.Perm.append_right _ g2)
    · exact ⟨ce, hc, List.Perm.refl _⟩

theorem dropLast_append_of_getLast? {α : Type} (l : List α) (a : α) (h : l.getLast? = some a) :
    l.dropLast ++ [a] = l := by
  induction l with
  | nil => simp at h
  | cons x xs ih =>
    cases xs with
    | nil => simp at h; subst h; rfl
    | cons y ys =>
      rw [List.getLast?_cons_cons] at h
      simp only [List.dropLast_cons_cons, List.cons_append]
      rw [ih h]

theorem compactHot_flat (hot : List AChunk) (delta : List Entry) (cap : Nat) (hcap : 0 < cap) :
    flat (compactHot hot delta cap) = flat hot ++ delta := by
  have hstart : flat (if lastHasRoom hot then hot.dropLast else hot) ++
      (if lastHasRoom hot then hot.getLast?.getD (AChunk.mk [] cap) else AChunk.mk [] cap).entries = flat hot := by
    cases hr : lastHasRoom hot with
    | false => simp
    | true =>
      simp only [if_true]
      cases hl : hot.getLast? with
      | none => unfold lastHasRoom at hr; rw [hl] at hr; cases hr
      | some last =>
        simp only [Option.getD_some]
        have := dropLast_append_of_getLast? hot last hl
        conv => rhs; rw [← this]
        rw [flat_append, flat_singleton]
  have hdrain := drainLoop_flat cap hcap (if lastHasRoom hot then hot.dropLast else hot)
    (if lastHasRoom hot then hot.getLast?.getD (AChunk.mk [] cap) else AChunk.mk [] cap) delta
  rw [hstart] at hdrain
  unfold compactHot
  generalize drainLoop cap (if lastHasRoom hot then hot.dropLast else hot)
    (if lastHasRoom hot then hot.getLast?.getD (AChunk.mk [] cap) else AChunk.mk [] cap) delta = dl at hdrain ⊢
  obtain ⟨h1, c1⟩ := dl
  simp only at hdrain ⊢
  split
  · rw [flat_append, flat_singleton]; exact hdrain
  · rename_i hlen
    have : c1.entries = [] := List.length_eq_zero_iff.mp (by omega)
    rw [this, List.append_nil] at hdrain; exact hdrain

/-- P: `compact` (move the delta buffer into chunks, compress the oldest chunks) keeps the edge list
of a node up to order — for a positive chunk capacity (with `with_chunk_capacity(0)` every chunk
is full at once and `compact` drops the delta buffer). -/
theorem c15b_adj_compact_partial (l : AList) (cap : Nat) (hcap : 0 < cap) (es : List Entry)
    (h : l.iter = .ok es)
    (hb : ∀ e ∈ flat l.hot ++ l.delta, e.1 < W ∧ e.2 < W) :
    ∃ es', (l.compact cap).iter = .ok es' ∧ es'.Perm es := by
  unfold AList.compact
  split
  · exact ⟨es, h, List.Perm.refl _⟩
  · unfold AList.iter at h
    cases hc : coldEntries l.cold with
    | ok ce =>
      rw [hc] at h
      simp only [Res.ok.injEq] at h
      have hflat2 := compactHot_flat l.hot l.delta cap hcap
      have hmem2 : ∀ c ∈ compactHot l.hot l.delta cap, ∀ e ∈ c.entries, e ∈ flat l.hot ++ l.delta := by
        intro c hc' e he
        rw [← hflat2]
        unfold flat
        exact List.mem_flatten.mpr ⟨c.entries, List.mem_map.mpr ⟨c, hc', rfl⟩, he⟩
      obtain ⟨ce', t1, t2⟩ := toCold_perm (compactHot l.hot l.delta cap).length
        (compactHot l.hot l.delta cap) l.cold ce hc
        (fun c hc' e he => hb e (hmem2 c hc' e he))
      unfold AList.iter
      simp only
      rw [t1]
      refine ⟨_, rfl, ?_⟩
      rw [← h]
      apply List.Perm.filter
      rw [List.append_nil]
      refine t2.trans ?_
      rw [hflat2, ← List.append_assoc]
      exact List.Perm.refl _
    | err => rw [hc] at h; cases h
    | panic => rw [hc] at h; cases h

/-- W: the hypothesis is needed — with chunk capacity 0 `compact` loses the delta buffer; and
(regression) with capacity 1 the first of five edges to node 0 is no longer lost. -/
theorem c15b_adj_compact_witness :
    (((({} : AList).addEdge (1, 7)).addEdge (2, 8)).compact 0).iter = .ok [] ∧
    ((((((({} : AList).addEdge (0, 1)).addEdge (0, 2)).addEdge (0, 3)).addEdge (0, 4)).addEdge (0, 5)).compact 1).iter
      = .ok [(0, 1), (0, 2), (0, 3), (0, 4), (0, 5)] := by decide

end Grafeo.Codec2
