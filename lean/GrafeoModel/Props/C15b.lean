import GrafeoModel.Model.Codec2
import GrafeoModel.Proofs.CodecLemmas
import GrafeoModel.Props.C15

/-!
# C15 (second part) — dictionary, bit vector, codec selector, compressed property columns,
compressed adjacency chunks, succinct structures

Model: `Model/Codec2.lean` (transliteration of the Rust code). Theorems named `c15b_*` are the
property theorems (kinds in `C15b.obligations`: F full, P partial with a decidable hypothesis,
W witness of a refuted full statement — replayed on the implementation through stream `c15b`,
N non-vacuity); everything else is a helper lemma.
-/
namespace Grafeo.Codec2
open Grafeo.Codec

theorem getBit_eq_testBit (w j : Nat) : getBit w j = w.testBit j := by
  unfold getBit
  rw [Nat.one_shiftLeft]
  by_cases h : w.testBit j
  · rw [h]
    have : (w &&& 2 ^ j).testBit j = true := by simp [h]
    have hne : w &&& 2 ^ j ≠ 0 := by
      intro h0; rw [h0] at this; simp at this
    simp [hne]
  · have hf : w.testBit j = false := by simpa using h
    rw [hf]
    have : w &&& 2 ^ j = 0 := by
      apply Nat.eq_of_testBit_eq
      intro i
      simp only [Nat.testBit_and, Nat.testBit_two_pow, Nat.zero_testBit]
      by_cases hij : j = i
      · subst hij; simp [hf]
      · simp [hij]
    simp [this]

theorem testBit_setBit (w j i : Nat) : (setBit w j).testBit i = (w.testBit i || decide (j = i)) := by
  unfold setBit
  rw [Nat.one_shiftLeft, Nat.testBit_or, Nat.testBit_two_pow]

theorem getBit_setBit (w j i : Nat) : getBit (setBit w j) i = (getBit w i || decide (j = i)) := by
  rw [getBit_eq_testBit, getBit_eq_testBit, testBit_setBit]

theorem getBit_zero (j : Nat) : getBit 0 j = false := by
  rw [getBit_eq_testBit]; simp

/-! ### dictionary -/

theorem orBitAt_length (bm : List Nat) (p : Nat) : (orBitAt bm p).length = bm.length := by
  simp [orBitAt]

theorem bitmapNull_orBitAt (bm : List Nat) (p i : Nat) :
    bitmapNull (orBitAt bm p) i = (bitmapNull bm i || (decide (p = i) && decide (i / 64 < bm.length))) := by
  unfold bitmapNull orBitAt
  rw [List.getElem?_modify]
  cases h : bm[i / 64]? with
  | none =>
    have : ¬ i / 64 < bm.length := by
      intro hl; rw [List.getElem?_eq_getElem hl] at h; cases h
    simp [this]
  | some w =>
    have hl : i / 64 < bm.length := by
      apply Classical.byContradiction; intro hn
      rw [List.getElem?_eq_none (by omega)] at h; cases h
    simp only [Option.map_eq_map, Option.map_some, hl, decide_true, Bool.and_true]
    by_cases hp : p / 64 = i / 64
    · rw [if_pos hp, getBit_setBit]
      congr 1
      by_cases hq : p % 64 = i % 64
      · have : p = i := by omega
        simp [this]
      · have : p ≠ i := by intro h; subst h; exact hq rfl
        simp [hq, this]
    · rw [if_neg hp]
      have : p ≠ i := by intro h; subst h; exact hp rfl
      simp [this]

theorem bitmapNull_foldl (ps : List Nat) (bm : List Nat) (i : Nat) :
    bitmapNull (ps.foldl orBitAt bm) i =
      (bitmapNull bm i || (decide (i ∈ ps) && decide (i / 64 < bm.length))) := by
  induction ps generalizing bm with
  | nil => simp
  | cons p ps ih =>
    rw [List.foldl_cons, ih, bitmapNull_orBitAt, orBitAt_length]
    by_cases h1 : p = i
    · subst h1; simp; cases bitmapNull bm p <;> cases decide (p / 64 < bm.length) <;> simp
    · have : i ≠ p := fun h => h1 h.symm
      simp [h1, this]

theorem bitmapNull_replicate (n i : Nat) : bitmapNull (List.replicate n 0) i = false := by
  unfold bitmapNull
  cases h : (List.replicate n 0)[i / 64]? with
  | none => rfl
  | some w =>
    have := List.getElem?_eq_some_iff.mp h
    obtain ⟨hl, he⟩ := this
    simp at he; subst he; exact getBit_zero _

theorem findCode_some (s : Str) (l : List Str) (k c : Nat) (h : findCode s l k = some c) :
    k ≤ c ∧ l[c - k]? = some s := by
  induction l generalizing k with
  | nil => simp [findCode] at h
  | cons x xs ih =>
    unfold findCode at h
    split at h
    · rename_i hx; cases h; subst hx; simp
    · obtain ⟨h1, h2⟩ := ih (k + 1) h
      refine ⟨by omega, ?_⟩
      have : c - k = (c - (k + 1)) + 1 := by omega
      rw [this, List.getElem?_cons_succ]; exact h2

theorem findCode_none (s : Str) (l : List Str) (k : Nat) (h : findCode s l k = none) : s ∉ l := by
  induction l generalizing k with
  | nil => simp
  | cons x xs ih =>
    unfold findCode at h
    split at h
    · cases h
    · rename_i hx
      intro hm
      rcases List.mem_cons.mp hm with h1 | h1
      · exact hx h1.symm
      · exact ih (k + 1) h h1

theorem findCode_lt (s : Str) (l : List Str) (k c : Nat) (h : findCode s l k = some c) :
    c < k + l.length := by
  obtain ⟨h1, h2⟩ := findCode_some s l k c h
  have := (List.getElem?_eq_some_iff.mp h2).1
  omega

/-- invariant of the builder after the values `pre` have been added to an empty builder -/
structure DBInv (b : DictBuilder) (pre : List (Option Str)) : Prop where
  len : b.codes.length = pre.length
  val : ∀ i s, pre[i]? = some (some s) →
    (∃ c, b.codes[i]? = some c ∧ b.dictionary[c]? = some s) ∧ i ∉ b.nullPositions
  nul : ∀ i, pre[i]? = some none → i ∈ b.nullPositions
  npos : ∀ p ∈ b.nullPositions, p < b.codes.length
  dlen : b.dictionary.length ≤ pre.length
  dict : b.dictionary = Spec.distinct pre []

theorem distinct_append (xs ys : List (Option Str)) (acc : List Str) :
    Spec.distinct (xs ++ ys) acc = Spec.distinct ys (Spec.distinct xs acc) := by
  induction xs generalizing acc with
  | nil => rfl
  | cons x xs ih =>
    cases x with
    | none => simp [Spec.distinct, ih]
    | some s =>
      simp only [List.cons_append, Spec.distinct]
      split <;> exact ih _

theorem getElem?_append_one_cases {α} (l : List α) (a : α) (i : Nat) (x : α)
    (h : (l ++ [a])[i]? = some x) : (i < l.length ∧ l[i]? = some x) ∨ (i = l.length ∧ a = x) := by
  by_cases hi : i < l.length
  · left; rw [List.getElem?_append_left hi] at h; exact ⟨hi, h⟩
  · right
    rw [List.getElem?_append_right (by omega)] at h
    have : i - l.length = 0 := by
      apply Classical.byContradiction; intro hn
      have : i - l.length = (i - l.length - 1) + 1 := by omega
      rw [this] at h; simp at h
    rw [this] at h; simp at h
    exact ⟨by omega, h⟩

theorem DBInv.step (b : DictBuilder) (pre : List (Option Str)) (v : Option Str)
    (inv : DBInv b pre) (hl : pre.length < 4294967296) : DBInv (b.addOpt v) (pre ++ [v]) := by
  obtain ⟨len, val, nul, npos, dlen, dict⟩ := inv
  cases v with
  | none =>
    simp only [DictBuilder.addOpt, DictBuilder.addNull]
    refine ⟨by simp [len], ?_, ?_, ?_, by simp; omega, ?_⟩
    · intro i s h
      rcases getElem?_append_one_cases _ _ _ _ h with ⟨hi, h'⟩ | ⟨_, h'⟩
      · obtain ⟨⟨c, hc1, hc2⟩, hn⟩ := val i s h'
        refine ⟨⟨c, ?_, hc2⟩, ?_⟩
        · simp only; rw [List.getElem?_append_left (by omega)]; exact hc1
        · simp only [List.mem_append, List.mem_singleton, not_or]
          exact ⟨hn, by omega⟩
      · cases h'
    · intro i h
      rcases getElem?_append_one_cases _ _ _ _ h with ⟨_, h'⟩ | ⟨hi, _⟩
      · simp only [List.mem_append]; left; exact nul i h'
      · simp only [List.mem_append, List.mem_singleton]; right; omega
    · intro p hp
      simp only [List.mem_append, List.mem_singleton] at hp
      simp only [List.length_append, List.length_singleton]
      rcases hp with hp | hp
      · have := npos p hp; omega
      · omega
    · simp only; rw [distinct_append, ← dict]; rfl
  | some s =>
    simp only [DictBuilder.addOpt, DictBuilder.add]
    cases hf : findCode s b.dictionary 0 with
    | some c =>
      obtain ⟨_, hc⟩ := findCode_some s _ 0 c hf
      simp only [Nat.sub_zero] at hc
      refine ⟨by simp [len], ?_, ?_, ?_, by simp; omega, ?_⟩
      · intro i t h
        rcases getElem?_append_one_cases _ _ _ _ h with ⟨hi, h'⟩ | ⟨hi, h'⟩
        · obtain ⟨⟨c', hc1, hc2⟩, hn⟩ := val i t h'
          refine ⟨⟨c', ?_, hc2⟩, hn⟩
          simp only; rw [List.getElem?_append_left (by omega)]; exact hc1
        · cases h'
          refine ⟨⟨c, ?_, hc⟩, ?_⟩
          · simp only; rw [List.getElem?_append_right (by omega)]; simp [hi, len]
          · intro hm; have := npos i hm; omega
      · intro i h
        rcases getElem?_append_one_cases _ _ _ _ h with ⟨_, h'⟩ | ⟨_, h'⟩
        · exact nul i h'
        · cases h'
      · intro p hp
        have := npos p hp
        simp only [List.length_append, List.length_singleton]; omega
      · simp only; rw [distinct_append, ← dict]
        have hmem : s ∈ b.dictionary := by
          obtain ⟨hl, he⟩ := List.getElem?_eq_some_iff.mp hc
          rw [← he]; exact List.getElem_mem hl
        simp [Spec.distinct, hmem]
    | none =>
      have hnm := findCode_none s _ 0 hf
      refine ⟨by simp [len], ?_, ?_, ?_, by simp; omega, ?_⟩
      · intro i t h
        rcases getElem?_append_one_cases _ _ _ _ h with ⟨hi, h'⟩ | ⟨hi, h'⟩
        · obtain ⟨⟨c', hc1, hc2⟩, hn⟩ := val i t h'
          refine ⟨⟨c', ?_, ?_⟩, hn⟩
          · simp only; rw [List.getElem?_append_left (by omega)]; exact hc1
          · simp only
            have := (List.getElem?_eq_some_iff.mp hc2).1
            rw [List.getElem?_append_left this]; exact hc2
        · cases h'
          refine ⟨⟨b.dictionary.length, ?_, ?_⟩, ?_⟩
          · simp only; rw [List.getElem?_append_right (by omega)]
            have : b.dictionary.length % 4294967296 = b.dictionary.length := Nat.mod_eq_of_lt (by omega)
            simp [hi, len, this]
          · simp
          · intro hm; have := npos i hm; omega
      · intro i h
        rcases getElem?_append_one_cases _ _ _ _ h with ⟨_, h'⟩ | ⟨_, h'⟩
        · exact nul i h'
        · cases h'
      · intro p hp
        have := npos p hp
        simp only [List.length_append, List.length_singleton]; omega
      · simp only; rw [distinct_append, ← dict]
        simp [Spec.distinct, hnm]

theorem DBInv.all (b : DictBuilder) (pre vs : List (Option Str))
    (inv : DBInv b pre) (hl : (pre ++ vs).length < 4294967296) :
    DBInv (b.addAll vs) (pre ++ vs) := by
  induction vs generalizing b pre with
  | nil => simpa [DictBuilder.addAll] using inv
  | cons v vs ih =>
    simp only [DictBuilder.addAll]
    have h1 : pre.length < 4294967296 := by simp at hl; omega
    have := ih (b.addOpt v) (pre ++ [v]) (inv.step b pre v h1) (by simpa using hl)
    simpa using this

theorem DBInv.empty : DBInv {} [] where
  len := rfl
  val := by intro i s h; simp at h
  nul := by intro i h; simp at h
  npos := by intro p hp; cases hp
  dlen := by simp
  dict := rfl

theorem isNull_build (b : DictBuilder) (hn : ∀ p ∈ b.nullPositions, p < b.codes.length) (i : Nat) :
    b.build.isNull i = decide (i ∈ b.nullPositions) := by
  unfold DictBuilder.build Dict.isNull
  by_cases he : b.nullPositions.isEmpty
  · have : b.nullPositions = [] := List.isEmpty_iff.mp he
    simp [this]
  · simp only [he, Bool.false_eq_true, if_false]
    rw [bitmapNull_foldl, bitmapNull_replicate]
    simp only [Bool.false_or, List.length_replicate]
    by_cases hm : i ∈ b.nullPositions
    · have := hn i hm
      have : i / 64 < nWords b.codes.length := by unfold nWords; omega
      simp [hm, this]
    · simp [hm]

theorem dictOf_inv (vs : List (Option Str)) (h : vs.length < 4294967296) :
    DBInv (DictBuilder.addAll {} vs) vs := by
  have := DBInv.all {} [] vs DBInv.empty (by simpa using h)
  simpa using this

/-- F: random access into a built dictionary returns the value that was added at that position
(`None` for a null and beyond the end). -/
theorem c15b_dict_get (vs : List (Option Str)) (h : vs.length < 4294967296) (i : Nat) :
    (dictOf vs).get i = (vs[i]?).join := by
  have inv := dictOf_inv vs h
  unfold dictOf Dict.get
  rw [isNull_build _ inv.npos]
  cases hv : vs[i]? with
  | none =>
    have hi : vs.length ≤ i := by
      apply Classical.byContradiction; intro hn
      rw [List.getElem?_eq_getElem (by omega)] at hv; cases hv
    have hnm : i ∉ (DictBuilder.addAll {} vs).nullPositions := by
      intro hm; have := inv.npos i hm; rw [inv.len] at this; omega
    have hc : (DictBuilder.addAll {} vs).codes[i]? = none :=
      List.getElem?_eq_none (by rw [inv.len]; exact hi)
    simp [hnm, Dict.lookupCode, DictBuilder.build, hc]
  | some o =>
    cases o with
    | none =>
      have := inv.nul i hv
      simp [this]
    | some s =>
      obtain ⟨⟨c, hc1, hc2⟩, hn⟩ := inv.val i s hv
      simp [hn, Dict.lookupCode, DictBuilder.build, hc1, hc2]

/-- F: decoding a built dictionary returns the original sequence (nulls included). -/
theorem c15b_dict_roundtrip (vs : List (Option Str)) (h : vs.length < 4294967296) :
    (dictOf vs).decode = vs := by
  have inv := dictOf_inv vs h
  unfold Dict.decode
  have hl : (dictOf vs).codes.length = vs.length := inv.len
  apply List.ext_getElem?
  intro i
  rw [hl, List.getElem?_map]
  by_cases hi : i < vs.length
  · rw [List.getElem?_range hi, Option.map_some, c15b_dict_get vs h i, List.getElem?_eq_getElem hi]
    cases vs[i] <;> rfl
  · rw [List.getElem?_eq_none (by simpa using Nat.le_of_not_lt hi)]
    rw [List.getElem?_eq_none (by omega)]; rfl

theorem findCode_eq_idxOf (s : Str) (l : List Str) (k : Nat) :
    findCode s l k = (l.idxOf? s).map (· + k) := by
  induction l generalizing k with
  | nil => simp [findCode]
  | cons x xs ih =>
    unfold findCode
    by_cases hx : x = s
    · subst hx; simp [List.idxOf?_cons]
    · rw [if_neg hx, ih, List.idxOf?_cons]
      have : (x == s) = false := by simpa using hx
      simp only [this]
      cases xs.idxOf? s <;> simp <;> omega

/-- F: the dictionary holds every distinct non-null value once, in order of first appearance, and
`encode` (look a value up) returns its position there — `None` exactly for values never added. -/
theorem c15b_dict_encode (vs : List (Option Str)) (h : vs.length < 4294967296) (s : Str) :
    (dictOf vs).dictionary = Spec.distinct vs [] ∧
    (dictOf vs).encode s = (Spec.distinct vs []).idxOf? s := by
  have inv := dictOf_inv vs h
  have hd : (dictOf vs).dictionary = Spec.distinct vs [] := inv.dict
  refine ⟨hd, ?_⟩
  unfold Dict.encode
  rw [findCode_eq_idxOf, hd]
  cases (Spec.distinct vs []).idxOf? s <;> simp

/-- N -/
example : (dictOf [some [80], none, some [67], some [80]]).decode = [some [80], none, some [67], some [80]] ∧
    (dictOf [some [80], none, some [67], some [80]]).codes = [0, 0, 1, 0] := by decide

/-! ### bit vector -/

theorem fromBoolsLoop_length (data : List Nat) (i : Nat) (bs : List Bool) :
    (fromBoolsLoop data i bs).length = data.length := by
  induction bs generalizing data i with
  | nil => rfl
  | cons b bs ih =>
    unfold fromBoolsLoop
    rw [ih]; split <;> simp [orBitAt_length]

/-- bit `q` after the `from_bools` loop: what was there, or the input bit that was OR-ed in -/
theorem bitmapNull_fromBoolsLoop (data : List Nat) (i : Nat) (bs : List Bool) (q : Nat) :
    bitmapNull (fromBoolsLoop data i bs) q =
      (bitmapNull data q || (decide (i ≤ q) && bs.getD (q - i) false && decide (q / 64 < data.length))) := by
  induction bs generalizing data i with
  | nil => simp [fromBoolsLoop]
  | cons b bs ih =>
    unfold fromBoolsLoop
    rw [ih]
    by_cases hq : q = i
    · subst hq
      have hno : ¬ q + 1 ≤ q := by omega
      cases b
      · simp [hno]
      · simp [bitmapNull_orBitAt, orBitAt_length, hno]
    · by_cases hlt : i ≤ q
      · have h1 : i + 1 ≤ q := by omega
        have h2 : q - i = (q - (i + 1)) + 1 := by omega
        have h3 : i ≠ q := fun h => hq h.symm
        cases b
        · simp [h1, hlt, h2]
        · simp [h1, hlt, h2, bitmapNull_orBitAt, orBitAt_length, h3]
      · have h1 : ¬ i + 1 ≤ q := by omega
        have h3 : i ≠ q := fun h => hq h.symm
        cases b
        · simp [h1, hlt]
        · simp [h1, hlt, bitmapNull_orBitAt, h3]

/-- every bit of `from_bools(bs)` — inside and beyond `len` — is the corresponding input bit -/
theorem bitmapNull_fromBools (bs : List Bool) (q : Nat) :
    bitmapNull (BVec.fromBools bs).data q = bs.getD q false := by
  unfold BVec.fromBools
  simp only
  rw [bitmapNull_fromBoolsLoop, bitmapNull_replicate]
  simp only [Bool.false_or, Nat.zero_le, decide_true, Bool.true_and, Nat.sub_zero, List.length_replicate]
  by_cases hq : q < bs.length
  · have : q / 64 < nWords bs.length := by unfold nWords; omega
    simp [this]
  · have : bs[q]?.getD false = false := by
      simp [List.getElem?_eq_none (Nat.le_of_not_lt hq)]
    simp [this]

theorem setBit_lt (w j : Nat) (hw : w < W) (hj : j < 64) : setBit w j < W := by
  unfold setBit
  rw [W_eq2, Nat.one_shiftLeft]
  exact Nat.or_lt_two_pow (by rw [← W_eq2]; exact hw) (Nat.pow_lt_pow_right (by decide) hj)

theorem orBitAt_lt (data : List Nat) (p : Nat) (h : ∀ w ∈ data, w < W) : ∀ w ∈ orBitAt data p, w < W := by
  intro w hw
  unfold orBitAt at hw
  obtain ⟨k, hk, he⟩ := List.getElem_of_mem hw
  have hk' : k < data.length := by simpa using hk
  have := List.getElem?_modify (fun w => setBit w (p % 64)) (p / 64) data k
  rw [List.getElem?_eq_getElem hk, List.getElem?_eq_getElem hk', he] at this
  simp only [Option.map_eq_map, Option.map_some, Option.some.injEq] at this
  rw [this]
  split
  · exact setBit_lt _ _ (h _ (List.getElem_mem hk')) (Nat.mod_lt _ (by decide))
  · exact h _ (List.getElem_mem hk')

theorem fromBoolsLoop_lt (data : List Nat) (i : Nat) (bs : List Bool) (h : ∀ w ∈ data, w < W) :
    ∀ w ∈ fromBoolsLoop data i bs, w < W := by
  induction bs generalizing data i with
  | nil => exact h
  | cons b bs ih =>
    unfold fromBoolsLoop
    apply ih
    split
    · exact orBitAt_lt data i h
    · exact h

theorem fromBools_wf (bs : List Bool) : (BVec.fromBools bs).WF := by
  refine ⟨by simp [BVec.fromBools, fromBoolsLoop_length], ?_⟩
  apply fromBoolsLoop_lt
  intro w hw
  simp only [List.mem_replicate] at hw
  rw [hw.2]; decide

theorem fromBools_clean (bs : List Bool) : (BVec.fromBools bs).Clean := by
  intro q hq
  rw [bitmapNull_fromBools]
  simp [List.getD, List.getElem?_eq_none (show bs.length ≤ q from hq)]

/-- `get` of a well-formed vector reads the bit at that position -/
theorem get_wf (v : BVec) (hw : v.WF) (i : Nat) :
    v.get i = if i < v.len then .ok (bitmapNull v.data i) else .err := by
  unfold BVec.get
  by_cases hi : i < v.len
  · rw [if_neg (by omega), if_pos hi]
    have : i / 64 < v.data.length := by rw [hw.1]; unfold nWords; omega
    unfold bitmapNull
    rw [List.getElem?_eq_getElem this]
  · rw [if_pos (by omega), if_neg hi]

theorem toBoolsFrom_eq (v : BVec) (f : Nat → Bool) (n s : Nat)
    (h : ∀ k, k < n → v.get (s + k) = .ok (f (s + k))) :
    toBoolsFrom v n s = .ok ((List.range' s n).map f) := by
  induction n generalizing s with
  | zero => rfl
  | succ n ih =>
    unfold toBoolsFrom
    have h0 := h 0 (by omega)
    rw [Nat.add_zero] at h0
    rw [h0]
    have := ih (s + 1) (fun k hk => by
      have := h (k + 1) (by omega)
      rw [show s + 1 + k = s + (k + 1) by omega]; exact this)
    rw [this]
    simp [List.range'_succ]

/-- `to_bools` of a well-formed vector lists its first `len` bits -/
theorem toBools_wf (v : BVec) (hw : v.WF) :
    v.toBools = .ok ((List.range v.len).map (bitmapNull v.data)) := by
  unfold BVec.toBools
  rw [toBoolsFrom_eq v (bitmapNull v.data) v.len 0 (fun k hk => by
    rw [get_wf v hw, if_pos (by omega)])]
  simp [List.range_eq_range']

/-- F: random access into `from_bools(bs)` returns `bs[i]`, `None` beyond the end. -/
theorem c15b_bitvec_get (bs : List Bool) (i : Nat) :
    (BVec.fromBools bs).get i = if h : i < bs.length then .ok bs[i] else .err := by
  rw [get_wf _ (fromBools_wf bs)]
  have hl : (BVec.fromBools bs).len = bs.length := rfl
  rw [hl]
  by_cases hi : i < bs.length
  · rw [if_pos hi, dif_pos hi, bitmapNull_fromBools]
    simp [List.getD, List.getElem?_eq_getElem hi]
  · rw [if_neg hi, dif_neg hi]

/-- F: `to_bools(from_bools(bs)) = bs` for every sequence of booleans. -/
theorem c15b_bitvec_roundtrip (bs : List Bool) : (BVec.fromBools bs).toBools = .ok bs := by
  rw [toBools_wf _ (fromBools_wf bs)]
  congr 1
  apply List.ext_getElem?
  intro i
  have hl : (BVec.fromBools bs).len = bs.length := rfl
  rw [hl, List.getElem?_map]
  by_cases hi : i < bs.length
  · rw [List.getElem?_range hi, Option.map_some, bitmapNull_fromBools]
    simp [List.getD, List.getElem?_eq_getElem hi]
  · rw [List.getElem?_eq_none (by simpa using Nat.le_of_not_lt hi),
        List.getElem?_eq_none (by omega)]; rfl


/-- number of set bit positions below `n` -/
def onesBelow (data : List Nat) (n : Nat) : Nat := (List.range n).countP (bitmapNull data)

theorem onesBelow_succ (data : List Nat) (n : Nat) :
    onesBelow data (n + 1) = onesBelow data n + (if bitmapNull data n then 1 else 0) := by
  unfold onesBelow
  rw [List.range_succ, List.countP_append]
  simp [List.countP_cons]

theorem onesBelow_zero (data : List Nat) : onesBelow data 0 = 0 := rfl

theorem onesBelow_mono (data : List Nat) (a b : Nat) (h : a ≤ b) : onesBelow data a ≤ onesBelow data b := by
  induction b with
  | zero => have : a = 0 := by omega
            subst this; exact Nat.le_refl _
  | succ b ih =>
    by_cases hab : a = b + 1
    · subst hab; exact Nat.le_refl _
    · have := ih (by omega)
      rw [onesBelow_succ]; omega

/-- `popF n w` counts the set bits among the lowest `n` -/
theorem popF_eq (n w : Nat) : popF n w = (List.range n).countP (fun j => w.testBit j) := by
  induction n generalizing w with
  | zero => rfl
  | succ n ih =>
    unfold popF
    rw [ih, List.range_succ_eq_map, List.countP_cons, List.countP_map]
    have : ((fun j => w.testBit j) ∘ Nat.succ) = (fun j => (w / 2).testBit j) := by
      funext j; simp [Nat.testBit_succ]
    rw [this]
    have h0 : w.testBit 0 = decide (w % 2 = 1) := Nat.testBit_zero w
    rw [h0]
    rcases Nat.mod_two_eq_zero_or_one w with h | h <;> simp [h] <;> omega

/-- ones among the `r ≤ 64` lowest bits of word `k` = the popcount of the masked word -/
theorem popcount_mask (w r : Nat) (hr : r ≤ 64) :
    popcount (w &&& (2 ^ r - 1)) = (List.range r).countP (fun j => w.testBit j) := by
  unfold popcount
  rw [popF_eq]
  have h64 : List.range 64 = List.range r ++ List.range' r (64 - r) := by
    have e : 64 = r + (64 - r) := by omega
    rw [List.range_eq_range', List.range_eq_range']
    conv => lhs; rw [e]
    rw [← List.range'_append_1]; simp
  rw [h64, List.countP_append]
  have h2 : (List.range' r (64 - r)).countP (fun j => (w &&& (2 ^ r - 1)).testBit j) = 0 := by
    rw [List.countP_eq_zero]
    intro j hj
    have := (List.mem_range'_1.mp hj).1
    simp [Nat.testBit_and, Nat.testBit_two_pow_sub_one]; omega
  rw [h2, Nat.add_zero]
  apply List.countP_congr
  intro j hj
  have := List.mem_range.mp hj
  simp [Nat.testBit_and, Nat.testBit_two_pow_sub_one, this]

theorem popcount_eq (w : Nat) : popcount w = (List.range 64).countP (fun j => w.testBit j) := by
  unfold popcount; exact popF_eq 64 w

theorem bitmapNull_word (data : List Nat) (k j : Nat) (hj : j < 64) :
    bitmapNull data (64 * k + j) = (data.getD k 0).testBit j := by
  unfold bitmapNull
  have h1 : (64 * k + j) / 64 = k := by omega
  have h2 : (64 * k + j) % 64 = j := by omega
  rw [h1, h2]
  cases h : data[k]? with
  | none => simp [List.getD, h]
  | some w => simp [List.getD, h, getBit_eq_testBit]

theorem onesBelow_add (data : List Nat) (a b : Nat) :
    onesBelow data (a + b) = onesBelow data a + (List.range b).countP (fun j => bitmapNull data (a + j)) := by
  induction b with
  | zero => simp [onesBelow_zero]
  | succ b ih =>
    rw [← Nat.add_assoc, onesBelow_succ, ih, List.range_succ, List.countP_append]
    simp [List.countP_cons]; omega

/-- ones below `64k + r` (`r ≤ 64`) = ones below `64k` + popcount of the masked word `k` -/
theorem onesBelow_word (data : List Nat) (k r : Nat) (hr : r ≤ 64) :
    onesBelow data (64 * k + r) = onesBelow data (64 * k) + popcount (data.getD k 0 &&& (2 ^ r - 1)) := by
  rw [onesBelow_add, popcount_mask _ _ hr]
  congr 1
  apply List.countP_congr
  intro j hj
  have := List.mem_range.mp hj
  rw [bitmapNull_word data k j (by omega)]

theorem onesBelow_fullword (data : List Nat) (k : Nat) :
    onesBelow data (64 * (k + 1)) = onesBelow data (64 * k) + popcount (data.getD k 0) := by
  have := onesBelow_word data k 64 (Nat.le_refl _)
  rw [show 64 * (k + 1) = 64 * k + 64 by omega, this, popcount_mask _ _ (Nat.le_refl _), popcount_eq]

/-- the sum of the popcounts of the first `k` words = ones below `64k` -/
theorem sum_popcount_take (data : List Nat) (k : Nat) (hk : k ≤ data.length) :
    ((data.take k).map popcount).sum = onesBelow data (64 * k) := by
  induction k with
  | zero => simp [onesBelow_zero]
  | succ k ih =>
    have hk' : k < data.length := by omega
    rw [List.take_add_one, List.map_append, List.sum_append, ih (by omega), onesBelow_fullword]
    simp [List.getElem?_eq_getElem hk', List.getD]

/-- `count_ones` of a well-formed vector = number of set bits below `len` (padding is masked) -/
theorem countOnes_wf (v : BVec) (hw : v.WF) : v.countOnes = .ok (onesBelow v.data v.len) := by
  obtain ⟨data, len⟩ := v
  obtain ⟨hlen, _⟩ := hw
  simp only at hlen
  unfold BVec.countOnes
  simp only
  by_cases h0 : len = 0
  · rw [if_pos h0, h0, onesBelow_zero]
  · rw [if_neg h0]
    unfold nWords at hlen
    obtain ⟨k, r, hk, hr64⟩ : ∃ k r, len = 64 * k + r ∧ r < 64 :=
      ⟨len / 64, len % 64, by omega, by omega⟩
    have e1 : len / 64 = k := by omega
    have e2 : len % 64 = r := by omega
    rw [e1, e2]
    rw [if_neg (by omega), sum_popcount_take _ _ (by omega)]
    by_cases hr : r > 0
    · have : k < data.length := by omega
      rw [if_pos ⟨hr, this⟩, hk, onesBelow_word _ _ _ (by omega)]
    · rw [if_neg (by omega)]
      have : r = 0 := by omega
      rw [hk, this, Nat.add_zero]

theorem onesBelow_fromBools (bs : List Bool) (n : Nat) :
    onesBelow (BVec.fromBools bs).data n = (bs.take n).count true := by
  induction n with
  | zero => simp [onesBelow_zero]
  | succ n ih =>
    rw [onesBelow_succ, ih, bitmapNull_fromBools]
    by_cases hn : n < bs.length
    · rw [List.take_add_one, List.count_append]
      simp [List.getD, List.getElem?_eq_getElem hn]
      cases bs[n] <;> simp
    · rw [List.take_of_length_le (by omega), List.take_of_length_le (by omega)]
      simp [List.getD, List.getElem?_eq_none (Nat.le_of_not_lt hn)]

/-- F: `count_ones(from_bools(bs))` is the number of `true`s in `bs`. -/
theorem c15b_bitvec_count_ones (bs : List Bool) :
    (BVec.fromBools bs).countOnes = .ok (bs.count true) := by
  rw [countOnes_wf _ (fromBools_wf bs), onesBelow_fromBools]
  have hl : (BVec.fromBools bs).len = bs.length := rfl
  rw [hl, List.take_length]


end Grafeo.Codec2
