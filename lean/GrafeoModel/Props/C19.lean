import GrafeoModel.Model.Graph

/-!
# C19 — graph algorithms compute what their definitions say (verified result checkers)

Every checker of `Model/Graph.lean` is proved **sound** against the mathematical definition
(walks, reachability, minimum distance, cycles) for every finite directed multigraph, every
source and every candidate result.
-/

namespace Grafeo.Graph

/-! ### walks -/

theorem Walk.cast {es : List Edge} {u v : Nat} {c c' : Int} (h : Walk es u v c) (e : c = c') :
    Walk es u v c' := e ▸ h

theorem Walk.trans {es : List Edge} {u v : Nat} {c : Int} (h1 : Walk es u v c) :
    ∀ {x : Nat} {k : Int}, Walk es v x k → Walk es u x (c + k) := by
  intro x k h2
  induction h2 with
  | nil => exact h1.cast (by omega)
  | snoc _ he ih => exact (Walk.snoc ih he).cast (by omega)

theorem Walk.single {es : List Edge} {u v : Nat} {w : Int} (he : (u, v, w) ∈ es) :
    Walk es u v w := (Walk.snoc (Walk.nil u) he).cast (by omega)

theorem Walk.cons {es : List Edge} {u v x : Nat} {w c : Int} (he : (u, v, w) ∈ es)
    (h : Walk es v x c) : Walk es u x (w + c) := (Walk.single he).trans h

theorem Walk.mono {es es' : List Edge} (hsub : ∀ e ∈ es, e ∈ es') {u v : Nat} {c : Int}
    (h : Walk es u v c) : Walk es' u v c := by
  induction h with
  | nil => exact Walk.nil _
  | snoc _ he ih => exact Walk.snoc ih (hsub _ he)

theorem Reach.refl (es : List Edge) (u : Nat) : Reach es u u := ⟨0, Walk.nil u⟩

theorem Reach.trans {es : List Edge} {u v x : Nat} (h1 : Reach es u v) (h2 : Reach es v x) :
    Reach es u x := by
  obtain ⟨c, hc⟩ := h1
  obtain ⟨k, hk⟩ := h2
  exact ⟨c + k, hc.trans hk⟩

theorem Reach.step {es : List Edge} {u v x : Nat} {w : Int} (h : Reach es u v)
    (he : (v, x, w) ∈ es) : Reach es u x := by
  obtain ⟨c, hc⟩ := h
  exact ⟨c + w, Walk.snoc hc he⟩

theorem mem_rev {es : List Edge} {u v : Nat} {w : Int} : (u, v, w) ∈ rev es ↔ (v, u, w) ∈ es := by
  unfold rev
  constructor
  · intro h
    obtain ⟨e, he, heq⟩ := List.mem_map.mp h
    obtain ⟨a, b, c⟩ := e
    simp only [flip, Prod.mk.injEq] at heq
    obtain ⟨rfl, rfl, rfl⟩ := heq
    exact he
  · intro h
    exact List.mem_map.mpr ⟨(v, u, w), h, rfl⟩

theorem mem_sym {es : List Edge} {u v : Nat} {w : Int} :
    (u, v, w) ∈ sym es ↔ (u, v, w) ∈ es ∨ (v, u, w) ∈ es := by
  unfold sym
  rw [List.mem_append]
  exact or_congr Iff.rfl (mem_rev (es := es))

theorem mem_sym_swap {es : List Edge} {u v : Nat} {w : Int} (h : (u, v, w) ∈ sym es) :
    (v, u, w) ∈ sym es := by
  rw [mem_sym] at *
  exact h.symm

/-- walks over the reversed edges are the reversed walks -/
theorem walk_rev {es : List Edge} {u v : Nat} {c : Int} (h : Walk (rev es) u v c) :
    Walk es v u c := by
  induction h with
  | nil => exact Walk.nil _
  | snoc _ he ih => exact (Walk.cons (mem_rev.mp he) ih).cast (by omega)

theorem walk_rev' {es : List Edge} {u v : Nat} {c : Int} (h : Walk es u v c) :
    Walk (rev es) v u c := by
  induction h with
  | nil => exact Walk.nil _
  | snoc _ he ih => exact (Walk.cons (mem_rev.mpr he) ih).cast (by omega)

theorem reach_rev {es : List Edge} {u v : Nat} : Reach (rev es) u v ↔ Reach es v u :=
  ⟨fun ⟨c, h⟩ => ⟨c, walk_rev h⟩, fun ⟨c, h⟩ => ⟨c, walk_rev' h⟩⟩

/-- undirected connectivity is symmetric -/
theorem reach_sym_symm {es : List Edge} {u v : Nat} (h : Reach (sym es) u v) :
    Reach (sym es) v u := by
  obtain ⟨c, hc⟩ := h
  induction hc with
  | nil => exact Reach.refl _ _
  | snoc _ he ih => exact Reach.trans ⟨_, Walk.single (mem_sym_swap he)⟩ ih

/-! ### reachability: `checkReachOrder` -/

theorem justified_sound (es : List Edge) (s : Nat) :
    ∀ (rest pre : List Nat), (∀ x ∈ pre, Reach es s x) → justified es pre rest = true →
      ∀ x ∈ rest, Reach es s x := by
  intro rest
  induction rest with
  | nil => intro _ _ _ x hx; cases hx
  | cons v rest ih =>
    intro pre hpre hj x hx
    simp only [justified, Bool.and_eq_true, List.any_eq_true, beq_iff_eq,
      List.contains_iff_mem] at hj
    obtain ⟨⟨e, he, hev, hep⟩, hrest⟩ := hj
    have hv : Reach es s v := by
      subst hev
      exact (hpre e.1 hep).step (w := e.2.2) he
    have hpre' : ∀ y ∈ v :: pre, Reach es s y := by
      intro y hy
      rcases List.mem_cons.mp hy with h | h
      · exact h ▸ hv
      · exact hpre y h
    rcases List.mem_cons.mp hx with h | h
    · exact h ▸ hv
    · exact ih (v :: pre) hpre' hrest x h

theorem closedUnder_spec {es : List Edge} {l : List Nat} (h : closedUnder es l = true)
    {u v : Nat} {w : Int} (he : (u, v, w) ∈ es) (hu : u ∈ l) : v ∈ l := by
  simp only [closedUnder, List.all_eq_true, Bool.or_eq_true, Bool.not_eq_true',
    List.contains_iff_mem] at h
  rcases h _ he with h | h
  · simp only [List.contains_eq_mem, decide_eq_false_iff_not] at h
    exact absurd hu h
  · exact h

/-- **F (reachability)**: an accepted order lists exactly the nodes reachable from `s`, each
once — for every multigraph, source and candidate order. BFS and DFS visit sets are compared
with such an order. -/
theorem c19_reach_order_sound (es : List Edge) (s : Nat) (order : List Nat)
    (h : checkReachOrder es s order = true) :
    (∀ v, v ∈ order ↔ Reach es s v) ∧ order.Nodup := by
  cases order with
  | nil => simp [checkReachOrder] at h
  | cons a t =>
    simp only [checkReachOrder, Bool.and_eq_true, beq_iff_eq, decide_eq_true_eq] at h
    obtain ⟨⟨⟨ha, hj⟩, hc⟩, hn⟩ := h
    subst ha
    refine ⟨fun v => ⟨?_, ?_⟩, hn⟩
    · intro hv
      rcases List.mem_cons.mp hv with h | h
      · exact h ▸ Reach.refl es a
      · refine justified_sound es a t [a] ?_ hj v h
        intro x hx
        rcases List.mem_cons.mp hx with h | h
        · exact h ▸ Reach.refl es a
        · cases h
    · rintro ⟨c, hw⟩
      induction hw with
      | nil => exact List.mem_cons_self
      | snoc _ he ih => exact closedUnder_spec hc he ih

/-- two accepted orders (e.g. one derived from BFS, one from DFS) list the same set -/
theorem c19_reach_order_unique (es : List Edge) (s : Nat) (o1 o2 : List Nat)
    (h1 : checkReachOrder es s o1 = true) (h2 : checkReachOrder es s o2 = true) :
    ∀ v, v ∈ o1 ↔ v ∈ o2 := fun v =>
  ((c19_reach_order_sound es s o1 h1).1 v).trans ((c19_reach_order_sound es s o2 h2).1 v).symm

/-- necessary condition (partial completeness): any list whose members are exactly the reachable
nodes passes the closure test; what is not proved is that a justifying *order* of it always
exists (it does: BFS order), so completeness of `checkReachOrder` is left to the driver's search,
whose failure shows up as `checker-rejects`. -/
theorem c19_reach_closed_complete_partial (es : List Edge) (s : Nat) (l : List Nat)
    (h : ∀ v, v ∈ l ↔ Reach es s v) : closedUnder es l = true := by
  simp only [closedUnder, List.all_eq_true, Bool.or_eq_true, Bool.not_eq_true',
    List.contains_iff_mem]
  intro e he
  by_cases hu : e.1 ∈ l
  · exact Or.inr ((h _).mpr (((h _).mp hu).step (w := e.2.2) he))
  · left; simpa using hu

/-! ### shortest paths: `checkSssp` -/

theorem lookup_mem {r : List (Nat × Int)} {v : Nat} {d : Int} (h : r.lookup v = some d) :
    (v, d) ∈ r := by
  induction r with
  | nil => simp [List.lookup] at h
  | cons q r ih =>
    obtain ⟨a, b⟩ := q
    simp only [List.lookup] at h
    split at h
    · rename_i heq
      have : v = a := by simpa using heq
      simp only [Option.some.injEq] at h
      subst this; subst h
      exact List.mem_cons_self
    · exact List.mem_cons_of_mem _ (ih h)

theorem mem_lookup {r : List (Nat × Int)} (hn : (r.map Prod.fst).Nodup) {v : Nat} {d : Int}
    (h : (v, d) ∈ r) : r.lookup v = some d := by
  induction r with
  | nil => cases h
  | cons q r ih =>
    obtain ⟨a, b⟩ := q
    simp only [List.map_cons, List.nodup_cons] at hn
    simp only [List.lookup]
    rcases List.mem_cons.mp h with h' | h'
    · simp only [Prod.mk.injEq] at h'
      obtain ⟨rfl, rfl⟩ := h'
      simp
    · have hne : v ≠ a := by
        intro heq
        subst heq
        exact hn.1 (List.mem_map.mpr ⟨(v, d), h', rfl⟩)
      have : (v == a) = false := by simpa using hne
      rw [this]
      exact ih hn.2 h'

theorem ssspJustified_sound (es : List Edge) (s : Nat) :
    ∀ (rest pre : List (Nat × Int)), (∀ q ∈ pre, Walk es s q.1 q.2) →
      ssspJustified es pre rest = true → ∀ q ∈ rest, Walk es s q.1 q.2 := by
  intro rest
  induction rest with
  | nil => intro _ _ _ q hq; cases hq
  | cons p rest ih =>
    intro pre hpre hj q hq
    simp only [ssspJustified, tight, Bool.and_eq_true, List.any_eq_true, beq_iff_eq] at hj
    obtain ⟨⟨e, he, hev, o, ho, hoe, hod⟩, hrest⟩ := hj
    have hp : Walk es s p.1 p.2 := by
      have h0 := hpre o ho
      rw [hoe] at h0
      have := Walk.snoc h0 (w := e.2.2) (x := e.2.1) he
      rw [hod, hev] at this
      exact this
    have hpre' : ∀ y ∈ p :: pre, Walk es s y.1 y.2 := by
      intro y hy
      rcases List.mem_cons.mp hy with h | h
      · exact h ▸ hp
      · exact hpre y h
    rcases List.mem_cons.mp hq with h | h
    · exact h ▸ hp
    · exact ih (p :: pre) hpre' hrest q h

theorem relaxed_spec {es : List Edge} {r : List (Nat × Int)} (h : relaxed es r = true)
    {u v : Nat} {w du : Int} (he : (u, v, w) ∈ es) (hu : r.lookup u = some du) :
    ∃ dv, r.lookup v = some dv ∧ dv ≤ du + w := by
  simp only [relaxed, List.all_eq_true] at h
  have := h _ he
  simp only [hu] at this
  cases hv : r.lookup v with
  | none => simp [hv] at this
  | some dv =>
    simp only [hv, decide_eq_true_eq] at this
    exact ⟨dv, rfl, this⟩

/-- **F (single-source shortest paths, any integer weights)**: in an accepted result every listed
distance is attained by a walk and is a lower bound for every walk (so it is *the* distance), and
every reachable node is listed — for every multigraph, source and candidate result. Needs no
sign assumption: acceptance itself excludes a reachable negative cycle
(`c19_negcycle_excludes_sssp`). Dijkstra, Bellman-Ford and BFS layers are compared with such a
result. -/
theorem c19_sssp_sound (es : List Edge) (s : Nat) (r : List (Nat × Int))
    (h : checkSssp es s r = true) :
    (∀ v d, (v, d) ∈ r → IsDist es s v d) ∧ (∀ v, Reach es s v → ∃ d, (v, d) ∈ r) ∧
    (r.map Prod.fst).Nodup := by
  cases r with
  | nil => simp [checkSssp] at h
  | cons q t =>
    simp only [checkSssp, Bool.and_eq_true, beq_iff_eq, decide_eq_true_eq] at h
    obtain ⟨⟨⟨⟨hq1, hq2⟩, hj⟩, hrel⟩, hn⟩ := h
    obtain ⟨a, b⟩ := q
    simp only at hq1 hq2
    subst hq1; subst hq2
    have hwalk : ∀ p ∈ (a, (0 : Int)) :: t, Walk es a p.1 p.2 := by
      intro p hp
      rcases List.mem_cons.mp hp with h | h
      · exact h ▸ Walk.nil a
      · refine ssspJustified_sound es a t [(a, 0)] ?_ hj p h
        intro x hx
        rcases List.mem_cons.mp hx with h | h
        · exact h ▸ Walk.nil a
        · cases h
    have hlow : ∀ v c, Walk es a v c → ∃ d, ((a, (0 : Int)) :: t).lookup v = some d ∧ d ≤ c := by
      intro v c hw
      induction hw with
      | nil => exact ⟨0, by simp [List.lookup], Int.le_refl 0⟩
      | snoc _ he ih =>
        obtain ⟨dv, hdv, hle⟩ := ih
        obtain ⟨dx, hdx, hle'⟩ := relaxed_spec hrel he hdv
        exact ⟨dx, hdx, by omega⟩
    refine ⟨?_, ?_, hn⟩
    · intro v d hvd
      refine ⟨hwalk (v, d) hvd, ?_⟩
      intro c hc
      obtain ⟨d', hd', hle⟩ := hlow v c hc
      have := mem_lookup hn hvd
      rw [this] at hd'
      simp only [Option.some.injEq] at hd'
      omega
    · rintro v ⟨c, hc⟩
      obtain ⟨d, hd, _⟩ := hlow v c hc
      exact ⟨d, lookup_mem hd⟩

theorem isDist_unique {es : List Edge} {s v : Nat} {d d' : Int} (h : IsDist es s v d)
    (h' : IsDist es s v d') : d = d' := by
  have := h.2 d' h'.1
  have := h'.2 d h.1
  omega

/-- **F (agreement)**: two accepted results for the same graph and source are the same distance
map — Dijkstra = Bellman-Ford = any other correct algorithm, as a corollary. -/
theorem c19_sssp_unique (es : List Edge) (s : Nat) (r1 r2 : List (Nat × Int))
    (h1 : checkSssp es s r1 = true) (h2 : checkSssp es s r2 = true) :
    ∀ v d, (v, d) ∈ r1 ↔ (v, d) ∈ r2 := by
  have key : ∀ (ra rb : List (Nat × Int)), checkSssp es s ra = true → checkSssp es s rb = true →
      ∀ v d, (v, d) ∈ ra → (v, d) ∈ rb := by
    intro ra rb ha hb v d hvd
    obtain ⟨ha1, _, _⟩ := c19_sssp_sound es s ra ha
    obtain ⟨hb1, hb2, _⟩ := c19_sssp_sound es s rb hb
    have hd := ha1 v d hvd
    obtain ⟨d', hd'⟩ := hb2 v ⟨d, hd.1⟩
    have := isDist_unique hd (hb1 v d' hd')
    exact this ▸ hd'
  exact fun v d => ⟨key r1 r2 h1 h2 v d, key r2 r1 h2 h1 v d⟩

/-! ### hop counts (BFS layers): shortest paths over unit weights -/

theorem mem_unit {es : List Edge} {u v : Nat} {w : Int} :
    (u, v, w) ∈ unit es ↔ w = 1 ∧ ∃ w', (u, v, w') ∈ es := by
  unfold unit
  constructor
  · intro h
    obtain ⟨e, he, heq⟩ := List.mem_map.mp h
    obtain ⟨a, b, c⟩ := e
    simp only [Prod.mk.injEq] at heq
    obtain ⟨rfl, rfl, rfl⟩ := heq
    exact ⟨rfl, c, he⟩
  · rintro ⟨rfl, w', he⟩
    exact List.mem_map.mpr ⟨(u, v, w'), he, rfl⟩

theorem walk_unit_iff {es : List Edge} {u v : Nat} {c : Int} :
    Walk (unit es) u v c ↔ ∃ k : Nat, c = (k : Int) ∧ Hops es u v k := by
  constructor
  · intro h
    induction h with
    | nil => exact ⟨0, rfl, Hops.nil _⟩
    | snoc _ he ih =>
      obtain ⟨k, hk, hh⟩ := ih
      obtain ⟨hw, w', he'⟩ := mem_unit.mp he
      exact ⟨k + 1, by omega, Hops.snoc hh he'⟩
  · rintro ⟨k, hk, hh⟩
    subst hk
    induction hh with
    | nil => exact Walk.nil _
    | snoc _ he ih =>
      exact (Walk.snoc ih (mem_unit.mpr ⟨rfl, _, he⟩)).cast (by omega)

/-- **F (BFS layers)**: a result accepted over unit weights lists, for every reachable node, the
least number of edges of a walk from `s` — layer `k` of a correct `bfs_layers` is the set of
nodes listed with `k`. -/
theorem c19_layers_sound (es : List Edge) (s : Nat) (r : List (Nat × Int))
    (h : checkSssp (unit es) s r = true) :
    (∀ v d, (v, d) ∈ r → ∃ k : Nat, d = (k : Int) ∧ Hops es s v k ∧ ∀ k', Hops es s v k' → k ≤ k') ∧
    (∀ v k, Hops es s v k → ∃ d, (v, d) ∈ r) := by
  obtain ⟨h1, h2, _⟩ := c19_sssp_sound (unit es) s r h
  constructor
  · intro v d hvd
    obtain ⟨hw, hmin⟩ := h1 v d hvd
    obtain ⟨k, hk, hh⟩ := walk_unit_iff.mp hw
    refine ⟨k, hk, hh, ?_⟩
    intro k' hh'
    have := hmin (k' : Int) (walk_unit_iff.mpr ⟨k', rfl, hh'⟩)
    omega
  · intro v k hh
    exact h2 v ⟨(k : Int), walk_unit_iff.mpr ⟨k, rfl, hh⟩⟩

/-! ### closed chains, negative cycles -/

theorem walkEnd_sound (es : List Edge) : ∀ (p : List Edge) (u x : Nat) (c : Int),
    walkEnd es u p = some (x, c) → Walk es u x c := by
  intro p
  induction p with
  | nil =>
    intro u x c h
    simp only [walkEnd, Option.some.injEq, Prod.mk.injEq] at h
    obtain ⟨rfl, rfl⟩ := h
    exact Walk.nil _
  | cons e p ih =>
    intro u x c h
    simp only [walkEnd] at h
    split at h
    · rename_i hcond
      simp only [Bool.and_eq_true, beq_iff_eq, List.contains_iff_mem] at hcond
      obtain ⟨heu, hmem⟩ := hcond
      cases hrest : walkEnd es e.2.1 p with
      | none => simp [hrest] at h
      | some xc =>
        obtain ⟨x', c'⟩ := xc
        simp only [hrest, Option.some.injEq, Prod.mk.injEq] at h
        obtain ⟨rfl, rfl⟩ := h
        subst heu
        exact Walk.cons (u := e.1) (v := e.2.1) (w := e.2.2) hmem (ih _ _ _ hrest)
    · cases h

theorem walkEnd_cons_edge {es : List Edge} {e : Edge} {p : List Edge} {u x : Nat} {c : Int}
    (h : walkEnd es u (e :: p) = some (x, c)) :
    e ∈ es ∧ e.1 = u ∧ ∃ c', walkEnd es e.2.1 p = some (x, c') := by
  simp only [walkEnd] at h
  split at h
  · rename_i hcond
    simp only [Bool.and_eq_true, beq_iff_eq, List.contains_iff_mem] at hcond
    cases hrest : walkEnd es e.2.1 p with
    | none => simp [hrest] at h
    | some xc =>
      obtain ⟨x', c'⟩ := xc
      simp only [hrest, Option.some.injEq, Prod.mk.injEq] at h
      exact ⟨hcond.2, hcond.1, c', by rw [h.1]⟩
  · cases h

/-- an accepted chain is a closed walk with at least one edge -/
theorem c19_cycle_sound (es cyc : List Edge) (h : checkCycle es cyc = true) : Cyclic es := by
  cases cyc with
  | nil => simp [checkCycle] at h
  | cons e p =>
    simp only [checkCycle] at h
    cases hw : walkEnd es e.1 (e :: p) with
    | none => simp [hw] at h
    | some xc =>
      obtain ⟨x, c⟩ := xc
      simp only [hw, beq_iff_eq] at h
      obtain ⟨hmem, _, c', hc'⟩ := walkEnd_cons_edge hw
      subst h
      exact ⟨e.1, e.2.1, e.2.2, c', hmem, walkEnd_sound es p _ _ _ hc'⟩

/-- **F (negative cycle)**: an accepted certificate exhibits a negative cycle reachable from `s` -/
theorem c19_negcycle_sound (es : List Edge) (s : Nat) (order : List Nat) (cyc : List Edge)
    (h : checkNegCycle es s order cyc = true) : NegCycleFrom es s := by
  simp only [checkNegCycle, Bool.and_eq_true] at h
  obtain ⟨ho, hc⟩ := h
  cases cyc with
  | nil => simp at hc
  | cons e p =>
    simp only [Bool.and_eq_true, List.contains_iff_mem] at hc
    obtain ⟨hmem, hc⟩ := hc
    cases hw : walkEnd es e.1 (e :: p) with
    | none => simp [hw] at hc
    | some xc =>
      obtain ⟨x, c⟩ := xc
      simp only [hw, Bool.and_eq_true, beq_iff_eq, decide_eq_true_eq] at hc
      obtain ⟨hx, hneg⟩ := hc
      subst hx
      obtain ⟨a, ha⟩ := ((c19_reach_order_sound es s order ho).1 e.1).mp hmem
      exact ⟨e.1, a, c, ha, walkEnd_sound es _ _ _ _ hw, hneg⟩

/-- **F**: when a negative cycle is reachable there are no shortest-path distances, and the
distance checker accepts nothing — so `negcycle` and a distance map exclude each other. -/
theorem c19_negcycle_excludes_sssp (es : List Edge) (s : Nat) (h : NegCycleFrom es s)
    (r : List (Nat × Int)) : checkSssp es s r = false := by
  cases hc : checkSssp es s r with
  | false => rfl
  | true =>
    exfalso
    obtain ⟨u, a, k, hsu, huu, hk⟩ := h
    obtain ⟨h1, h2, _⟩ := c19_sssp_sound es s r hc
    obtain ⟨d, hd⟩ := h2 u ⟨a, hsu⟩
    have hD := h1 u d hd
    have := hD.2 (d + k) (hD.1.trans huu)
    omega

/-! ### topological order -/

theorem idxOf_le_of_walk {es : List Edge} {order : List Nat}
    (hedge : ∀ u v w, (u, v, w) ∈ es → order.idxOf u < order.idxOf v) {u v : Nat} {c : Int}
    (h : Walk es u v c) : order.idxOf u ≤ order.idxOf v := by
  induction h with
  | nil => exact Nat.le_refl _
  | snoc _ he ih => exact Nat.le_of_lt (Nat.lt_of_le_of_lt ih (hedge _ _ _ he))

/-- **F (topological sort)**: an accepted order lists `0 .. n-1` exactly once, every edge goes
forward in it, and then the graph has no cycle (so `None` would be a wrong answer). -/
theorem c19_topo_sound (es : List Edge) (n : Nat) (order : List Nat)
    (h : checkTopo es n order = true) :
    order.Nodup ∧ (∀ v, v ∈ order ↔ v < n) ∧
    (∀ u v w, (u, v, w) ∈ es → order.idxOf u < order.idxOf v) ∧ ¬ Cyclic es := by
  simp only [checkTopo, Bool.and_eq_true, decide_eq_true_eq, List.all_eq_true,
    List.contains_iff_mem, List.mem_range] at h
  obtain ⟨⟨⟨hn, hlt⟩, hall⟩, hedge⟩ := h
  have hedge' : ∀ u v w, (u, v, w) ∈ es → order.idxOf u < order.idxOf v :=
    fun u v w he => hedge (u, v, w) he
  refine ⟨hn, fun v => ⟨hlt v, hall v⟩, hedge', ?_⟩
  rintro ⟨u, x, w, c, he, hw⟩
  have h1 := hedge' u x w he
  have h2 := idxOf_le_of_walk hedge' hw
  omega

/-- **F (completeness of the order test)**: the checker accepts *exactly* the duplicate-free
listings of `0 .. n-1` in which every edge goes forward — it is the definition, made executable. -/
theorem c19_topo_iff (es : List Edge) (n : Nat) (order : List Nat) :
    checkTopo es n order = true ↔
    (order.Nodup ∧ (∀ v, v ∈ order ↔ v < n) ∧
      ∀ u v w, (u, v, w) ∈ es → order.idxOf u < order.idxOf v) := by
  constructor
  · intro h
    obtain ⟨h1, h2, h3, _⟩ := c19_topo_sound es n order h
    exact ⟨h1, h2, h3⟩
  · rintro ⟨h1, h2, h3⟩
    simp only [checkTopo, Bool.and_eq_true, decide_eq_true_eq, List.all_eq_true,
      List.contains_iff_mem, List.mem_range]
    exact ⟨⟨⟨h1, fun v hv => (h2 v).mp hv⟩, fun v hv => (h2 v).mpr hv⟩,
      fun e he => h3 e.1 e.2.1 e.2.2 he⟩

/-- the accepted order is a permutation of `0 .. n-1` -/
theorem c19_topo_perm (es : List Edge) (n : Nat) (order : List Nat)
    (h : checkTopo es n order = true) : order.Perm (List.range n) := by
  obtain ⟨hn, hmem, _, _⟩ := c19_topo_sound es n order h
  refine (List.perm_ext_iff_of_nodup hn List.nodup_range).mpr ?_
  intro v
  rw [hmem v, List.mem_range]

/-- **F**: a graph with a cycle has no topological order — the checker rejects every candidate,
so `None` is the only correct answer. -/
theorem c19_cyclic_no_topo (es : List Edge) (hc : Cyclic es) (n : Nat) (order : List Nat) :
    checkTopo es n order = false := by
  cases h : checkTopo es n order with
  | false => rfl
  | true => exact absurd hc (c19_topo_sound es n order h).2.2.2

/-! ### components -/

/-- **F (weakly connected components)**: in an accepted partition every node `< n` lies in a
class, and every class is exactly the set of nodes connected (ignoring direction) to any one of
its members. -/
theorem c19_wcc_sound (es : List Edge) (n : Nat) (classes : List (List Nat))
    (h : checkWcc es n classes = true) :
    (∀ v, v < n → ∃ c ∈ classes, v ∈ c) ∧
    (∀ c ∈ classes, ∀ u ∈ c, ∀ v, v ∈ c ↔ Reach (sym es) u v) := by
  simp only [checkWcc, Bool.and_eq_true, List.all_eq_true, List.any_eq_true,
    List.contains_iff_mem, List.mem_range] at h
  obtain ⟨hcls, hcov⟩ := h
  refine ⟨hcov, ?_⟩
  intro c hc u hu v
  have hcc := hcls c hc
  cases c with
  | nil => simp at hcc
  | cons r t =>
    simp only at hcc
    have hs := (c19_reach_order_sound (sym es) r (r :: t) hcc).1
    have hru := (hs u).mp hu
    constructor
    · intro hv
      exact (reach_sym_symm hru).trans ((hs v).mp hv)
    · intro huv
      exact (hs v).mpr (hru.trans huv)

/-- two nodes `< n` share a class iff they are connected ignoring direction -/
theorem c19_wcc_same_class_iff (es : List Edge) (n : Nat) (classes : List (List Nat))
    (h : checkWcc es n classes = true) (u v : Nat) (hu : u < n) :
    (∃ c ∈ classes, u ∈ c ∧ v ∈ c) ↔ Reach (sym es) u v := by
  obtain ⟨hcov, hcl⟩ := c19_wcc_sound es n classes h
  constructor
  · rintro ⟨c, hc, huc, hvc⟩
    exact (hcl c hc u huc v).mp hvc
  · intro huv
    obtain ⟨c, hc, huc⟩ := hcov u hu
    exact ⟨c, hc, huc, (hcl c hc u huc v).mpr huv⟩

theorem mem_sccClass {fb : List Nat × List Nat} {v : Nat} :
    v ∈ sccClass fb ↔ v ∈ fb.1 ∧ v ∈ fb.2 := by
  simp [sccClass, List.mem_filter]

/-- **F (strongly connected components)**: in an accepted certificate every node `< n` lies in a
class, and every class is exactly the set of nodes mutually reachable with any one of its
members. -/
theorem c19_scc_sound (es : List Edge) (n : Nat) (cert : List (List Nat × List Nat))
    (h : checkScc es n cert = true) :
    (∀ v, v < n → ∃ fb ∈ cert, v ∈ sccClass fb) ∧
    (∀ fb ∈ cert, ∀ u ∈ sccClass fb, ∀ v,
      v ∈ sccClass fb ↔ (Reach es u v ∧ Reach es v u)) := by
  simp only [checkScc, Bool.and_eq_true, List.all_eq_true, List.any_eq_true,
    List.contains_iff_mem, List.mem_range] at h
  obtain ⟨hcls, hcov⟩ := h
  constructor
  · intro v hv
    obtain ⟨fb, hfb, h1, h2⟩ := hcov v hv
    exact ⟨fb, hfb, mem_sccClass.mpr ⟨h1, h2⟩⟩
  · intro fb hfb u hu v
    have hcc := hcls fb hfb
    obtain ⟨f, b⟩ := fb
    cases f with
    | nil => simp at hcc
    | cons r t =>
      simp only [Bool.and_eq_true] at hcc
      have hf := (c19_reach_order_sound es r (r :: t) hcc.1).1
      have hb := (c19_reach_order_sound (rev es) r b hcc.2).1
      rw [mem_sccClass] at hu ⊢
      have hru := (hf u).mp hu.1
      have hur := reach_rev.mp ((hb u).mp hu.2)
      constructor
      · rintro ⟨hvf, hvb⟩
        exact ⟨hur.trans ((hf v).mp hvf), (reach_rev.mp ((hb v).mp hvb)).trans hru⟩
      · rintro ⟨huv, hvu⟩
        exact ⟨(hf v).mpr (hru.trans huv), (hb v).mpr (reach_rev.mpr (hvu.trans hur))⟩

/-- two nodes `< n` share a class iff they are mutually reachable -/
theorem c19_scc_same_class_iff (es : List Edge) (n : Nat) (cert : List (List Nat × List Nat))
    (h : checkScc es n cert = true) (u v : Nat) (hu : u < n) :
    (∃ fb ∈ cert, u ∈ sccClass fb ∧ v ∈ sccClass fb) ↔ (Reach es u v ∧ Reach es v u) := by
  obtain ⟨hcov, hcl⟩ := c19_scc_sound es n cert h
  constructor
  · rintro ⟨fb, hfb, huc, hvc⟩
    exact (hcl fb hfb u huc v).mp hvc
  · intro huv
    obtain ⟨fb, hfb, huc⟩ := hcov u hu
    exact ⟨fb, hfb, huc, (hcl fb hfb u huc v).mpr huv⟩

/-! ### spanning forests (MST) -/

/-- **P (spanning forest, partial)**: an accepted edge set uses only edges of the graph, connects
every node `< n` to everything the whole graph connects it to, and has `n - #components` edges.
So its weight is an *upper bound witness* for the minimum spanning forest weight: an
implementation whose forest is heavier than an accepted one is certainly not minimal.
NOT proved: that `|t| = n - #components` together with spanning makes `t` acyclic (a forest), and
that the cycle property (`checkCycleProperty`, executed by the driver) implies minimal total
weight — the exchange argument is not formalised. -/
theorem c19_spanning_sound_partial (es : List Edge) (n : Nat) (t : List Edge)
    (classes : List (List Nat)) (h : checkSpanning es n t classes = true) :
    (∀ e ∈ t, e ∈ es) ∧
    (∀ u, u < n → ∀ v, Reach (sym es) u v → Reach (sym t) u v) ∧
    t.length + classes.length = n := by
  simp only [checkSpanning, Bool.and_eq_true, List.all_eq_true, List.contains_iff_mem,
    beq_iff_eq] at h
  obtain ⟨⟨⟨hsub, hw⟩, hclosed⟩, hcount⟩ := h
  obtain ⟨hcov, hcl⟩ := c19_wcc_sound t n classes hw
  refine ⟨hsub, ?_, hcount⟩
  intro u hu v huv
  obtain ⟨c, hc, huc⟩ := hcov u hu
  have hvc : v ∈ c := by
    obtain ⟨k, hk⟩ := huv
    induction hk with
    | nil => exact huc
    | snoc _ he ih => exact closedUnder_spec (hclosed c hc) he ih
  exact (hcl c hc u huc v).mp hvc

/-- converse direction of spanning: a sub-multigraph connects nothing the graph does not -/
theorem c19_subgraph_reach (es t : List Edge) (hsub : ∀ e ∈ t, e ∈ es) (u v : Nat)
    (h : Reach (sym t) u v) : Reach (sym es) u v := by
  obtain ⟨c, hc⟩ := h
  refine ⟨c, hc.mono ?_⟩
  intro e he
  obtain ⟨a, b, w⟩ := e
  rw [mem_sym] at he ⊢
  rcases he with h | h
  · exact Or.inl (hsub _ h)
  · exact Or.inr (hsub _ h)

/-! ### non-vacuity: the checkers accept correct results and reject wrong ones -/

def exG : List Edge := [(0, 1, 5), (0, 1, 1), (1, 2, 0), (2, 1, 0), (3, 3, 2), (0, 2, 4)]

theorem c19_witness_reach : checkReachOrder exG 0 [0, 1, 2] = true ∧
    checkReachOrder exG 0 [0, 1] = false ∧ checkReachOrder exG 0 [0, 1, 2, 3] = false := by decide

theorem c19_witness_sssp : checkSssp exG 0 [(0, 0), (1, 1), (2, 1)] = true ∧
    checkSssp exG 0 [(0, 0), (1, 5), (2, 4)] = false ∧
    checkSssp exG 0 [(0, 0), (1, 1), (2, 0)] = false := by decide

theorem c19_witness_negcycle :
    checkNegCycle [(0, 1, 1), (1, 2, -3), (2, 1, 2)] 0 [0, 1, 2] [(1, 2, -3), (2, 1, 2)] = true ∧
    checkSssp [(0, 1, 1), (1, 2, -3), (2, 1, 3)] 0 [(0, 0), (1, 1), (2, -2)] = true := by decide

theorem c19_witness_topo : checkTopo [(0, 1, 1), (0, 1, 1), (2, 1, 1)] 3 [2, 0, 1] = true ∧
    checkTopo [(0, 1, 1), (2, 1, 1)] 3 [1, 0, 2] = false ∧
    checkCycle exG [(1, 2, 0), (2, 1, 0)] = true ∧ checkCycle exG [(3, 3, 2)] = true := by decide

theorem c19_witness_components :
    checkWcc exG 4 [[0, 1, 2], [3]] = true ∧ checkWcc exG 4 [[0, 1], [2], [3]] = false ∧
    checkScc exG 4 [([0, 1, 2], [0]), ([1, 2], [1, 2, 0]), ([3], [3])] = true ∧
    checkScc exG 4 [([0, 1, 2], [0, 1, 2]), ([3], [3])] = false := by decide

/-- W: the two-parallel-edges graph (weights 5 and 1): the spanning forest `{(0,1,1)}` of weight 1
is accepted, so a result of weight 5 (what `kruskal` returns, keeping the first parallel edge) is
not minimal. -/
theorem c19_witness_kruskal_parallel :
    checkSpanning [(0, 1, 5), (0, 1, 1)] 2 [(0, 1, 1)] [[0, 1]] = true ∧
    totalWeight [(0, 1, 1)] = 1 ∧ checkSpanning [(0, 1, 5), (0, 1, 1)] 2 [(0, 1, 5)] [[0, 1]] = true ∧
    totalWeight [(0, 1, 5)] = 5 := by decide

end Grafeo.Graph
