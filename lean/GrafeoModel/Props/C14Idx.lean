import GrafeoModel.Proofs.IdxLemmas
import GrafeoModel.Proofs.IdxTrie
import GrafeoModel.Proofs.IdxLf
/-!
# C14 for the standalone indexes (`index/hash.rs`, `index/btree.rs`)

"After any sequence of mutations all ways of asking the same question agree": for every history
`ops` (any length) the index answers like the plain finite map `sRun ops` (an unordered,
duplicate-free entry list): point lookups, previous values returned by `insert`/`remove`, `len`,
the full scan, `min`/`max`, and `range` for all nine bound shapes (= the key-sorted filter of the
scan). Removed keys appear nowhere.

Two deviations found here were repaired upstream (fix-1: `BTreeIndex::range` answers inverted /
empty-exclusive bounds with `[]` instead of panicking once a root node exists; fix-2: `OrderedFloat`
is a total order, NaN = NaN > every number). The model is the repaired code; the former behaviour
is kept as `Old.*` with the former witnesses as `…_old_…` regression theorems.
-/
namespace Grafeo.Idx

/-! ## HashIndex -/
section Hash
variable {K V : Type} [DecidableEq K]

/-- the DashMap model holds exactly the entries of the plain map, without duplicate keys -/
theorem c14_hash_refines (ops : List (Op K V)) : Ref (hRun ops) (sRun ops) := Ref.nil.hFold ops

theorem c14_hash_get (ops : List (Op K V)) (k : K) : hGet (hRun ops) k = sGet (sRun ops) k := by
  rw [hGet_eq_sGet]; exact (c14_hash_refines ops).get k

theorem c14_hash_contains (ops : List (Op K V)) (k : K) :
    hContains (hRun ops) k = (sGet (sRun ops) k).isSome := by
  unfold hContains; rw [c14_hash_get]

/-- `insert` returns the previous value and leads to the state of the extended history -/
theorem c14_hash_insert_prev (ops : List (Op K V)) (k : K) (v : V) :
    (hInsert (hRun ops) k v).2 = sGet (sRun ops) k ∧
    (hInsert (hRun ops) k v).1 = hRun (ops ++ [.ins k v]) := by
  refine ⟨c14_hash_get ops k, ?_⟩
  simp [hRun, List.foldl_append, hStep]

theorem c14_hash_remove_prev (ops : List (Op K V)) (k : K) :
    (hRemove (hRun ops) k).2 = sGet (sRun ops) k ∧
    (hRemove (hRun ops) k).1 = hRun (ops ++ [.rem k]) := by
  refine ⟨c14_hash_get ops k, ?_⟩
  simp [hRun, List.foldl_append, hStep]

/-- `len` = number of keys of the plain map -/
theorem c14_hash_len (ops : List (Op K V)) : hLen (hRun ops) = sLen (sRun ops) :=
  (c14_hash_refines ops).len

/-- lookup equals scan: an entry is stored iff `get` returns it -/
theorem c14_hash_scan (ops : List (Op K V)) (k : K) (v : V) :
    (k, v) ∈ hRun ops ↔ hGet (hRun ops) k = some v := by
  rw [hGet_eq_sGet, sGet_eq_some_iff (c14_hash_refines ops).1]

/-- a removed key appears nowhere -/
theorem c14_hash_removed_gone (ops : List (Op K V)) (k : K) :
    hGet (hRun (ops ++ [.rem k])) k = none ∧ ∀ e ∈ hRun (ops ++ [.rem k]), e.1 ≠ k := by
  have h : ∀ e ∈ hRun (ops ++ [.rem k]), e.1 ≠ k := by
    intro e he
    have : hRun (ops ++ [.rem k]) = hErase (hRun ops) k := by simp [hRun, List.foldl_append, hStep, hRemove]
    rw [this, mem_hErase (c14_hash_refines ops).1] at he
    exact he.2
  refine ⟨?_, h⟩
  rw [hGet_eq_sGet]; exact sGet_none_of_not_mem h

/-- the plain map itself: `get` after `insert`/`remove`/`clear` (the specification is the usual map) -/
theorem spec_get_insert (a : List (K × V)) (k x : K) (v : V) :
    sGet (sInsert a k v) x = if k = x then some v else sGet (sErase a k) x := by
  simp [sInsert, sGet]

theorem spec_get_erase_same (a : List (K × V)) (k : K) : sGet (sErase a k) k = none :=
  sGet_none_of_not_mem (fun _ he => (mem_sErase.1 he).2)

end Hash

/-! ## BTreeIndex with `i64` keys -/
section BTree
variable {V : Type}

theorem c14_bt_sorted (ops : List (Op Int V)) : SortedK (bRun icmp ops).ents := (BRef.run ops).sorted

theorem c14_bt_get (ops : List (Op Int V)) (k : Int) :
    bGet icmp (bRun icmp ops) k = sGet (sRun ops) k := by
  have h := BRef.run ops
  unfold bGet; rw [bFind_eq_sGet h.sorted]; exact h.ref.get k

theorem c14_bt_contains (ops : List (Op Int V)) (k : Int) :
    bContains icmp (bRun icmp ops) k = (sGet (sRun ops) k).isSome := by
  have := c14_bt_get ops k; unfold bGet at this; unfold bContains; rw [this]

theorem c14_bt_insert_prev (ops : List (Op Int V)) (k : Int) (v : V) :
    (bInsert icmp (bRun icmp ops) k v).2 = sGet (sRun ops) k ∧
    (bInsert icmp (bRun icmp ops) k v).1 = bRun icmp (ops ++ [.ins k v]) := by
  refine ⟨c14_bt_get ops k, ?_⟩
  simp [bRun, List.foldl_append, bStep]

theorem c14_bt_remove_prev (ops : List (Op Int V)) (k : Int) :
    (bRemove icmp (bRun icmp ops) k).2 = sGet (sRun ops) k ∧
    (bRemove icmp (bRun icmp ops) k).1 = bRun icmp (ops ++ [.rem k]) := by
  refine ⟨c14_bt_get ops k, ?_⟩
  simp [bRun, List.foldl_append, bStep]

theorem c14_bt_len (ops : List (Op Int V)) : bLen (bRun icmp ops) = sLen (sRun ops) :=
  (BRef.run ops).ref.len

/-- the full scan of the index is the key-sorted scan of the plain map -/
theorem c14_bt_entries (ops : List (Op Int V)) : (bRun icmp ops).ents = sortByKey (sRun ops) :=
  (BRef.run ops).ents_eq

theorem c14_bt_min (ops : List (Op Int V)) : bMin (bRun icmp ops) = sMin (sRun ops) := by
  unfold bMin sMin; rw [c14_bt_entries]

theorem c14_bt_max (ops : List (Op Int V)) : bMax (bRun icmp ops) = sMax (sRun ops) := by
  unfold bMax sMax; rw [c14_bt_entries]

/-- inverted bounds (i64 keys): start above end, or both ends excluded and start ≥ end -/
def inverted : Bound Int → Bound Int → Prop
  | .exc s, .exc e => e ≤ s
  | .inc s, .inc e => e < s
  | .inc s, .exc e => e < s
  | .exc s, .inc e => e < s
  | _, _ => False

theorem rangeEmpty_iff (lo hi : Bound Int) : rangeEmpty icmp lo hi = true ↔ inverted lo hi := by
  cases lo <;> cases hi <;> simp [rangeEmpty, inverted, icmp_gt, icmp_lt] <;> omega

/-- for inverted bounds the scan's answer is the empty list -/
theorem c14_bt_range_inverted_scan_empty (a : List (Int × V)) (lo hi : Bound Int)
    (h : rangeEmpty icmp lo hi = true) : sRange a lo hi = [] := by
  rw [rangeEmpty_iff] at h
  have : a.filter (fun e => inLo lo e.1 && inHi hi e.1) = [] := by
    rw [List.filter_eq_nil_iff]
    intro e _
    cases lo <;> cases hi <;> simp [inverted, inLo, inHi] at h ⊢ <;> omega
  simp [sRange, this, sortByKey]

/-- **range = sorted filtered scan**, for every history and all nine bound shapes, inverted and
empty-exclusive bounds included (they select nothing) -/
theorem c14_bt_range (ops : List (Op Int V)) (lo hi : Bound Int) :
    bRange icmp (bRun icmp ops) lo hi = sRange (sRun ops) lo hi := by
  have h := BRef.run ops
  unfold bRange
  split
  · rename_i he; exact (c14_bt_range_inverted_scan_empty _ lo hi he).symm
  · rw [range_eq_filter h.sorted]
    exact (h.sorted.filter _).eq_sort (h.ref.perm.filter _)

/-- the scan specification is what it says: exactly the entries within the bounds, ascending -/
theorem spec_range_mem (a : List (Int × V)) (lo hi : Bound Int) (e : Int × V) :
    e ∈ sRange a lo hi ↔ e ∈ a ∧ inLo lo e.1 = true ∧ inHi hi e.1 = true := by
  unfold sRange
  rw [(sortByKey_perm _).mem_iff, List.mem_filter, Bool.and_eq_true]

theorem spec_range_sorted (a : List (Int × V)) (lo hi : Bound Int) :
    (sRange a lo hi).Pairwise (fun x y => x.1 ≤ y.1) := sortByKey_sorted _

/-- `min` is a stored entry with the least key (dually `max`) -/
theorem spec_min_least (a : List (Int × V)) (e : Int × V) (h : sMin a = some e) :
    e ∈ a ∧ ∀ e' ∈ a, e.1 ≤ e'.1 := by
  unfold sMin at h
  have hp := sortByKey_perm a
  have hs := sortByKey_sorted a
  cases hl : sortByKey a with
  | nil => rw [hl] at h; cases h
  | cons x r =>
    rw [hl] at h hp hs
    simp only [List.head?_cons, Option.some.injEq] at h
    subst h
    rw [List.pairwise_cons] at hs
    refine ⟨hp.mem_iff.1 (by simp), fun e' he' => ?_⟩
    rcases List.mem_cons.1 (hp.mem_iff.2 he') with e1 | e1
    · rw [e1]; exact Int.le_refl _
    · exact hs.1 e' e1

theorem spec_min_none (a : List (Int × V)) : sMin a = none ↔ a = [] := by
  unfold sMin
  have hp := sortByKey_perm a
  cases hl : sortByKey a with
  | nil => rw [hl] at hp; simp [List.Perm.nil_eq hp |>.symm]
  | cons x r =>
    rw [hl] at hp
    simp only [List.head?_cons, reduceCtorEq, false_iff]
    intro ha; rw [ha] at hp; exact absurd hp.length_eq (by simp)

/-- a removed key appears in no access path: not in `get`, not in any `range` -/
theorem c14_bt_removed_gone (ops : List (Op Int V)) (k : Int) :
    bGet icmp (bRun icmp (ops ++ [.rem k])) k = none ∧
    ∀ e ∈ (bRun icmp (ops ++ [.rem k])).ents, e.1 ≠ k := by
  have h := BRef.run ops
  have he : (bRun icmp (ops ++ [.rem k])).ents = bErase icmp (bRun icmp ops).ents k := by
    simp [bRun, List.foldl_append, bStep, bRemove]
  have hall : ∀ e ∈ (bRun icmp (ops ++ [.rem k])).ents, e.1 ≠ k := by
    intro e hm; rw [he, mem_bErase h.sorted] at hm; exact hm.2
  refine ⟨?_, hall⟩
  unfold bGet
  rw [bFind_eq_sGet (c14_bt_sorted _)]
  exact sGet_none_of_not_mem hall

/-! ### regression: before fix-1 `range` panicked on inverted bounds — but only when a root node existed -/

/-- old behaviour, populated index, `range(5..=3)`: panic; the scan says `[]` -/
theorem c14_bt_range_inverted_panics_old_witness :
    Old.bRange icmp ieq (bRun icmp [Op.ins 1 10]) (.inc 5) (.inc 3) = none ∧
    sRange (sRun [Op.ins (1 : Int) (10 : Nat)]) (.inc 5) (.inc 3) = [] := by decide

/-- old behaviour, `range((Excluded(3), Excluded(3)))` on a populated index: panic -/
theorem c14_bt_range_excl_equal_panics_old_witness :
    Old.bRange icmp ieq (bRun icmp [Op.ins 1 10]) (.exc 3) (.exc 3) = none := by decide

/-- old behaviour: the same call answered `[]` on a never-populated or cleared index, and panicked
again on an index emptied by `remove` -/
theorem c14_bt_range_inverted_inconsistent_old_witness :
    Old.bRange icmp ieq (bRun icmp ([] : List (Op Int Nat))) (.inc 5) (.inc 3) = some [] ∧
    Old.bRange icmp ieq (bRun icmp [Op.ins 1 10, Op.clear]) (.inc 5) (.inc 3) = some [] ∧
    Old.bRange icmp ieq (bRun icmp [Op.ins 1 10, Op.rem 1]) (.inc 5) (.inc 3) = none := by decide

/-- repaired: on those inputs `range` answers `[]` like the scan -/
theorem c14_bt_range_inverted_repaired_nonvacuity :
    bRange icmp (bRun icmp [Op.ins 1 10]) (.inc 5) (.inc 3) = ([] : List (Int × Nat)) ∧
    bRange icmp (bRun icmp [Op.ins 1 10]) (.exc 3) (.exc 3) = ([] : List (Int × Nat)) ∧
    bRange icmp (bRun icmp [Op.ins 1 10, Op.rem 1]) (.inc 5) (.inc 3) = ([] : List (Int × Nat)) ∧
    bRange icmp (bRun icmp [Op.ins 1 10]) (.inc 1) (.inc 1) = [(1, 10)] := by decide

/-- where old and repaired `range` agree: without inverted bounds the old code did not panic and
returned what the repaired code returns -/
theorem c14_bt_range_old_agrees (t : BT Int V) (lo hi : Bound Int) (hr : t.root = true)
    (h : Old.rangePanics icmp ieq lo hi = false) :
    Old.bRange icmp ieq t lo hi = some (bRange icmp t lo hi) := by
  have he : rangeEmpty icmp lo hi = false := by
    cases lo <;> cases hi <;>
      simp [Old.rangePanics, rangeEmpty, ieq, icmp_gt, icmp_lt] at h ⊢ <;> omega
  simp [Old.bRange, bRange, hr, h, he]

/-- nonvacuity: a history with overwrite, removal of an absent and a present key; all nine shapes -/
theorem c14_bt_nonvacuity :
    let ops : List (Op Int Nat) := [.ins 5 1, .ins 3 2, .ins 9 3, .ins 5 4, .rem 7, .rem 9, .ins (-2) 6]
    (bRun icmp ops).ents = [(-2, 6), (3, 2), (5, 4)] ∧
    bRange icmp (bRun icmp ops) (.inc 3) (.exc 5) = [(3, 2)] ∧
    bRange icmp (bRun icmp ops) (.exc 3) (.inc 5) = [(5, 4)] ∧
    bRange icmp (bRun icmp ops) .unb (.exc 3) = [(-2, 6)] ∧
    bRange icmp (bRun icmp ops) (.exc (-2)) .unb = [(3, 2), (5, 4)] ∧
    bRange icmp (bRun icmp ops) (.inc 4) (.inc 4) = [] ∧
    sRange (sRun ops) (.inc 3) (.exc 5) = [(3, 2)] := by decide

end BTree

/-! ## BTreeIndex with `OrderedFloat` keys -/

def f1 : Nat := 0x3ff0000000000000   -- 1.0
def f2 : Nat := 0x4000000000000000   -- 2.0
def fNaN : Nat := 0x7ff8000000000000
def fNegZero : Nat := 0x8000000000000000

/-- regression (before fix-2): inserting the key NaN into {1.0 ↦ 10, 2.0 ↦ 20} reported "previous
value 10" and overwrote the entry of 1.0; NaN itself was not stored; `get(NaN)` answered with 1.0's value -/
theorem c14_btf_nan_aliases_old_witness :
    (bInsert Old.fcmp (bRun Old.fcmp [Op.ins f1 10, Op.ins f2 20]) fNaN 99).2 = some 10 ∧
    (bRun Old.fcmp [Op.ins f1 10, Op.ins f2 20, Op.ins fNaN 99]).ents = [(f1, 99), (f2, 20)] ∧
    bGet Old.fcmp (bRun Old.fcmp [Op.ins f1 10, Op.ins f2 20]) fNaN = some 10 := by decide +kernel

/-- regression (before fix-2): a NaN stored first swallowed every later key -/
theorem c14_btf_nan_swallows_old_witness :
    (bRun Old.fcmp [Op.ins fNaN 1, Op.ins f1 10, Op.ins f2 20]).ents = [(fNaN, 20)] ∧
    bGet Old.fcmp (bRun Old.fcmp [Op.ins fNaN 1, Op.ins f1 10]) f2 = some 10 ∧
    (bRun Old.fcmp [Op.ins fNaN 1, Op.rem f2]).ents = ([] : List (Nat × Nat)) := by decide +kernel

/-- repaired: NaN is an ordinary (greatest) key on the same inputs -/
theorem c14_btf_nan_repaired_nonvacuity :
    (bInsert fcmp (bRun fcmp [Op.ins f1 10, Op.ins f2 20]) fNaN 99).2 = none ∧
    (bRun fcmp [Op.ins f1 10, Op.ins f2 20, Op.ins fNaN 99]).ents = [(f1, 10), (f2, 20), (fNaN, 99)] ∧
    bGet fcmp (bRun fcmp [Op.ins f1 10, Op.ins f2 20]) fNaN = none ∧
    (bRun fcmp [Op.ins fNaN 1, Op.ins f1 10, Op.ins f2 20]).ents = [(f1, 10), (f2, 20), (fNaN, 1)] ∧
    (bRun fcmp [Op.ins fNaN 1, Op.rem f2]).ents = [(fNaN, 1)] := by decide +kernel

/-- −0 and +0 are one key (`f64 ==` agrees) -/
theorem c14_btf_zero_one_key :
    (bRun fcmp [Op.ins 0 1, Op.ins fNegZero 2]).ents = [(0, 2)] := by decide +kernel

/-! ### `OrderedFloat` keys, every history (NaN included): the float index is the `i64` index on
`fkeyI` (the integer whose order is the repaired order: IEEE for numbers, −0 = +0, NaN = NaN
greatest), hence the plain map -/
section Float
variable {V : Type}

theorem c14_btf_get (ops : List (Op Nat V)) (k : Nat) :
    bGet fcmp (bRun fcmp ops) k = sGet (sRun (ops.map (Op.mapKey fkeyI))) (fkeyI k) := by
  have h := FSim.run ops
  unfold bGet
  rw [bFind_sim, h.ents]
  exact c14_bt_get _ _

theorem c14_btf_len (ops : List (Op Nat V)) :
    bLen (bRun fcmp ops) = sLen (sRun (ops.map (Op.mapKey fkeyI))) := by
  have h := FSim.run ops
  rw [← c14_bt_len]
  unfold bLen; rw [← h.ents]; simp [fmapK]

theorem c14_btf_entries (ops : List (Op Nat V)) :
    fmapK (bRun fcmp ops).ents = sortByKey (sRun (ops.map (Op.mapKey fkeyI))) := by
  rw [(FSim.run ops).ents]; exact c14_bt_entries _

theorem c14_btf_range (ops : List (Op Nat V)) (lo hi : Bound Nat) :
    fmapK (bRange fcmp (bRun fcmp ops) lo hi) =
      sRange (sRun (ops.map (Op.mapKey fkeyI))) (lo.mapKey fkeyI) (hi.mapKey fkeyI) := by
  have h := FSim.run ops
  rw [← c14_bt_range]
  unfold bRange
  rw [rangeEmpty_sim]
  split
  · rfl
  · rw [rangeHi_sim, rangeLo_sim, h.ents]

end Float

/-! ## TrieIndex, TrieIterator (proofs in Proofs/IdxTrie.lean) -/

/-- `len` = number of inserts -/
theorem c14_trie_len (h : List (List Nat × Nat)) : (Trie.build h).len = h.length := trie_len h

/-- `get path` = the edge ids inserted under exactly that path, in insertion order -/
theorem c14_trie_get (h : List (List Nat × Nat)) (p : List Nat) :
    (Trie.build h).get p = sTrieGet h p := trie_get h p

/-- an iterator's keys are strictly ascending (each child exactly once), starting at position 0 -/
theorem c14_trie_iter_sorted (h : List (List Nat × Nat)) (p : List Nat) (it : TIter)
    (hi : (Trie.build h).iterAt p = some it) : it.keys.Pairwise (· < ·) ∧ it.pos = 0 :=
  trie_iter_sorted h p it hi

/-- … and are exactly the distinct next keys of the inserted paths that extend `p` -/
theorem c14_trie_iter_keys (h : List (List Nat × Nat)) (p : List Nat) :
    ((Trie.build h).iterAt p).map (·.keys) = sTrieKeys h p := trie_iter_keys h p

/-- the `key`/`next` loop enumerates exactly the remaining keys, in order -/
theorem c14_trie_iter_enum (it : TIter) : itEnum (it.keys.length + 1) it = it.rem := iter_enum it

/-- `seek t` lands on the least remaining key `≥ t` (or exhausts the iterator when there is none) -/
theorem c14_trie_seek_least (it : TIter) (t : Nat) (hs : it.keys.Pairwise (· < ·)) :
    (∀ k, (it.seek t).1.key = some k → t ≤ k ∧ k ∈ it.rem ∧ ∀ k' ∈ it.rem, t ≤ k' → k ≤ k') ∧
    ((it.seek t).1.key = none → ∀ k' ∈ it.rem, k' < t) ∧
    (it.seek t).2 = (it.seek t).1.isValid := by
  have h := iter_seek_least it t hs
  exact ⟨h.2.2.2.2.2.1, h.2.2.2.2.2.2, h.2.2.2.2.1⟩

/-! ## LeapfrogJoin (proofs in Proofs/IdxLf.lean) -/

/-- for any number ≥ 1 of iterators over strictly ascending key lists, at any positions, the keys
enumerated by `key`/`next` are exactly the common remaining keys, strictly ascending — i.e. the
sorted intersection (soundness, completeness, order); the fuel of `searchLoop` suffices because the
result does not depend on it (`c14_lf_fuel`) -/
theorem c14_lf_intersection (its : List TIter) (hne : its ≠ [])
    (hwf : ∀ it ∈ its, it.keys.Pairwise (· < ·)) :
    lfEnum (lfEnumFuel (LF.new its)) (LF.new its) = sInter (its.map TIter.rem) ∧
    (lfEnum (lfEnumFuel (LF.new its)) (LF.new its)).Pairwise (· < ·) ∧
    ∀ k, k ∈ lfEnum (lfEnumFuel (LF.new its)) (LF.new its) ↔ ∀ it ∈ its, k ∈ it.rem :=
  ⟨lf_enum_eq_sInter hne hwf, lf_enum_eq_inter hne hwf⟩

theorem c14_lf_first_key (its : List TIter) (hne : its ≠ [])
    (hwf : ∀ it ∈ its, it.keys.Pairwise (· < ·)) :
    (LF.new its).key = (sInter (its.map TIter.rem)).head? := lf_new_key hne hwf

/-- termination: any larger fuel gives the same enumeration -/
theorem c14_lf_fuel (its : List TIter) (hne : its ≠ [])
    (hwf : ∀ it ∈ its, it.keys.Pairwise (· < ·)) (f : Nat) (hf : f ≥ lfEnumFuel (LF.new its)) :
    lfEnum f (LF.new its) = lfEnum (lfEnumFuel (LF.new its)) (LF.new its) := lfEnum_fuel hne hwf hf

/-- end to end, as the stream runs it: one trie per insert history, a leapfrog join over their root
iterators enumerates the sorted intersection of the tries' distinct first-level keys -/
theorem c14_lf_trie_join (hs : List (List (List Nat × Nat))) (hne : hs ≠ []) :
    let j := LF.new (hs.map (fun h => (Trie.build h).iter))
    lfEnum (lfEnumFuel j) j =
      sInter (hs.map (fun h => isort (dedupNat (h.filterMap (fun pe => nextKey [] pe.1))))) := by
  intro j
  have hit : ∀ h : List (List Nat × Nat), (Trie.build h).iterAt [] = some (Trie.build h).iter := by
    intro h; simp [Trie.iterAt, Trie.iter, TNode.walk]
  have hwf : ∀ it ∈ hs.map (fun h => (Trie.build h).iter), it.keys.Pairwise (· < ·) := by
    intro it hm
    obtain ⟨h, _, rfl⟩ := List.mem_map.1 hm
    exact (trie_iter_sorted h [] _ (hit h)).1
  have hne' : hs.map (fun h => (Trie.build h).iter) ≠ [] := by simpa using hne
  rw [show lfEnum (lfEnumFuel j) j = _ from lf_enum_eq_sInter hne' hwf, List.map_map]
  congr 1
  apply List.map_congr_left
  intro h _
  have hk := trie_iter_keys h []
  rw [hit h] at hk
  simp only [Option.map_some, sTrieKeys, List.isEmpty_nil, Bool.true_or, if_true, Option.some.injEq] at hk
  have h0 := (trie_iter_sorted h [] _ (hit h)).2
  simp only [Function.comp, TIter.rem, h0, List.drop_zero]
  exact hk

/-- nonvacuity: three tries with a two-key intersection -/
theorem c14_lf_nonvacuity :
    let hs : List (List (List Nat × Nat)) :=
      [[([5], 0), ([1], 1), ([3], 2), ([7], 3), ([3], 4)], [([9], 0), ([3], 1), ([7], 2), ([4], 3)],
       [([7], 0), ([0], 1), ([3], 2)]]
    let j := LF.new (hs.map (fun h => (Trie.build h).iter))
    lfEnum (lfEnumFuel j) j = [3, 7] := by decide

end Grafeo.Idx
