import GrafeoModel.Proofs.TxMgrLemmas

/-!
# C04 — the serializable level admits only serializable outcomes

Same model, same ghost log as C03. "Equivalent to running the committed transactions one at a
time in commit order" is the conjunction of: (i) what a serializable transaction read was not
overwritten between its start and its commit (`c04_reads_stable`), so it would have read the
same versions at its commit position; (ii) first-committer-wins for writes (C03).
-/

namespace Grafeo.TxMgr

/-- F: for every history, every committed Serializable transaction `r` and every other
committed transaction `r'` that wrote something `r` read: `r'` committed before `r` began, or
after `r` committed. So `r`'s reads are exactly those of the serial execution in commit order. -/
theorem c04_reads_stable (ops : List Op) (r r' : Rec)
    (hr : r ∈ (grun ops).2) (hser : r.iso = .serializable)
    (hr' : r' ∈ (grun ops).2) (hne : r' ≠ r) (hint : intersects r.rset r'.wset = true) :
    r'.epoch ≤ r.start ∨ r.epoch < r'.epoch :=
  (inv_grun ops).ssi r hr hser r' hr' hne hint

/-- F (no write skew): two Serializable transactions that each read something the other wrote
cannot both commit with overlapping lifetimes. -/
theorem c04_no_write_skew (ops : List Op) (r1 r2 : Rec)
    (h1 : r1 ∈ (grun ops).2) (h2 : r2 ∈ (grun ops).2) (hne : r1 ≠ r2)
    (s1 : r1.iso = .serializable) (s2 : r2.iso = .serializable)
    (rw12 : intersects r1.rset r2.wset = true) (rw21 : intersects r2.rset r1.wset = true) :
    r1.epoch ≤ r2.start ∨ r2.epoch ≤ r1.start := by
  have hinv := inv_grun ops
  have a := hinv.ssi r1 h1 s1 r2 h2 (fun h => hne h.symm) rw12
  have b := hinv.ssi r2 h2 s2 r1 h1 hne rw21
  rcases a with a | a
  · exact Or.inr a
  · rcases b with b | b
    · exact Or.inl b
    · omega

/-- F (non-overlapping transactions are never refused): an active transaction such that every
other committed transaction committed at or before its start commits successfully. -/
theorem c04_nonoverlapping_never_refused (ops : List Op) (i : Nat) (t : Tx)
    (hg : (grun ops).1.get i = some t) (hact : t.state = .active)
    (hno : ∀ r, r ∈ (grun ops).2 → r.tx ≠ i → r.epoch ≤ t.start) :
    ∃ e, ((grun ops).1.commit i).2 = .ok e := by
  have hinv := inv_grun ops
  generalize (grun ops).1 = m at *
  generalize (grun ops).2 = log at *
  -- no retained slot other than i has a commit epoch above our start
  have hnone : ∀ j u, j ≠ i → m.get j = some u → ∀ e, u.cepoch = some e → e ≤ t.start := by
    intro j u hji hu e hce
    have hc : u.state = .committed := by
      apply Classical.byContradiction
      intro hn
      rw [(hinv.slot_ok j u hu).2.2 hn] at hce; simp at hce
    obtain ⟨e', hce', hrec⟩ := (hinv.slot_ok j u hu).2.1 hc
    rw [hce] at hce'; cases hce'
    exact hno _ hrec hji
  have hfalse : ∀ (p : Tx → Bool),
      (∀ u, p u = true → (u.state = .committed → ∃ e, u.cepoch = some e) → ∃ e, u.cepoch = some e ∧ t.start < e) →
      anyOther m i p = false := by
    intro p hp
    cases h : anyOther m i p with
    | false => rfl
    | true =>
      obtain ⟨j, u, hji, hu, hpu⟩ := anyOther_elim m i p h
      obtain ⟨e, hce, hlt⟩ := hp u hpu (fun hc => by
        obtain ⟨e, he, _⟩ := (hinv.slot_ok j u hu).2.1 hc; exact ⟨e, he⟩)
      have := hnone j u hji hu e hce
      omega
  have hsome : ∀ (u : Tx) (x : Nat), (match u.cepoch with | some e => decide (e > x) | none => false) = true →
      ∃ e, u.cepoch = some e ∧ x < e := by
    intro u x h
    cases hce : u.cepoch with
    | none => rw [hce] at h; simp at h
    | some e => rw [hce] at h; simp at h; exact ⟨e, rfl, h⟩
  have e1 : wwLoop1 m i t = false := by
    unfold wwLoop1
    apply hfalse
    intro u hp hcs
    simp only [Bool.and_eq_true, beq_iff_eq, Bool.not_eq_true'] at hp
    obtain ⟨⟨hc, hguard⟩, _⟩ := hp
    obtain ⟨e, hce⟩ := hcs hc
    rw [hce] at hguard; simp at hguard
    exact ⟨e, hce, hguard⟩
  have e2 : wwLoop2 m i t = false := by
    unfold wwLoop2
    apply hfalse
    intro u hp _
    simp only [Bool.and_eq_true] at hp
    exact hsome u t.start hp.1
  have e3 : ssiLoop1 m i t = false := by
    unfold ssiLoop1
    apply hfalse
    intro u hp _
    simp only [Bool.and_eq_true] at hp
    exact hsome u t.start hp.1
  have e4 : ssiLoop2 m i t = false := by
    unfold ssiLoop2
    apply hfalse
    intro u hp _
    simp only [Bool.and_eq_true] at hp
    exact hsome u t.start hp.2
  refine ⟨m.epoch + 1, ?_⟩
  unfold Mgr.commit
  rw [hg]
  simp [hact, e1, e2, e3, e4]

/-- W: "read-only transactions are never refused" is **false** of the code: a Serializable
transaction that only read entity 7 is refused after an overlapping writer of 7 committed
(the repository's own unit test `test_ssi_read_write_conflict_detected` asserts this refusal,
so it is recorded as a known finding, not repaired). -/
theorem c04_readonly_refused_witness :
    outputs [.begin .serializable, .begin .snapshot, .read 0 7, .write 1 7, .commit 1, .commit 0] =
      [.id 0, .id 1, .flag true, .flag true, .commit (.ok 1), .commit .serFail] := by decide

/-- N: the write-skew shape is really refused (the theorem's hypotheses are reachable up to the
second commit). -/
theorem c04_write_skew_refused :
    outputs [.begin .serializable, .begin .serializable, .read 0 1, .read 0 2, .read 1 1, .read 1 2,
             .write 0 1, .write 1 2, .commit 0, .commit 1] =
      [.id 0, .id 1, .flag true, .flag true, .flag true, .flag true, .flag true, .flag true,
       .commit (.ok 1), .commit .serFail] := by decide

/-- P: the validation a transaction receives depends only on its own isolation level:
a Snapshot transaction with the same read set is not refused for reads. -/
theorem c04_snapshot_reader_not_refused :
    outputs [.begin .snapshot, .begin .snapshot, .read 0 7, .write 1 7, .commit 1, .commit 0] =
      [.id 0, .id 1, .flag true, .flag true, .commit (.ok 1), .commit (.ok 2)] := by decide

end Grafeo.TxMgr
