import GrafeoModel.Model.SparqlTx
import GrafeoModel.Props.C13

/-!
# C13 (with C01/C02): SPARQL updates and reads inside explicit session transactions

Statements are about `Grafeo.SparqlTx.step` / `runFrom`, the functions the `sptx` driver runs,
for every state, every script (any length, any number of sessions).
-/

namespace Grafeo.SparqlTx
open Grafeo.Rdf

theorem applyPending_append (st : Store) (a b : List Pending) :
    applyPending st (a ++ b) = applyPending (applyPending st a) b := by
  induction a generalizing st with
  | nil => rfl
  | cons op rest ih => cases op <;> simp [applyPending, ih]

/-- F: for every start state and every script, the committed store after the script is the
start store with the committed operations applied in commit order (an auto-commit update is a
one-operation transaction; a transaction contributes its buffer at its COMMIT; rolled-back
and still-open transactions contribute nothing). -/
theorem c13tx_committed_eq_log (st : St) (steps : List Step) :
    (runFrom st steps).1.store = applyPending st.store (logFrom st steps) := by
  induction steps generalizing st with
  | nil => rfl
  | cons x rest ih =>
    simp only [runFrom, logFrom]
    rw [ih, applyPending_append]
    congr 1
    cases x with
    | begin s => simp only [step]; cases st.cur s <;> rfl
    | commit s => simp only [step]; cases st.cur s <;> rfl
    | rollback s => simp only [step]; cases st.cur s <;> rfl
    | ins s t => simp only [step]; cases st.cur s <;> rfl
    | del s t => simp only [step]; cases st.cur s <;> rfl
    | query s => rfl
    | ask s t => rfl

/-- F (C02): ROLLBACK leaves the committed store unchanged and closes the transaction. -/
theorem c13tx_rollback_keeps_committed (st : St) (s : Nat) :
    (step st (.rollback s)).1.store = st.store ∧ (step st (.rollback s)).1.cur s = none := by
  simp only [step]
  cases h : st.cur s <;> simp [setCur, h]

/-- F (C02): updates inside a transaction and BEGIN never touch the committed store. -/
theorem c13tx_buffered_update_keeps_committed (st : St) (s tx : Nat) (t : Triple)
    (h : st.cur s = some tx) :
    (step st (.ins s t)).1.store = st.store ∧ (step st (.del s t)).1.store = st.store ∧
    (step st (.begin s)).1.store = st.store := by
  simp [step, h]

/-- F: COMMIT applies exactly the transaction's buffer, in order, and removes it. -/
theorem c13tx_commit_applies_buffer (st : St) (s tx : Nat) (h : st.cur s = some tx) :
    (step st (.commit s)).1.store = applyPending st.store ((bufGet st.bufs tx).getD []) ∧
    (step st (.commit s)).1.cur s = none := by
  simp [step, h, commitTx, setCur]

/-- F (last operation on a triple wins): whatever a transaction did before, if its last
operation on `t` is an insertion, `t` is present after the commit … -/
theorem c13tx_last_insert_wins (st : Store) (pre post : List Pending) (t : Triple)
    (hpost : ∀ op ∈ post, op ≠ .del t) :
    t ∈ (applyPending st (pre ++ [.ins t] ++ post)).triples := by
  rw [applyPending_append, applyPending_append]
  generalize applyPending st pre = st1
  have h1 : t ∈ (applyPending st1 [.ins t]).triples := by
    simp only [applyPending]; exact (mem_insert st1 t t).mpr (Or.inl rfl)
  generalize applyPending st1 [.ins t] = st2 at h1
  induction post generalizing st2 with
  | nil => exact h1
  | cons op rest ih =>
    cases op with
    | ins x =>
      simp only [applyPending]
      exact ih (fun o ho => hpost o (List.mem_cons_of_mem _ ho)) _ ((mem_insert st2 x t).mpr (Or.inr h1))
    | del x =>
      simp only [applyPending]
      have hx : t ≠ x := by
        intro e; subst e; exact hpost (.del t) (List.mem_cons_self) rfl
      exact ih (fun o ho => hpost o (List.mem_cons_of_mem _ ho)) _ ((mem_remove st2 x t).mpr ⟨hx, h1⟩)

/-- … and if it is a deletion, `t` is absent. -/
theorem c13tx_last_delete_wins (st : Store) (pre post : List Pending) (t : Triple)
    (hpost : ∀ op ∈ post, op ≠ .ins t) :
    t ∉ (applyPending st (pre ++ [.del t] ++ post)).triples := by
  rw [applyPending_append, applyPending_append]
  generalize applyPending st pre = st1
  have h1 : t ∉ (applyPending st1 [.del t]).triples := by
    simp only [applyPending]; intro h; exact ((mem_remove st1 t t).mp h).1 rfl
  generalize applyPending st1 [.del t] = st2 at h1
  induction post generalizing st2 with
  | nil => exact h1
  | cons op rest ih =>
    cases op with
    | ins x =>
      simp only [applyPending]
      have hx : t ≠ x := by
        intro e; subst e; exact hpost (.ins t) (List.mem_cons_self) rfl
      refine ih (fun o ho => hpost o (List.mem_cons_of_mem _ ho)) _ ?_
      intro h
      rcases (mem_insert st2 x t).mp h with e | h'
      · exact hx e
      · exact h1 h'
    | del x =>
      simp only [applyPending]
      refine ih (fun o ho => hpost o (List.mem_cons_of_mem _ ho)) _ ?_
      intro h
      exact h1 ((mem_remove st2 x t).mp h).2

/-- F (the seeded trace as a lemma): DELETE DATA {t} then INSERT DATA {t} in one transaction,
committed over any store, leaves `t` present. -/
theorem c13tx_delete_then_insert_present (st : St) (s tx : Nat) (t : Triple) (pre : List Pending)
    (hc : st.cur s = some tx) (hb : bufGet st.bufs tx = some (pre ++ [.del t, .ins t])) :
    t ∈ (step st (.commit s)).1.store.triples := by
  have := (c13tx_commit_applies_buffer st s tx hc).1
  rw [this, hb]
  have h := c13tx_last_insert_wins st.store (pre ++ [.del t]) [] t (by simp)
  simpa using h

/-- F: every read of the model returns the committed matches, whichever session asks and
whether or not it is inside a transaction (the code never consults the buffer). -/
theorem c13tx_read_is_committed (st : St) (s : Nat) (t : Triple) :
    step st (.query s) = (st, some (.rows (st.store.find allPat))) ∧
    step st (.ask s t) = (st, some (.rows (st.store.find (pointPat t)))) := ⟨rfl, rfl⟩

/-- F (specification, own view): in the specification a read inside a transaction sees the
committed set with the transaction's own operations applied in order; others see the
committed set. -/
theorem c13tx_spec_own_view (sp : Spec) (s : Nat) :
    (sp.own s = none → sp.view s = sp.committed) ∧
    (∀ ops, sp.own s = some ops → sp.view s = applyPending sp.committed ops) := by
  constructor
  · intro h; simp [Spec.view, h]
  · intro ops h; simp [Spec.view, h]

/-- W: the code deviates from the own-view specification: a transaction does not see its own
INSERT DATA (`rdf-own-writes-invisible`). -/
theorem c13tx_own_writes_invisible_witness :
    (run [.begin 0, .ins 0 (tripleOf 1), .query 0]).2 = [.ok, .rows []] ∧
    (specRun [.begin 0, .ins 0 (tripleOf 1), .query 0]).2 = [.ok, .rows [tripleOf 1]] := by
  decide

/-- W: a transaction sees another session's commit made after its BEGIN
(`rdf-read-not-snapshot`, the C01 deviation for triples). -/
theorem c13tx_read_not_snapshot_witness :
    (run [.begin 0, .begin 1, .ins 1 (tripleOf 4), .commit 1, .query 0]).2
      = [.ok, .ok, .ok, .rows [tripleOf 4]] ∧
    snapOnlyFrom Spec.init [.begin 0, .begin 1, .ins 1 (tripleOf 4), .commit 1, .query 0]
      = [.ok, .ok, .ok, .rows []] := by
  decide

/-- N: the seeded trace, run by the model: insert (auto-commit), BEGIN, delete, insert,
COMMIT, SELECT → one row. -/
theorem c13tx_seeded_trace_nonvacuity :
    (run [.ins 0 (tripleOf 3), .begin 0, .del 0 (tripleOf 3), .ins 0 (tripleOf 3), .commit 0,
          .query 0]).2 = [.ok, .ok, .rows [tripleOf 3]] := by
  decide

end Grafeo.SparqlTx
