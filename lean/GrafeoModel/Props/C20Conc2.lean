import GrafeoModel.Proofs.Conc2Lemmas
import GrafeoModel.Model.EdgeConc
import GrafeoModel.Proofs.LpgLemmas

/-!
# C20 — concurrent use is safe: the transaction manager (stream `conc2 tx`)

Every statement quantifies over **every** state `Reach progs st` that some interleaving of the
threads' critical sections reaches — any number of threads, any programs of
begin / record_write / record_read / commit / abort / gc / advance_epoch, any schedule, finished
or not (`c20_tx_reach_run`: the states the driver computes are of that kind).

* `c20_tx_refines_sequential` — the manager value is the one the sequential model
  (`Model/TxMgr.lean`, verified by C03/C04) computes from the calls in linearisation order, every
  answer is the sequential answer (a `begin` names its transaction by id where the sequential
  manager names it by slot: `outRel`), and each thread got its answers in program order;
* `c20_tx_first_committer_wins_transfer` — without `advance_epoch` calls the linearisation is a
  history of `TxMgr.Op`, so `c03_first_committer_wins`, `c03_no_false_refusal`,
  `c03_commit_epochs_unique` are statements about the concurrent run;
* `c20_tx_ids_unique` — the ids handed out by `begin` are pairwise distinct;
* `c20_tx_epochs_strictly_increasing` — the epochs handed out by successful commits (and by
  `advance_epoch`) strictly increase in linearisation order, and none exceeds the counter;
* `c20_tx_commit_validation_ignores_epoch` — why `commit` is one step although `advance_epoch`
  takes no lock: validation does not read the epoch counter;
* `c20_tx_ids_follow_allocation_order` (witness) — the id order is the order of the `fetch_add`s,
  not the linearisation order: the renaming in `outRel` is needed.
-/
namespace Grafeo.TxConc
open Grafeo.TxMgr

theorem inv_init (progs : List (List COp)) : Inv (init progs) := by
  have hpc : ∀ (i : Nat) (t : Thread), (init progs).threads[i]? = some t → pcId t = none ∧ t.results = [] := by
    intro i t h
    simp only [init, List.getElem?_map] at h
    cases hp : progs[i]? with
    | none => rw [hp] at h; cases h
    | some p => rw [hp] at h; cases h; exact ⟨rfl, rfl⟩
  refine { seq := rfl, len := rfl, rel := (by intro ev h; cases h), begun := rfl,
           keysLt := (by intro k h; cases h), keysNodup := List.nodup_nil,
           pendLt := ?_, pendInj := ?_, epLe := (by intro ev h; cases h), epInc := List.Pairwise.nil, res := ?_ }
  · intro i t a h ha; rw [(hpc i t h).1] at ha; cases ha
  · intro i j ti tj a hi _ ha _; rw [(hpc i ti hi).1] at ha; cases ha
  · intro i t h; rw [(hpc i t h).2]; rfl

theorem seqOf_not_begin (st : State) (op : COp) (h : ∀ v iso, op ≠ .begin v iso) :
    isBegin (seqOf st op) = false := by
  cases op <;> simp_all [seqOf, isBegin]

theorem inv_step (st : State) (i : Nat) (h : Inv st) : Inv (step st i) := by
  unfold step
  split
  · exact h
  · next t ht =>
    split
    · next id v iso hpc =>
      exact inv_event st i t _ (.tx (.begin iso)) (.id id) (some id) ((v, id) :: st.vars) h ht rfl rfl
        (Or.inl ⟨id, rfl, by simp [pcId, hpc], ⟨iso, rfl⟩, rfl⟩)
    · next hpc =>
      split
      · exact h
      · next v iso rest htodo =>
        exact inv_alloc st i t _ h ht (by simp [pcId]) rfl
      · next op rest hnb htodo =>
        exact inv_event st i t _ (seqOf st op) _ none st.vars h ht (by simp [pcId, hpc]) rfl
          (Or.inr ⟨rfl, seqOf_not_begin st op (fun v iso hh => hnb v iso hh), rfl⟩)

theorem inv_reach {progs : List (List COp)} {st : State} (h : Reach progs st) : Inv st := by
  induction h with
  | init => exact inv_init progs
  | step st i _ ih => exact inv_step st i ih

/-- the states the driver computes (forced schedule, then every thread run to completion) are
reachable states -/
theorem c20_tx_reach_run (progs : List (List COp)) (sched : List Nat) (fuel : Nat) :
    Reach progs (finishAll fuel (runSched (init progs) sched)) :=
  reach_finishAll fuel _ (reach_runSched sched _ Reach.init)

/-- F: refinement to the sequential manager, for every interleaving. -/
theorem c20_tx_refines_sequential {progs : List (List COp)} {st : State} (h : Reach progs st) :
    srun (st.log.map (·.op)) = (st.m, st.log.map (·.sout)) ∧
    (∀ ev ∈ st.log, outRel st.keys ev.cout ev.sout) ∧
    (∀ (i : Nat) (t : Thread), st.threads[i]? = some t → t.results = myOuts i st.log) :=
  ⟨(inv_reach h).seq, (inv_reach h).rel, (inv_reach h).res⟩

theorem srun_tx_fst (ops : List Op) :
    (srun (ops.map .tx)).1 = ops.foldl (fun m op => (TxMgr.step m op).1) TxMgr.init := by
  have : ∀ (acc : Mgr × List Out),
      ((ops.map SOp.tx).foldl (fun (acc : Mgr × List Out) op => let r := sstep acc.1 op; (r.1, acc.2 ++ [r.2])) acc).1 =
      ops.foldl (fun m op => (TxMgr.step m op).1) acc.1 := by
    induction ops with
    | nil => intro acc; rfl
    | cons op rest ih => intro acc; simp only [List.map_cons, List.foldl_cons]; rw [ih]; rfl
  exact this _

theorem grun_fst (ops : List Op) :
    (grun ops).1 = ops.foldl (fun m op => (TxMgr.step m op).1) TxMgr.init := by
  have : ∀ (g : Mgr × List Rec), (ops.foldl (fun g op => (gstep g op).1) g).1 =
      ops.foldl (fun m op => (TxMgr.step m op).1) g.1 := by
    induction ops with
    | nil => intro g; rfl
    | cons op rest ih =>
      intro g
      simp only [List.foldl_cons]
      rw [ih]
      congr 1
      unfold gstep
      cases op <;> simp only [TxMgr.step] <;> (try rfl)
      all_goals (repeat' split) <;> rfl
  exact this _

/-- F: when no thread calls `advance_epoch`, the linearisation is a history of the sequential
manager model and the shared manager value is `(grun ops).1` — the C03/C04 theorems
(`c03_first_committer_wins`, `c03_no_false_refusal`, `c03_commit_epochs_unique`, …), stated for
every `ops`, are statements about every concurrent run. -/
theorem c20_tx_first_committer_wins_transfer {progs : List (List COp)} {st : State} (h : Reach progs st)
    (ops : List Op) (hops : st.log.map (·.op) = ops.map .tx) : (grun ops).1 = st.m := by
  have h1 := (inv_reach h).seq
  rw [hops] at h1
  rw [grun_fst, ← srun_tx_fst, h1]

/-- F: transaction ids are unique — the ids returned by all completed `begin` calls of all
threads, in linearisation order, are pairwise distinct (and are the keys of the table). -/
theorem c20_tx_ids_unique {progs : List (List COp)} {st : State} (h : Reach progs st) :
    (st.log.filterMap evBeginId).Nodup ∧ st.log.filterMap evBeginId = st.keys ∧
    st.keys.length = st.m.slots.length := by
  have hi := inv_reach h
  exact ⟨hi.begun ▸ hi.keysNodup, hi.begun, hi.len⟩

/-- F: the epochs handed out (successful commits, `advance_epoch`) strictly increase in
linearisation order — in particular they are unique — and never exceed the counter. -/
theorem c20_tx_epochs_strictly_increasing {progs : List (List COp)} {st : State} (h : Reach progs st) :
    (st.log.filterMap evEpoch).Pairwise (· < ·) ∧
    ∀ ev ∈ st.log, ∀ e, evEpoch ev = some e → e ≤ st.m.epoch :=
  ⟨(inv_reach h).epInc, (inv_reach h).epLe⟩

/-- an answer of `commit` with the epoch shifted by `k` -/
def bump (k : Nat) : CommitRes → CommitRes
  | .ok e => .ok (e + k)
  | r => r

/-- F: `commit`'s verdict does not depend on the epoch counter, and the epoch it hands out is
the counter's successor: `advance_epoch` calls that slip into the commit's lock scope (they take
no lock) have the effect of calls that ran just before the commit. -/
theorem c20_tx_commit_validation_ignores_epoch (m : Mgr) (i k : Nat) :
    ({ m with epoch := m.epoch + k }.commit i).2 = bump k (m.commit i).2 := by
  have hw1 : ∀ t, wwLoop1 { m with epoch := m.epoch + k } i t = wwLoop1 m i t := fun _ => rfl
  have hw2 : ∀ t, wwLoop2 { m with epoch := m.epoch + k } i t = wwLoop2 m i t := fun _ => rfl
  have hs1 : ∀ t, ssiLoop1 { m with epoch := m.epoch + k } i t = ssiLoop1 m i t := fun _ => rfl
  have hs2 : ∀ t, ssiLoop2 { m with epoch := m.epoch + k } i t = ssiLoop2 m i t := fun _ => rfl
  have hget : ({ m with epoch := m.epoch + k } : Mgr).get i = m.get i := rfl
  unfold Mgr.commit
  rw [hget]
  cases m.get i with
  | none => rfl
  | some t =>
    simp only [hw1, hw2, hs1, hs2]
    by_cases c1 : t.state ≠ .active
    · rw [if_pos c1, if_pos c1]; rfl
    · rw [if_neg c1, if_neg c1]
      by_cases c2 : (wwLoop1 m i t || wwLoop2 m i t) = true
      · rw [if_pos c2, if_pos c2]; rfl
      · rw [if_neg c2, if_neg c2]
        by_cases c3 : (t.iso == .serializable && !t.rset.isEmpty && (ssiLoop1 m i t || ssiLoop2 m i t)) = true
        · rw [if_pos c3, if_pos c3]; rfl
        · rw [if_neg c3, if_neg c3]
          simp only [bump]
          congr 1; omega

/-- W: ids follow the order of the `fetch_add`s, not the linearisation order: thread 0 allocates
first, thread 1 registers first — thread 1's transaction has the larger id and the smaller slot. -/
theorem c20_tx_ids_follow_allocation_order :
    let st := runSched (init [[.begin 0 .snapshot], [.begin 1 .snapshot]]) [0, 1, 1, 0]
    st.keys = [1, 0] ∧ st.log.map (·.cout) = [.id 1, .id 0] ∧ st.log.map (·.sout) = [.id 0, .id 1] := by
  decide

/-- nonvacuity: a run with overlapping writers — the second committer is refused, epochs 1 then
(after an advance) 3. -/
theorem c20_tx_nonvacuous :
    let st := finishAll 8 (runSched (init [[.begin 0 .snapshot, .write 0 7, .commit 0, .advance],
                                            [.begin 1 .snapshot, .write 1 7, .commit 1],
                                            [.begin 2 .snapshot, .write 2 7, .commit 2]]) [0, 1, 0, 1, 0, 1, 0, 1])
    st.log.filterMap evEpoch = [1, 2, 3] ∧
    (st.threads.map (·.results)) =
      [[.id 0, .flag true, .commit (.ok 1), .count 2], [.id 1, .flag true, .commit .writeConflict],
       [.id 2, .flag true, .commit (.ok 3)]] := by
  decide

end Grafeo.TxConc

/-!
## Edge operations (stream `conc2 edge`)

`Model/EdgeConc.lean` (repaired `mark_deleted`, `fix:` af85f62; the pinned one is `Old.*`).

* `c20_edge_results_linearizable` (full) — for every program of create_edge / delete_edge /
  delete_node, any number of threads, every interleaving of their critical sections, at every
  point of the run: the edge table and the node table are those of the sequential replay of the
  linearisation, every answer is the replay's answer, and each thread has received (or is about to
  receive, `pendOut`) exactly its own answers in program order;
* `c20_edge_quiescent_agree_partial` — agreement of forward adjacency, backward adjacency and edge
  table at quiescence, for every forced schedule prefix of three fixed racing programs (`decide`):
  the general statement (invariant over pending adds / pending tombstones) is not proved;
* `c20_edge_mark_add_commute`, `c20_edge_marked_invisible` (full, store level) — why the repair
  works: a tombstone and its insertion commute on the reader's view, with or without a list;
* `c20_edge_delete_during_create_torn` — regression witness about `Old`.
-/
namespace Grafeo.EdgeConc
open Grafeo.Lpg

inductive Reach (n0 : Nat) (progs : List (List COp)) : State → Prop
  | init : Reach n0 progs (init n0 progs)
  | step (st : State) (i : Nat) : Reach n0 progs st → Reach n0 progs (step st i)

theorem reach_runSched {n0 : Nat} {progs : List (List COp)} (sched : List Nat) :
    ∀ st, Reach n0 progs st → Reach n0 progs (runSched st sched) := by
  induction sched with
  | nil => intro st h; exact h
  | cons i rest ih => intro st h; exact ih _ (Reach.step st i h)

theorem reach_finishThread {n0 : Nat} {progs : List (List COp)} (fuel : Nat) :
    ∀ st i, Reach n0 progs st → Reach n0 progs (finishThread fuel st i) := by
  induction fuel with
  | zero => intro st i h; exact h
  | succ n ih =>
    intro st i h
    unfold finishThread
    split
    · exact h
    · split
      · exact h
      · exact ih _ _ (Reach.step st i h)

theorem reach_foldl_finish {n0 : Nat} {progs : List (List COp)} (fuel : Nat) (l : List Nat) :
    ∀ st, Reach n0 progs st → Reach n0 progs (l.foldl (finishThread fuel) st) := by
  induction l with
  | nil => intro st h; exact h
  | cons i rest ih => intro st h; exact ih _ (reach_finishThread fuel st i h)

/-- the states the driver computes are reachable states -/
theorem c20_edge_reach_run (n0 : Nat) (progs : List (List COp)) (sched : List Nat) (fuel : Nat) :
    Reach n0 progs (finishAll fuel (runSched (init n0 progs) sched)) :=
  reach_foldl_finish fuel _ _ (reach_runSched sched _ Reach.init)

/-- the answer a thread is about to record: its call has taken effect, later sections remain -/
def pendOut (t : Thread) : List Nat :=
  match t.pc with
  | .crFwd id _ _ => [id]
  | .crBwd id _ _ => [id]
  | .deFwd _ _ _ => [1]
  | .deBwd _ _ => [1]
  | .deProps => [1]
  | _ => []

def myOuts (i : Nat) (log : List Ev) : List Nat := (log.filter (fun ev => ev.thread == i)).map (·.out)

structure Lin (n0 : Nat) (st : State) : Prop where
  edges : (replay (initStore n0) st.log).1.edges = st.store.edges
  nodes : (replay (initStore n0) st.log).1.nodes = st.store.nodes
  outs : (replay (initStore n0) st.log).2 = st.log.map (·.out)
  res : ∀ (i : Nat) (t : Thread), st.threads[i]? = some t → t.results ++ pendOut t = myOuts i st.log

theorem replay_append (l : List Ev) (ev : Ev) : ∀ s,
    replay s (l ++ [ev]) = ((rstep (replay s l).1 ev).1, (replay s l).2 ++ [(rstep (replay s l).1 ev).2]) := by
  induction l with
  | nil => intro s; simp [replay]
  | cons x rest ih => intro s; simp [replay, ih]

/-- what one step of a thread does to the log, the two tables and the thread's answers -/
theorem stepThread_spec (i : Nat) (s : Store) (log : List Ev) (t : Thread) :
    ((stepThread i s log t).2.1 = log ∧ (stepThread i s log t).1.edges = s.edges ∧
      (stepThread i s log t).1.nodes = s.nodes ∧
      (stepThread i s log t).2.2.results ++ pendOut (stepThread i s log t).2.2 = t.results ++ pendOut t) ∨
    (∃ ev : Ev, ev.thread = i ∧ (stepThread i s log t).2.1 = log ++ [ev] ∧
      (∀ s' : Store, s'.edges = s.edges → s'.nodes = s.nodes →
        (rstep s' ev).1.edges = (stepThread i s log t).1.edges ∧
        (rstep s' ev).1.nodes = (stepThread i s log t).1.nodes ∧ (rstep s' ev).2 = ev.out) ∧
      (stepThread i s log t).2.2.results ++ pendOut (stepThread i s log t).2.2 =
        t.results ++ pendOut t ++ [ev.out]) := by
  unfold stepThread
  split
  · next hpc =>
    split
    · left; simp
    · left; simp [pendOut, hpc]
    · left; simp [pendOut, hpc]
    · left; simp [pendOut, hpc]
  · next id src dst hpc =>
    right
    refine ⟨⟨i, .create src dst, id⟩, rfl, rfl, ?_, by simp [pendOut, hpc]⟩
    intro s' he hn
    simp [rstep, seqCreate, he, hn]
  · next id src dst hpc => left; simp [pendOut, hpc]
  · next id src dst hpc => left; simp [pendOut, hpc, done]
  · next e hpc =>
    right
    split
    · next hg =>
      refine ⟨⟨i, .delEdge e, 0⟩, rfl, rfl, ?_, by simp [pendOut, hpc, done]⟩
      intro s' he hn
      simp [rstep, seqDelEdge, he, hn, hg]
    · next r hg =>
      split
      · next hd =>
        refine ⟨⟨i, .delEdge e, 0⟩, rfl, rfl, ?_, by simp [pendOut, hpc, done]⟩
        intro s' he hn
        simp [rstep, seqDelEdge, he, hn, hg, hd]
      · next hd =>
        refine ⟨⟨i, .delEdge e, 1⟩, rfl, rfl, ?_, by simp [pendOut, hpc]⟩
        intro s' he hn
        simp [rstep, seqDelEdge, he, hn, hg, hd]
  · next e src dst hpc => left; simp [pendOut, hpc]
  · next e dst hpc => left; simp [pendOut, hpc]
  · next hpc => left; simp [pendOut, hpc, done]
  · next n hpc =>
    right
    split
    · next hg =>
      refine ⟨⟨i, .delNode n, 1⟩, rfl, rfl, ?_, by simp [pendOut, hpc, done]⟩
      intro s' he hn
      simp [rstep, seqDelNode, he, hn, hg]
    · next hg =>
      refine ⟨⟨i, .delNode n, 0⟩, rfl, rfl, ?_, by simp [pendOut, hpc, done]⟩
      intro s' he hn
      have : ∀ x, aget s.nodes n = x → x ≠ some true := by intro x hx h; exact hg (hx ▸ h ▸ rfl)
      simp only [rstep, seqDelNode, hn]
      first
        | exact ⟨he, trivial, trivial⟩
        | (split
           · next h => exact absurd h (this _ rfl)
           · simp [he, hn])

theorem lin_init (n0 : Nat) (progs : List (List COp)) : Lin n0 (init n0 progs) := by
  refine ⟨rfl, rfl, rfl, ?_⟩
  intro i t h
  simp only [init, List.getElem?_map] at h
  cases hp : progs[i]? with
  | none => rw [hp] at h; cases h
  | some p => rw [hp] at h; cases h; rfl

theorem lin_step (n0 : Nat) (st : State) (i : Nat) (h : Lin n0 st) : Lin n0 (step st i) := by
  unfold step
  split
  · exact h
  · next t ht =>
    have hi : i < st.threads.length := by
      rcases Nat.lt_or_ge i st.threads.length with h' | h'
      · exact h'
      · rw [List.getElem?_eq_none h'] at ht; cases ht
    rcases stepThread_spec i st.store st.log t with ⟨h1, h2, h3, h4⟩ | ⟨ev, h0, h1, h2, h4⟩
    · refine ⟨?_, ?_, ?_, ?_⟩
      · show (replay (initStore n0) (stepThread i st.store st.log t).2.1).1.edges = _
        rw [h1, h2]; exact h.edges
      · show (replay (initStore n0) (stepThread i st.store st.log t).2.1).1.nodes = _
        rw [h1, h3]; exact h.nodes
      · show (replay (initStore n0) (stepThread i st.store st.log t).2.1).2 = List.map _ (stepThread i st.store st.log t).2.1
        rw [h1]; exact h.outs
      · intro j u hj
        show u.results ++ pendOut u = myOuts j (stepThread i st.store st.log t).2.1
        rw [h1]
        rcases Grafeo.TxConc.get_set_cases _ _ _ _ _ hi hj with ⟨hij, hu⟩ | ⟨hij, hj'⟩
        · subst hij; rw [hu, h4]; exact h.res i t ht
        · exact h.res j u hj'
    · have hr := h2 (replay (initStore n0) st.log).1 h.edges h.nodes
      refine ⟨?_, ?_, ?_, ?_⟩
      · show (replay (initStore n0) (stepThread i st.store st.log t).2.1).1.edges = _
        rw [h1, replay_append]; exact hr.1
      · show (replay (initStore n0) (stepThread i st.store st.log t).2.1).1.nodes = _
        rw [h1, replay_append]; exact hr.2.1
      · show (replay (initStore n0) (stepThread i st.store st.log t).2.1).2 = List.map _ (stepThread i st.store st.log t).2.1
        rw [h1, replay_append]
        simp only [List.map_append, List.map_cons, List.map_nil, h.outs, hr.2.2]
      · intro j u hj
        show u.results ++ pendOut u = myOuts j (stepThread i st.store st.log t).2.1
        rw [h1]
        rcases Grafeo.TxConc.get_set_cases _ _ _ _ _ hi hj with ⟨hij, hu⟩ | ⟨hij, hj'⟩
        · subst hij
          rw [hu, h4, h.res _ t ht]
          simp [myOuts, List.filter_append, h0]
        · have : (ev.thread == j) = false := by simp [h0, hij]
          simp only [myOuts, List.filter_append, List.filter_cons, List.filter_nil, this]
          simpa [myOuts] using h.res j u hj'

theorem lin_reach {n0 : Nat} {progs : List (List COp)} {st : State} (h : Reach n0 progs st) : Lin n0 st := by
  induction h with
  | init => exact lin_init n0 progs
  | step st i _ ih => exact lin_step n0 st i ih

/-- F: results are linearizable for every interleaving of every program: at every reachable
state the edge table and the node table (what every answer is computed from) are those of the
sequential replay of the linearisation, the answers are the replay's answers, and every thread
holds its own answers in program order (the last one possibly still to be recorded). -/
theorem c20_edge_results_linearizable {n0 : Nat} {progs : List (List COp)} {st : State}
    (h : Reach n0 progs st) :
    (replay (initStore n0) st.log).1.edges = st.store.edges ∧
    (replay (initStore n0) st.log).1.nodes = st.store.nodes ∧
    (replay (initStore n0) st.log).2 = st.log.map (·.out) ∧
    ∀ (i : Nat) (t : Thread), st.threads[i]? = some t → t.results ++ pendOut t = myOuts i st.log :=
  ⟨(lin_reach h).edges, (lin_reach h).nodes, (lin_reach h).outs, (lin_reach h).res⟩

/-- F (why the repair works): a tombstone and the insertion it belongs to commute on what a
reader sees, in whichever order the two sections run, for every node and whether or not the
node had a list. -/
theorem c20_edge_mark_add_commute (a : AList Adj) (k o e k' : Nat) :
    adjLive (adjMark (adjAdd a k o e) k e) k' = adjLive (adjAdd (adjMark a k e) k o e) k' := by
  unfold adjLive adjMark adjAdd
  simp only [aget_aset]
  by_cases h : k = k'
  · subst h
    simp only [if_true, Option.getD_some]
  · have h' : ¬ k' = k := fun x => h x.symm
    simp [h']

/-- F: once the tombstone is in, the edge is invisible in that list, before and after the
insertion arrives. -/
theorem c20_edge_marked_invisible (a : AList Adj) (k o e : Nat) :
    (∀ p ∈ adjLive (adjMark a k e) k, p.2 ≠ e) ∧
    (∀ p ∈ adjLive (adjAdd (adjMark a k e) k o e) k, p.2 ≠ e) := by
  unfold adjLive adjMark adjAdd
  simp only [aget_aset, if_true, Option.getD_some]
  constructor
  · intro p hp
    simp only [List.mem_filter] at hp
    intro h; subst h
    by_cases hc : ((aget a k).getD {}).deleted.contains p.2 = true <;> simp_all
  · intro p hp
    simp only [List.mem_filter] at hp
    intro h; subst h
    by_cases hc : ((aget a k).getD {}).deleted.contains p.2 = true <;> simp_all

/-- every schedule of length `n` over `k` threads -/
def allScheds (k : Nat) : Nat → List (List Nat)
  | 0 => [[]]
  | n + 1 => (allScheds k n).flatMap (fun s => (List.range k).map (fun i => i :: s))

/-- does every schedule of `progs` (a prefix of `len` forced steps, then run to completion) end in
a store whose three structures agree and whose reader's view is the sequential replay's? -/
def allAgree (n0 : Nat) (progs : List (List COp)) (len fuel : Nat) : Bool :=
  (allScheds progs.length len).all (fun sched =>
    let st := finishAll fuel (runSched (init n0 progs) sched)
    consistent st.store && st.threads.all (·.finished) &&
    decide (view (replay (initStore n0) st.log).1 (n0 + 1) = view st.store (n0 + 1)))

/-- partial (bounded: three fixed programs; every forced schedule prefix of the stated length,
then completion in thread order — for the first program that is every interleaving, its two calls
have nine sections): the repaired code keeps forward adjacency, backward adjacency and edge table in agreement at quiescence, with
the reader's view of the sequential replay — delete_edge racing the create of the same edge on
fresh endpoints (the schedule that tore the pinned code is among them), two deleters racing one
create, delete_node racing a create. Missing for the full statement: the invariant over pending
adjacency inserts and pending tombstones for arbitrary programs. -/
theorem c20_edge_quiescent_agree_partial :
    allAgree 2 [[.create 0 1], [.delEdge 0]] 8 12 = true ∧
    allAgree 1 [[.create 0 0], [.delEdge 0], [.delEdge 0]] 5 12 = true ∧
    allAgree 2 [[.create 0 1, .delEdge 0], [.delNode 0, .create 1 0]] 7 14 = true := by
  decide +kernel

/-- W (regression, pinned code `Old`): `delete_edge(e)` between the edge-table section and the
forward-adjacency section of the `create_edge` that makes `e`, on endpoints without adjacency
lists: `mark_deleted` found no list and did nothing, the create then added live entries — the edge
table has no live edge while both adjacency views still contain edge 0, a state no sequential
order of the two calls gives. The repaired model ends consistent on the same schedule. -/
theorem c20_edge_delete_during_create_torn :
    let st := Old.finishAll 12 (Old.runSched (init 2 [[.create 0 1], [.delEdge 0]]) [0, 0, 1, 1, 1, 1, 1])
    let st' := finishAll 12 (runSched (init 2 [[.create 0 1], [.delEdge 0]]) [0, 0, 1, 1, 1, 1, 1])
    st.threads.map (·.results) = [[0], [1]] ∧
    st.log = [⟨0, .create 0 1, 0⟩, ⟨1, .delEdge 0, 1⟩] ∧
    liveEdges st.store = [] ∧ adjLive st.store.fwd 0 = [(1, 0)] ∧ adjLive st.store.bwd 1 = [(0, 0)] ∧
    consistent st.store = false ∧
    view (Old.replay (initStore 2) st.log).1 3 ≠ view st.store 3 ∧
    consistent st'.store = true ∧ adjLive st'.store.fwd 0 = [] ∧ adjLive st'.store.bwd 1 = [] ∧
    view (replay (initStore 2) st'.log).1 3 = view st'.store 3 := by
  decide

/-- W: `create_edge` does not look at the node table and `delete_node` does not look at the
edges: an edge between deleted nodes is what the sequential code produces as well
(linearizable; dangling edges are not a concurrency defect). -/
theorem c20_edge_dangling_is_sequential :
    let st := finishAll 12 (runSched (init 2 [[.create 0 1], [.delNode 0]]) [0, 1, 1, 0, 0, 0])
    st.threads.map (·.results) = [[0], [1]] ∧ consistent st.store = true ∧
    view (replay (initStore 2) st.log).1 3 = view st.store 3 ∧
    (view st.store 3).nodes = [1] ∧ (view st.store 3).edges = [(0, 0, 1)] := by
  decide

end Grafeo.EdgeConc
