import GrafeoModel.Proofs.Conc2Lemmas
import GrafeoModel.Model.EdgeConc

/-!
# C20 — concurrent use is safe: the transaction manager (stream `conc2 tx`)

Every statement quantifies over **every** state `Reach progs st` that some interleaving of the
threads' critical sections reaches — any number of threads, any programs of
begin / record_write / record_read / commit / abort / gc / advance_epoch, any schedule, finished
or not (`c20_tx_reach_run`: the states the driver computes are of that kind).

* `c20_tx_refines_sequential` — the manager value is the one the sequential model
  (`Model/TxMgr.lean`, verified by C03/C04) computes from the calls in linearisation order, every
  answer is the sequential answer (a `begin` names its transaction by id where the sequential
  manager names it by slot: `outRel`), and each thread got its answers in program order;
* `c20_tx_first_committer_wins_transfer` — without `advance_epoch` calls the linearisation is a
  history of `TxMgr.Op`, so `c03_first_committer_wins`, `c03_no_false_refusal`,
  `c03_commit_epochs_unique` are statements about the concurrent run;
* `c20_tx_ids_unique` — the ids handed out by `begin` are pairwise distinct;
* `c20_tx_epochs_strictly_increasing` — the epochs handed out by successful commits (and by
  `advance_epoch`) strictly increase in linearisation order, and none exceeds the counter;
* `c20_tx_commit_validation_ignores_epoch` — why `commit` is one step although `advance_epoch`
  takes no lock: validation does not read the epoch counter;
* `c20_tx_ids_follow_allocation_order` (witness) — the id order is the order of the `fetch_add`s,
  not the linearisation order: the renaming in `outRel` is needed.
-/
namespace Grafeo.TxConc
open Grafeo.TxMgr

theorem inv_init (progs : List (List COp)) : Inv (init progs) := by
  have hpc : ∀ (i : Nat) (t : Thread), (init progs).threads[i]? = some t → pcId t = none ∧ t.results = [] := by
    intro i t h
    simp only [init, List.getElem?_map] at h
    cases hp : progs[i]? with
    | none => rw [hp] at h; cases h
    | some p => rw [hp] at h; cases h; exact ⟨rfl, rfl⟩
  refine { seq := rfl, len := rfl, rel := (by intro ev h; cases h), begun := rfl,
           keysLt := (by intro k h; cases h), keysNodup := List.nodup_nil,
           pendLt := ?_, pendInj := ?_, epLe := (by intro ev h; cases h), epInc := List.Pairwise.nil, res := ?_ }
  · intro i t a h ha; rw [(hpc i t h).1] at ha; cases ha
  · intro i j ti tj a hi _ ha _; rw [(hpc i ti hi).1] at ha; cases ha
  · intro i t h; rw [(hpc i t h).2]; rfl

theorem seqOf_not_begin (st : State) (op : COp) (h : ∀ v iso, op ≠ .begin v iso) :
    isBegin (seqOf st op) = false := by
  cases op <;> simp_all [seqOf, isBegin]

theorem inv_step (st : State) (i : Nat) (h : Inv st) : Inv (step st i) := by
  unfold step
  split
  · exact h
  · next t ht =>
    split
    · next id v iso hpc =>
      exact inv_event st i t _ (.tx (.begin iso)) (.id id) (some id) ((v, id) :: st.vars) h ht rfl rfl
        (Or.inl ⟨id, rfl, by simp [pcId, hpc], ⟨iso, rfl⟩, rfl⟩)
    · next hpc =>
      split
      · exact h
      · next v iso rest htodo =>
        exact inv_alloc st i t _ h ht (by simp [pcId]) rfl
      · next op rest hnb htodo =>
        exact inv_event st i t _ (seqOf st op) _ none st.vars h ht (by simp [pcId, hpc]) rfl
          (Or.inr ⟨rfl, seqOf_not_begin st op (fun v iso hh => hnb v iso hh), rfl⟩)

theorem inv_reach {progs : List (List COp)} {st : State} (h : Reach progs st) : Inv st := by
  induction h with
  | init => exact inv_init progs
  | step st i _ ih => exact inv_step st i ih

/-- the states the driver computes (forced schedule, then every thread run to completion) are
reachable states -/
theorem c20_tx_reach_run (progs : List (List COp)) (sched : List Nat) (fuel : Nat) :
    Reach progs (finishAll fuel (runSched (init progs) sched)) :=
  reach_finishAll fuel _ (reach_runSched sched _ Reach.init)

/-- F: refinement to the sequential manager, for every interleaving. -/
theorem c20_tx_refines_sequential {progs : List (List COp)} {st : State} (h : Reach progs st) :
    srun (st.log.map (·.op)) = (st.m, st.log.map (·.sout)) ∧
    (∀ ev ∈ st.log, outRel st.keys ev.cout ev.sout) ∧
    (∀ (i : Nat) (t : Thread), st.threads[i]? = some t → t.results = myOuts i st.log) :=
  ⟨(inv_reach h).seq, (inv_reach h).rel, (inv_reach h).res⟩

theorem srun_tx_fst (ops : List Op) :
    (srun (ops.map .tx)).1 = ops.foldl (fun m op => (TxMgr.step m op).1) TxMgr.init := by
  have : ∀ (acc : Mgr × List Out),
      ((ops.map SOp.tx).foldl (fun (acc : Mgr × List Out) op => let r := sstep acc.1 op; (r.1, acc.2 ++ [r.2])) acc).1 =
      ops.foldl (fun m op => (TxMgr.step m op).1) acc.1 := by
    induction ops with
    | nil => intro acc; rfl
    | cons op rest ih => intro acc; simp only [List.map_cons, List.foldl_cons]; rw [ih]; rfl
  exact this _

theorem grun_fst (ops : List Op) :
    (grun ops).1 = ops.foldl (fun m op => (TxMgr.step m op).1) TxMgr.init := by
  have : ∀ (g : Mgr × List Rec), (ops.foldl (fun g op => (gstep g op).1) g).1 =
      ops.foldl (fun m op => (TxMgr.step m op).1) g.1 := by
    induction ops with
    | nil => intro g; rfl
    | cons op rest ih =>
      intro g
      simp only [List.foldl_cons]
      rw [ih]
      congr 1
      unfold gstep
      cases op <;> simp only [TxMgr.step] <;> (try rfl)
      all_goals (repeat' split) <;> rfl
  exact this _

/-- F: when no thread calls `advance_epoch`, the linearisation is a history of the sequential
manager model and the shared manager value is `(grun ops).1` — the C03/C04 theorems
(`c03_first_committer_wins`, `c03_no_false_refusal`, `c03_commit_epochs_unique`, …), stated for
every `ops`, are statements about every concurrent run. -/
theorem c20_tx_first_committer_wins_transfer {progs : List (List COp)} {st : State} (h : Reach progs st)
    (ops : List Op) (hops : st.log.map (·.op) = ops.map .tx) : (grun ops).1 = st.m := by
  have h1 := (inv_reach h).seq
  rw [hops] at h1
  rw [grun_fst, ← srun_tx_fst, h1]

/-- F: transaction ids are unique — the ids returned by all completed `begin` calls of all
threads, in linearisation order, are pairwise distinct (and are the keys of the table). -/
theorem c20_tx_ids_unique {progs : List (List COp)} {st : State} (h : Reach progs st) :
    (st.log.filterMap evBeginId).Nodup ∧ st.log.filterMap evBeginId = st.keys ∧
    st.keys.length = st.m.slots.length := by
  have hi := inv_reach h
  exact ⟨hi.begun ▸ hi.keysNodup, hi.begun, hi.len⟩

/-- F: the epochs handed out (successful commits, `advance_epoch`) strictly increase in
linearisation order — in particular they are unique — and never exceed the counter. -/
theorem c20_tx_epochs_strictly_increasing {progs : List (List COp)} {st : State} (h : Reach progs st) :
    (st.log.filterMap evEpoch).Pairwise (· < ·) ∧
    ∀ ev ∈ st.log, ∀ e, evEpoch ev = some e → e ≤ st.m.epoch :=
  ⟨(inv_reach h).epInc, (inv_reach h).epLe⟩

/-- an answer of `commit` with the epoch shifted by `k` -/
def bump (k : Nat) : CommitRes → CommitRes
  | .ok e => .ok (e + k)
  | r => r

/-- F: `commit`'s verdict does not depend on the epoch counter, and the epoch it hands out is
the counter's successor: `advance_epoch` calls that slip into the commit's lock scope (they take
no lock) have the effect of calls that ran just before the commit. -/
theorem c20_tx_commit_validation_ignores_epoch (m : Mgr) (i k : Nat) :
    ({ m with epoch := m.epoch + k }.commit i).2 = bump k (m.commit i).2 := by
  have hw1 : ∀ t, wwLoop1 { m with epoch := m.epoch + k } i t = wwLoop1 m i t := fun _ => rfl
  have hw2 : ∀ t, wwLoop2 { m with epoch := m.epoch + k } i t = wwLoop2 m i t := fun _ => rfl
  have hs1 : ∀ t, ssiLoop1 { m with epoch := m.epoch + k } i t = ssiLoop1 m i t := fun _ => rfl
  have hs2 : ∀ t, ssiLoop2 { m with epoch := m.epoch + k } i t = ssiLoop2 m i t := fun _ => rfl
  have hget : ({ m with epoch := m.epoch + k } : Mgr).get i = m.get i := rfl
  unfold Mgr.commit
  rw [hget]
  cases m.get i with
  | none => rfl
  | some t =>
    simp only [hw1, hw2, hs1, hs2]
    by_cases c1 : t.state ≠ .active
    · rw [if_pos c1, if_pos c1]; rfl
    · rw [if_neg c1, if_neg c1]
      by_cases c2 : (wwLoop1 m i t || wwLoop2 m i t) = true
      · rw [if_pos c2, if_pos c2]; rfl
      · rw [if_neg c2, if_neg c2]
        by_cases c3 : (t.iso == .serializable && !t.rset.isEmpty && (ssiLoop1 m i t || ssiLoop2 m i t)) = true
        · rw [if_pos c3, if_pos c3]; rfl
        · rw [if_neg c3, if_neg c3]
          simp only [bump]
          congr 1; omega

/-- W: ids follow the order of the `fetch_add`s, not the linearisation order: thread 0 allocates
first, thread 1 registers first — thread 1's transaction has the larger id and the smaller slot. -/
theorem c20_tx_ids_follow_allocation_order :
    let st := runSched (init [[.begin 0 .snapshot], [.begin 1 .snapshot]]) [0, 1, 1, 0]
    st.keys = [1, 0] ∧ st.log.map (·.cout) = [.id 1, .id 0] ∧ st.log.map (·.sout) = [.id 0, .id 1] := by
  decide

/-- nonvacuity: a run with overlapping writers — the second committer is refused, epochs 1 then
(after an advance) 3. -/
theorem c20_tx_nonvacuous :
    let st := finishAll 8 (runSched (init [[.begin 0 .snapshot, .write 0 7, .commit 0, .advance],
                                            [.begin 1 .snapshot, .write 1 7, .commit 1],
                                            [.begin 2 .snapshot, .write 2 7, .commit 2]]) [0, 1, 0, 1, 0, 1, 0, 1])
    st.log.filterMap evEpoch = [1, 2, 3] ∧
    (st.threads.map (·.results)) =
      [[.id 0, .flag true, .commit (.ok 1), .count 2], [.id 1, .flag true, .commit .writeConflict],
       [.id 2, .flag true, .commit (.ok 3)]] := by
  decide

end Grafeo.TxConc

/-!
## Edge operations (stream `conc2 edge`)

`Model/EdgeConc.lean`. Statements proved here are witnesses and sequential facts; the
linearizability of programs in which no `delete_edge` names an edge still under creation is
checked by the correspondence stream only (no theorem yet).
-/
namespace Grafeo.EdgeConc
open Grafeo.Lpg

/-- W (defect of the code): `delete_edge(e)` running between the edge-table section and the
forward-adjacency section of the `create_edge` that makes `e`, with endpoints that have no
adjacency list yet. The delete answers `true` and marks the chain; `mark_deleted` finds no list and
does nothing; the create then adds live entries: at quiescence the edge table has no live edge
while `edges_from(0)` and the backward list of node 1 still contain edge 0. No sequential order of
the two calls gives that state (the replay of the linearisation has empty adjacency views). -/
theorem c20_edge_delete_during_create_torn :
    let st := finishAll 12 (runSched (init 2 [[.create 0 1], [.delEdge 0]]) [0, 0, 1, 1, 1, 1, 1])
    st.threads.map (·.results) = [[0], [1]] ∧
    st.log = [⟨0, .create 0 1, 0⟩, ⟨1, .delEdge 0, 1⟩] ∧
    liveEdges st.store = [] ∧ adjLive st.store.fwd 0 = [(1, 0)] ∧ adjLive st.store.bwd 1 = [(0, 0)] ∧
    consistent st.store = false ∧
    view (replay (initStore 2) st.log).1 3 ≠ view st.store 3 ∧
    consistent (replay (initStore 2) st.log).1 = true := by
  decide

/-- W: the same race when the endpoints already have adjacency lists is harmless — the deleted
set filters the entry that arrives later — which is why the defect needs fresh endpoints. -/
theorem c20_edge_delete_during_create_with_lists_ok :
    let st := finishAll 18 (runSched (init 2 [[.create 0 1, .create 0 1], [.delEdge 1]]) [0, 0, 0, 0, 0, 0, 1, 1, 1, 1, 1])
    st.threads.map (·.results) = [[0, 1], [1]] ∧ consistent st.store = true ∧
    view (replay (initStore 2) st.log).1 3 = view st.store 3 := by
  decide

/-- W: `create_edge` does not look at the node table and `delete_node` does not look at the
edges: an edge between deleted nodes is what the sequential code produces as well
(linearizable; dangling edges are not a concurrency defect). -/
theorem c20_edge_dangling_is_sequential :
    let st := finishAll 12 (runSched (init 2 [[.create 0 1], [.delNode 0]]) [0, 1, 1, 0, 0, 0])
    st.threads.map (·.results) = [[0], [1]] ∧ consistent st.store = true ∧
    view (replay (initStore 2) st.log).1 3 = view st.store 3 ∧
    (view st.store 3).nodes = [1] ∧ (view st.store 3).edges = [(0, 0, 1)] := by
  decide

/-- nonvacuity (sequential reference): a call run in one piece keeps the three structures in agreement
when it creates an edge with a fresh id on a consistent store whose adjacency holds no entry for
that id — the shape of every step of `replay` — checked here on the initial stores. -/
theorem c20_edge_seq_create_delete_consistent :
    consistent (seqDelEdge (seqCreate (seqCreate (initStore 3) 0 0 1) 1 1 1) 0).1 = true ∧
    consistent (seqCreate (seqDelEdge (seqCreate (initStore 3) 0 2 2) 0).1 1 2 2) = true := by
  decide

end Grafeo.EdgeConc
