import GrafeoModel.Proofs.PersistLemmas
import GrafeoModel.Props.C05
import GrafeoModel.Props.C06
import GrafeoModel.Driver.Pers

/-!
# C05 / C07, general theorems

Everything here is about `Persist.Db.api` (the logged fragment of the `GrafeoDB` API exactly as
`database.rs` logs it, the function `Driver/Pers.lean` runs against the real database), about
`Persist.copyStore` (export→import, `to_memory`, `save`→`open`) and about
`DriverPers.dumpStore` — the dump the `pers` stream compares with the implementation on every
line: nodes with labels and properties, edges with endpoints, type and properties, forward and
backward adjacency of every node.

* Part A — the dump is a function of what the observers see (`ObsEq`).
* Part B — C07: a copy of **every** store reachable through the logged API has the same dump;
  so have export→import and save→open. Which stores are excluded, and why they are unreachable.
* Part C — C05: reopen identity for arbitrary interleavings of calls, checkpoints, rotations
  and close→reopen cycles, in a file-level model in which every database-level create takes a
  fresh epoch (as the code does since the MVCC repair). `namespace Old`: the truncation rule
  of the code before commit cb2ac62, with the data loss it caused as a regression witness.
* Part D — crash: a reopen after losing any record suffix of the log gives the state at the
  last commit marker that survived.
* Part E — non-vacuity (histories also run on the real database).
* Part F — C07 again for the whole database-level API including the unlogged query insert, and for
  committed session transactions (settledness only).
-/

set_option linter.unusedSimpArgs false

namespace Grafeo.Persist
open Grafeo.Lpg Grafeo.Wal
open Grafeo.DriverPers (dumpStore)

/-! ## Part A — the dump reads the store only through its observers -/

theorem mem_dsort_go (x y : Nat) (l : List Nat) : y ∈ DriverLpg.sortNat.go x l ↔ y = x ∨ y ∈ l := by
  induction l with
  | nil => simp [DriverLpg.sortNat.go]
  | cons z zs ih =>
    simp only [DriverLpg.sortNat.go]
    split
    · simp only [List.mem_cons, ih]
      constructor
      · rintro (h | h | h)
        · exact Or.inr (Or.inl h)
        · exact Or.inl h
        · exact Or.inr (Or.inr h)
      · rintro (h | h | h)
        · exact Or.inr (Or.inl h)
        · exact Or.inl h
        · exact Or.inr (Or.inr h)
    · simp

/-- the driver's own insertion sort keeps the elements -/
theorem mem_dsort (y : Nat) (l : List Nat) : y ∈ DriverLpg.sortNat l ↔ y ∈ l := by
  induction l with
  | nil => simp [DriverLpg.sortNat]
  | cons x xs ih =>
    unfold DriverLpg.sortNat at ih ⊢
    simp only [List.foldr_cons, mem_dsort_go, ih, List.mem_cons]

/-- the dump printed by the `pers` stream depends on the store only through the enumerated
ids, the labels and properties of enumerated nodes, the record and properties of enumerated
edges, and the adjacency lists. -/
theorem dumpStore_congr {s t : Store} (h : ObsEq s t) : dumpStore s = dumpStore t := by
  unfold dumpStore
  simp only
  rw [← h.nodeIds, ← h.edgeIds]
  have e1 : (DriverLpg.sortNat s.nodeIds).map (fun id =>
      s!"{id}:{Proto.natList (DriverLpg.sortNat (s.nodeLabelsOf id))}:{DriverLpg.showProps (s.nodePropsOf id)}") =
      (DriverLpg.sortNat s.nodeIds).map (fun id =>
      s!"{id}:{Proto.natList (DriverLpg.sortNat (t.nodeLabelsOf id))}:{DriverLpg.showProps (t.nodePropsOf id)}") := by
    apply List.map_congr_left
    intro id hid
    have hid' := (mem_dsort id _).mp hid
    rw [h.labels id hid', h.nprops id hid']
  rw [e1]
  simp only [h.out, h.inn]
  congr 4
  apply List.map_congr_left
  intro id hid
  have hid' := (mem_dsort id _).mp hid
  have hr := h.erec id hid'
  rw [h.eprops id hid']
  cases hs : aget s.edges id with
  | none =>
    cases ht : aget t.edges id with
    | none => rfl
    | some cr => rw [hs, ht] at hr; cases hr
  | some cr =>
    cases ht : aget t.edges id with
    | none => rw [hs, ht] at hr; cases hr
    | some cr' =>
      rw [hs, ht] at hr
      obtain ⟨c, r⟩ := cr
      obtain ⟨c', r'⟩ := cr'
      simp only [Option.map_some, Option.some.injEq] at hr
      subst hr; rfl

/-! ## Part B — C07: copies -/

/-- F (C07, any store with the invariants of the logged API): the copy cannot be told from the
source by any observer the dump uses. -/
theorem c07_copy_obsEq_of_good {s : Store} (h : Good s) : ObsEq (copyStore s) s := (copy_obsEq h).1

/-- F (C07): **for every history of logged calls, checkpoints and close→reopen cycles**, the
copy made by export→import / `to_memory` / `save` has exactly the dump of the source: same
nodes with labels and properties, same edges with endpoints, type and properties, same forward
and backward adjacency of every node. -/
theorem c07_copy_dump_eq (ops : List LOp) :
    dumpStore (copyStore (runApi ops).live) = dumpStore (runApi ops).live :=
  dumpStore_congr (copy_obsEq (reach_runApi ops).good).1

/-- F (C07): the same, observer by observer (not only for the nodes the dump prints: the
adjacency lists agree for *every* node id). -/
theorem c07_copy_observers (ops : List LOp) : ObsEq (copyStore (runApi ops).live) (runApi ops).live :=
  (copy_obsEq (reach_runApi ops).good).1

/-- F (C07): a copy is again a store with the invariants of the logged API — copying a copy,
or continuing to work on it, stays inside the theorems. -/
theorem c07_copy_good (ops : List LOp) : Good (copyStore (runApi ops).live) :=
  (copy_obsEq (reach_runApi ops).good).2

/-! ### export → import -/

/-- the content of a snapshot (`Snapshot { nodes, edges }`; the byte format is C16's) -/
structure Snapshot where
  nodes : List (Nat × List Nat × AList String)
  edges : List (Nat × EdgeRec × AList String)

/-- `export_snapshot`: `all_nodes()` / `all_edges()` at the store epoch -/
def exportSnap (s : Store) : Snapshot :=
  { nodes := (sortNat s.nodeIds).map (fun id => (id, s.nodeLabelsOf id, s.nodePropsOf id)),
    edges := (sortNat s.edgeIds).filterMap (fun id => match aget s.edges id with
      | some (_, r) => some (id, r, (aget s.eprops id).getD [])
      | none => none) }

/-- `import_snapshot`: re-create every node and edge with its id in a fresh store -/
def importSnap (sn : Snapshot) : Store :=
  let s1 := sn.nodes.foldl (fun acc n =>
    n.2.2.foldl (fun a2 kv => a2.setNodeProp n.1 kv.1 kv.2) (acc.createNodeWithId n.1 n.2.1)) ({} : Store)
  sn.edges.foldl (fun acc e =>
    e.2.2.foldl (fun a2 kv => a2.setEdgeProp e.1 kv.1 kv.2) (acc.createEdgeWithId e.1 e.2.1.src e.2.1.dst e.2.1.ty)) s1

theorem foldl_filterMap' {α β γ : Type} (f : α → Option β) (g : γ → β → γ) (l : List α) (a : γ) :
    (l.filterMap f).foldl g a = l.foldl (fun a x => match f x with | some y => g a y | none => a) a := by
  induction l generalizing a with
  | nil => rfl
  | cons x xs ih =>
    simp only [List.filterMap_cons, List.foldl_cons]
    cases f x with
    | none => exact ih a
    | some y => simp only [List.foldl_cons]; exact ih _

/-- import ∘ export is the model's `copyStore` -/
theorem import_export (s : Store) : importSnap (exportSnap s) = copyStore s := by
  unfold importSnap exportSnap copyStore
  simp only [List.foldl_map, foldl_filterMap']
  congr 1
  funext acc id
  cases aget s.edges id with
  | none => rfl
  | some cr => rfl

/-- F (C07): export → import gives the dump of the source, for every reachable store. -/
theorem c07_export_import_dump_eq (ops : List LOp) :
    dumpStore (importSnap (exportSnap (runApi ops).live)) = dumpStore (runApi ops).live := by
  rw [import_export]; exact c07_copy_dump_eq ops

/-- F (C07): export is a function of the store, and the source is not touched (it is an
argument, not a state) — stated for completeness. -/
theorem c07_export_deterministic (s : Store) : exportSnap s = exportSnap s := rfl

/-! ### save → open -/

def nodeRecs (s : Store) (id : Nat) : List WRec :=
  .createNode id (s.nodeLabelsOf id) :: (s.nodePropsOf id).map (fun kv => .setNodeProp id kv.1 kv.2)

def edgeRecs (s : Store) (id : Nat) : List WRec :=
  match aget s.edges id with
  | some (_, r) => .createEdge id r.src r.dst r.ty :: ((aget s.eprops id).getD []).map (fun kv => .setEdgeProp id kv.1 kv.2)
  | none => []

/-- what `save` logs in the target database: one record per re-creation step -/
def saveLog (s : Store) : List WRec :=
  (sortNat s.nodeIds).flatMap (nodeRecs s) ++ (sortNat s.edgeIds).flatMap (edgeRecs s)

/-- `save(path)`: a fresh persistent database receives the copy, every step logged, then `close()` -/
def savedDb (s : Store) : Db := ({ live := copyStore s, log := saveLog s } : Db).close

theorem foldl_flatMap' {α β γ : Type} (f : α → List β) (g : γ → β → γ) (l : List α) (a : γ) :
    (l.flatMap f).foldl g a = l.foldl (fun a x => (f x).foldl g a) a := by
  induction l generalizing a with
  | nil => rfl
  | cons x xs ih => simp only [List.flatMap_cons, List.foldl_append, List.foldl_cons, ih]

theorem foldl_applyRec_saveLog (s : Store) : (saveLog s).foldl applyRec {} = copyStore s := by
  unfold saveLog copyStore
  simp only [List.foldl_append, foldl_flatMap']
  congr 1
  · funext acc id
    unfold edgeRecs
    cases aget s.edges id with
    | none => rfl
    | some cr => simp only [List.foldl_cons, List.foldl_map]; rfl
  · congr 1
    funext acc id
    simp only [nodeRecs, List.foldl_cons, List.foldl_map]
    rfl

theorem saveLog_data (s : Store) : ∀ r ∈ saveLog s, r.kind = .data := by
  intro r hr
  unfold saveLog at hr
  rcases List.mem_append.mp hr with hr | hr
  · obtain ⟨id, _, hr⟩ := List.mem_flatMap.mp hr
    unfold nodeRecs at hr
    rcases List.mem_cons.mp hr with e | e
    · subst e; rfl
    · obtain ⟨kv, _, e⟩ := List.mem_map.mp e; subst e; rfl
  · obtain ⟨id, _, hr⟩ := List.mem_flatMap.mp hr
    unfold edgeRecs at hr
    cases hg : aget s.edges id with
    | none => rw [hg] at hr; cases hr
    | some cr =>
      rw [hg] at hr
      rcases List.mem_cons.mp hr with e | e
      · subst e; rfl
      · obtain ⟨kv, _, e⟩ := List.mem_map.mp e; subst e; rfl

theorem foldl_replayStep_data (l p c : List WRec) (h : ∀ r ∈ l, r.kind = .data) :
    l.foldl (replayStep WRec.kind) (p, c) = (p ++ l, c) := by
  induction l generalizing p with
  | nil => simp
  | cons r rs ih =>
    simp only [List.foldl_cons]
    have hr : r.kind = .data := h r List.mem_cons_self
    have : replayStep WRec.kind (p, c) r = (p ++ [r], c) := by simp [replayStep, hr]
    rw [this, ih _ (fun x hx => h x (List.mem_cons_of_mem _ hx))]
    simp

theorem rstate_all_data (l : List WRec) (h : ∀ r ∈ l, r.kind = .data) : rstate l = (l, []) := by
  unfold rstate
  rw [foldl_replayStep_data l [] [] h]; simp

/-- opening what `save` wrote replays exactly the copy -/
theorem save_open (s : Store) : (savedDb s).reopen.live = copyStore s := by
  have hsync : InSync ({ live := copyStore s, log := saveLog s } : Db) := by
    unfold InSync
    simp only [rstate_all_data _ (saveLog_data s), List.nil_append]
    exact foldl_applyRec_saveLog s
  exact reopen_live_of_inSync _ hsync rfl

/-- F (C07): `save(path)` then `open(path)` gives the dump of the source, for every reachable
store (composition of the copy theorem with the reopen theorem). -/
theorem c07_save_open_dump_eq (ops : List LOp) :
    dumpStore (savedDb (runApi ops).live).reopen.live = dumpStore (runApi ops).live := by
  rw [save_open]; exact c07_copy_dump_eq ops

/-! ### which stores are excluded, and why the database-level API cannot reach them

The copy theorem needs `Good s`. Its clauses: ids are handed out in increasing order and never
reused; label lists and property keys carry no duplicates; the adjacency lists hold exactly the
edges an enumeration at the store epoch sees. The last clause is the one that can fail in the
store as a whole: an edge that is *in the adjacency lists but not visible at the store epoch*
— the pending edge of a session transaction that has not committed, or a version stamped
after the store's epoch. `Settled` says there is no such version, and it is an invariant of the
logged API (`reach_runApi`). -/

/-- F (C07, enumeration is complete): in a store reached through the logged API, enumerating at
the store's epoch — what `all_nodes()`/`all_edges()`, hence every copy, do — sees exactly what
is seen at **any** later epoch, `EpochId::PENDING` included: no live entity is hidden from a copy. -/
theorem c07_enumeration_complete (ops : List LOp) (e : Nat) (he : (runApi ops).live.epoch ≤ e) :
    ((runApi ops).live.nodes.filter (fun kv => chainVisibleAt kv.2 e)).map (·.1) = (runApi ops).live.nodeIds ∧
    ((runApi ops).live.edges.filter (fun kv => chainVisibleAt kv.2.1 e)).map (·.1) = (runApi ops).live.edgeIds := by
  have hs := (reach_runApi ops).settled
  constructor
  · unfold Store.nodeIds
    congr 1
    apply List.filter_congr
    intro kv hkv
    rw [chainVisibleAt_of_settled (hs.1 kv hkv) he, chainVisibleAt_of_settled (hs.1 kv hkv) (Nat.le_refl _)]
  · unfold Store.edgeIds
    congr 1
    apply List.filter_congr
    intro kv hkv
    rw [chainVisibleAt_of_settled (hs.2 kv hkv) he, chainVisibleAt_of_settled (hs.2 kv hkv) (Nat.le_refl _)]

/-- the store epoch of the constant-epoch model is 0 -/
theorem runApi_epoch (ops : List LOp) : (runApi ops).live.epoch = 0 := by
  have := (reach_runApi ops).normal
  rw [← this]; rfl

/-- F: `node_count()` / `edge_count()` (counted at `PENDING`) agree with the enumeration -/
theorem c07_counts_agree (ops : List LOp) :
    (runApi ops).live.nodeCount = (runApi ops).live.nodeIds.length ∧
    (runApi ops).live.edgeCount = (runApi ops).live.edgeIds.length := by
  have h := c07_enumeration_complete ops pendingEpoch (by rw [runApi_epoch]; exact Nat.zero_le _)
  unfold Store.nodeCount Store.edgeCount
  rw [← h.1, ← h.2]
  simp

/-- the store of `c07_copy_misses_later_epoch_nodes_witness` (Props/C05.lean): store epoch 0, a
node stamped with epoch 1 -/
def laterEpochStore : Store := (({} : Store).createNode [7] 1 systemTx).1

theorem laterEpochStore_not_settled : ¬ Settled laterEpochStore := by
  intro h
  have := h.1 (0, [⟨1, systemTx, none⟩]) (by decide) ⟨1, systemTx, none⟩ (by decide)
  exact absurd this.1 (by decide)

/-- F: the state of the old C07 witness is **not reachable** through the logged API (since the
MVCC repair the store epoch follows every commit, and replay / import stamp with the store
epoch): no history ends in a store that has a version stamped after the store's epoch. -/
theorem c07_later_epoch_store_unreachable (ops : List LOp) : (runApi ops).live ≠ laterEpochStore := by
  intro h
  exact laterEpochStore_not_settled (h ▸ (reach_runApi ops).settled)

/-- W (why `Good` is needed): a store with the *pending* edge of an open session transaction —
created with stamp `PENDING` by transaction 7, filed in the adjacency lists at once. A copy
(rightly) leaves the uncommitted edge out, so the source's adjacency list shows an entry the
copy does not have. Not reachable through the database-level API (`reach_runApi`). -/
theorem c07_pending_edge_witness :
    let s0 := (runApi [.createNode [], .createNode []]).live
    let s := (s0.createEdge 0 1 5 pendingEpoch 7).1
    s.edgeIds = [] ∧ s.outEdges 0 = [(1, 0)] ∧ (copyStore s).outEdges 0 = [] ∧ ¬ Settled s := by
  refine ⟨by decide, by decide, by decide, ?_⟩
  intro h
  have := h.2 (0, ([⟨pendingEpoch, 7, none⟩], ⟨0, 1, 5⟩)) (by decide) ⟨pendingEpoch, 7, none⟩ (by decide)
  exact absurd this.1 (by decide)

/-! ### id counters of a copy -/

theorem foldl_setNodeProp_next (a : Store) (id : Nat) (ps : AList String) :
    (ps.foldl (fun a2 kv => a2.setNodeProp id kv.1 kv.2) a).nextNode = a.nextNode ∧
    (ps.foldl (fun a2 kv => a2.setNodeProp id kv.1 kv.2) a).nextEdge = a.nextEdge := by
  induction ps generalizing a with
  | nil => exact ⟨rfl, rfl⟩
  | cons kv rest ih =>
    simp only [List.foldl_cons]
    have h1 : (a.setNodeProp id kv.1 kv.2).nextNode = a.nextNode ∧ (a.setNodeProp id kv.1 kv.2).nextEdge = a.nextEdge := by
      rw [setNodeProp_eq]; split <;> exact ⟨rfl, rfl⟩
    exact ⟨(ih _).1.trans h1.1, (ih _).2.trans h1.2⟩

theorem foldl_setEdgeProp_next (a : Store) (id : Nat) (ps : AList String) :
    (ps.foldl (fun a2 kv => a2.setEdgeProp id kv.1 kv.2) a).nextNode = a.nextNode ∧
    (ps.foldl (fun a2 kv => a2.setEdgeProp id kv.1 kv.2) a).nextEdge = a.nextEdge := by
  induction ps generalizing a with
  | nil => exact ⟨rfl, rfl⟩
  | cons kv rest ih =>
    simp only [List.foldl_cons]
    have h1 : (a.setEdgeProp id kv.1 kv.2).nextNode = a.nextNode ∧ (a.setEdgeProp id kv.1 kv.2).nextEdge = a.nextEdge := by
      rw [setEdgeProp_eq]; split <;> exact ⟨rfl, rfl⟩
    exact ⟨(ih _).1.trans h1.1, (ih _).2.trans h1.2⟩

theorem copyNodeStep_next (s acc : Store) (id : Nat) :
    (copyNodeStep s acc id).nextNode = (if id ≥ acc.nextNode then id + 1 else acc.nextNode) ∧
    (copyNodeStep s acc id).nextEdge = acc.nextEdge :=
  foldl_setNodeProp_next (acc.createNodeWithId id (s.nodeLabelsOf id)) id (s.nodePropsOf id)

theorem copyEdgeStep_next (s acc : Store) (id : Nat) :
    (copyEdgeStep s acc id).nextNode = acc.nextNode ∧
    ((copyEdgeStep s acc id).nextEdge = acc.nextEdge ∨
     (copyEdgeStep s acc id).nextEdge = (if id ≥ acc.nextEdge then id + 1 else acc.nextEdge)) := by
  unfold copyEdgeStep
  cases aget s.edges id with
  | none => exact ⟨rfl, Or.inl rfl⟩
  | some cr =>
    obtain ⟨c, r⟩ := cr
    simp only
    have := foldl_setEdgeProp_next (acc.createEdgeWithId id r.src r.dst r.ty) id ((aget s.eprops id).getD [])
    exact ⟨this.1, Or.inr this.2⟩

theorem foldl_copyNodeStep_bound (s : Store) (B : Nat) (l : List Nat) (acc : Store) (hl : ∀ id ∈ l, id < B)
    (ha : acc.nextNode ≤ B) :
    (l.foldl (copyNodeStep s) acc).nextNode ≤ B ∧ (l.foldl (copyNodeStep s) acc).nextEdge = acc.nextEdge := by
  induction l generalizing acc with
  | nil => exact ⟨ha, rfl⟩
  | cons id rest ih =>
    simp only [List.foldl_cons]
    have h1 := copyNodeStep_next s acc id
    have hid := hl id List.mem_cons_self
    have := ih (copyNodeStep s acc id) (fun x hx => hl x (List.mem_cons_of_mem _ hx))
      (by rw [h1.1]; split <;> omega)
    exact ⟨this.1, this.2.trans h1.2⟩

theorem foldl_copyEdgeStep_bound (s : Store) (B : Nat) (l : List Nat) (acc : Store) (hl : ∀ id ∈ l, id < B)
    (ha : acc.nextEdge ≤ B) :
    (l.foldl (copyEdgeStep s) acc).nextEdge ≤ B ∧ (l.foldl (copyEdgeStep s) acc).nextNode = acc.nextNode := by
  induction l generalizing acc with
  | nil => exact ⟨ha, rfl⟩
  | cons id rest ih =>
    simp only [List.foldl_cons]
    have h1 := copyEdgeStep_next s acc id
    have hid := hl id List.mem_cons_self
    have := ih (copyEdgeStep s acc id) (fun x hx => hl x (List.mem_cons_of_mem _ hx))
      (by rcases h1.2 with e | e <;> rw [e] <;> (try split) <;> omega)
    exact ⟨this.1, this.2.trans h1.1⟩

/-- F (C07, id counters): a copy's id counters never exceed the source's — ids handed out in the
copy later are fresh *in the copy*. They can be smaller (next theorem). -/
theorem c07_copy_id_counters_le (ops : List LOp) :
    (copyStore (runApi ops).live).nextNode ≤ (runApi ops).live.nextNode ∧
    (copyStore (runApi ops).live).nextEdge ≤ (runApi ops).live.nextEdge := by
  have hg := (reach_runApi ops).good
  generalize (runApi ops).live = s at hg
  rw [copyStore_eq]
  have hn : ∀ id ∈ sortNat s.nodeIds, id < s.nextNode := by
    intro id hid
    rw [sortNat_sorted _ (nodeIds_sorted hg.nk)] at hid
    unfold Store.nodeIds at hid
    obtain ⟨kv, hkv, e⟩ := List.mem_map.mp hid
    exact hg.nk.2 id (e ▸ List.mem_map.mpr ⟨kv, (List.mem_filter.mp hkv).1, rfl⟩)
  have he : ∀ id ∈ sortNat s.edgeIds, id < s.nextEdge := by
    intro id hid
    rw [edgeIds_eq_view] at hid
    have hk : (edgeView s).map (·.1) = akeys (edgeView s) := rfl
    rw [hk, sortNat_sorted _ (edgeView_keys_sorted hg.ed)] at hid
    obtain ⟨p, hp, e⟩ := List.mem_map.mp hid
    obtain ⟨c, hm⟩ := mem_edgeView hp
    exact hg.ed.2.1 id (e ▸ List.mem_map.mpr ⟨_, hm, rfl⟩)
  have h1 := foldl_copyNodeStep_bound s s.nextNode (sortNat s.nodeIds) {} hn (Nat.zero_le _)
  have h2 := foldl_copyEdgeStep_bound s s.nextEdge (sortNat s.edgeIds) _ he (by rw [h1.2]; exact Nat.zero_le _)
  exact ⟨by rw [h2.2]; exact h1.1, h2.1⟩

/-- W (C07, id counters): after the highest-numbered node was deleted, the copy's counter is
smaller than the source's: the next node gets id 1 in the copy and id 2 in the source (by
reading `create_node_with_id`: the counter becomes max live id + 1). A reopen, by contrast,
restores the counters exactly (`c05b_reopen_observables`). -/
theorem c07_copy_id_counter_smaller_witness :
    let s := (runApi [.createNode [], .createNode [], .deleteNode 1]).live
    s.nextNode = 2 ∧ (copyStore s).nextNode = 1 := by decide

/-! ## Part C — C05: reopen identity

### C.1 the constant-epoch model `Db.api`: persistence is invisible -/

/-- what a logged call does to an in-memory store (no log at all) -/
def liveStep (s : Store) (op : LOp) : Store := (recOf s op).toList.foldl applyRec s

theorem liveStep_nondata (s : Store) (op : LOp) (h : op.isData = false) : liveStep s op = s := by
  cases op <;> first | rfl | cases h

theorem api_live (d : Db) (op : LOp) (h : Reach d) : (d.api op).live = liveStep d.live op := by
  by_cases hd : op.isData = true
  · rw [api_data d op hd]; rfl
  · cases op with
    | checkpoint => rfl
    | closeReopen => exact reopen_live_of_inSync d h.sync h.op
    | _ => exact absurd rfl hd

theorem foldl_api_live (ops : List LOp) (d : Db) (h : Reach d) :
    (ops.foldl Db.api d).live = ops.foldl liveStep d.live := by
  induction ops generalizing d with
  | nil => rfl
  | cons op ops ih =>
    simp only [List.foldl_cons]
    rw [ih _ (reach_api d op h), api_live d op h]

theorem foldl_liveStep_filter (ops : List LOp) (s : Store) :
    ops.foldl liveStep s = (ops.filter LOp.isData).foldl liveStep s := by
  induction ops generalizing s with
  | nil => rfl
  | cons op ops ih =>
    simp only [List.foldl_cons, List.filter_cons]
    cases hd : op.isData with
    | true => simp only [if_true, List.foldl_cons]; exact ih _
    | false => simp only [Bool.false_eq_true, if_false, liveStep_nondata s op hd]; exact ih _

/-- F (C05, the logged fragment): **the persistent database is the in-memory database.** After
any history of logged calls, explicit checkpoints and close→reopen cycles — in any number, at
any positions — the store is the one the data calls alone produce on a store that has no log:
every checkpoint and every close→reopen can be deleted from (or inserted into) the history
without changing a single field of the store (nodes, edges, labels, properties, label index,
adjacency lists, property indexes, id counters). -/
theorem c05b_persistence_invisible (ops : List LOp) :
    (runApi ops).live = (ops.filter LOp.isData).foldl liveStep {} := by
  unfold runApi
  rw [foldl_api_live ops {} reach_init, foldl_liveStep_filter]

/-- F (C05): a close→reopen (or a checkpoint) inserted anywhere in a history changes nothing. -/
theorem c05b_reopen_anywhere (ops1 ops2 : List LOp) (op : LOp) (h : op.isData = false) :
    (runApi (ops1 ++ op :: ops2)).live = (runApi (ops1 ++ ops2)).live := by
  rw [c05b_persistence_invisible, c05b_persistence_invisible]
  simp [List.filter_append, List.filter_cons, h]

/-- F (C05): any number of consecutive close→reopen cycles after any history. -/
theorem c05b_reopen_cycles (ops : List LOp) (n : Nat) :
    (runApi (ops ++ List.replicate n .closeReopen)).live = (runApi ops).live := by
  rw [c05b_persistence_invisible, c05b_persistence_invisible]
  have : (List.replicate n LOp.closeReopen).filter LOp.isData = [] := by
    induction n with
    | zero => rfl
    | succ n ih => simp only [List.replicate_succ, List.filter_cons]; exact ih
  rw [List.filter_append, this, List.append_nil]

/-- F (C05): everything an observer can ask after close→reopen, spelled out: the dump (nodes,
labels, properties, edges, adjacency), the id counters — so identifiers handed out after a
reopen never collide with earlier ones —, the label index and the raw adjacency lists. -/
theorem c05b_reopen_observables (ops : List LOp) :
    let d := runApi ops
    let d' := d.close.reopen
    dumpStore d'.live = dumpStore d.live ∧
    d'.live.nextNode = d.live.nextNode ∧ d'.live.nextEdge = d.live.nextEdge ∧
    (∀ n, d'.live.outEdges n = d.live.outEdges n) ∧ (∀ n, d'.live.inEdges n = d.live.inEdges n) ∧
    (∀ l, d'.live.nodesByLabel l = d.live.nodesByLabel l) ∧
    (∀ id, id ∈ d.live.nodeIds → d.live.nextNode > id) ∧ (∀ id, id ∈ d.live.edgeIds → d.live.nextEdge > id) := by
  intro d d'
  have h : d'.live = d.live := c05_reopen_identity_logged_partial ops
  have hg := (reach_runApi ops).good
  refine ⟨by rw [h], by rw [h], by rw [h], fun n => by rw [h], fun n => by rw [h], fun l => by rw [h], ?_, ?_⟩
  · intro id hid
    unfold Store.nodeIds at hid
    obtain ⟨kv, hkv, e⟩ := List.mem_map.mp hid
    exact hg.nk.2 id (e ▸ List.mem_map.mpr ⟨kv, (List.mem_filter.mp hkv).1, rfl⟩)
  · intro id hid
    unfold Store.edgeIds at hid
    obtain ⟨kv, hkv, e⟩ := List.mem_map.mp hid
    exact hg.ed.2.1 id (e ▸ List.mem_map.mpr ⟨kv, (List.mem_filter.mp hkv).1, rfl⟩)

/-- W (the hypothesis "logged fragment"): a node inserted through a session query
(`INSERT (:L {k: v})`) reaches the store but not the log; it is gone after close→reopen, and
its id is handed out again. (Known finding `query-mutation-not-logged`, still open. The other
formerly unlogged call, `remove_node_property`, is logged since 0125264 and an ordinary member of
`LOp`; the old behaviour is the regression theorem `c05_remove_property_lost_witness` over `Old.api`.) -/
theorem c05b_query_insert_lost_witness :
    let d := runApi [.createNode [1]]
    let s1 := (d.live.createNode [2] d.live.epoch systemTx).1           -- the unlogged insert
    let d' : Db := { d with live := s1.setNodeProp 1 0 "I1" }
    d'.live.nodeIds = [0, 1] ∧ (d'.close.reopen).live.nodeIds = [0] ∧ (d'.close.reopen).live.nextNode = 1 := by
  decide

/-! ### C.2 file level: log files, rotation, checkpoint metadata, fresh epochs

The code as it is now (`database.rs`, `wal/log.rs`, `wal/recovery.rs`):
* `create_node` / `create_edge` first take a fresh epoch (`begin_auto_commit_write`: the
  manager's counter + 1, the store follows), then create at the store's epoch; the other calls
  work at the store's epoch as it is;
* records go to the active file `wal_<cur>.log`; `rotate()` (by itself at `max_log_size`, or
  called) opens file `cur + 1`; a size-triggered rotation can fall between the two records that
  `wal_checkpoint()` / `close()` write;
* `checkpoint` writes `checkpoint.meta = (store epoch, cur)`, then applies the truncation
  policy `keep` (repaired code, commit cb2ac62: keep everything; before: `Old.trunc`);
* `open` replays **all** files in sequence order (`recover_from_checkpoint(None)`, the metadata
  is not consulted) into a fresh store at epoch 0, and appends to the highest-numbered file. -/

structure FDb where
  live : Store := {}
  files : List (Nat × List WRec) := [(0, [])]
  cur : Nat := 0
  ckpt : Option (Nat × Nat) := none        -- checkpoint.meta: (epoch, log_sequence)

inductive FOp where
  | call (op : LOp) (rotMid : Bool)         -- `rotMid`: a rotation between commit and checkpoint marker
  | rotate

def appendTo (files : List (Nat × List WRec)) (seq : Nat) (rs : List WRec) : List (Nat × List WRec) :=
  files.map (fun f => if f.1 = seq then (f.1, f.2 ++ rs) else f)

def FDb.append (e : FDb) (rs : List WRec) : FDb := { e with files := appendTo e.files e.cur rs }

def FDb.rotate (e : FDb) : FDb := { e with cur := e.cur + 1, files := e.files ++ [(e.cur + 1, [])] }

/-- what recovery reads: the records of all files, in sequence order -/
def FDb.allRecs (e : FDb) : List WRec := e.files.flatMap (·.2)

/-- the calls that take a fresh epoch first -/
def LOp.bumps : LOp → Bool
  | .createNode _ => true
  | .createEdge _ _ _ => true
  | _ => false

def FDb.dataStep (e : FDb) (op : LOp) : FDb :=
  let s0 := if op.bumps then e.live.bump else e.live
  let d := ({ live := s0, log := [] } : Db).api op      -- the call itself, its records collected
  ({ e with live := d.live } : FDb).append d.log

def FDb.sync (keep : FDb → FDb) (e : FDb) (rotMid : Bool) : FDb :=
  let e1 := e.append [.txCommit]
  let e2 := if rotMid then e1.rotate else e1
  let e3 := e2.append [.checkpoint]
  keep { e3 with ckpt := some (e3.live.epoch, e3.cur) }

def FDb.reopen (e : FDb) : FDb :=
  { e with live := (replay WRec.kind e.allRecs).foldl applyRec {},
           cur := e.files.foldl (fun m f => max m f.1) 0 }

def FDb.step (keep : FDb → FDb) (e : FDb) : FOp → FDb
  | .rotate => e.rotate
  | .call op rm =>
    match op with
    | .checkpoint => e.sync keep rm
    | .closeReopen => (e.sync keep rm).reopen
    | op => e.dataStep op

def runF (keep : FDb → FDb) (ops : List FOp) : FDb := ops.foldl (FDb.step keep) {}

/-- the same history with the file-level detail forgotten -/
def eraseF : List FOp → List LOp
  | [] => []
  | .call op _ :: rest => op :: eraseF rest
  | .rotate :: rest => eraseF rest

/-- the files are numbered up to `cur`, the active one last -/
def WF (e : FDb) : Prop := ∃ init recs, e.files = init ++ [(e.cur, recs)] ∧ ∀ f ∈ init, f.1 < e.cur

theorem appendTo_wf (init : List (Nat × List WRec)) (cur : Nat) (recs rs : List WRec) (h : ∀ f ∈ init, f.1 < cur) :
    appendTo (init ++ [(cur, recs)]) cur rs = init ++ [(cur, recs ++ rs)] := by
  unfold appendTo
  rw [List.map_append]
  congr 1
  · rw [List.map_congr_left (g := id)]
    · simp
    · intro f hf
      have : f.1 ≠ cur := by have := h f hf; omega
      simp [this]
  · simp

theorem wf_append {e : FDb} (h : WF e) (rs : List WRec) :
    WF (e.append rs) ∧ (e.append rs).allRecs = e.allRecs ++ rs := by
  obtain ⟨init, recs, hf, hlt⟩ := h
  have : (e.append rs).files = init ++ [(e.cur, recs ++ rs)] := by
    show appendTo e.files e.cur rs = _
    rw [hf, appendTo_wf init e.cur recs rs hlt]
  refine ⟨⟨init, recs ++ rs, this, hlt⟩, ?_⟩
  unfold FDb.allRecs
  rw [this, hf]
  simp [List.flatMap_append]

theorem wf_rotate {e : FDb} (h : WF e) : WF e.rotate ∧ e.rotate.allRecs = e.allRecs := by
  obtain ⟨init, recs, hf, hlt⟩ := h
  refine ⟨⟨e.files, [], rfl, ?_⟩, ?_⟩
  · intro f hf'
    show f.1 < e.cur + 1
    rw [hf] at hf'
    rcases List.mem_append.mp hf' with h1 | h1
    · have := hlt f h1; omega
    · simp only [List.mem_singleton] at h1; subst h1; simp
  · unfold FDb.allRecs FDb.rotate
    simp [List.flatMap_append]

theorem foldl_max_le (l : List (Nat × List WRec)) (m B : Nat) (hm : m ≤ B) (h : ∀ f ∈ l, f.1 ≤ B) :
    l.foldl (fun m f => max m f.1) m ≤ B := by
  induction l generalizing m with
  | nil => exact hm
  | cons f fs ih =>
    simp only [List.foldl_cons]
    exact ih _ (by have := h f List.mem_cons_self; omega) (fun x hx => h x (List.mem_cons_of_mem _ hx))

theorem le_foldl_max (l : List (Nat × List WRec)) (m : Nat) : m ≤ l.foldl (fun m f => max m f.1) m := by
  induction l generalizing m with
  | nil => exact Nat.le_refl _
  | cons f fs ih =>
    simp only [List.foldl_cons]
    exact Nat.le_trans (Nat.le_max_left _ _) (ih _)

theorem wf_maxSeq {e : FDb} (h : WF e) : e.files.foldl (fun m f => max m f.1) 0 = e.cur := by
  obtain ⟨init, recs, hf, hlt⟩ := h
  apply Nat.le_antisymm
  · apply foldl_max_le _ _ _ (Nat.zero_le _)
    intro f hf'
    rw [hf] at hf'
    rcases List.mem_append.mp hf' with h1 | h1
    · have := hlt f h1; omega
    · simp only [List.mem_singleton] at h1; subst h1; simp
  · rw [hf, List.foldl_append]
    simp only [List.foldl_cons, List.foldl_nil]
    exact Nat.le_max_right _ _

/-- the simulation: the file-level database `e` against the single-log, constant-epoch `d` -/
structure FSim (e : FDb) (d : Db) : Prop where
  wf : WF e
  recs : e.allRecs = d.log
  live : e.live.norm = d.live
  settled : Settled e.live
  reach : Reach d

theorem fsim_init : FSim {} {} :=
  ⟨⟨[], [], rfl, fun _ hf => (List.not_mem_nil hf).elim⟩, rfl, rfl, settled_empty, reach_init⟩

theorem fsim_rotate {e : FDb} {d : Db} (h : FSim e d) : FSim e.rotate d :=
  ⟨(wf_rotate h.wf).1, (wf_rotate h.wf).2.trans h.recs, h.live, h.settled, h.reach⟩

theorem fsim_data {e : FDb} {d : Db} (h : FSim e d) (he : e.live.epoch < pendingEpoch) (op : LOp)
    (hd : op.isData = true) : FSim (e.dataStep op) (d.api op) := by
  unfold FDb.dataStep
  simp only
  generalize hs0 : (if op.bumps = true then e.live.bump else e.live) = s0
  have hep : s0.epoch ≤ pendingEpoch := by
    rw [← hs0]; split
    · rw [bump_epoch]; omega
    · omega
  have hset : Settled s0 := by
    rw [← hs0]; split
    · exact settled_bump h.settled
    · exact h.settled
  have hnorm : s0.norm = d.live := by
    rw [← hs0, ← h.live]; split
    · exact norm_bump _
    · rfl
  rw [api_data _ op hd, api_data d op hd]
  simp only [List.nil_append]
  have hrec : recOf d.live op = recOf s0 op := by rw [← hnorm]; exact recOf_norm hset op
  rw [hrec]
  have hw := wf_append (e := ({ e with live := (recOf s0 op).toList.foldl applyRec s0 } : FDb)) h.wf (recOf s0 op).toList
  refine ⟨hw.1, ?_, ?_, settled_foldl_applyRec hset _, ?_⟩
  · rw [hw.2]; show e.allRecs ++ _ = _; rw [h.recs]
  · show ((recOf s0 op).toList.foldl applyRec s0).norm = _
    rw [norm_foldl_applyRec hset hep, hnorm]
  · have := reach_api d op h.reach
    rw [api_data d op hd, hrec] at this
    exact this

theorem fsim_sync {e : FDb} {d : Db} (h : FSim e d) (rm : Bool) : FSim (e.sync id rm) (d.api .checkpoint) := by
  unfold FDb.sync
  simp only [id]
  have w1 := wf_append h.wf [WRec.txCommit]
  have hsplit : d.log ++ [WRec.txCommit, WRec.checkpoint] = d.log ++ [.txCommit] ++ [.checkpoint] := by simp
  cases rm with
  | false =>
    simp only [Bool.false_eq_true, if_false]
    have w3 := wf_append w1.1 [WRec.checkpoint]
    refine ⟨w3.1, ?_, h.live, h.settled, reach_api d _ h.reach⟩
    show (FDb.append (FDb.append e [WRec.txCommit]) [WRec.checkpoint]).allRecs = d.log ++ [.txCommit, .checkpoint]
    rw [w3.2, w1.2, h.recs, hsplit]
  | true =>
    simp only [if_true]
    have w2 := wf_rotate w1.1
    have w3 := wf_append w2.1 [WRec.checkpoint]
    refine ⟨w3.1, ?_, h.live, h.settled, reach_api d _ h.reach⟩
    show (FDb.append (FDb.rotate (FDb.append e [WRec.txCommit])) [WRec.checkpoint]).allRecs = d.log ++ [.txCommit, .checkpoint]
    rw [w3.2, w2.2, w1.2, h.recs, hsplit]

theorem fsim_reopen {e : FDb} {d : Db} (h : FSim e d) (rm : Bool) :
    FSim (e.sync id rm).reopen (d.api .closeReopen) ∧ (e.sync id rm).reopen.live = (d.api .closeReopen).live := by
  have hs := fsim_sync h rm
  have hr := reach_api d .closeReopen h.reach
  have hlog : (d.api .checkpoint).log = d.close.log := by
    simp [Db.api, Db.walCheckpoint, Db.close, h.reach.op]
  have hlive : (e.sync id rm).reopen.live = (d.api .closeReopen).live := by
    show (replay WRec.kind (e.sync id rm).allRecs).foldl applyRec {} = (d.close.reopen).live
    rw [hs.recs, hlog]; rfl
  refine ⟨⟨?_, ?_, ?_, ?_, hr⟩, hlive⟩
  · obtain ⟨init, recs, hf, hlt⟩ := hs.wf
    refine ⟨init, recs, ?_, ?_⟩
    · show (e.sync id rm).files = init ++ [((e.sync id rm).files.foldl (fun m f => max m f.1) 0, recs)]
      rw [wf_maxSeq hs.wf]; exact hf
    · intro f hf'
      show f.1 < (e.sync id rm).files.foldl (fun m f => max m f.1) 0
      rw [wf_maxSeq hs.wf]; exact hlt f hf'
  · show (e.sync id rm).allRecs = (d.close.reopen).log
    rw [hs.recs, hlog]; rfl
  · rw [hlive]; exact hr.normal
  · rw [hlive]; exact hr.settled

/-- one step of the file-level database against the corresponding steps of `Db.api` -/
def stepL (d : Db) : FOp → Db
  | .rotate => d
  | .call op _ => d.api op

theorem dataStep_epoch_le (e : FDb) (op : LOp) (hd : op.isData = true) :
    (e.dataStep op).live.epoch ≤ e.live.epoch + 1 := by
  unfold FDb.dataStep
  simp only
  rw [api_data _ op hd]
  show ((recOf _ op).toList.foldl applyRec _).epoch ≤ _
  rw [foldl_applyRec_epoch]
  split
  · rw [bump_epoch]; exact Nat.le_refl _
  · exact Nat.le_succ _

/-- the store's epoch moves by at most one per step (and restarts at 0 with a reopen) -/
theorem step_epoch_le {e : FDb} {d : Db} (h : FSim e d) (fop : FOp) :
    (e.step id fop).live.epoch ≤ e.live.epoch + 1 := by
  cases fop with
  | rotate => exact Nat.le_succ _
  | call op rm =>
    cases op with
    | checkpoint =>
      have : (e.sync id rm).live = e.live := by cases rm <;> rfl
      show (e.sync id rm).live.epoch ≤ _
      rw [this]; exact Nat.le_succ _
    | closeReopen =>
      show (e.sync id rm).reopen.live.epoch ≤ _
      rw [(fsim_reopen h rm).2, ← (reach_api d .closeReopen h.reach).normal]
      exact Nat.zero_le _
    | createNode ls => exact dataStep_epoch_le e _ rfl
    | deleteNode i => exact dataStep_epoch_le e _ rfl
    | createEdge a b t => exact dataStep_epoch_le e _ rfl
    | deleteEdge i => exact dataStep_epoch_le e _ rfl
    | setNodeProp i k v => exact dataStep_epoch_le e _ rfl
    | setEdgeProp i k v => exact dataStep_epoch_le e _ rfl
    | addLabel i l => exact dataStep_epoch_le e _ rfl
    | removeLabel i l => exact dataStep_epoch_le e _ rfl
    | removeNodeProp i k => exact dataStep_epoch_le e _ rfl

theorem fsim_step {e : FDb} {d : Db} (h : FSim e d) (he : e.live.epoch < pendingEpoch) (fop : FOp) :
    FSim (e.step id fop) (stepL d fop) := by
  cases fop with
  | rotate => exact fsim_rotate h
  | call op rm =>
    cases op with
    | checkpoint => exact fsim_sync h rm
    | closeReopen => exact (fsim_reopen h rm).1
    | createNode ls => exact fsim_data h he _ rfl
    | deleteNode i => exact fsim_data h he _ rfl
    | createEdge a b t => exact fsim_data h he _ rfl
    | deleteEdge i => exact fsim_data h he _ rfl
    | setNodeProp i k v => exact fsim_data h he _ rfl
    | setEdgeProp i k v => exact fsim_data h he _ rfl
    | addLabel i l => exact fsim_data h he _ rfl
    | removeLabel i l => exact fsim_data h he _ rfl
    | removeNodeProp i k => exact fsim_data h he _ rfl

theorem foldl_stepL (ops : List FOp) (d : Db) : ops.foldl stepL d = (eraseF ops).foldl Db.api d := by
  induction ops generalizing d with
  | nil => rfl
  | cons fop ops ih =>
    cases fop with
    | rotate => simp only [List.foldl_cons, eraseF, stepL]; exact ih d
    | call op rm => simp only [List.foldl_cons, eraseF, stepL]; exact ih _

theorem fsim_foldl (ops : List FOp) (e : FDb) (d : Db) (h : FSim e d)
    (hb : e.live.epoch + ops.length ≤ pendingEpoch) :
    FSim (ops.foldl (FDb.step id) e) (ops.foldl stepL d) := by
  induction ops generalizing e d with
  | nil => exact h
  | cons fop ops ih =>
    simp only [List.length_cons] at hb
    exact ih _ _ (fsim_step h (by omega) fop) (by have := step_epoch_le h fop; omega)

/-- F (C05, **the simulation**): for every history of logged calls, checkpoints, close→reopen
cycles and log rotations (explicit, or falling between the two records of a checkpoint), with
every create taking a fresh epoch: the records in the log files, read in sequence order, are
the single log of `Db.api` run on the same history without the rotations; the store, with its
epoch stamps forgotten, is that model's store; and no stamp is in the store's future.
Hypothesis `hb`: fewer than 2^64 − 1 steps, so that the epoch counter (one step per create)
stays below `EpochId::PENDING` = 2^64 − 1. Since `set_*_property` tests aliveness *at*
`PENDING`, the statement is false in the model without it (and the code's 64-bit counter
cannot get there). -/
theorem c05b_files_simulation (ops : List FOp) (hb : ops.length ≤ pendingEpoch) :
    FSim (runF id ops) (runApi (eraseF ops)) := by
  have := fsim_foldl ops {} {} fsim_init (by simpa using hb)
  rw [foldl_stepL] at this
  exact this

theorem fsim_obsEq {e : FDb} {d : Db} (h : FSim e d) : ObsEq d.live e.live := by
  have hb : e.live.hasBwd = true := by
    have := h.reach.good.ed.2.2.1
    rw [← h.live] at this; exact this
  have := norm_obsEq h.settled hb
  rw [h.live] at this
  exact this

/-- F (C05/C07 tie to the `pers` stream): on every history the file-level, fresh-epoch database
prints the dump that `Db.api` — the function `Driver/Pers.lean` runs — prints; the id counters
and the raw adjacency lists agree as well. The constant-epoch `Db.api` is an exact abstraction. -/
theorem c05b_files_dump_eq_model (ops : List FOp) (hb : ops.length ≤ pendingEpoch) :
    dumpStore (runF id ops).live = dumpStore (runApi (eraseF ops)).live ∧
    (runF id ops).live.nextNode = (runApi (eraseF ops)).live.nextNode ∧
    (runF id ops).live.nextEdge = (runApi (eraseF ops)).live.nextEdge ∧
    (∀ n, (runF id ops).live.outEdges n = (runApi (eraseF ops)).live.outEdges n) := by
  have h := c05b_files_simulation ops hb
  have ho := fsim_obsEq h
  refine ⟨(dumpStore_congr ho).symm, ?_, ?_, fun n => (ho.out n).symm⟩
  · rw [← h.live]; rfl
  · rw [← h.live]; rfl

theorem runF_snoc (keep : FDb → FDb) (ops : List FOp) (fop : FOp) :
    runF keep (ops ++ [fop]) = (runF keep ops).step keep fop := by
  simp [runF, List.foldl_append]

/-- F (C05, **reopen identity at file level**): after any history — calls, checkpoints,
close→reopen cycles, any number of log rotations at any positions — close and reopen give a
database with the same dump (nodes, labels, properties, edges, adjacency), the same id
counters, the same adjacency lists. `rm` says whether the log rotates between the commit
marker and the checkpoint marker that `close()` writes. -/
theorem c05b_files_reopen_identity (ops : List FOp) (hb : ops.length ≤ pendingEpoch) (rm : Bool) :
    let e := runF id ops
    let e' := runF id (ops ++ [.call .closeReopen rm])
    dumpStore e'.live = dumpStore e.live ∧
    e'.live.nextNode = e.live.nextNode ∧ e'.live.nextEdge = e.live.nextEdge ∧
    (∀ n, e'.live.outEdges n = e.live.outEdges n) ∧ (∀ n, e'.live.inEdges n = e.live.inEdges n) := by
  intro e e'
  have h := c05b_files_simulation ops hb
  have hre := fsim_reopen h rm
  have he' : e' = (e.sync id rm).reopen := by
    show runF id (ops ++ [.call .closeReopen rm]) = _
    rw [runF_snoc]; rfl
  have hl : e'.live = (runApi (eraseF ops)).live := by
    rw [he', hre.2]
    exact reopen_live_of_inSync _ h.reach.sync h.reach.op
  have ho := fsim_obsEq h
  rw [hl]
  refine ⟨dumpStore_congr ho, ?_, ?_, fun n => ho.out n, fun n => ho.inn n⟩
  · rw [← h.live]; rfl
  · rw [← h.live]; rfl

/-- F: `GrafeoDB::open` does not consult `checkpoint.meta` — whatever it holds, the same state
is recovered (`recover_from_checkpoint(None)`). -/
theorem c05b_open_ignores_checkpoint_meta (e : FDb) (m : Option (Nat × Nat)) :
    ({ e with ckpt := m } : FDb).reopen.live = e.reopen.live := rfl

/-- `WalRecovery::recover()`: honours the metadata and skips the files before the checkpoint's
sequence number. **Not** what `GrafeoDB::open` calls (repaired earlier); kept as a regression. -/
def FDb.recoverWithMeta (e : FDb) : Store :=
  let minSeq := match e.ckpt with | some (_, sq) => sq | none => 0
  (replay WRec.kind ((e.files.filter (fun f => f.1 ≥ minSeq)).flatMap (·.2))).foldl applyRec {}

/-- W (regression): were `open` to honour `checkpoint.meta`, a rotation followed by a
checkpoint would lose every record of the earlier files — a checkpoint is a marker in the log,
not a snapshot of the data. -/
theorem c05b_meta_skipping_loses_files_witness :
    let e := runF id [.call (.createNode [1]) false, .rotate, .call .checkpoint false]
    e.ckpt = some (1, 1) ∧ e.reopen.live.nodeIds = [0] ∧ e.recoverWithMeta.nodeIds = [] := by decide

/-! ### `namespace Old`: the truncation rule before commit cb2ac62 -/

namespace Old

/-- `truncate_old_logs` as it was: delete `wal_<seq>.log` when `seq + 2 < cur` and the
checkpoint **epoch** exceeds the file's **sequence number** (two unrelated quantities; since
every create takes a fresh epoch the second test is almost always true). -/
def trunc (e : FDb) : FDb :=
  match e.ckpt with
  | some (epoch, _) => { e with files := e.files.filter (fun f => !(decide (f.1 + 2 < e.cur) && decide (epoch > f.1))) }
  | none => e

theorem trunc_small (e : FDb) (h : e.cur ≤ 2) : trunc e = e := by
  obtain ⟨live, files, cur, ckpt⟩ := e
  simp only at h
  unfold trunc
  cases ckpt with
  | none => rfl
  | some m =>
    simp only
    have : files.filter (fun f => !(decide (f.1 + 2 < cur) && decide (m.1 > f.1))) = files := by
      apply List.filter_eq_self.mpr
      intro f _
      have : ¬ f.1 + 2 < cur := by omega
      simp [this]
    rw [this]

/-- W (regression, **genuine defect found and repaired as cb2ac62**; replayed on the real
code as `corpus/C05/rotate3.ops`): two nodes, a property, a rotation, a third node, two more
rotations, close, reopen. Before the close all three nodes are there; the close's checkpoint
deletes `wal_0.log` (0 + 2 < 3 and epoch 3 > 0) and the reopened database has only node 2 — and
hands out id 3 next although ids 0 and 1 are gone. -/
theorem c05b_old_truncation_loses_data_witness :
    let hist : List FOp := [.call (.createNode [1]) false, .call (.createNode [2]) false,
      .call (.setNodeProp 0 1 "I5") false, .rotate, .call (.createNode [0]) false, .rotate, .rotate]
    (runF trunc hist).live.nodeIds = [0, 1, 2] ∧
    (runF trunc (hist ++ [.call .closeReopen false])).live.nodeIds = [2] ∧
    (runF trunc (hist ++ [.call .closeReopen false])).files.map (·.1) = [1, 2, 3] ∧
    (runF id (hist ++ [.call .closeReopen false])).live.nodeIds = [0, 1, 2] := by decide

end Old

/-- rotations in a history -/
def FOp.rot : FOp → Nat
  | .rotate => 1
  | .call .checkpoint true => 1
  | .call .closeReopen true => 1
  | _ => 0

def rotCount : List FOp → Nat
  | [] => 0
  | f :: rest => f.rot + rotCount rest

theorem sync_id_cur (e : FDb) (rm : Bool) : (e.sync id rm).cur = e.cur + (if rm then 1 else 0) := by
  cases rm <;> rfl

theorem step_cur_le {e : FDb} {d : Db} (h : FSim e d) (fop : FOp) : (e.step id fop).cur ≤ e.cur + fop.rot := by
  cases fop with
  | rotate => exact Nat.le_refl _
  | call op rm =>
    cases op with
    | checkpoint =>
      show (e.sync id rm).cur ≤ _
      rw [sync_id_cur]; cases rm <;> simp [FOp.rot]
    | closeReopen =>
      show (e.sync id rm).files.foldl (fun m f => max m f.1) 0 ≤ _
      rw [wf_maxSeq (fsim_sync h rm).wf, sync_id_cur]; cases rm <;> simp [FOp.rot]
    | _ => exact Nat.le_add_right _ _

theorem Old.step_eq (e : FDb) (fop : FOp) (hc : e.cur + fop.rot ≤ 2) : e.step Old.trunc fop = e.step id fop := by
  have hsync : ∀ rm : Bool, e.cur + (if rm then 1 else 0) ≤ 2 → e.sync Old.trunc rm = e.sync id rm := by
    intro rm hle
    have : e.sync Old.trunc rm = Old.trunc (e.sync id rm) := rfl
    rw [this, Old.trunc_small _ (by rw [sync_id_cur]; exact hle)]
  cases fop with
  | rotate => rfl
  | call op rm =>
    cases op with
    | checkpoint =>
      show e.sync Old.trunc rm = e.sync id rm
      apply hsync; cases rm <;> simpa [FOp.rot] using hc
    | closeReopen =>
      show (e.sync Old.trunc rm).reopen = (e.sync id rm).reopen
      rw [hsync]; cases rm <;> simpa [FOp.rot] using hc
    | _ => rfl

theorem Old.foldl_eq (ops : List FOp) (e : FDb) (d : Db) (h : FSim e d) (hc : e.cur + rotCount ops ≤ 2)
    (hb : e.live.epoch + ops.length ≤ pendingEpoch) :
    ops.foldl (FDb.step Old.trunc) e = ops.foldl (FDb.step id) e := by
  induction ops generalizing e d with
  | nil => rfl
  | cons fop ops ih =>
    simp only [List.foldl_cons, rotCount] at hc ⊢
    simp only [List.length_cons] at hb
    rw [Old.step_eq e fop (by omega)]
    exact ih _ _ (fsim_step h (by omega) fop) (by have := step_cur_le h fop; omega)
      (by have := step_epoch_le h fop; omega)

/-- P (C05, the code before cb2ac62): with at most two log rotations in the whole history the
old truncation rule never fires, and everything proved for the repaired rule held already. -/
theorem c05b_old_rule_harmless_up_to_two_rotations (ops : List FOp) (h : rotCount ops ≤ 2)
    (hb : ops.length ≤ pendingEpoch) : runF Old.trunc ops = runF id ops :=
  Old.foldl_eq ops {} {} fsim_init (by simpa using h) (by simpa using hb)

/-! ## Part D — crash between operations (C05 ∘ C06, record level)

A crash keeps a prefix of the record stream of the log (C06: every byte cut of the file is a
record cut). Reopening then replays the committed records of that prefix. -/

/-- what `open` recovers from a record list (no `close` first) -/
def recovered (log : List WRec) : Store := (replay WRec.kind log).foldl applyRec {}

def durStep (p : Store × Db) (op : LOp) : Store × Db :=
  let d' := p.2.api op
  (if op.isData then p.1 else d'.live, d')

/-- **the last committed state** of a history: the store as it was at the last explicit
checkpoint or close (the only calls that write a commit marker); the empty store before the
first one. -/
def durable (ops : List LOp) : Store := (ops.foldl durStep ({}, {})).1

theorem foldl_durStep_snd (ops : List LOp) (p : Store × Db) : (ops.foldl durStep p).2 = ops.foldl Db.api p.2 := by
  induction ops generalizing p with
  | nil => rfl
  | cons op ops ih => simp only [List.foldl_cons]; rw [ih]; rfl

theorem durable_snoc (ops : List LOp) (op : LOp) :
    durable (ops ++ [op]) = if op.isData then durable ops else ((runApi ops).api op).live := by
  unfold durable
  rw [List.foldl_append]
  simp only [List.foldl_cons, List.foldl_nil, durStep]
  rw [foldl_durStep_snd]
  rfl

theorem durable_nil : durable [] = {} := rfl

/-- the log only grows: what a call appends -/
def newRecs (s : Store) (op : LOp) : List WRec :=
  if op.isData then (recOf s op).toList else [.txCommit, .checkpoint]

theorem api_log (d : Db) (op : LOp) (ho : d.isOpen = true) : (d.api op).log = d.log ++ newRecs d.live op := by
  by_cases hd : op.isData = true
  · rw [api_data d op hd]; simp [newRecs, hd]
  · cases op with
    | checkpoint => rfl
    | closeReopen => simp [Db.api, Db.close, Db.reopen, ho, newRecs, LOp.isData]
    | _ => exact absurd rfl hd

theorem recovered_eq (log : List WRec) : recovered log = (rstate log).2.foldl applyRec {} := rfl

theorem recovered_append_data (log : List WRec) (r : WRec) (h : r.kind = .data) :
    recovered (log ++ [r]) = recovered log := by
  rw [recovered_eq, recovered_eq, rstate_append]
  simp [replayStep, h]

theorem recovered_append_commit (d : Db) (h : InSync d) : recovered (d.log ++ [.txCommit]) = d.live := by
  rw [recovered_eq, rstate_append]
  simp only [replayStep, WRec.kind]
  rw [foldl_applyRec_append_marker _ _ _ (by simp [WRec.kind])]
  exact h

theorem recovered_append_commit_ckpt (d : Db) (h : InSync d) :
    recovered (d.log ++ [.txCommit, .checkpoint]) = d.live := by
  have e : d.log ++ [WRec.txCommit, WRec.checkpoint] = (d.log ++ [.txCommit]) ++ [.checkpoint] := by simp
  rw [e, recovered_eq, rstate_append]
  simp only [replayStep, WRec.kind]
  rw [foldl_applyRec_append_marker _ _ _ (by simp [WRec.kind])]
  exact recovered_append_commit d h

theorem snoc_induction {α : Type} {P : List α → Prop} (h0 : P []) (hs : ∀ l a, P l → P (l ++ [a])) : ∀ l, P l := by
  intro l
  have : ∀ n, ∀ l : List α, l.length = n → P l := by
    intro n
    induction n with
    | zero => intro l hl; have := List.eq_nil_of_length_eq_zero hl; subst this; exact h0
    | succ n ih =>
      intro l hl
      have hne : l ≠ [] := by intro e; subst e; cases hl
      rw [← List.dropLast_concat_getLast hne]
      apply hs
      apply ih
      simp [hl]
  exact this _ l rfl

/-- F (crash right after the last call, nothing lost from the file): reopening the log as it
is — no `close` — gives the last committed state. Uncommitted calls (everything since the last
checkpoint / close) are dropped as a whole; nothing older is lost. -/
theorem c05b_crash_whole_log (ops : List LOp) : recovered (runApi ops).log = durable ops := by
  induction ops using snoc_induction with
  | h0 => rfl
  | hs ops op ih =>
    have hr := reach_runApi ops
    rw [runApi_snoc, api_log _ _ hr.op, durable_snoc]
    by_cases hd : op.isData = true
    · simp only [newRecs, hd, if_true]
      cases hrec : recOf (runApi ops).live op with
      | none => simpa using ih
      | some r =>
        simp only [Option.toList_some]
        rw [recovered_append_data _ _ (recOf_kind _ _ _ hrec)]; exact ih
    · simp only [newRecs, hd, Bool.false_eq_true, if_false]
      rw [recovered_append_commit_ckpt _ hr.sync, api_live _ _ hr, liveStep_nondata _ _ (by simpa using hd)]

/-- F (**crash anywhere**): the crash keeps the first `k` records of the log, for any `k`. The
reopened database is in the last committed state of an operation prefix `ops.take j` — and `j`
is the right one: that prefix had written at least the `k` surviving records (so every
checkpoint / close whose commit marker survived is included: nothing committed is lost) and at
most one record more (the checkpoint marker that follows the commit marker, or one uncommitted
record: nothing that was not committed is included). -/
theorem c05b_crash_any_record_prefix (ops : List LOp) (k : Nat) (hk : k ≤ (runApi ops).log.length) :
    ∃ j, j ≤ ops.length ∧ recovered ((runApi ops).log.take k) = durable (ops.take j) ∧
      k ≤ (runApi (ops.take j)).log.length ∧ (runApi (ops.take j)).log.length ≤ k + 1 := by
  induction ops using snoc_induction generalizing k with
  | h0 =>
    have : k = 0 := by simpa [runApi] using hk
    subst this
    exact ⟨0, Nat.le_refl _, rfl, Nat.le_refl _, Nat.zero_le _⟩
  | hs ops op ih =>
    have hr := reach_runApi ops
    have hlog : (runApi (ops ++ [op])).log = (runApi ops).log ++ newRecs (runApi ops).live op := by
      rw [runApi_snoc, api_log _ _ hr.op]
    by_cases hle : k ≤ (runApi ops).log.length
    · -- the crash cut inside the older part of the log
      obtain ⟨j, hj, h1, h2, h3⟩ := ih k hle
      refine ⟨j, by simp; omega, ?_, ?_, ?_⟩
      · rw [hlog, List.take_append_of_le_length hle, List.take_append_of_le_length hj]; exact h1
      · rw [List.take_append_of_le_length hj]; exact h2
      · rw [List.take_append_of_le_length hj]; exact h3
    · -- the cut falls inside what the last call appended
      have hfull : (ops ++ [op]).take (ops ++ [op]).length = ops ++ [op] := List.take_length
      by_cases hall : k = (runApi (ops ++ [op])).log.length
      · refine ⟨(ops ++ [op]).length, Nat.le_refl _, ?_, ?_, ?_⟩
        · rw [hfull, hall, List.take_length]; exact c05b_crash_whole_log _
        · rw [hfull]; omega
        · rw [hfull]; omega
      · -- strictly inside: only a checkpoint / close appends two records
        have hlen : (runApi (ops ++ [op])).log.length = (runApi ops).log.length + (newRecs (runApi ops).live op).length := by
          rw [hlog, List.length_append]
        by_cases hd : op.isData = true
        · exfalso
          have : (newRecs (runApi ops).live op).length ≤ 1 := by
            simp only [newRecs, hd, if_true]
            cases recOf (runApi ops).live op <;> simp
          omega
        · have hnr : newRecs (runApi ops).live op = [.txCommit, .checkpoint] := by simp [newRecs, hd]
          rw [hnr] at hlen hlog
          simp only [List.length_cons, List.length_nil] at hlen
          have hk1 : k = (runApi ops).log.length + 1 := by omega
          refine ⟨(ops ++ [op]).length, Nat.le_refl _, ?_, ?_, ?_⟩
          · rw [hfull, hlog, hk1]
            have : ((runApi ops).log ++ [WRec.txCommit, WRec.checkpoint]).take ((runApi ops).log.length + 1) =
                (runApi ops).log ++ [.txCommit] := by
              rw [List.take_append, List.take_of_length_le (Nat.le_succ _)]; simp
            rw [this, recovered_append_commit _ hr.sync, durable_snoc]
            simp only [hd, Bool.false_eq_true, if_false]
            rw [api_live _ _ hr, liveStep_nondata _ _ (by simpa using hd)]
          · rw [hfull]; omega
          · rw [hfull]; omega

/-- F (tie to C06's commit rule): the committed records recovered after a crash are a prefix
of the committed records of the uncrashed log — a crash never re-orders or invents work. -/
theorem c05b_crash_committed_prefix (ops : List LOp) (k : Nat) :
    replay WRec.kind ((runApi ops).log.take k) <+: replay WRec.kind (runApi ops).log :=
  c06_replay_prefix WRec.kind _ k

/-- F (**crash at any byte**, C06 composed with C05): the log file is cut at any byte length
`k` (a torn frame included). For any record encoding the reader accepts and can invert, the
reopened database is in the last committed state of some operation prefix. -/
theorem c05b_crash_any_byte_cut (crc : List Nat → Nat) (dec : List Nat → Bool) (enc : WRec → List Nat)
    (decR : List Nat → WRec) (hdec : ∀ r, decR (enc r) = r) (hg : ∀ r, Wal.Good crc dec (enc r))
    (ops : List LOp) (k : Nat) :
    ∃ j, j ≤ ops.length ∧
      recovered ((parseFile crc dec ((encodeAll crc ((runApi ops).log.map enc)).take k).length
        ((encodeAll crc ((runApi ops).log.map enc)).take k)).map decR) = durable (ops.take j) := by
  rw [c06_truncation_gives_record_prefix crc dec _ (by
    intro p hp
    obtain ⟨r, _, e⟩ := List.mem_map.mp hp
    subst e; exact hg r) k]
  generalize wholeFrames k ((runApi ops).log.map enc) = w
  have e : ((List.map enc (runApi ops).log).take w).map decR = (runApi ops).log.take w := by
    rw [← List.map_take, List.map_map]
    have : decR ∘ enc = id := funext hdec
    rw [this, List.map_id]
  rw [e]
  by_cases hw : w ≤ (runApi ops).log.length
  · obtain ⟨j, hj, h1, _, _⟩ := c05b_crash_any_record_prefix ops w hw
    exact ⟨j, hj, h1⟩
  · rw [List.take_of_length_le (by omega)]
    exact ⟨ops.length, Nat.le_refl _, by rw [List.take_length]; exact c05b_crash_whole_log ops⟩

/-- F (crash at file level): in the file-level database a crash that keeps a record prefix of
the concatenated files is a crash of the single log of the model, to which the theorems above
apply: the records are the same list (`c05b_files_simulation`). -/
theorem c05b_files_crash (ops : List FOp) (hb : ops.length ≤ pendingEpoch) (k : Nat)
    (hk : k ≤ (runF id ops).allRecs.length) :
    ∃ j, j ≤ (eraseF ops).length ∧
      recovered ((runF id ops).allRecs.take k) = durable ((eraseF ops).take j) := by
  have h := c05b_files_simulation ops hb
  rw [h.recs] at hk ⊢
  obtain ⟨j, hj, h1, _, _⟩ := c05b_crash_any_record_prefix (eraseF ops) k hk
  exact ⟨j, hj, h1⟩

/-! ## Part E — non-vacuity: concrete histories, checked by `decide`
(the same histories were run on the real database: `/tmp/c05b/hist1.ops` through `vh run`,
implementation = model on every line, all three kinds of copy, four rotations before the last
reopen) -/

/-- labels, properties, a self-loop, parallel edges, a deleted edge, a deleted node that still
has an edge, label changes, a checkpoint and a close→reopen in the middle -/
def hist1 : List LOp :=
  [.createNode [1, 2], .createNode [], .createNode [3], .setNodeProp 0 3 "S61", .setNodeProp 0 4 "I7",
   .createEdge 0 1 5, .createEdge 0 0 6, .createEdge 1 0 5, .createEdge 0 1 5, .setEdgeProp 0 1 "I7",
   .checkpoint, .deleteEdge 2, .addLabel 1 9, .removeLabel 0 1, .closeReopen, .createEdge 2 1 7,
   .deleteNode 2, .setNodeProp 0 3 "S"]

/-- N (C07): the copy theorems on `hist1`, with the dump written out (the edge 4: 2→1 of the
deleted node 2 survives in every copy, with its adjacency entry under node 1). -/
theorem c07_copy_dump_instance :
    dumpStore (runApi hist1).live =
      "0:2:3=S,4=I7;1:9:|0:0>1:5:1=I7;1:0>0:6:;3:0>1:5:;4:2>1:7:|0>0.1,1.0,3.1<1.0;1><0.0,3.0,4.2" ∧
    dumpStore (copyStore (runApi hist1).live) = dumpStore (runApi hist1).live ∧
    dumpStore (importSnap (exportSnap (runApi hist1).live)) = dumpStore (runApi hist1).live ∧
    dumpStore (savedDb (runApi hist1).live).reopen.live = dumpStore (runApi hist1).live ∧
    (saveLog (runApi hist1).live).length = 9 := by decide

/-- the same history at file level, with rotations (one of them inside a checkpoint) -/
def hist1F : List FOp :=
  (hist1.take 6).map (FOp.call · false) ++ [.rotate] ++ (hist1.drop 6 |>.take 4).map (FOp.call · false) ++
  [.call .checkpoint true] ++ (hist1.drop 11 |>.take 3).map (FOp.call · false) ++ [.rotate, .rotate, .call .closeReopen true] ++
  (hist1.drop 15).map (FOp.call · false)

theorem hist1F_erase : eraseF hist1F = hist1 := rfl

/-- N (C05, file level): `hist1F` forgets to `hist1` (`hist1F_erase`); six log files; the store's epoch has
moved (creates since the reopen); the dump is the model's; and a further close→reopen after
one more rotation returns it unchanged, counters included. -/
theorem c05b_files_instance :
    (runF id hist1F).files.map (·.1) = [0, 1, 2, 3, 4, 5] ∧ (runF id hist1F).cur = 5 ∧
    (runF id hist1F).live.epoch = 1 ∧ (runF id hist1F).ckpt = some (7, 5) ∧
    dumpStore (runF id hist1F).live = dumpStore (runApi hist1).live ∧
    dumpStore (runF id (hist1F ++ [.rotate, .call .closeReopen false])).live = dumpStore (runF id hist1F).live ∧
    (runF id (hist1F ++ [.rotate, .call .closeReopen false])).live.nextNode = 3 ∧
    (runF id (hist1F ++ [.rotate, .call .closeReopen false])).live.nextEdge = 5 := by decide

/-- N (crash): `hist1` has written 20 records. Cut after 12 (inside the uncommitted calls that
follow the checkpoint): the state of the checkpoint (operation prefix of length 11) comes back.
Cut after 11 (the checkpoint's commit marker survived, its checkpoint marker did not): the
same. Cut after 10 (the commit marker is lost): nothing was ever committed — empty store. The
whole log without a close: the state at the close→reopen (prefix of length 15). -/
theorem c05b_crash_instance :
    (runApi hist1).log.length = 20 ∧
    dumpStore (recovered ((runApi hist1).log.take 12)) = dumpStore (durable (hist1.take 11)) ∧
    dumpStore (recovered ((runApi hist1).log.take 11)) = dumpStore (durable (hist1.take 11)) ∧
    (recovered ((runApi hist1).log.take 12)).edgeIds = [0, 1, 2, 3] ∧
    (recovered ((runApi hist1).log.take 10)).nodeIds = [] ∧
    dumpStore (recovered (runApi hist1).log) = dumpStore (durable (hist1.take 15)) ∧
    (durable hist1).edgeIds = [0, 1, 3] ∧ (runApi hist1).live.edgeIds = [0, 1, 3, 4] := by decide

/-- N: the invariants are not vacuous — on `hist1` the adjacency clause of `Good` reads -/
theorem c05b_good_instance :
    edgeView (runApi hist1).live = [(0, ⟨0, 1, 5⟩), (1, ⟨0, 0, 6⟩), (3, ⟨0, 1, 5⟩), (4, ⟨2, 1, 7⟩)] ∧
    (runApi hist1).live.outEdges 0 = [(1, 0), (0, 1), (1, 3)] ∧
    (runApi hist1).live.inEdges 1 = [(0, 0), (0, 3), (2, 4)] ∧
    (runApi hist1).live.nodeIds = [0, 1] ∧ (runApi hist1).live.nextNode = 3 := by decide

/-! ## Part F — C07 for the whole database-level API, the unlogged mutation included

A copy does not read the log, so for C07 the one mutation that is still not logged — a node
inserted through a session query — is an ordinary mutation: at store level a `create_node`
followed by `set_node_property`, which is how `Driver/Pers.lean` runs `qins`.
(`remove_node_property` is a logged call since 0125264 and is covered by `runApi` already.) -/

inductive COp where
  | logged (op : LOp)                          -- any call of the logged fragment
  | queryInsert (labels : List Nat) (key : Nat) (v : String)   -- `INSERT (:L {k: v})`, never logged

def cstep (s : Store) : COp → Store
  | .logged op => liveStep s op
  | .queryInsert ls k v => liveStep (liveStep s (.createNode ls)) (.setNodeProp s.nextNode k v)

def runC (ops : List COp) : Store := ops.foldl cstep {}

theorem good_settled_liveStep {s : Store} (h : Good s) (hs : Settled s) (op : LOp) :
    Good (liveStep s op) ∧ Settled (liveStep s op) := by
  unfold liveStep
  cases hr : recOf s op with
  | none => exact ⟨h, hs⟩
  | some r => exact ⟨good_applyRec h hs r (recOf_fresh _ _ _ hr), settled_applyRec hs r⟩

theorem good_settled_runC (ops : List COp) : Good (runC ops) ∧ Settled (runC ops) := by
  unfold runC
  have : ∀ s : Store, Good s ∧ Settled s → Good (ops.foldl cstep s) ∧ Settled (ops.foldl cstep s) := by
    induction ops with
    | nil => intro s h; exact h
    | cons op ops ih =>
      intro s h
      apply ih
      cases op with
      | logged op => exact good_settled_liveStep h.1 h.2 op
      | queryInsert ls k v =>
        have h1 := good_settled_liveStep h.1 h.2 (.createNode ls)
        exact good_settled_liveStep h1.1 h1.2 _
  exact this {} ⟨good_empty, settled_empty⟩

/-- F (C07, **every database-level history**, logged or not): the copy has the dump of the source. -/
theorem c07_copy_dump_eq_all (ops : List COp) : dumpStore (copyStore (runC ops)) = dumpStore (runC ops) :=
  dumpStore_congr (copy_obsEq (good_settled_runC ops).1).1

theorem c07_save_open_dump_eq_all (ops : List COp) :
    dumpStore (savedDb (runC ops)).reopen.live = dumpStore (runC ops) := by
  rw [save_open]; exact c07_copy_dump_eq_all ops

theorem c07_export_import_dump_eq_all (ops : List COp) :
    dumpStore (importSnap (exportSnap (runC ops))) = dumpStore (runC ops) := by
  rw [import_export]; exact c07_copy_dump_eq_all ops

/-- N: a removed property is not in the copy, nor in what `save`→`open` returns — also when the
source ran the old, unlogged `remove_node_property` (`Old.runApi`), whose *own* close→reopen
brought the property back (`c05_remove_property_lost_witness`); and a query-inserted node is
in every copy although the source's own reopen loses it. -/
theorem c07_copy_after_remove_instance :
    let h : List LOp := [.createNode [1], .setNodeProp 0 1 "I5", .setNodeProp 0 2 "I6", .removeNodeProp 0 1]
    dumpStore (runApi h).live = "0:1:2=I6||0><" ∧ dumpStore (copyStore (runApi h).live) = "0:1:2=I6||0><" ∧
    dumpStore (savedDb (runApi h).live).reopen.live = "0:1:2=I6||0><" ∧
    dumpStore (copyStore (Old.runApi h).live) = "0:1:2=I6||0><" ∧
    dumpStore (copyStore (runC [.logged (.createNode [1]), .queryInsert [2] 0 "I1"])) = "0:1:;1:2:0=I1||0><;1><" := by
  decide

/-! ### committed session transactions re-establish settledness

Inside an open session transaction new versions carry the stamp `PENDING`; a copy made then
leaves them out (they are not committed). At commit `finalize_versions` re-stamps them with the
commit epoch and the store epoch follows: -/

/-- a version created by the open transaction `tx`, not yet committed -/
def PendingOf (tx : Nat) (v : Ver) : Prop := v.owner = tx ∧ v.created = pendingEpoch ∧ v.deleted = none

theorem chainSettled_restamp {ep e tx : Nat} {c : List Ver}
    (h : ∀ v ∈ c, VerSettled ep v ∨ PendingOf tx v) : ChainSettled (max ep e) (restamp tx e c) := by
  intro w hw
  unfold restamp at hw
  obtain ⟨v, hv, rfl⟩ := List.mem_map.mp hw
  rcases h v hv with hs | hp
  · split
    · exact ⟨Nat.le_max_right _ _, fun d hd => Nat.le_trans (hs.2 d hd) (Nat.le_max_left _ _)⟩
    · exact hs.mono (Nat.le_max_left _ _)
  · have : (v.owner == tx && v.created == pendingEpoch) = true := by simp [hp.1, hp.2.1]
    simp only [this, if_true]
    exact ⟨Nat.le_max_right _ _, fun d hd => by simp [hp.2.2] at hd⟩

/-- F (C07, committed transactions): if every version in the store is settled or is a pending
version of transaction `tx`, then after `finalize_versions(tx, e)` the store is settled again —
enumeration at the store epoch, hence every copy, sees all of the transaction's work. -/
theorem c07_commit_resettles (s : Store) (tx e : Nat)
    (hn : ∀ kv ∈ s.nodes, ∀ v ∈ kv.2, VerSettled s.epoch v ∨ PendingOf tx v)
    (he : ∀ kv ∈ s.edges, ∀ v ∈ kv.2.1, VerSettled s.epoch v ∨ PendingOf tx v) :
    Settled (s.finalize tx e) := by
  constructor
  · intro kv hkv
    obtain ⟨kv0, hkv0, rfl⟩ := List.mem_map.mp hkv
    exact chainSettled_restamp (hn kv0 hkv0)
  · intro kv hkv
    obtain ⟨kv0, hkv0, rfl⟩ := List.mem_map.mp hkv
    exact chainSettled_restamp (he kv0 hkv0)

/-- N: a node created inside transaction 7 on top of a logged history, then committed at epoch 1 -/
theorem c07_commit_resettles_instance :
    let s0 := (runApi [.createNode [1]]).live
    let s1 := (s0.createNode [2] pendingEpoch 7).1
    s1.nodeIds = [0] ∧ (s1.finalize 7 1).nodeIds = [0, 1] ∧ (copyStore (s1.finalize 7 1)).nodeIds = [0, 1] := by
  decide

/-! ### property calls on an entity that is not alive (repair 9bbd0dc)

`set_node_property` / `set_edge_property` now write nothing when the entity has no non-deleted
version. `GrafeoDB` still logs the record before calling the store. Call and replay are the
same function (`api_data`) applied to the same store (`InSync`), so the aliveness test gives
the same answer both times — whatever the answer is: -/

/-- F: on an entity that is not alive the call — and the replay of its record — is the identity -/
theorem c05b_set_on_dead_is_noop (s : Store) (id k : Nat) (v : String) :
    (nodeAlive s id = false → applyRec s (.setNodeProp id k v) = s ∧ liveStep s (.setNodeProp id k v) = s) ∧
    (edgeAlive s id = false → applyRec s (.setEdgeProp id k v) = s ∧ liveStep s (.setEdgeProp id k v) = s) := by
  constructor
  · intro h
    have : s.setNodeProp id k v = s := by rw [setNodeProp_eq, h]; rfl
    exact ⟨this, this⟩
  · intro h
    have : s.setEdgeProp id k v = s := by rw [setEdgeProp_eq, h]; rfl
    exact ⟨this, this⟩

/-- N: properties set on a deleted node, on a node id not yet handed out (node 2 is created
*after* the refused call and must not inherit the value), on a deleted edge: refused at call
time, logged (9 records), refused again on replay — same dump before and after close→reopen,
and in a saved copy. Run on the real database as `/tmp/c05b/dead.ops`: implementation = model. -/
theorem c05b_set_on_dead_instance :
    let h : List LOp := [.createNode [], .deleteNode 0, .setNodeProp 0 1 "I5", .setNodeProp 2 1 "I2",
      .createNode [], .createNode [], .createEdge 1 2 0, .deleteEdge 0, .setEdgeProp 0 1 "I2"]
    (runApi h).log.length = 9 ∧
    dumpStore (runApi h).live = "1::;2::||1><;2><" ∧
    dumpStore (runApi h).close.reopen.live = "1::;2::||1><;2><" ∧
    dumpStore (savedDb (runApi h).live).reopen.live = "1::;2::||1><;2><" ∧
    (runApi h).live.nodePropsOf 2 = [] ∧ (runApi h).close.reopen.live.nodePropsOf 2 = [] := by decide

/-- N (`remove_node_property` as a logged call; run on the real database as
`/tmp/c05b/rnp2.ops`, implementation = model = specification): a removal that hits, one that
misses (logs nothing), a checkpoint, a rotation, another removal. Seven records; after
close→reopen both properties stay removed (constant-epoch and file-level model alike); a crash
that keeps the whole log but has no close brings back only the removal made after the
checkpoint — it was not committed. -/
theorem c05b_remove_prop_instance :
    let h : List LOp := [.createNode [1], .setNodeProp 0 1 "I5", .setNodeProp 0 2 "I6", .removeNodeProp 0 1,
      .removeNodeProp 0 7, .checkpoint, .removeNodeProp 0 2]
    let hF : List FOp := (h.take 6).map (FOp.call · false) ++ [.rotate] ++ (h.drop 6).map (FOp.call · false)
    (runApi h).log.length = 7 ∧
    dumpStore (runApi h).live = "0:1:||0><" ∧
    dumpStore (runApi h).close.reopen.live = "0:1:||0><" ∧
    dumpStore (runF id (hF ++ [.call .closeReopen false])).live = "0:1:||0><" ∧
    (runF id hF).files.map (fun f => f.2.length) = [6, 1] ∧
    dumpStore (recovered (runApi h).log) = "0:1:2=I6||0><" ∧
    dumpStore (durable h) = "0:1:2=I6||0><" := by decide

end Grafeo.Persist
