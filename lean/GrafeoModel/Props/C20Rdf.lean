import GrafeoModel.Model.RdfConc
import GrafeoModel.Proofs.RdfLemmas

/-!
# C20, triple-store clause — `insert` / `remove` under every interleaving

For **every** number of threads, **every** program of inserts and removes per thread (same or
different triples) and **every** schedule: in every reachable state the three indexes agree with
the primary set (`Rdf.Inv`, the invariant of C13), and the state is the one a **sequential**
execution of the completed operations in their linearisation order (`log`) produces, each
operation having returned what it returns in that sequential execution; every thread's results
are its entries of the log.

The code before the repair (`asIs = true`: four separately locked steps) violates the first claim:
witness `c20_rdf_asis_torn_index`.
-/

namespace Grafeo.RdfConc
open Grafeo.Rdf

theorem replay_append (st : Store) (ops : List COp) (op : COp) :
    replay st (ops ++ [op]) =
      ((applyOp (replay st ops).1 op).1, (replay st ops).2 ++ [(applyOp (replay st ops).1 op).2]) := by
  induction ops generalizing st with
  | nil => simp [replay]
  | cons o rest ih =>
    simp only [List.cons_append, replay]
    rw [ih]

def myResults (i : Nat) (log : List (Nat × COp × Bool)) : List Bool :=
  (log.filter (fun e => e.1 == i)).map (·.2.2)

structure Lin (b : Bool) (s : State) : Prop where
  replayed : replay (Store.new b) (s.log.map (·.2.1)) = (s.store, s.log.map (·.2.2))
  inv : Rdf.Inv s.store
  results : ∀ i t, s.threads[i]? = some t → t.results = myResults i s.log

theorem insert_not_mem (st : Store) (x : Triple) (h : x ∈ st.triples) : st.insert x = (st, false) := by
  unfold Store.insert; rw [if_pos h]

/-- what one critical section of the repaired code does: the store moves by at most one sequential
operation, which is appended to the log with its sequential result -/
theorem stepThread_spec (i : Nat) (st : Store) (log : List (Nat × COp × Bool)) (t : Thread)
    (hpc : t.pc = .idle ∨ (∃ x, t.pc = .insCheck x) ∨ (∃ x, t.pc = .insWrite x) ∨ (∃ x, t.pc = .remWrite x)) :
    let r := stepThread false i st log t
    (r.1 = st ∧ r.2.1 = log ∧ r.2.2.results = t.results) ∨
    (∃ op, r.1 = (applyOp st op).1 ∧ r.2.1 = log ++ [(i, op, (applyOp st op).2)] ∧
           r.2.2.results = t.results ++ [(applyOp st op).2]) := by
  unfold stepThread
  rcases hpc with h | ⟨x, h⟩ | ⟨x, h⟩ | ⟨x, h⟩
  · rw [h]; simp only
    cases htodo : t.todo with
    | nil => exact Or.inl ⟨rfl, rfl, rfl⟩
    | cons op rest => cases op <;> exact Or.inl ⟨rfl, rfl, rfl⟩
  · rw [h]; simp only
    split
    · rename_i hm
      refine Or.inr ⟨.insert x, ?_, ?_, ?_⟩
      · simp [applyOp, insert_not_mem st x hm]
      · simp [applyOp, insert_not_mem st x hm]
      · simp [applyOp, insert_not_mem st x hm, finishOp]
    · exact Or.inl ⟨rfl, rfl, rfl⟩
  · rw [h]; simp only [Bool.false_eq_true, if_false]
    exact Or.inr ⟨.insert x, rfl, rfl, rfl⟩
  · rw [h]; simp only [Bool.false_eq_true, if_false]
    exact Or.inr ⟨.remove x, rfl, rfl, rfl⟩

/-- the repaired code never enters the separate index sections -/
def FixedPc (t : Thread) : Prop :=
  t.pc = .idle ∨ (∃ x, t.pc = .insCheck x) ∨ (∃ x, t.pc = .insWrite x) ∨ (∃ x, t.pc = .remWrite x)

theorem stepThread_fixedPc (i : Nat) (st : Store) (log : List (Nat × COp × Bool)) (t : Thread)
    (h : FixedPc t) : FixedPc (stepThread false i st log t).2.2 := by
  unfold stepThread
  rcases h with h | ⟨x, h⟩ | ⟨x, h⟩ | ⟨x, h⟩
  · rw [h]; simp only
    cases htodo : t.todo with
    | nil => exact Or.inl h
    | cons op rest =>
      cases op with
      | insert y => exact Or.inr (Or.inl ⟨y, rfl⟩)
      | remove y => exact Or.inr (Or.inr (Or.inr ⟨y, rfl⟩))
  · rw [h]; simp only
    split
    · exact Or.inl rfl
    · exact Or.inr (Or.inr (Or.inl ⟨x, rfl⟩))
  · rw [h]; simp only [Bool.false_eq_true, if_false]; exact Or.inl rfl
  · rw [h]; simp only [Bool.false_eq_true, if_false]; exact Or.inl rfl

theorem applyOp_inv (st : Store) (op : COp) (h : Rdf.Inv st) : Rdf.Inv (applyOp st op).1 := by
  cases op with
  | insert x => exact inv_insert st x h
  | remove x => exact inv_remove st x h

theorem getElem?_set_self' {α : Type} (l : List α) (i : Nat) (a b : α) (h : l[i]? = some a) :
    (l.set i b)[i]? = some b := by
  have hlt : i < l.length := by
    rcases Nat.lt_or_ge i l.length with h' | h'
    · exact h'
    · rw [List.getElem?_eq_none h'] at h; cases h
  simp [List.getElem?_set, hlt]

theorem myResults_append_self (i : Nat) (log : List (Nat × COp × Bool)) (op : COp) (r : Bool) :
    myResults i (log ++ [(i, op, r)]) = myResults i log ++ [r] := by
  simp [myResults, List.filter_append]

theorem myResults_append_other (i j : Nat) (log : List (Nat × COp × Bool)) (op : COp) (r : Bool) (h : i ≠ j) :
    myResults j (log ++ [(i, op, r)]) = myResults j log := by
  have : (i == j) = false := by simp [h]
  simp [myResults, List.filter_append, this]

theorem lin_step (b : Bool) (s : State) (i : Nat) (h : Lin b s) (hf : ∀ t ∈ s.threads, FixedPc t) :
    Lin b (step false s i) ∧ ∀ t ∈ (step false s i).threads, FixedPc t := by
  unfold step
  cases hti : s.threads[i]? with
  | none => exact ⟨h, hf⟩
  | some t =>
    simp only
    have hmem : t ∈ s.threads := List.mem_of_getElem? hti
    have hpc := hf t hmem
    have hspec := stepThread_spec i s.store s.log t hpc
    have hfix := stepThread_fixedPc i s.store s.log t hpc
    generalize stepThread false i s.store s.log t = r at hspec hfix
    obtain ⟨st', log', t'⟩ := r
    simp only at hspec hfix ⊢
    refine ⟨?_, ?_⟩
    · rcases hspec with ⟨h1, h2, h3⟩ | ⟨op, h1, h2, h3⟩
      · subst h1; subst h2
        refine ⟨h.replayed, h.inv, ?_⟩
        intro j tj hj
        by_cases hij : j = i
        · subst hij
          rw [getElem?_set_self' s.threads j t t' hti] at hj
          cases hj
          rw [h3]; exact h.results j t hti
        · rw [List.getElem?_set_ne (fun e => hij e.symm)] at hj
          exact h.results j tj hj
      · refine ⟨?_, ?_, ?_⟩
        · show replay (Store.new b) (log'.map (·.2.1)) = (st', log'.map (·.2.2))
          rw [h2, List.map_append, List.map_append]
          simp only [List.map_cons, List.map_nil]
          rw [replay_append, h.replayed, h1]
        · show Rdf.Inv st'
          rw [h1]; exact applyOp_inv s.store op h.inv
        · intro j tj hj
          show tj.results = myResults j log'
          by_cases hij : j = i
          · subst hij
            rw [getElem?_set_self' s.threads j t t' hti] at hj
            cases hj
            rw [h3, h2, myResults_append_self, h.results j t hti]
          · rw [List.getElem?_set_ne (fun e => hij e.symm)] at hj
            rw [h2, myResults_append_other i j s.log op _ (fun e => hij e.symm)]
            exact h.results j tj hj
    · intro x hx
      have := List.mem_or_eq_of_mem_set hx
      rcases this with hx' | rfl
      · exact hf x hx'
      · exact hfix

theorem lin_init (b : Bool) (progs : List (List COp)) :
    Lin b (init b progs) ∧ ∀ t ∈ (init b progs).threads, FixedPc t := by
  refine ⟨⟨rfl, inv_new b, ?_⟩, ?_⟩
  · intro i t ht
    simp only [init, List.getElem?_map] at ht
    cases hp : progs[i]? with
    | none => rw [hp] at ht; cases ht
    | some p => rw [hp] at ht; cases ht; rfl
  · intro t ht
    simp only [init, List.mem_map] at ht
    obtain ⟨p, _, rfl⟩ := ht
    exact Or.inl rfl

theorem lin_runSched (b : Bool) (s : State) (sched : List Nat) (h : Lin b s) (hf : ∀ t ∈ s.threads, FixedPc t) :
    Lin b (runSched false s sched) := by
  unfold runSched
  induction sched generalizing s with
  | nil => exact h
  | cons i rest ih =>
    obtain ⟨h', hf'⟩ := lin_step b s i h hf
    exact ih (step false s i) h' hf'

/-- F (triple-store clause): for every set of thread programs and every schedule, the reached
state has consistent indexes, equals the sequential execution of its log, and every thread got the
results the log records for it. -/
theorem c20_rdf_linearizable (b : Bool) (progs : List (List COp)) (sched : List Nat) :
    let s := runSched false (init b progs) sched
    Rdf.Inv s.store ∧
    replay (Store.new b) (s.log.map (·.2.1)) = (s.store, s.log.map (·.2.2)) ∧
    ∀ i t, s.threads[i]? = some t → t.results = myResults i s.log := by
  obtain ⟨h, hf⟩ := lin_init b progs
  have := lin_runSched b (init b progs) sched h hf
  exact ⟨this.inv, this.replayed, this.results⟩

/-- W: the code before the repair — thread 0 inserts `t`, thread 1 removes it between thread 0's
primary step and its index steps: `t` stays in all three indexes and is not in the set. -/
theorem c20_rdf_asis_torn_index :
    let t : Triple := ⟨1, 2, 3⟩
    let s := runSched true (init true [[.insert t], [.remove t]]) [0, 0, 0, 1, 1, 1, 1, 1, 0, 0, 0]
    s.store.triples = [] ∧ idxGet s.store.sIdx 1 = [t] ∧ consistent s.store = false := by decide

/-- N: same programs and schedule on the repaired code: consistent, and the log is a sequential
history (insert, then remove). -/
example :
    let t : Triple := ⟨1, 2, 3⟩
    let s := runSched false (init true [[.insert t], [.remove t]]) [0, 0, 0, 1, 1, 1, 1, 1, 0, 0, 0]
    consistent s.store = true ∧ s.log = [(0, .insert t, true), (1, .remove t, true)] := by decide

end Grafeo.RdfConc
