import GrafeoModel.Model.Hnsw

/-!
C18 — vector search returns real, correctly scored, correctly ordered neighbours.

Theorems about the model of `Model/Hnsw.lean`, for EVERY graph (any neighbour lists: dangling ids,
self loops, duplicates), every distance function, every entry point, `k`, `ef` and fuel.

  c18_search_sound                      returned ids reachable from the entry point, pairwise distinct,
                                        at most k, sorted by distance, each paired with its own distance
  c18_search_in_index                   on a closed dump every returned id is a node of the index
  c18_search_empty                      no entry point / no nodes ⇒ []
  c18_search_returns_k_when_reachable   length = min k |nodes reachable on layer 0 from the descent's end|
  searchLayer_sound, searchLayer_length the same two facts for `search_layer` alone (any layer, any ef ≥ 1)
  searchLayerSingle_le                  the greedy walk never ends further away than it started
  c18_brute_force_exact                 `brute_force_knn` = the k smallest, sorted
  c18_batch_eq_singles                  batch search = map of single search
  checkSound_iff, c18_model_passes_check  the executable specification the driver prints means the five
                                        clauses, and the model always passes it on a closed dump
  witnesses                             non-vacuity; unreachable node never returned; dangling id returned;
                                        a NaN distance breaks `brute_force_knn`

Not proved (not modelled): floating point, `insert` (level choice, neighbour selection, pruning) and
`remove` — the graphs the theorems quantify over are arbitrary, so they cover whatever those produce.
-/
namespace Grafeo.Hnsw

/-! ## reachability -/

/-- reflexive-transitive closure of a step relation -/
inductive ReachR (r : Nat → Nat → Prop) : Nat → Nat → Prop
  | refl (a : Nat) : ReachR r a a
  | tail {a b c : Nat} : ReachR r a b → r b c → ReachR r a c

theorem ReachR.trans {r : Nat → Nat → Prop} {a b c : Nat}
    (h1 : ReachR r a b) (h2 : ReachR r b c) : ReachR r a c := by
  induction h2 with
  | refl => exact h1
  | tail _ hs ih => exact ReachR.tail ih hs

theorem ReachR.mono {r r' : Nat → Nat → Prop} (h : ∀ a b, r a b → r' a b) {a b : Nat}
    (h1 : ReachR r a b) : ReachR r' a b := by
  induction h1 with
  | refl => exact ReachR.refl _
  | tail _ hs ih => exact ReachR.tail ih (h _ _ hs)

/-- one link of one layer -/
def adjRel (adj : Nat → List Nat) (a b : Nat) : Prop := b ∈ adj a

/-- one link of any layer -/
def Graph.edge (G : Graph) (a b : Nat) : Prop := ∃ l, b ∈ G.nbrs a l

/-- `b` can be reached from `a` along neighbour links (of any layer) -/
def Graph.Reach (G : Graph) (a b : Nat) : Prop := ReachR G.edge a b

/-- the dump mentions only ids it contains -/
def Graph.Closed (G : Graph) : Prop :=
  (∀ e, G.entry = some e → e ∈ G.nodes) ∧ ∀ a l b, b ∈ G.nbrs a l → b ∈ G.nodes

theorem Graph.Closed.reach {G : Graph} (hc : G.Closed) {a b : Nat} (ha : a ∈ G.nodes)
    (h : G.Reach a b) : b ∈ G.nodes := by
  induction h with
  | refl => exact ha
  | tail _ hs _ => exact hs.elim fun l hl => hc.2 _ l _ hl

/-! ## greedy descent -/

theorem greedyStep_mem (d : Nat → Nat) (ns : List Nat) (cur : Nat) :
    greedyStep d ns cur = cur ∨ greedyStep d ns cur ∈ ns := by
  induction ns generalizing cur with
  | nil => exact Or.inl rfl
  | cons n ns ih =>
    simp only [greedyStep, List.foldl_cons]
    by_cases h : d n < d cur
    · simp only [h, if_true]
      cases ih n with
      | inl h1 => exact Or.inr (by simp only [greedyStep] at h1; rw [h1]; exact List.mem_cons_self)
      | inr h1 => exact Or.inr (List.mem_cons_of_mem _ h1)
    · simp only [h, if_false]
      cases ih cur with
      | inl h1 => exact Or.inl h1
      | inr h1 => exact Or.inr (List.mem_cons_of_mem _ h1)

theorem greedyStep_reach (adj : Nat → List Nat) (d : Nat → Nat) (cur : Nat) :
    ReachR (adjRel adj) cur (greedyStep d (adj cur) cur) := by
  cases greedyStep_mem d (adj cur) cur with
  | inl h => rw [h]; exact ReachR.refl _
  | inr h => exact ReachR.tail (ReachR.refl _) h

theorem searchLayerSingle_reach (adj : Nat → List Nat) (d : Nat → Nat) (fuel cur : Nat) :
    ReachR (adjRel adj) cur (searchLayerSingle adj d fuel cur) := by
  induction fuel generalizing cur with
  | zero => exact ReachR.refl _
  | succ f ih =>
    simp only [searchLayerSingle]
    split
    · exact ReachR.trans (greedyStep_reach adj d cur) (ih _)
    · exact ReachR.refl _

/-- the greedy walk never ends on a node further away than where it started -/
theorem searchLayerSingle_le (adj : Nat → List Nat) (d : Nat → Nat) (fuel cur : Nat) :
    d (searchLayerSingle adj d fuel cur) ≤ d cur := by
  induction fuel generalizing cur with
  | zero => exact Nat.le_refl _
  | succ f ih =>
    simp only [searchLayerSingle]
    split
    · rename_i h
      exact Nat.le_trans (ih _) (Nat.le_of_lt h)
    · exact Nat.le_refl _

theorem descend_reach (G : Graph) (d : Nat → Nat) (fuel lvl cur : Nat) :
    G.Reach cur (descend G d fuel lvl cur) := by
  induction lvl generalizing cur with
  | zero => exact ReachR.refl _
  | succ l ih =>
    simp only [descend]
    refine ReachR.trans ?_ (ih _)
    exact ReachR.mono (fun a b h => ⟨l + 1, h⟩) (searchLayerSingle_reach _ d fuel cur)

/-! ## the heaps -/

theorem argMin_mem (d : Nat → Nat) (b : Nat) (xs : List Nat) :
    argMin d b xs = b ∨ argMin d b xs ∈ xs := by
  induction xs generalizing b with
  | nil => exact Or.inl rfl
  | cons x xs ih =>
    simp only [argMin]
    split
    · cases ih x with
      | inl h => exact Or.inr (by rw [h]; exact List.mem_cons_self)
      | inr h => exact Or.inr (List.mem_cons_of_mem _ h)
    · cases ih b with
      | inl h => exact Or.inl h
      | inr h => exact Or.inr (List.mem_cons_of_mem _ h)

theorem argMax_mem (d : Nat → Nat) (b : Nat) (xs : List Nat) :
    argMax d b xs = b ∨ argMax d b xs ∈ xs := by
  induction xs generalizing b with
  | nil => exact Or.inl rfl
  | cons x xs ih =>
    simp only [argMax]
    split
    · cases ih x with
      | inl h => exact Or.inr (by rw [h]; exact List.mem_cons_self)
      | inr h => exact Or.inr (List.mem_cons_of_mem _ h)
    · cases ih b with
      | inl h => exact Or.inl h
      | inr h => exact Or.inr (List.mem_cons_of_mem _ h)

theorem minOf_mem {d : Nat → Nat} {l : List Nat} {c : Nat} (h : minOf d l = some c) : c ∈ l := by
  cases l with
  | nil => simp [minOf] at h
  | cons x xs =>
    simp only [minOf, Option.some.injEq] at h
    subst h
    cases argMin_mem d x xs with
    | inl h => rw [h]; exact List.mem_cons_self
    | inr h => exact List.mem_cons_of_mem _ h

theorem minOf_none {d : Nat → Nat} {l : List Nat} (h : minOf d l = none) : l = [] := by
  cases l with
  | nil => rfl
  | cons x xs => simp [minOf] at h

theorem maxOf_mem {d : Nat → Nat} {l : List Nat} {c : Nat} (h : maxOf d l = some c) : c ∈ l := by
  cases l with
  | nil => simp [maxOf] at h
  | cons x xs =>
    simp only [maxOf, Option.some.injEq] at h
    subst h
    cases argMax_mem d x xs with
    | inl h => rw [h]; exact List.mem_cons_self
    | inr h => exact List.mem_cons_of_mem _ h

theorem evictN_sublist (d : Nat → Nat) (n : Nat) (l : List Nat) : (evictN d n l).Sublist l := by
  induction n generalizing l with
  | zero => exact List.Sublist.refl _
  | succ n ih =>
    simp only [evictN]
    split
    · exact List.Sublist.refl _
    · exact List.Sublist.trans (ih _) List.erase_sublist

theorem evictN_length (d : Nat → Nat) (n : Nat) (l : List Nat) :
    (evictN d n l).length = l.length - n := by
  induction n generalizing l with
  | zero => rfl
  | succ n ih =>
    simp only [evictN]
    split
    · rename_i h
      cases l with
      | nil => simp
      | cons x xs => simp [maxOf] at h
    · rename_i m h
      rw [ih, List.length_erase_of_mem (maxOf_mem h)]
      omega

theorem evict_sublist (d : Nat → Nat) (ef : Nat) (l : List Nat) : (evict d ef l).Sublist l :=
  evictN_sublist d _ l

theorem evict_length (d : Nat → Nat) (ef : Nat) (l : List Nat) :
    (evict d ef l).length = min ef l.length := by
  simp only [evict, evictN_length]
  omega

theorem evict_id (d : Nat → Nat) (ef : Nat) (l : List Nat) (h : l.length ≤ ef) :
    evict d ef l = l := by
  have : l.length - ef = 0 := by omega
  simp only [evict, this, evictN]

/-! ## sorting -/

section Sorting
variable {α : Type} (key : α → Nat)

theorem insertBy_perm (x : α) (l : List α) : (insertBy key x l).Perm (x :: l) := by
  induction l with
  | nil => exact List.Perm.refl _
  | cons y ys ih =>
    simp only [insertBy]
    split
    · exact List.Perm.refl _
    · exact List.Perm.trans (List.Perm.cons y ih) (List.Perm.swap x y ys)

theorem sortBy_perm (l : List α) : (sortBy key l).Perm l := by
  induction l with
  | nil => exact List.Perm.refl _
  | cons x xs ih =>
    simp only [sortBy, List.foldr_cons]
    exact List.Perm.trans (insertBy_perm key x _) (List.Perm.cons x ih)

theorem insertBy_sorted (x : α) (l : List α) (h : l.Pairwise (fun a b => key a ≤ key b)) :
    (insertBy key x l).Pairwise (fun a b => key a ≤ key b) := by
  induction l with
  | nil => simp [insertBy]
  | cons y ys ih =>
    simp only [insertBy]
    have hy := List.pairwise_cons.mp h
    split
    · rename_i hxy
      refine List.pairwise_cons.mpr ⟨?_, h⟩
      intro a ha
      cases List.mem_cons.mp ha with
      | inl h1 => rw [h1]; exact hxy
      | inr h1 => exact Nat.le_trans hxy (hy.1 a h1)
    · rename_i hxy
      refine List.pairwise_cons.mpr ⟨?_, ih hy.2⟩
      intro a ha
      have := (insertBy_perm key x ys).mem_iff.mp ha
      cases List.mem_cons.mp this with
      | inl h1 => rw [h1]; omega
      | inr h1 => exact hy.1 a h1

theorem sortBy_sorted (l : List α) : (sortBy key l).Pairwise (fun a b => key a ≤ key b) := by
  induction l with
  | nil => simp [sortBy]
  | cons x xs ih =>
    simp only [sortBy, List.foldr_cons]
    exact insertBy_sorted key x _ ih

end Sorting

/-! ## beam search: soundness invariant (every `ef`, every fuel) -/

structure Inv (adj : Nat → List Nat) (ep : Nat) (s : St) : Prop where
  res_nodup : s.results.Nodup
  res_sub : ∀ x ∈ s.results, x ∈ s.visited
  cand_sub : ∀ x ∈ s.cands, x ∈ s.visited
  vis_reach : ∀ x ∈ s.visited, ReachR (adjRel adj) ep x

theorem Inv.init (adj : Nat → List Nat) (ep : Nat) : Inv adj ep (initSt ep) := by
  refine ⟨by simp [initSt], ?_, ?_, ?_⟩ <;> simp only [initSt, List.mem_singleton]
  · intro x hx; exact hx
  · intro x hx; exact hx
  · intro x hx; rw [hx]; exact ReachR.refl _

theorem Inv.visit {adj : Nat → List Nat} {ep : Nat} {s : St} (d : Nat → Nat) (ef : Nat)
    (h : Inv adj ep s) {n : Nat} (hn : ReachR (adjRel adj) ep n) : Inv adj ep (visitNbr d ef s n) := by
  unfold visitNbr
  by_cases hv : n ∈ s.visited
  · simp only [hv, if_true]; exact h
  · simp only [hv, if_false]
    by_cases ha : shouldAdd d ef s.results n = true
    · simp only [ha, if_true]
      refine ⟨?_, ?_, ?_, ?_⟩
      · refine List.Nodup.sublist (evict_sublist d ef _) ?_
        exact List.nodup_cons.mpr ⟨fun hm => hv (h.res_sub n hm), h.res_nodup⟩
      · intro x hx
        have hx' := (evict_sublist d ef _).subset hx
        cases List.mem_cons.mp hx' with
        | inl h1 => rw [h1]; exact List.mem_cons_self
        | inr h1 => exact List.mem_cons_of_mem _ (h.res_sub x h1)
      · intro x hx
        cases List.mem_cons.mp hx with
        | inl h1 => rw [h1]; exact List.mem_cons_self
        | inr h1 => exact List.mem_cons_of_mem _ (h.cand_sub x h1)
      · intro x hx
        cases List.mem_cons.mp hx with
        | inl h1 => rw [h1]; exact hn
        | inr h1 => exact h.vis_reach x h1
    · simp only [ha]
      refine ⟨h.res_nodup, ?_, ?_, ?_⟩
      · intro x hx; exact List.mem_cons_of_mem _ (h.res_sub x hx)
      · intro x hx; exact List.mem_cons_of_mem _ (h.cand_sub x hx)
      · intro x hx
        cases List.mem_cons.mp hx with
        | inl h1 => rw [h1]; exact hn
        | inr h1 => exact h.vis_reach x h1

theorem Inv.fold {adj : Nat → List Nat} {ep : Nat} (d : Nat → Nat) (ef : Nat) (ns : List Nat)
    {s : St} (h : Inv adj ep s) (hn : ∀ n ∈ ns, ReachR (adjRel adj) ep n) :
    Inv adj ep (ns.foldl (visitNbr d ef) s) := by
  induction ns generalizing s with
  | nil => exact h
  | cons n ns ih =>
    simp only [List.foldl_cons]
    exact ih (h.visit d ef (hn n List.mem_cons_self)) (fun m hm => hn m (List.mem_cons_of_mem _ hm))

theorem Inv.loop {adj : Nat → List Nat} {ep : Nat} (d : Nat → Nat) (ef fuel : Nat) {s : St}
    (h : Inv adj ep s) : Inv adj ep (searchLoop adj d ef fuel s) := by
  induction fuel generalizing s with
  | zero => exact h
  | succ f ih =>
    simp only [searchLoop]
    split
    · exact h
    · rename_i c hc
      have hcm : c ∈ s.cands := minOf_mem hc
      have h1 : Inv adj ep { s with cands := s.cands.erase c } :=
        ⟨h.res_nodup, h.res_sub, fun x hx => h.cand_sub x (List.mem_of_mem_erase hx), h.vis_reach⟩
      split
      · exact h1
      · refine ih (h1.fold d ef (adj c) ?_)
        intro n hn
        exact ReachR.tail (h.vis_reach c (h.cand_sub c hcm)) hn

/-- `search_layer`: distinct ids, each reachable from the start node on this layer, closest first -/
theorem searchLayer_sound (adj : Nat → List Nat) (d : Nat → Nat) (ef fuel ep : Nat) :
    (searchLayer adj d ef fuel ep).Nodup ∧
    (∀ x ∈ searchLayer adj d ef fuel ep, ReachR (adjRel adj) ep x) ∧
    (searchLayer adj d ef fuel ep).Pairwise (fun a b => d a ≤ d b) := by
  have h := Inv.loop d ef fuel (Inv.init adj ep)
  have hp := sortBy_perm d (searchLoop adj d ef fuel (initSt ep)).results
  refine ⟨hp.nodup_iff.mpr h.res_nodup, ?_, sortBy_sorted d _⟩
  intro x hx
  exact h.vis_reach x (h.res_sub x (hp.mem_iff.mp hx))

/-! ## C18: soundness of `search_with_ef` -/

/-- **C18 (soundness).** Whatever the graph, the distances, `k`, `ef` and the fuel: every returned
id can be reached from the entry point along neighbour links, no id is returned twice, at most `k`
pairs come back, they are ordered by non-decreasing distance, and each id carries its own distance. -/
theorem c18_search_sound (G : Graph) (d : Nat → Nat) (k ef fuel : Nat) :
    (∀ p ∈ searchWithEf G d k ef fuel, ∃ e, G.entry = some e ∧ G.Reach e p.1) ∧
    ((searchWithEf G d k ef fuel).map Prod.fst).Nodup ∧
    (searchWithEf G d k ef fuel).length ≤ k ∧
    (searchWithEf G d k ef fuel).Pairwise (fun a b => a.2 ≤ b.2) ∧
    (∀ p ∈ searchWithEf G d k ef fuel, p.2 = d p.1) := by
  unfold searchWithEf
  cases he : G.entry with
  | none => simp
  | some e =>
    by_cases hn : G.nodes.isEmpty
    · simp [hn]
    · simp only [hn]
      have hs := searchLayer_sound (fun x => G.nbrs x 0) d (max ef k) fuel (descend G d fuel G.maxLevel e)
      refine ⟨?_, ?_, ?_, ?_, ?_⟩
      · intro p hp
        simp only [Bool.false_eq_true, if_false, List.mem_map] at hp
        obtain ⟨i, hi, rfl⟩ := hp
        refine ⟨e, rfl, ?_⟩
        have h1 := hs.2.1 i (List.mem_of_mem_take hi)
        exact ReachR.trans (descend_reach G d fuel G.maxLevel e)
          (ReachR.mono (fun a b h => ⟨0, h⟩) h1)
      · simp only [Bool.false_eq_true, if_false, List.map_map]
        have : (Prod.fst ∘ fun i => (i, d i)) = id := by funext i; rfl
        rw [this, List.map_id]
        exact List.Nodup.sublist (List.take_sublist _ _) hs.1
      · simp only [Bool.false_eq_true, if_false, List.length_map, List.length_take]
        omega
      · simp only [Bool.false_eq_true, if_false]
        rw [List.pairwise_map]
        exact List.Pairwise.sublist (List.take_sublist _ _) hs.2.2
      · intro p hp
        simp only [Bool.false_eq_true, if_false, List.mem_map] at hp
        obtain ⟨i, _, rfl⟩ := hp
        rfl

/-- **C18 (real neighbours).** On a dump that mentions only ids it contains (what `verif_dump`
shows after any sequence of inserts and removes: `remove` purges the id from every list), every
returned id is a node of the index — in particular never a removed one. -/
theorem c18_search_in_index (G : Graph) (hc : G.Closed) (d : Nat → Nat) (k ef fuel : Nat) :
    ∀ p ∈ searchWithEf G d k ef fuel, p.1 ∈ G.nodes := by
  intro p hp
  obtain ⟨e, he, hr⟩ := (c18_search_sound G d k ef fuel).1 p hp
  exact hc.reach (hc.1 e he) hr

/-- an empty index, or one without entry point, answers with the empty list -/
theorem c18_search_empty (G : Graph) (d : Nat → Nat) (k ef fuel : Nat)
    (h : G.entry = none ∨ G.nodes = []) : searchWithEf G d k ef fuel = [] := by
  unfold searchWithEf
  cases h with
  | inl h => simp [h]
  | inr h => cases G.entry <;> simp [h]

/-! ## C18: how many results (`search_layer` fills up to `ef` unless the layer-0 component is smaller) -/

theorem nodup_subset_length {l m : List Nat} (hl : l.Nodup) (hs : ∀ x ∈ l, x ∈ m) :
    l.length ≤ m.length := by
  induction l generalizing m with
  | nil => simp
  | cons a l ih =>
    have hc := List.nodup_cons.mp hl
    have ham : a ∈ m := hs a List.mem_cons_self
    have h1 : l.length ≤ (m.erase a).length := by
      refine ih hc.2 (fun x hx => ?_)
      have hxa : x ≠ a := fun h => hc.1 (h ▸ hx)
      exact (List.mem_erase_of_ne hxa).mpr (hs x (List.mem_cons_of_mem _ hx))
    rw [List.length_erase_of_mem ham] at h1
    have h2 : 0 < m.length := List.length_pos_of_mem ham
    simp only [List.length_cons]
    omega

theorem shouldAdd_false {d : Nat → Nat} {ef : Nat} {res : List Nat} {n : Nat}
    (h : ¬ shouldAdd d ef res n = true) : ef ≤ res.length := by
  unfold shouldAdd at h
  by_cases hl : res.length < ef
  · simp [hl] at h
  · omega

/-- the counting invariant of the beam-search loop (`ef ≥ 1`); `R` lists the nodes reachable from
`ep` on this layer; `pend` is the node being expanded (its neighbours are not all visited yet). -/
structure Inv2 (adj : Nat → List Nat) (ef : Nat) (R : List Nat) (ep : Nat) (pend : List Nat)
    (s : St) : Prop where
  res_nodup : s.results.Nodup
  vis_nodup : s.visited.Nodup
  res_sub : ∀ x ∈ s.results, x ∈ s.visited
  cand_sub : ∀ x ∈ s.cands, x ∈ s.visited
  vis_sub : ∀ x ∈ s.visited, x ∈ R
  ep_vis : ep ∈ s.visited
  res_le : s.results.length ≤ ef
  full : s.results.length < ef → ∀ x ∈ s.visited, x ∈ s.results
  closed : s.results.length < ef → ∀ x ∈ s.visited, x ∉ s.cands → x ∉ pend →
    ∀ y ∈ adj x, y ∈ s.visited

/-- termination measure: pending candidates + nodes not yet visited -/
def mu (R : List Nat) (s : St) : Nat := s.cands.length + (R.length - s.visited.length)

theorem Inv2.visit {adj : Nat → List Nat} {ef : Nat} {R : List Nat} {ep : Nat} {pend : List Nat}
    {s : St} (d : Nat → Nat) (h : Inv2 adj ef R ep pend s) {n : Nat} (hn : n ∈ R) :
    Inv2 adj ef R ep pend (visitNbr d ef s n) ∧
    (∀ x ∈ s.visited, x ∈ (visitNbr d ef s n).visited) ∧
    n ∈ (visitNbr d ef s n).visited ∧
    mu R (visitNbr d ef s n) ≤ mu R s := by
  unfold visitNbr
  by_cases hv : n ∈ s.visited
  · rw [if_pos hv]
    exact ⟨h, fun x hx => hx, hv, Nat.le_refl _⟩
  · rw [if_neg hv]
    have hvn : (n :: s.visited).Nodup := List.nodup_cons.mpr ⟨hv, h.vis_nodup⟩
    have hlen : (n :: s.visited).length ≤ R.length := by
      refine nodup_subset_length hvn (fun x hx => ?_)
      cases List.mem_cons.mp hx with
      | inl h1 => rw [h1]; exact hn
      | inr h1 => exact h.vis_sub x h1
    simp only [List.length_cons] at hlen
    have hvs : ∀ x ∈ n :: s.visited, x ∈ R := by
      intro x hx
      cases List.mem_cons.mp hx with
      | inl h1 => rw [h1]; exact hn
      | inr h1 => exact h.vis_sub x h1
    by_cases ha : shouldAdd d ef s.results n = true
    · rw [if_pos ha]
      have hel := evict_length d ef (n :: s.results)
      simp only [List.length_cons] at hel
      refine ⟨⟨?_, hvn, ?_, ?_, hvs, List.mem_cons_of_mem _ h.ep_vis, ?_, ?_, ?_⟩,
        fun x hx => List.mem_cons_of_mem _ hx, List.mem_cons_self, ?_⟩
      · refine List.Nodup.sublist (evict_sublist d ef _) ?_
        exact List.nodup_cons.mpr ⟨fun hm => hv (h.res_sub n hm), h.res_nodup⟩
      · intro x hx
        have hx' := (evict_sublist d ef _).subset hx
        cases List.mem_cons.mp hx' with
        | inl h1 => rw [h1]; exact List.mem_cons_self
        | inr h1 => exact List.mem_cons_of_mem _ (h.res_sub x h1)
      · intro x hx
        cases List.mem_cons.mp hx with
        | inl h1 => rw [h1]; exact List.mem_cons_self
        | inr h1 => exact List.mem_cons_of_mem _ (h.cand_sub x h1)
      · show (evict d ef (n :: s.results)).length ≤ ef
        omega
      · intro hlt x hx
        have hlt' : (evict d ef (n :: s.results)).length < ef := hlt
        have hle : (n :: s.results).length ≤ ef := by simp only [List.length_cons]; omega
        show x ∈ evict d ef (n :: s.results)
        rw [evict_id d ef _ hle]
        cases List.mem_cons.mp hx with
        | inl h1 => rw [h1]; exact List.mem_cons_self
        | inr h1 =>
          simp only [List.length_cons] at hle
          exact List.mem_cons_of_mem _ (h.full (by omega) x h1)
      · intro hlt x hx hxc hxp y hy
        have hlt' : (evict d ef (n :: s.results)).length < ef := hlt
        have hle : s.results.length + 1 ≤ ef := by omega
        have hxc' : x ∉ n :: s.cands := hxc
        have hxn : x ≠ n := fun h1 => hxc' (h1 ▸ List.mem_cons_self)
        have hxv : x ∈ s.visited := by
          cases List.mem_cons.mp hx with
          | inl h1 => exact absurd h1 hxn
          | inr h1 => exact h1
        exact List.mem_cons_of_mem _
          (h.closed (by omega) x hxv (fun h1 => hxc' (List.mem_cons_of_mem _ h1)) hxp y hy)
      · simp only [mu, List.length_cons]
        omega
    · rw [if_neg ha]
      have hfull := shouldAdd_false ha
      refine ⟨⟨h.res_nodup, hvn, ?_, ?_, hvs, List.mem_cons_of_mem _ h.ep_vis, h.res_le, ?_, ?_⟩,
        fun x hx => List.mem_cons_of_mem _ hx, List.mem_cons_self, ?_⟩
      · intro x hx; exact List.mem_cons_of_mem _ (h.res_sub x hx)
      · intro x hx; exact List.mem_cons_of_mem _ (h.cand_sub x hx)
      · intro hlt
        have hlt' : s.results.length < ef := hlt
        omega
      · intro hlt
        have hlt' : s.results.length < ef := hlt
        omega
      · simp only [mu, List.length_cons]
        omega

theorem Inv2.fold {adj : Nat → List Nat} {ef : Nat} {R : List Nat} {ep : Nat} {pend : List Nat}
    (d : Nat → Nat) (ns : List Nat) {s : St} (h : Inv2 adj ef R ep pend s) (hn : ∀ n ∈ ns, n ∈ R) :
    Inv2 adj ef R ep pend (ns.foldl (visitNbr d ef) s) ∧
    (∀ x ∈ s.visited, x ∈ (ns.foldl (visitNbr d ef) s).visited) ∧
    (∀ n ∈ ns, n ∈ (ns.foldl (visitNbr d ef) s).visited) ∧
    mu R (ns.foldl (visitNbr d ef) s) ≤ mu R s := by
  induction ns generalizing s with
  | nil => exact ⟨h, fun x hx => hx, fun n hn => absurd hn List.not_mem_nil, Nat.le_refl _⟩
  | cons n ns ih =>
    simp only [List.foldl_cons]
    obtain ⟨h1, hmono1, hn1, hmu1⟩ := h.visit d (hn n List.mem_cons_self)
    obtain ⟨h2, hmono2, hn2, hmu2⟩ := ih h1 (fun m hm => hn m (List.mem_cons_of_mem _ hm))
    refine ⟨h2, fun x hx => hmono2 x (hmono1 x hx), ?_, Nat.le_trans hmu2 hmu1⟩
    intro m hm
    cases List.mem_cons.mp hm with
    | inl h3 => rw [h3]; exact hmono2 n hn1
    | inr h3 => exact hn2 m h3

/-- when no candidate is left (or the loop broke off) the result heap holds `min ef |R|` nodes -/
theorem Inv2.final {adj : Nat → List Nat} {ef : Nat} {R : List Nat} {ep : Nat} {s : St}
    (hR : ∀ x, x ∈ R ↔ ReachR (adjRel adj) ep x) (hnd : R.Nodup)
    (h : Inv2 adj ef R ep [] s) (hc : s.cands = [] ∨ ef ≤ s.results.length) :
    s.results.length = min ef R.length := by
  have hres : s.results.length ≤ R.length :=
    nodup_subset_length h.res_nodup (fun x hx => h.vis_sub x (h.res_sub x hx))
  by_cases hlt : s.results.length < ef
  · have hce : s.cands = [] := by
      cases hc with
      | inl h1 => exact h1
      | inr h1 => omega
    have hall : ∀ x, ReachR (adjRel adj) ep x → x ∈ s.visited := by
      intro x hx
      induction hx with
      | refl => exact h.ep_vis
      | tail _ hs ih => exact h.closed hlt _ ih (by rw [hce]; exact List.not_mem_nil) List.not_mem_nil _ hs
    have hge : R.length ≤ s.results.length :=
      nodup_subset_length hnd (fun x hx => h.full hlt x (hall x ((hR x).mp hx)))
    omega
  · have := h.res_le
    omega

theorem Inv2.loop {adj : Nat → List Nat} {ef : Nat} {R : List Nat} {ep : Nat} (d : Nat → Nat)
    (hR : ∀ x, x ∈ R ↔ ReachR (adjRel adj) ep x) (hnd : R.Nodup) (fuel : Nat) {s : St}
    (h : Inv2 adj ef R ep [] s) (hmu : mu R s ≤ fuel) :
    (searchLoop adj d ef fuel s).results.length = min ef R.length := by
  induction fuel generalizing s with
  | zero =>
    simp only [searchLoop]
    refine h.final hR hnd (Or.inl ?_)
    have : s.cands.length = 0 := by simp only [mu] at hmu; omega
    exact List.eq_nil_of_length_eq_zero this
  | succ f ih =>
    simp only [searchLoop]
    split
    · rename_i hc
      exact h.final hR hnd (Or.inl (minOf_none hc))
    · rename_i c hc
      have hcm : c ∈ s.cands := minOf_mem hc
      have hcv : c ∈ s.visited := h.cand_sub c hcm
      split
      · rename_i hstop
        have hge : ef ≤ s.results.length := by
          unfold stopNow at hstop
          split at hstop
          · cases hstop
          · simp only [Bool.and_eq_true, decide_eq_true_eq] at hstop
            exact hstop.2
        have h1 : Inv2 adj ef R ep [] { s with cands := s.cands.erase c } :=
          ⟨h.res_nodup, h.vis_nodup, h.res_sub, fun x hx => h.cand_sub x (List.mem_of_mem_erase hx),
            h.vis_sub, h.ep_vis, h.res_le, h.full,
            fun hlt => by have hlt' : s.results.length < ef := hlt; omega⟩
        exact h1.final hR hnd (Or.inr hge)
      · have h1 : Inv2 adj ef R ep [c] { s with cands := s.cands.erase c } := by
          refine ⟨h.res_nodup, h.vis_nodup, h.res_sub,
            fun x hx => h.cand_sub x (List.mem_of_mem_erase hx), h.vis_sub, h.ep_vis, h.res_le,
            h.full, ?_⟩
          intro hlt x hx hxc hxp y hy
          have hxne : x ≠ c := fun h2 => hxp (h2 ▸ List.mem_cons_self)
          have hxc' : x ∉ s.cands := fun h2 => hxc ((List.mem_erase_of_ne hxne).mpr h2)
          exact h.closed hlt x hx hxc' List.not_mem_nil y hy
        have hadj : ∀ n ∈ adj c, n ∈ R := fun n hn =>
          (hR n).mpr (ReachR.tail ((hR c).mp (h.vis_sub c hcv)) hn)
        obtain ⟨h2, _, hn2, hmu2⟩ := h1.fold d (adj c) hadj
        have h3 : Inv2 adj ef R ep [] ((adj c).foldl (visitNbr d ef) { s with cands := s.cands.erase c }) := by
          refine ⟨h2.res_nodup, h2.vis_nodup, h2.res_sub, h2.cand_sub, h2.vis_sub, h2.ep_vis,
            h2.res_le, h2.full, ?_⟩
          intro hlt x hx hxc _ y hy
          by_cases hxe : x = c
          · subst hxe; exact hn2 y hy
          · exact h2.closed hlt x hx hxc (fun h4 => hxe (List.mem_singleton.mp h4)) y hy
        refine ih h3 ?_
        have hm1 : mu R { s with cands := s.cands.erase c } + 1 ≤ mu R s := by
          simp only [mu]
          rw [List.length_erase_of_mem hcm]
          have := List.length_pos_of_mem hcm
          omega
        omega

theorem Inv2.init (adj : Nat → List Nat) {ef : Nat} (hef : 1 ≤ ef) {R : List Nat} (ep : Nat)
    (hR : ∀ x, x ∈ R ↔ ReachR (adjRel adj) ep x) : Inv2 adj ef R ep [] (initSt ep) := by
  have hep : ep ∈ R := (hR ep).mpr (ReachR.refl _)
  refine ⟨by simp [initSt], by simp [initSt], ?_, ?_, ?_, by simp [initSt], by simp [initSt]; exact hef,
    ?_, ?_⟩ <;> simp only [initSt, List.mem_singleton, List.length_singleton]
  · intro x hx; exact hx
  · intro x hx; exact hx
  · intro x hx; rw [hx]; exact hep
  · intro _ x hx; exact hx
  · intro _ x hx hxc; exact absurd hx hxc

/-- `search_layer` returns exactly `min ef |R|` nodes, `R` = the nodes reachable from `ep` on the layer -/
theorem searchLayer_length (adj : Nat → List Nat) (d : Nat → Nat) (ef fuel ep : Nat) (R : List Nat)
    (hef : 1 ≤ ef) (hR : ∀ x, x ∈ R ↔ ReachR (adjRel adj) ep x) (hnd : R.Nodup)
    (hfuel : R.length ≤ fuel) : (searchLayer adj d ef fuel ep).length = min ef R.length := by
  unfold searchLayer
  rw [(sortBy_perm d _).length_eq]
  refine Inv2.loop d hR hnd fuel (Inv2.init adj hef ep hR) ?_
  have hep : ep ∈ R := (hR ep).mpr (ReachR.refl _)
  have := List.length_pos_of_mem hep
  simp only [mu, initSt, List.length_singleton]
  omega

/-- **C18 (as many as there are).** With enough fuel for the loop to finish (`|R|` iterations), the
search returns exactly `min k |R|` neighbours, where `R` is the set of nodes that can be reached on
layer 0 from the node the greedy descent ends on — `k` of them whenever that many can be reached
(the code searches with `max ef k`, so no `ef ≥ k` hypothesis is needed). -/
theorem c18_search_returns_k_when_reachable (G : Graph) (d : Nat → Nat) (k ef fuel e : Nat)
    (R : List Nat) (he : G.entry = some e) (hne : G.nodes ≠ [])
    (hR : ∀ x, x ∈ R ↔
      ReachR (adjRel fun a => G.nbrs a 0) (descend G d fuel G.maxLevel e) x)
    (hnd : R.Nodup) (hfuel : R.length ≤ fuel) :
    (searchWithEf G d k ef fuel).length = min k R.length := by
  unfold searchWithEf
  have hn : G.nodes.isEmpty = false := by
    cases hg : G.nodes with
    | nil => exact absurd hg hne
    | cons a l => rfl
  simp only [he, hn, Bool.false_eq_true, if_false, List.length_map, List.length_take]
  by_cases hk : k = 0
  · subst hk; simp
  · rw [searchLayer_length _ d (max ef k) fuel _ R (by omega) hR hnd hfuel]
    omega

/-! ## C18: brute force and batch -/

/-- **C18 (brute force is exact).** `brute_force_knn` returns a sorted list of `min k n` pairs of
the input, and nothing it leaves out is closer than anything it returns. -/
theorem c18_brute_force_exact (k : Nat) (xs : List (Nat × Nat)) :
    (bruteForceKnn k xs).Pairwise (fun a b => a.2 ≤ b.2) ∧
    (bruteForceKnn k xs).length = min k xs.length ∧
    ∃ rest, (bruteForceKnn k xs ++ rest).Perm xs ∧
      ∀ a ∈ bruteForceKnn k xs, ∀ b ∈ rest, a.2 ≤ b.2 := by
  unfold bruteForceKnn
  have hs := sortBy_sorted (fun p : Nat × Nat => p.2) xs
  have hp := sortBy_perm (fun p : Nat × Nat => p.2) xs
  refine ⟨List.Pairwise.sublist (List.take_sublist _ _) hs, ?_, ?_⟩
  · rw [List.length_take, hp.length_eq]
  · refine ⟨(sortBy (fun p : Nat × Nat => p.2) xs).drop k, ?_, ?_⟩
    · rw [List.take_append_drop]; exact hp
    · have h2 := hs
      rw [← List.take_append_drop k (sortBy (fun p : Nat × Nat => p.2) xs)] at h2
      exact (List.pairwise_append.mp h2).2.2

/-- **C18 (batch = singles).** -/
theorem c18_batch_eq_singles (G : Graph) (ds : List (Nat → Nat)) (k ef fuel : Nat) :
    batchSearch G ds k ef fuel = ds.map (fun d => searchWithEf G d k ef fuel) ∧
    (batchSearch G ds k ef fuel).length = ds.length ∧
    ∀ (i : Nat) (h : i < ds.length),
      (batchSearch G ds k ef fuel)[i]? = some (searchWithEf G ds[i] k ef fuel) := by
  refine ⟨rfl, by simp [batchSearch], ?_⟩
  intro i h
  simp [batchSearch, h]

/-! ## the executable specification used by the driver (`checkSound`) -/

theorem nodupB_iff (l : List Nat) : nodupB l = true ↔ l.Nodup := by
  induction l with
  | nil => simp [nodupB]
  | cons x xs ih =>
    simp only [nodupB, Bool.and_eq_true, Bool.not_eq_true', List.nodup_cons, ih]
    constructor
    · intro h; exact ⟨by simpa using h.1, h.2⟩
    · intro h; exact ⟨by simpa using h.1, h.2⟩

theorem sortedByKey_iff (r : List (Nat × Nat)) :
    sortedByKey r = true ↔ r.Pairwise (fun a b => a.2 ≤ b.2) := by
  induction r with
  | nil => simp [sortedByKey]
  | cons a r ih =>
    cases r with
    | nil => simp [sortedByKey]
    | cons b rest =>
      simp only [sortedByKey, Bool.and_eq_true, decide_eq_true_eq, ih]
      constructor
      · intro h
        refine List.pairwise_cons.mpr ⟨?_, h.2⟩
        intro c hc
        cases List.mem_cons.mp hc with
        | inl h1 => rw [h1]; exact h.1
        | inr h1 => exact Nat.le_trans h.1 ((List.pairwise_cons.mp h.2).1 c h1)
      · intro h
        have h1 := List.pairwise_cons.mp h
        exact ⟨h1.1 b List.mem_cons_self, h1.2⟩

/-- the verdict `sound` means exactly the five clauses of the specification -/
theorem checkSound_iff (nodes : List Nat) (d : Nat → Nat) (k : Nat) (r : List (Nat × Nat)) :
    checkSound nodes d k r = "sound" ↔
      (r.length ≤ k ∧ (r.map (·.1)).Nodup ∧ (∀ p ∈ r, p.1 ∈ nodes) ∧ (∀ p ∈ r, p.2 = d p.1) ∧
        r.Pairwise (fun a b => a.2 ≤ b.2)) := by
  unfold checkSound
  by_cases h1 : k < r.length
  · simp only [h1, if_true]
    constructor
    · intro h; exact absurd h (by decide)
    · intro h; omega
  · simp only [h1, if_false]
    by_cases h2 : nodupB (r.map (·.1)) = true
    · simp only [h2, Bool.not_true, Bool.false_eq_true, if_false]
      by_cases h3 : (r.all fun p => nodes.contains p.1) = true
      · simp only [h3, Bool.not_true, Bool.false_eq_true, if_false]
        by_cases h4 : (r.all fun p => p.2 == d p.1) = true
        · simp only [h4, Bool.not_true, Bool.false_eq_true, if_false]
          by_cases h5 : sortedByKey r = true
          · simp only [h5, Bool.not_true, Bool.false_eq_true, if_false, true_iff]
            refine ⟨by omega, (nodupB_iff _).mp h2, ?_, ?_, (sortedByKey_iff r).mp h5⟩
            · intro p hp
              have := List.all_eq_true.mp h3 p hp
              simpa using this
            · intro p hp
              have := List.all_eq_true.mp h4 p hp
              simpa using this
          · simp only [h5, Bool.not_false, if_true]
            constructor
            · intro h; exact absurd h (by decide)
            · intro h; exact absurd ((sortedByKey_iff r).mpr h.2.2.2.2) h5
        · simp only [h4, Bool.not_false, if_true]
          constructor
          · intro h; exact absurd h (by decide)
          · intro h
            refine absurd (List.all_eq_true.mpr ?_) h4
            intro p hp
            simpa using h.2.2.2.1 p hp
      · simp only [h3, Bool.not_false, if_true]
        constructor
        · intro h; exact absurd h (by decide)
        · intro h
          refine absurd (List.all_eq_true.mpr ?_) h3
          intro p hp
          simpa using h.2.2.1 p hp
    · simp only [h2, Bool.not_false, if_true]
      constructor
      · intro h; exact absurd h (by decide)
      · intro h; exact absurd ((nodupB_iff _).mpr h.2.1) h2

/-- what the driver prints as `spec` for a `search` line: on a closed dump the model's own result
always passes the executable specification -/
theorem c18_model_passes_check (G : Graph) (hc : G.Closed) (d : Nat → Nat) (k ef fuel : Nat) :
    checkSound G.nodes d k (searchWithEf G d k ef fuel) = "sound" := by
  have h := c18_search_sound G d k ef fuel
  exact (checkSound_iff _ _ _ _).mpr
    ⟨h.2.2.1, h.2.1, c18_search_in_index G hc d k ef fuel, h.2.2.2.2, h.2.2.2.1⟩

/-! ## witnesses (non-vacuity, and what the theorems do NOT promise) -/

/-- a 4-node, 2-layer index: 1 – 2 – 3 – 4 on layer 0, 1 – 3 on layer 1; entry 1 -/
def demoGraph : Graph :=
  { nodes := [1, 2, 3, 4]
    nbrs := fun i l =>
      if l = 0 then (if i = 1 then [2] else if i = 2 then [1, 3] else if i = 3 then [2, 4] else if i = 4 then [3] else [])
      else if l = 1 then (if i = 1 then [3] else if i = 3 then [1] else [])
      else []
    entry := some 1
    maxLevel := 1 }

/-- distances 40, 30, 20, 10 to nodes 1, 2, 3, 4 -/
def demoDist (i : Nat) : Nat := 50 - 10 * i

/-- non-vacuity: the hypotheses of the theorems are satisfiable and the search does find the two
nearest of four nodes (descent 1 → 3 on layer 1, beam on layer 0) -/
theorem c18_witness_search :
    demoGraph.Closed ∧ searchWithEf demoGraph demoDist 2 1 10 = [(4, 10), (3, 20)] ∧
    searchWithEf demoGraph demoDist 9 0 10 = [(4, 10), (3, 20), (2, 30), (1, 40)] := by
  refine ⟨⟨?_, ?_⟩, by decide, by decide⟩
  · intro e he
    simp only [demoGraph, Option.some.injEq] at he
    subst he; simp [demoGraph]
  · intro a l b hb
    simp only [demoGraph] at hb ⊢
    repeat' split at hb
    all_goals simp at hb
    all_goals (first | (subst hb; simp) | (rcases hb with rfl | rfl <;> simp))

/-- the search is approximate by design: a node that no link leads to is never returned, however
close it is (this is why `c18_search_returns_k_when_reachable` counts REACHABLE nodes) -/
theorem c18_witness_unreachable_not_returned :
    let G : Graph := { nodes := [1, 2], nbrs := fun _ _ => [], entry := some 1, maxLevel := 0 }
    let d : Nat → Nat := fun i => if i = 2 then 0 else 9
    G.Closed ∧ searchWithEf G d 2 10 10 = [(1, 9)] := by
  refine ⟨⟨?_, ?_⟩, by decide⟩
  · intro e he; simp only [Option.some.injEq] at he; subst he; simp
  · intro a l b hb; simp at hb

/-- `c18_search_in_index` needs a closed dump: the code (and the model) would hand back a dangling
neighbour id with the distance `f32::MAX` -/
theorem c18_witness_dangling_returned :
    let G : Graph := { nodes := [1], nbrs := fun i l => if i = 1 ∧ l = 0 then [7] else [], entry := some 1, maxLevel := 0 }
    let d : Nat → Nat := fun i => if i = 1 then 5 else 4286578687
    searchWithEf G d 2 2 10 = [(1, 5), (7, 4286578687)] ∧ 7 ∉ G.nodes := by
  exact ⟨by decide, by decide⟩

/-- R (regression example of a repaired defect): the comparator `partial_cmp(..).unwrap_or(Equal)`
that `brute_force_knn` used before commit "fix: brute-force k-NN orders NaN distances last" is not
a total order; modelled as `bruteForceKnnNan`, it answered `k = 1` over the distances 3, NaN, 1 with
the pair at distance 3. With NaN keyed above every number (`cmp_distance`) the exact theorem
`c18_brute_force_exact` applies. -/
theorem c18_regression_bf_nan_old_comparator :
    bruteForceKnnNan 1 [(1, some 3), (2, none), (3, some 1)] = [(1, some 3)] ∧
    bruteForceKnn 1 [(1, 3), (2, 4294967296), (3, 1)] = [(3, 1)] := by
  exact ⟨by decide, by decide⟩

end Grafeo.Hnsw
