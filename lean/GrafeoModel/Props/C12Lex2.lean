import GrafeoModel.Proofs.Lex2Lemmas
import GrafeoModel.Model.Lex2Cypher
import GrafeoModel.Model.Lex2Sparql
import GrafeoModel.Model.Lex2Graphql
import GrafeoModel.Model.Lex2Gremlin

/-!
# C12 — no query text can crash or hang the process: the Cypher, SPARQL, GraphQL and Gremlin lexers

For **every** input (any list of Unicode scalar values) and each lexer `L`:

* `L.c12_boundary`   — every token start and stop of `L.tokenize input` is the UTF-8 length of a
  prefix of the input (a character boundary) with `start ≤ stop ≤ len`: no slice the lexer takes
  (`source[pos..]`, `source[start..pos]`) can panic;
* `L.c12_progress`   — every non-`eof` token is non-empty (`start < stop`), i.e. each call of
  `next_token` consumes at least one character or reports `eof`;
* `L.c12_terminates` — `L.tokenize input` is some non-`eof` tokens followed by exactly one `eof`,
  at most one token per character plus the `eof` (the fuel of the model is never exhausted);
* `L.c12_ordered`    — the spans are in order and disjoint (`Chain`).

All four are instances of `tokenizeWith_ok`, from `L.nextToken_ok : StepOK w L.nextToken`.
-/

namespace Grafeo.Lex2
open Grafeo.Lex

/-- backward chaining on `Mono w c0 (f (g (… c)))` goals: peel one cursor-moving function per step;
side goals `X.rest ≠ []` of the unguarded `advance` are closed from the branch conditions -/
syntax "mono_step" : tactic
syntax "mono_side" : tactic

macro "mono" : tactic =>
  `(tactic| repeat' (first
      | exact Mono.refl _ _
      | assumption
      | apply mono_adv
      | apply mono_skipWhile
      | mono_step
      | mono_side))

/-- `cur c ≠ '\0'` from a branch condition such as `(cur c == '>') = true` -/
macro "cur_nz" : tactic =>
  `(tactic| (apply rest_ne_of_cur; intro h0; simp_all))

macro_rules | `(tactic| mono_side) => `(tactic| cur_nz)

theorem tokOK_utf8 {input : List Char} {t : Tok} (h : TokOK utf8Len input t) :
    (∃ pre suf : List Char, input = pre ++ suf ∧ t.start = utf8Bytes pre) ∧
    (∃ pre suf : List Char, input = pre ++ suf ∧ t.stop = utf8Bytes pre) ∧
    t.start ≤ t.stop ∧ t.stop ≤ utf8Bytes input :=
  ⟨isBoundaryW_utf8 h.1, isBoundaryW_utf8 h.2.1, h.2.2.1, by
    have := h.2.2.2.1; rwa [sumW_utf8] at this⟩

/-! ## Cypher -/
namespace Cypher

theorem mono_advC {c0 c : Cur} (h : Mono utf8Len c0 c) (hne : c.rest ≠ []) :
    Mono utf8Len c0 (advC c) := by
  obtain ⟨rest, p⟩ := c
  cases rest with
  | nil => exact absurd rfl hne
  | cons ch r => exact h.trans (Mono.cons utf8Len ch r p)

macro_rules | `(tactic| mono_step) => `(tactic| apply mono_advC)

theorem skipLine_mono (r : List Char) (n : Nat) : Mono utf8Len ⟨r, n⟩ (skipLine r n) := by
  induction r generalizing n with
  | nil => exact Mono.refl _ _
  | cons ch r ih =>
    simp only [skipLine]
    split
    · exact Mono.refl _ _
    · exact (Mono.cons utf8Len ch r n).trans (ih _)

/-- a line comment entered at a `/` consumes it -/
theorem skipLine_lt (ch : Char) (r : List Char) (n : Nat) (h : ch ≠ '\n') :
    (skipLine (ch :: r) n).rest.length < (ch :: r).length := by
  simp only [skipLine]
  rw [if_neg (by simpa using h)]
  exact (skipLine_mono r _).lt_of_cons

theorem skipBlock_mono (r : List Char) (n : Nat) : Mono utf8Len ⟨r, n⟩ (skipBlock r n) := by
  induction r generalizing n with
  | nil => exact Mono.refl _ _
  | cons ch r ih =>
    simp only [skipBlock]
    split
    · rename_i h
      cases r with
      | nil => simp [peek] at h
      | cons b r' =>
        simp only [advC]
        exact (Mono.cons utf8Len ch _ n).trans (Mono.cons utf8Len b r' _)
    · exact (Mono.cons utf8Len ch r n).trans (ih _)

theorem mono_skipBlock {c0 : Cur} {r : List Char} {n : Nat} (h : Mono utf8Len c0 ⟨r, n⟩) :
    Mono utf8Len c0 (skipBlock r n) := h.trans (skipBlock_mono r n)

/-- every continuing iteration of the whitespace/comment loop consumes at least one character -/
def StepP (c : Cur) (o : Option Cur) : Prop :=
  ∀ c', o = some c' → Mono utf8Len c c' ∧ c'.rest.length < c.rest.length

theorem skipStep_ok' (c : Cur) : StepP c (skipStep c) := by
  obtain ⟨rest, p⟩ := c
  cases rest with
  | nil => intro c' h; simp [skipStep, cur, peek] at h
  | cons ch r =>
    have h1 : StepP ⟨ch :: r, p⟩ (some (advC ⟨ch :: r, p⟩)) := by
      intro c' h; cases h
      exact ⟨Mono.cons utf8Len ch r p, by simp [advC]⟩
    simp only [skipStep, cur]
    refine ite_ind (StepP ⟨ch :: r, p⟩) _ _ _ (fun _ => h1) (fun _ => ?_)
    refine ite_ind (StepP ⟨ch :: r, p⟩) _ _ _ (fun _ => h1) (fun _ => ?_)
    refine ite_ind (StepP ⟨ch :: r, p⟩) _ _ _ (fun hs => ?_) (fun _ => ?_)
    · intro c' h; cases h
      have hne : ch ≠ '\n' := by
        intro e; subst e; simp at hs
      exact ⟨skipLine_mono _ _, skipLine_lt ch r p hne⟩
    refine ite_ind (StepP ⟨ch :: r, p⟩) _ _ _ (fun hs => ?_) (fun _ => ?_)
    · intro c' h; cases h
      have hm : Mono utf8Len ⟨r, p + utf8Len ch⟩
          (skipBlock (advC (advC ⟨ch :: r, p⟩)).rest (advC (advC ⟨ch :: r, p⟩)).pos) := by
        cases r with
        | nil => simp [peek] at hs
        | cons b r' =>
          simp only [advC]
          exact (Mono.cons utf8Len b r' _).trans (skipBlock_mono _ _)
      exact ⟨(Mono.cons utf8Len ch r p).trans hm, hm.lt_of_cons⟩
    · intro c' h; cases h

theorem skipStep_ok (c c' : Cur) (h : skipStep c = some c') :
    Mono utf8Len c c' ∧ c'.rest.length < c.rest.length := skipStep_ok' c c' h

theorem skipWs_mono (c : Cur) : Mono utf8Len c (skipWs c) :=
  iter_mono skipStep (fun c c' h => (skipStep_ok c c' h).1) _ c

/-- **the whitespace/comment loop exits through its `break`**, never by running out of fuel -/
theorem skipWs_done (c : Cur) : skipStep (skipWs c) = none :=
  iter_done skipStep (fun c c' h => (skipStep_ok c c' h).2) _ c (by omega)

theorem scanStringBody_mono (q : Char) (r : List Char) (n : Nat) :
    Mono utf8Len ⟨r, n⟩ (scanStringBody q r n).2 := by
  fun_induction scanStringBody q r n with
  | case1 n => exact Mono.refl _ _
  | case2 ch r n _ => exact Mono.cons utf8Len ch r n
  | case3 ch n _ _ => exact Mono.cons utf8Len ch [] n
  | case4 ch n _ _ e r' ih =>
    exact ((Mono.cons utf8Len ch (e :: r') n).trans (Mono.cons utf8Len e r' _)).trans ih
  | case5 ch r n _ _ ih => exact (Mono.cons utf8Len ch r n).trans ih

theorem scanQuotedBody_mono (r : List Char) (n : Nat) :
    Mono utf8Len ⟨r, n⟩ (scanQuotedBody r n).2 := by
  fun_induction scanQuotedBody r n with
  | case1 n => exact Mono.refl _ _
  | case2 ch r n _ => exact Mono.cons utf8Len ch r n
  | case3 ch r n _ ih => exact (Mono.cons utf8Len ch r n).trans ih

theorem mono_scanExp {c0 c : Cur} (h : Mono utf8Len c0 c)
    (he : (cur c == 'e' || cur c == 'E') = true) : Mono utf8Len c0 (scanExp c) := by
  unfold scanExp
  dsimp only
  split <;> mono

theorem mono_scanNumber {c0 c : Cur} (h : Mono utf8Len c0 c) :
    Mono utf8Len c0 (scanNumber c).2 := by
  unfold scanNumber
  dsimp only
  split
  · split
    · rename_i he; exact mono_scanExp (by mono) he
    · dsimp only; mono
  · split
    · rename_i he; exact mono_scanExp (by mono) he
    · dsimp only; mono

theorem mono_opt1 {c0 c : Cur} (x : Char) (hx : x ≠ '\x00') (h : Mono utf8Len c0 c) :
    Mono utf8Len c0 (opt1 x c).2 := by
  unfold opt1
  split
  · rename_i hc
    have : c.rest ≠ [] := by
      apply rest_ne_of_cur; intro h0; rw [h0] at hc
      have e : '\x00' = x := by simpa using hc
      exact hx e.symm
    exact mono_advC h this
  · exact h

/-- every arm of the `match ch` only moves forward by whole characters -/
theorem mono_scanTok {c0 c : Cur} (ch : Char) (h : Mono utf8Len c0 c) :
    Mono utf8Len c0 (scanTok ch c).2 := by
  have hadv : ∀ x : Char, x ≠ '\x00' → (cur c == x) = true → Mono utf8Len c0 (advC c) := by
    intro x hx hc
    apply mono_advC h
    apply rest_ne_of_cur; intro h0; rw [h0] at hc
    have e : '\x00' = x := by simpa using hc
    exact hx e.symm
  unfold scanTok
  refine ite_ind (fun r : K × Cur => Mono utf8Len c0 r.2) _ _ _ (fun _ => h) (fun _ => ?_)
  refine ite_ind (fun r : K × Cur => Mono utf8Len c0 r.2) _ _ _ (fun _ => mono_opt1 _ (by decide) h) (fun _ => ?_)
  refine ite_ind (fun r : K × Cur => Mono utf8Len c0 r.2) _ _ _ (fun _ => mono_opt1 _ (by decide) h) (fun _ => ?_)
  refine ite_ind (fun r : K × Cur => Mono utf8Len c0 r.2) _ _ _ (fun _ => mono_opt1 _ (by decide) h) (fun _ => ?_)
  refine ite_ind (fun r : K × Cur => Mono utf8Len c0 r.2) _ _ _ (fun _ => ?_) (fun _ => ?_)
  · refine ite_ind (fun r : K × Cur => Mono utf8Len c0 r.2) _ _ _ (hadv _ (by decide)) (fun _ => ?_)
    refine ite_ind (fun r : K × Cur => Mono utf8Len c0 r.2) _ _ _ (hadv _ (by decide)) (fun _ => ?_)
    exact ite_ind (fun r : K × Cur => Mono utf8Len c0 r.2) _ _ _ (hadv _ (by decide)) (fun _ => h)
  refine ite_ind (fun r : K × Cur => Mono utf8Len c0 r.2) _ _ _ (fun _ => mono_opt1 _ (by decide) h) (fun _ => ?_)
  refine ite_ind (fun r : K × Cur => Mono utf8Len c0 r.2) _ _ _ (fun _ => ?_) (fun _ => ?_)
  · refine ite_ind (fun r : K × Cur => Mono utf8Len c0 r.2) _ _ _ (hadv _ (by decide)) (fun _ => ?_)
    exact ite_ind (fun r : K × Cur => Mono utf8Len c0 r.2) _ _ _ (hadv _ (by decide)) (fun _ => h)
  refine ite_ind (fun r : K × Cur => Mono utf8Len c0 r.2) _ _ _
    (fun _ => h.trans (scanStringBody_mono _ _ _)) (fun _ => ?_)
  refine ite_ind (fun r : K × Cur => Mono utf8Len c0 r.2) _ _ _
    (fun _ => h.trans (scanQuotedBody_mono _ _)) (fun _ => ?_)
  refine ite_ind (fun r : K × Cur => Mono utf8Len c0 r.2) _ _ _ (fun _ => mono_scanNumber h) (fun _ => ?_)
  exact ite_ind (fun r : K × Cur => Mono utf8Len c0 r.2) _ _ _ (fun _ => mono_skipWhile h) (fun _ => h)

/-- one call of `next_token` -/
theorem nextToken_ok : StepOK utf8Len nextToken := by
  intro c
  refine ⟨skipWs c, skipWs_mono c, ?_⟩
  unfold nextToken
  dsimp only
  generalize hc : skipWs c = cs
  obtain ⟨rest, p⟩ := cs
  cases rest with
  | nil => exact ⟨rfl, rfl, Mono.refl _ _, fun h => absurd rfl h⟩
  | cons ch r =>
    have hm : Mono utf8Len ⟨r, p + utf8Len ch⟩ (scanTok ch (advC ⟨ch :: r, p⟩)).2 :=
      mono_scanTok ch (Mono.refl _ _)
    exact ⟨rfl, rfl, (Mono.cons utf8Len ch r p).trans hm, fun _ => hm.lt_of_cons⟩

theorem c12_all (input : List Char) :
    (∀ t ∈ tokenize input, TokOK utf8Len input t) ∧ Chain 0 (tokenize input) ∧
    (∃ ts t, tokenize input = ts ++ [t] ∧ t.k = .eof ∧ (∀ u ∈ ts, u.k ≠ .eof)) ∧
    (tokenize input).length ≤ input.length + 1 :=
  tokenizeWith_ok utf8Len_pos nextToken_ok input

end Cypher

/-! ## SPARQL -/
namespace Sparql

theorem skipLine_mono (r : List Char) (n : Nat) : Mono utf8Len ⟨r, n⟩ (skipLine r n) := by
  induction r generalizing n with
  | nil => exact Mono.refl _ _
  | cons ch r ih =>
    simp only [skipLine]
    exact ite_ind (Mono utf8Len ⟨ch :: r, n⟩) _ _ _ (fun _ => Mono.refl _ _)
      (fun _ => (Mono.cons utf8Len ch r n).trans (ih _))

theorem skipLine_lt (ch : Char) (r : List Char) (n : Nat) (h : ch ≠ '\n') :
    (skipLine (ch :: r) n).rest.length < (ch :: r).length := by
  simp only [skipLine]
  rw [if_neg (by simpa using h)]
  exact (skipLine_mono r _).lt_of_cons

/-- every continuing iteration of the whitespace/comment loop consumes at least one character -/
theorem skipStep_ok (c c' : Cur) (h : skipStep c = some c') :
    Mono utf8Len c c' ∧ c'.rest.length < c.rest.length := by
  obtain ⟨rest, p⟩ := c
  cases rest with
  | nil => simp [skipStep] at h
  | cons ch r =>
    simp only [skipStep] at h
    by_cases hw : isWs ch = true
    · rw [if_pos hw] at h; cases h
      exact ⟨Mono.cons utf8Len ch r p, by simp⟩
    · rw [if_neg hw] at h
      by_cases hh : (ch == '#') = true
      · rw [if_pos hh] at h; cases h
        have hne : ch ≠ '\n' := by intro e; subst e; simp at hh
        exact ⟨skipLine_mono _ _, skipLine_lt ch r p hne⟩
      · rw [if_neg hh] at h; cases h

theorem skipWs_mono (c : Cur) : Mono utf8Len c (skipWs c) :=
  iter_mono skipStep (fun c c' h => (skipStep_ok c c' h).1) _ c

/-- **the whitespace/comment loop exits through its `break`**, never by running out of fuel -/
theorem skipWs_done (c : Cur) : skipStep (skipWs c) = none :=
  iter_done skipStep (fun c c' h => (skipStep_ok c c' h).2) _ c (by omega)

theorem scanIriBody_mono (r : List Char) (n : Nat) :
    Mono utf8Len ⟨r, n⟩ (scanIriBody r n).2 := by
  fun_induction scanIriBody r n with
  | case1 n => exact Mono.refl _ _
  | case2 ch r n _ => exact Mono.cons utf8Len ch r n
  | case3 ch n _ _ => exact Mono.cons utf8Len ch [] n
  | case4 ch n _ _ e r' ih =>
    exact ((Mono.cons utf8Len ch (e :: r') n).trans (Mono.cons utf8Len e r' _)).trans ih
  | case5 ch r n _ _ _ => exact Mono.refl _ _
  | case6 ch r n _ _ _ ih => exact (Mono.cons utf8Len ch r n).trans ih

theorem scanShortBody_mono (q : Char) (r : List Char) (n : Nat) :
    Mono utf8Len ⟨r, n⟩ (scanShortBody q r n).2 := by
  fun_induction scanShortBody q r n with
  | case1 n => exact Mono.refl _ _
  | case2 ch r n _ => exact Mono.cons utf8Len ch r n
  | case3 ch n _ _ => exact Mono.cons utf8Len ch [] n
  | case4 ch n _ _ e r' ih =>
    exact ((Mono.cons utf8Len ch (e :: r') n).trans (Mono.cons utf8Len e r' _)).trans ih
  | case5 ch r n _ _ _ => exact Mono.refl _ _
  | case6 ch r n _ _ _ ih => exact (Mono.cons utf8Len ch r n).trans ih

theorem scanLongBody_mono (q : Char) (k : Nat) (r : List Char) (n : Nat) :
    Mono utf8Len ⟨r, n⟩ (scanLongBody q k r n).2 := by
  fun_induction scanLongBody q k r n with
  | case1 k n => exact Mono.refl _ _
  | case2 k ch r n _ _ => exact Mono.cons utf8Len ch r n
  | case3 k ch r n _ _ ih => exact (Mono.cons utf8Len ch r n).trans ih
  | case4 k ch n _ _ => exact Mono.cons utf8Len ch [] n
  | case5 k ch n _ _ e r' ih =>
    exact ((Mono.cons utf8Len ch (e :: r') n).trans (Mono.cons utf8Len e r' _)).trans ih
  | case6 k ch r n _ _ ih => exact (Mono.cons utf8Len ch r n).trans ih

theorem mono_scanString {c0 c : Cur} (h : Mono utf8Len c0 (adv c)) :
    Mono utf8Len c0 (scanString c).2 := by
  unfold scanString
  exact ite_ind (fun r : K × Cur => Mono utf8Len c0 r.2) _ _ _
    (fun _ => (mono_adv (mono_adv h)).trans (scanLongBody_mono _ _ _ _))
    (fun _ => h.trans (scanShortBody_mono _ _ _))

theorem scanNum_mono (a b : Bool) (r : List Char) (n : Nat) :
    Mono utf8Len ⟨r, n⟩ (scanNum a b r n).2 := by
  fun_induction scanNum a b r n with
  | case1 a b n => exact Mono.refl _ _
  | case2 a b ch r n _ ih => exact (Mono.cons utf8Len ch r n).trans ih
  | case3 a b ch n _ _ => exact Mono.refl _ _
  | case4 a b ch n _ _ d t _ ih => exact (Mono.cons utf8Len ch _ n).trans ih
  | case5 a b ch n _ _ d t _ => exact Mono.refl _ _
  | case6 a b ch n _ _ _ => exact Mono.cons utf8Len ch [] n
  | case7 a b ch n _ _ _ s r' _ ih =>
    exact ((Mono.cons utf8Len ch (s :: r') n).trans (Mono.cons utf8Len s r' _)).trans ih
  | case8 a b ch n _ _ _ s r' _ ih => exact (Mono.cons utf8Len ch _ n).trans ih
  | case9 a b ch r n _ _ _ => exact Mono.refl _ _

/-- entered at a digit, `scan_number` consumes it -/
theorem scanNumber_mono (ch : Char) (r : List Char) (n : Nat) (h : isDigit ch = true) :
    Mono utf8Len ⟨r, n + utf8Len ch⟩ (scanNumber ⟨ch :: r, n⟩).2 := by
  have e : scanNum false false (ch :: r) n = scanNum false false r (n + utf8Len ch) := by
    rw [scanNum.eq_def]; simp only [h, if_true]
  simp only [scanNumber, e]
  exact scanNum_mono _ _ _ _

theorem scanLocal_mono (r : List Char) (n : Nat) : Mono utf8Len ⟨r, n⟩ (scanLocal r n) := by
  fun_induction scanLocal r n with
  | case1 n => exact Mono.refl _ _
  | case2 ch r n _ _ => exact Mono.refl _ _
  | case3 ch r n _ _ ih => exact (Mono.cons utf8Len ch r n).trans ih
  | case4 ch r n _ => exact Mono.refl _ _

theorem mono_scanIdentKw {c0 : Cur} {r : List Char} {n : Nat} (h : Mono utf8Len c0 ⟨r, n⟩) :
    Mono utf8Len c0 (scanIdentKw ⟨r, n⟩).2 := by
  unfold scanIdentKw
  exact ite_ind (fun r : K × Cur => Mono utf8Len c0 r.2) _ _ _
    (fun _ => (mono_adv (mono_skipWhile h)).trans (scanLocal_mono _ _))
    (fun _ => mono_skipWhile h)

/-- entered at a name character, `scan_identifier_or_keyword` consumes it -/
theorem scanIdentKw_mono (ch : Char) (r : List Char) (n : Nat) (h : isPnameChar ch = true) :
    Mono utf8Len ⟨r, n + utf8Len ch⟩ (scanIdentKw ⟨ch :: r, n⟩).2 := by
  have e : scanIdentKw ⟨ch :: r, n⟩ = scanIdentKw ⟨r, n + utf8Len ch⟩ := by
    simp only [scanIdentKw, skipWhile, h, if_true]
  rw [e]
  exact mono_scanIdentKw (Mono.refl _ _)

theorem mono_opt1 {c0 c : Cur} (x : Char) (h : Mono utf8Len c0 c) :
    Mono utf8Len c0 (opt1 x c).2 := by
  unfold opt1
  exact ite_ind (fun r : K × Cur => Mono utf8Len c0 r.2) _ _ _ (fun _ => mono_adv h) (fun _ => h)

theorem pnameStart_char (ch : Char) (h : isPnameStart ch = true) : isPnameChar ch = true := by
  simp only [isPnameStart, isPnameChar, isAlnum, Bool.or_eq_true] at h ⊢
  rcases h with (h | h) | h
  · exact Or.inl (Or.inl (Or.inl (Or.inl h)))
  · exact Or.inl (Or.inl (Or.inr h))
  · exact Or.inr h

/-- every arm of the `match ch` consumes `ch` and then only moves forward by whole characters -/
theorem scanTok_mono (ch : Char) (r : List Char) (n : Nat) :
    Mono utf8Len ⟨r, n + utf8Len ch⟩ (scanTok ch ⟨ch :: r, n⟩).2 := by
  have hc1 : adv ⟨ch :: r, n⟩ = ⟨r, n + utf8Len ch⟩ := rfl
  have h : Mono utf8Len ⟨r, n + utf8Len ch⟩ ⟨r, n + utf8Len ch⟩ := Mono.refl _ _
  unfold scanTok
  simp only [hc1]
  refine ite_ind (fun r : K × Cur => Mono utf8Len _ r.2) _ _ _ (fun _ => h) (fun _ => ?_)
  refine ite_ind (fun r : K × Cur => Mono utf8Len _ r.2) _ _ _ (fun _ => mono_opt1 _ h) (fun _ => ?_)
  refine ite_ind (fun r : K × Cur => Mono utf8Len _ r.2) _ _ _ (fun _ => ?_) (fun _ => ?_)
  · exact ite_ind (fun r : K × Cur => Mono utf8Len _ r.2) _ _ _
      (fun _ => scanLocal_mono _ _) (fun _ => h)
  refine ite_ind (fun r : K × Cur => Mono utf8Len _ r.2) _ _ _ (fun _ => mono_opt1 _ h) (fun _ => ?_)
  refine ite_ind (fun r : K × Cur => Mono utf8Len _ r.2) _ _ _ (fun _ => ?_) (fun _ => ?_)
  · refine ite_ind (fun r : K × Cur => Mono utf8Len _ r.2) _ _ _ (fun _ => mono_adv h) (fun _ => ?_)
    exact ite_ind (fun r : K × Cur => Mono utf8Len _ r.2) _ _ _
      (fun _ => scanIriBody_mono _ _) (fun _ => h)
  refine ite_ind (fun r : K × Cur => Mono utf8Len _ r.2) _ _ _ (fun _ => mono_opt1 _ h) (fun _ => ?_)
  refine ite_ind (fun r : K × Cur => Mono utf8Len _ r.2) _ _ _ (fun _ => ?_) (fun _ => ?_)
  · exact ite_ind (fun r : K × Cur => Mono utf8Len _ r.2) _ _ _ (fun _ => mono_adv h) (fun _ => h)
  refine ite_ind (fun r : K × Cur => Mono utf8Len _ r.2) _ _ _ (fun _ => mono_opt1 _ h) (fun _ => ?_)
  refine ite_ind (fun r : K × Cur => Mono utf8Len _ r.2) _ _ _ (fun _ => mono_opt1 _ h) (fun _ => ?_)
  refine ite_ind (fun r : K × Cur => Mono utf8Len _ r.2) _ _ _ (fun _ => ?_) (fun _ => ?_)
  · exact ite_ind (fun r : K × Cur => Mono utf8Len _ r.2) _ _ _
      (fun _ => skipWhile_mono _ _ _) (fun _ => h)
  refine ite_ind (fun r : K × Cur => Mono utf8Len _ r.2) _ _ _
    (fun _ => skipWhile_mono _ _ _) (fun _ => ?_)
  refine ite_ind (fun r : K × Cur => Mono utf8Len _ r.2) _ _ _ (fun hu => ?_) (fun _ => ?_)
  · have hu' : ch = '_' := by simpa using hu
    exact ite_ind (fun r : K × Cur => Mono utf8Len _ r.2) _ _ _
      (fun _ => mono_skipWhile (mono_adv h))
      (fun _ => scanIdentKw_mono ch r n (by subst hu'; decide))
  refine ite_ind (fun r : K × Cur => Mono utf8Len _ r.2) _ _ _
    (fun _ => mono_scanString (by rw [hc1]; exact h)) (fun _ => ?_)
  refine ite_ind (fun r : K × Cur => Mono utf8Len _ r.2) _ _ _
    (fun hd => scanNumber_mono ch r n hd) (fun _ => ?_)
  exact ite_ind (fun r : K × Cur => Mono utf8Len _ r.2) _ _ _
    (fun hp => scanIdentKw_mono ch r n (pnameStart_char ch hp)) (fun _ => h)

/-- one call of `next_token` -/
theorem nextToken_ok : StepOK utf8Len nextToken := by
  intro c
  refine ⟨skipWs c, skipWs_mono c, ?_⟩
  unfold nextToken
  dsimp only
  generalize hc : skipWs c = cs
  obtain ⟨rest, p⟩ := cs
  cases rest with
  | nil => exact ⟨rfl, rfl, Mono.refl _ _, fun h => absurd rfl h⟩
  | cons ch r =>
    have hm := scanTok_mono ch r p
    exact ⟨rfl, rfl, (Mono.cons utf8Len ch r p).trans hm, fun _ => hm.lt_of_cons⟩

theorem c12_all (input : List Char) :
    (∀ t ∈ tokenize input, TokOK utf8Len input t) ∧ Chain 0 (tokenize input) ∧
    (∃ ts t, tokenize input = ts ++ [t] ∧ t.k = .eof ∧ (∀ u ∈ ts, u.k ≠ .eof)) ∧
    (tokenize input).length ≤ input.length + 1 :=
  tokenizeWith_ok utf8Len_pos nextToken_ok input

end Sparql


namespace Cypher

/-- **C12, boundary.**  Every token of every input starts and stops on a character boundary of that
input (the UTF-8 length of a prefix), with `start ≤ stop ≤ len`: no slice the lexer takes can panic. -/
theorem c12_boundary (input : List Char) : ∀ t ∈ tokenize input,
    (∃ pre suf : List Char, input = pre ++ suf ∧ t.start = utf8Bytes pre) ∧
    (∃ pre suf : List Char, input = pre ++ suf ∧ t.stop = utf8Bytes pre) ∧
    t.start ≤ t.stop ∧ t.stop ≤ utf8Bytes input :=
  fun t ht => tokOK_utf8 ((c12_all input).1 t ht)

/-- **C12, progress.**  Every non-`eof` token consumes at least one byte. -/
theorem c12_progress (input : List Char) : ∀ t ∈ tokenize input, t.k ≠ .eof → t.start < t.stop :=
  fun t ht => ((c12_all input).1 t ht).2.2.2.2

/-- **C12, termination.**  The fuel (number of characters + 1) is never exhausted: the result is
some non-`eof` tokens followed by exactly one `eof`, at most one token per character plus one. -/
theorem c12_terminates (input : List Char) :
    (∃ ts t, tokenize input = ts ++ [t] ∧ t.k = .eof ∧ (∀ u ∈ ts, u.k ≠ .eof)) ∧
    (tokenize input).length ≤ input.length + 1 :=
  ⟨(c12_all input).2.2.1, (c12_all input).2.2.2⟩

/-- **C12, ordered spans.**  Token spans are in source order and do not overlap. -/
theorem c12_ordered (input : List Char) : Chain 0 (tokenize input) := (c12_all input).2.1

theorem c12_nonvacuity :
    tokenize ['1', '.', '5', 'e', '3', ' ', 'é', '/', '*', 'x', '*', '/', '\'', 's'] =
      [⟨.flt, 0, 5⟩, ⟨.error, 6, 8⟩, ⟨.error, 13, 15⟩, ⟨.eof, 15, 15⟩] := by decide

end Cypher

namespace Sparql

/-- **C12, boundary.**  Every token of every input starts and stops on a character boundary of that
input (the UTF-8 length of a prefix), with `start ≤ stop ≤ len`: no slice the lexer takes can panic. -/
theorem c12_boundary (input : List Char) : ∀ t ∈ tokenize input,
    (∃ pre suf : List Char, input = pre ++ suf ∧ t.start = utf8Bytes pre) ∧
    (∃ pre suf : List Char, input = pre ++ suf ∧ t.stop = utf8Bytes pre) ∧
    t.start ≤ t.stop ∧ t.stop ≤ utf8Bytes input :=
  fun t ht => tokOK_utf8 ((c12_all input).1 t ht)

/-- **C12, progress.**  Every non-`eof` token consumes at least one byte. -/
theorem c12_progress (input : List Char) : ∀ t ∈ tokenize input, t.k ≠ .eof → t.start < t.stop :=
  fun t ht => ((c12_all input).1 t ht).2.2.2.2

/-- **C12, termination.**  The fuel (number of characters + 1) is never exhausted: the result is
some non-`eof` tokens followed by exactly one `eof`, at most one token per character plus one. -/
theorem c12_terminates (input : List Char) :
    (∃ ts t, tokenize input = ts ++ [t] ∧ t.k = .eof ∧ (∀ u ∈ ts, u.k ≠ .eof)) ∧
    (tokenize input).length ≤ input.length + 1 :=
  ⟨(c12_all input).2.2.1, (c12_all input).2.2.2⟩

/-- **C12, ordered spans.**  Token spans are in source order and do not overlap. -/
theorem c12_ordered (input : List Char) : Chain 0 (tokenize input) := (c12_all input).2.1

theorem c12_nonvacuity :
    tokenize ['?', 'x', ' ', '<', 'é', '>', ' ', '"', 'a', '"', ' ', '1', '.', '5'] =
      [⟨.var, 0, 2⟩, ⟨.iri, 3, 7⟩, ⟨.str, 8, 11⟩, ⟨.dec, 12, 15⟩, ⟨.eof, 15, 15⟩] := by decide

end Sparql

/-! ## GraphQL -/
namespace Graphql

theorem skipLine_mono (r : List Char) (n : Nat) : Mono utf8Len ⟨r, n⟩ (skipLine r n) := by
  induction r generalizing n with
  | nil => exact Mono.refl _ _
  | cons ch r ih =>
    simp only [skipLine]
    exact ite_ind (Mono utf8Len ⟨ch :: r, n⟩) _ _ _ (fun _ => Mono.refl _ _)
      (fun _ => (Mono.cons utf8Len ch r n).trans (ih _))

/-- every continuing iteration of the whitespace/comment loop consumes at least one character -/
theorem skipStep_ok (c c' : Cur) (h : skipStep c = some c') :
    Mono utf8Len c c' ∧ c'.rest.length < c.rest.length := by
  obtain ⟨rest, p⟩ := c
  cases rest with
  | nil => simp [skipStep] at h
  | cons ch r =>
    have h1 : Mono utf8Len ⟨ch :: r, p⟩ ⟨r, p + utf8Len ch⟩ ∧
        (⟨r, p + utf8Len ch⟩ : Cur).rest.length < (⟨ch :: r, p⟩ : Cur).rest.length :=
      ⟨Mono.cons utf8Len ch r p, by simp⟩
    simp only [skipStep] at h
    by_cases hw : (isWs ch || ch == ',') = true
    · rw [if_pos hw] at h; cases h; exact h1
    · rw [if_neg hw] at h
      by_cases hh : (ch == '#') = true
      · rw [if_pos hh] at h; cases h
        have e : ch = '#' := by simpa using hh
        subst e
        have e2 : skipLine ('#' :: r) p = skipLine r (p + utf8Len '#') := by
          simp [skipLine]
        rw [e2]
        have hm := skipLine_mono r (p + utf8Len '#')
        exact ⟨(Mono.cons utf8Len '#' r p).trans hm, hm.lt_of_cons⟩
      · rw [if_neg hh] at h
        by_cases hb : (ch == Char.ofNat 0xFEFF) = true
        · rw [if_pos hb] at h; cases h; exact h1
        · rw [if_neg hb] at h; cases h

theorem skipWs_mono (c : Cur) : Mono utf8Len c (skipWs c) :=
  iter_mono skipStep (fun c c' h => (skipStep_ok c c' h).1) _ c

/-- **the whitespace/comment loop exits through its `break`**, never by running out of fuel -/
theorem skipWs_done (c : Cur) : skipStep (skipWs c) = none :=
  iter_done skipStep (fun c c' h => (skipStep_ok c c' h).2) _ c (by omega)

theorem readStr_mono (k : Nat) (r : List Char) (n : Nat) :
    Mono utf8Len ⟨r, n⟩ (readStr k r n) := by
  fun_induction readStr k r n with
  | case1 k n => exact Mono.refl _ _
  | case2 k ch r n ih => exact (Mono.cons utf8Len ch r n).trans ih
  | case3 ch n _ => exact Mono.cons utf8Len ch [] n
  | case4 ch n _ e r' _ ih =>
    exact ((Mono.cons utf8Len ch (e :: r') n).trans (Mono.cons utf8Len e r' _)).trans ih
  | case5 ch n _ e r' _ ih =>
    exact ((Mono.cons utf8Len ch (e :: r') n).trans (Mono.cons utf8Len e r' _)).trans ih
  | case6 ch r n _ _ => exact Mono.cons utf8Len ch r n
  | case7 ch r n _ _ ih => exact (Mono.cons utf8Len ch r n).trans ih

theorem readBlock_mono (k : Nat) (r : List Char) (n : Nat) :
    Mono utf8Len ⟨r, n⟩ (readBlock k r n) := by
  fun_induction readBlock k r n with
  | case1 k n => exact Mono.refl _ _
  | case2 k ch r n ih => exact (Mono.cons utf8Len ch r n).trans ih
  | case3 ch r n _ _ =>
    exact (Mono.cons utf8Len ch r n).trans ((advW_mono _ _).trans (advW_mono _ _))
  | case4 ch r n _ _ ih => exact (Mono.cons utf8Len ch r n).trans ih
  | case5 ch r n _ _ _ ih => exact (Mono.cons utf8Len ch r n).trans ih
  | case6 ch r n _ _ _ ih => exact (Mono.cons utf8Len ch r n).trans ih
  | case7 ch r n _ _ ih => exact (Mono.cons utf8Len ch r n).trans ih

/-- every arm only moves forward by whole characters -/
theorem scanTok_mono (al nu : Char → Bool) (ch : Char) (c : Cur) :
    Mono utf8Len c (scanTok al nu ch c).2 := by
  have h : Mono utf8Len c c := Mono.refl _ _
  have h2 : Mono utf8Len c (advW utf8Len (advW utf8Len c)) :=
    (advW_mono _ _).trans (advW_mono _ _)
  unfold scanTok
  refine ite_ind (fun r : K × Cur => Mono utf8Len c r.2) _ _ _ (fun _ => h) (fun _ => ?_)
  refine ite_ind (fun r : K × Cur => Mono utf8Len c r.2) _ _ _ (fun _ => ?_) (fun _ => ?_)
  · exact ite_ind (fun r : K × Cur => Mono utf8Len c r.2) _ _ _ (fun _ => h2) (fun _ => h)
  refine ite_ind (fun r : K × Cur => Mono utf8Len c r.2) _ _ _ (fun _ => ?_) (fun _ => ?_)
  · exact ite_ind (fun r : K × Cur => Mono utf8Len c r.2) _ _ _
      (fun _ => h2.trans (readBlock_mono _ _ _)) (fun _ => readStr_mono _ _ _)
  refine ite_ind (fun r : K × Cur => Mono utf8Len c r.2) _ _ _
    (fun _ => readNum_mono _ _ _ _ _) (fun _ => ?_)
  exact ite_ind (fun r : K × Cur => Mono utf8Len c r.2) _ _ _
    (fun _ => skipWhileW_mono _ _ _ _) (fun _ => h)

/-- one call of `next_token`, for every pair of Unicode tables -/
theorem nextToken_ok (al nu : Char → Bool) : StepOK utf8Len (nextToken al nu) := by
  intro c
  refine ⟨skipWs c, skipWs_mono c, ?_⟩
  unfold nextToken
  dsimp only
  generalize hc : skipWs c = cs
  obtain ⟨rest, p⟩ := cs
  cases rest with
  | nil => exact ⟨rfl, rfl, Mono.refl _ _, fun h => absurd rfl h⟩
  | cons ch r =>
    have hm := scanTok_mono al nu ch ⟨r, p + utf8Len ch⟩
    exact ⟨rfl, rfl, (Mono.cons utf8Len ch r p).trans hm, fun _ => hm.lt_of_cons⟩

theorem c12_all (al nu : Char → Bool) (input : List Char) :
    (∀ t ∈ tokenize al nu input, TokOK utf8Len input t) ∧ Chain 0 (tokenize al nu input) ∧
    (∃ ts t, tokenize al nu input = ts ++ [t] ∧ t.k = .eof ∧ (∀ u ∈ ts, u.k ≠ .eof)) ∧
    (tokenize al nu input).length ≤ input.length + 1 :=
  tokenizeWith_ok utf8Len_pos (nextToken_ok al nu) input

/-- **C12, boundary** (for every pair of Unicode tables `al`, `nu`) -/
theorem c12_boundary (al nu : Char → Bool) (input : List Char) : ∀ t ∈ tokenize al nu input,
    (∃ pre suf : List Char, input = pre ++ suf ∧ t.start = utf8Bytes pre) ∧
    (∃ pre suf : List Char, input = pre ++ suf ∧ t.stop = utf8Bytes pre) ∧
    t.start ≤ t.stop ∧ t.stop ≤ utf8Bytes input :=
  fun t ht => tokOK_utf8 ((c12_all al nu input).1 t ht)

/-- **C12, progress.**  Every non-`Eof` token consumes at least one byte. -/
theorem c12_progress (al nu : Char → Bool) (input : List Char) :
    ∀ t ∈ tokenize al nu input, t.k ≠ .eof → t.start < t.stop :=
  fun t ht => ((c12_all al nu input).1 t ht).2.2.2.2

/-- **C12, termination.** -/
theorem c12_terminates (al nu : Char → Bool) (input : List Char) :
    (∃ ts t, tokenize al nu input = ts ++ [t] ∧ t.k = .eof ∧ (∀ u ∈ ts, u.k ≠ .eof)) ∧
    (tokenize al nu input).length ≤ input.length + 1 :=
  ⟨(c12_all al nu input).2.2.1, (c12_all al nu input).2.2.2⟩

/-- **C12, ordered spans.** -/
theorem c12_ordered (al nu : Char → Bool) (input : List Char) : Chain 0 (tokenize al nu input) :=
  (c12_all al nu input).2.1

/-- `{a . b}`: the lone dot is an `Eof` token of width 1 and the rest (` b}`) is dropped — the
silent truncation of the implementation, not a crash -/
theorem truncation_witness :
    tokenize Grafeo.Lex.isAlpha Grafeo.Lex.isDigit ['{', 'a', ' ', '.', ' ', 'b', '}'] =
      [⟨.punct, 0, 1⟩, ⟨.word, 1, 2⟩, ⟨.eof, 3, 4⟩] := by decide

theorem c12_nonvacuity :
    tokenize Grafeo.Lex.isAlpha Grafeo.Lex.isDigit
        ['"', 'é', '\\', 'n', '"', ' ', '.', '.', '.', '-', '1', 'e', '+'] =
      [⟨.str, 0, 6⟩, ⟨.punct, 7, 10⟩, ⟨.flt, 10, 14⟩, ⟨.eof, 14, 14⟩] := by decide

end Graphql

/-! ## Gremlin (offsets are CHARACTER indices) -/
namespace Gremlin

theorem w1_pos (c : Char) : 1 ≤ w1 c := Nat.le_refl 1

theorem readStr_mono (q : Char) (r : List Char) (n : Nat) :
    Mono w1 ⟨r, n⟩ (readStr q r n) := by
  fun_induction readStr q r n with
  | case1 n => exact Mono.refl _ _
  | case2 ch n _ => exact Mono.cons w1 ch [] n
  | case3 ch n _ e r' ih =>
    exact ((Mono.cons w1 ch (e :: r') n).trans (Mono.cons w1 e r' _)).trans ih
  | case4 ch r n _ _ => exact Mono.cons w1 ch r n
  | case5 ch r n _ _ ih => exact (Mono.cons w1 ch r n).trans ih

theorem scanTok_mono (al nu : Char → Bool) (ch : Char) (c : Cur) :
    Mono w1 c (scanTok al nu ch c).2 := by
  have h : Mono w1 c c := Mono.refl _ _
  unfold scanTok
  refine ite_ind (fun r : K × Cur => Mono w1 c r.2) _ _ _ (fun _ => h) (fun _ => ?_)
  refine ite_ind (fun r : K × Cur => Mono w1 c r.2) _ _ _ (fun _ => h) (fun _ => ?_)
  refine ite_ind (fun r : K × Cur => Mono w1 c r.2) _ _ _ (fun _ => readStr_mono _ _ _) (fun _ => ?_)
  refine ite_ind (fun r : K × Cur => Mono w1 c r.2) _ _ _
    (fun _ => readNum_mono _ _ _ _ _) (fun _ => ?_)
  exact ite_ind (fun r : K × Cur => Mono w1 c r.2) _ _ _
    (fun _ => skipWhileW_mono _ _ _ _) (fun _ => h)

theorem nextToken_ok (al nu : Char → Bool) : StepOK w1 (nextToken al nu) := by
  intro c
  refine ⟨skipWs c, skipWhileW_mono _ _ _ _, ?_⟩
  unfold nextToken
  dsimp only
  generalize hc : skipWs c = cs
  obtain ⟨rest, p⟩ := cs
  cases rest with
  | nil => exact ⟨rfl, rfl, Mono.refl _ _, fun h => absurd rfl h⟩
  | cons ch r =>
    have hm := scanTok_mono al nu ch ⟨r, p + 1⟩
    exact ⟨rfl, rfl, (Mono.cons w1 ch r p).trans hm, fun _ => hm.lt_of_cons (ch := ch)⟩

theorem c12_all (al nu : Char → Bool) (input : List Char) :
    (∀ t ∈ tokenize al nu input, TokOK w1 input t) ∧ Chain 0 (tokenize al nu input) ∧
    (∃ ts t, tokenize al nu input = ts ++ [t] ∧ t.k = .eof ∧ (∀ u ∈ ts, u.k ≠ .eof)) ∧
    (tokenize al nu input).length ≤ input.length + 1 :=
  tokenizeWith_ok w1_pos (nextToken_ok al nu) input

/-- **C12, boundary in character offsets.**  Every token start and stop is the NUMBER OF CHARACTERS
of a prefix of the input, `start ≤ stop ≤ number of characters`. -/
theorem c12_boundary (al nu : Char → Bool) (input : List Char) : ∀ t ∈ tokenize al nu input,
    (∃ pre suf : List Char, input = pre ++ suf ∧ t.start = pre.length) ∧
    (∃ pre suf : List Char, input = pre ++ suf ∧ t.stop = pre.length) ∧
    t.start ≤ t.stop ∧ t.stop ≤ input.length := by
  intro t ht
  obtain ⟨⟨p1, s1, e1, h1⟩, ⟨p2, s2, e2, h2⟩, h3, h4, _⟩ := (c12_all al nu input).1 t ht
  have hs : ∀ xs, sumW w1 xs = xs.length := sumW_one
  exact ⟨⟨p1, s1, e1, by rw [h1, hs]⟩, ⟨p2, s2, e2, by rw [h2, hs]⟩, h3, by rw [← hs]; exact h4⟩

/-- **C12, progress.**  Every non-`Eof` token consumes at least one character. -/
theorem c12_progress (al nu : Char → Bool) (input : List Char) :
    ∀ t ∈ tokenize al nu input, t.k ≠ .eof → t.start < t.stop :=
  fun t ht => ((c12_all al nu input).1 t ht).2.2.2.2

/-- **C12, termination.** -/
theorem c12_terminates (al nu : Char → Bool) (input : List Char) :
    (∃ ts t, tokenize al nu input = ts ++ [t] ∧ t.k = .eof ∧ (∀ u ∈ ts, u.k ≠ .eof)) ∧
    (tokenize al nu input).length ≤ input.length + 1 :=
  ⟨(c12_all al nu input).2.2.1, (c12_all al nu input).2.2.2⟩

/-- **C12, ordered spans.** -/
theorem c12_ordered (al nu : Char → Bool) (input : List Char) : Chain 0 (tokenize al nu input) :=
  (c12_all al nu input).2.1

/-- **witness: Gremlin spans are not byte offsets.**  `"éé"` (4 characters, 6 bytes) is one string
token with span 0..4, and byte 4 lies inside the second `é` (the byte boundaries are 0,1,3,5,6):
`&source[0..4]` would panic.  No code slices with these spans today (latent). -/
theorem span_not_bytes_witness :
    tokenize Grafeo.Lex.isAlpha Grafeo.Lex.isDigit ['"', 'é', 'é', '"'] =
      [⟨.str, 0, 4⟩, ⟨.eof, 4, 4⟩] ∧
    (boundaries utf8Len ['"', 'é', 'é', '"'] 0).contains 4 = false ∧
    boundaries utf8Len ['"', 'é', 'é', '"'] 0 = [0, 1, 3, 5, 6] := by decide

theorem c12_nonvacuity :
    tokenize Grafeo.Lex.isAlpha Grafeo.Lex.isDigit
        ['g', '.', 'V', '(', '-', '1', '.', '5', ')', ' ', '_', ' ', '\'', 'é', '\\'] =
      [⟨.word, 0, 1⟩, ⟨.punct, 1, 2⟩, ⟨.word, 2, 3⟩, ⟨.punct, 3, 4⟩, ⟨.flt, 4, 8⟩,
       ⟨.punct, 8, 9⟩, ⟨.punct, 10, 11⟩, ⟨.str, 12, 15⟩, ⟨.eof, 15, 15⟩] := by decide

end Gremlin

end Grafeo.Lex2
