import GrafeoModel.Model.Lex

/-!
# C12 — no query text can crash or hang the process: the GQL lexer (proved part)

For **every** input (any list of Unicode scalar values):

* `c12_lexer_boundary` — every token start and stop produced by `nextToken` / `tokenize` is the
  UTF-8 length of a prefix of the input (a character boundary), with `start ≤ stop ≤ len`; so
  neither `input[position..]` nor `input[start..position]` can panic;
* `c12_lexer_progress` — after skipping whitespace, `nextToken` either reports `eof` (input
  exhausted) or consumes at least one character;
* `c12_lexer_terminates` — `tokenize` with fuel = number of characters + 1 ends with an `eof`
  token: the fuel is never exhausted, at most one token per character plus the final `eof`.

The single notion everything rests on is `AdvN k c c'`: cursor `c'` is cursor `c` after consuming
at least `k` whole characters `xs`, the offset having grown by exactly the byte length of `xs`.
-/

namespace Grafeo.Lex

/-! ### byte lengths -/

theorem utf8Len_pos (c : Char) : 1 ≤ utf8Len c := by
  unfold utf8Len; split <;> (try split) <;> (try split) <;> omega

theorem utf8Len_le (c : Char) : utf8Len c ≤ 4 := by
  unfold utf8Len; split <;> (try split) <;> (try split) <;> omega

theorem utf8Bytes_append (xs ys : List Char) :
    utf8Bytes (xs ++ ys) = utf8Bytes xs + utf8Bytes ys := by
  induction xs with
  | nil => simp [utf8Bytes]
  | cons x xs ih => simp [utf8Bytes, ih]; omega

theorem length_le_utf8Bytes (xs : List Char) : xs.length ≤ utf8Bytes xs := by
  induction xs with
  | nil => simp [utf8Bytes]
  | cons x xs ih => have := utf8Len_pos x; simp [utf8Bytes]; omega

/-! ### the step relation -/

/-- `c'` is `c` after consuming the characters `xs` (at least `k` of them); the byte offset moved
by exactly their UTF-8 length -/
def AdvN (k : Nat) (c c' : Cur) : Prop :=
  ∃ xs : List Char, k ≤ xs.length ∧ c.rest = xs ++ c'.rest ∧ c'.pos = c.pos + utf8Bytes xs

theorem AdvN.refl (c : Cur) : AdvN 0 c c := ⟨[], by simp, by simp, by simp [utf8Bytes]⟩

theorem AdvN.trans {a b : Nat} {c c' c'' : Cur} (h1 : AdvN a c c') (h2 : AdvN b c' c'') :
    AdvN (a + b) c c'' := by
  obtain ⟨xs, hx, hr, hp⟩ := h1
  obtain ⟨ys, hy, hr', hp'⟩ := h2
  refine ⟨xs ++ ys, ?_, ?_, ?_⟩
  · simp; omega
  · rw [hr, hr', List.append_assoc]
  · rw [hp', hp, utf8Bytes_append]; omega

theorem AdvN.weaken {a b : Nat} {c c' : Cur} (h : AdvN a c c') (hb : b ≤ a) : AdvN b c c' := by
  obtain ⟨xs, hx, hr, hp⟩ := h
  exact ⟨xs, by omega, hr, hp⟩

theorem AdvN.length {k : Nat} {c c' : Cur} (h : AdvN k c c') :
    c'.rest.length + k ≤ c.rest.length := by
  obtain ⟨xs, hx, hr, _⟩ := h
  rw [hr]; simp; omega

theorem AdvN.pos_le {k : Nat} {c c' : Cur} (h : AdvN k c c') : c.pos ≤ c'.pos := by
  obtain ⟨xs, _, _, hp⟩ := h
  omega

/-- the numeric invariant `pos + utf8Bytes rest` is preserved by every step -/
theorem AdvN.total {k : Nat} {c c' : Cur} (h : AdvN k c c') :
    c'.pos + utf8Bytes c'.rest = c.pos + utf8Bytes c.rest := by
  obtain ⟨xs, _, hr, hp⟩ := h
  rw [hr, hp, utf8Bytes_append]; omega

/-- one character consumed from a non-empty cursor -/
theorem advN_cons (ch : Char) (r : List Char) (n : Nat) :
    AdvN 1 ⟨ch :: r, n⟩ ⟨r, n + utf8Len ch⟩ :=
  ⟨[ch], by simp, by simp, by simp [utf8Bytes]⟩

/-! ### every primitive is a step -/

theorem adv_advN (c : Cur) : AdvN 0 c (adv c) := by
  unfold adv
  split
  · exact AdvN.refl c
  · rename_i ch r h
    exact ⟨[ch], by simp, by simp [h], by simp [utf8Bytes]⟩

theorem adv_advN_cons (ch : Char) (r : List Char) (n : Nat) :
    AdvN 1 ⟨ch :: r, n⟩ (adv ⟨ch :: r, n⟩) := by
  simp only [adv]; exact advN_cons ch r n

theorem skipWhile_advN (p : Char → Bool) (r : List Char) (n : Nat) :
    AdvN 0 ⟨r, n⟩ (skipWhile p r n) := by
  induction r generalizing n with
  | nil => simp only [skipWhile]; exact AdvN.refl _
  | cons ch r ih =>
    simp only [skipWhile]
    split
    · exact ((advN_cons ch r n).trans (ih (n + utf8Len ch))).weaken (by omega)
    · exact AdvN.refl _

/-- a loop whose guard accepts the first character consumes it -/
theorem skipWhile_advN_cons (p : Char → Bool) (ch : Char) (r : List Char) (n : Nat)
    (h : p ch = true) : AdvN 1 ⟨ch :: r, n⟩ (skipWhile p (ch :: r) n) := by
  simp only [skipWhile, h, if_true]
  exact (advN_cons ch r n).trans (skipWhile_advN p r (n + utf8Len ch))

theorem skipWs_advN (c : Cur) : AdvN 0 c (skipWs c) := skipWhile_advN isWs c.rest c.pos

theorem scanStringBody_advN (q : Char) (r : List Char) (n : Nat) :
    AdvN 0 ⟨r, n⟩ (scanStringBody q r n).2 := by
  fun_induction scanStringBody q r n with
  | case1 n => exact AdvN.refl _
  | case2 ch r n _ => exact (advN_cons ch r n).weaken (by omega)
  | case3 ch n _ _ => exact (advN_cons ch [] n).weaken (by omega)
  | case4 ch n _ _ e r' ih =>
    exact (((advN_cons ch (e :: r') n).trans (advN_cons e r' _)).trans ih).weaken (by omega)
  | case5 ch r n _ _ ih => exact ((advN_cons ch r n).trans ih).weaken (by omega)

theorem scanQIdentBody_advN (r : List Char) (n : Nat) :
    AdvN 0 ⟨r, n⟩ (scanQIdentBody r n).2 := by
  fun_induction scanQIdentBody r n with
  | case1 n => exact AdvN.refl _
  | case2 ch n _ => exact (advN_cons ch [] n).weaken (by omega)
  | case3 ch n _ b r' _ ih =>
    exact (((advN_cons ch (b :: r') n).trans (advN_cons b r' _)).trans ih).weaken (by omega)
  | case4 ch n _ b r' _ => exact (advN_cons ch (b :: r') n).weaken (by omega)
  | case5 ch r n _ ih => exact ((advN_cons ch r n).trans ih).weaken (by omega)

/-! ### every arm of `next_token` yields a non-`eof` class and consumes ≥ 1 character -/

/-- what every arm of the `match ch` guarantees, from cursor `c` -/
def Good (c : Cur) (r : Cls × Cur) : Prop := r.1 ≠ .eof ∧ AdvN 1 c r.2

theorem ite_ind {α : Type} (P : α → Prop) (b : Bool) (x y : α)
    (hx : b = true → P x) (hy : b = false → P y) : P (if b = true then x else y) := by
  cases b
  · simpa using hy rfl
  · simpa using hx rfl

theorem scanStringBody_ne_eof (q : Char) (r : List Char) (n : Nat) :
    (scanStringBody q r n).1 ≠ .eof := by
  fun_induction scanStringBody q r n with
  | case1 n => intro h; cases h
  | case2 ch r n _ => intro h; cases h
  | case3 ch n _ _ => intro h; cases h
  | case4 ch n _ _ e r' ih => exact ih
  | case5 ch r n _ _ ih => exact ih

theorem scanQIdentBody_ne_eof (r : List Char) (n : Nat) : (scanQIdentBody r n).1 ≠ .eof := by
  fun_induction scanQIdentBody r n with
  | case1 n => intro h; cases h
  | case2 ch n _ => intro h; cases h
  | case3 ch n _ b r' _ ih => exact ih
  | case4 ch n _ b r' _ => intro h; cases h
  | case5 ch r n _ ih => exact ih

theorem punct_adv_good (ch : Char) (r : List Char) (n : Nat) :
    Good ⟨ch :: r, n⟩ (Cls.punct, adv ⟨ch :: r, n⟩) :=
  ⟨(by intro h; cases h), adv_advN_cons ch r n⟩

theorem error_adv_good (ch : Char) (r : List Char) (n : Nat) :
    Good ⟨ch :: r, n⟩ (Cls.error, adv ⟨ch :: r, n⟩) :=
  ⟨(by intro h; cases h), adv_advN_cons ch r n⟩

/-- the shape shared by the multi-character operator arms: one `advance`, then either a second
`advance` or nothing -/
theorem second_good (ch : Char) (r : List Char) (n : Nat) (k : Cls) (hk : k ≠ .eof) :
    Good ⟨ch :: r, n⟩ (k, adv (adv ⟨ch :: r, n⟩)) ∧ Good ⟨ch :: r, n⟩ (k, adv ⟨ch :: r, n⟩) :=
  ⟨⟨hk, (adv_advN_cons ch r n).trans (adv_advN _)⟩, ⟨hk, adv_advN_cons ch r n⟩⟩

theorem scanLt_good (ch : Char) (r : List Char) (n : Nat) :
    Good ⟨ch :: r, n⟩ (scanLt ⟨ch :: r, n⟩) := by
  have h := second_good ch r n .punct (by intro h; cases h)
  unfold scanLt
  exact ite_ind _ _ _ _ (fun _ => h.1) fun _ => ite_ind _ _ _ _ (fun _ => h.1) fun _ =>
    ite_ind _ _ _ _ (fun _ => h.1) fun _ => h.2

theorem scanGt_good (ch : Char) (r : List Char) (n : Nat) :
    Good ⟨ch :: r, n⟩ (scanGt ⟨ch :: r, n⟩) := by
  have h := second_good ch r n .punct (by intro h; cases h)
  unfold scanGt
  exact ite_ind _ _ _ _ (fun _ => h.1) fun _ => h.2

theorem scanMinus_good (ch : Char) (r : List Char) (n : Nat) :
    Good ⟨ch :: r, n⟩ (scanMinus ⟨ch :: r, n⟩) := by
  have h := second_good ch r n .punct (by intro h; cases h)
  unfold scanMinus
  exact ite_ind _ _ _ _ (fun _ => h.1) fun _ => ite_ind _ _ _ _ (fun _ => h.1) fun _ => h.2

theorem scanBar_good (ch : Char) (r : List Char) (n : Nat) :
    Good ⟨ch :: r, n⟩ (scanBar ⟨ch :: r, n⟩) := by
  have h := second_good ch r n .punct (by intro h; cases h)
  have h' := second_good ch r n .error (by intro h; cases h)
  unfold scanBar
  exact ite_ind _ _ _ _ (fun _ => h.1) fun _ => h'.2

theorem scanString_good (ch : Char) (r : List Char) (n : Nat) :
    Good ⟨ch :: r, n⟩ (scanString ⟨ch :: r, n⟩) := by
  simp only [scanString, adv]
  exact ⟨scanStringBody_ne_eof _ _ _, (advN_cons ch r n).trans (scanStringBody_advN _ r _)⟩

theorem scanQuotedIdent_good (ch : Char) (r : List Char) (n : Nat) :
    Good ⟨ch :: r, n⟩ (scanQuotedIdent ⟨ch :: r, n⟩) := by
  simp only [scanQuotedIdent, adv]
  exact ⟨scanQIdentBody_ne_eof _ _, (advN_cons ch r n).trans (scanQIdentBody_advN r _)⟩

theorem scanParam_good (ch : Char) (r : List Char) (n : Nat) :
    Good ⟨ch :: r, n⟩ (scanParam ⟨ch :: r, n⟩) := by
  cases r with
  | nil =>
    simp only [scanParam, adv]
    exact ⟨(by intro h; cases h), advN_cons ch [] n⟩
  | cons b r' =>
    simp only [scanParam, adv]
    refine ite_ind (Good ⟨ch :: b :: r', n⟩) _ _ _ (fun _ => ?_) (fun _ => ?_)
    · exact ⟨(by intro h; cases h), advN_cons ch (b :: r') n⟩
    · exact ⟨(by intro h; cases h), (advN_cons ch (b :: r') n).trans (skipWhile_advN _ _ _)⟩

theorem scanNumber_good (ch : Char) (r : List Char) (n : Nat) (h : isDigit ch = true) :
    Good ⟨ch :: r, n⟩ (scanNumber ⟨ch :: r, n⟩) := by
  have h1 := skipWhile_advN_cons isDigit ch r n h
  unfold scanNumber
  refine ite_ind (Good ⟨ch :: r, n⟩) _ _ _ (fun _ => ?_) (fun _ => ?_)
  · exact ⟨(by intro h; cases h), h1.trans ((adv_advN _).trans (skipWhile_advN _ _ _))⟩
  · exact ⟨(by intro h; cases h), h1⟩

theorem scanIdent_good (ch : Char) (r : List Char) (n : Nat) (h : isIdentStart ch = true) :
    Good ⟨ch :: r, n⟩ (scanIdent ⟨ch :: r, n⟩) := by
  have hc : isIdentCont ch = true := by
    simp only [isIdentStart, Bool.or_eq_true] at h
    simp only [isIdentCont, isAlnum, Bool.or_eq_true]
    cases h with
    | inl h => exact Or.inl (Or.inl h)
    | inr h => exact Or.inr h
  exact ⟨(by intro h; cases h), skipWhile_advN_cons isIdentCont ch r n hc⟩

/-- every arm of the `match ch` yields a non-`eof` class and consumes at least the character it
dispatched on -/
theorem scanTok_good (ch : Char) (r : List Char) (n : Nat) :
    Good ⟨ch :: r, n⟩ (scanTok ch ⟨ch :: r, n⟩) := by
  have hp := punct_adv_good ch r n
  unfold scanTok
  iterate 14 refine ite_ind (Good ⟨ch :: r, n⟩) _ _ _ (fun _ => hp) (fun _ => ?_)
  refine ite_ind (Good ⟨ch :: r, n⟩) _ _ _ (fun _ => scanLt_good ch r n) (fun _ => ?_)
  refine ite_ind (Good ⟨ch :: r, n⟩) _ _ _ (fun _ => scanGt_good ch r n) (fun _ => ?_)
  refine ite_ind (Good ⟨ch :: r, n⟩) _ _ _ (fun _ => scanMinus_good ch r n) (fun _ => ?_)
  refine ite_ind (Good ⟨ch :: r, n⟩) _ _ _ (fun _ => scanBar_good ch r n) (fun _ => ?_)
  refine ite_ind (Good ⟨ch :: r, n⟩) _ _ _ (fun _ => scanString_good ch r n) (fun _ => ?_)
  refine ite_ind (Good ⟨ch :: r, n⟩) _ _ _ (fun _ => scanQuotedIdent_good ch r n) (fun _ => ?_)
  refine ite_ind (Good ⟨ch :: r, n⟩) _ _ _ (fun _ => scanParam_good ch r n) (fun _ => ?_)
  refine ite_ind (Good ⟨ch :: r, n⟩) _ _ _ (fun h => scanNumber_good ch r n h) (fun _ => ?_)
  refine ite_ind (Good ⟨ch :: r, n⟩) _ _ _ (fun h => scanIdent_good ch r n h) (fun _ => ?_)
  exact error_adv_good ch r n

/-! ### `nextToken` -/

/-- `nextToken` at end of input (after whitespace): an `eof` token, cursor unchanged -/
theorem nextToken_eof (c0 : Cur) (h : (skipWs c0).rest = []) :
    nextToken c0 = (⟨.eof, (skipWs c0).pos, (skipWs c0).pos⟩, skipWs c0) := by
  simp only [nextToken, h]

/-- `nextToken` elsewhere: not `eof`, starts where whitespace ends, stops at the new cursor, and
the new cursor is at least one character further -/
theorem nextToken_step (c0 : Cur) (h : (skipWs c0).rest ≠ []) :
    (nextToken c0).1.cls ≠ .eof ∧ (nextToken c0).1.start = (skipWs c0).pos ∧
    (nextToken c0).1.stop = (nextToken c0).2.pos ∧ AdvN 1 (skipWs c0) (nextToken c0).2 := by
  generalize hc : skipWs c0 = c at h
  obtain ⟨rest, p⟩ := c
  cases rest with
  | nil => exact absurd rfl h
  | cons ch r =>
    have hg := scanTok_good ch r p
    simp only [nextToken, hc]
    exact ⟨hg.1, trivial, trivial, hg.2⟩

/-- in every case the cursor only moves forward by whole characters -/
theorem nextToken_advN (c0 : Cur) : AdvN 0 c0 (nextToken c0).2 := by
  by_cases h : (skipWs c0).rest = []
  · rw [nextToken_eof c0 h]; exact skipWs_advN c0
  · exact ((skipWs_advN c0).trans (nextToken_step c0 h).2.2.2).weaken (by omega)

/-! ### character boundaries -/

/-- `p` is a character boundary of `input`: the byte length of a prefix -/
def IsBoundary (input : List Char) (p : Nat) : Prop :=
  ∃ pre suf : List Char, input = pre ++ suf ∧ p = utf8Bytes pre

/-- the cursor is in step with the input: `rest` is the suffix that starts at byte `pos` -/
def Wf (input : List Char) (c : Cur) : Prop :=
  ∃ pre : List Char, input = pre ++ c.rest ∧ c.pos = utf8Bytes pre

theorem wf_init (input : List Char) : Wf input ⟨input, 0⟩ := ⟨[], by simp, by simp [utf8Bytes]⟩

theorem Wf.step {input : List Char} {c c' : Cur} {k : Nat} (h : Wf input c) (ha : AdvN k c c') :
    Wf input c' := by
  obtain ⟨pre, hi, hp⟩ := h
  obtain ⟨xs, _, hr, hp'⟩ := ha
  exact ⟨pre ++ xs, by rw [hi, hr, List.append_assoc], by rw [hp', hp, utf8Bytes_append]⟩

theorem Wf.boundary {input : List Char} {c : Cur} (h : Wf input c) : IsBoundary input c.pos := by
  obtain ⟨pre, hi, hp⟩ := h
  exact ⟨pre, c.rest, hi, hp⟩

/-- the numeric invariant of the task statement: `pos + utf8Bytes rest = total` -/
theorem Wf.total {input : List Char} {c : Cur} (h : Wf input c) :
    c.pos + utf8Bytes c.rest = utf8Bytes input := by
  obtain ⟨pre, hi, hp⟩ := h
  rw [hi, hp, utf8Bytes_append]

theorem IsBoundary.le {input : List Char} {p : Nat} (h : IsBoundary input p) :
    p ≤ utf8Bytes input := by
  obtain ⟨pre, suf, hi, hp⟩ := h
  rw [hi, hp, utf8Bytes_append]; omega

/-- **C12, boundary, one call.**  From a cursor that is in step with the input, `nextToken`
returns a cursor that is in step with the input (so the invariant `pos + utf8Bytes rest = total`
is preserved), and a token whose `start` and `stop` are character boundaries with
`start ≤ stop ≤ len`: the slices `input[position..]` and `input[start..stop]` are always legal. -/
theorem c12_nextToken_boundary (input : List Char) (c : Cur) (h : Wf input c) :
    Wf input (nextToken c).2 ∧
    (nextToken c).2.pos + utf8Bytes (nextToken c).2.rest = utf8Bytes input ∧
    IsBoundary input (nextToken c).1.start ∧ IsBoundary input (nextToken c).1.stop ∧
    (nextToken c).1.start ≤ (nextToken c).1.stop ∧ (nextToken c).1.stop ≤ utf8Bytes input := by
  have hws : Wf input (skipWs c) := h.step (skipWs_advN c)
  have hw' : Wf input (nextToken c).2 := h.step (nextToken_advN c)
  refine ⟨hw', hw'.total, ?_⟩
  by_cases he : (skipWs c).rest = []
  · rw [nextToken_eof c he]
    exact ⟨hws.boundary, hws.boundary, Nat.le_refl _, hws.boundary.le⟩
  · obtain ⟨_, hs, ht, ha⟩ := nextToken_step c he
    rw [hs, ht]
    exact ⟨hws.boundary, hw'.boundary, ha.pos_le, hw'.boundary.le⟩

theorem tokenizeAux_boundary (input : List Char) (fuel : Nat) (c : Cur) (h : Wf input c) :
    ∀ t ∈ tokenizeAux fuel c,
      IsBoundary input t.start ∧ IsBoundary input t.stop ∧ t.start ≤ t.stop ∧
      t.stop ≤ utf8Bytes input := by
  induction fuel generalizing c with
  | zero => intro t ht; simp [tokenizeAux] at ht
  | succ fuel ih =>
    intro t ht
    obtain ⟨hw', _, b1, b2, b3, b4⟩ := c12_nextToken_boundary input c h
    simp only [tokenizeAux] at ht
    split at ht
    · simp only [List.mem_singleton] at ht
      subst ht; exact ⟨b1, b2, b3, b4⟩
    · simp only [List.mem_cons] at ht
      cases ht with
      | inl ht => subst ht; exact ⟨b1, b2, b3, b4⟩
      | inr ht => exact ih _ hw' t ht

/-- **C12, boundary.**  Every token of every input starts and stops on a character boundary of
that input, with `start ≤ stop ≤ len`: no slice the lexer takes can panic. -/
theorem c12_lexer_boundary (input : List Char) :
    ∀ t ∈ tokenize input,
      IsBoundary input t.start ∧ IsBoundary input t.stop ∧ t.start ≤ t.stop ∧
      t.stop ≤ utf8Bytes input :=
  tokenizeAux_boundary input _ _ (wf_init input)

/-- **C12, progress.**  If anything is left after skipping whitespace, `nextToken` returns a
non-`eof` token and a cursor whose `rest` is strictly shorter (at least one character consumed);
otherwise it returns `eof` and leaves nothing to read. -/
theorem c12_lexer_progress (c : Cur) :
    ((skipWs c).rest ≠ [] →
        (nextToken c).1.cls ≠ .eof ∧ (nextToken c).2.rest.length < c.rest.length) ∧
    ((skipWs c).rest = [] → (nextToken c).1.cls = .eof ∧ (nextToken c).2.rest = []) := by
  constructor
  · intro h
    obtain ⟨hne, _, _, ha⟩ := nextToken_step c h
    have := ((skipWs_advN c).trans ha).length
    exact ⟨hne, by omega⟩
  · intro h
    rw [nextToken_eof c h]
    exact ⟨rfl, h⟩

theorem tokenizeAux_terminates (fuel : Nat) (c : Cur) (h : c.rest.length < fuel) :
    ∃ ts t, tokenizeAux fuel c = ts ++ [t] ∧ t.cls = .eof ∧ (∀ u ∈ ts, u.cls ≠ .eof) ∧
      ts.length ≤ c.rest.length := by
  induction fuel generalizing c with
  | zero => omega
  | succ fuel ih =>
    simp only [tokenizeAux]
    split
    · rename_i he
      exact ⟨[], (nextToken c).1, by simp, he, by simp, by simp⟩
    · rename_i he
      have hne : (skipWs c).rest ≠ [] := by
        intro hh
        exact he ((c12_lexer_progress c).2 hh).1
      have hlt := ((c12_lexer_progress c).1 hne).2
      obtain ⟨ts, t, e, ht, hall, hlen⟩ := ih (nextToken c).2 (by omega)
      refine ⟨(nextToken c).1 :: ts, t, by rw [e]; simp, ht, ?_, by simp; omega⟩
      intro u hu
      simp only [List.mem_cons] at hu
      cases hu with
      | inl hu => subst hu; exact he
      | inr hu => exact hall u hu

/-- **C12, termination.**  Tokenising any input with fuel = number of characters + 1 never runs out
of fuel: the result is some non-`eof` tokens followed by exactly one `eof`, at most one token per
character plus the `eof`. -/
theorem c12_lexer_terminates (input : List Char) :
    ∃ ts t, tokenize input = ts ++ [t] ∧ t.cls = .eof ∧ (∀ u ∈ ts, u.cls ≠ .eof) ∧
      (tokenize input).length ≤ input.length + 1 := by
  obtain ⟨ts, t, e, ht, hall, hlen⟩ := tokenizeAux_terminates (input.length + 1) ⟨input, 0⟩ (by simp)
  refine ⟨ts, t, e, ht, hall, ?_⟩
  unfold tokenize
  rw [e]; simp at hlen ⊢; omega

/-! ### non-vacuity: the model on the inputs that used to crash the implementation -/

/-- `(é)` — a two-byte letter outside a string: one `error` token spanning bytes 1..3 -/
theorem c12_nonvacuity_e_acute :
    tokenize ['(', 'é', ')'] =
      [⟨.punct, 0, 1⟩, ⟨.error, 1, 3⟩, ⟨.punct, 3, 4⟩, ⟨.eof, 4, 4⟩] := by decide

/-- `a`, U+00A0 (no-break space, 2 bytes), `1.5`: the space is skipped as whitespace -/
theorem c12_nonvacuity_nbsp :
    tokenize ['a', Char.ofNat 0xA0, '1', '.', '5'] =
      [⟨.word, 0, 1⟩, ⟨.float, 3, 6⟩, ⟨.eof, 6, 6⟩] := by decide

/-- `x = 'é\` — an unterminated string ending in a backslash: one `error` token to the end -/
theorem c12_nonvacuity_unterminated :
    tokenize ['x', ' ', '=', ' ', '\'', 'é', '\\'] =
      [⟨.word, 0, 1⟩, ⟨.punct, 2, 3⟩, ⟨.error, 4, 8⟩, ⟨.eof, 8, 8⟩] := by decide

/-- the boundary statement is not satisfiable by byte offsets inside a character: 2 is not a
boundary of `(é)` (whose boundaries are 0, 1, 3, 4) -/
theorem c12_nonvacuity_not_boundary : ¬ IsBoundary ['(', 'é', ')'] 2 := by
  intro ⟨pre, suf, hi, hp⟩
  match pre, hi, hp with
  | [], _, hp => simp [utf8Bytes] at hp
  | [a], hi, hp =>
    simp at hi; obtain ⟨rfl, _⟩ := hi
    revert hp; decide
  | [a, b], hi, hp =>
    simp at hi; obtain ⟨rfl, rfl, _⟩ := hi
    revert hp; decide
  | a :: b :: c :: r, _, hp =>
    have := utf8Len_pos a; have := utf8Len_pos b; have := utf8Len_pos c
    simp [utf8Bytes] at hp; omega

end Grafeo.Lex
