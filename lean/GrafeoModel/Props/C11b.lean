import GrafeoModel.Model.Ops2
import GrafeoModel.Props.C11

/-!
# C11 (second part) — predicates, ORDER BY, count(*) and operator chains

Theorems about `Model/Ops2.lean`. Everything quantifies over **every** table, **every**
chunking of it (`cs : List (List α)`: any number of chunks of any sizes, empty chunks included —
the boundaries 2047 / 2048 / 2049 are instances), every predicate of the grammar `Ex`, every list
of sort keys and every chain of stages.

* §1 `FilterOperator`: the flat result is `List.filter`, for every chunking.
* §2 three-valued partition (TLP): for every predicate and every row exactly one of `p`, `NOT p`,
  `p IS NULL` passes; the three filter results are a permutation of the input and pairwise
  disjoint by row position. The statement for *every expression* of the grammar is false for
  the code (a bare variable holding a number): `_partial` version + witness.
* §3 the code's evaluation against SQL three-valued logic: sound on the ordering fragment;
  one witness per deviation.
* §4 `SortOperator`: permutation, sorted, stable, independent of the chunking; the comparator is
  total everywhere and transitive on columns of one kind; witnesses where it is not.
* §5 `count(*)` / `count(col)`.
* §6 chains filter → distinct → sort → skip → limit = the list-level specification.
-/

namespace Grafeo.Ops2
open List

variable {α : Type}

/-! ## §1 FilterOperator -/

theorem flatten_dropEmpty (cs : List (List α)) : (dropEmpty cs).flatten = cs.flatten := by
  induction cs with
  | nil => rfl
  | cons c cs ih =>
    unfold dropEmpty at ih ⊢
    simp only [filter_cons]
    cases c with
    | nil => simp [ih]
    | cons x xs => simp [ih]

/-- F: the filter returns exactly the rows that pass, in input order, for every chunking. -/
theorem c11b_filter_flatten (p : α → Bool) (cs : List (List α)) :
    (filterOp p cs).flatten = cs.flatten.filter p := by
  unfold filterOp
  rw [flatten_dropEmpty, filter_flatten]

/-- F: two chunkings of the same rows give the same filter result. -/
theorem c11b_filter_chunking_irrelevant (p : α → Bool) (cs cs' : List (List α))
    (h : cs.flatten = cs'.flatten) : (filterOp p cs).flatten = (filterOp p cs').flatten := by
  rw [c11b_filter_flatten, c11b_filter_flatten, h]

/-- F: the filter never returns an empty chunk. -/
theorem c11b_filter_no_empty_chunk (p : α → Bool) (cs : List (List α)) :
    ∀ c ∈ filterOp p cs, c ≠ [] := by
  intro c hc
  unfold filterOp dropEmpty at hc
  have := (mem_filter.mp hc).2
  intro h; subst h; simp at this

/-! ## §2 the three-valued partition -/

/-- three Boolean tests of which exactly one holds on every element split a list into three
parts whose concatenation is a permutation of the list -/
theorem perm_three_filters (a b c : α → Bool) (l : List α)
    (h : ∀ x ∈ l, (a x).toNat + (b x).toNat + (c x).toNat = 1) :
    (l.filter a ++ l.filter b ++ l.filter c).Perm l := by
  induction l with
  | nil => simp
  | cons x xs ih =>
    have hx := h x (by simp)
    have ih' := ih (fun y hy => h y (by simp [hy]))
    cases ha : a x <;> cases hb : b x <;> cases hc : c x <;> simp [ha, hb, hc] at hx
    · -- only c
      simp only [filter_cons, ha, hb, hc]
      refine Perm.trans ?_ (Perm.cons x ih')
      simpa [append_assoc] using (perm_middle (a := x) (l₁ := xs.filter a ++ xs.filter b) (l₂ := xs.filter c))
    · -- only b
      simp only [filter_cons, ha, hb, hc]
      refine Perm.trans ?_ (Perm.cons x ih')
      simp [append_assoc]
    · -- only a
      simp only [filter_cons, ha, hb, hc]
      simpa [append_assoc] using Perm.cons x ih'

/-- the value of the expression is a boolean, NULL, or absent -/
def boolish (q : Quirks) (e : Ex) (r : Row) : Bool :=
  match evalQ q e r with
  | none => true
  | some .null => true
  | some (.bool _) => true
  | _ => false

theorem evalQ_un (q : Quirks) (op : UOp) (e : Ex) (r : Row) :
    evalQ q (.un op e) r = evalUn op (evalQ q e r) := by
  rw [evalQ]

/-- exactly one of the three tests passes on a row whose predicate value is boolean / NULL / absent -/
theorem tlp_row (q : Quirks) (e : Ex) (r : Row) (h : boolish q e r = true) :
    (passes q e r).toNat + (passes q e.not r).toNat + (passes q e.isNull r).toNat = 1 := by
  unfold passes Ex.not Ex.isNull
  rw [evalQ_un, evalQ_un]
  unfold boolish at h
  cases hv : evalQ q e r with
  | none => simp [evalUn]
  | some v =>
    rw [hv] at h
    cases v with
    | null => simp [evalUn, asBool]
    | bool b => cases b <;> decide
    | int i => simp at h
    | flt f => simp at h
    | str s => simp at h

theorem and3_boolish (l r : Option Val) :
    and3 l r = none ∨ ∃ b, and3 l r = some (.bool b) := by
  unfold and3
  split <;> simp

theorem or3_boolish (l r : Option Val) :
    or3 l r = none ∨ ∃ b, or3 l r = some (.bool b) := by
  unfold or3
  split <;> simp

theorem evalBin_boolish (q : Quirks) (op : BOp) (a b : Val)
    (hop : (match op with | .add | .sub | .mul | .div | .mod => false | _ => true) = true) :
    evalBin q op a b = none ∨ ∃ x, evalBin q op a b = some (.bool x) := by
  cases op <;> simp at hop <;> simp only [evalBin]
  case eq => cases eq3 q a b <;> simp
  case ne => cases eq3 q a b <;> simp
  case lt => cases compareValues a b <;> simp
  case le => cases compareValues a b <;> simp
  case gt => cases compareValues a b <;> simp
  case ge => cases compareValues a b <;> simp
  case and =>
    split
    · cases asBool a <;> cases asBool b <;> simp
    · exact and3_boolish _ _
  case or =>
    split
    · cases asBool a <;> cases asBool b <;> simp
    · exact or3_boolish _ _
  case xor => cases asBool a <;> cases asBool b <;> simp
  case sw => cases asStr a <;> cases asStr b <;> simp
  case ew => cases asStr a <;> cases asStr b <;> simp
  case ct => cases asStr a <;> cases asStr b <;> simp

/-- a predicate-shaped expression evaluates to a boolean or to nothing, whatever its operands -/
theorem isPred_boolish (q : Quirks) (e : Ex) (r : Row) (h : e.isPred = true) : boolish q e r = true := by
  have key : evalQ q e r = none ∨ ∃ b, evalQ q e r = some (.bool b) := by
    cases e with
    | lit v => simp [Ex.isPred] at h
    | col k => simp [Ex.isPred] at h
    | mis => simp [Ex.isPred] at h
    | bin op l rr =>
      simp only [Ex.isPred] at h
      rw [evalQ]
      split
      · split
        · exact and3_boolish _ _
        · exact or3_boolish _ _
      · split
        · exact evalBin_boolish q op _ _ h
        · simp
    | un op e' =>
      simp only [Ex.isPred] at h
      rw [evalQ]
      cases op with
      | not =>
        cases evalQ q e' r with
        | none => simp [evalUn]
        | some v => cases v <;> simp [evalUn, asBool]
      | isNull => simp [evalUn]
      | notNull => simp [evalUn]
      | neg => simp at h
    | inl l items =>
      rw [evalQ]
      cases evalQ q l r with
      | none => simp
      | some a =>
        simp only
        split
        · simp
        · unfold in3
          simp only
          split
          · simp
          · split <;> simp
  unfold boolish
  rcases key with hk | ⟨b, hk⟩ <;> rw [hk]

/-- F (TLP, row level): for every predicate of the grammar — under the code's evaluation and
under the SQL one alike — every row passes exactly one of `p`, `NOT p`, `p IS NULL`. -/
theorem c11b_tlp_exactly_one (q : Quirks) (p : Ex) (hp : p.isPred = true) (r : Row) :
    (passes q p r).toNat + (passes q p.not r).toNat + (passes q p.isNull r).toNat = 1 :=
  tlp_row q p r (isPred_boolish q p r hp)

/-- P (TLP, table level): when the predicate's value is a boolean, NULL or absent on every row
(a decidable condition on the table), the three filter results are a permutation of the input,
for every chunking of the table (even a different one for each of the three runs). -/
theorem c11b_tlp_partition_partial (q : Quirks) (p : Ex) (proj : α → Row) (cs₁ cs₂ cs₃ : List (List α))
    (h₂ : cs₂.flatten = cs₁.flatten) (h₃ : cs₃.flatten = cs₁.flatten)
    (hb : ∀ x ∈ cs₁.flatten, boolish q p (proj x) = true) :
    ((filterOp (fun x => passes q p (proj x)) cs₁).flatten ++
      (filterOp (fun x => passes q p.not (proj x)) cs₂).flatten ++
      (filterOp (fun x => passes q p.isNull (proj x)) cs₃).flatten).Perm cs₁.flatten := by
  rw [c11b_filter_flatten, c11b_filter_flatten, c11b_filter_flatten, h₂, h₃]
  exact perm_three_filters _ _ _ _ (fun x hx => tlp_row q p (proj x) (hb x hx))

/-- F (TLP): for every table, every chunking and every predicate of the grammar, the results of
the filters `p`, `NOT p` and `p IS NULL` together are a permutation of the input (multiset union
= input). `proj` reads the data columns of a row that may carry more (a position, say). -/
theorem c11b_tlp_partition (q : Quirks) (p : Ex) (hp : p.isPred = true) (proj : α → Row)
    (cs₁ cs₂ cs₃ : List (List α)) (h₂ : cs₂.flatten = cs₁.flatten) (h₃ : cs₃.flatten = cs₁.flatten) :
    ((filterOp (fun x => passes q p (proj x)) cs₁).flatten ++
      (filterOp (fun x => passes q p.not (proj x)) cs₂).flatten ++
      (filterOp (fun x => passes q p.isNull (proj x)) cs₃).flatten).Perm cs₁.flatten :=
  c11b_tlp_partition_partial q p proj cs₁ cs₂ cs₃ h₂ h₃ (fun x _ => isPred_boolish q p (proj x) hp)

/-- F (TLP by row position): number the rows of the table; the positions returned by the three
filters together are a permutation of `0, 1, …, n-1` — so every position occurs in exactly one of
the three results, exactly once (the three are pairwise disjoint and nothing is missing). -/
theorem c11b_tlp_positions (q : Quirks) (p : Ex) (hp : p.isPred = true) (rows : List Row) :
    (((rows.zipIdx.filter (fun x => passes q p x.1)).map (·.2)) ++
      ((rows.zipIdx.filter (fun x => passes q p.not x.1)).map (·.2)) ++
      ((rows.zipIdx.filter (fun x => passes q p.isNull x.1)).map (·.2))).Perm (List.range rows.length) := by
  have h := perm_three_filters (fun x : Row × Nat => passes q p x.1) (fun x => passes q p.not x.1)
    (fun x => passes q p.isNull x.1) rows.zipIdx (fun x _ => c11b_tlp_exactly_one q p hp x.1)
  have h2 := h.map (·.2)
  simp only [map_append] at h2
  refine h2.trans ?_
  have : rows.zipIdx.map (·.2) = List.range rows.length := by
    rw [zipIdx_map_snd]; simp [range_eq_range']
  rw [this]

/-- consequence: the three position lists have no position in common and none twice -/
theorem c11b_tlp_positions_nodup (q : Quirks) (p : Ex) (hp : p.isPred = true) (rows : List Row) :
    (((rows.zipIdx.filter (fun x => passes q p x.1)).map (·.2)) ++
      ((rows.zipIdx.filter (fun x => passes q p.not x.1)).map (·.2)) ++
      ((rows.zipIdx.filter (fun x => passes q p.isNull x.1)).map (·.2))).Nodup :=
  (c11b_tlp_positions q p hp rows).nodup_iff.mpr nodup_range

/-- W: the statement for *every expression* of the grammar is false for the code: a bare
variable that holds a number is returned by none of `WHERE c0`, `WHERE NOT c0`,
`WHERE c0 IS NULL`. -/
theorem c11b_tlp_nonboolean_row_lost_witness :
    let p := Ex.col 0
    let r : Row := [.int 5]
    passes Quirks.code p r = false ∧ passes Quirks.code p.not r = false ∧
      passes Quirks.code p.isNull r = false ∧ p.isPred = false ∧ boolish Quirks.code p r = false := by
  decide

/-- W: the same at table level — one row, three empty results. -/
theorem c11b_tlp_partition_fails_witness :
    let p := Ex.bin .add (.col 0) (.lit (.int 1))
    let cs : List (List Row) := [[[.int 1]], [[.bool true]]]
    (filterOp (passes Quirks.code p) cs).flatten ++ (filterOp (passes Quirks.code p.not) cs).flatten ++
      (filterOp (passes Quirks.code p.isNull) cs).flatten = [[.bool true]] := by
  decide

/-- N: non-vacuity — a table on which all three parts are non-empty, across two chunks. -/
theorem c11b_tlp_nonvacuous :
    let p := Ex.bin .lt (.col 0) (.lit (.int 3))
    let cs : List (List Row) := [[[.int 1], [.int 5]], [], [[.null], [.str [97]]]]
    (filterOp (passes Quirks.code p) cs).flatten = [[.int 1]] ∧
    (filterOp (passes Quirks.code p.not) cs).flatten = [[.int 5]] ∧
    (filterOp (passes Quirks.code p.isNull) cs).flatten = [[.null], [.str [97]]] ∧ p.isPred = true := by
  decide

/-! ## §3 the code's predicate evaluation against SQL / Cypher three-valued logic -/

/-- F: in the specification every row has exactly one truth value, so the three classes
"true / false / unknown" always partition a table. -/
theorem c11b_spec_partition (p : Ex) (rows : List Row) :
    (rows.filter (fun r => specTV p r == .t) ++ rows.filter (fun r => specTV p r == .f) ++
      rows.filter (fun r => specTV p r == .u)).Perm rows := by
  apply perm_three_filters
  intro r _
  cases specTV p r <;> decide

def BOp.isArith : BOp → Bool
  | .add | .sub | .mul | .div | .mod => true
  | _ => false

/-- value terms: literals, variables, arithmetic — nothing boolean inside -/
def Ex.valTerm : Ex → Bool
  | .lit _ => true
  | .col _ => true
  | .mis => true
  | .bin op l r => op.isArith && l.valTerm && r.valTerm
  | .un op e => op == .neg && e.valTerm
  | .inl _ _ => false

/-- the ordering fragment: `< <= > >=`, the string tests and `IS [NOT] NULL` over value terms,
combined with `AND`, `OR`, `XOR`, `NOT` (no `=`, `<>`, `IN`; no `IS NULL` of a predicate) -/
def Ex.ordPred : Ex → Bool
  | .bin op l r =>
    (match op with
     | .lt | .le | .gt | .ge | .sw | .ew | .ct => l.valTerm && r.valTerm
     | .and | .or | .xor => l.ordPred && r.ordPred
     | _ => false)
  | .un op e =>
    (match op with
     | .not => e.ordPred
     | .isNull | .notNull => e.valTerm
     | .neg => false)
  | _ => false

theorem evalBin_quirk_free (q q' : Quirks) (op : BOp) (a b : Val)
    (h : (match op with | .eq | .ne | .and | .or => false | _ => true) = true) :
    evalBin q op a b = evalBin q' op a b := by
  cases op <;> simp at h <;> rfl

theorem evalQ_bin_strict (q : Quirks) (op : BOp) (l r : Ex) (row : Row)
    (h : (q.strictBool || !(op == .and || op == .or)) = true) :
    evalQ q (.bin op l r) row =
      (match evalQ q l row, evalQ q r row with
       | some a, some b => evalBin q op a b
       | _, _ => none) := by
  rw [evalQ]
  split
  · rename_i hc
    simp only [Bool.and_eq_true, Bool.not_eq_true'] at hc
    simp [hc.1, hc.2] at h
  · rfl

/-- value terms evaluate alike under the code's and under SQL's rules -/
theorem valTerm_indep (q q' : Quirks) : (e : Ex) → e.valTerm = true → ∀ row, evalQ q e row = evalQ q' e row
  | .lit _, _, _ => by simp [evalQ]
  | .col _, _, _ => by simp [evalQ]
  | .mis, _, _ => by simp [evalQ]
  | .bin op l r, h, row => by
    simp only [Ex.valTerm, Bool.and_eq_true] at h
    have hop : (op == .and || op == .or) = false := by cases op <;> simp [BOp.isArith] at h ⊢
    rw [evalQ_bin_strict q op l r row (by simp [hop]), evalQ_bin_strict q' op l r row (by simp [hop]),
      valTerm_indep q q' l h.1.2 row, valTerm_indep q q' r h.2 row]
    cases evalQ q' l row <;> cases evalQ q' r row <;> try rfl
    apply evalBin_quirk_free
    cases op <;> simp [BOp.isArith] at h ⊢
  | .un op e, h, row => by
    simp only [Ex.valTerm, Bool.and_eq_true] at h
    rw [evalQ_un, evalQ_un, valTerm_indep q q' e h.2 row]
  | .inl _ _, h, _ => by simp [Ex.valTerm] at h

theorem and3_of_bools (x y : Bool) : and3 (some (.bool x)) (some (.bool y)) = some (.bool (x && y)) := by
  cases x <;> cases y <;> rfl

theorem or3_of_bools (x y : Bool) : or3 (some (.bool x)) (some (.bool y)) = some (.bool (x || y)) := by
  cases x <;> cases y <;> rfl

theorem evalQ_sql_and (l r : Ex) (row : Row) :
    evalQ Quirks.sql (.bin .and l r) row = and3 (evalQ Quirks.sql l row) (evalQ Quirks.sql r row) := by
  rw [evalQ]; rfl

theorem evalQ_sql_or (l r : Ex) (row : Row) :
    evalQ Quirks.sql (.bin .or l r) row = or3 (evalQ Quirks.sql l row) (evalQ Quirks.sql r row) := by
  rw [evalQ]; rfl

theorem asBool_some (v : Val) (b : Bool) (h : asBool v = some b) : v = .bool b := by
  cases v <;> simp [asBool] at h; rw [h]

/-- on the ordering fragment a definite answer of the code is the answer of SQL -/
theorem ordPred_sound : (e : Ex) → e.ordPred = true → ∀ row b,
    evalQ Quirks.code e row = some (.bool b) → evalQ Quirks.sql e row = some (.bool b)
  | .lit _, h, _, _ => by simp [Ex.ordPred] at h
  | .col _, h, _, _ => by simp [Ex.ordPred] at h
  | .mis, h, _, _ => by simp [Ex.ordPred] at h
  | .inl _ _, h, _, _ => by simp [Ex.ordPred] at h
  | .un op e, h, row, b => by
    intro hv
    rw [evalQ_un] at hv ⊢
    cases op with
    | neg => simp [Ex.ordPred] at h
    | isNull =>
      simp only [Ex.ordPred] at h
      rw [← valTerm_indep Quirks.code Quirks.sql e h row]; exact hv
    | notNull =>
      simp only [Ex.ordPred] at h
      rw [← valTerm_indep Quirks.code Quirks.sql e h row]; exact hv
    | not =>
      simp only [Ex.ordPred] at h
      cases hc : evalQ Quirks.code e row with
      | none => simp [hc, evalUn] at hv
      | some v =>
        cases v with
        | bool x =>
          rw [ordPred_sound e h row x hc]
          rw [hc] at hv; exact hv
        | null => simp [hc, evalUn, asBool] at hv
        | int _ => simp [hc, evalUn, asBool] at hv
        | flt _ => simp [hc, evalUn, asBool] at hv
        | str _ => simp [hc, evalUn, asBool] at hv
  | .bin op l r, h, row, b => by
    intro hv
    rw [evalQ_bin_strict Quirks.code op l r row (by simp [Quirks.code])] at hv
    cases hl : evalQ Quirks.code l row with
    | none => simp [hl] at hv
    | some x =>
      cases hr : evalQ Quirks.code r row with
      | none => simp [hl, hr] at hv
      | some y =>
        simp only [hl, hr] at hv
        simp only [Ex.ordPred] at h
        cases op with
        | eq => simp at h
        | ne => simp at h
        | add => simp at h
        | sub => simp at h
        | mul => simp at h
        | div => simp at h
        | mod => simp at h
        | and =>
          simp only [Bool.and_eq_true] at h
          simp only [evalBin, Quirks.code, if_true] at hv
          cases hx : asBool x with
          | none => simp [hx] at hv
          | some bx =>
            cases hy : asBool y with
            | none => simp [hx, hy] at hv
            | some by' =>
              simp only [hx, hy, Option.bind_eq_bind, Option.bind_some, Option.pure_def, Option.some.injEq,
                Val.bool.injEq] at hv
              have ex := asBool_some x bx hx
              have ey := asBool_some y by' hy
              subst ex ey
              rw [evalQ_sql_and, ordPred_sound l h.1 row bx hl, ordPred_sound r h.2 row by' hr, and3_of_bools, hv]
        | or =>
          simp only [Bool.and_eq_true] at h
          simp only [evalBin, Quirks.code, if_true] at hv
          cases hx : asBool x with
          | none => simp [hx] at hv
          | some bx =>
            cases hy : asBool y with
            | none => simp [hx, hy] at hv
            | some by' =>
              simp only [hx, hy, Option.bind_eq_bind, Option.bind_some, Option.pure_def, Option.some.injEq,
                Val.bool.injEq] at hv
              have ex := asBool_some x bx hx
              have ey := asBool_some y by' hy
              subst ex ey
              rw [evalQ_sql_or, ordPred_sound l h.1 row bx hl, ordPred_sound r h.2 row by' hr, or3_of_bools, hv]
        | xor =>
          simp only [Bool.and_eq_true] at h
          rw [evalQ_bin_strict Quirks.sql .xor l r row (by decide)]
          have key : ∀ v : Val, (∃ z, asBool v = some z) → ∃ z, v = .bool z :=
            fun v ⟨z, hz⟩ => ⟨z, asBool_some v z hz⟩
          simp only [evalBin] at hv
          cases hx : asBool x with
          | none => simp [hx] at hv
          | some bx =>
            cases hy : asBool y with
            | none => simp [hx, hy] at hv
            | some by' =>
              have ex := asBool_some x bx hx
              have ey := asBool_some y by' hy
              subst ex ey
              rw [ordPred_sound l h.1 row bx hl, ordPred_sound r h.2 row by' hr]
              exact hv
        | lt =>
          simp only [Bool.and_eq_true] at h
          rw [evalQ_bin_strict Quirks.sql _ l r row (by decide),
            ← valTerm_indep Quirks.code Quirks.sql l h.1 row, ← valTerm_indep Quirks.code Quirks.sql r h.2 row, hl, hr]
          exact hv
        | le =>
          simp only [Bool.and_eq_true] at h
          rw [evalQ_bin_strict Quirks.sql _ l r row (by decide),
            ← valTerm_indep Quirks.code Quirks.sql l h.1 row, ← valTerm_indep Quirks.code Quirks.sql r h.2 row, hl, hr]
          exact hv
        | gt =>
          simp only [Bool.and_eq_true] at h
          rw [evalQ_bin_strict Quirks.sql _ l r row (by decide),
            ← valTerm_indep Quirks.code Quirks.sql l h.1 row, ← valTerm_indep Quirks.code Quirks.sql r h.2 row, hl, hr]
          exact hv
        | ge =>
          simp only [Bool.and_eq_true] at h
          rw [evalQ_bin_strict Quirks.sql _ l r row (by decide),
            ← valTerm_indep Quirks.code Quirks.sql l h.1 row, ← valTerm_indep Quirks.code Quirks.sql r h.2 row, hl, hr]
          exact hv
        | sw =>
          simp only [Bool.and_eq_true] at h
          rw [evalQ_bin_strict Quirks.sql _ l r row (by decide),
            ← valTerm_indep Quirks.code Quirks.sql l h.1 row, ← valTerm_indep Quirks.code Quirks.sql r h.2 row, hl, hr]
          exact hv
        | ew =>
          simp only [Bool.and_eq_true] at h
          rw [evalQ_bin_strict Quirks.sql _ l r row (by decide),
            ← valTerm_indep Quirks.code Quirks.sql l h.1 row, ← valTerm_indep Quirks.code Quirks.sql r h.2 row, hl, hr]
          exact hv
        | ct =>
          simp only [Bool.and_eq_true] at h
          rw [evalQ_bin_strict Quirks.sql _ l r row (by decide),
            ← valTerm_indep Quirks.code Quirks.sql l h.1 row, ← valTerm_indep Quirks.code Quirks.sql r h.2 row, hl, hr]
          exact hv

/-- P: on the ordering fragment (comparisons `< <= > >=`, string tests and `IS [NOT] NULL` over
value terms, under `AND` / `OR` / `XOR` / `NOT`) the code never returns a wrong row: what
`WHERE p` returns is true in SQL's three-valued logic and what `WHERE NOT p` returns is false.
(The code may call "unknown" what SQL decides — `c11b_and_not_kleene_witness`.) -/
theorem c11b_code_sound_on_ordering_fragment_partial (p : Ex) (hp : p.ordPred = true) (r : Row) :
    (passes Quirks.code p r = true → specTV p r = .t) ∧
    (passes Quirks.code p.not r = true → specTV p r = .f) := by
  constructor
  · intro h
    unfold passes at h
    have := ordPred_sound p hp r true (by simpa using h)
    unfold specTV; rw [this]; rfl
  · intro h
    unfold passes Ex.not at h
    rw [evalQ_un] at h
    have hv : evalQ Quirks.code p r = some (.bool false) := by
      cases hc : evalQ Quirks.code p r with
      | none => simp [hc, evalUn] at h
      | some v =>
        cases v with
        | bool x => cases x <;> simp [hc, evalUn, asBool] at h ⊢
        | null => simp [hc, evalUn, asBool] at h
        | int _ => simp [hc, evalUn, asBool] at h
        | flt _ => simp [hc, evalUn, asBool] at h
        | str _ => simp [hc, evalUn, asBool] at h
    have := ordPred_sound p hp r false hv
    unfold specTV; rw [this]; rfl

/-- W (AND / OR are not Kleene's): `c0 < 3 AND c1 < 3` on the row (5, NULL) is false in SQL
(`false AND unknown`), so the row belongs to `WHERE NOT p`; the code puts it into `p IS NULL`. -/
theorem c11b_and_not_kleene_witness :
    let p := Ex.bin .and (.bin .lt (.col 0) (.lit (.int 3))) (.bin .lt (.col 1) (.lit (.int 3)))
    let r : Row := [.int 5, .null]
    specTV p r = .f ∧ passes Quirks.code p.not r = false ∧ passes Quirks.code p.isNull r = true ∧
      p.ordPred = true := by
  decide

/-- W (NULL compared as a value): `c0 = c1` on (NULL, NULL) is unknown in SQL; the code returns
the row from `WHERE c0 = c1`. And `c0 <> c1` on (NULL, 1) is unknown; the code returns the row. -/
theorem c11b_null_compared_as_value_witness :
    specTV (.bin .eq (.col 0) (.col 1)) [.null, .null] = .u ∧
    passes Quirks.code (.bin .eq (.col 0) (.col 1)) [.null, .null] = true ∧
    specTV (.bin .ne (.col 0) (.col 1)) [.null, .int 1] = .u ∧
    passes Quirks.code (.bin .ne (.col 0) (.col 1)) [.null, .int 1] = true := by
  decide

/-- W (epsilon equality): 1.0 and its predecessor 0.99999999999999989 are different numbers; the
code returns the row from `WHERE c0 = c1` — and also from `WHERE c0 > c1`. -/
theorem c11b_float_eq_epsilon_witness :
    let r : Row := [.flt 0x3ff0000000000000, .flt 0x3fefffffffffffff]
    specTV (.bin .eq (.col 0) (.col 1)) r = .f ∧ passes Quirks.code (.bin .eq (.col 0) (.col 1)) r = true ∧
      passes Quirks.code (.bin .gt (.col 0) (.col 1)) r = true := by
  decide +kernel

/-- W (IN is two-valued): `c0 IN [1, NULL]` on the row (0) is unknown in SQL; the code calls it
false and returns the row from `WHERE NOT (c0 IN [1, NULL])`. -/
theorem c11b_in_two_valued_witness :
    let p := Ex.inl (.col 0) (.cons (.lit (.int 1)) (.cons (.lit .null) .nil))
    let r : Row := [.int 0]
    specTV p r = .u ∧ passes Quirks.code p.not r = true := by
  decide

/-- N: the soundness theorem is not vacuous: a fragment predicate with all three outcomes. -/
theorem c11b_code_sound_nonvacuous :
    let p := Ex.bin .or (.bin .lt (.bin .div (.lit (.int 6)) (.col 0)) (.lit (.int 3))) (.un .isNull (.col 1))
    p.ordPred = true ∧ passes Quirks.code p [.int 3, .int 0] = true ∧ passes Quirks.code p.not [.int 1, .int 0] = true ∧
      passes Quirks.code p.isNull [.int 0, .int 0] = true := by
  decide

/-! ## §4 SortOperator -/

section GenericSort

/-- the comparison is transitive on the elements of the list -/
def TransOn (le : α → α → Bool) (l : List α) : Prop :=
  ∀ a ∈ l, ∀ b ∈ l, ∀ c ∈ l, le a b = true → le b c = true → le a c = true

/-- any two elements of the list compare one way or the other -/
def TotalOn (le : α → α → Bool) (l : List α) : Prop :=
  ∀ a ∈ l, ∀ b ∈ l, (le a b || le b a) = true

instance (le : α → α → Bool) (l : List α) : Decidable (TransOn le l) := by
  unfold TransOn; infer_instance

instance (le : α → α → Bool) (l : List α) : Decidable (TotalOn le l) := by
  unfold TotalOn; infer_instance

/-- merge sort only ever compares elements of its input: it can be run on the subtype of members -/
theorem mergeSort_eq_attach (le : α → α → Bool) (l : List α) :
    l.mergeSort le = (l.attach.mergeSort (fun a b => le a.1 b.1)).map Subtype.val := by
  have h := map_mergeSort (r := fun (a b : {x // x ∈ l}) => le a.1 b.1) (s := le)
    (f := Subtype.val) (l := l.attach) (fun _ _ _ _ => rfl)
  rw [h, attach_map_subtype_val]

/-- sorted: with a comparison that is transitive and total on the rows present -/
theorem pairwise_mergeSort_on (le : α → α → Bool) (l : List α) (ht : TransOn le l) (hto : TotalOn le l) :
    (l.mergeSort le).Pairwise (fun a b => le a b = true) := by
  rw [mergeSort_eq_attach, pairwise_map]
  exact pairwise_mergeSort (le := fun (a b : {x // x ∈ l}) => le a.1 b.1)
    (fun a b c => ht a.1 a.2 b.1 b.2 c.1 c.2) (fun a b => hto a.1 a.2 b.1 b.2) l.attach

/-- stable: the rows that compare equal to `a` keep their input order -/
theorem stable_mergeSort_on (le : α → α → Bool) (l : List α) (ht : TransOn le l) (hto : TotalOn le l)
    (a : α) (ha : a ∈ l) :
    (l.mergeSort le).filter (fun x => le a x && le x a) = l.filter (fun x => le a x && le x a) := by
  let le' : {x // x ∈ l} → {x // x ∈ l} → Bool := fun x y => le x.1 y.1
  let E : {x // x ∈ l} → Bool := fun x => le a x.1 && le x.1 a
  have htr : ∀ x y z : {x // x ∈ l}, le' x y = true → le' y z = true → le' x z = true :=
    fun x y z => ht x.1 x.2 y.1 y.2 z.1 z.2
  have hto' : ∀ x y : {x // x ∈ l}, (le' x y || le' y x) = true := fun x y => hto x.1 x.2 y.1 y.2
  have hc : (l.attach.filter E).Pairwise (fun x y => le' x y = true) := by
    refine Pairwise.imp_of_mem ?_ (pairwise_of_forall (R := fun _ _ => True) (fun _ _ => trivial))
    intro x y hx hy _
    have ex := (mem_filter.mp hx).2
    have ey := (mem_filter.mp hy).2
    simp only [E, Bool.and_eq_true] at ex ey
    exact ht x.1 x.2 a ha y.1 y.2 ex.2 ey.1
  have hsub : l.attach.filter E <+ l.attach.mergeSort le' :=
    sublist_mergeSort htr hto' hc filter_sublist
  have hsub2 : l.attach.filter E <+ (l.attach.mergeSort le').filter E := by
    have := hsub.filter E
    rwa [filter_filter, show (fun x => E x && E x) = E from by funext x; simp] at this
  have hlen : (l.attach.filter E).length = ((l.attach.mergeSort le').filter E).length :=
    ((mergeSort_perm l.attach le').filter E).length_eq.symm
  have heq := hsub2.eq_of_length hlen
  rw [mergeSort_eq_attach]
  have e1 : ((l.attach.mergeSort le').map Subtype.val).filter (fun x => le a x && le x a) =
      ((l.attach.mergeSort le').filter E).map Subtype.val := by
    rw [filter_map]; rfl
  have e2 : l.filter (fun x => le a x && le x a) = (l.attach.filter E).map Subtype.val := by
    conv => lhs; rw [← attach_map_subtype_val l]
    rw [filter_map]; rfl
  rw [e1, e2, heq]

end GenericSort

theorem rechunk_flatten (size : Nat) (hs : 0 < size) (fuel : Nat) (rows : List α)
    (hf : rows.length ≤ fuel) : (rechunk size fuel rows).flatten = rows := by
  induction fuel generalizing rows with
  | zero =>
    have : rows = [] := length_eq_zero_iff.mp (by omega)
    subst this; rfl
  | succ f ih =>
    unfold rechunk
    split
    · rename_i he
      have : rows = [] := by simpa using he
      subst this; rfl
    · rename_i hne
      have hpos : 0 < rows.length := by
        cases rows with
        | nil => simp at hne
        | cons _ _ => simp
      rw [flatten_cons, ih (rows.drop size) (by simp; omega), take_append_drop]

theorem rechunkAll_flatten (size : Nat) (hs : 0 < size) (rows : List α) :
    (rechunkAll size rows).flatten = rows :=
  rechunk_flatten size hs rows.length rows (Nat.le_refl _)

/-- F: the flat output of `SortOperator` is the stable merge sort of the flat input. -/
theorem c11b_sort_flatten (cap : Nat) (hc : 0 < cap) (keys : List SortKey) (cs : List (List Row)) :
    (sortOp cap keys cs).flatten = cs.flatten.mergeSort (rowLe keys) := by
  unfold sortOp; rw [rechunkAll_flatten cap hc]

/-- F: ORDER BY returns a permutation of its input — for every comparator, every chunking. -/
theorem c11b_sort_perm (cap : Nat) (hc : 0 < cap) (keys : List SortKey) (cs : List (List Row)) :
    (sortOp cap keys cs).flatten.Perm cs.flatten := by
  rw [c11b_sort_flatten cap hc]; exact mergeSort_perm _ _

/-- F: the result — chunk structure included — depends on the rows only, not on how the child
cut them into chunks. -/
theorem c11b_sort_chunking_irrelevant (cap : Nat) (keys : List SortKey) (cs cs' : List (List Row))
    (h : cs.flatten = cs'.flatten) : sortOp cap keys cs = sortOp cap keys cs' := by
  unfold sortOp; rw [h]

/-- P: sorted under the engine's comparator, provided that comparator is transitive and total on
the rows present (decidable conditions on the table; see `c11b_rowLe_total`,
`c11b_rowLe_trans_ordered_partial` for when they hold). -/
theorem c11b_sort_sorted_partial (cap : Nat) (hc : 0 < cap) (keys : List SortKey) (cs : List (List Row))
    (ht : TransOn (rowLe keys) cs.flatten) (hto : TotalOn (rowLe keys) cs.flatten) :
    (sortOp cap keys cs).flatten.Pairwise (fun a b => rowLe keys a b = true) := by
  rw [c11b_sort_flatten cap hc]; exact pairwise_mergeSort_on _ _ ht hto

/-- P: stable — the rows whose keys compare equal to those of a row `a` come out in their input
order (same hypotheses). -/
theorem c11b_sort_stable_partial (cap : Nat) (hc : 0 < cap) (keys : List SortKey) (cs : List (List Row))
    (ht : TransOn (rowLe keys) cs.flatten) (hto : TotalOn (rowLe keys) cs.flatten)
    (a : Row) (ha : a ∈ cs.flatten) :
    (sortOp cap keys cs).flatten.filter (fun x => rowLe keys a x && rowLe keys x a) =
      cs.flatten.filter (fun x => rowLe keys a x && rowLe keys x a) := by
  rw [c11b_sort_flatten cap hc]; exact stable_mergeSort_on _ _ ht hto a ha

/-! ### the engine's comparator: total; transitive on columns of one kind -/

section Comparator

theorem flipOrd_flipOrd (o : Ordering) : flipOrd (flipOrd o) = o := by cases o <;> rfl

theorem flipOrd_eq_eq (o : Ordering) : flipOrd o = .eq ↔ o = .eq := by cases o <;> simp [flipOrd]

/-- a three-way comparison that behaves like the comparison of a linear preorder on the set `S`:
antisymmetric, `<` transitive, and "equal" elements compare alike with everything -/
structure OrdOK {β : Type} (cmp : β → β → Ordering) (S : β → Prop) : Prop where
  flip : ∀ a b, S a → S b → cmp b a = flipOrd (cmp a b)
  ltlt : ∀ a b c, S a → S b → S c → cmp a b = .lt → cmp b c = .lt → cmp a c = .lt
  eql : ∀ a b c, S a → S b → S c → cmp a b = .eq → cmp a c = cmp b c

variable {β : Type}

theorem OrdOK.eqr {cmp : β → β → Ordering} {S : β → Prop} (h : OrdOK cmp S) (a b c : β)
    (ha : S a) (hb : S b) (hc : S c) (hbc : cmp b c = .eq) : cmp a c = cmp a b := by
  have h1 : cmp c b = .eq := by rw [h.flip b c hb hc, hbc]; rfl
  have h2 := h.eql c b a hc hb ha h1
  rw [h.flip c a hc ha, h.flip b a hb ha, h2]

theorem OrdOK.gtgt {cmp : β → β → Ordering} {S : β → Prop} (h : OrdOK cmp S) (a b c : β)
    (ha : S a) (hb : S b) (hc : S c) (h1 : cmp a b = .gt) (h2 : cmp b c = .gt) : cmp a c = .gt := by
  have e1 : cmp b a = .lt := by rw [h.flip a b ha hb, h1]; rfl
  have e2 : cmp c b = .lt := by rw [h.flip b c hb hc, h2]; rfl
  have := h.ltlt c b a hc hb ha e2 e1
  rw [h.flip c a hc ha, this]; rfl

/-- `≤` (= "not greater") is transitive -/
theorem OrdOK.le_trans {cmp : β → β → Ordering} {S : β → Prop} (h : OrdOK cmp S) (a b c : β)
    (ha : S a) (hb : S b) (hc : S c) (h1 : cmp a b ≠ .gt) (h2 : cmp b c ≠ .gt) : cmp a c ≠ .gt := by
  cases e1 : cmp a b with
  | gt => exact absurd e1 h1
  | eq => rw [h.eql a b c ha hb hc e1]; exact h2
  | lt =>
    cases e2 : cmp b c with
    | gt => exact absurd e2 h2
    | eq => rw [h.eqr a b c ha hb hc e2, e1]; simp
    | lt => rw [h.ltlt a b c ha hb hc e1 e2]; simp

theorem OrdOK.flipped {cmp : β → β → Ordering} {S : β → Prop} (h : OrdOK cmp S) :
    OrdOK (fun a b => flipOrd (cmp a b)) S where
  flip a b ha hb := by
    show flipOrd (cmp b a) = flipOrd (flipOrd (cmp a b))
    rw [h.flip a b ha hb]
  ltlt a b c ha hb hc h1 h2 := by
    have h1' : flipOrd (cmp a b) = .lt := h1
    have h2' : flipOrd (cmp b c) = .lt := h2
    have e1 : cmp a b = .gt := by cases e : cmp a b <;> simp [e, flipOrd] at h1' ⊢
    have e2 : cmp b c = .gt := by cases e : cmp b c <;> simp [e, flipOrd] at h2' ⊢
    show flipOrd (cmp a c) = .lt
    rw [h.gtgt a b c ha hb hc e1 e2]; rfl
  eql a b c ha hb hc h1 := by
    have h1' : flipOrd (cmp a b) = .eq := h1
    show flipOrd (cmp a c) = flipOrd (cmp b c)
    rw [h.eql a b c ha hb hc ((flipOrd_eq_eq _).mp h1')]

theorem OrdOK.lex {c1 c2 : β → β → Ordering} {S : β → Prop} (h1 : OrdOK c1 S) (h2 : OrdOK c2 S) :
    OrdOK (fun a b => if c1 a b = .eq then c2 a b else c1 a b) S where
  flip a b ha hb := by
    show (if c1 b a = .eq then c2 b a else c1 b a) = flipOrd (if c1 a b = .eq then c2 a b else c1 a b)
    rw [h1.flip a b ha hb, h2.flip a b ha hb]
    cases c1 a b <;> simp [flipOrd]
  ltlt a b c ha hb hc e1 e2 := by
    have e1 : (if c1 a b = .eq then c2 a b else c1 a b) = .lt := e1
    have e2 : (if c1 b c = .eq then c2 b c else c1 b c) = .lt := e2
    show (if c1 a c = .eq then c2 a c else c1 a c) = .lt
    by_cases x : c1 a b = .eq
    · rw [if_pos x] at e1
      rw [h1.eql a b c ha hb hc x]
      by_cases y : c1 b c = .eq
      · rw [if_pos y] at e2 ⊢; exact h2.ltlt a b c ha hb hc e1 e2
      · rw [if_neg y] at e2 ⊢; exact e2
    · rw [if_neg x] at e1
      by_cases y : c1 b c = .eq
      · rw [if_pos y] at e2
        have : c1 a c = .lt := by rw [h1.eqr a b c ha hb hc y]; exact e1
        rw [this]; simp
      · rw [if_neg y] at e2
        have : c1 a c = .lt := h1.ltlt a b c ha hb hc e1 e2
        rw [this]; simp
  eql a b c ha hb hc e := by
    have e : (if c1 a b = .eq then c2 a b else c1 a b) = .eq := e
    show (if c1 a c = .eq then c2 a c else c1 a c) = (if c1 b c = .eq then c2 b c else c1 b c)
    by_cases x : c1 a b = .eq
    · rw [if_pos x] at e
      rw [h1.eql a b c ha hb hc x, h2.eql a b c ha hb hc e]
    · rw [if_neg x] at e; exact absurd e x

theorem OrdOK.comap {γ : Type} {cmp : β → β → Ordering} {S : β → Prop} (h : OrdOK cmp S) (f : γ → β) :
    OrdOK (fun a b => cmp (f a) (f b)) (fun a => S (f a)) where
  flip a b ha hb := h.flip (f a) (f b) ha hb
  ltlt a b c ha hb hc := h.ltlt (f a) (f b) (f c) ha hb hc
  eql a b c ha hb hc := h.eql (f a) (f b) (f c) ha hb hc

theorem OrdOK.mono {cmp : β → β → Ordering} {S T : β → Prop} (h : OrdOK cmp S) (hT : ∀ a, T a → S a) :
    OrdOK cmp T where
  flip a b ha hb := h.flip a b (hT a ha) (hT b hb)
  ltlt a b c ha hb hc := h.ltlt a b c (hT a ha) (hT b hb) (hT c hc)
  eql a b c ha hb hc := h.eql a b c (hT a ha) (hT b hb) (hT c hc)

theorem cmpInt_flip (a b : Int) : compare b a = flipOrd (compare a b) := by
  rcases Int.lt_trichotomy a b with h | h | h
  · rw [Int.compare_eq_lt.mpr h, Int.compare_eq_gt.mpr h]; rfl
  · subst h; rw [Int.compare_eq_eq.mpr rfl]; rfl
  · rw [Int.compare_eq_gt.mpr h, Int.compare_eq_lt.mpr h]; rfl

/-- a comparison given by an integer rank is a linear preorder comparison -/
theorem OrdOK.of_rank (cmp : β → β → Ordering) (S : β → Prop) (f : β → Int)
    (h : ∀ a b, S a → S b → cmp a b = compare (f a) (f b)) : OrdOK cmp S where
  flip a b ha hb := by rw [h b a hb ha, h a b ha hb, cmpInt_flip]
  ltlt a b c ha hb hc e1 e2 := by
    rw [h a b ha hb, Int.compare_eq_lt] at e1
    rw [h b c hb hc, Int.compare_eq_lt] at e2
    rw [h a c ha hc, Int.compare_eq_lt]; omega
  eql a b c ha hb hc e := by
    rw [h a b ha hb, Int.compare_eq_eq] at e
    rw [h a c ha hc, h b c hb hc, e]

theorem cmpBytes_flip : ∀ a b : List Nat, cmpBytes b a = flipOrd (cmpBytes a b)
  | [], [] => rfl
  | [], _ :: _ => rfl
  | _ :: _, [] => rfl
  | x :: xs, y :: ys => by
    simp only [cmpBytes]
    by_cases h1 : x < y
    · have : ¬ y < x := by omega
      simp [h1, this, flipOrd]
    · by_cases h2 : y < x
      · simp [h1, h2, flipOrd]
      · simp [h1, h2, cmpBytes_flip xs ys]

theorem cmpBytes_eq : ∀ a b : List Nat, cmpBytes a b = .eq → a = b
  | [], [], _ => rfl
  | [], _ :: _, h => by simp [cmpBytes] at h
  | _ :: _, [], h => by simp [cmpBytes] at h
  | x :: xs, y :: ys, h => by
    simp only [cmpBytes] at h
    by_cases h1 : x < y
    · simp [h1] at h
    · by_cases h2 : y < x
      · simp [h1, h2] at h
      · simp only [h1, h2, if_false] at h
        have : x = y := by omega
        rw [this, cmpBytes_eq xs ys h]

theorem cmpBytes_ltlt : ∀ a b c : List Nat, cmpBytes a b = .lt → cmpBytes b c = .lt → cmpBytes a c = .lt
  | [], [], _, h, _ => by simp [cmpBytes] at h
  | [], _ :: _, [], _, h => by simp [cmpBytes] at h
  | [], _ :: _, _ :: _, _, _ => rfl
  | _ :: _, [], _, h, _ => by simp [cmpBytes] at h
  | _ :: _, _ :: _, [], _, h => by simp [cmpBytes] at h
  | x :: xs, y :: ys, z :: zs, h1, h2 => by
    simp only [cmpBytes] at h1 h2 ⊢
    by_cases a1 : x < y
    · by_cases b1 : y < z
      · have : x < z := by omega
        simp [this]
      · by_cases b2 : z < y
        · simp [b1, b2] at h2
        · have : x < z := by omega
          simp [this]
    · by_cases a2 : y < x
      · simp [a1, a2] at h1
      · simp only [a1, a2, if_false] at h1
        by_cases b1 : y < z
        · have : x < z := by omega
          simp [this]
        · by_cases b2 : z < y
          · simp [b1, b2] at h2
          · simp only [b1, b2, if_false] at h2
            have e1 : ¬ x < z := by omega
            have e2 : ¬ z < x := by omega
            simp only [e1, e2, if_false]
            exact cmpBytes_ltlt xs ys zs h1 h2

theorem cmpBytes_ok : OrdOK cmpBytes (fun _ => True) where
  flip a b _ _ := cmpBytes_flip a b
  ltlt a b c _ _ _ := cmpBytes_ltlt a b c
  eql a b c _ _ _ h := by rw [cmpBytes_eq a b h]

/-- the value comparator of sort.rs on the values of one kind -/
theorem sortCmpVals_ok (K : Nat) : OrdOK sortCmpVals (fun v => kind1 v = K ∧ K ≠ 0) := by
  by_cases hK : K = 2
  · -- strings: byte order
    subst hK
    have hs : ∀ v : Val, kind1 v = 2 → ∃ t, v = .str t := by
      intro v hv
      cases v with
      | str t => exact ⟨t, rfl⟩
      | flt f => simp only [kind1] at hv; split at hv <;> omega
      | null => simp [kind1] at hv
      | bool _ => simp [kind1] at hv
      | int _ => simp [kind1] at hv
    refine ⟨?_, ?_, ?_⟩
    · intro a b ha hb
      obtain ⟨x, rfl⟩ := hs a ha.1
      obtain ⟨y, rfl⟩ := hs b hb.1
      exact cmpBytes_flip x y
    · intro a b c ha hb hc
      obtain ⟨x, rfl⟩ := hs a ha.1
      obtain ⟨y, rfl⟩ := hs b hb.1
      obtain ⟨z, rfl⟩ := hs c hc.1
      exact cmpBytes_ltlt x y z
    · intro a b c ha hb hc e
      obtain ⟨x, rfl⟩ := hs a ha.1
      obtain ⟨y, rfl⟩ := hs b hb.1
      obtain ⟨z, rfl⟩ := hs c hc.1
      have : x = y := cmpBytes_eq x y e
      rw [this]
  · -- every other kind has an integer rank
    apply OrdOK.of_rank sortCmpVals _ (fun v => match v with
      | .bool b => (b.toNat : Int)
      | .int i => i
      | .flt b => if F64.isNaN b then 0 else F64.key b
      | _ => 0)
    intro a b ⟨ha, h0⟩ ⟨hb, _⟩
    cases a with
    | null => simp [kind1] at ha; omega
    | str s => simp [kind1] at ha; omega
    | bool x =>
      cases b with
      | bool y =>
        simp only [sortCmpVals]
        cases x <;> cases y <;> decide
      | null => simp [kind1] at ha hb; omega
      | int _ => simp [kind1] at ha hb; omega
      | str _ => simp [kind1] at ha hb; omega
      | flt f => simp only [kind1] at ha hb; split at hb <;> omega
    | int x =>
      cases b with
      | int y => simp [sortCmpVals]
      | null => simp [kind1] at ha hb; omega
      | bool _ => simp [kind1] at ha hb; omega
      | str _ => simp [kind1] at ha hb; omega
      | flt f => simp only [kind1] at ha hb; split at hb <;> omega
    | flt x =>
      cases b with
      | flt y =>
        simp only [kind1] at ha hb
        simp only [sortCmpVals, F64.partialCmp]
        by_cases nx : F64.isNaN x = true <;> by_cases ny : F64.isNaN y = true
        · simp [nx, ny]
        · simp [nx, ny] at ha hb; omega
        · simp [nx, ny] at ha hb; omega
        · simp [nx, ny]
      | null => simp only [kind1] at ha hb; split at ha <;> omega
      | bool _ => simp only [kind1] at ha hb; split at ha <;> omega
      | str _ => simp only [kind1] at ha hb; split at ha <;> omega
      | int _ => simp only [kind1] at ha hb; split at ha <;> omega

theorem kind1_eq_zero (v : Val) : kind1 v = 0 ↔ v = .null := by
  cases v with
  | flt f => simp only [kind1]; split <;> simp
  | null => simp [kind1]
  | bool _ => simp [kind1]
  | int _ => simp [kind1]
  | str _ => simp [kind1]

theorem mem_dedupInts (a : Int) (l : List Int) : a ∈ dedupInts l ↔ a ∈ l := by
  induction l with
  | nil => simp [dedupInts]
  | cons x xs ih =>
    simp only [dedupInts]
    split
    · rename_i hx
      rw [ih]
      constructor
      · intro h; exact mem_cons_of_mem _ h
      · intro h
        rcases mem_cons.mp h with rfl | h
        · exact (ih_of hx)
        · exact h
    · simp [ih]
where
  ih_of {a : Int} {xs : List Int} (h : a ∈ dedupInts xs) : a ∈ xs := by
    induction xs with
    | nil => simp [dedupInts] at h
    | cons y ys ih =>
      simp only [dedupInts] at h
      split at h
      · exact mem_cons_of_mem _ (ih h)
      · rcases mem_cons.mp h with rfl | h
        · simp
        · exact mem_cons_of_mem _ (ih h)

/-- integers whose conversion is monotone, together with the non-NaN floats: the numeric kind -/
def NumOK (ints : List Int) : Val → Prop
  | .int a => a ∈ ints
  | .flt b => F64.isNaN b = false
  | _ => False

theorem convMonotone_spec (ints : List Int) (h : convMonotone ints = true) :
    (∀ a ∈ ints, F64.isNaN (F64.i64ToF64 a) = false) ∧
    (∀ a ∈ ints, ∀ b ∈ ints, a < b → convKey a < convKey b) := by
  unfold convMonotone at h
  simp only [all_eq_true, mem_map, Bool.and_eq_true, Bool.not_eq_true', Bool.or_eq_true, decide_eq_true_eq,
    forall_exists_index, and_imp, forall_apply_eq_imp_iff₂] at h
  refine ⟨fun a ha => (h a ha).1, fun a ha b hb hab => ?_⟩
  have := (h a ha).2 b hb
  rcases this with h1 | h1
  · simp at h1; omega
  · exact h1

/-- the value comparator on a numeric column -/
theorem sortCmpVals_num_ok (ints : List Int) (h : convMonotone ints = true) :
    OrdOK sortCmpVals (NumOK ints) := by
  obtain ⟨hnan, hmono⟩ := convMonotone_spec ints h
  apply OrdOK.of_rank sortCmpVals _ (fun v => match v with
    | .int a => convKey a
    | .flt b => F64.key b
    | _ => 0)
  intro a b ha hb
  have cmpk : ∀ x y : Int, x ∈ ints → y ∈ ints → compare x y = compare (convKey x) (convKey y) := by
    intro x y hx hy
    rcases Int.lt_trichotomy x y with hh | hh | hh
    · rw [Int.compare_eq_lt.mpr hh, Int.compare_eq_lt.mpr (hmono x hx y hy hh)]
    · subst hh; rw [Int.compare_eq_eq.mpr rfl, Int.compare_eq_eq.mpr rfl]
    · rw [Int.compare_eq_gt.mpr hh, Int.compare_eq_gt.mpr (hmono y hy x hx hh)]
  cases a with
  | null => exact absurd ha (by simp [NumOK])
  | bool _ => exact absurd ha (by simp [NumOK])
  | str _ => exact absurd ha (by simp [NumOK])
  | int x =>
    cases b with
    | null => exact absurd hb (by simp [NumOK])
    | bool _ => exact absurd hb (by simp [NumOK])
    | str _ => exact absurd hb (by simp [NumOK])
    | int y => exact cmpk x y ha hb
    | flt y =>
      have n1 := hnan x ha
      have n2 : F64.isNaN y = false := hb
      simp [sortCmpVals, F64.partialCmp, n1, n2, convKey]
  | flt x =>
    have n1 : F64.isNaN x = false := ha
    cases b with
    | null => exact absurd hb (by simp [NumOK])
    | bool _ => exact absurd hb (by simp [NumOK])
    | str _ => exact absurd hb (by simp [NumOK])
    | int y =>
      have n2 := hnan y hb
      simp [sortCmpVals, F64.partialCmp, n1, n2, convKey]
    | flt y =>
      have n2 : F64.isNaN y = false := hb
      simp [sortCmpVals, F64.partialCmp, n1, n2]

theorem cmpWithNulls_some (nf : Bool) (a b : Val) :
    cmpWithNulls nf (some a) (some b) =
      if a = .null then (if b = .null then .eq else if nf then .lt else .gt)
      else if b = .null then (if nf then .gt else .lt) else sortCmpVals a b := by
  cases a <;> cases b <;> simp [cmpWithNulls]

/-- the column value of a row: present, and NULL or in the set `S` of comparable values -/
def ColOK (S : Val → Prop) (x : Option Val) : Prop := ∃ v, x = some v ∧ (v = .null ∨ S v)

/-- `compare_values_with_nulls` on a column whose non-NULL values are mutually comparable: NULLs
at one end, the values' order inside -/
theorem cmpWithNulls_ok (nf : Bool) (S : Val → Prop) (hv : OrdOK sortCmpVals S) :
    OrdOK (cmpWithNulls nf) (ColOK S) := by
  have knd : ∀ v : Val, (v = .null ∨ S v) → v ≠ .null → S v := by
    intro v h hn
    rcases h with h | h
    · exact absurd h hn
    · exact h
  refine ⟨?_, ?_, ?_⟩
  · rintro _ _ ⟨a, rfl, ha⟩ ⟨b, rfl, hb⟩
    rw [cmpWithNulls_some, cmpWithNulls_some]
    by_cases a0 : a = .null <;> by_cases b0 : b = .null
    · simp [a0, b0, flipOrd]
    · simp [a0, b0]; cases nf <;> rfl
    · simp [a0, b0]; cases nf <;> rfl
    · simp only [a0, b0, if_false]
      exact hv.flip a b (knd a ha a0) (knd b hb b0)
  · rintro _ _ _ ⟨a, rfl, ha⟩ ⟨b, rfl, hb⟩ ⟨c, rfl, hc⟩
    rw [cmpWithNulls_some, cmpWithNulls_some, cmpWithNulls_some]
    by_cases a0 : a = .null <;> by_cases b0 : b = .null <;> by_cases c0 : c = .null <;>
      simp only [a0, b0, c0, if_true, if_false] <;> try (cases nf <;> simp)
    exact hv.ltlt a b c (knd a ha a0) (knd b hb b0) (knd c hc c0)
  · rintro _ _ _ ⟨a, rfl, ha⟩ ⟨b, rfl, hb⟩ ⟨c, rfl, hc⟩
    rw [cmpWithNulls_some, cmpWithNulls_some, cmpWithNulls_some]
    by_cases a0 : a = .null <;> by_cases b0 : b = .null <;> by_cases c0 : c = .null <;>
      simp only [a0, b0, c0, if_true, if_false] <;> try (cases nf <;> simp)
    exact hv.eql a b c (knd a ha a0) (knd b hb b0) (knd c hc c0)

theorem const_eq_ok {γ : Type} (S : γ → Prop) : OrdOK (fun _ _ : γ => Ordering.eq) S :=
  ⟨fun _ _ _ _ => rfl, fun _ _ _ _ _ _ h _ => h, fun _ _ _ _ _ _ _ => rfl⟩

/-- one sort key on rows whose key column holds mutually comparable values -/
theorem keyCmp_ok (k : SortKey) (S : Val → Prop) (hv : OrdOK sortCmpVals S) :
    OrdOK (keyCmp k) (fun r : Row => ColOK S r[k.col]?) := by
  have h := (cmpWithNulls_ok k.nullsFirst S hv).comap (fun r : Row => r[k.col]?)
  cases hasc : k.asc with
  | true =>
    have e : keyCmp k = fun a b => cmpWithNulls k.nullsFirst a[k.col]? b[k.col]? := by
      funext a b; simp [keyCmp, hasc]
    rw [e]; exact h
  | false =>
    have e : keyCmp k = fun a b => flipOrd (cmpWithNulls k.nullsFirst a[k.col]? b[k.col]?) := by
      funext a b; simp [keyCmp, hasc]
    rw [e]; exact h.flipped

/-- one sort key on rows none of which has the key column -/
theorem keyCmp_absent_ok (k : SortKey) : OrdOK (keyCmp k) (fun r : Row => r[k.col]? = none) := by
  have e : ∀ a b : Row, a[k.col]? = none → b[k.col]? = none → keyCmp k a b = .eq := by
    intro a b ha hb
    unfold keyCmp
    rw [ha, hb]
    cases k.asc <;> rfl
  refine ⟨?_, ?_, ?_⟩
  · intro a b ha hb; rw [e a b ha hb, e b a hb ha]; rfl
  · intro a b c ha hb _ h1 _; rw [e a b ha hb] at h1; exact absurd h1 (by simp)
  · intro a b c ha hb hc _; rw [e a c ha hc, e b c hb hc]

/-- all keys together: the lexicographic comparison of `sort_by`'s closure -/
theorem cmpRows_ok (keys : List SortKey) (S : Row → Prop)
    (h : ∀ k ∈ keys, OrdOK (keyCmp k) S) : OrdOK (cmpRows keys) S := by
  induction keys with
  | nil =>
    have e : cmpRows [] = fun _ _ => Ordering.eq := by funext a b; rfl
    rw [e]; exact const_eq_ok S
  | cons k ks ih =>
    have e : cmpRows (k :: ks) = fun a b => if keyCmp k a b = .eq then cmpRows ks a b else keyCmp k a b := by
      funext a b; rfl
    rw [e]
    exact (h k (by simp)).lex (ih (fun k' hk' => h k' (by simp [hk'])))

theorem orderedKeys_ok (keys : List SortKey) (rows : List Row) (h : orderedKeys keys rows = true) :
    OrdOK (cmpRows keys) (fun r => r ∈ rows) := by
  apply cmpRows_ok
  intro k hk
  unfold orderedKeys at h
  have hk' := (all_eq_true.mp h) k hk
  simp only [Bool.or_eq_true] at hk'
  rcases hk' with (habs | huni) | hnum
  · -- the column is absent
    refine (keyCmp_absent_ok k).mono ?_
    intro r hr
    have := (all_eq_true.mp habs) r hr
    simpa using this
  · -- one kind
    obtain ⟨K, hKm, hK⟩ := any_eq_true.mp huni
    have hK0 : K ≠ 0 := by simp at hKm; omega
    refine (keyCmp_ok k _ (sortCmpVals_ok K)).mono ?_
    intro r hr
    have := (all_eq_true.mp hK) r hr
    cases hv : r[k.col]? with
    | none => simp [hv] at this
    | some v =>
      simp only [hv, Bool.or_eq_true, beq_iff_eq] at this
      refine ⟨v, rfl, ?_⟩
      rcases this with h0 | hK'
      · exact Or.inl ((kind1_eq_zero v).mp h0)
      · exact Or.inr ⟨hK', hK0⟩
  · -- numeric
    unfold numericCol at hnum
    simp only [Bool.and_eq_true] at hnum
    refine (keyCmp_ok k _ (sortCmpVals_num_ok (colInts k.col rows) hnum.2)).mono ?_
    intro r hr
    have := (all_eq_true.mp hnum.1) r hr
    cases hv : r[k.col]? with
    | none => simp [hv] at this
    | some v =>
      refine ⟨v, rfl, ?_⟩
      cases v with
      | null => exact Or.inl rfl
      | bool _ => simp [hv] at this
      | str _ => simp [hv] at this
      | flt b => simp [hv] at this; exact Or.inr this
      | int a =>
        refine Or.inr ?_
        show a ∈ colInts k.col rows
        unfold colInts
        rw [mem_dedupInts]
        exact mem_filterMap.mpr ⟨r, hr, by simp [hv]⟩

/-- P: on tables that satisfy `orderedKeys` (every key column absent, of one kind, or numeric with
order-preserving conversions) the engine's comparator is a total preorder: transitive … -/
theorem c11b_rowLe_trans_ordered_partial (keys : List SortKey) (rows : List Row) (h : orderedKeys keys rows = true) :
    TransOn (rowLe keys) rows := by
  intro a ha b hb c hc h1 h2
  have ok := orderedKeys_ok keys rows h
  unfold rowLe at h1 h2 ⊢
  simp only [bne_iff_ne, ne_eq] at h1 h2 ⊢
  exact ok.le_trans a b c ha hb hc h1 h2

/-- … and total. -/
theorem c11b_rowLe_total_ordered_partial (keys : List SortKey) (rows : List Row) (h : orderedKeys keys rows = true) :
    TotalOn (rowLe keys) rows := by
  intro a ha b hb
  have ok := orderedKeys_ok keys rows h
  unfold rowLe
  rw [ok.flip a b ha hb]
  cases cmpRows keys a b <;> simp [flipOrd]

/-- P: ORDER BY over a table that satisfies `orderedKeys` returns THE stable sorted permutation:
a permutation of the input, sorted under the engine's comparator, rows with equal keys in input
order — for every chunking. -/
theorem c11b_sort_sorted_stable_ordered_partial (cap : Nat) (hc : 0 < cap) (keys : List SortKey) (cs : List (List Row))
    (h : orderedKeys keys cs.flatten = true) :
    (sortOp cap keys cs).flatten.Perm cs.flatten ∧
    (sortOp cap keys cs).flatten.Pairwise (fun a b => rowLe keys a b = true) ∧
    ∀ a ∈ cs.flatten, (sortOp cap keys cs).flatten.filter (fun x => rowLe keys a x && rowLe keys x a) =
      cs.flatten.filter (fun x => rowLe keys a x && rowLe keys x a) :=
  ⟨c11b_sort_perm cap hc keys cs,
   c11b_sort_sorted_partial cap hc keys cs (c11b_rowLe_trans_ordered_partial keys _ h) (c11b_rowLe_total_ordered_partial keys _ h),
   fun a ha => c11b_sort_stable_partial cap hc keys cs (c11b_rowLe_trans_ordered_partial keys _ h)
     (c11b_rowLe_total_ordered_partial keys _ h) a ha⟩

theorem partialCmp_getD_flip (a b : Nat) :
    (F64.partialCmp b a).getD .eq = flipOrd ((F64.partialCmp a b).getD .eq) := by
  unfold F64.partialCmp
  by_cases na : F64.isNaN a = true <;> by_cases nb : F64.isNaN b = true
  · simp [na, nb, flipOrd]
  · simp [na, nb, flipOrd]
  · simp [na, nb, flipOrd]
  · simp only [na, nb, Bool.or_self, Bool.false_eq_true, if_false, Option.getD_some]
    exact cmpInt_flip _ _

/-- the value comparator is antisymmetric on all values -/
theorem sortCmpVals_flip (a b : Val) : sortCmpVals b a = flipOrd (sortCmpVals a b) := by
  cases a with
  | null => cases b <;> rfl
  | bool x =>
    cases b with
    | bool y => cases x <;> cases y <;> decide
    | _ => rfl
  | int x =>
    cases b with
    | int y => exact cmpInt_flip x y
    | flt y => exact partialCmp_getD_flip _ _
    | _ => rfl
  | flt x =>
    cases b with
    | flt y => exact partialCmp_getD_flip _ _
    | int y => exact partialCmp_getD_flip _ _
    | _ => rfl
  | str x =>
    cases b with
    | str y => exact cmpBytes_flip x y
    | _ => rfl

theorem cmpWithNulls_flip (nf : Bool) (x y : Option Val) (h : x.isSome = y.isSome) :
    cmpWithNulls nf y x = flipOrd (cmpWithNulls nf x y) := by
  cases x with
  | none =>
    cases y with
    | none => rfl
    | some _ => simp at h
  | some a =>
    cases y with
    | none => simp at h
    | some b =>
      rw [cmpWithNulls_some, cmpWithNulls_some]
      by_cases a0 : a = .null <;> by_cases b0 : b = .null
      · simp [a0, b0, flipOrd]
      · simp [a0, b0]; cases nf <;> rfl
      · simp [a0, b0]; cases nf <;> rfl
      · simp only [a0, b0, if_false]; exact sortCmpVals_flip a b

theorem cmpRows_flip (keys : List SortKey) (a b : Row)
    (h : ∀ k ∈ keys, (a[k.col]?).isSome = (b[k.col]?).isSome) :
    cmpRows keys b a = flipOrd (cmpRows keys a b) := by
  induction keys with
  | nil => rfl
  | cons k ks ih =>
    have hk : keyCmp k b a = flipOrd (keyCmp k a b) := by
      unfold keyCmp
      simp only
      rw [cmpWithNulls_flip k.nullsFirst _ _ (h k (by simp))]
      cases k.asc <;> simp
    simp only [cmpRows]
    rw [hk, ih (fun k' hk' => h k' (by simp [hk']))]
    cases keyCmp k a b <;> simp [flipOrd]

/-- F: the engine's row comparator is total — any two rows that have the same columns (as all
rows of the chunks of one operator do) compare one way or the other — for every list of keys and
all values. -/
theorem c11b_rowLe_total (keys : List SortKey) (a b : Row)
    (h : ∀ k ∈ keys, (a[k.col]?).isSome = (b[k.col]?).isSome) :
    (rowLe keys a b || rowLe keys b a) = true := by
  unfold rowLe
  rw [cmpRows_flip keys a b h]
  cases cmpRows keys a b <;> simp [flipOrd]

/-- W: it is NOT transitive across kinds: values of different kinds compare "equal", so
`2 ≤ 'a' ≤ 1` although `2 > 1`. -/
theorem c11b_rowLe_not_transitive_mixed_kinds_witness :
    let k : List SortKey := [⟨0, true, false⟩]
    rowLe k [.int 2] [.str [97]] = true ∧ rowLe k [.str [97]] [.int 1] = true ∧ rowLe k [.int 2] [.int 1] = false := by
  decide

/-- W: nor with NaN among floats (NaN compares "equal" to every number): `2.0 ≤ NaN ≤ 1.0`. -/
theorem c11b_rowLe_not_transitive_nan_witness :
    let k : List SortKey := [⟨0, true, false⟩]
    rowLe k [.flt 0x4000000000000000] [.flt 0x7ff8000000000000] = true ∧
    rowLe k [.flt 0x7ff8000000000000] [.flt 0x3ff0000000000000] = true ∧
    rowLe k [.flt 0x4000000000000000] [.flt 0x3ff0000000000000] = false := by
  decide

/-- W: nor between integers beyond 2^53 and floats (`i64 as f64` rounds): 2^53+1 ≤ 2^53 (as
float) ≤ 2^53 although 2^53+1 > 2^53. -/
theorem c11b_rowLe_not_transitive_int_float_witness :
    let k : List SortKey := [⟨0, true, false⟩]
    rowLe k [.int 9007199254740993] [.flt 0x4340000000000000] = true ∧
    rowLe k [.flt 0x4340000000000000] [.int 9007199254740992] = true ∧
    rowLe k [.int 9007199254740993] [.int 9007199254740992] = false := by
  decide

/-- W: what comes out then is not sorted: `sort_by` (an insertion sort up to 20 rows) leaves
`2, 'a', 1` as it is, while every total order of all values that sorts numbers by value puts 1
before 2 (the specification's: `'a', 1, 2`). -/
theorem c11b_sort_mixed_kinds_unsorted_witness :
    sortRows [⟨0, true, false⟩] [[.int 2], [.str [97]], [.int 1]] = some [[.int 2], [.str [97]], [.int 1]] ∧
    orderedKeys [⟨0, true, false⟩] [[.int 2], [.str [97]], [.int 1]] = false := by
  decide

set_option exponentiation.threshold 3000 in
theorem c11b_sort_mixed_kinds_spec_order :
    ([[.int 2], [.str [97]], [.int 1]] : List Row).mergeSort (specRowLe [⟨0, true, false⟩]) =
      [[.str [97]], [.int 1], [.int 2]] := by
  simp [List.mergeSort, List.MergeSort.Internal.splitInTwo, specRowLe, specCmpRows, specKeyCmp,
    specCmpWithNulls, specCmpVals, specRank]

/-- N: non-vacuity of the sort theorems — two keys, the first descending (the null order is
applied before the direction: "nulls first" of a descending key puts them last), equal keys in
input order (the third column tells the rows apart), three input chunks, output chunks of 2. -/
theorem c11b_sort_nonvacuous :
    orderedKeys [⟨0, false, true⟩, ⟨1, true, false⟩]
      [[.int 1, .str [98], .int 0], [.null, .str [97], .int 1], [.int 2, .str [97], .int 2],
       [.int 1, .str [97], .int 3], [.int 2, .str [97], .int 4]] = true ∧
    sortOp 2 [⟨0, false, true⟩, ⟨1, true, false⟩]
      [[[.int 1, .str [98], .int 0], [.null, .str [97], .int 1]], [],
       [[.int 2, .str [97], .int 2], [.int 1, .str [97], .int 3], [.int 2, .str [97], .int 4]]] =
      [[[.int 2, .str [97], .int 2], [.int 2, .str [97], .int 4]],
       [[.int 1, .str [97], .int 3], [.int 1, .str [98], .int 0]], [[.null, .str [97], .int 1]]] := by
  refine ⟨by decide, ?_⟩
  simp [sortOp, rechunkAll, rechunk, List.mergeSort, List.MergeSort.Internal.splitInTwo, rowLe,
    cmpRows, keyCmp, cmpWithNulls, sortCmpVals, flipOrd, cmpBytes, compare, compareOfLessAndEq]

/-! ### the specification's order of all values is a total preorder -/

theorem tripleCmp_ok : OrdOK (fun (x y : Nat × Int × List Nat) =>
    if x.1 < y.1 then Ordering.lt else if y.1 < x.1 then .gt
    else if x.2.1 < y.2.1 then .lt else if y.2.1 < x.2.1 then .gt
    else cmpBytes x.2.2 y.2.2) (fun _ => True) := by
  have c1 : OrdOK (fun (x y : Nat × Int × List Nat) => compare (x.1 : Int) (y.1 : Int)) (fun _ => True) :=
    OrdOK.of_rank _ _ (fun x => (x.1 : Int)) (fun _ _ _ _ => rfl)
  have c2 : OrdOK (fun (x y : Nat × Int × List Nat) => compare x.2.1 y.2.1) (fun _ => True) :=
    OrdOK.of_rank _ _ (fun x => x.2.1) (fun _ _ _ _ => rfl)
  have c3 : OrdOK (fun (x y : Nat × Int × List Nat) => cmpBytes x.2.2 y.2.2) (fun _ => True) :=
    cmpBytes_ok.comap (fun x : Nat × Int × List Nat => x.2.2)
  have h := c1.lex (c2.lex c3)
  have e : (fun (x y : Nat × Int × List Nat) =>
      if x.1 < y.1 then Ordering.lt else if y.1 < x.1 then .gt
      else if x.2.1 < y.2.1 then .lt else if y.2.1 < x.2.1 then .gt
      else cmpBytes x.2.2 y.2.2) =
      (fun x y => if compare (x.1 : Int) (y.1 : Int) = .eq then
        (if compare x.2.1 y.2.1 = .eq then cmpBytes x.2.2 y.2.2 else compare x.2.1 y.2.1)
        else compare (x.1 : Int) (y.1 : Int)) := by
    funext x y
    rcases Nat.lt_trichotomy x.1 y.1 with h1 | h1 | h1
    · have : ((x.1 : Int) < (y.1 : Int)) := by omega
      simp [h1, Int.compare_eq_lt.mpr this]
    · have e1 : ¬ x.1 < y.1 := by omega
      have e2 : ¬ y.1 < x.1 := by omega
      have : ((x.1 : Int) = (y.1 : Int)) := by omega
      simp only [e1, e2, if_false, Int.compare_eq_eq.mpr this, if_true]
      rcases Int.lt_trichotomy x.2.1 y.2.1 with h2 | h2 | h2
      · simp [h2, Int.compare_eq_lt.mpr h2]
      · have f1 : ¬ x.2.1 < y.2.1 := by omega
        have f2 : ¬ y.2.1 < x.2.1 := by omega
        simp [f1, f2, Int.compare_eq_eq.mpr h2]
      · have f1 : ¬ x.2.1 < y.2.1 := by omega
        simp [f1, h2, Int.compare_eq_gt.mpr h2]
    · have e1 : ¬ x.1 < y.1 := by omega
      have : ((y.1 : Int) < (x.1 : Int)) := by omega
      simp [e1, h1, Int.compare_eq_gt.mpr this]
  rw [e]; exact h

theorem specCmpVals_ok : OrdOK specCmpVals (fun _ => True) :=
  tripleCmp_ok.comap specRank

theorem specCmpWithNulls_some (nf : Bool) (a b : Val) :
    specCmpWithNulls nf (some a) (some b) =
      if a = .null then (if b = .null then .eq else if nf then .lt else .gt)
      else if b = .null then (if nf then .gt else .lt) else specCmpVals a b := by
  cases a <;> cases b <;> simp [specCmpWithNulls]

theorem specCmpWithNulls_ok (nf : Bool) : OrdOK (specCmpWithNulls nf) (fun x => x.isSome = true) := by
  have hv := specCmpVals_ok
  refine ⟨?_, ?_, ?_⟩
  · intro x y hx hy
    obtain ⟨a, rfl⟩ := Option.isSome_iff_exists.mp hx
    obtain ⟨b, rfl⟩ := Option.isSome_iff_exists.mp hy
    rw [specCmpWithNulls_some, specCmpWithNulls_some]
    by_cases a0 : a = .null <;> by_cases b0 : b = .null
    · simp [a0, b0, flipOrd]
    · simp [a0, b0]; cases nf <;> rfl
    · simp [a0, b0]; cases nf <;> rfl
    · simp only [a0, b0, if_false]; exact hv.flip a b trivial trivial
  · intro x y z hx hy hz
    obtain ⟨a, rfl⟩ := Option.isSome_iff_exists.mp hx
    obtain ⟨b, rfl⟩ := Option.isSome_iff_exists.mp hy
    obtain ⟨c, rfl⟩ := Option.isSome_iff_exists.mp hz
    rw [specCmpWithNulls_some, specCmpWithNulls_some, specCmpWithNulls_some]
    by_cases a0 : a = .null <;> by_cases b0 : b = .null <;> by_cases c0 : c = .null <;>
      simp only [a0, b0, c0, if_true, if_false] <;> try (cases nf <;> simp)
    exact hv.ltlt a b c trivial trivial trivial
  · intro x y z hx hy hz
    obtain ⟨a, rfl⟩ := Option.isSome_iff_exists.mp hx
    obtain ⟨b, rfl⟩ := Option.isSome_iff_exists.mp hy
    obtain ⟨c, rfl⟩ := Option.isSome_iff_exists.mp hz
    rw [specCmpWithNulls_some, specCmpWithNulls_some, specCmpWithNulls_some]
    by_cases a0 : a = .null <;> by_cases b0 : b = .null <;> by_cases c0 : c = .null <;>
      simp only [a0, b0, c0, if_true, if_false] <;> try (cases nf <;> simp)
    exact hv.eql a b c trivial trivial trivial

theorem specCmpRows_ok (keys : List SortKey) :
    OrdOK (specCmpRows keys) (fun r : Row => ∀ k ∈ keys, (r[k.col]?).isSome = true) := by
  induction keys with
  | nil =>
    have e : specCmpRows [] = fun _ _ => Ordering.eq := by funext a b; rfl
    rw [e]; exact const_eq_ok _
  | cons k ks ih =>
    have e : specCmpRows (k :: ks) =
        fun a b => if specKeyCmp k a b = .eq then specCmpRows ks a b else specKeyCmp k a b := by
      funext a b; rfl
    rw [e]
    have hk : OrdOK (specKeyCmp k) (fun r : Row => (r[k.col]?).isSome = true) := by
      have h := (specCmpWithNulls_ok k.nullsFirst).comap (fun r : Row => r[k.col]?)
      cases hasc : k.asc with
      | true =>
        have e : specKeyCmp k = fun a b => specCmpWithNulls k.nullsFirst a[k.col]? b[k.col]? := by
          funext a b; simp [specKeyCmp, hasc]
        rw [e]; exact h
      | false =>
        have e : specKeyCmp k = fun a b => flipOrd (specCmpWithNulls k.nullsFirst a[k.col]? b[k.col]?) := by
          funext a b; simp [specKeyCmp, hasc]
        rw [e]; exact h.flipped
    exact (hk.mono (fun r hr => hr k (by simp))).lex (ih.mono (fun r hr k' hk' => hr k' (by simp [hk'])))

/-- F: the specification's ORDER BY comparator (strings < booleans < numbers by exact value < NaN,
NULLs at the end the key asks for) is a total preorder on ALL rows that have the key columns —
values of every kind mixed: it is a legitimate meaning of "the ordered result". -/
theorem c11b_spec_order_total_preorder (keys : List SortKey) (rows : List Row)
    (h : ∀ r ∈ rows, ∀ k ∈ keys, (r[k.col]?).isSome = true) :
    TransOn (specRowLe keys) rows ∧ TotalOn (specRowLe keys) rows := by
  have ok := specCmpRows_ok keys
  constructor
  · intro a ha b hb c hc h1 h2
    unfold specRowLe at h1 h2 ⊢
    simp only [bne_iff_ne, ne_eq] at h1 h2 ⊢
    exact ok.le_trans a b c (h a ha) (h b hb) (h c hc) h1 h2
  · intro a ha b hb
    unfold specRowLe
    rw [ok.flip a b (h a ha) (h b hb)]
    cases specCmpRows keys a b <;> simp [flipOrd]

/-- P: where the engine's comparator agrees with the specification's on the rows present (a
decidable condition on the table), ORDER BY returns the specification's ordered result. -/
theorem c11b_sort_eq_spec_order_partial (cap : Nat) (hc : 0 < cap) (keys : List SortKey) (cs : List (List Row))
    (h : ∀ a ∈ cs.flatten, ∀ b ∈ cs.flatten, rowLe keys a b = specRowLe keys a b) :
    (sortOp cap keys cs).flatten = cs.flatten.mergeSort (specRowLe keys) := by
  rw [c11b_sort_flatten cap hc]
  have := map_mergeSort (r := rowLe keys) (s := specRowLe keys) (f := id) (l := cs.flatten) h
  simpa using this

end Comparator

/-! ## §5 count(*) and count(col) -/

theorem countStep_closed (col : Nat) (rows : List Row) (st : Nat × Nat) :
    countStep col st rows = (st.1 + rows.length, st.2 + (rows.filter (nonNullAt col)).length) := by
  unfold countStep
  induction rows generalizing st with
  | nil => simp
  | cons r rs ih =>
    rw [foldl_cons, ih]
    by_cases h : nonNullAt col r = true
    · simp [h]; omega
    · simp [h]; omega

theorem count_chunks (col : Nat) (cs : List (List Row)) (st : Nat × Nat) :
    cs.foldl (countStep col) st =
      (st.1 + cs.flatten.length, st.2 + (cs.flatten.filter (nonNullAt col)).length) := by
  induction cs generalizing st with
  | nil => simp
  | cons c cs ih =>
    rw [foldl_cons, ih, countStep_closed]
    simp [Nat.add_assoc]

/-- F: `SimpleAggregateOperator` with `count(*)`, `count(col)` returns one row: the number of rows
of its input and the number of rows whose `col` is present and not NULL — for every chunking. -/
theorem c11b_count_simple (col : Nat) (cs : List (List Row)) :
    simpleAgg col cs = [[(cs.flatten.length, (cs.flatten.filter (nonNullAt col)).length)]] := by
  unfold simpleAgg; rw [count_chunks]; simp

/-- P: `HashAggregateOperator` without group columns agrees, provided its input has a row. -/
theorem c11b_count_hash_partial (col : Nat) (cs : List (List Row)) (h : cs.flatten ≠ []) :
    hashAgg0 col cs = [[(cs.flatten.length, (cs.flatten.filter (nonNullAt col)).length)]] := by
  unfold hashAgg0
  have : cs.flatten.isEmpty = false := by
    cases hf : cs.flatten with
    | nil => exact absurd hf h
    | cons _ _ => rfl
  rw [this]; simp only [Bool.false_eq_true, if_false]; rw [count_chunks]; simp

/-- W: on an input without rows (no chunk, or empty chunks only) it returns no row at all, where
`count(*)` is 0 (the "no data" special case in `next()` tests `results.is_none()`, which
`aggregate()` has just made false). -/
theorem c11b_count_hash_empty_input_witness :
    hashAgg0 0 [] = [] ∧ hashAgg0 0 [[], []] = [] ∧ simpleAgg 0 [] = [[(0, 0)]] ∧ simpleAgg 0 [[], []] = [[(0, 0)]] := by
  decide

/-! ## §6 chains: filter / distinct / sort / skip / limit -/

theorem dedupKey_eq_dedupBy {κ : Type} [DecidableEq κ] (key : Row → κ) (seen : List κ) (l : List Row) :
    (Ops.dedupKey key seen l).2 = dedupBy key seen l := by
  induction l generalizing seen with
  | nil => rfl
  | cons r rs ih =>
    simp only [Ops.dedupKey, dedupBy]
    split
    · exact ih seen
    · simp [ih]

/-- F: every pull operator of the chain, flattened, is its list-level specification — for every
chunking of its input (and every chunk size: the boundaries 2047/2048/2049 are instances). -/
theorem c11b_stage_eq_spec (cap : Nat) (hc : 0 < cap) (st : Stage) (cs : List (List Row)) :
    (st.pull cap cs).flatten = st.spec cs.flatten := by
  cases st with
  | filter e => exact c11b_filter_flatten _ cs
  | distinct cols =>
    simp only [Stage.pull, Stage.spec]
    rw [Ops.c11_distinct_eq_dedup, dedupKey_eq_dedupBy]
  | sort keys => exact c11b_sort_flatten cap hc keys cs
  | skip n => exact Ops.c11_skip_flatten n cs
  | limit n => exact Ops.c11_limit_flatten n cs
  | window s n => exact Ops.c11_skip_limit_window s n cs

/-- F: a chain of pull operators returns what the list-level chain returns. -/
theorem c11b_chain_eq_spec (cap : Nat) (hc : 0 < cap) (stages : List Stage) (cs : List (List Row)) :
    (pullChain cap stages cs).flatten = specChain stages cs.flatten := by
  induction stages generalizing cs with
  | nil => rfl
  | cons st rest ih =>
    simp only [pullChain, specChain]
    rw [ih, c11b_stage_eq_spec cap hc]

/-- F: two chunkings of the same rows give the same rows out of any chain. -/
theorem c11b_chain_chunking_irrelevant (cap : Nat) (hc : 0 < cap) (stages : List Stage)
    (cs cs' : List (List Row)) (h : cs.flatten = cs'.flatten) :
    (pullChain cap stages cs).flatten = (pullChain cap stages cs').flatten := by
  rw [c11b_chain_eq_spec cap hc, c11b_chain_eq_spec cap hc, h]

/-- F: `count(*)` on top of any chain equals the number of rows the chain returns without the
aggregate, and `count(col)` the number of those with a non-NULL `col` — for every chunking. -/
theorem c11b_count_over_chain (cap : Nat) (hc : 0 < cap) (stages : List Stage) (col : Nat) (cs : List (List Row)) :
    simpleAgg col (pullChain cap stages cs) =
      [[((specChain stages cs.flatten).length, ((specChain stages cs.flatten).filter (nonNullAt col)).length)]] := by
  rw [c11b_count_simple, c11b_chain_eq_spec cap hc]

/-- F: `SKIP s LIMIT n` over ORDER BY returns rows `s .. s+n` of the ordered result. -/
theorem c11b_window_of_ordered (cap : Nat) (hc : 0 < cap) (keys : List SortKey) (s n : Nat) (cs : List (List Row)) :
    (pullChain cap [.sort keys, .window s n] cs).flatten = ((cs.flatten.mergeSort (rowLe keys)).drop s).take n := by
  rw [c11b_chain_eq_spec cap hc]; rfl

/-- N: non-vacuity — filter, DISTINCT on one column, skip, limit across three chunks. -/
theorem c11b_chain_nonvacuous :
    (pullChain 2 [.filter (.bin .lt (.col 0) (.lit (.int 9))), .distinct (some [0]), .skip 1, .limit 2]
      [[[.int 3, .int 0], [.int 3, .int 1], [.int 11, .int 2]], [], [[.int 1, .int 3], [.null, .int 4], [.int 2, .int 5], [.int 0, .int 6]]]).flatten
      = [[.int 1, .int 3], [.int 2, .int 5]] := by
  decide

theorem c11b_count_nonvacuous :
    simpleAgg 1 (pullChain 2 [.filter (.bin .lt (.col 0) (.lit (.int 9))), .limit 3]
      [[[.int 3, .null], [.int 30, .int 1]], [[.int 1, .int 3], [.int 2, .null], [.int 0, .int 6]]]) = [[(3, 1)]] := by
  decide

/-! ## §7 the full-strength statements that are false for the code, refuted -/

/-- W: "for every expression and row exactly one of the three filters passes" — false. -/
theorem c11b_tlp_every_expression_refuted :
    ¬ ∀ (p : Ex) (r : Row),
      (passes Quirks.code p r).toNat + (passes Quirks.code p.not r).toNat + (passes Quirks.code p.isNull r).toNat = 1 := by
  intro h
  exact absurd (h (.col 0) [.int 5]) (by decide)

/-- W: "the code's three classes are SQL's three classes, for every predicate" — false. -/
theorem c11b_code_classes_eq_sql_refuted :
    ¬ ∀ (p : Ex) (r : Row), p.isPred = true →
      (passes Quirks.code p r = (specTV p r == .t) ∧ passes Quirks.code p.not r = (specTV p r == .f)) := by
  intro h
  exact absurd (h (.bin .eq (.col 0) (.col 1)) [.null, .null] (by decide)) (by decide)

/-- W: "the engine's ORDER BY comparator is transitive on all rows" — false. -/
theorem c11b_rowLe_transitive_refuted :
    ¬ ∀ (keys : List SortKey) (a b c : Row),
      rowLe keys a b = true → rowLe keys b c = true → rowLe keys a c = true := by
  intro h
  exact absurd (h [⟨0, true, false⟩] [.int 2] [.str [97]] [.int 1] (by decide) (by decide)) (by decide)

/-- W: "HashAggregateOperator without group columns = SimpleAggregateOperator" — false. -/
theorem c11b_count_hash_eq_simple_refuted :
    ¬ ∀ (col : Nat) (cs : List (List Row)), hashAgg0 col cs = simpleAgg col cs := by
  intro h
  exact absurd (h 0 []) (by decide)

/-! ### further non-vacuity examples -/

example : (filterOp (fun x : Nat => x % 2 == 0) [[1, 2], [3], [], [4, 6]]) = [[2], [4, 6]] := by decide

example : (filterOp (fun x : Nat => x % 2 == 0) [[1, 2, 3, 4, 6]]).flatten =
    (filterOp (fun x : Nat => x % 2 == 0) [[1], [2, 3], [4], [6]]).flatten := by decide

example : let p := Ex.bin .lt (.col 0) (.lit (.int 3))
    ([[Val.int 1], [.int 5], [.null]].filter (fun r => specTV p r == .t),
     [[Val.int 1], [.int 5], [.null]].filter (fun r => specTV p r == .f),
     [[Val.int 1], [.int 5], [.null]].filter (fun r => specTV p r == .u)) =
    ([[.int 1]], [[.int 5]], [[.null]]) := by decide

example : rowLe [⟨0, true, false⟩, ⟨1, false, true⟩] [.int 1, .str [97]] [.int 1, .str [98]] = false ∧
    rowLe [⟨0, true, false⟩, ⟨1, false, true⟩] [.int 1, .str [98]] [.int 1, .str [97]] = true := by decide

example : hashAgg0 0 [[[.int 1], [.null]], [], [[.int 2]]] = [[(3, 2)]] ∧
    simpleAgg 0 [[[.int 1], [.null]], [], [[.int 2]]] = [[(3, 2)]] := by decide

example : orderedKeys [⟨0, true, false⟩] [[.int 3], [.flt 0x3ff8000000000000], [.null], [.int (-2)]] = true ∧
    orderedKeys [⟨0, true, false⟩] [[.int 9007199254740993], [.flt 0x3ff8000000000000], [.int 9007199254740992]] = false ∧
    orderedKeys [⟨0, true, false⟩] [[.int 9007199254740993], [.int 9007199254740992]] = true ∧
    orderedKeys [⟨0, true, false⟩] [[.flt 0x7ff8000000000000], [.flt 0x3ff8000000000000]] = false ∧
    orderedKeys [⟨0, true, false⟩] [[.str [97]], [.bool true]] = false := by decide

example : specRowLe [⟨0, true, false⟩] [.str [98]] [.bool false] = true ∧
    specRowLe [⟨0, true, false⟩] [.bool true] [.int (-5)] = true ∧
    specRowLe [⟨0, true, false⟩] [.flt 0x7ff0000000000000] [.flt 0x7ff8000000000000] = true ∧
    specRowLe [⟨0, true, false⟩] [.flt 0x7ff8000000000000] [.null] = true := by decide

example : (Stage.distinct none).pull 2 [[[.int 1], [.int 1], [.int 2]], [[.int 2], [.int 3]]] = [[[.int 1], [.int 2]], [[.int 3]]] := by
  decide

example : insSort (fun (a b : Nat) => a < b) [3, 1, 2, 1] = [1, 1, 2, 3] := by decide

/-! ## §8 query level: predicates over node properties (a missing property has no value) -/

theorem onNode_isPred (p : Ex) (r : Row) : (p.onNode r).isPred = p.isPred := by
  cases p with
  | lit v => simp [Ex.onNode, Ex.isPred]
  | col k => simp only [Ex.onNode]; split <;> simp [Ex.isPred]
  | mis => simp [Ex.onNode, Ex.isPred]
  | bin op l rr => simp [Ex.onNode, Ex.isPred]
  | un op e => simp [Ex.onNode, Ex.isPred]
  | inl l items => simp [Ex.onNode, Ex.isPred]

/-- F (TLP at query level): for every predicate over node properties every node is returned by
exactly one of `WHERE p`, `WHERE NOT p`, `WHERE p IS NULL`. -/
theorem c11b_tlp_exactly_one_node (q : Quirks) (p : Ex) (hp : p.isPred = true) (r : Row) :
    (passesNode q p r).toNat + (passesNode q p.not r).toNat + (passesNode q p.isNull r).toNat = 1 := by
  have h := c11b_tlp_exactly_one q (p.onNode r) (by rw [onNode_isPred]; exact hp) r
  simpa [passesNode, Ex.not, Ex.isNull, Ex.onNode] using h

/-- F: … so the three result sets are a permutation of the matched nodes. -/
theorem c11b_tlp_partition_node (q : Quirks) (p : Ex) (hp : p.isPred = true) (nodes : List Row) :
    (nodes.filter (passesNode q p) ++ nodes.filter (passesNode q p.not) ++
      nodes.filter (passesNode q p.isNull)).Perm nodes :=
  perm_three_filters _ _ _ _ (fun r _ => c11b_tlp_exactly_one_node q p hp r)

/-- W: with a missing property `n.c0 = n.c1` is unknown (no value reaches `values_equal`), but a
NULL literal is compared as a value: `WHERE NOT (n.c0 = null)` returns the node with c0 = 1. -/
theorem c11b_null_literal_compared_as_value_node_witness :
    passesNode Quirks.code (Ex.bin .eq (.col 0) (.col 1)).isNull [.null, .null] = true ∧
    passesNode Quirks.code (Ex.bin .eq (.col 0) (.lit .null)).not [.int 1] = true ∧
    tvOf (evalQ Quirks.sql ((Ex.bin .eq (.col 0) (.lit .null)).onNode [.int 1]) [.int 1]) = .u := by
  decide

end Grafeo.Ops2
