import GrafeoModel.Model.Ops2
import GrafeoModel.Props.C11

/-!
# C11 (second part) — predicates, ORDER BY, count(*) and operator chains

Theorems about `Model/Ops2.lean`. Everything quantifies over **every** table, **every**
chunking of it (`cs : List (List α)`: any number of chunks of any sizes, empty chunks included —
the boundaries 2047 / 2048 / 2049 are instances), every predicate of the grammar `Ex`, every list
of sort keys and every chain of stages.

* §1 `FilterOperator`: the flat result is `List.filter`, for every chunking.
* §2 three-valued partition (TLP): for every predicate and every row exactly one of `p`, `NOT p`,
  `p IS NULL` passes; the three filter results are a permutation of the input and pairwise
  disjoint by row position. The statement for *every expression* of the grammar is false for
  the code (a bare variable holding a number): `_partial` version + witness.
* §3 the code's evaluation against SQL three-valued logic: sound on the ordering fragment;
  one witness per deviation.
* §4 `SortOperator`: permutation, sorted, stable, independent of the chunking; the (repaired)
  comparator is a total preorder on all values and equals the specification's order; the old
  comparator's failures are kept as regression theorems under `Old`.
* §5 `count(*)` / `count(col)`.
* §6 chains filter → distinct → sort → skip → limit = the list-level specification.
-/

namespace Grafeo.Ops2
open List

variable {α : Type}

/-! ## §1 FilterOperator -/

theorem flatten_dropEmpty (cs : List (List α)) : (dropEmpty cs).flatten = cs.flatten := by
  induction cs with
  | nil => rfl
  | cons c cs ih =>
    unfold dropEmpty at ih ⊢
    simp only [filter_cons]
    cases c with
    | nil => simp [ih]
    | cons x xs => simp [ih]

/-- F: the filter returns exactly the rows that pass, in input order, for every chunking. -/
theorem c11b_filter_flatten (p : α → Bool) (cs : List (List α)) :
    (filterOp p cs).flatten = cs.flatten.filter p := by
  unfold filterOp
  rw [flatten_dropEmpty, filter_flatten]

/-- F: two chunkings of the same rows give the same filter result. -/
theorem c11b_filter_chunking_irrelevant (p : α → Bool) (cs cs' : List (List α))
    (h : cs.flatten = cs'.flatten) : (filterOp p cs).flatten = (filterOp p cs').flatten := by
  rw [c11b_filter_flatten, c11b_filter_flatten, h]

/-- F: the filter never returns an empty chunk. -/
theorem c11b_filter_no_empty_chunk (p : α → Bool) (cs : List (List α)) :
    ∀ c ∈ filterOp p cs, c ≠ [] := by
  intro c hc
  unfold filterOp dropEmpty at hc
  have := (mem_filter.mp hc).2
  intro h; subst h; simp at this

/-! ## §2 the three-valued partition -/

/-- three Boolean tests of which exactly one holds on every element split a list into three
parts whose concatenation is a permutation of the list -/
theorem perm_three_filters (a b c : α → Bool) (l : List α)
    (h : ∀ x ∈ l, (a x).toNat + (b x).toNat + (c x).toNat = 1) :
    (l.filter a ++ l.filter b ++ l.filter c).Perm l := by
  induction l with
  | nil => simp
  | cons x xs ih =>
    have hx := h x (by simp)
    have ih' := ih (fun y hy => h y (by simp [hy]))
    cases ha : a x <;> cases hb : b x <;> cases hc : c x <;> simp [ha, hb, hc] at hx
    · -- only c
      simp only [filter_cons, ha, hb, hc]
      refine Perm.trans ?_ (Perm.cons x ih')
      simpa [append_assoc] using (perm_middle (a := x) (l₁ := xs.filter a ++ xs.filter b) (l₂ := xs.filter c))
    · -- only b
      simp only [filter_cons, ha, hb, hc]
      refine Perm.trans ?_ (Perm.cons x ih')
      simp [append_assoc]
    · -- only a
      simp only [filter_cons, ha, hb, hc]
      simpa [append_assoc] using Perm.cons x ih'

/-- the value of the expression is a boolean, NULL, or absent -/
def boolish (q : Quirks) (e : Ex) (r : Row) : Bool :=
  match evalQ q e r with
  | none => true
  | some .null => true
  | some (.bool _) => true
  | _ => false

theorem evalQ_un (q : Quirks) (op : UOp) (e : Ex) (r : Row) :
    evalQ q (.un op e) r = evalUn op (evalQ q e r) := by
  rw [evalQ]

/-- exactly one of the three tests passes on a row whose predicate value is boolean / NULL / absent -/
theorem tlp_row (q : Quirks) (e : Ex) (r : Row) (h : boolish q e r = true) :
    (passes q e r).toNat + (passes q e.not r).toNat + (passes q e.isNull r).toNat = 1 := by
  unfold passes Ex.not Ex.isNull
  rw [evalQ_un, evalQ_un]
  unfold boolish at h
  cases hv : evalQ q e r with
  | none => simp [evalUn]
  | some v =>
    rw [hv] at h
    cases v with
    | null => simp [evalUn, asBool]
    | bool b => cases b <;> decide
    | int i => simp at h
    | flt f => simp at h
    | str s => simp at h

theorem and3_boolish (l r : Option Val) :
    and3 l r = none ∨ ∃ b, and3 l r = some (.bool b) := by
  unfold and3
  split <;> simp

theorem or3_boolish (l r : Option Val) :
    or3 l r = none ∨ ∃ b, or3 l r = some (.bool b) := by
  unfold or3
  split <;> simp

theorem evalBin_boolish (q : Quirks) (op : BOp) (a b : Val)
    (hop : (match op with | .add | .sub | .mul | .div | .mod => false | _ => true) = true) :
    evalBin q op a b = none ∨ ∃ x, evalBin q op a b = some (.bool x) := by
  cases op <;> simp at hop <;> simp only [evalBin]
  case eq => cases eq3 q a b <;> simp
  case ne => cases eq3 q a b <;> simp
  case lt => cases compareValues a b <;> simp
  case le => cases compareValues a b <;> simp
  case gt => cases compareValues a b <;> simp
  case ge => cases compareValues a b <;> simp
  case and =>
    split
    · cases asBool a <;> cases asBool b <;> simp
    · exact and3_boolish _ _
  case or =>
    split
    · cases asBool a <;> cases asBool b <;> simp
    · exact or3_boolish _ _
  case xor => cases asBool a <;> cases asBool b <;> simp
  case sw => cases asStr a <;> cases asStr b <;> simp
  case ew => cases asStr a <;> cases asStr b <;> simp
  case ct => cases asStr a <;> cases asStr b <;> simp

/-- a predicate-shaped expression evaluates to a boolean or to nothing, whatever its operands -/
theorem isPred_boolish (q : Quirks) (e : Ex) (r : Row) (h : e.isPred = true) : boolish q e r = true := by
  have key : evalQ q e r = none ∨ ∃ b, evalQ q e r = some (.bool b) := by
    cases e with
    | lit v => simp [Ex.isPred] at h
    | col k => simp [Ex.isPred] at h
    | mis => simp [Ex.isPred] at h
    | bin op l rr =>
      simp only [Ex.isPred] at h
      rw [evalQ]
      split
      · split
        · exact and3_boolish _ _
        · exact or3_boolish _ _
      · split
        · exact evalBin_boolish q op _ _ h
        · simp
    | un op e' =>
      simp only [Ex.isPred] at h
      rw [evalQ]
      cases op with
      | not =>
        cases evalQ q e' r with
        | none => simp [evalUn]
        | some v => cases v <;> simp [evalUn, asBool]
      | isNull => simp [evalUn]
      | notNull => simp [evalUn]
      | neg => simp at h
    | inl l items =>
      rw [evalQ]
      cases evalQ q l r with
      | none => simp
      | some a =>
        simp only
        split
        · simp
        · unfold in3
          simp only
          split
          · simp
          · split <;> simp
  unfold boolish
  rcases key with hk | ⟨b, hk⟩ <;> rw [hk]

/-- F (TLP, row level): for every predicate of the grammar — under the code's evaluation and
under the SQL one alike — every row passes exactly one of `p`, `NOT p`, `p IS NULL`. -/
theorem c11b_tlp_exactly_one (q : Quirks) (p : Ex) (hp : p.isPred = true) (r : Row) :
    (passes q p r).toNat + (passes q p.not r).toNat + (passes q p.isNull r).toNat = 1 :=
  tlp_row q p r (isPred_boolish q p r hp)

/-- P (TLP, table level): when the predicate's value is a boolean, NULL or absent on every row
(a decidable condition on the table), the three filter results are a permutation of the input,
for every chunking of the table (even a different one for each of the three runs). -/
theorem c11b_tlp_partition_partial (q : Quirks) (p : Ex) (proj : α → Row) (cs₁ cs₂ cs₃ : List (List α))
    (h₂ : cs₂.flatten = cs₁.flatten) (h₃ : cs₃.flatten = cs₁.flatten)
    (hb : ∀ x ∈ cs₁.flatten, boolish q p (proj x) = true) :
    ((filterOp (fun x => passes q p (proj x)) cs₁).flatten ++
      (filterOp (fun x => passes q p.not (proj x)) cs₂).flatten ++
      (filterOp (fun x => passes q p.isNull (proj x)) cs₃).flatten).Perm cs₁.flatten := by
  rw [c11b_filter_flatten, c11b_filter_flatten, c11b_filter_flatten, h₂, h₃]
  exact perm_three_filters _ _ _ _ (fun x hx => tlp_row q p (proj x) (hb x hx))

/-- F (TLP): for every table, every chunking and every predicate of the grammar, the results of
the filters `p`, `NOT p` and `p IS NULL` together are a permutation of the input (multiset union
= input). `proj` reads the data columns of a row that may carry more (a position, say). -/
theorem c11b_tlp_partition (q : Quirks) (p : Ex) (hp : p.isPred = true) (proj : α → Row)
    (cs₁ cs₂ cs₃ : List (List α)) (h₂ : cs₂.flatten = cs₁.flatten) (h₃ : cs₃.flatten = cs₁.flatten) :
    ((filterOp (fun x => passes q p (proj x)) cs₁).flatten ++
      (filterOp (fun x => passes q p.not (proj x)) cs₂).flatten ++
      (filterOp (fun x => passes q p.isNull (proj x)) cs₃).flatten).Perm cs₁.flatten :=
  c11b_tlp_partition_partial q p proj cs₁ cs₂ cs₃ h₂ h₃ (fun x _ => isPred_boolish q p (proj x) hp)

/-- F (TLP by row position): number the rows of the table; the positions returned by the three
filters together are a permutation of `0, 1, …, n-1` — so every position occurs in exactly one of
the three results, exactly once (the three are pairwise disjoint and nothing is missing). -/
theorem c11b_tlp_positions (q : Quirks) (p : Ex) (hp : p.isPred = true) (rows : List Row) :
    (((rows.zipIdx.filter (fun x => passes q p x.1)).map (·.2)) ++
      ((rows.zipIdx.filter (fun x => passes q p.not x.1)).map (·.2)) ++
      ((rows.zipIdx.filter (fun x => passes q p.isNull x.1)).map (·.2))).Perm (List.range rows.length) := by
  have h := perm_three_filters (fun x : Row × Nat => passes q p x.1) (fun x => passes q p.not x.1)
    (fun x => passes q p.isNull x.1) rows.zipIdx (fun x _ => c11b_tlp_exactly_one q p hp x.1)
  have h2 := h.map (·.2)
  simp only [map_append] at h2
  refine h2.trans ?_
  have : rows.zipIdx.map (·.2) = List.range rows.length := by
    rw [zipIdx_map_snd]; simp [range_eq_range']
  rw [this]

/-- consequence: the three position lists have no position in common and none twice -/
theorem c11b_tlp_positions_nodup (q : Quirks) (p : Ex) (hp : p.isPred = true) (rows : List Row) :
    (((rows.zipIdx.filter (fun x => passes q p x.1)).map (·.2)) ++
      ((rows.zipIdx.filter (fun x => passes q p.not x.1)).map (·.2)) ++
      ((rows.zipIdx.filter (fun x => passes q p.isNull x.1)).map (·.2))).Nodup :=
  (c11b_tlp_positions q p hp rows).nodup_iff.mpr nodup_range

/-- W: the statement for *every expression* of the grammar is false for the code: a bare
variable that holds a number is returned by none of `WHERE c0`, `WHERE NOT c0`,
`WHERE c0 IS NULL`. -/
theorem c11b_tlp_nonboolean_row_lost_witness :
    let p := Ex.col 0
    let r : Row := [.int 5]
    passes Quirks.code p r = false ∧ passes Quirks.code p.not r = false ∧
      passes Quirks.code p.isNull r = false ∧ p.isPred = false ∧ boolish Quirks.code p r = false := by
  decide

/-- W: the same at table level — one row, three empty results. -/
theorem c11b_tlp_partition_fails_witness :
    let p := Ex.bin .add (.col 0) (.lit (.int 1))
    let cs : List (List Row) := [[[.int 1]], [[.bool true]]]
    (filterOp (passes Quirks.code p) cs).flatten ++ (filterOp (passes Quirks.code p.not) cs).flatten ++
      (filterOp (passes Quirks.code p.isNull) cs).flatten = [[.bool true]] := by
  decide

/-- N: non-vacuity — a table on which all three parts are non-empty, across two chunks. -/
theorem c11b_tlp_nonvacuous :
    let p := Ex.bin .lt (.col 0) (.lit (.int 3))
    let cs : List (List Row) := [[[.int 1], [.int 5]], [], [[.null], [.str [97]]]]
    (filterOp (passes Quirks.code p) cs).flatten = [[.int 1]] ∧
    (filterOp (passes Quirks.code p.not) cs).flatten = [[.int 5]] ∧
    (filterOp (passes Quirks.code p.isNull) cs).flatten = [[.null], [.str [97]]] ∧ p.isPred = true := by
  decide

/-! ## §3 the code's predicate evaluation against SQL / Cypher three-valued logic -/

/-- F: in the specification every row has exactly one truth value, so the three classes
"true / false / unknown" always partition a table. -/
theorem c11b_spec_partition (p : Ex) (rows : List Row) :
    (rows.filter (fun r => specTV p r == .t) ++ rows.filter (fun r => specTV p r == .f) ++
      rows.filter (fun r => specTV p r == .u)).Perm rows := by
  apply perm_three_filters
  intro r _
  cases specTV p r <;> decide

def BOp.isArith : BOp → Bool
  | .add | .sub | .mul | .div | .mod => true
  | _ => false

/-- value terms: literals, variables, arithmetic — nothing boolean inside -/
def Ex.valTerm : Ex → Bool
  | .lit _ => true
  | .col _ => true
  | .mis => true
  | .bin op l r => op.isArith && l.valTerm && r.valTerm
  | .un op e => op == .neg && e.valTerm
  | .inl _ _ => false

/-- the ordering fragment: `< <= > >=`, the string tests and `IS [NOT] NULL` over value terms,
combined with `AND`, `OR`, `XOR`, `NOT` (no `=`, `<>`, `IN`; no `IS NULL` of a predicate) -/
def Ex.ordPred : Ex → Bool
  | .bin op l r =>
    (match op with
     | .lt | .le | .gt | .ge | .sw | .ew | .ct => l.valTerm && r.valTerm
     | .and | .or | .xor => l.ordPred && r.ordPred
     | _ => false)
  | .un op e =>
    (match op with
     | .not => e.ordPred
     | .isNull | .notNull => e.valTerm
     | .neg => false)
  | _ => false

theorem evalBin_quirk_free (q q' : Quirks) (op : BOp) (a b : Val)
    (h : (match op with | .eq | .ne | .and | .or => false | _ => true) = true) :
    evalBin q op a b = evalBin q' op a b := by
  cases op <;> simp at h <;> rfl

theorem evalQ_bin_strict (q : Quirks) (op : BOp) (l r : Ex) (row : Row)
    (h : (q.strictBool || !(op == .and || op == .or)) = true) :
    evalQ q (.bin op l r) row =
      (match evalQ q l row, evalQ q r row with
       | some a, some b => evalBin q op a b
       | _, _ => none) := by
  rw [evalQ]
  split
  · rename_i hc
    simp only [Bool.and_eq_true, Bool.not_eq_true'] at hc
    simp [hc.1, hc.2] at h
  · rfl

/-- value terms evaluate alike under the code's and under SQL's rules -/
theorem valTerm_indep (q q' : Quirks) : (e : Ex) → e.valTerm = true → ∀ row, evalQ q e row = evalQ q' e row
  | .lit _, _, _ => by simp [evalQ]
  | .col _, _, _ => by simp [evalQ]
  | .mis, _, _ => by simp [evalQ]
  | .bin op l r, h, row => by
    simp only [Ex.valTerm, Bool.and_eq_true] at h
    have hop : (op == .and || op == .or) = false := by cases op <;> simp [BOp.isArith] at h ⊢
    rw [evalQ_bin_strict q op l r row (by simp [hop]), evalQ_bin_strict q' op l r row (by simp [hop]),
      valTerm_indep q q' l h.1.2 row, valTerm_indep q q' r h.2 row]
    cases evalQ q' l row <;> cases evalQ q' r row <;> try rfl
    apply evalBin_quirk_free
    cases op <;> simp [BOp.isArith] at h ⊢
  | .un op e, h, row => by
    simp only [Ex.valTerm, Bool.and_eq_true] at h
    rw [evalQ_un, evalQ_un, valTerm_indep q q' e h.2 row]
  | .inl _ _, h, _ => by simp [Ex.valTerm] at h

theorem and3_of_bools (x y : Bool) : and3 (some (.bool x)) (some (.bool y)) = some (.bool (x && y)) := by
  cases x <;> cases y <;> rfl

theorem or3_of_bools (x y : Bool) : or3 (some (.bool x)) (some (.bool y)) = some (.bool (x || y)) := by
  cases x <;> cases y <;> rfl

theorem evalQ_sql_and (l r : Ex) (row : Row) :
    evalQ Quirks.sql (.bin .and l r) row = and3 (evalQ Quirks.sql l row) (evalQ Quirks.sql r row) := by
  rw [evalQ]; rfl

theorem evalQ_sql_or (l r : Ex) (row : Row) :
    evalQ Quirks.sql (.bin .or l r) row = or3 (evalQ Quirks.sql l row) (evalQ Quirks.sql r row) := by
  rw [evalQ]; rfl

theorem asBool_some (v : Val) (b : Bool) (h : asBool v = some b) : v = .bool b := by
  cases v <;> simp [asBool] at h; rw [h]

/-- on the ordering fragment a definite answer of the code is the answer of SQL -/
theorem ordPred_sound : (e : Ex) → e.ordPred = true → ∀ row b,
    evalQ Quirks.strict e row = some (.bool b) → evalQ Quirks.sql e row = some (.bool b)
  | .lit _, h, _, _ => by simp [Ex.ordPred] at h
  | .col _, h, _, _ => by simp [Ex.ordPred] at h
  | .mis, h, _, _ => by simp [Ex.ordPred] at h
  | .inl _ _, h, _, _ => by simp [Ex.ordPred] at h
  | .un op e, h, row, b => by
    intro hv
    rw [evalQ_un] at hv ⊢
    cases op with
    | neg => simp [Ex.ordPred] at h
    | isNull =>
      simp only [Ex.ordPred] at h
      rw [← valTerm_indep Quirks.strict Quirks.sql e h row]; exact hv
    | notNull =>
      simp only [Ex.ordPred] at h
      rw [← valTerm_indep Quirks.strict Quirks.sql e h row]; exact hv
    | not =>
      simp only [Ex.ordPred] at h
      cases hc : evalQ Quirks.strict e row with
      | none => simp [hc, evalUn] at hv
      | some v =>
        cases v with
        | bool x =>
          rw [ordPred_sound e h row x hc]
          rw [hc] at hv; exact hv
        | null => simp [hc, evalUn, asBool] at hv
        | int _ => simp [hc, evalUn, asBool] at hv
        | flt _ => simp [hc, evalUn, asBool] at hv
        | str _ => simp [hc, evalUn, asBool] at hv
  | .bin op l r, h, row, b => by
    intro hv
    rw [evalQ_bin_strict Quirks.strict op l r row (by simp [Quirks.strict])] at hv
    cases hl : evalQ Quirks.strict l row with
    | none => simp [hl] at hv
    | some x =>
      cases hr : evalQ Quirks.strict r row with
      | none => simp [hl, hr] at hv
      | some y =>
        simp only [hl, hr] at hv
        simp only [Ex.ordPred] at h
        cases op with
        | eq => simp at h
        | ne => simp at h
        | add => simp at h
        | sub => simp at h
        | mul => simp at h
        | div => simp at h
        | mod => simp at h
        | and =>
          simp only [Bool.and_eq_true] at h
          simp only [evalBin, Quirks.strict, if_true] at hv
          cases hx : asBool x with
          | none => simp [hx] at hv
          | some bx =>
            cases hy : asBool y with
            | none => simp [hx, hy] at hv
            | some by' =>
              simp only [hx, hy, Option.bind_eq_bind, Option.bind_some, Option.pure_def, Option.some.injEq,
                Val.bool.injEq] at hv
              have ex := asBool_some x bx hx
              have ey := asBool_some y by' hy
              subst ex ey
              rw [evalQ_sql_and, ordPred_sound l h.1 row bx hl, ordPred_sound r h.2 row by' hr, and3_of_bools, hv]
        | or =>
          simp only [Bool.and_eq_true] at h
          simp only [evalBin, Quirks.strict, if_true] at hv
          cases hx : asBool x with
          | none => simp [hx] at hv
          | some bx =>
            cases hy : asBool y with
            | none => simp [hx, hy] at hv
            | some by' =>
              simp only [hx, hy, Option.bind_eq_bind, Option.bind_some, Option.pure_def, Option.some.injEq,
                Val.bool.injEq] at hv
              have ex := asBool_some x bx hx
              have ey := asBool_some y by' hy
              subst ex ey
              rw [evalQ_sql_or, ordPred_sound l h.1 row bx hl, ordPred_sound r h.2 row by' hr, or3_of_bools, hv]
        | xor =>
          simp only [Bool.and_eq_true] at h
          rw [evalQ_bin_strict Quirks.sql .xor l r row (by decide)]
          have key : ∀ v : Val, (∃ z, asBool v = some z) → ∃ z, v = .bool z :=
            fun v ⟨z, hz⟩ => ⟨z, asBool_some v z hz⟩
          simp only [evalBin] at hv
          cases hx : asBool x with
          | none => simp [hx] at hv
          | some bx =>
            cases hy : asBool y with
            | none => simp [hx, hy] at hv
            | some by' =>
              have ex := asBool_some x bx hx
              have ey := asBool_some y by' hy
              subst ex ey
              rw [ordPred_sound l h.1 row bx hl, ordPred_sound r h.2 row by' hr]
              exact hv
        | lt =>
          simp only [Bool.and_eq_true] at h
          rw [evalQ_bin_strict Quirks.sql _ l r row (by decide),
            ← valTerm_indep Quirks.strict Quirks.sql l h.1 row, ← valTerm_indep Quirks.strict Quirks.sql r h.2 row, hl, hr]
          exact hv
        | le =>
          simp only [Bool.and_eq_true] at h
          rw [evalQ_bin_strict Quirks.sql _ l r row (by decide),
            ← valTerm_indep Quirks.strict Quirks.sql l h.1 row, ← valTerm_indep Quirks.strict Quirks.sql r h.2 row, hl, hr]
          exact hv
        | gt =>
          simp only [Bool.and_eq_true] at h
          rw [evalQ_bin_strict Quirks.sql _ l r row (by decide),
            ← valTerm_indep Quirks.strict Quirks.sql l h.1 row, ← valTerm_indep Quirks.strict Quirks.sql r h.2 row, hl, hr]
          exact hv
        | ge =>
          simp only [Bool.and_eq_true] at h
          rw [evalQ_bin_strict Quirks.sql _ l r row (by decide),
            ← valTerm_indep Quirks.strict Quirks.sql l h.1 row, ← valTerm_indep Quirks.strict Quirks.sql r h.2 row, hl, hr]
          exact hv
        | sw =>
          simp only [Bool.and_eq_true] at h
          rw [evalQ_bin_strict Quirks.sql _ l r row (by decide),
            ← valTerm_indep Quirks.strict Quirks.sql l h.1 row, ← valTerm_indep Quirks.strict Quirks.sql r h.2 row, hl, hr]
          exact hv
        | ew =>
          simp only [Bool.and_eq_true] at h
          rw [evalQ_bin_strict Quirks.sql _ l r row (by decide),
            ← valTerm_indep Quirks.strict Quirks.sql l h.1 row, ← valTerm_indep Quirks.strict Quirks.sql r h.2 row, hl, hr]
          exact hv
        | ct =>
          simp only [Bool.and_eq_true] at h
          rw [evalQ_bin_strict Quirks.sql _ l r row (by decide),
            ← valTerm_indep Quirks.strict Quirks.sql l h.1 row, ← valTerm_indep Quirks.strict Quirks.sql r h.2 row, hl, hr]
          exact hv

/-- P (the code with AND / OR strict in both operands): on the ordering fragment (comparisons `< <= > >=`, string tests and `IS [NOT] NULL` over
value terms, under `AND` / `OR` / `XOR` / `NOT`) the code never returns a wrong row: what
`WHERE p` returns is true in SQL's three-valued logic and what `WHERE NOT p` returns is false.
(The code may call "unknown" what SQL decides — `c11b_and_not_kleene_witness`.) -/
theorem c11b_strict_sound_on_ordering_fragment_partial (p : Ex) (hp : p.ordPred = true) (r : Row) :
    (passes Quirks.strict p r = true → specTV p r = .t) ∧
    (passes Quirks.strict p.not r = true → specTV p r = .f) := by
  constructor
  · intro h
    unfold passes at h
    have := ordPred_sound p hp r true (by simpa using h)
    unfold specTV; rw [this]; rfl
  · intro h
    unfold passes Ex.not at h
    rw [evalQ_un] at h
    have hv : evalQ Quirks.strict p r = some (.bool false) := by
      cases hc : evalQ Quirks.strict p r with
      | none => simp [hc, evalUn] at h
      | some v =>
        cases v with
        | bool x => cases x <;> simp [hc, evalUn, asBool] at h ⊢
        | null => simp [hc, evalUn, asBool] at h
        | int _ => simp [hc, evalUn, asBool] at h
        | flt _ => simp [hc, evalUn, asBool] at h
        | str _ => simp [hc, evalUn, asBool] at h
    have := ordPred_sound p hp r false hv
    unfold specTV; rw [this]; rfl

/-- W (AND / OR are not Kleene's): `c0 < 3 AND c1 < 3` on the row (5, NULL) is false in SQL
(`false AND unknown`), so the row belongs to `WHERE NOT p`; the code puts it into `p IS NULL`. -/
theorem c11b_and_not_kleene_witness :
    let p := Ex.bin .and (.bin .lt (.col 0) (.lit (.int 3))) (.bin .lt (.col 1) (.lit (.int 3)))
    let r : Row := [.int 5, .null]
    specTV p r = .f ∧ passes Quirks.strict p.not r = false ∧ passes Quirks.strict p.isNull r = true ∧
      p.ordPred = true := by
  decide

/-- W (NULL compared as a value): `c0 = c1` on (NULL, NULL) is unknown in SQL; the code returns
the row from `WHERE c0 = c1`. And `c0 <> c1` on (NULL, 1) is unknown; the code returns the row. -/
theorem c11b_null_compared_as_value_witness :
    specTV (.bin .eq (.col 0) (.col 1)) [.null, .null] = .u ∧
    passes Quirks.code (.bin .eq (.col 0) (.col 1)) [.null, .null] = true ∧
    specTV (.bin .ne (.col 0) (.col 1)) [.null, .int 1] = .u ∧
    passes Quirks.code (.bin .ne (.col 0) (.col 1)) [.null, .int 1] = true := by
  decide

/-- W (epsilon equality): 1.0 and its predecessor 0.99999999999999989 are different numbers; the
code returns the row from `WHERE c0 = c1` — and also from `WHERE c0 > c1`. -/
theorem c11b_float_eq_epsilon_witness :
    let r : Row := [.flt 0x3ff0000000000000, .flt 0x3fefffffffffffff]
    specTV (.bin .eq (.col 0) (.col 1)) r = .f ∧ passes Quirks.code (.bin .eq (.col 0) (.col 1)) r = true ∧
      passes Quirks.code (.bin .gt (.col 0) (.col 1)) r = true := by
  decide +kernel

/-- W (IN is two-valued): `c0 IN [1, NULL]` on the row (0) is unknown in SQL; the code calls it
false and returns the row from `WHERE NOT (c0 IN [1, NULL])`. -/
theorem c11b_in_two_valued_witness :
    let p := Ex.inl (.col 0) (.cons (.lit (.int 1)) (.cons (.lit .null) .nil))
    let r : Row := [.int 0]
    specTV p r = .u ∧ passes Quirks.code p.not r = true := by
  decide

/-- N: the soundness theorem is not vacuous: a fragment predicate with all three outcomes. -/
theorem c11b_code_sound_nonvacuous :
    let p := Ex.bin .or (.bin .lt (.bin .div (.lit (.int 6)) (.col 0)) (.lit (.int 3))) (.un .isNull (.col 1))
    p.ordPred = true ∧ passes Quirks.strict p [.int 3, .int 0] = true ∧ passes Quirks.strict p.not [.int 1, .int 0] = true ∧
      passes Quirks.strict p.isNull [.int 0, .int 0] = true := by
  decide

/-- with Kleene's AND / OR the evaluation no longer depends on the remaining switches on the
ordering fragment -/
theorem ordPred_indep (q q' : Quirks) (hq : q.strictBool = false) (hq' : q'.strictBool = false) :
    (e : Ex) → e.ordPred = true → ∀ row, evalQ q e row = evalQ q' e row
  | .lit _, h, _ => by simp [Ex.ordPred] at h
  | .col _, h, _ => by simp [Ex.ordPred] at h
  | .mis, h, _ => by simp [Ex.ordPred] at h
  | .inl _ _, h, _ => by simp [Ex.ordPred] at h
  | .un op e, h, row => by
    rw [evalQ_un, evalQ_un]
    cases op with
    | neg => simp [Ex.ordPred] at h
    | isNull => simp only [Ex.ordPred] at h; rw [valTerm_indep q q' e h row]
    | notNull => simp only [Ex.ordPred] at h; rw [valTerm_indep q q' e h row]
    | not => simp only [Ex.ordPred] at h; rw [ordPred_indep q q' hq hq' e h row]
  | .bin op l r, h, row => by
    simp only [Ex.ordPred] at h
    cases op with
    | eq => simp at h
    | ne => simp at h
    | add => simp at h
    | sub => simp at h
    | mul => simp at h
    | div => simp at h
    | mod => simp at h
    | and =>
      simp only [Bool.and_eq_true] at h
      rw [evalQ, evalQ]
      simp only [hq, hq', Bool.not_false, Bool.true_and, beq_self_eq_true, Bool.true_or, if_true]
      rw [ordPred_indep q q' hq hq' l h.1 row, ordPred_indep q q' hq hq' r h.2 row]
    | or =>
      simp only [Bool.and_eq_true] at h
      rw [evalQ, evalQ]
      have e1 : ((BOp.or == BOp.and) = false) := by decide
      simp only [hq, hq', Bool.not_false, Bool.true_and, beq_self_eq_true, Bool.or_true, if_true, e1,
        Bool.false_eq_true, if_false]
      rw [ordPred_indep q q' hq hq' l h.1 row, ordPred_indep q q' hq hq' r h.2 row]
    | xor =>
      simp only [Bool.and_eq_true] at h
      rw [evalQ_bin_strict q .xor l r row (by simp), evalQ_bin_strict q' .xor l r row (by simp),
        ordPred_indep q q' hq hq' l h.1 row, ordPred_indep q q' hq hq' r h.2 row]
      cases evalQ q' l row <;> cases evalQ q' r row <;> rfl
    | lt =>
      simp only [Bool.and_eq_true] at h
      rw [evalQ_bin_strict q _ l r row (by simp), evalQ_bin_strict q' _ l r row (by simp),
        valTerm_indep q q' l h.1 row, valTerm_indep q q' r h.2 row]
      cases evalQ q' l row <;> cases evalQ q' r row <;> rfl
    | le =>
      simp only [Bool.and_eq_true] at h
      rw [evalQ_bin_strict q _ l r row (by simp), evalQ_bin_strict q' _ l r row (by simp),
        valTerm_indep q q' l h.1 row, valTerm_indep q q' r h.2 row]
      cases evalQ q' l row <;> cases evalQ q' r row <;> rfl
    | gt =>
      simp only [Bool.and_eq_true] at h
      rw [evalQ_bin_strict q _ l r row (by simp), evalQ_bin_strict q' _ l r row (by simp),
        valTerm_indep q q' l h.1 row, valTerm_indep q q' r h.2 row]
      cases evalQ q' l row <;> cases evalQ q' r row <;> rfl
    | ge =>
      simp only [Bool.and_eq_true] at h
      rw [evalQ_bin_strict q _ l r row (by simp), evalQ_bin_strict q' _ l r row (by simp),
        valTerm_indep q q' l h.1 row, valTerm_indep q q' r h.2 row]
      cases evalQ q' l row <;> cases evalQ q' r row <;> rfl
    | sw =>
      simp only [Bool.and_eq_true] at h
      rw [evalQ_bin_strict q _ l r row (by simp), evalQ_bin_strict q' _ l r row (by simp),
        valTerm_indep q q' l h.1 row, valTerm_indep q q' r h.2 row]
      cases evalQ q' l row <;> cases evalQ q' r row <;> rfl
    | ew =>
      simp only [Bool.and_eq_true] at h
      rw [evalQ_bin_strict q _ l r row (by simp), evalQ_bin_strict q' _ l r row (by simp),
        valTerm_indep q q' l h.1 row, valTerm_indep q q' r h.2 row]
      cases evalQ q' l row <;> cases evalQ q' r row <;> rfl
    | ct =>
      simp only [Bool.and_eq_true] at h
      rw [evalQ_bin_strict q _ l r row (by simp), evalQ_bin_strict q' _ l r row (by simp),
        valTerm_indep q q' l h.1 row, valTerm_indep q q' r h.2 row]
      cases evalQ q' l row <;> cases evalQ q' r row <;> rfl

/-- P (the code with Kleene's AND / OR, i.e. after the repair "AND and OR in predicates follow
three-valued logic"): on the ordering fragment the three filters `p`, `NOT p`, `p IS NULL` return
exactly SQL's true / false / unknown rows. -/
theorem c11b_kleene_eq_sql_on_ordering_fragment_partial (p : Ex) (hp : p.ordPred = true) (r : Row) :
    passes Quirks.kleene p r = (specTV p r == .t) ∧ passes Quirks.kleene p.not r = (specTV p r == .f) ∧
      passes Quirks.kleene p.isNull r = (specTV p r == .u) := by
  have e := ordPred_indep Quirks.kleene Quirks.sql rfl rfl p hp r
  unfold passes specTV Ex.not Ex.isNull
  rw [evalQ_un, evalQ_un, e]
  have hb := isPred_boolish Quirks.sql p r (by
    cases p <;> simp [Ex.ordPred, Ex.isPred] at hp ⊢
    · rename_i op _ _; cases op <;> simp at hp ⊢
    · rename_i op _; cases op <;> simp at hp ⊢)
  unfold boolish at hb
  cases hv : evalQ Quirks.sql p r with
  | none => simp [evalUn, tvOf]
  | some v =>
    rw [hv] at hb
    cases v with
    | null => decide
    | bool b => cases b <;> decide
    | int _ => simp at hb
    | flt _ => simp at hb
    | str _ => simp at hb

/-! ## §4 SortOperator -/

section GenericSort

/-- the comparison is transitive on the elements of the list -/
def TransOn (le : α → α → Bool) (l : List α) : Prop :=
  ∀ a ∈ l, ∀ b ∈ l, ∀ c ∈ l, le a b = true → le b c = true → le a c = true

/-- any two elements of the list compare one way or the other -/
def TotalOn (le : α → α → Bool) (l : List α) : Prop :=
  ∀ a ∈ l, ∀ b ∈ l, (le a b || le b a) = true

instance (le : α → α → Bool) (l : List α) : Decidable (TransOn le l) := by
  unfold TransOn; infer_instance

instance (le : α → α → Bool) (l : List α) : Decidable (TotalOn le l) := by
  unfold TotalOn; infer_instance

/-- merge sort only ever compares elements of its input: it can be run on the subtype of members -/
theorem mergeSort_eq_attach (le : α → α → Bool) (l : List α) :
    l.mergeSort le = (l.attach.mergeSort (fun a b => le a.1 b.1)).map Subtype.val := by
  have h := map_mergeSort (r := fun (a b : {x // x ∈ l}) => le a.1 b.1) (s := le)
    (f := Subtype.val) (l := l.attach) (fun _ _ _ _ => rfl)
  rw [h, attach_map_subtype_val]

/-- sorted: with a comparison that is transitive and total on the rows present -/
theorem pairwise_mergeSort_on (le : α → α → Bool) (l : List α) (ht : TransOn le l) (hto : TotalOn le l) :
    (l.mergeSort le).Pairwise (fun a b => le a b = true) := by
  rw [mergeSort_eq_attach, pairwise_map]
  exact pairwise_mergeSort (le := fun (a b : {x // x ∈ l}) => le a.1 b.1)
    (fun a b c => ht a.1 a.2 b.1 b.2 c.1 c.2) (fun a b => hto a.1 a.2 b.1 b.2) l.attach

/-- stable: the rows that compare equal to `a` keep their input order -/
theorem stable_mergeSort_on (le : α → α → Bool) (l : List α) (ht : TransOn le l) (hto : TotalOn le l)
    (a : α) (ha : a ∈ l) :
    (l.mergeSort le).filter (fun x => le a x && le x a) = l.filter (fun x => le a x && le x a) := by
  let le' : {x // x ∈ l} → {x // x ∈ l} → Bool := fun x y => le x.1 y.1
  let E : {x // x ∈ l} → Bool := fun x => le a x.1 && le x.1 a
  have htr : ∀ x y z : {x // x ∈ l}, le' x y = true → le' y z = true → le' x z = true :=
    fun x y z => ht x.1 x.2 y.1 y.2 z.1 z.2
  have hto' : ∀ x y : {x // x ∈ l}, (le' x y || le' y x) = true := fun x y => hto x.1 x.2 y.1 y.2
  have hc : (l.attach.filter E).Pairwise (fun x y => le' x y = true) := by
    refine Pairwise.imp_of_mem ?_ (pairwise_of_forall (R := fun _ _ => True) (fun _ _ => trivial))
    intro x y hx hy _
    have ex := (mem_filter.mp hx).2
    have ey := (mem_filter.mp hy).2
    simp only [E, Bool.and_eq_true] at ex ey
    exact ht x.1 x.2 a ha y.1 y.2 ex.2 ey.1
  have hsub : l.attach.filter E <+ l.attach.mergeSort le' :=
    sublist_mergeSort htr hto' hc filter_sublist
  have hsub2 : l.attach.filter E <+ (l.attach.mergeSort le').filter E := by
    have := hsub.filter E
    rwa [filter_filter, show (fun x => E x && E x) = E from by funext x; simp] at this
  have hlen : (l.attach.filter E).length = ((l.attach.mergeSort le').filter E).length :=
    ((mergeSort_perm l.attach le').filter E).length_eq.symm
  have heq := hsub2.eq_of_length hlen
  rw [mergeSort_eq_attach]
  have e1 : ((l.attach.mergeSort le').map Subtype.val).filter (fun x => le a x && le x a) =
      ((l.attach.mergeSort le').filter E).map Subtype.val := by
    rw [filter_map]; rfl
  have e2 : l.filter (fun x => le a x && le x a) = (l.attach.filter E).map Subtype.val := by
    conv => lhs; rw [← attach_map_subtype_val l]
    rw [filter_map]; rfl
  rw [e1, e2, heq]

end GenericSort

theorem rechunk_flatten (size : Nat) (hs : 0 < size) (fuel : Nat) (rows : List α)
    (hf : rows.length ≤ fuel) : (rechunk size fuel rows).flatten = rows := by
  induction fuel generalizing rows with
  | zero =>
    have : rows = [] := length_eq_zero_iff.mp (by omega)
    subst this; rfl
  | succ f ih =>
    unfold rechunk
    split
    · rename_i he
      have : rows = [] := by simpa using he
      subst this; rfl
    · rename_i hne
      have hpos : 0 < rows.length := by
        cases rows with
        | nil => simp at hne
        | cons _ _ => simp
      rw [flatten_cons, ih (rows.drop size) (by simp; omega), take_append_drop]

theorem rechunkAll_flatten (size : Nat) (hs : 0 < size) (rows : List α) :
    (rechunkAll size rows).flatten = rows :=
  rechunk_flatten size hs rows.length rows (Nat.le_refl _)

/-- F: the flat output of `SortOperator` is the stable merge sort of the flat input. -/
theorem c11b_sort_flatten (cap : Nat) (hc : 0 < cap) (keys : List SortKey) (cs : List (List Row)) :
    (sortOp cap keys cs).flatten = cs.flatten.mergeSort (rowLe keys) := by
  unfold sortOp; rw [rechunkAll_flatten cap hc]

/-- F: ORDER BY returns a permutation of its input — for every comparator, every chunking. -/
theorem c11b_sort_perm (cap : Nat) (hc : 0 < cap) (keys : List SortKey) (cs : List (List Row)) :
    (sortOp cap keys cs).flatten.Perm cs.flatten := by
  rw [c11b_sort_flatten cap hc]; exact mergeSort_perm _ _

/-- F: the result — chunk structure included — depends on the rows only, not on how the child
cut them into chunks. -/
theorem c11b_sort_chunking_irrelevant (cap : Nat) (keys : List SortKey) (cs cs' : List (List Row))
    (h : cs.flatten = cs'.flatten) : sortOp cap keys cs = sortOp cap keys cs' := by
  unfold sortOp; rw [h]

/-- P: sorted under the engine's comparator, provided that comparator is transitive and total on
the rows present (decidable conditions on the table; see `c11b_rowLe_total`,
`c11b_rowLe_trans` for why they hold on every table). -/
theorem c11b_sort_sorted_partial (cap : Nat) (hc : 0 < cap) (keys : List SortKey) (cs : List (List Row))
    (ht : TransOn (rowLe keys) cs.flatten) (hto : TotalOn (rowLe keys) cs.flatten) :
    (sortOp cap keys cs).flatten.Pairwise (fun a b => rowLe keys a b = true) := by
  rw [c11b_sort_flatten cap hc]; exact pairwise_mergeSort_on _ _ ht hto

/-- P: stable — the rows whose keys compare equal to those of a row `a` come out in their input
order (same hypotheses). -/
theorem c11b_sort_stable_partial (cap : Nat) (hc : 0 < cap) (keys : List SortKey) (cs : List (List Row))
    (ht : TransOn (rowLe keys) cs.flatten) (hto : TotalOn (rowLe keys) cs.flatten)
    (a : Row) (ha : a ∈ cs.flatten) :
    (sortOp cap keys cs).flatten.filter (fun x => rowLe keys a x && rowLe keys x a) =
      cs.flatten.filter (fun x => rowLe keys a x && rowLe keys x a) := by
  rw [c11b_sort_flatten cap hc]; exact stable_mergeSort_on _ _ ht hto a ha

/-! ### the engine's comparator: a total preorder on all values; equal to the specification's -/

section Comparator

theorem flipOrd_flipOrd (o : Ordering) : flipOrd (flipOrd o) = o := by cases o <;> rfl

theorem flipOrd_eq_eq (o : Ordering) : flipOrd o = .eq ↔ o = .eq := by cases o <;> simp [flipOrd]

/-- a three-way comparison that behaves like the comparison of a linear preorder on the set `S`:
antisymmetric, `<` transitive, and "equal" elements compare alike with everything -/
structure OrdOK {β : Type} (cmp : β → β → Ordering) (S : β → Prop) : Prop where
  flip : ∀ a b, S a → S b → cmp b a = flipOrd (cmp a b)
  ltlt : ∀ a b c, S a → S b → S c → cmp a b = .lt → cmp b c = .lt → cmp a c = .lt
  eql : ∀ a b c, S a → S b → S c → cmp a b = .eq → cmp a c = cmp b c

variable {β : Type}

theorem OrdOK.eqr {cmp : β → β → Ordering} {S : β → Prop} (h : OrdOK cmp S) (a b c : β)
    (ha : S a) (hb : S b) (hc : S c) (hbc : cmp b c = .eq) : cmp a c = cmp a b := by
  have h1 : cmp c b = .eq := by rw [h.flip b c hb hc, hbc]; rfl
  have h2 := h.eql c b a hc hb ha h1
  rw [h.flip c a hc ha, h.flip b a hb ha, h2]

theorem OrdOK.gtgt {cmp : β → β → Ordering} {S : β → Prop} (h : OrdOK cmp S) (a b c : β)
    (ha : S a) (hb : S b) (hc : S c) (h1 : cmp a b = .gt) (h2 : cmp b c = .gt) : cmp a c = .gt := by
  have e1 : cmp b a = .lt := by rw [h.flip a b ha hb, h1]; rfl
  have e2 : cmp c b = .lt := by rw [h.flip b c hb hc, h2]; rfl
  have := h.ltlt c b a hc hb ha e2 e1
  rw [h.flip c a hc ha, this]; rfl

/-- `≤` (= "not greater") is transitive -/
theorem OrdOK.le_trans {cmp : β → β → Ordering} {S : β → Prop} (h : OrdOK cmp S) (a b c : β)
    (ha : S a) (hb : S b) (hc : S c) (h1 : cmp a b ≠ .gt) (h2 : cmp b c ≠ .gt) : cmp a c ≠ .gt := by
  cases e1 : cmp a b with
  | gt => exact absurd e1 h1
  | eq => rw [h.eql a b c ha hb hc e1]; exact h2
  | lt =>
    cases e2 : cmp b c with
    | gt => exact absurd e2 h2
    | eq => rw [h.eqr a b c ha hb hc e2, e1]; simp
    | lt => rw [h.ltlt a b c ha hb hc e1 e2]; simp

theorem OrdOK.flipped {cmp : β → β → Ordering} {S : β → Prop} (h : OrdOK cmp S) :
    OrdOK (fun a b => flipOrd (cmp a b)) S where
  flip a b ha hb := by
    show flipOrd (cmp b a) = flipOrd (flipOrd (cmp a b))
    rw [h.flip a b ha hb]
  ltlt a b c ha hb hc h1 h2 := by
    have h1' : flipOrd (cmp a b) = .lt := h1
    have h2' : flipOrd (cmp b c) = .lt := h2
    have e1 : cmp a b = .gt := by cases e : cmp a b <;> simp [e, flipOrd] at h1' ⊢
    have e2 : cmp b c = .gt := by cases e : cmp b c <;> simp [e, flipOrd] at h2' ⊢
    show flipOrd (cmp a c) = .lt
    rw [h.gtgt a b c ha hb hc e1 e2]; rfl
  eql a b c ha hb hc h1 := by
    have h1' : flipOrd (cmp a b) = .eq := h1
    show flipOrd (cmp a c) = flipOrd (cmp b c)
    rw [h.eql a b c ha hb hc ((flipOrd_eq_eq _).mp h1')]

theorem OrdOK.lex {c1 c2 : β → β → Ordering} {S : β → Prop} (h1 : OrdOK c1 S) (h2 : OrdOK c2 S) :
    OrdOK (fun a b => if c1 a b = .eq then c2 a b else c1 a b) S where
  flip a b ha hb := by
    show (if c1 b a = .eq then c2 b a else c1 b a) = flipOrd (if c1 a b = .eq then c2 a b else c1 a b)
    rw [h1.flip a b ha hb, h2.flip a b ha hb]
    cases c1 a b <;> simp [flipOrd]
  ltlt a b c ha hb hc e1 e2 := by
    have e1 : (if c1 a b = .eq then c2 a b else c1 a b) = .lt := e1
    have e2 : (if c1 b c = .eq then c2 b c else c1 b c) = .lt := e2
    show (if c1 a c = .eq then c2 a c else c1 a c) = .lt
    by_cases x : c1 a b = .eq
    · rw [if_pos x] at e1
      rw [h1.eql a b c ha hb hc x]
      by_cases y : c1 b c = .eq
      · rw [if_pos y] at e2 ⊢; exact h2.ltlt a b c ha hb hc e1 e2
      · rw [if_neg y] at e2 ⊢; exact e2
    · rw [if_neg x] at e1
      by_cases y : c1 b c = .eq
      · rw [if_pos y] at e2
        have : c1 a c = .lt := by rw [h1.eqr a b c ha hb hc y]; exact e1
        rw [this]; simp
      · rw [if_neg y] at e2
        have : c1 a c = .lt := h1.ltlt a b c ha hb hc e1 e2
        rw [this]; simp
  eql a b c ha hb hc e := by
    have e : (if c1 a b = .eq then c2 a b else c1 a b) = .eq := e
    show (if c1 a c = .eq then c2 a c else c1 a c) = (if c1 b c = .eq then c2 b c else c1 b c)
    by_cases x : c1 a b = .eq
    · rw [if_pos x] at e
      rw [h1.eql a b c ha hb hc x, h2.eql a b c ha hb hc e]
    · rw [if_neg x] at e; exact absurd e x

theorem OrdOK.comap {γ : Type} {cmp : β → β → Ordering} {S : β → Prop} (h : OrdOK cmp S) (f : γ → β) :
    OrdOK (fun a b => cmp (f a) (f b)) (fun a => S (f a)) where
  flip a b ha hb := h.flip (f a) (f b) ha hb
  ltlt a b c ha hb hc := h.ltlt (f a) (f b) (f c) ha hb hc
  eql a b c ha hb hc := h.eql (f a) (f b) (f c) ha hb hc

theorem OrdOK.mono {cmp : β → β → Ordering} {S T : β → Prop} (h : OrdOK cmp S) (hT : ∀ a, T a → S a) :
    OrdOK cmp T where
  flip a b ha hb := h.flip a b (hT a ha) (hT b hb)
  ltlt a b c ha hb hc := h.ltlt a b c (hT a ha) (hT b hb) (hT c hc)
  eql a b c ha hb hc := h.eql a b c (hT a ha) (hT b hb) (hT c hc)

theorem cmpInt_flip (a b : Int) : compare b a = flipOrd (compare a b) := by
  rcases Int.lt_trichotomy a b with h | h | h
  · rw [Int.compare_eq_lt.mpr h, Int.compare_eq_gt.mpr h]; rfl
  · subst h; rw [Int.compare_eq_eq.mpr rfl]; rfl
  · rw [Int.compare_eq_gt.mpr h, Int.compare_eq_lt.mpr h]; rfl

/-- a comparison given by an integer rank is a linear preorder comparison -/
theorem OrdOK.of_rank (cmp : β → β → Ordering) (S : β → Prop) (f : β → Int)
    (h : ∀ a b, S a → S b → cmp a b = compare (f a) (f b)) : OrdOK cmp S where
  flip a b ha hb := by rw [h b a hb ha, h a b ha hb, cmpInt_flip]
  ltlt a b c ha hb hc e1 e2 := by
    rw [h a b ha hb, Int.compare_eq_lt] at e1
    rw [h b c hb hc, Int.compare_eq_lt] at e2
    rw [h a c ha hc, Int.compare_eq_lt]; omega
  eql a b c ha hb hc e := by
    rw [h a b ha hb, Int.compare_eq_eq] at e
    rw [h a c ha hc, h b c hb hc, e]

theorem cmpBytes_flip : ∀ a b : List Nat, cmpBytes b a = flipOrd (cmpBytes a b)
  | [], [] => rfl
  | [], _ :: _ => rfl
  | _ :: _, [] => rfl
  | x :: xs, y :: ys => by
    simp only [cmpBytes]
    by_cases h1 : x < y
    · have : ¬ y < x := by omega
      simp [h1, this, flipOrd]
    · by_cases h2 : y < x
      · simp [h1, h2, flipOrd]
      · simp [h1, h2, cmpBytes_flip xs ys]

theorem cmpBytes_eq : ∀ a b : List Nat, cmpBytes a b = .eq → a = b
  | [], [], _ => rfl
  | [], _ :: _, h => by simp [cmpBytes] at h
  | _ :: _, [], h => by simp [cmpBytes] at h
  | x :: xs, y :: ys, h => by
    simp only [cmpBytes] at h
    by_cases h1 : x < y
    · simp [h1] at h
    · by_cases h2 : y < x
      · simp [h1, h2] at h
      · simp only [h1, h2, if_false] at h
        have : x = y := by omega
        rw [this, cmpBytes_eq xs ys h]

theorem cmpBytes_ltlt : ∀ a b c : List Nat, cmpBytes a b = .lt → cmpBytes b c = .lt → cmpBytes a c = .lt
  | [], [], _, h, _ => by simp [cmpBytes] at h
  | [], _ :: _, [], _, h => by simp [cmpBytes] at h
  | [], _ :: _, _ :: _, _, _ => rfl
  | _ :: _, [], _, h, _ => by simp [cmpBytes] at h
  | _ :: _, _ :: _, [], _, h => by simp [cmpBytes] at h
  | x :: xs, y :: ys, z :: zs, h1, h2 => by
    simp only [cmpBytes] at h1 h2 ⊢
    by_cases a1 : x < y
    · by_cases b1 : y < z
      · have : x < z := by omega
        simp [this]
      · by_cases b2 : z < y
        · simp [b1, b2] at h2
        · have : x < z := by omega
          simp [this]
    · by_cases a2 : y < x
      · simp [a1, a2] at h1
      · simp only [a1, a2, if_false] at h1
        by_cases b1 : y < z
        · have : x < z := by omega
          simp [this]
        · by_cases b2 : z < y
          · simp [b1, b2] at h2
          · simp only [b1, b2, if_false] at h2
            have e1 : ¬ x < z := by omega
            have e2 : ¬ z < x := by omega
            simp only [e1, e2, if_false]
            exact cmpBytes_ltlt xs ys zs h1 h2

theorem cmpBytes_ok : OrdOK cmpBytes (fun _ => True) where
  flip a b _ _ := cmpBytes_flip a b
  ltlt a b c _ _ _ := cmpBytes_ltlt a b c
  eql a b c _ _ _ h := by rw [cmpBytes_eq a b h]

/-! ### the specification's order of all values is a total preorder -/

theorem tripleCmp_ok : OrdOK (fun (x y : Nat × Int × List Nat) =>
    if x.1 < y.1 then Ordering.lt else if y.1 < x.1 then .gt
    else if x.2.1 < y.2.1 then .lt else if y.2.1 < x.2.1 then .gt
    else cmpBytes x.2.2 y.2.2) (fun _ => True) := by
  have c1 : OrdOK (fun (x y : Nat × Int × List Nat) => compare (x.1 : Int) (y.1 : Int)) (fun _ => True) :=
    OrdOK.of_rank _ _ (fun x => (x.1 : Int)) (fun _ _ _ _ => rfl)
  have c2 : OrdOK (fun (x y : Nat × Int × List Nat) => compare x.2.1 y.2.1) (fun _ => True) :=
    OrdOK.of_rank _ _ (fun x => x.2.1) (fun _ _ _ _ => rfl)
  have c3 : OrdOK (fun (x y : Nat × Int × List Nat) => cmpBytes x.2.2 y.2.2) (fun _ => True) :=
    cmpBytes_ok.comap (fun x : Nat × Int × List Nat => x.2.2)
  have h := c1.lex (c2.lex c3)
  have e : (fun (x y : Nat × Int × List Nat) =>
      if x.1 < y.1 then Ordering.lt else if y.1 < x.1 then .gt
      else if x.2.1 < y.2.1 then .lt else if y.2.1 < x.2.1 then .gt
      else cmpBytes x.2.2 y.2.2) =
      (fun x y => if compare (x.1 : Int) (y.1 : Int) = .eq then
        (if compare x.2.1 y.2.1 = .eq then cmpBytes x.2.2 y.2.2 else compare x.2.1 y.2.1)
        else compare (x.1 : Int) (y.1 : Int)) := by
    funext x y
    rcases Nat.lt_trichotomy x.1 y.1 with h1 | h1 | h1
    · have : ((x.1 : Int) < (y.1 : Int)) := by omega
      simp [h1, Int.compare_eq_lt.mpr this]
    · have e1 : ¬ x.1 < y.1 := by omega
      have e2 : ¬ y.1 < x.1 := by omega
      have : ((x.1 : Int) = (y.1 : Int)) := by omega
      simp only [e1, e2, if_false, Int.compare_eq_eq.mpr this, if_true]
      rcases Int.lt_trichotomy x.2.1 y.2.1 with h2 | h2 | h2
      · simp [h2, Int.compare_eq_lt.mpr h2]
      · have f1 : ¬ x.2.1 < y.2.1 := by omega
        have f2 : ¬ y.2.1 < x.2.1 := by omega
        simp [f1, f2, Int.compare_eq_eq.mpr h2]
      · have f1 : ¬ x.2.1 < y.2.1 := by omega
        simp [f1, h2, Int.compare_eq_gt.mpr h2]
    · have e1 : ¬ x.1 < y.1 := by omega
      have : ((y.1 : Int) < (x.1 : Int)) := by omega
      simp [e1, h1, Int.compare_eq_gt.mpr this]
  rw [e]; exact h

theorem specCmpVals_ok : OrdOK specCmpVals (fun _ => True) :=
  tripleCmp_ok.comap specRank


/-! ### generic: NULL placement, one key, all keys — over any value comparison -/

theorem const_eq_ok {γ : Type} (S : γ → Prop) : OrdOK (fun _ _ : γ => Ordering.eq) S :=
  ⟨fun _ _ _ _ => rfl, fun _ _ _ _ _ _ h _ => h, fun _ _ _ _ _ _ _ => rfl⟩

theorem OrdOK.congr {cmp cmp' : β → β → Ordering} {S : β → Prop} (h : OrdOK cmp' S)
    (e : ∀ a b, S a → S b → cmp a b = cmp' a b) : OrdOK cmp S where
  flip a b ha hb := by rw [e b a hb ha, e a b ha hb]; exact h.flip a b ha hb
  ltlt a b c ha hb hc h1 h2 := by
    rw [e a b ha hb] at h1; rw [e b c hb hc] at h2; rw [e a c ha hc]; exact h.ltlt a b c ha hb hc h1 h2
  eql a b c ha hb hc h1 := by
    rw [e a b ha hb] at h1; rw [e a c ha hc, e b c hb hc]; exact h.eql a b c ha hb hc h1

theorem nullsCmp_some (cmpv : Val → Val → Ordering) (nf : Bool) (a b : Val) :
    nullsCmp cmpv nf (some a) (some b) =
      if a = .null then (if b = .null then .eq else if nf then .lt else .gt)
      else if b = .null then (if nf then .gt else .lt) else cmpv a b := by
  cases a <;> cases b <;> simp [nullsCmp]

/-- the column value of a row: present, and NULL or in the set `S` of comparable values -/
def ColOK (S : Val → Prop) (x : Option Val) : Prop := ∃ v, x = some v ∧ (v = .null ∨ S v)

/-- `compare_values_with_nulls`: NULLs at one end, the values' order inside -/
theorem nullsCmp_ok (cmpv : Val → Val → Ordering) (nf : Bool) (S : Val → Prop) (hv : OrdOK cmpv S) :
    OrdOK (nullsCmp cmpv nf) (ColOK S) := by
  have knd : ∀ v : Val, (v = .null ∨ S v) → v ≠ .null → S v := by
    intro v h hn
    rcases h with h | h
    · exact absurd h hn
    · exact h
  refine ⟨?_, ?_, ?_⟩
  · rintro _ _ ⟨a, rfl, ha⟩ ⟨b, rfl, hb⟩
    rw [nullsCmp_some, nullsCmp_some]
    by_cases a0 : a = .null <;> by_cases b0 : b = .null
    · simp [a0, b0, flipOrd]
    · simp [a0, b0]; cases nf <;> rfl
    · simp [a0, b0]; cases nf <;> rfl
    · simp only [a0, b0, if_false]
      exact hv.flip a b (knd a ha a0) (knd b hb b0)
  · rintro _ _ _ ⟨a, rfl, ha⟩ ⟨b, rfl, hb⟩ ⟨c, rfl, hc⟩
    rw [nullsCmp_some, nullsCmp_some, nullsCmp_some]
    by_cases a0 : a = .null <;> by_cases b0 : b = .null <;> by_cases c0 : c = .null <;>
      simp only [a0, b0, c0, if_true, if_false] <;> try (cases nf <;> simp)
    exact hv.ltlt a b c (knd a ha a0) (knd b hb b0) (knd c hc c0)
  · rintro _ _ _ ⟨a, rfl, ha⟩ ⟨b, rfl, hb⟩ ⟨c, rfl, hc⟩
    rw [nullsCmp_some, nullsCmp_some, nullsCmp_some]
    by_cases a0 : a = .null <;> by_cases b0 : b = .null <;> by_cases c0 : c = .null <;>
      simp only [a0, b0, c0, if_true, if_false] <;> try (cases nf <;> simp)
    exact hv.eql a b c (knd a ha a0) (knd b hb b0) (knd c hc c0)

/-- one sort key on rows that all have the key column -/
theorem keyCmpBy_ok (cmpv : Val → Val → Ordering) (k : SortKey) (S : Val → Prop) (hv : OrdOK cmpv S) :
    OrdOK (keyCmpBy cmpv k) (fun r : Row => ColOK S r[k.col]?) := by
  have h := (nullsCmp_ok cmpv k.nullsFirst S hv).comap (fun r : Row => r[k.col]?)
  cases hasc : k.asc with
  | true =>
    have e : keyCmpBy cmpv k = fun a b => nullsCmp cmpv k.nullsFirst a[k.col]? b[k.col]? := by
      funext a b; simp [keyCmpBy, hasc]
    rw [e]; exact h
  | false =>
    have e : keyCmpBy cmpv k = fun a b => flipOrd (nullsCmp cmpv k.nullsFirst a[k.col]? b[k.col]?) := by
      funext a b; simp [keyCmpBy, hasc]
    rw [e]; exact h.flipped

/-- one sort key on rows none of which has the key column -/
theorem keyCmpBy_absent_ok (cmpv : Val → Val → Ordering) (k : SortKey) :
    OrdOK (keyCmpBy cmpv k) (fun r : Row => r[k.col]? = none) := by
  have e : ∀ a b : Row, a[k.col]? = none → b[k.col]? = none → keyCmpBy cmpv k a b = .eq := by
    intro a b ha hb
    unfold keyCmpBy
    rw [ha, hb]
    cases k.asc <;> rfl
  refine ⟨?_, ?_, ?_⟩
  · intro a b ha hb; rw [e a b ha hb, e b a hb ha]; rfl
  · intro a b c ha hb _ h1 _; rw [e a b ha hb] at h1; exact absurd h1 (by simp)
  · intro a b c ha hb hc _; rw [e a c ha hc, e b c hb hc]

/-- all keys together: the lexicographic comparison of `sort_by`'s closure -/
theorem cmpRowsBy_ok (cmpv : Val → Val → Ordering) (keys : List SortKey) (S : Row → Prop)
    (h : ∀ k ∈ keys, OrdOK (keyCmpBy cmpv k) S) : OrdOK (cmpRowsBy cmpv keys) S := by
  induction keys with
  | nil =>
    have e : cmpRowsBy cmpv [] = fun _ _ => Ordering.eq := by funext a b; rfl
    rw [e]; exact const_eq_ok S
  | cons k ks ih =>
    have e : cmpRowsBy cmpv (k :: ks) =
        fun a b => if keyCmpBy cmpv k a b = .eq then cmpRowsBy cmpv ks a b else keyCmpBy cmpv k a b := by
      funext a b; rfl
    rw [e]
    exact (h k (by simp)).lex (ih (fun k' hk' => h k' (by simp [hk'])))

/-- a row of a table of width `w` whose integers are `i64`s — what the chunks of one operator hold -/
def RowOK (w : Nat) (r : Row) : Prop := r.length = w ∧ ∀ v ∈ r, v.inRange = true

/-- a value comparison that is a linear-preorder comparison on the non-NULL `i64`/float/string/
boolean values makes the row comparison one on the rows of any table -/
theorem cmpRowsBy_ok_table (cmpv : Val → Val → Ordering)
    (hv : OrdOK cmpv (fun v => v ≠ .null ∧ v.inRange = true)) (keys : List SortKey) (w : Nat) :
    OrdOK (cmpRowsBy cmpv keys) (RowOK w) := by
  apply cmpRowsBy_ok
  intro k _
  by_cases hk : k.col < w
  · refine (keyCmpBy_ok cmpv k _ hv).mono ?_
    intro r ⟨hl, hr⟩
    have hlt : k.col < r.length := by omega
    refine ⟨r[k.col], by simp [hlt], ?_⟩
    by_cases h0 : r[k.col] = .null
    · exact Or.inl h0
    · exact Or.inr ⟨h0, hr _ (getElem_mem hlt)⟩
  · refine (keyCmpBy_absent_ok cmpv k).mono ?_
    intro r ⟨hl, _⟩
    exact getElem?_eq_none (by omega)

/-! ### binary64: the order of `partial_cmp` is the order of the exact values -/

section Floats
open Grafeo.F64
theorem mag_eq (b : Nat) : mag b = fracField b + 2 ^ 52 * expField b := by
  unfold mag fracField expField
  have h : (2 : Nat) ^ 63 = 2 ^ 52 * 2 ^ 11 := by decide
  rw [h, Nat.mod_mul]

theorem frac_lt (b : Nat) : fracField b < 2 ^ 52 := Nat.mod_lt _ (by decide)
theorem exp_le (b : Nat) : expField b ≤ 2047 := by
  have : expField b < 2 ^ 11 := Nat.mod_lt _ (by decide)
  omega

/-- magnitude in units as a function of the two fields -/
def numMag (e f : Nat) : Nat := if e = 2047 then 2 ^ 4000 else if e = 0 then f else (2 ^ 52 + f) * 2 ^ (e - 1)

theorem fnumMag_eq (b : Nat) : fnumMag b = numMag (expField b) (fracField b) := by
  unfold fnumMag numMag scaledMag
  rfl

theorem numMag_upper (e f : Nat) (hf : f < 2 ^ 52) (he : e ≠ 2047) : numMag e f < 2 ^ (52 + e) := by
  unfold numMag
  rw [if_neg he]
  split
  · rename_i h0; subst h0; simpa using hf
  · rename_i h0
    have h1 : 52 + e = 53 + (e - 1) := by omega
    rw [h1, Nat.pow_add]
    apply Nat.mul_lt_mul_of_pos_right
    · have : (2 : Nat) ^ 53 = 2 ^ 52 + 2 ^ 52 := by decide
      omega
    · exact Nat.two_pow_pos _

set_option exponentiation.threshold 5000 in
theorem numMag_lower (e f : Nat) (he : 1 ≤ e) : 2 ^ (51 + e) ≤ numMag e f := by
  unfold numMag
  split
  · rename_i h; subst h
    exact Nat.pow_le_pow_right (by decide) (by omega)
  · rw [if_neg (by omega)]
    have h1 : 51 + e = 52 + (e - 1) := by omega
    rw [h1, Nat.pow_add]
    apply Nat.mul_le_mul_right
    omega

theorem numMag_lt (e f e' f' : Nat) (hf : f < 2 ^ 52) (hf' : f' < 2 ^ 52) (he' : e' ≤ 2047)
    (hn : e = 2047 → f = 0) (hn' : e' = 2047 → f' = 0)
    (h : f + 2 ^ 52 * e < f' + 2 ^ 52 * e') : numMag e f < numMag e' f' := by
  have hc : e < e' ∨ (e = e' ∧ f < f') := by omega
  rcases hc with hlt | ⟨heq, hff⟩
  · have h1 := numMag_upper e f hf (by omega)
    have h2 := numMag_lower e' f' (by omega)
    have h3 : 2 ^ (52 + e) ≤ 2 ^ (51 + e') := Nat.pow_le_pow_right (by decide) (by omega)
    omega
  · subst heq
    have he : e ≠ 2047 := by
      intro h; have := hn h; have := hn' h; omega
    unfold numMag
    rw [if_neg he, if_neg he]
    split
    · exact hff
    · apply Nat.mul_lt_mul_of_pos_right (by omega) (Nat.two_pow_pos _)

theorem nonNaN_frac (b : Nat) (h : isNaN b = false) : expField b = 2047 → fracField b = 0 := by
  intro he
  unfold isNaN at h
  simp [he] at h
  exact h

theorem fmag_mono (a b : Nat) (na : isNaN a = false) (nb : isNaN b = false) (h : mag a < mag b) :
    fnumMag a < fnumMag b := by
  rw [fnumMag_eq, fnumMag_eq]
  rw [mag_eq, mag_eq] at h
  exact numMag_lt _ _ _ _ (frac_lt a) (frac_lt b) (exp_le b) (nonNaN_frac a na) (nonNaN_frac b nb) h

theorem fmag_eq (a b : Nat) (h : mag a = mag b) : fnumMag a = fnumMag b := by
  rw [fnumMag_eq, fnumMag_eq]
  rw [mag_eq, mag_eq] at h
  have hf := frac_lt a
  have hf' := frac_lt b
  have : expField a = expField b ∧ fracField a = fracField b := by omega
  rw [this.1, this.2]

theorem fmag_zero (a : Nat) (h : mag a = 0) : fnumMag a = 0 := by
  rw [fnumMag_eq]
  rw [mag_eq] at h
  have : expField a = 0 ∧ fracField a = 0 := by omega
  rw [this.1, this.2]; rfl

theorem fmag_pos (a : Nat) (na : isNaN a = false) (h : 0 < mag a) : 0 < fnumMag a := by
  rw [fnumMag_eq]
  rw [mag_eq] at h
  have := numMag_lt 0 0 (expField a) (fracField a) (by decide) (frac_lt a) (exp_le a) (by intro h; omega)
    (nonNaN_frac a na) (by omega)
  have z : numMag 0 0 = 0 := rfl
  omega

/-- on non-NaN doubles the order of `partial_cmp` (sign–magnitude keys) is the order of the exact
values -/
theorem cmp_key_fnum (a b : Nat) (na : isNaN a = false) (nb : isNaN b = false) :
    compare (key a) (key b) = compare (fnum a) (fnum b) := by
  have m1 := fmag_mono a b na nb
  have m2 := fmag_mono b a nb na
  have m3 := fmag_eq a b
  have za := fmag_zero a
  have zb := fmag_zero b
  have pa := fmag_pos a na
  have pb := fmag_pos b nb
  unfold key fnum
  rcases Nat.lt_trichotomy (mag a) (mag b) with h | h | h
  · have f := m1 h
    by_cases sa : signBit a = 1 <;> by_cases sb : signBit b = 1 <;> simp only [sa, sb, if_true, if_false]
    · rw [Int.compare_eq_gt.mpr (by omega), Int.compare_eq_gt.mpr (by omega)]
    · have : 0 < fnumMag b := pb (by omega)
      rw [Int.compare_eq_lt.mpr (by omega), Int.compare_eq_lt.mpr (by omega)]
    · have : 0 < fnumMag b := pb (by omega)
      rw [Int.compare_eq_gt.mpr (by omega), Int.compare_eq_gt.mpr (by omega)]
    · rw [Int.compare_eq_lt.mpr (by omega), Int.compare_eq_lt.mpr (by omega)]
  · have f := m3 h
    by_cases sa : signBit a = 1 <;> by_cases sb : signBit b = 1 <;> simp only [sa, sb, if_true, if_false]
    · rw [Int.compare_eq_eq.mpr (by omega), Int.compare_eq_eq.mpr (by omega)]
    · by_cases z : mag a = 0
      · have := za z; have := zb (by omega)
        rw [Int.compare_eq_eq.mpr (by omega), Int.compare_eq_eq.mpr (by omega)]
      · have := pa (by omega); have := pb (by omega)
        rw [Int.compare_eq_lt.mpr (by omega), Int.compare_eq_lt.mpr (by omega)]
    · by_cases z : mag a = 0
      · have := za z; have := zb (by omega)
        rw [Int.compare_eq_eq.mpr (by omega), Int.compare_eq_eq.mpr (by omega)]
      · have := pa (by omega); have := pb (by omega)
        rw [Int.compare_eq_gt.mpr (by omega), Int.compare_eq_gt.mpr (by omega)]
    · rw [Int.compare_eq_eq.mpr (by omega), Int.compare_eq_eq.mpr (by omega)]
  · have f := m2 h
    by_cases sa : signBit a = 1 <;> by_cases sb : signBit b = 1 <;> simp only [sa, sb, if_true, if_false]
    · rw [Int.compare_eq_lt.mpr (by omega), Int.compare_eq_lt.mpr (by omega)]
    · have : 0 < fnumMag a := pa (by omega)
      rw [Int.compare_eq_lt.mpr (by omega), Int.compare_eq_lt.mpr (by omega)]
    · have : 0 < fnumMag a := pa (by omega)
      rw [Int.compare_eq_gt.mpr (by omega), Int.compare_eq_gt.mpr (by omega)]
    · rw [Int.compare_eq_gt.mpr (by omega), Int.compare_eq_gt.mpr (by omega)]

theorem unit_pos : 0 < unit := by unfold unit; exact Int.pow_pos (by decide)

/-- `compare_int_float` compares an `i64` with a non-NaN double by their exact values -/
theorem cmpIntFloat_exact (i : Int) (f : Nat) (hf : isNaN f = false) (hi : i64Min ≤ i ∧ i ≤ i64Max) :
    cmpIntFloat i f =
      (if i * unit < fnum f then Ordering.lt else if fnum f < i * unit then .gt else .eq) := by
  have hP := unit_pos
  unfold cmpIntFloat
  simp only [hf, Bool.false_eq_true, if_false]
  have lo : -(2 ^ 63 * unit) ≤ i * unit := by
    have : (-(2 ^ 63) : Int) * unit ≤ i * unit :=
      Int.mul_le_mul_of_nonneg_right (by unfold i64Min at hi; omega) (Int.le_of_lt hP)
    rw [Int.neg_mul] at this; exact this
  have hi' : i * unit < 2 ^ 63 * unit :=
    Int.mul_lt_mul_of_pos_right (by unfold i64Max at hi; omega) hP
  split
  · rename_i h
    rw [if_pos (by omega)]
  · split
    · rename_i h1 h2
      rw [if_neg (by omega), if_pos (by omega)]
    · rename_i h1 h2
      have dec := Int.tdiv_mul_add_tmod (fnum f) unit
      have ub := Int.tmod_lt_of_pos (fnum f) hP
      have lb := Int.lt_tmod_of_pos (fnum f) hP
      generalize hw : (fnum f).tdiv unit = whole at *
      generalize hr : (fnum f).tmod unit = r at *
      have frac : fnum f - whole * unit = r := by omega
      simp only [frac]
      by_cases c1 : i < whole
      · have : (i + 1) * unit ≤ whole * unit := Int.mul_le_mul_of_nonneg_right (by omega) (Int.le_of_lt hP)
        rw [Int.add_mul, Int.one_mul] at this
        rw [if_pos c1, if_pos (by omega)]
      · by_cases c2 : whole < i
        · have : (whole + 1) * unit ≤ i * unit := Int.mul_le_mul_of_nonneg_right (by omega) (Int.le_of_lt hP)
          rw [Int.add_mul, Int.one_mul] at this
          rw [if_neg c1, if_pos c2, if_neg (by omega), if_pos (by omega)]
        · have e : i = whole := by omega
          subst e
          rw [if_neg c1, if_neg c2]
          by_cases p : 0 < r
          · rw [if_pos p, if_pos (by omega)]
          · by_cases n : r < 0
            · rw [if_neg p, if_pos n, if_neg (by omega), if_pos (by omega)]
            · rw [if_neg p, if_neg n, if_neg (by omega), if_neg (by omega)]

theorem compare_eq_ite (x y : Int) :
    compare x y = (if x < y then Ordering.lt else if y < x then .gt else .eq) := by
  rcases Int.lt_trichotomy x y with h | h | h
  · rw [Int.compare_eq_lt.mpr h, if_pos h]
  · subst h; rw [Int.compare_eq_eq.mpr rfl, if_neg (Int.lt_irrefl _), if_neg (Int.lt_irrefl _)]
  · rw [Int.compare_eq_gt.mpr h, if_neg (by omega), if_pos h]

theorem specCmpVals_num (a b : Val) (x y : Int) (ha : specRank a = (2, x, [])) (hb : specRank b = (2, y, [])) :
    specCmpVals a b = (if x < y then Ordering.lt else if y < x then .gt else .eq) := by
  unfold specCmpVals
  rw [ha, hb]
  simp [cmpBytes]

/-- the coded value comparison is the specification's, on all non-NULL `i64` / float / string /
boolean values -/
theorem sortCmpVals_eq_spec (a b : Val) (ha : a ≠ .null ∧ a.inRange = true) (hb : b ≠ .null ∧ b.inRange = true) :
    sortCmpVals a b = specCmpVals a b := by
  cases a with
  | null => exact absurd rfl ha.1
  | bool x =>
    cases b with
    | null => exact absurd rfl hb.1
    | bool y => cases x <;> cases y <;> decide
    | int y => simp [sortCmpVals, kindRank, specCmpVals, specRank] <;> decide
    | str y => simp [sortCmpVals, kindRank, specCmpVals, specRank] <;> decide
    | flt y =>
      simp only [sortCmpVals, kindRank, specCmpVals, specRank]
      split <;> simp <;> decide
  | str x =>
    cases b with
    | null => exact absurd rfl hb.1
    | bool y => simp [sortCmpVals, kindRank, specCmpVals, specRank] <;> decide
    | int y => simp [sortCmpVals, kindRank, specCmpVals, specRank] <;> decide
    | str y => simp [sortCmpVals, specCmpVals, specRank]
    | flt y =>
      simp only [sortCmpVals, kindRank, specCmpVals, specRank]
      split <;> simp <;> decide
  | int x =>
    have hx : i64Min ≤ x ∧ x ≤ i64Max := by simpa [Val.inRange] using ha.2
    cases b with
    | null => exact absurd rfl hb.1
    | bool y => simp [sortCmpVals, kindRank, specCmpVals, specRank] <;> decide
    | str y => simp [sortCmpVals, kindRank, specCmpVals, specRank] <;> decide
    | int y =>
      simp only [sortCmpVals]
      rw [specCmpVals_num _ _ (x * unit) (y * unit) rfl rfl, compare_eq_ite]
      have hP := unit_pos
      rcases Int.lt_trichotomy x y with h | h | h
      · have := Int.mul_lt_mul_of_pos_right h hP
        rw [if_pos h, if_pos this]
      · subst h; simp
      · have := Int.mul_lt_mul_of_pos_right h hP
        rw [if_neg (by omega), if_pos h, if_neg (by omega), if_pos this]
    | flt y =>
      simp only [sortCmpVals]
      by_cases ny : isNaN y = true
      · simp [cmpIntFloat, specCmpVals, specRank, ny]
      · have ny' : isNaN y = false := by simpa using ny
        rw [cmpIntFloat_exact x y ny' hx]
        have e : specRank (.flt y) = (2, fnum y, []) := by simp [specRank, ny']
        rw [specCmpVals_num _ _ (x * unit) (fnum y) rfl e]
  | flt x =>
    cases b with
    | null => exact absurd rfl hb.1
    | bool y =>
      simp only [sortCmpVals, kindRank, specCmpVals, specRank]
      split <;> simp <;> decide
    | str y =>
      simp only [sortCmpVals, kindRank, specCmpVals, specRank]
      split <;> simp <;> decide
    | int y =>
      have hy : i64Min ≤ y ∧ y ≤ i64Max := by simpa [Val.inRange] using hb.2
      simp only [sortCmpVals]
      by_cases nx : isNaN x = true
      · simp [cmpIntFloat, specCmpVals, specRank, nx, flipOrd]
      · have nx' : isNaN x = false := by simpa using nx
        rw [cmpIntFloat_exact y x nx' hy]
        have e : specRank (.flt x) = (2, fnum x, []) := by simp [specRank, nx']
        rw [specCmpVals_num _ _ (fnum x) (y * unit) e rfl]
        by_cases c1 : y * unit < fnum x
        · rw [if_pos c1, if_neg (by omega), if_pos c1]; rfl
        · by_cases c2 : fnum x < y * unit
          · rw [if_neg c1, if_pos c2, if_pos c2]; rfl
          · rw [if_neg c1, if_neg c2, if_neg c2, if_neg c1]; rfl
    | flt y =>
      simp only [sortCmpVals, cmpFloats, partialCmp]
      by_cases nx : isNaN x = true <;> by_cases ny : isNaN y = true
      · simp [specCmpVals, specRank, nx, ny, cmpBytes] <;> decide
      · simp [specCmpVals, specRank, nx, ny] <;> decide
      · simp [specCmpVals, specRank, nx, ny] <;> decide
      · have nx' : isNaN x = false := by simpa using nx
        have ny' : isNaN y = false := by simpa using ny
        have e1 : specRank (.flt x) = (2, fnum x, []) := by simp [specRank, nx']
        have e2 : specRank (.flt y) = (2, fnum y, []) := by simp [specRank, ny']
        rw [specCmpVals_num _ _ (fnum x) (fnum y) e1 e2]
        simp only [nx', ny', Bool.or_self, Bool.false_eq_true, if_false]
        rw [cmp_key_fnum x y nx' ny', compare_eq_ite]

end Floats

/-! ### the coded comparator is the specification's; both are total preorders -/

theorem sortCmpVals_ok : OrdOK sortCmpVals (fun v => v ≠ .null ∧ v.inRange = true) :=
  (specCmpVals_ok.mono (fun _ _ => trivial)).congr (fun a b ha hb => sortCmpVals_eq_spec a b ha hb)

theorem nullsCmp_congr (c1 c2 : Val → Val → Ordering) (nf : Bool) (x y : Option Val)
    (h : ∀ a b, x = some a → y = some b → a ≠ .null → b ≠ .null → c1 a b = c2 a b) :
    nullsCmp c1 nf x y = nullsCmp c2 nf x y := by
  cases x with
  | none => cases y <;> rfl
  | some a =>
    cases y with
    | none => cases a <;> rfl
    | some b =>
      rw [nullsCmp_some, nullsCmp_some]
      by_cases a0 : a = .null <;> by_cases b0 : b = .null <;> simp only [a0, b0, if_true, if_false]
      exact h a b rfl rfl a0 b0

/-- F: the engine's row comparison IS the specification's (strings < booleans < numbers by exact
value < NaN; NULLs where the key asks), on all rows of `i64` / float / string / boolean / NULL
values, for every list of keys. -/
theorem c11b_cmpRows_eq_spec (keys : List SortKey) (a b : Row)
    (ha : ∀ v ∈ a, v.inRange = true) (hb : ∀ v ∈ b, v.inRange = true) :
    cmpRows keys a b = specCmpRows keys a b := by
  unfold cmpRows specCmpRows
  induction keys with
  | nil => rfl
  | cons k ks ih =>
    have hk : keyCmpBy sortCmpVals k a b = keyCmpBy specCmpVals k a b := by
      unfold keyCmpBy
      simp only
      rw [nullsCmp_congr sortCmpVals specCmpVals k.nullsFirst a[k.col]? b[k.col]?]
      intro x y hx hy x0 y0
      exact sortCmpVals_eq_spec x y ⟨x0, ha x (mem_of_getElem? hx)⟩ ⟨y0, hb y (mem_of_getElem? hy)⟩
    simp only [cmpRowsBy]
    rw [hk, ih]

theorem c11b_rowLe_eq_spec (keys : List SortKey) (a b : Row)
    (ha : ∀ v ∈ a, v.inRange = true) (hb : ∀ v ∈ b, v.inRange = true) :
    rowLe keys a b = specRowLe keys a b := by
  have := c11b_cmpRows_eq_spec keys a b ha hb
  unfold cmpRows specCmpRows at this
  unfold rowLe specRowLe rowLeBy
  rw [this]

/-- F: the engine's ORDER BY comparator is transitive on the rows of every table (rows of one
width holding `i64`s, floats incl. NaN / ±0 / ±inf, strings, booleans, NULLs — kinds mixed at
will), for every list of keys … -/
theorem c11b_rowLe_trans (keys : List SortKey) (w : Nat) (rows : List Row) (h : ∀ r ∈ rows, RowOK w r) :
    TransOn (rowLe keys) rows := by
  intro a ha b hb c hc h1 h2
  have ok := cmpRowsBy_ok_table sortCmpVals sortCmpVals_ok keys w
  unfold rowLe rowLeBy at h1 h2 ⊢
  simp only [bne_iff_ne, ne_eq] at h1 h2 ⊢
  exact ok.le_trans a b c (h a ha) (h b hb) (h c hc) h1 h2

/-- … and total. -/
theorem c11b_rowLe_total (keys : List SortKey) (w : Nat) (rows : List Row) (h : ∀ r ∈ rows, RowOK w r) :
    TotalOn (rowLe keys) rows := by
  intro a ha b hb
  have ok := cmpRowsBy_ok_table sortCmpVals sortCmpVals_ok keys w
  unfold rowLe rowLeBy
  rw [ok.flip a b (h a ha) (h b hb)]
  cases cmpRowsBy sortCmpVals keys a b <;> simp [flipOrd]

/-- F: ORDER BY returns THE stable sorted permutation of its input — a permutation, sorted under
the engine's comparator, rows with equal keys in input order — for every table, every list of
keys and every chunking. -/
theorem c11b_sort_sorted_stable (cap : Nat) (hc : 0 < cap) (keys : List SortKey) (w : Nat)
    (cs : List (List Row)) (h : ∀ r ∈ cs.flatten, RowOK w r) :
    (sortOp cap keys cs).flatten.Perm cs.flatten ∧
    (sortOp cap keys cs).flatten.Pairwise (fun a b => rowLe keys a b = true) ∧
    ∀ a ∈ cs.flatten, (sortOp cap keys cs).flatten.filter (fun x => rowLe keys a x && rowLe keys x a) =
      cs.flatten.filter (fun x => rowLe keys a x && rowLe keys x a) :=
  ⟨c11b_sort_perm cap hc keys cs,
   c11b_sort_sorted_partial cap hc keys cs (c11b_rowLe_trans keys w _ h) (c11b_rowLe_total keys w _ h),
   fun a ha => c11b_sort_stable_partial cap hc keys cs (c11b_rowLe_trans keys w _ h)
     (c11b_rowLe_total keys w _ h) a ha⟩

/-- F: ORDER BY returns the specification's ordered result (the stable sort under the order
strings < booleans < numbers by exact value < NaN), for every table, key list and chunking. -/
theorem c11b_sort_eq_spec_order (cap : Nat) (hc : 0 < cap) (keys : List SortKey) (cs : List (List Row))
    (h : ∀ r ∈ cs.flatten, ∀ v ∈ r, v.inRange = true) :
    (sortOp cap keys cs).flatten = cs.flatten.mergeSort (specRowLe keys) := by
  rw [c11b_sort_flatten cap hc]
  have := map_mergeSort (r := rowLe keys) (s := specRowLe keys) (f := id) (l := cs.flatten)
    (fun a ha b hb => c11b_rowLe_eq_spec keys a b (h a ha) (h b hb))
  simpa using this

/-- F: the specification's comparator is a total preorder on the rows of every table. -/
theorem c11b_spec_order_total_preorder (keys : List SortKey) (w : Nat) (rows : List Row)
    (h : ∀ r ∈ rows, RowOK w r) :
    TransOn (specRowLe keys) rows ∧ TotalOn (specRowLe keys) rows := by
  have ok := cmpRowsBy_ok_table specCmpVals (specCmpVals_ok.mono (fun _ _ => trivial)) keys w
  constructor
  · intro a ha b hb c hc h1 h2
    unfold specRowLe rowLeBy at h1 h2 ⊢
    simp only [bne_iff_ne, ne_eq] at h1 h2 ⊢
    exact ok.le_trans a b c (h a ha) (h b hb) (h c hc) h1 h2
  · intro a ha b hb
    unfold specRowLe rowLeBy
    rw [ok.flip a b (h a ha) (h b hb)]
    cases cmpRowsBy specCmpVals keys a b <;> simp [flipOrd]

/-- N: non-vacuity of the sort theorems — kinds mixed in one column (a string, a boolean,
integers, NULL), a second key descending, equal keys in input order (the last column tells the
rows apart), three input chunks, output chunks of 3. -/
theorem c11b_sort_nonvacuous :
    sortOp 3 [⟨0, true, false⟩, ⟨1, false, false⟩]
      [[[.int 7, .int 1, .int 0], [.null, .int 1, .int 1]],
       [], [[.int 2, .int 1, .int 2], [.str [97], .int 1, .int 3], [.bool true, .int 1, .int 4],
       [.int 2, .int 2, .int 5], [.int 2, .int 1, .int 6]]] =
      [[[.str [97], .int 1, .int 3], [.bool true, .int 1, .int 4], [.int 2, .int 2, .int 5]],
       [[.int 2, .int 1, .int 2], [.int 2, .int 1, .int 6], [.int 7, .int 1, .int 0]],
       [[.null, .int 1, .int 1]]] := by
  simp [sortOp, rechunkAll, rechunk, List.mergeSort, List.MergeSort.Internal.splitInTwo, rowLe, rowLeBy,
    cmpRowsBy, keyCmpBy, nullsCmp, sortCmpVals, kindRank, flipOrd, compare, compareOfLessAndEq]

/-! ### regression: the comparator before the repair -/

namespace Old

/-- R: it was NOT transitive across kinds: values of different kinds compared "equal", so
`2 ≤ 'a' ≤ 1` although `2 > 1`; the repaired comparator orders the three. -/
theorem c11b_rowLe_not_transitive_mixed_kinds_regression :
    let k : List SortKey := [⟨0, true, false⟩]
    Old.rowLe k [.int 2] [.str [97]] = true ∧ Old.rowLe k [.str [97]] [.int 1] = true ∧
      Old.rowLe k [.int 2] [.int 1] = false ∧
    Ops2.rowLe k [.int 2] [.str [97]] = false := by
  decide

/-- R: nor with NaN among floats (NaN compared "equal" to every number): `2.0 ≤ NaN ≤ 1.0`. -/
theorem c11b_rowLe_not_transitive_nan_regression :
    let k : List SortKey := [⟨0, true, false⟩]
    Old.rowLe k [.flt 0x4000000000000000] [.flt 0x7ff8000000000000] = true ∧
    Old.rowLe k [.flt 0x7ff8000000000000] [.flt 0x3ff0000000000000] = true ∧
    Old.rowLe k [.flt 0x4000000000000000] [.flt 0x3ff0000000000000] = false ∧
    Ops2.rowLe k [.flt 0x7ff8000000000000] [.flt 0x3ff0000000000000] = false := by
  decide

/-- R: nor between integers beyond 2^53 and floats (`i64 as f64` rounds): 2^53+1 ≤ 2^53 (as
float) ≤ 2^53 although 2^53+1 > 2^53. -/
theorem c11b_rowLe_not_transitive_int_float_regression :
    let k : List SortKey := [⟨0, true, false⟩]
    Old.rowLe k [.int 9007199254740993] [.flt 0x4340000000000000] = true ∧
    Old.rowLe k [.flt 0x4340000000000000] [.int 9007199254740992] = true ∧
    Old.rowLe k [.int 9007199254740993] [.int 9007199254740992] = false ∧
    Ops2.rowLe k [.int 9007199254740993] [.flt 0x4340000000000000] = false := by
  decide +kernel

/-- R: what came out then was not sorted: `sort_by` (an insertion sort up to 20 rows) left
`2, 'a', 1` as it was; beyond 20 rows it could panic ("user-provided comparison function does not
correctly implement a total order" — corpus line `sort.m p … [1.0, NaN, 2.0] × 7`: with the old
comparator the 21 rows do not even have a sorted arrangement, `2.0 ≤ NaN ≤ 1.0 < 2.0`). -/
theorem c11b_sort_mixed_kinds_unsorted_regression :
    Old.sortSmall [⟨0, true, false⟩] [[.int 2], [.str [97]], [.int 1]] = [[.int 2], [.str [97]], [.int 1]] ∧
    Old.rowLe [⟨0, true, false⟩] [.int 2] [.int 1] = false := by
  decide

/-- R: "the ORDER BY comparator is transitive on all rows" was false. -/
theorem c11b_rowLe_transitive_refuted_regression :
    ¬ ∀ (keys : List SortKey) (a b c : Row),
      Old.rowLe keys a b = true → Old.rowLe keys b c = true → Old.rowLe keys a c = true := by
  intro h
  exact absurd (h [⟨0, true, false⟩] [.int 2] [.str [97]] [.int 1] (by decide) (by decide)) (by decide)

end Old

end Comparator

/-! ## §5 count(*) and count(col) -/

theorem countStep_closed (col : Nat) (rows : List Row) (st : Nat × Nat) :
    countStep col st rows = (st.1 + rows.length, st.2 + (rows.filter (nonNullAt col)).length) := by
  unfold countStep
  induction rows generalizing st with
  | nil => simp
  | cons r rs ih =>
    rw [foldl_cons, ih]
    by_cases h : nonNullAt col r = true
    · simp [h]; omega
    · simp [h]; omega

theorem count_chunks (col : Nat) (cs : List (List Row)) (st : Nat × Nat) :
    cs.foldl (countStep col) st =
      (st.1 + cs.flatten.length, st.2 + (cs.flatten.filter (nonNullAt col)).length) := by
  induction cs generalizing st with
  | nil => simp
  | cons c cs ih =>
    rw [foldl_cons, ih, countStep_closed]
    simp [Nat.add_assoc]

/-- F: `SimpleAggregateOperator` with `count(*)`, `count(col)` returns one row: the number of rows
of its input and the number of rows whose `col` is present and not NULL — for every chunking. -/
theorem c11b_count_simple (col : Nat) (cs : List (List Row)) :
    simpleAgg col cs = [[(cs.flatten.length, (cs.flatten.filter (nonNullAt col)).length)]] := by
  unfold simpleAgg; rw [count_chunks]; simp

/-- P: `HashAggregateOperator` without group columns agrees, provided its input has a row. -/
theorem c11b_count_hash_partial (col : Nat) (cs : List (List Row)) (h : cs.flatten ≠ []) :
    hashAgg0 col cs = [[(cs.flatten.length, (cs.flatten.filter (nonNullAt col)).length)]] := by
  unfold hashAgg0
  have : cs.flatten.isEmpty = false := by
    cases hf : cs.flatten with
    | nil => exact absurd hf h
    | cons _ _ => rfl
  rw [this]; simp only [Bool.false_eq_true, if_false]; rw [count_chunks]; simp

/-- W: on an input without rows (no chunk, or empty chunks only) it returns no row at all, where
`count(*)` is 0 (the "no data" special case in `next()` tests `results.is_none()`, which
`aggregate()` has just made false). -/
theorem c11b_count_hash_empty_input_witness :
    hashAgg0 0 [] = [] ∧ hashAgg0 0 [[], []] = [] ∧ simpleAgg 0 [] = [[(0, 0)]] ∧ simpleAgg 0 [[], []] = [[(0, 0)]] := by
  decide

/-! ## §6 chains: filter / distinct / sort / skip / limit -/

theorem dedupKey_eq_dedupBy {κ : Type} [DecidableEq κ] (key : Row → κ) (seen : List κ) (l : List Row) :
    (Ops.dedupKey key seen l).2 = dedupBy key seen l := by
  induction l generalizing seen with
  | nil => rfl
  | cons r rs ih =>
    simp only [Ops.dedupKey, dedupBy]
    split
    · exact ih seen
    · simp [ih]

/-- F: every pull operator of the chain, flattened, is its list-level specification — for every
chunking of its input (and every chunk size: the boundaries 2047/2048/2049 are instances). -/
theorem c11b_stage_eq_spec (cap : Nat) (hc : 0 < cap) (st : Stage) (cs : List (List Row)) :
    (st.pull cap cs).flatten = st.spec cs.flatten := by
  cases st with
  | filter e => exact c11b_filter_flatten _ cs
  | distinct cols =>
    simp only [Stage.pull, Stage.spec]
    rw [Ops.c11_distinct_eq_dedup, dedupKey_eq_dedupBy]
  | sort keys => exact c11b_sort_flatten cap hc keys cs
  | skip n => exact Ops.c11_skip_flatten n cs
  | limit n => exact Ops.c11_limit_flatten n cs
  | window s n => exact Ops.c11_skip_limit_window s n cs

/-- F: a chain of pull operators returns what the list-level chain returns. -/
theorem c11b_chain_eq_spec (cap : Nat) (hc : 0 < cap) (stages : List Stage) (cs : List (List Row)) :
    (pullChain cap stages cs).flatten = specChain stages cs.flatten := by
  induction stages generalizing cs with
  | nil => rfl
  | cons st rest ih =>
    simp only [pullChain, specChain]
    rw [ih, c11b_stage_eq_spec cap hc]

/-- F: two chunkings of the same rows give the same rows out of any chain. -/
theorem c11b_chain_chunking_irrelevant (cap : Nat) (hc : 0 < cap) (stages : List Stage)
    (cs cs' : List (List Row)) (h : cs.flatten = cs'.flatten) :
    (pullChain cap stages cs).flatten = (pullChain cap stages cs').flatten := by
  rw [c11b_chain_eq_spec cap hc, c11b_chain_eq_spec cap hc, h]

/-- F: `count(*)` on top of any chain equals the number of rows the chain returns without the
aggregate, and `count(col)` the number of those with a non-NULL `col` — for every chunking. -/
theorem c11b_count_over_chain (cap : Nat) (hc : 0 < cap) (stages : List Stage) (col : Nat) (cs : List (List Row)) :
    simpleAgg col (pullChain cap stages cs) =
      [[((specChain stages cs.flatten).length, ((specChain stages cs.flatten).filter (nonNullAt col)).length)]] := by
  rw [c11b_count_simple, c11b_chain_eq_spec cap hc]

/-- F: `SKIP s LIMIT n` over ORDER BY returns rows `s .. s+n` of the ordered result. -/
theorem c11b_window_of_ordered (cap : Nat) (hc : 0 < cap) (keys : List SortKey) (s n : Nat) (cs : List (List Row)) :
    (pullChain cap [.sort keys, .window s n] cs).flatten = ((cs.flatten.mergeSort (rowLe keys)).drop s).take n := by
  rw [c11b_chain_eq_spec cap hc]; rfl

/-- N: non-vacuity — filter, DISTINCT on one column, skip, limit across three chunks. -/
theorem c11b_chain_nonvacuous :
    (pullChain 2 [.filter (.bin .lt (.col 0) (.lit (.int 9))), .distinct (some [0]), .skip 1, .limit 2]
      [[[.int 3, .int 0], [.int 3, .int 1], [.int 11, .int 2]], [], [[.int 1, .int 3], [.null, .int 4], [.int 2, .int 5], [.int 0, .int 6]]]).flatten
      = [[.int 1, .int 3], [.int 2, .int 5]] := by
  decide

theorem c11b_count_nonvacuous :
    simpleAgg 1 (pullChain 2 [.filter (.bin .lt (.col 0) (.lit (.int 9))), .limit 3]
      [[[.int 3, .null], [.int 30, .int 1]], [[.int 1, .int 3], [.int 2, .null], [.int 0, .int 6]]]) = [[(3, 1)]] := by
  decide

/-! ## §7 the full-strength statements that are false for the code, refuted -/

/-- W: "for every expression and row exactly one of the three filters passes" — false. -/
theorem c11b_tlp_every_expression_refuted :
    ¬ ∀ (p : Ex) (r : Row),
      (passes Quirks.code p r).toNat + (passes Quirks.code p.not r).toNat + (passes Quirks.code p.isNull r).toNat = 1 := by
  intro h
  exact absurd (h (.col 0) [.int 5]) (by decide)

/-- W: "the code's three classes are SQL's three classes, for every predicate" — false. -/
theorem c11b_code_classes_eq_sql_refuted :
    ¬ ∀ (p : Ex) (r : Row), p.isPred = true →
      (passes Quirks.code p r = (specTV p r == .t) ∧ passes Quirks.code p.not r = (specTV p r == .f)) := by
  intro h
  exact absurd (h (.bin .eq (.col 0) (.col 1)) [.null, .null] (by decide)) (by decide)

/-- W: "HashAggregateOperator without group columns = SimpleAggregateOperator" — false. -/
theorem c11b_count_hash_eq_simple_refuted :
    ¬ ∀ (col : Nat) (cs : List (List Row)), hashAgg0 col cs = simpleAgg col cs := by
  intro h
  exact absurd (h 0 []) (by decide)

/-! ### further non-vacuity examples -/

example : (filterOp (fun x : Nat => x % 2 == 0) [[1, 2], [3], [], [4, 6]]) = [[2], [4, 6]] := by decide

example : (filterOp (fun x : Nat => x % 2 == 0) [[1, 2, 3, 4, 6]]).flatten =
    (filterOp (fun x : Nat => x % 2 == 0) [[1], [2, 3], [4], [6]]).flatten := by decide

example : let p := Ex.bin .lt (.col 0) (.lit (.int 3))
    ([[Val.int 1], [.int 5], [.null]].filter (fun r => specTV p r == .t),
     [[Val.int 1], [.int 5], [.null]].filter (fun r => specTV p r == .f),
     [[Val.int 1], [.int 5], [.null]].filter (fun r => specTV p r == .u)) =
    ([[.int 1]], [[.int 5]], [[.null]]) := by decide

example : rowLe [⟨0, true, false⟩, ⟨1, false, true⟩] [.int 1, .str [97]] [.int 1, .str [98]] = false ∧
    rowLe [⟨0, true, false⟩, ⟨1, false, true⟩] [.int 1, .str [98]] [.int 1, .str [97]] = true := by decide

example : hashAgg0 0 [[[.int 1], [.null]], [], [[.int 2]]] = [[(3, 2)]] ∧
    simpleAgg 0 [[[.int 1], [.null]], [], [[.int 2]]] = [[(3, 2)]] := by decide

example : rowLe [⟨0, true, false⟩] [.str [98]] [.bool false] = true ∧ rowLe [⟨0, true, false⟩] [.bool true] [.int (-5)] = true ∧
    rowLe [⟨0, true, false⟩] [.flt 0x7ff0000000000000] [.flt 0x7ff8000000000000] = true ∧
    rowLe [⟨0, true, false⟩] [.flt 0x8000000000000000] [.flt 0] = true ∧ rowLe [⟨0, true, false⟩] [.flt 0] [.flt 0x8000000000000000] = true ∧
    rowLe [⟨0, true, false⟩] [.int 9007199254740993] [.flt 0x4340000000000000] = false := by decide +kernel

example : specRowLe [⟨0, true, false⟩] [.str [98]] [.bool false] = true ∧
    specRowLe [⟨0, true, false⟩] [.bool true] [.int (-5)] = true ∧
    specRowLe [⟨0, true, false⟩] [.flt 0x7ff0000000000000] [.flt 0x7ff8000000000000] = true ∧
    specRowLe [⟨0, true, false⟩] [.flt 0x7ff8000000000000] [.null] = true := by decide

example : (Stage.distinct none).pull 2 [[[.int 1], [.int 1], [.int 2]], [[.int 2], [.int 3]]] = [[[.int 1], [.int 2]], [[.int 3]]] := by
  decide

example : Old.insSort (fun (a b : Nat) => a < b) [3, 1, 2, 1] = [1, 1, 2, 3] := by decide

/-! ## §8 query level: predicates over node properties (a missing property has no value) -/

theorem onNode_isPred (p : Ex) (r : Row) : (p.onNode r).isPred = p.isPred := by
  cases p with
  | lit v => simp [Ex.onNode, Ex.isPred]
  | col k => simp only [Ex.onNode]; split <;> simp [Ex.isPred]
  | mis => simp [Ex.onNode, Ex.isPred]
  | bin op l rr => simp [Ex.onNode, Ex.isPred]
  | un op e => simp [Ex.onNode, Ex.isPred]
  | inl l items => simp [Ex.onNode, Ex.isPred]

/-- F (TLP at query level): for every predicate over node properties every node is returned by
exactly one of `WHERE p`, `WHERE NOT p`, `WHERE p IS NULL`. -/
theorem c11b_tlp_exactly_one_node (q : Quirks) (p : Ex) (hp : p.isPred = true) (r : Row) :
    (passesNode q p r).toNat + (passesNode q p.not r).toNat + (passesNode q p.isNull r).toNat = 1 := by
  have h := c11b_tlp_exactly_one q (p.onNode r) (by rw [onNode_isPred]; exact hp) r
  simpa [passesNode, Ex.not, Ex.isNull, Ex.onNode] using h

/-- F: … so the three result sets are a permutation of the matched nodes. -/
theorem c11b_tlp_partition_node (q : Quirks) (p : Ex) (hp : p.isPred = true) (nodes : List Row) :
    (nodes.filter (passesNode q p) ++ nodes.filter (passesNode q p.not) ++
      nodes.filter (passesNode q p.isNull)).Perm nodes :=
  perm_three_filters _ _ _ _ (fun r _ => c11b_tlp_exactly_one_node q p hp r)

/-- W: with a missing property `n.c0 = n.c1` is unknown (no value reaches `values_equal`), but a
NULL literal is compared as a value: `WHERE NOT (n.c0 = null)` returns the node with c0 = 1. -/
theorem c11b_null_literal_compared_as_value_node_witness :
    passesNode Quirks.code (Ex.bin .eq (.col 0) (.col 1)).isNull [.null, .null] = true ∧
    passesNode Quirks.code (Ex.bin .eq (.col 0) (.lit .null)).not [.int 1] = true ∧
    tvOf (evalQ Quirks.sql ((Ex.bin .eq (.col 0) (.lit .null)).onNode [.int 1]) [.int 1]) = .u := by
  decide

end Grafeo.Ops2
