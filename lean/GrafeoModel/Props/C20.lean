import GrafeoModel.Props.C20Mem
import GrafeoModel.Props.C20Rdf
import GrafeoModel.Props.C20Locks
import GrafeoModel.Props.C20Lpg
import GrafeoModel.Props.C03

/-!
# C20 — concurrent use is safe (collected obligations)

* memory clause: `Props/C20Mem.lean` — the allocated total never exceeds the hard limit and
  accounting returns to the held bytes, for every interleaving of every program;
* triple-store clause: `Props/C20Rdf.lean` — every interleaving of inserts/removes is linearizable
  and leaves the indexes consistent with the primary set;
* property-graph clause: `Props/C20Lpg.lean` — every interleaving of delete_node / add_label /
  remove_label / property writes is linearizable (create_node: correspondence only);
* deadlock clause: `Props/C20Locks.lean` — the lock graph regenerated from the source is ranked,
  and a ranked lock graph admits no deadlock;
* commit epochs: `TransactionManager::commit` runs under one write lock (one step in any
  interleaving), so the sequential theorem of C03 (`c03_commit_epochs_unique` and `c03_commit_epoch_fresh`) is the
  statement for all interleavings of whole manager calls.
-/
