import GrafeoModel.Model.Plan

/-!
# C09 — the optimizer never changes a query's answer

Theorems about `Model/Plan.lean`, the transliteration of `optimizer/mod.rs` after the four repairs
of filter push-down (guards of `try_push_filter_into`: subquery test, `passes_through` incl.
`unnamed`, "bound below" for Expand, "all variables on one side" + join type + `outputs_known` for
Join; `collect_output_variables`: chained scans, projections, semi/anti joins, aggregates):

* `noOver_all` (full): every variable `collect_output_variables` reports is a column — all plans.
* `pushFilters_sound` (partial): for every environment (graph + interpretation of every
  uninterpreted symbol) and every plan satisfying the decidable residual condition `wfPush`, filter
  push-down returns the **same row list**. Subqueries, join types, unknown operators, over-report
  and generated column names in projection lists are no longer hypotheses.
* `wfPush_of_wfScope`, `pushFilters_sound_of_wfScope`: the plan-wide form of what remains — no `*`
  item; at a join the left input has no unreported column, or the inputs share no column name.
* `wJoinUnder_witness` (the plan of an accepted GQL text), `wStar_witness`: neither can be dropped;
  `pushFilters_sound_full_refuted`.
* `w…_regression`: every defect found in the earlier rounds, on the old rewrite (`pushFiltersOld`)
  where it is kept, and on the repaired one.
* `pushProjections_id`, `pushProjections_sound` (full): projection push-down as coded is the
  identity on plans.
* `joinTree_sound` / `joinCheck_sound`: any reordering of an inner/cross join tree that the checker
  accepts has the same rows up to order (of rows, and of columns inside a row).
-/
namespace Grafeo.Plan

/-! ## rows -/

def keys (ρ : Row) : List String := ρ.map Prod.fst

theorem look_none_of_not_mem {v : String} {ρ : Row} (h : v ∉ keys ρ) : look v ρ = none := by
  induction ρ with
  | nil => rfl
  | cons kv r ih =>
    obtain ⟨k, x⟩ := kv
    simp only [keys, List.map_cons, List.mem_cons, not_or] at h
    have hk : ¬ k = v := fun e => h.1 e.symm
    simp only [look, hk, if_false]
    exact ih h.2

theorem look_append_of_mem {v : String} {a : Row} (b : Row) (h : v ∈ keys a) :
    look v (a ++ b) = look v a := by
  induction a with
  | nil => simp [keys] at h
  | cons kv r ih =>
    obtain ⟨k, x⟩ := kv
    by_cases hk : k = v
    · simp [look, hk]
    · simp only [keys, List.map_cons, List.mem_cons] at h
      have : v ∈ keys r := by
        rcases h with h | h
        · exact absurd h.symm hk
        · exact h
      simp only [List.cons_append, look, hk, if_false]
      exact ih this

theorem look_append_of_not_mem {v : String} {a : Row} (b : Row) (h : v ∉ keys a) :
    look v (a ++ b) = look v b := by
  induction a with
  | nil => rfl
  | cons kv r ih =>
    obtain ⟨k, x⟩ := kv
    simp only [keys, List.map_cons, List.mem_cons, not_or] at h
    have hk : ¬ k = v := fun e => h.1 e.symm
    simp only [List.cons_append, look, hk, if_false]
    exact ih h.2

/-- two rows give every variable of `vs` the same value (unbound = null) -/
def Agree (vs : List String) (r1 r2 : Row) : Prop := ∀ v ∈ vs, r1.get v = r2.get v

theorem Agree.mono {vs ws : List String} {r1 r2 : Row} (h : Agree vs r1 r2) (hs : ∀ v ∈ ws, v ∈ vs) :
    Agree ws r1 r2 := fun v hv => h v (hs v hv)

/-- **locality**: a subquery-free expression depends on the row only through the values of the
variables `collect_variables` reports -/
theorem evalL_congr (env : Env) {r1 r2 : Row} :
    ∀ e : Expr, e.local = true → Agree e.vars r1 r2 → evalL env r1 e = evalL env r2 e := by
  intro e
  induction e with
  | lit t => intro _ _; rfl
  | var x => intro _ h; simp only [evalL]; rw [h x (by simp [Expr.vars])]
  | prop x k => intro _ h; simp only [evalL]; rw [h x (by simp [Expr.vars])]
  | bin op l r ihl ihr =>
    intro hl h
    simp only [Expr.local, Bool.and_eq_true] at hl
    simp only [evalL]
    rw [ihl hl.1 (h.mono (by intro v hv; simp [Expr.vars, hv])),
        ihr hl.2 (h.mono (by intro v hv; simp [Expr.vars, hv]))]
  | un op e ih =>
    intro hl h
    simp only [Expr.local] at hl
    simp only [evalL]
    rw [ih hl (h.mono (by intro v hv; simpa [Expr.vars] using hv))]
  | vf tag x => intro _ h; simp only [evalL]; rw [h x (by simp [Expr.vars])]
  | param x => intro _ _; rfl
  | subq tag fp => intro hl _; simp [Expr.local] at hl
  | call tag info a ih =>
    intro hl h
    simp only [Expr.local] at hl
    simp only [evalL]
    rw [ih hl (h.mono (by intro v hv; simpa [Expr.vars] using hv))]
  | argNil => intro _ _; rfl
  | argCons e r ihe ihr =>
    intro hl h
    simp only [Expr.local, Bool.and_eq_true] at hl
    simp only [evalL]
    rw [ihe hl.1 (h.mono (by intro v hv; simp [Expr.vars, hv])),
        ihr hl.2 (h.mono (by intro v hv; simp [Expr.vars, hv]))]

theorem keep_congr (env : Env) {pred : Expr} {r1 r2 : Row} (hl : pred.local = true)
    (h : Agree pred.vars r1 r2) : keep env pred r1 = keep env pred r2 := by
  simp only [keep, evalE, evalL_congr env pred hl h]

theorem get_append_of_mem {v : String} {a : Row} (b : Row) (h : v ∈ keys a) :
    (a ++ b).get v = a.get v := by
  simp only [Row.get, look_append_of_mem b h]

theorem get_append_of_not_mem {v : String} {a : Row} (b : Row) (h : v ∉ keys a) :
    (a ++ b).get v = b.get v := by
  simp only [Row.get, look_append_of_not_mem b h]

theorem get_of_not_mem {v : String} {a : Row} (h : v ∉ keys a) : a.get v = .null := by
  simp only [Row.get, look_none_of_not_mem h, Option.getD_none]

/-- appending columns `y` to `a` does not change what `vs` see, when every `v ∈ vs` is bound in `a`
or is not among the appended columns -/
theorem agree_append_left {vs : List String} {a y : Row}
    (h : ∀ v ∈ vs, v ∈ keys a ∨ v ∉ keys y) : Agree vs (a ++ y) a := by
  intro v hv
  by_cases hm : v ∈ keys a
  · exact get_append_of_mem y hm
  · have hy : v ∉ keys y := by
      rcases h v hv with h | h
      · exact absurd h hm
      · exact h
    rw [get_append_of_not_mem y hm, get_of_not_mem hy, get_of_not_mem hm]

theorem agree_append_right {vs : List String} {a b : Row}
    (h : ∀ v ∈ vs, v ∉ keys a) : Agree vs (a ++ b) b := by
  intro v hv
  exact get_append_of_not_mem b (h v hv)

/-! ## list lemmas -/

theorem flatMap_filter_comm {α β} (l : List α) (f : α → List β) (p : β → Bool) (q : α → Bool)
    (h : ∀ a ∈ l, ∀ b ∈ f a, p b = q a) :
    (l.filter q).flatMap f = (l.flatMap f).filter p := by
  induction l with
  | nil => rfl
  | cons a l ih =>
    have ih' := ih (fun a ha => h a (List.mem_cons_of_mem _ ha))
    have ha := h a (List.mem_cons_self ..)
    by_cases hq : q a = true
    · have : (f a).filter p = f a := List.filter_eq_self.mpr (fun b hb => by rw [ha b hb, hq])
      simp only [List.filter_cons, hq, if_true, List.flatMap_cons, List.filter_append, this, ih']
    · have : (f a).filter p = [] := List.filter_eq_nil_iff.mpr (fun b hb => by rw [ha b hb]; exact hq)
      simp only [List.filter_cons, hq, List.flatMap_cons, List.filter_append, this,
        List.nil_append]
      simpa using ih'

theorem flatMap_congr' {α β} (l : List α) (f g : α → List β) (h : ∀ a ∈ l, f a = g a) :
    l.flatMap f = l.flatMap g := by
  induction l with
  | nil => rfl
  | cons a l ih =>
    simp only [List.flatMap_cons, h a (List.mem_cons_self ..),
      ih (fun a ha => h a (List.mem_cons_of_mem _ ha))]

theorem mem_dedup {r : Row} {l : List Row} (h : r ∈ dedup l) : r ∈ l := by
  induction l with
  | nil => simp [dedup] at h
  | cons a l ih =>
    simp only [dedup, List.mem_cons, List.mem_filter] at h
    rcases h with h | h
    · exact h ▸ List.mem_cons_self ..
    · exact List.mem_cons_of_mem _ (ih h.1)

theorem mem_dedupOn {key : Row → List Val} {r : Row} {l : List Row} (h : r ∈ dedupOn key l) : r ∈ l := by
  induction l with
  | nil => simp [dedupOn] at h
  | cons a l ih =>
    simp only [dedupOn, List.mem_cons, List.mem_filter] at h
    rcases h with h | h
    · exact h ▸ List.mem_cons_self ..
    · exact List.mem_cons_of_mem _ (ih h.1)

theorem dedup_filter (q : Row → Bool) (l : List Row) : dedup (l.filter q) = (dedup l).filter q := by
  induction l with
  | nil => rfl
  | cons a l ih =>
    by_cases hq : q a = true
    · simp only [List.filter_cons, hq, if_true, dedup, ih, List.filter_filter]
      congr 1
      apply List.filter_congr
      intro x _
      exact Bool.and_comm _ _
    · simp only [List.filter_cons, hq, dedup, List.filter_filter]
      simp only [Bool.false_eq_true, if_false]
      rw [ih]
      apply List.filter_congr
      intro x _
      by_cases hx : q x = true
      · have : x ≠ a := fun e => hq (e ▸ hx)
        simp [hx, this]
      · simp [hx]

theorem mem_insertSorted {le : Row → Row → Bool} {x y : Row} {l : List Row}
    (h : x ∈ insertSorted le y l) : x = y ∨ x ∈ l := by
  induction l with
  | nil => simp [insertSorted] at h; exact Or.inl h
  | cons a l ih =>
    simp only [insertSorted] at h
    split at h
    · simp only [List.mem_cons] at h
      rcases h with h | h | h
      · exact Or.inl h
      · exact Or.inr (h ▸ List.mem_cons_self ..)
      · exact Or.inr (List.mem_cons_of_mem _ h)
    · simp only [List.mem_cons] at h
      rcases h with h | h
      · exact Or.inr (h ▸ List.mem_cons_self ..)
      · rcases ih h with h | h
        · exact Or.inl h
        · exact Or.inr (List.mem_cons_of_mem _ h)

theorem mem_sortRows {le : Row → Row → Bool} {x : Row} {l : List Row} (h : x ∈ sortRows le l) : x ∈ l := by
  induction l with
  | nil => simp [sortRows] at h
  | cons a l ih =>
    simp only [sortRows, List.foldr_cons] at h
    rcases mem_insertSorted h with h | h
    · exact h ▸ List.mem_cons_self ..
    · exact List.mem_cons_of_mem _ (ih h)

/-! ## every row of a plan has exactly the plan's columns -/

theorem keys_nullRow (cs : List String) : keys (nullRow cs) = cs := by
  simp [keys, nullRow, List.map_map, Function.comp_def]

theorem keys_conform (cs : List String) (ρ : Row) : keys (conform cs ρ) = cs := by
  simp [keys, conform, List.map_map, Function.comp_def]

theorem keys_projRow (env : Env) (items : List Item) (ρ : Row) :
    keys (projRow env items ρ) = items.map itemName := by
  simp [keys, projRow, List.map_map, Function.comp_def]

theorem keys_append (a b : Row) : keys (a ++ b) = keys a ++ keys b := by simp [keys]

theorem keys_expandExt {env : Env} {s : ExpandSpec} {x : Val} {y : Row} (h : y ∈ expandExt env s x) :
    keys y = expandCols s := by
  unfold expandExt at h
  split at h
  · simp only [List.mem_flatMap, List.mem_map] at h
    obtain ⟨k, _, ⟨eid, b⟩, _, rfl⟩ := h
    simp [keys, expandCols, List.map_map, Function.comp_def]
  · simp at h

theorem keys_scanRows {env : Env} {v : String} {lb : Option String} {ρ : Row}
    (h : ρ ∈ scanRows env v lb) : keys ρ = [v] := by
  simp only [scanRows, List.mem_map] at h
  obtain ⟨n, _, rfl⟩ := h
  rfl

theorem keys_matchRows {env : Env} {cs : List (Expr × Expr)} {a : Row} {rs : List Row} {rc : List String}
    (hr : ∀ b ∈ rs, keys b = rc) {x : Row} (h : x ∈ matchRows env cs a rs) : keys x = keys a ++ rc := by
  simp only [matchRows, List.mem_map, List.mem_filter] at h
  obtain ⟨b, ⟨hb, _⟩, rfl⟩ := h
  rw [keys_append, hr b hb]

theorem keys_perLeft {env : Env} {ty : JoinType} {cs : List (Expr × Expr)} {a : Row} {rs : List Row}
    {rc : List String} (hr : ∀ b ∈ rs, keys b = rc) {x : Row}
    (h : x ∈ perLeft env ty cs rc rs a) :
    keys x = (match ty with | .semi => keys a | .anti => keys a | _ => keys a ++ rc) := by
  cases ty <;> simp only [perLeft] at h
  case left =>
    split at h
    · simp only [List.mem_singleton] at h; subst h; rw [keys_append, keys_nullRow]
    · exact keys_matchRows hr h
  case semi => split at h <;> simp_all
  case anti => split at h <;> simp_all
  all_goals exact keys_matchRows hr h

theorem keys_aggRows {env : Env} {gb : List Expr} {aggs : List AggSpec} {having : Option Expr}
    {rows : List Row} {x : Row} (h : x ∈ aggRows env gb aggs having rows) :
    keys x = gb.map (fun e => itemName (e, none)) ++ aggs.map aggName := by
  have key : ∀ k : List Val, k.length = gb.length →
      keys ((gb.map (fun e => itemName (e, none))).zip k ++
        aggs.map (fun a => (aggName a, aggValue env a (rows.filter (fun ρ => groupKey env gb ρ == k))))) =
      gb.map (fun e => itemName (e, none)) ++ aggs.map aggName := by
    intro k hk
    rw [keys_append]
    congr 1
    · exact List.map_fst_zip (by simp [hk])
    · simp [keys, List.map_map, Function.comp_def]
  have hlen : ∀ k ∈ (if gb.isEmpty then [[]] else
      (dedupOn (groupKey env gb) rows).map (groupKey env gb)), k.length = gb.length := by
    intro k hk
    split at hk
    · rename_i he
      simp only [List.mem_singleton] at hk
      subst hk
      simp only [List.isEmpty_iff] at he
      simp [he]
    · simp only [List.mem_map] at hk
      obtain ⟨ρ, _, rfl⟩ := hk
      simp [groupKey]
  unfold aggRows at h
  simp only at h
  split at h
  · simp only [List.mem_filter, List.mem_map] at h
    obtain ⟨⟨k, hk, rfl⟩, _⟩ := h
    exact key k (hlen k hk)
  · simp only [List.mem_map] at h
    obtain ⟨k, hk, rfl⟩ := h
    exact key k (hlen k hk)

theorem keys_eval (env : Env) : ∀ (p : Plan) (ρ : Row), ρ ∈ eval env p → keys ρ = cols p := by
  intro p
  induction p with
  | scan v lb => intro ρ h; exact keys_scanRows h
  | scanIn v lb i ih =>
    intro ρ h
    simp only [eval, List.mem_flatMap, List.mem_map] at h
    obtain ⟨a, ha, s, hs, rfl⟩ := h
    rw [keys_append, ih a ha, keys_scanRows hs]; rfl
  | expand s i ih =>
    intro ρ h
    simp only [eval, List.mem_flatMap, List.mem_map] at h
    obtain ⟨a, ha, y, hy, rfl⟩ := h
    rw [keys_append, ih a ha, keys_expandExt hy]; rfl
  | filter p i ih =>
    intro ρ h
    simp only [eval, List.mem_filter] at h
    exact ih ρ h.1
  | project items i _ =>
    intro ρ h
    simp only [eval, List.mem_map] at h
    obtain ⟨a, _, rfl⟩ := h
    exact keys_projRow env items a
  | ret d items i _ =>
    intro ρ h
    have : ρ ∈ (eval env i).map (projRow env items) := by
      simp only [eval] at h
      split at h
      · exact mem_dedup h
      · exact h
    simp only [List.mem_map] at this
    obtain ⟨a, _, rfl⟩ := this
    exact keys_projRow env items a
  | join ty cs l r ihl ihr =>
    intro ρ h
    simp only [eval] at h
    cases ty
    case right =>
      simp only [joinRows, List.mem_flatMap] at h
      obtain ⟨b, hb, hx⟩ := h
      split at hx
      · simp only [List.mem_singleton] at hx; subst hx
        rw [keys_append, keys_nullRow, ihr b hb]; rfl
      · simp only [List.mem_map, List.mem_filter] at hx
        obtain ⟨a, ⟨ha, _⟩, rfl⟩ := hx
        rw [keys_append, ihl a ha, ihr b hb]; rfl
    case full =>
      simp only [joinRows, List.mem_append, List.mem_flatMap, List.mem_map, List.mem_filter] at h
      rcases h with ⟨a, ha, hx⟩ | ⟨b, ⟨hb, _⟩, rfl⟩
      · have := keys_perLeft (ty := .left) (fun b hb => ihr b hb) hx
        simp only at this
        rw [this, ihl a ha]; rfl
      · rw [keys_append, keys_nullRow, ihr b hb]; rfl
    all_goals
      simp only [joinRows, List.mem_flatMap] at h
      obtain ⟨a, ha, hx⟩ := h
      have := keys_perLeft (fun b hb => ihr b hb) hx
      simp only at this
      rw [this, ihl a ha]; rfl
  | limit n i ih => intro ρ h; simp only [eval] at h; exact ih ρ (List.mem_of_mem_take h)
  | skip n i ih => intro ρ h; simp only [eval] at h; exact ih ρ (List.mem_of_mem_drop h)
  | sort ks i ih => intro ρ h; simp only [eval] at h; exact ih ρ (mem_sortRows h)
  | distinct c i ih =>
    intro ρ h
    simp only [eval] at h
    split at h
    · exact ih ρ (mem_dedup h)
    · exact ih ρ (mem_dedupOn h)
  | agg gb aggs hv i _ =>
    intro ρ h
    simp only [eval] at h
    exact keys_aggRows h
  | other n f c =>
    intro ρ h
    simp only [eval, List.mem_map] at h
    obtain ⟨a, _, rfl⟩ := h
    exact keys_conform c a

/-! ## the rewrite keeps the column list and what `outVars` reports -/

theorem cols_tryPushGo (pred : Expr) : ∀ p : Plan, cols (tryPushGo pred p) = cols p := by
  intro p
  induction p with
  | project items i ih => simp only [tryPushGo]; split <;> simp [cols]
  | ret d items i ih => simp only [tryPushGo]; split <;> simp [cols]
  | expand s i ih => simp only [tryPushGo]; split <;> simp [cols, ih]
  | join ty cs l r ihl ihr =>
    simp only [tryPushGo]
    split
    · cases ty <;> simp [cols, ihl]
    · split
      · cases ty <;> simp [cols, ihr]
      · simp [cols]
  | _ => simp [tryPushGo, cols]

theorem cols_tryPush (pred : Expr) (p : Plan) : cols (tryPush pred p) = cols p := by
  unfold tryPush
  split
  · rfl
  · exact cols_tryPushGo pred p

theorem cols_pushFilters : ∀ p : Plan, cols (pushFilters p) = cols p := by
  intro p
  induction p with
  | filter pred i ih => simp only [pushFilters, cols_tryPush, ih, cols]
  | join ty cs l r ihl ihr => cases ty <;> simp [pushFilters, cols, ihl, ihr]
  | scan v lb => rfl
  | scanIn v lb i ih => rfl
  | other n f c => rfl
  | _ => simp_all [pushFilters, cols]

theorem outVars_tryPushGo (pred : Expr) : ∀ p : Plan, outVars (tryPushGo pred p) = outVars p := by
  intro p
  induction p with
  | project items i _ => simp only [tryPushGo]; split <;> simp [outVars]
  | ret d items i _ => simp only [tryPushGo]; split <;> simp [outVars]
  | expand s i ih => simp only [tryPushGo]; split <;> simp [outVars, ih]
  | join ty cs l r ihl ihr =>
    simp only [tryPushGo]
    split
    · simp [outVars, ihl]
    · split <;> simp [outVars, ihr]
  | _ => simp [tryPushGo, outVars]

theorem outVars_tryPush (pred : Expr) (p : Plan) : outVars (tryPush pred p) = outVars p := by
  unfold tryPush
  split
  · rfl
  · exact outVars_tryPushGo pred p

theorem outVars_pushFilters : ∀ p : Plan, outVars (pushFilters p) = outVars p := by
  intro p
  induction p with
  | filter pred i ih => simp only [pushFilters, outVars_tryPush, ih, outVars]
  | scan v lb => rfl
  | scanIn v lb i ih => rfl
  | other n f c => rfl
  | _ => simp_all [pushFilters, outVars]

/-! ## `try_push_filter_into` is `filter` -/

/-- `contains_subquery` is the negation of locality: what the new first test of
`try_push_filter_into` lets through depends on the row only via `collect_variables` -/
theorem local_of_not_containsSubquery : ∀ e : Expr, containsSubquery e = false → e.local = true := by
  intro e
  induction e with
  | subq tag fp => intro h; simp [containsSubquery] at h
  | bin op l r ihl ihr =>
    intro h
    simp only [containsSubquery, Bool.or_eq_false_iff] at h
    simp [Expr.local, ihl h.1, ihr h.2]
  | un op e ih => intro h; simp only [containsSubquery] at h; simp [Expr.local, ih h]
  | call tag info a ih => intro h; simp only [containsSubquery] at h; simp [Expr.local, ih h]
  | argCons e r ihe ihr =>
    intro h
    simp only [containsSubquery, Bool.or_eq_false_iff] at h
    simp [Expr.local, ihe h.1, ihr h.2]
  | _ => intro _; rfl

theorem get_projRow (env : Env) (items : List Item) (ρ : Row) (v : String) :
    (projRow env items ρ).get v =
      match items.find? (fun it => itemName it == v) with
      | some it => evalE env ρ it.1
      | none => .null := by
  induction items with
  | nil => rfl
  | cons it rest ih =>
    by_cases h : itemName it = v
    · simp [projRow, Row.get, look, h]
    · have ih' : (look v (List.map (fun it => (itemName it, evalE env ρ it.1)) rest)).getD Val.null =
          match rest.find? (fun it => itemName it == v) with
          | some it => evalE env ρ it.1
          | none => .null := ih
      simp [projRow, Row.get, look, h, ih']

theorem agree_projRow (env : Env) {items : List Item} {below : List String} {vs : List String} {ρ : Row}
    (hk : keys ρ = below) (h : vs.all (passThrough items below) = true) :
    Agree vs (projRow env items ρ) ρ := by
  intro v hv
  have hp := List.all_eq_true.mp h v hv
  rw [get_projRow]
  unfold passThrough at hp
  split at hp
  · rename_i it hfind
    rw [hfind]
    simp only [beq_iff_eq] at hp
    simp only [hp, evalE, evalL, List.headD_cons]
  · rename_i hfind
    rw [hfind]
    simp only [Bool.not_eq_true', List.contains_eq_mem, decide_eq_false_iff_not] at hp
    rw [get_of_not_mem (hk ▸ hp)]

/-- the `match op` part: for a subquery-free predicate, under the column facts `pushOK` -/
theorem tryPushGo_sound (env : Env) (pred : Expr) (hl : pred.local = true) :
    ∀ p : Plan, pushOK pred p = true →
      eval env (tryPushGo pred p) = (eval env p).filter (keep env pred) := by
  intro p
  induction p with
  | project items i ih =>
    intro h
    simp only [tryPushGo]
    simp only [pushOK] at h
    split
    · rename_i hu
      simp only [hu, if_true, Bool.and_eq_true] at h
      obtain ⟨hpt, hi⟩ := h
      simp only [eval, ih hi, List.filter_map]
      congr 1
      apply List.filter_congr
      intro ρ hρ
      exact (keep_congr env hl (agree_projRow env (keys_eval env i ρ hρ) hpt)).symm
    · rfl
  | ret d items i ih =>
    intro h
    simp only [tryPushGo]
    simp only [pushOK] at h
    split
    · rename_i hu
      simp only [hu, if_true, Bool.and_eq_true] at h
      obtain ⟨hpt, hi⟩ := h
      have hmap : ((eval env i).filter (keep env pred)).map (projRow env items) =
          ((eval env i).map (projRow env items)).filter (keep env pred) := by
        rw [List.filter_map]
        congr 1
        apply List.filter_congr
        intro ρ hρ
        exact (keep_congr env hl (agree_projRow env (keys_eval env i ρ hρ) hpt)).symm
      simp only [eval, ih hi, hmap]
      split
      · exact dedup_filter _ _
      · rfl
    · rfl
  | expand s i ih =>
    intro h
    simp only [tryPushGo]
    simp only [pushOK] at h
    split
    · rename_i hu
      simp only [hu, if_true, Bool.and_eq_true] at h
      obtain ⟨hc, hi⟩ := h
      simp only [eval, ih hi]
      apply flatMap_filter_comm
      intro ρ hρ b hb
      simp only [List.mem_map] at hb
      obtain ⟨y, hy, rfl⟩ := hb
      apply keep_congr env hl
      apply agree_append_left
      intro v hv
      have := List.all_eq_true.mp hc v hv
      simp only [Bool.or_eq_true, List.contains_eq_mem, decide_eq_true_eq, Bool.not_eq_true',
        decide_eq_false_iff_not] at this
      rw [keys_eval env i ρ hρ, keys_expandExt hy]
      exact this
    · rfl
  | join ty cs l r ihl ihr =>
    intro h
    simp only [tryPushGo]
    simp only [pushOK] at h
    split
    · -- pushed into the left input
      rename_i hu
      simp only [hu, if_true, Bool.and_eq_true] at h
      obtain ⟨hc, hi⟩ := h
      have hty : leftPushTypes ty = true := by
        simp only [pushesLeft, Bool.and_eq_true] at hu
        exact hu.2.2
      simp only [eval, ihl hi, cols_tryPushGo]
      have hrows : ∀ a ∈ eval env l, ∀ b ∈ perLeft env ty cs (cols r) (eval env r) a,
          keep env pred b = keep env pred a := by
        intro a ha b hb
        have hcov : ∀ y : Row, keys y = cols r → keep env pred (a ++ y) = keep env pred a := by
          intro y hy
          apply keep_congr env hl
          apply agree_append_left
          intro v hv
          have := List.all_eq_true.mp hc v hv
          simp only [Bool.or_eq_true, List.contains_eq_mem, decide_eq_true_eq, Bool.not_eq_true',
            decide_eq_false_iff_not] at this
          rw [keys_eval env l a ha, hy]
          exact this
        have hmatch : ∀ x ∈ matchRows env cs a (eval env r), keep env pred x = keep env pred a := by
          intro x hx
          simp only [matchRows, List.mem_map, List.mem_filter] at hx
          obtain ⟨y, ⟨hy, _⟩, rfl⟩ := hx
          exact hcov y (keys_eval env r y hy)
        cases ty <;> simp only [perLeft] at hb
        case left =>
          split at hb
          · simp only [List.mem_singleton] at hb; subst hb
            exact hcov _ (keys_nullRow _)
          · exact hmatch b hb
        case semi => split at hb <;> simp_all
        case anti => split at hb <;> simp_all
        all_goals exact hmatch b hb
      cases ty
      case right => simp [leftPushTypes] at hty
      case full => simp [leftPushTypes] at hty
      all_goals
        simp only [joinRows]
        exact flatMap_filter_comm _ _ _ _ hrows
    · split
      · -- pushed into the right input
        rename_i hu1 hu
        simp only [hu1, hu, if_true, Bool.false_eq_true, if_false, Bool.and_eq_true] at h
        obtain ⟨hc, hi⟩ := h
        have hty : rightPushTypes ty = true := by
          simp only [pushesRight, Bool.and_eq_true] at hu
          exact hu.2.2
        simp only [eval, ihr hi, cols_tryPushGo]
        have hm : ∀ a ∈ eval env l,
            matchRows env cs a ((eval env r).filter (keep env pred)) =
              (matchRows env cs a (eval env r)).filter (keep env pred) := by
          intro a ha
          have hk : ∀ b : Row, keep env pred (a ++ b) = keep env pred b := by
            intro b
            apply keep_congr env hl
            apply agree_append_right
            intro v hv
            have := List.all_eq_true.mp hc v hv
            simp only [Bool.not_eq_true', List.contains_eq_mem, decide_eq_false_iff_not] at this
            rw [keys_eval env l a ha]
            exact this
          simp only [matchRows, List.filter_map, List.filter_filter]
          congr 1
          apply List.filter_congr
          intro b _
          simp only [Function.comp_def, hk, Bool.and_comm]
        have hfm : ∀ (rs' : List Row → List Row),
            (∀ a ∈ eval env l, matchRows env cs a (rs' (eval env r)) =
              (matchRows env cs a (eval env r)).filter (keep env pred)) →
            (eval env l).flatMap (fun a => matchRows env cs a (rs' (eval env r))) =
              ((eval env l).flatMap (fun a => matchRows env cs a (eval env r))).filter (keep env pred) := by
          intro rs' hh
          rw [List.filter_flatMap]
          exact flatMap_congr' _ _ _ hh
        cases ty
        case inner =>
          simp only [joinRows]
          exact hfm (fun rs => rs.filter (keep env pred)) hm
        case cross =>
          simp only [joinRows]
          exact hfm (fun rs => rs.filter (keep env pred)) hm
        all_goals simp [rightPushTypes] at hty
      · rfl
  | _ => intro _; rfl

/-- `try_push_filter_into`: a predicate with a subquery stays where it is; any other is placed so
that — given the column facts `pushOK` — the result is the filter of the input -/
theorem tryPush_sound (env : Env) (pred : Expr) (p : Plan)
    (h : (containsSubquery pred || pushOK pred p) = true) :
    eval env (tryPush pred p) = (eval env p).filter (keep env pred) := by
  unfold tryPush
  split
  · rfl
  · rename_i hs
    simp only [Bool.not_eq_true] at hs
    simp only [hs, Bool.false_or] at h
    exact tryPushGo_sound env pred (local_of_not_containsSubquery pred hs) p h

/-! ## filter push-down -/

/-- **C09, filter push-down (partial; residual hypothesis `wfPush`).** For every graph and every
interpretation of the uninterpreted symbols, and every plan all of whose push steps land where the
predicate's variables are bound as above (`wfPush`, decidable — see `wfPush_of_wfScope` for a
plan-wide sufficient condition and the `w…` witnesses for why it cannot be dropped),
`push_filters_down` returns a plan with the same row list: same rows, same multiplicities, same
order. Join types and subqueries are no longer hypotheses: the repaired guards test them. -/
theorem pushFilters_sound (env : Env) :
    ∀ p : Plan, wfPush p = true → eval env (pushFilters p) = eval env p := by
  intro p
  induction p with
  | filter pred i ih =>
    intro h
    simp only [wfPush, Bool.and_eq_true] at h
    simp only [pushFilters, tryPush_sound env pred _ h.2, ih h.1, eval]
  | join ty cs l r ihl ihr =>
    intro h
    simp only [wfPush, Bool.and_eq_true] at h
    simp only [pushFilters, eval, cols_pushFilters, ihl h.1, ihr h.2]
  | scan v lb => intro _; rfl
  | scanIn v lb i _ => intro _; rfl
  | other n f c => intro _; rfl
  | ret d items i ih => intro h; simp only [wfPush] at h; simp only [pushFilters, eval, ih h]
  | project items i ih => intro h; simp only [wfPush] at h; simp only [pushFilters, eval, ih h]
  | limit n i ih => intro h; simp only [wfPush] at h; simp only [pushFilters, eval, ih h]
  | skip n i ih => intro h; simp only [wfPush] at h; simp only [pushFilters, eval, ih h]
  | sort k i ih => intro h; simp only [wfPush] at h; simp only [pushFilters, eval, ih h]
  | distinct c i ih => intro h; simp only [wfPush] at h; simp only [pushFilters, eval, ih h]
  | expand s i ih => intro h; simp only [wfPush] at h; simp only [pushFilters, eval, ih h]
  | agg g a hv i ih => intro h; simp only [wfPush] at h; simp only [pushFilters, eval, ih h]

/-- the multiset reading of the same fact -/
theorem pushFilters_perm (env : Env) (p : Plan) (h : wfPush p = true) :
    (eval env (pushFilters p)).Perm (eval env p) := by
  rw [pushFilters_sound env p h]

/-! ## `collect_output_variables` never over-reports -/

theorem handedOn_sub_names : ∀ (items : List Item) (v : String), v ∈ handedOn items →
    v ∈ items.map itemName := by
  intro items
  induction items with
  | nil => intro v h; simp [handedOn] at h
  | cons it rest ih =>
    intro v h
    obtain ⟨e, al⟩ := it
    cases al with
    | some a =>
      simp only [handedOn, List.mem_cons] at h
      rcases h with h | h
      · subst h; simp [itemName]
      · exact List.mem_cons_of_mem _ (ih v h)
    | none =>
      cases e with
      | var x =>
        simp only [handedOn, List.mem_cons] at h
        rcases h with h | h
        · subst h; simp [itemName]
        · exact List.mem_cons_of_mem _ (ih v h)
      | _ =>
        simp only [handedOn] at h
        exact List.mem_cons_of_mem _ (ih v h)

theorem bareVars_sub_names : ∀ (gb : List Expr) (v : String), v ∈ bareVars gb →
    v ∈ gb.map (fun e => itemName (e, none)) := by
  intro gb
  induction gb with
  | nil => intro v h; simp [bareVars] at h
  | cons e rest ih =>
    intro v h
    cases e with
    | var x =>
      simp only [bareVars, List.mem_cons] at h
      rcases h with h | h
      · subst h; simp [itemName]
      · exact List.mem_cons_of_mem _ (ih v h)
    | _ =>
      simp only [bareVars] at h
      exact List.mem_cons_of_mem _ (ih v h)

/-- **Every variable `collect_output_variables` reports is a column** — for every plan, with no
hypothesis (it took three repairs: chained scans, projections, aggregates). This is what makes the
`Expand` guard and the left-input join guard of `try_push_filter_into` sufficient. -/
theorem noOver_all : ∀ q : Plan, ∀ v ∈ outVars q, v ∈ cols q := by
  intro q
  induction q with
  | scan v lb => intro x hx; simpa [outVars, cols] using hx
  | scanIn v lb i ih =>
    intro x hx
    simp only [outVars, List.mem_cons] at hx
    simp only [cols, List.mem_append, List.mem_singleton]
    rcases hx with hx | hx
    · exact Or.inr hx
    · exact Or.inl (ih x hx)
  | expand s i ih =>
    intro x hx
    simp only [outVars, List.mem_cons, List.mem_append] at hx
    simp only [cols, expandCols, List.mem_append, List.mem_singleton]
    rcases hx with hx | hx | hx
    · exact Or.inr (Or.inl (Or.inr hx))
    · exact Or.inr (Or.inl (Or.inl hx))
    · exact Or.inl (ih x hx)
  | filter pr i ih => intro x hx; exact ih x hx
  | limit n i ih => intro x hx; exact ih x hx
  | skip n i ih => intro x hx; exact ih x hx
  | sort k i ih => intro x hx; exact ih x hx
  | distinct c i ih => intro x hx; exact ih x hx
  | project items i _ => intro x hx; exact handedOn_sub_names items x hx
  | ret d items i _ => intro x hx; exact handedOn_sub_names items x hx
  | join ty cs l r ihl ihr =>
    intro x hx
    cases ty <;> simp only [outVars, List.mem_append] at hx <;> simp only [cols, List.mem_append]
    case semi => exact ihl x hx
    case anti => exact ihl x hx
    all_goals
      rcases hx with hx | hx
      · exact Or.inl (ihl x hx)
      · exact Or.inr (ihr x hx)
  | agg gb aggs hv i _ =>
    intro x hx
    simp only [outVars, List.mem_append] at hx
    simp only [cols, List.mem_append]
    rcases hx with hx | hx
    · exact Or.inl (bareVars_sub_names gb x hx)
    · right
      simp only [aggAliases, List.mem_filterMap] at hx
      obtain ⟨a, ha, hal⟩ := hx
      simp only [List.mem_map]
      exact ⟨a, ha, by simp [aggName, hal]⟩
  | other n f c => intro x hx; simp [outVars] at hx

/-! ## a plan-wide sufficient condition -/

theorem noUnder_tryPushGo (pred : Expr) (p : Plan) : noUnder (tryPushGo pred p) = noUnder p := by
  simp only [noUnder, outVars_tryPushGo, cols_tryPushGo]

theorem noUnder_pushFilters (p : Plan) : noUnder (pushFilters p) = noUnder p := by
  simp only [noUnder, outVars_pushFilters, cols_pushFilters]

theorem wfScope_tryPushGo (pred : Expr) : ∀ p : Plan, wfScope (tryPushGo pred p) = wfScope p := by
  intro p
  induction p with
  | project items i ih => simp only [tryPushGo]; split <;> simp [wfScope, ih]
  | ret d items i ih => simp only [tryPushGo]; split <;> simp [wfScope, ih]
  | expand s i ih => simp only [tryPushGo]; split <;> simp [wfScope, ih]
  | join ty cs l r ihl ihr =>
    simp only [tryPushGo]
    split
    · simp [wfScope, ihl, noUnder_tryPushGo, cols_tryPushGo]
    · split <;> simp [wfScope, ihr, cols_tryPushGo]
  | _ => simp [tryPushGo, wfScope]

theorem wfScope_tryPush (pred : Expr) (p : Plan) : wfScope (tryPush pred p) = wfScope p := by
  unfold tryPush
  split
  · rfl
  · exact wfScope_tryPushGo pred p

theorem wfScope_pushFilters : ∀ p : Plan, wfScope (pushFilters p) = wfScope p := by
  intro p
  induction p with
  | filter pred i ih => simp only [pushFilters, wfScope_tryPush, ih, wfScope]
  | expand s i ih => simp only [pushFilters, wfScope, ih]
  | join ty cs l r ihl ihr =>
    simp only [pushFilters, wfScope, ihl, ihr, noUnder_pushFilters, cols_pushFilters]
  | scan v lb => rfl
  | scanIn v lb i ih => rfl
  | other n f c => rfl
  | _ => simp_all [pushFilters, wfScope]

/-- a list without `*` that `passes_through` a variable hands it through in the semantics: every
item named `v` is the bare variable `v` (aliases by `shadowed`, unaliased items by `unnamed`) -/
theorem passThrough_of_noStar {items : List Item} {below : List String} {v : String}
    (hstar : noStar items = true) (hp : passesThrough items v = true) :
    passThrough items below v = true := by
  simp only [passesThrough, Bool.and_eq_true, Bool.or_eq_true, Bool.not_eq_true'] at hp
  obtain ⟨⟨hh, hsh⟩, hun⟩ := hp
  have hhanded : items.any (fun it => it.1 == .var v && (it.2 == none || it.2 == some v)) = true := by
    rcases hh with h | h
    · exact h
    · exfalso
      simp only [List.any_eq_true] at h
      obtain ⟨it, hit, he⟩ := h
      have := List.all_eq_true.mp hstar it hit
      simp only [bne_iff_ne, ne_eq] at this
      exact this (by simpa using he)
  unfold passThrough
  split
  · rename_i it hfind
    have hmem := List.mem_of_find?_eq_some hfind
    have hname : itemName it = v := by
      have := List.find?_some hfind
      simpa using this
    obtain ⟨e, al⟩ := it
    cases al with
    | some a =>
      have ha : a = v := by simpa [itemName] using hname
      subst ha
      have hns := hsh
      simp only [List.any_eq_false] at hns
      have := hns (e, some a) hmem
      simp only [beq_self_eq_true, Bool.true_and, bne_iff_ne, ne_eq, Decidable.not_not] at this
      simpa using this
    | none =>
      simp only [List.any_eq_false] at hun
      have hv := hun (e, none) hmem
      cases e with
      | var x =>
        have : x = v := by simpa [itemName] using hname
        subst this
        simp
      | _ => simp at hv
  · rename_i hfind
    exfalso
    simp only [List.any_eq_true] at hhanded
    obtain ⟨jt, hjt, hj⟩ := hhanded
    simp only [Bool.and_eq_true, Bool.or_eq_true, beq_iff_eq] at hj
    have hn : itemName jt = v := by
      obtain ⟨e, al⟩ := jt
      simp only at hj
      obtain ⟨he, hal⟩ := hj
      subst he
      rcases hal with hal | hal
      · subst hal; rfl
      · subst hal; rfl
    have := List.find?_eq_none.mp hfind jt hjt
    simp [hn] at this

theorem pushOK_of_wfScope (pred : Expr) : ∀ p : Plan, wfScope p = true → pushOK pred p = true := by
  intro p
  induction p with
  | project items i ih =>
    intro h
    simp only [wfScope, Bool.and_eq_true] at h
    simp only [pushOK]
    split
    · rename_i hu
      simp only [Bool.and_eq_true]
      refine ⟨?_, ih h.2⟩
      apply List.all_eq_true.mpr
      intro v hv
      exact passThrough_of_noStar h.1 (List.all_eq_true.mp hu v hv)
    · rfl
  | ret d items i ih =>
    intro h
    simp only [wfScope, Bool.and_eq_true] at h
    simp only [pushOK]
    split
    · rename_i hu
      simp only [Bool.and_eq_true]
      refine ⟨?_, ih h.2⟩
      apply List.all_eq_true.mpr
      intro v hv
      exact passThrough_of_noStar h.1 (List.all_eq_true.mp hu v hv)
    · rfl
  | expand s i ih =>
    intro h
    simp only [wfScope] at h
    simp only [pushOK]
    split
    · rename_i hu
      simp only [Bool.and_eq_true]
      refine ⟨?_, ih h⟩
      apply List.all_eq_true.mpr
      intro v hv
      have h1 := List.all_eq_true.mp hu v hv
      have h2 := noOver_all i v (by simpa using h1)
      simp only [Bool.or_eq_true, List.contains_eq_mem, decide_eq_true_eq, Bool.not_eq_true',
        decide_eq_false_iff_not]
      exact Or.inl h2
    · rfl
  | join ty cs l r ihl ihr =>
    intro h
    simp only [wfScope, Bool.and_eq_true] at h
    obtain ⟨⟨hside, hl⟩, hr⟩ := h
    simp only [pushOK]
    split
    · rename_i hu
      simp only [Bool.and_eq_true]
      refine ⟨?_, ihl hl⟩
      simp only [pushesLeft, Bool.and_eq_true] at hu
      apply List.all_eq_true.mpr
      intro v hv
      have h1 := List.all_eq_true.mp hu.1.2 v hv
      have h2 := noOver_all l v (by simpa using h1)
      simp only [Bool.or_eq_true, List.contains_eq_mem, decide_eq_true_eq, Bool.not_eq_true',
        decide_eq_false_iff_not]
      exact Or.inl h2
    · split
      · rename_i hu
        simp only [Bool.and_eq_true]
        refine ⟨?_, ihr hr⟩
        simp only [pushesRight, Bool.and_eq_true, Bool.not_eq_true'] at hu
        apply List.all_eq_true.mpr
        intro v hv
        simp only [Bool.not_eq_true', List.contains_eq_mem, decide_eq_false_iff_not]
        intro hcl
        simp only [Bool.or_eq_true] at hside
        rcases hside with hunder | hdis
        · have h2 := List.all_eq_true.mp hunder v hcl
          have h3 : usesAny pred.vars (outVars l) = true := by
            simp only [usesAny, List.any_eq_true]
            exact ⟨v, hv, h2⟩
          rw [hu.1.1.2] at h3
          exact absurd h3 (by simp)
        · have h1 := List.all_eq_true.mp hu.1.2 v hv
          have h2 := noOver_all r v (by simpa using h1)
          have h3 := List.all_eq_true.mp hdis v hcl
          simp only [Bool.not_eq_true', List.contains_eq_mem, decide_eq_false_iff_not] at h3
          exact h3 h2
      · rfl
  | _ => intro _; rfl

theorem wfPush_of_wfScope : ∀ p : Plan, wfScope p = true → wfPush p = true := by
  intro p
  induction p with
  | filter pred i ih =>
    intro h
    simp only [wfScope] at h
    simp only [wfPush, Bool.and_eq_true, Bool.or_eq_true]
    exact ⟨ih h, Or.inr (pushOK_of_wfScope pred _ (by rw [wfScope_pushFilters]; exact h))⟩
  | join ty cs l r ihl ihr =>
    intro h
    simp only [wfScope, Bool.and_eq_true] at h
    simp only [wfPush, Bool.and_eq_true]
    exact ⟨ihl h.1.2, ihr h.2⟩
  | scan v lb => intro _; rfl
  | scanIn v lb i _ => intro _; rfl
  | other n f c => intro _; rfl
  | ret d items i ih => intro h; simp only [wfScope, Bool.and_eq_true] at h; simp only [wfPush]; exact ih h.2
  | project items i ih => intro h; simp only [wfScope, Bool.and_eq_true] at h; simp only [wfPush]; exact ih h.2
  | limit n i ih => intro h; simp only [wfScope] at h; simp only [wfPush]; exact ih h
  | skip n i ih => intro h; simp only [wfScope] at h; simp only [wfPush]; exact ih h
  | sort k i ih => intro h; simp only [wfScope] at h; simp only [wfPush]; exact ih h
  | distinct c i ih => intro h; simp only [wfScope] at h; simp only [wfPush]; exact ih h
  | expand s i ih => intro h; simp only [wfScope] at h; simp only [wfPush]; exact ih h
  | agg g a hv i ih => intro h; simp only [wfScope] at h; simp only [wfPush]; exact ih h

/-- **C09, filter push-down, plan-wide condition (final).** If no projection list has a `*` item
and at every join either the left input has no unreported column or the two inputs share no column
name, filter push-down never changes the answer: same row list, for every graph. -/
theorem pushFilters_sound_of_wfScope (env : Env) (p : Plan) (h : wfScope p = true) :
    eval env (pushFilters p) = eval env p :=
  pushFilters_sound env p (wfPush_of_wfScope p h)

/-! ## projection push-down -/

/-- `push_projections_recursive` rebuilds the operator it is given: whatever required-column set
it is handed, the plan comes back unchanged. -/
theorem pushProj_id : ∀ (p : Plan) (req : List Req), pushProj req p = p := by
  intro p
  induction p with
  | join ty cs l r ihl ihr => intro req; simp only [pushProj, ihl, ihr]
  | scan v lb => intro _; rfl
  | scanIn v lb i _ => intro _; rfl
  | other n f c => intro _; rfl
  | ret d items i ih => intro req; simp only [pushProj, ih]
  | project items i ih => intro req; simp only [pushProj, ih]
  | filter q i ih => intro req; simp only [pushProj, ih]
  | limit n i ih => intro req; simp only [pushProj, ih]
  | skip n i ih => intro req; simp only [pushProj, ih]
  | sort k i ih => intro req; simp only [pushProj, ih]
  | distinct c i ih => intro req; simp only [pushProj, ih]
  | expand s i ih => intro req; simp only [pushProj, ih]
  | agg g a hv i ih => intro req; simp only [pushProj, ih]

/-- **C09, projection push-down (full).** As coded it is the identity on plans … -/
theorem pushProjections_id (p : Plan) : pushProjections p = p := pushProj_id p _

/-- … hence on answers, for every graph and every plan, with no hypothesis. -/
theorem pushProjections_sound (env : Env) (p : Plan) : eval env (pushProjections p) = eval env p := by
  rw [pushProjections_id]

/-! ## the switch sets without join reordering -/

/-- `Optimizer::optimize` with join reordering off: filter push-down if `f`, then projection
push-down if `pj` -/
def optimizeNoReorder (f pj : Bool) (p : Plan) : Plan :=
  let p1 := if f then pushFilters p else p
  if pj then pushProjections p1 else p1

/-- all four switch sets without join reordering return the unoptimised answer (as a list) -/
theorem optimizeNoReorder_sound (env : Env) (f pj : Bool) (p : Plan) (h : wfPush p = true) :
    eval env (optimizeNoReorder f pj p) = eval env p := by
  cases f <;> cases pj <;>
    simp [optimizeNoReorder, pushProjections_id, pushFilters_sound env p h]

/-! ## witnesses

Graph: node 0 {k0 = 1, k9 = 0}, node 1 {k0 = 2, k9 = 10}, node 2 {k0 = 1, k9 = 20};
edges 0 → 1, 1 → 2. -/

def wNodes : List Node :=
  [ { id := 0, labels := ["L0"], props := [("k0", .int 1), ("k9", .int 0)] },
    { id := 1, labels := ["L1"], props := [("k0", .int 2), ("k9", .int 10)] },
    { id := 2, labels := ["L0"], props := [("k0", .int 1), ("k9", .int 20)] } ]

def wEdges : List Edge :=
  [ { id := 0, src := 0, dst := 1, ty := "T0", props := [] },
    { id := 1, src := 1, dst := 2, ty := "T0", props := [] } ]

/-- `EXISTS { MATCH (b)-[]->(z) }`: true when the node bound to `b` has an outgoing edge -/
def wSubq (_ _ : String) (ρ : Row) : Val :=
  match ρ.get "b" with
  | .node i => .bool (wEdges.any (fun e => e.src == i))
  | _ => .bool false

def wEnv : Env where
  nodes := wNodes
  edges := wEdges
  fn := fun _ _ _ => .null
  vfn := fun _ _ => .null
  param := fun _ => .null
  subq := wSubq
  otherRows := fun _ _ => [[("b", .node 0)]]

def eqE (l r : Expr) : Expr := .bin "eq" l r

def oneHop (src dst : String) : ExpandSpec :=
  { src := src, dst := dst, edge := none, dir := "out", ty := none, minHops := 1, maxHops := some 1, alias := none }

/-! ### the residual hypothesis cannot be dropped

What is left after four repairs: a column that `collect_output_variables` does not report (the
path-length column of a named variable-length path, the generated name of an unaliased computed
item or aggregate) that has the same name as a variable bound on the other side of a join; and the
`*` item. One witness each. -/

/-- `MATCH p = (a)-[*1..2]->(b) MATCH (_path_length_p) WHERE _path_length_p.k0 = 2 RETURN a.k9, b.k9`
(GQL, accepted): the left input has the column `_path_length_p` (the length of `p`) which is not
reported, the right input binds a node of that name; the predicate is judged right-only and moved
there, while above the join the name means the *first* column of that name in the model. The
engine reads the *last* one, so on the engine this text gives the same rows and the mirrored text
`MATCH (_path_length_p) MATCH p = (a)-[*1..2]->(b) WHERE _path_length_p.k0 = 2 …` does not
(corpus graph: 9 rows without push-down, 4 with). -/
def wJoinUnder : Plan :=
  .filter (eqE (.prop "_path_length_p" "k0") (.lit (.int 2)))
    (.join .cross []
      (.expand { src := "a", dst := "b", edge := none, dir := "out", ty := none, minHops := 1,
                 maxHops := some 2, alias := some "p" } (.scan "a" none))
      (.scan "_path_length_p" none))

theorem wJoinUnder_witness :
    eval wEnv wJoinUnder = [] ∧ (eval wEnv (pushFilters wJoinUnder)).length = 3
      ∧ wfPush wJoinUnder = false ∧ wfScope wJoinUnder = false := by
  decide

/-- `passes_through` lets everything through a `*` item; the planner has no such item (the binder
rejects `RETURN *`: "Undefined variable '*'"), in the model it is a column like any other.
Plan API only. -/
def wStar : Plan :=
  .filter (eqE (.prop "a" "k0") (.lit (.int 1))) (.ret false [(.var "*", none)] (.scan "a" none))

theorem wStar_witness :
    eval wEnv wStar = [] ∧ (eval wEnv (pushFilters wStar)).length = 2
      ∧ wfPush wStar = false ∧ wfScope wStar = false := by
  decide

/-- **C09, filter push-down, unconditional statement — refuted in the model** (by `wJoinUnder`, the
plan of an accepted GQL text; it rests on the model reading the first of two columns of one name) -/
theorem pushFilters_sound_full_refuted :
    ¬ (∀ (env : Env) (p : Plan), eval env (pushFilters p) = eval env p) := by
  intro h
  have h1 := h wEnv wJoinUnder
  have h2 := wJoinUnder_witness
  rw [h2.1] at h1
  rw [h1] at h2
  simp at h2

/-- not even as multisets -/
theorem pushFilters_perm_full_refuted :
    ¬ (∀ (env : Env) (p : Plan), (eval env (pushFilters p)).Perm (eval env p)) := by
  intro h
  have h1 := (h wEnv wJoinUnder).length_eq
  have h2 := wJoinUnder_witness
  rw [h2.1] at h1
  rw [h2.2.1] at h1
  simp at h1

/-! ### regression: the residual cases of the previous round (repaired in the working tree) -/

/-- `MATCH (x)-[]->(a) RETURN x, a.k0, count(a) MATCH (x)-[]->(a) WHERE a.k0 = 2` (Cypher): an
`Aggregate` used to report the variables of its grouping expressions; now only keys that are bare
variables, so `a` is not "bound below" the second `Expand` and the predicate stays. -/
def wAggOver : Plan :=
  .filter (eqE (.prop "a" "k0") (.lit (.int 2)))
    (.expand (oneHop "x" "a")
      (.scanIn "x" none
        (.agg [.var "x", .prop "a" "k0"]
          [{ func := "countnn", distinct := false, expr := some (.var "a"), alias := none, pct := none }] none
          (.expand (oneHop "x" "a") (.scan "x" none)))))

theorem wAggOver_regression :
    (eval wEnv wAggOver).length = 3 ∧ wfScope wAggOver = true ∧ wfPush wAggOver = true
      ∧ eval wEnv (pushFilters wAggOver) = eval wEnv wAggOver := by
  decide

/-- `MATCH (expr) WITH expr.k0 + 0, expr WHERE expr.k0 = 1 RETURN expr.k9`: an unaliased computed
item gets the generated column name `expr`; `passes_through` now refuses any list with such an item -/
def wNameClash : Plan :=
  .filter (eqE (.prop "expr" "k0") (.lit (.int 1)))
    (.project [(.bin "add" (.prop "expr" "k0") (.lit (.int 0)), none), (.var "expr", none)] (.scan "expr" none))

theorem wNameClash_regression :
    eval wEnv wNameClash = [] ∧ wfScope wNameClash = true ∧ wfPush wNameClash = true
      ∧ pushFilters wNameClash = wNameClash := by
  decide

/-- `MATCH (a) OPTIONAL MATCH (a)-[]->(b) MATCH (b)-[]->(c) WHERE b.k0 = 2 …` (GQL): a join side
with an operator `collect_output_variables` does not know; `outputs_known` now keeps the filter
above such a join -/
def wUnknownSide : Plan :=
  .filter (eqE (.prop "b" "k0") (.lit (.int 2)))
    (.join .cross [] (.other "LeftJoin" "fp" ["b"]) (.scan "b" none))

theorem wUnknownSide_regression :
    eval wEnv wUnknownSide = [] ∧ wfPush wUnknownSide = true
      ∧ pushFilters wUnknownSide = wUnknownSide := by
  decide

/-! ### regression: the over-report through `Project` / `Return` (repaired by cc52572) -/

/-- `MATCH (a)-[]->(b) WITH a MATCH (c)-[]->(b) WHERE b.k0 = 2 RETURN a.k9, b.k9, c.k9` (Cypher):
before cc52572 everything below a `Project` was reported, so the predicate sank under the `Expand`
that binds the second `b` (3 rows without push-down, none with it); now `b` is not reported below
that `Expand` and the predicate stays. -/
def wRebind : Plan :=
  .ret false [(.prop "a" "k9", none), (.prop "b" "k9", none), (.prop "c" "k9", none)]
    (.filter (eqE (.prop "b" "k0") (.lit (.int 2)))
      (.expand (oneHop "c" "b")
        (.scanIn "c" none (.project [(.var "a", none)] (.expand (oneHop "a" "b") (.scan "a" none))))))

theorem wRebind_regression :
    (eval wEnv wRebind).length = 2 ∧ wfScope wRebind = true ∧ wfPush wRebind = true
      ∧ eval wEnv (pushFilters wRebind) = eval wEnv wRebind := by
  decide

/-- the same over-report in a join's left input (plan API only) -/
def wJoinOver : Plan :=
  .filter (eqE (.prop "b" "k0") (.lit (.int 2)))
    (.join .cross [] (.project [(.var "a", none)] (.expand (oneHop "a" "b") (.scan "a" none)))
      (.ret false [(.var "c", some "b")] (.scan "c" none)))

theorem wJoinOver_regression :
    (eval wEnv wJoinOver).length = 2 ∧ wfPush wJoinOver = true
      ∧ eval wEnv (pushFilters wJoinOver) = eval wEnv wJoinOver := by
  decide

/-! ### regression: the defects of the guards before the repair

Each plan is the plan of an accepted query text (except `wLeftJoin`, `wReturnAlias`); the OLD
rewrite (`pushFiltersOld`) changes its rows, the repaired one does not — it satisfies `wfPush`, so
`pushFilters_sound` applies, and the executed equality is stated as well. -/

/-- `MATCH (a), (b) MATCH (c) WHERE a.k0 = c.k0 RETURN a.k9, b.k9, c.k9` (GQL): the old
`collect_output_variables` did not visit `NodeScan.input` -/
def wScanIn : Plan :=
  .ret false [(.prop "a" "k9", none), (.prop "b" "k9", none), (.prop "c" "k9", none)]
    (.filter (eqE (.prop "a" "k0") (.prop "c" "k0"))
      (.join .cross [] (.scanIn "b" none (.scan "a" none)) (.scan "c" none)))

theorem wScanIn_regression :
    (eval wEnv wScanIn).length = 15 ∧ eval wEnv (pushFiltersOld wScanIn) = []
      ∧ wfPush wScanIn = true ∧ eval wEnv (pushFilters wScanIn) = eval wEnv wScanIn := by
  decide

/-- `MATCH p = (a)-[*1..2]->(b) WHERE length(p) = 1 RETURN a.k9, b.k9`: the old guard listed the
alias `p`, the predicate names the column `_path_length_p` -/
def wPathLen : Plan :=
  .ret false [(.prop "a" "k9", none), (.prop "b" "k9", none)]
    (.filter (eqE (.var "_path_length_p") (.lit (.int 1)))
      (.expand { src := "a", dst := "b", edge := none, dir := "out", ty := none, minHops := 1,
                 maxHops := some 2, alias := some "p" } (.scan "a" none)))

theorem wPathLen_regression :
    (eval wEnv wPathLen).length = 2 ∧ eval wEnv (pushFiltersOld wPathLen) = []
      ∧ wfPush wPathLen = true ∧ eval wEnv (pushFilters wPathLen) = eval wEnv wPathLen := by
  decide

/-- `MATCH (a)-[]->(b) WITH a WHERE b.k0 = 2 RETURN a.k9`: the old guard looked at aliases only -/
def wProject : Plan :=
  .ret false [(.prop "a" "k9", none)]
    (.filter (eqE (.prop "b" "k0") (.lit (.int 2)))
      (.project [(.var "a", none)] (.expand (oneHop "a" "b") (.scan "a" none))))

theorem wProject_regression :
    eval wEnv wProject = [] ∧ (eval wEnv (pushFiltersOld wProject)).length = 1
      ∧ wfPush wProject = true ∧ eval wEnv (pushFilters wProject) = eval wEnv wProject := by
  decide

/-- `MATCH (a)-[]->(b) WHERE EXISTS { MATCH (b)-[]->(z) } RETURN a.k9, b.k9` (GQL): a subquery
reports no variables; the repaired code does not move such a predicate at all -/
def wSubquery : Plan :=
  .ret false [(.prop "a" "k9", none), (.prop "b" "k9", none)]
    (.filter (.subq "exists" "fp") (.expand (oneHop "a" "b") (.scan "a" none)))

theorem wSubquery_regression :
    (eval wEnv wSubquery).length = 1 ∧ eval wEnv (pushFiltersOld wSubquery) = []
      ∧ wfPush wSubquery = true ∧ eval wEnv (pushFilters wSubquery) = eval wEnv wSubquery := by
  decide

/-- a filter on the optional side above `JoinType::Left` (plan API only) -/
def wLeftJoin : Plan :=
  .filter (eqE (.prop "b" "k9") (.lit (.int 10)))
    (.join .left [(.prop "a" "k0", .prop "b" "k0")] (.scan "a" none) (.scan "b" none))

theorem wLeftJoin_regression :
    (eval wEnv wLeftJoin).length = 1 ∧ (eval wEnv (pushFiltersOld wLeftJoin)).length = 3
      ∧ wfPush wLeftJoin = true ∧ eval wEnv (pushFilters wLeftJoin) = eval wEnv wLeftJoin := by
  decide

/-- `MATCH (a) RETURN a.k9 WHERE a.k0 = 1` (Cypher accepts a WHERE after RETURN): the old `Return`
case had no guard -/
def wReturnScope : Plan :=
  .filter (eqE (.prop "a" "k0") (.lit (.int 1))) (.ret false [(.prop "a" "k9", none)] (.scan "a" none))

theorem wReturnScope_regression :
    eval wEnv wReturnScope = [] ∧ (eval wEnv (pushFiltersOld wReturnScope)).length = 2
      ∧ wfPush wReturnScope = true ∧ eval wEnv (pushFilters wReturnScope) = eval wEnv wReturnScope := by
  decide

/-- the same with an alias that re-binds the predicate's variable (plan API only) -/
def wReturnAlias : Plan :=
  .filter (eqE (.prop "a" "k0") (.lit (.int 1))) (.ret false [(.prop "a" "k9", some "a")] (.scan "a" none))

theorem wReturnAlias_regression :
    eval wEnv wReturnAlias = [] ∧ (eval wEnv (pushFiltersOld wReturnAlias)).length = 2
      ∧ wfPush wReturnAlias = true ∧ eval wEnv (pushFilters wReturnAlias) = eval wEnv wReturnAlias := by
  decide

/-! ## non-vacuity: plans that satisfy the hypotheses and on which the rewrite does move filters -/

/-- `MATCH (a)-[]->(b) WHERE a.k0 = 1 RETURN a.k9, b.k9`: pushed below the `Expand` -/
def okExpand : Plan :=
  .ret false [(.prop "a" "k9", none), (.prop "b" "k9", none)]
    (.filter (eqE (.prop "a" "k0") (.lit (.int 1))) (.expand (oneHop "a" "b") (.scan "a" none)))

/-- `MATCH (a) MATCH (c) WHERE c.k0 = 2 RETURN a.k9, c.k9` (GQL): pushed into the right join input -/
def okJoinRight : Plan :=
  .ret false [(.prop "a" "k9", none), (.prop "c" "k9", none)]
    (.filter (eqE (.prop "c" "k0") (.lit (.int 2))) (.join .cross [] (.scan "a" none) (.scan "c" none)))

/-- `MATCH (a)-[]->(b) MATCH (c) WHERE a.k0 = 1 …`: pushed into the left input and below its `Expand` -/
def okJoinLeft : Plan :=
  .ret false [(.prop "a" "k9", none), (.prop "c" "k9", none)]
    (.filter (eqE (.prop "a" "k0") (.lit (.int 1)))
      (.join .cross [] (.expand (oneHop "a" "b") (.scan "a" none)) (.scan "c" none)))

/-- `MATCH (a)-[]->(b) WITH a, b.k0 AS x WHERE a.k0 = 1 RETURN a.k9, x`: through the `Project` -/
def okProject : Plan :=
  .ret false [(.prop "a" "k9", none), (.var "x", none)]
    (.filter (eqE (.prop "a" "k0") (.lit (.int 1)))
      (.project [(.var "a", none), (.prop "b" "k0", some "x")]
        (.expand (oneHop "a" "b") (.scan "a" none))))

theorem wfPush_nonvacuous :
    (wfScope okExpand = true ∧ wfPush okExpand = true ∧ pushFilters okExpand ≠ okExpand ∧ eval wEnv okExpand ≠ []) ∧
    (wfScope okJoinRight = true ∧ wfPush okJoinRight = true ∧ pushFilters okJoinRight ≠ okJoinRight ∧ eval wEnv okJoinRight ≠ []) ∧
    (wfScope okJoinLeft = true ∧ wfPush okJoinLeft = true ∧ pushFilters okJoinLeft ≠ okJoinLeft ∧ eval wEnv okJoinLeft ≠ []) ∧
    (wfScope okProject = true ∧ wfPush okProject = true ∧ pushFilters okProject ≠ okProject ∧ eval wEnv okProject ≠ []) := by
  decide

/-! ## join reordering: any reordering the checker accepts has the same rows

"Same" is up to the order of the rows and the order of the columns inside a row: a reordered join
tree concatenates its leaves' columns in another order. `CanonEq ra rb`: after re-laying every row
(`f`, `g` keep each variable's value), the two row lists are permutations of each other. Under a
`Return`/`Project` this is plain `List.Perm` (`joinCheck_perm_under_return`). -/

def RowEq (x y : Row) : Prop := ∀ v, x.get v = y.get v

def CanonEq (ra rb : List Row) : Prop :=
  ∃ f g : Row → Row, (ra.map f).Perm (rb.map g) ∧ (∀ ρ ∈ ra, RowEq (f ρ) ρ) ∧ (∀ ρ ∈ rb, RowEq (g ρ) ρ)

theorem CanonEq.refl (r : List Row) : CanonEq r r :=
  ⟨id, id, List.Perm.refl _, fun _ _ _ => rfl, fun _ _ _ => rfl⟩

theorem evalE_rowEq (env : Env) {e : Expr} (hl : e.local = true) {x y : Row} (h : RowEq x y) :
    evalE env x e = evalE env y e := by
  simp only [evalE, evalL_congr env e hl (fun v _ => h v)]

theorem keep_rowEq (env : Env) {e : Expr} (hl : e.local = true) {x y : Row} (h : RowEq x y) :
    keep env e x = keep env e y := by
  simp only [keep, evalE_rowEq env hl h]

theorem projRow_rowEq (env : Env) {items : List Item} (hl : itemsLocal items = true) {x y : Row}
    (h : RowEq x y) : projRow env items x = projRow env items y := by
  simp only [projRow]
  apply List.map_congr_left
  intro it hit
  have : it.1.local = true := List.all_eq_true.mp hl it hit
  rw [evalE_rowEq env this h]

/-! ### permutation lemmas -/

theorem perm_flatMap_pointwise {α β} (l : List α) (f g : α → List β) (h : ∀ a ∈ l, (f a).Perm (g a)) :
    (l.flatMap f).Perm (l.flatMap g) := by
  induction l with
  | nil => exact List.Perm.refl _
  | cons a l ih =>
    simp only [List.flatMap_cons]
    exact List.Perm.append (h a (List.mem_cons_self ..)) (ih (fun a ha => h a (List.mem_cons_of_mem _ ha)))

theorem flatMap_append_perm {α β} (l : List α) (f g : α → List β) :
    (l.flatMap (fun a => f a ++ g a)).Perm (l.flatMap f ++ l.flatMap g) := by
  induction l with
  | nil => exact List.Perm.refl _
  | cons a l ih =>
    simp only [List.flatMap_cons]
    have h1 : (f a ++ g a ++ List.flatMap (fun a => f a ++ g a) l).Perm
        (f a ++ g a ++ (List.flatMap f l ++ List.flatMap g l)) := List.Perm.append_left _ ih
    refine h1.trans ?_
    rw [List.append_assoc, List.append_assoc]
    apply List.Perm.append_left
    rw [← List.append_assoc, ← List.append_assoc]
    exact List.Perm.append_right _ List.perm_append_comm

theorem flatMap_swap_perm {α β γ} (A : List α) (B : List β) (F : α → β → List γ) :
    (A.flatMap (fun a => B.flatMap (fun b => F a b))).Perm (B.flatMap (fun b => A.flatMap (fun a => F a b))) := by
  induction A with
  | nil =>
    simp only [List.flatMap_nil]
    induction B with
    | nil => exact List.Perm.refl _
    | cons b B ihB => simp
  | cons a A ih =>
    simp only [List.flatMap_cons]
    exact (List.Perm.append_left _ ih).trans (flatMap_append_perm B (fun b => F a b) (fun b => A.flatMap (fun a => F a b))).symm

theorem removeFirst_perm {α} [DecidableEq α] {x : α} : ∀ {ys ys' : List α}, removeFirst x ys = some ys' →
    ys.Perm (x :: ys') := by
  intro ys
  induction ys with
  | nil => intro _ h; simp [removeFirst] at h
  | cons y ys ih =>
    intro ys' h
    simp only [removeFirst] at h
    split at h
    · rename_i hxy
      simp only [Option.some.injEq] at h
      subst h; subst hxy
      exact List.Perm.refl _
    · simp only [Option.map_eq_some_iff] at h
      obtain ⟨zs, hz, rfl⟩ := h
      exact ((ih hz).cons y).trans (List.Perm.swap x y zs)

theorem sameBag_perm {α} [DecidableEq α] : ∀ {xs ys : List α}, sameBag xs ys = true → xs.Perm ys := by
  intro xs
  induction xs with
  | nil =>
    intro ys h
    simp only [sameBag, List.isEmpty_iff] at h
    subst h; exact List.Perm.refl _
  | cons x xs ih =>
    intro ys h
    simp only [sameBag] at h
    split at h
    · rename_i ys' hr
      exact ((ih h).cons x).trans (removeFirst_perm hr).symm
    · simp at h

theorem nodupStr_nodup : ∀ {l : List String}, nodupStr l = true → l.Nodup := by
  intro l
  induction l with
  | nil => intro _; exact List.nodup_nil
  | cons x xs ih =>
    intro h
    simp only [nodupStr, Bool.and_eq_true, Bool.not_eq_true', List.contains_eq_mem,
      decide_eq_false_iff_not] at h
    exact List.nodup_cons.mpr ⟨h.1, ih h.2⟩

/-! ### re-laying a row -/

theorem get_conform {C : List String} {v : String} (ρ : Row) (h : v ∈ C) : (conform C ρ).get v = ρ.get v := by
  induction C with
  | nil => simp at h
  | cons c C ih =>
    by_cases hc : c = v
    · simp [conform, Row.get, look, hc]
    · have hv : v ∈ C := by
        simp only [List.mem_cons] at h
        rcases h with h | h
        · exact absurd h.symm hc
        · exact h
      have := ih hv
      simp only [conform, Row.get] at this
      simp [conform, Row.get, look, hc, this]

theorem conform_congr {C : List String} {x y : Row} (h : ∀ v ∈ C, x.get v = y.get v) :
    conform C x = conform C y := by
  simp only [conform]
  apply List.map_congr_left
  intro c hc
  rw [h c hc]

/-- a row whose columns are exactly (any arrangement of) `C` keeps every binding when re-laid -/
theorem rowEq_conform {C : List String} {ρ : Row} (h : ∀ v, v ∈ keys ρ → v ∈ C) :
    RowEq (conform C ρ) ρ := by
  intro v
  by_cases hv : v ∈ C
  · exact get_conform ρ hv
  · have h1 : v ∉ keys (conform C ρ) := by rw [keys_conform]; exact hv
    have h2 : v ∉ keys ρ := fun hk => hv (h v hk)
    rw [get_of_not_mem h1, get_of_not_mem h2]

theorem get_append (a b : Row) (v : String) :
    (a ++ b).get v = if v ∈ keys a then a.get v else b.get v := by
  split
  · rename_i h; exact get_append_of_mem b h
  · rename_i h; exact get_append_of_not_mem b h

/-! ### the product of the leaves -/

/-- rows of the cross product of a list of plans, columns concatenated in list order -/
def prod (env : Env) : List Plan → List Row
  | [] => [[]]
  | p :: ps => (eval env p).flatMap (fun a => (prod env ps).map (fun b => a ++ b))

theorem keys_prod (env : Env) : ∀ (ls : List Plan) (ρ : Row), ρ ∈ prod env ls → keys ρ = leafCols ls := by
  intro ls
  induction ls with
  | nil => intro ρ h; simp only [prod, List.mem_singleton] at h; subst h; rfl
  | cons p ps ih =>
    intro ρ h
    simp only [prod, List.mem_flatMap, List.mem_map] at h
    obtain ⟨a, ha, b, hb, rfl⟩ := h
    rw [keys_append, keys_eval env p a ha, ih b hb]
    simp [leafCols]

theorem prod_append (env : Env) : ∀ xs ys : List Plan,
    prod env (xs ++ ys) = (prod env xs).flatMap (fun a => (prod env ys).map (fun b => a ++ b)) := by
  intro xs ys
  induction xs with
  | nil => simp [prod]
  | cons p ps ih =>
    simp only [List.cons_append, prod, ih, List.flatMap_assoc, List.map_flatMap, List.flatMap_map,
      List.map_map]
    apply flatMap_congr'
    intro a _
    apply flatMap_congr'
    intro b _
    apply List.map_congr_left
    intro c _
    simp [List.append_assoc]

theorem leafCols_append (xs ys : List Plan) : leafCols (xs ++ ys) = leafCols xs ++ leafCols ys := by
  simp [leafCols]

theorem leafCols_perm {l1 l2 : List Plan} (h : l1.Perm l2) : (leafCols l1).Perm (leafCols l2) :=
  List.Perm.flatMap_right _ h

theorem prod_perm_conform (env : Env) (C : List String) : ∀ {l1 l2 : List Plan}, l1.Perm l2 →
    (leafCols l1).Nodup → ((prod env l1).map (conform C)).Perm ((prod env l2).map (conform C)) := by
  intro l1 l2 h
  induction h with
  | nil => intro _; exact List.Perm.refl _
  | @cons x l1' l2' _ ih =>
    intro hn
    have hn' : (leafCols l1').Nodup := by
      simp only [leafCols, List.flatMap_cons] at hn
      exact (List.nodup_append.mp hn).2.1
    have ih' := ih hn'
    simp only [prod, List.map_flatMap, List.map_map]
    apply perm_flatMap_pointwise
    intro a _
    have e : ∀ l : List Row, List.map (conform C ∘ fun b => a ++ b) l =
        (l.map (conform C)).map (fun b => conform C (a ++ b)) := by
      intro l
      rw [List.map_map]
      apply List.map_congr_left
      intro b _
      simp only [Function.comp_def]
      apply conform_congr
      intro v hv
      rw [get_append, get_append]
      split
      · rfl
      · exact (get_conform b hv).symm
    rw [e, e]
    exact ih'.map _
  | swap x y l =>
    intro hn
    simp only [prod, List.map_flatMap, List.map_map]
    -- rows of `y` and `x` have disjoint columns
    have hdis : ∀ b ∈ eval env y, ∀ a ∈ eval env x, ∀ v, v ∈ keys b → v ∉ keys a := by
      intro b hb a ha v hvb hva
      rw [keys_eval env y b hb] at hvb
      rw [keys_eval env x a ha] at hva
      simp only [leafCols, List.flatMap_cons] at hn
      have := (List.nodup_append.mp hn).2.2 v hvb v (List.mem_append_left _ hva)
      exact this rfl
    refine (perm_flatMap_pointwise _ _ _ ?_).trans (flatMap_swap_perm (eval env y) (eval env x)
      (fun b a => (prod env l).map (fun c => conform C (a ++ (b ++ c)))))
    intro b hb
    apply perm_flatMap_pointwise
    intro a ha
    have : List.map (conform C ∘ (fun b_1 => b ++ b_1) ∘ fun b => a ++ b) (prod env l) =
        (prod env l).map (fun c => conform C (a ++ (b ++ c))) := by
      apply List.map_congr_left
      intro c _
      simp only [Function.comp_def]
      apply conform_congr
      intro v _
      simp only [get_append]
      by_cases h1 : v ∈ keys b
      · have h2 : v ∉ keys a := hdis b hb a ha v h1
        simp [h1, h2]
      · simp [h1]
    rw [this]
  | trans h1 _ ih1 ih2 =>
    intro hn
    exact (ih1 hn).trans (ih2 ((leafCols_perm h1).nodup_iff.mp hn))

/-! ### a join tree is the filtered product of its leaves -/

theorem condsHold_append (env : Env) (c1 c2 : List (Expr × Expr)) (ρ : Row) :
    condsHold env (c1 ++ c2) ρ = (condsHold env c1 ρ && condsHold env c2 ρ) := by
  simp [condsHold, List.all_append]

theorem condsHold_congr (env : Env) {cs : List (Expr × Expr)} {r1 r2 : Row}
    (h : ∀ c ∈ cs, condLocal c = true ∧ Agree (condVars c) r1 r2) :
    condsHold env cs r1 = condsHold env cs r2 := by
  simp only [condsHold]
  induction cs with
  | nil => rfl
  | cons c cs ih =>
    have hc := h c (List.mem_cons_self ..)
    simp only [condLocal, Bool.and_eq_true] at hc
    have e1 : evalE env r1 c.1 = evalE env r2 c.1 := by
      simp only [evalE, evalL_congr env c.1 hc.1.1 (hc.2.mono (by intro v hv; simp [condVars, hv]))]
    have e2 : evalE env r1 c.2 = evalE env r2 c.2 := by
      simp only [evalE, evalL_congr env c.2 hc.1.2 (hc.2.mono (by intro v hv; simp [condVars, hv]))]
    simp only [List.all_cons, e1, e2, ih (fun c hc => h c (List.mem_cons_of_mem _ hc))]

theorem condsHold_perm (env : Env) {c1 c2 : List (Expr × Expr)} (h : c1.Perm c2) (ρ : Row) :
    condsHold env c1 ρ = condsHold env c2 ρ := by
  simp only [condsHold]
  induction h with
  | nil => rfl
  | cons x _ ih => simp only [List.all_cons, ih]
  | swap x y l => simp only [List.all_cons]; rw [← Bool.and_assoc, ← Bool.and_assoc, Bool.and_comm (_ == _)]
  | trans _ _ ih1 ih2 => rw [ih1, ih2]

/-- inner/cross join tree or leaf -/
theorem joinTree_cases (T : Plan) :
    (∃ cs l r, (T = .join .inner cs l r ∨ T = .join .cross cs l r)) ∨
    (joinLeaves T = [T] ∧ joinConds T = [] ∧ condsScoped T = true) := by
  cases T with
  | join ty cs l r =>
    cases ty
    case inner => exact Or.inl ⟨cs, l, r, Or.inl rfl⟩
    case cross => exact Or.inl ⟨cs, l, r, Or.inr rfl⟩
    all_goals exact Or.inr ⟨rfl, rfl, rfl⟩
  | _ => exact Or.inr ⟨rfl, rfl, rfl⟩

theorem leafCols_joinLeaves : ∀ T : Plan, leafCols (joinLeaves T) = cols T := by
  intro T
  induction T with
  | join ty cs l r ihl ihr =>
    cases ty
    case inner => simp only [joinLeaves, leafCols_append, ihl, ihr, cols]
    case cross => simp only [joinLeaves, leafCols_append, ihl, ihr, cols]
    all_goals simp [joinLeaves, leafCols]
  | _ => simp [joinLeaves, leafCols]

/-- every condition of a scoped join tree is subquery-free and speaks about the tree's columns -/
theorem conds_scoped : ∀ T : Plan, condsScoped T = true →
    ∀ c ∈ joinConds T, condLocal c = true ∧ ∀ v ∈ condVars c, v ∈ cols T := by
  intro T
  induction T with
  | join ty cs l r ihl ihr =>
    intro hs c hc
    have key : ty = .inner ∨ ty = .cross →
        (cs.all (fun c => condLocal c && (condVars c).all (fun v => (cols l ++ cols r).contains v))
          && condsScoped l && condsScoped r) = true →
        c ∈ cs ++ joinConds l ++ joinConds r →
        condLocal c = true ∧ ∀ v ∈ condVars c, v ∈ cols l ++ cols r := by
      intro _ hs hc
      simp only [Bool.and_eq_true] at hs
      obtain ⟨⟨h1, h2⟩, h3⟩ := hs
      simp only [List.mem_append] at hc
      rcases hc with (hc | hc) | hc
      · have := List.all_eq_true.mp h1 c hc
        simp only [Bool.and_eq_true] at this
        refine ⟨this.1, fun v hv => ?_⟩
        have := List.all_eq_true.mp this.2 v hv
        simpa using this
      · have := ihl h2 c hc
        exact ⟨this.1, fun v hv => List.mem_append_left _ (this.2 v hv)⟩
      · have := ihr h3 c hc
        exact ⟨this.1, fun v hv => List.mem_append_right _ (this.2 v hv)⟩
    cases ty
    case inner => exact key (Or.inl rfl) hs hc
    case cross => exact key (Or.inr rfl) hs hc
    all_goals simp [joinConds] at hc
  | _ => intro _ c hc; simp [joinConds] at hc

theorem filter_flatMap_if {α β} (X : List α) (q : α → Bool) (F G : α → List β)
    (h : ∀ a ∈ X, (if q a = true then F a else []) = G a) : (X.filter q).flatMap F = X.flatMap G := by
  induction X with
  | nil => rfl
  | cons a X ih =>
    have ha := h a (List.mem_cons_self ..)
    have ih' := ih (fun a ha => h a (List.mem_cons_of_mem _ ha))
    by_cases hq : q a = true
    · simp only [hq, if_true] at ha
      simp only [List.filter_cons, hq, if_true, List.flatMap_cons, ha, ih']
    · have hg : G a = [] := by rw [← ha]; simp [hq]
      simp only [List.filter_cons, hq, List.flatMap_cons, hg, List.nil_append]
      simpa using ih'

theorem leaf_flat (env : Env) (T : Plan) :
    eval env T = (prod env [T]).filter (condsHold env []) := by
  have h1 : ∀ l : List Row, l.flatMap (fun a => List.map (fun b => a ++ b) [[]]) = l := by
    intro l
    induction l with
    | nil => rfl
    | cons a l ih => simp only [List.flatMap_cons, ih]; simp
  simp only [prod, h1]
  exact (List.filter_eq_self.mpr (fun _ _ => rfl)).symm

theorem joinTree_flat (env : Env) : ∀ T : Plan, condsScoped T = true → (leafCols (joinLeaves T)).Nodup →
    eval env T = (prod env (joinLeaves T)).filter (condsHold env (joinConds T)) := by
  intro T
  induction T with
  | join ty cs l r ihl ihr =>
    intro hs hn
    have key : ty = .inner ∨ ty = .cross → joinLeaves (.join ty cs l r) = joinLeaves l ++ joinLeaves r →
        joinConds (.join ty cs l r) = cs ++ joinConds l ++ joinConds r →
        (cs.all (fun c => condLocal c && (condVars c).all (fun v => (cols l ++ cols r).contains v))
          && condsScoped l && condsScoped r) = true →
        eval env (.join ty cs l r) = (eval env l).flatMap (fun a => matchRows env cs a (eval env r)) →
        eval env (.join ty cs l r) =
          (prod env (joinLeaves (.join ty cs l r))).filter (condsHold env (joinConds (.join ty cs l r))) := by
      intro _ hL hC hs hev
      rw [hL] at hn ⊢
      rw [hC, hev]
      simp only [Bool.and_eq_true] at hs
      obtain ⟨⟨h1, h2⟩, h3⟩ := hs
      rw [leafCols_append] at hn
      obtain ⟨hnl, hnr, hdis⟩ := List.nodup_append.mp hn
      rw [ihl h2 hnl, ihr h3 hnr, prod_append, List.filter_flatMap]
      apply filter_flatMap_if
      intro a ha
      have hka : keys a = cols l := by rw [keys_prod env _ a ha, leafCols_joinLeaves]
      -- the three groups of conditions on a concatenated row
      have hP : ∀ b ∈ prod env (joinLeaves r),
          condsHold env (cs ++ joinConds l ++ joinConds r) (a ++ b) =
            (condsHold env cs (a ++ b) && condsHold env (joinConds l) a && condsHold env (joinConds r) b) := by
        intro b hb
        have hkb : keys b = cols r := by rw [keys_prod env _ b hb, leafCols_joinLeaves]
        have e1 : condsHold env (joinConds l) (a ++ b) = condsHold env (joinConds l) a := by
          apply condsHold_congr
          intro c hc
          have := conds_scoped l h2 c hc
          refine ⟨this.1, agree_append_left (fun v hv => Or.inl ?_)⟩
          rw [hka]; exact this.2 v hv
        have e2 : condsHold env (joinConds r) (a ++ b) = condsHold env (joinConds r) b := by
          apply condsHold_congr
          intro c hc
          have := conds_scoped r h3 c hc
          refine ⟨this.1, agree_append_right (fun v hv hva => ?_)⟩
          rw [hka, ← leafCols_joinLeaves] at hva
          have hvr := this.2 v hv
          rw [← leafCols_joinLeaves] at hvr
          exact hdis v hva v hvr rfl
        rw [condsHold_append, condsHold_append, e1, e2]
      split
      · rename_i hq
        simp only [matchRows, List.filter_filter, List.filter_map]
        congr 1
        apply List.filter_congr
        intro b hb
        simp only [Function.comp_def, hP b hb, hq, Bool.and_true]
      · rename_i hq
        symm
        simp only [List.filter_map, List.map_eq_nil_iff, List.filter_eq_nil_iff]
        intro b hb
        simp only [Function.comp_def, hP b hb]
        simp only [Bool.not_eq_true] at hq
        simp [hq]
    cases ty
    case inner =>
      exact key (Or.inl rfl) rfl rfl hs (by simp only [eval, joinRows]; rfl)
    case cross =>
      exact key (Or.inr rfl) rfl rfl hs (by simp only [eval, joinRows]; rfl)
    all_goals
      simp only [joinLeaves, joinConds]
      exact leaf_flat env _
  | _ =>
    intro _ _
    simp only [joinLeaves, joinConds]
    exact leaf_flat env _

/-! ### the checker is sound -/

theorem insertSorted_perm (le : Row → Row → Bool) (x : Row) (l : List Row) :
    (insertSorted le x l).Perm (x :: l) := by
  induction l with
  | nil => exact List.Perm.refl _
  | cons y ys ih =>
    simp only [insertSorted]
    split
    · exact List.Perm.refl _
    · exact (ih.cons y).trans (List.Perm.swap x y ys)

theorem sortRows_perm (le : Row → Row → Bool) (l : List Row) : (sortRows le l).Perm l := by
  induction l with
  | nil => exact List.Perm.refl _
  | cons x xs ih =>
    simp only [sortRows, List.foldr_cons]
    exact (insertSorted_perm le x _).trans (ih.cons x)

theorem canonEq_map_proj (env : Env) {items : List Item} (hl : itemsLocal items = true)
    {ra rb : List Row} (h : CanonEq ra rb) :
    (ra.map (projRow env items)).Perm (rb.map (projRow env items)) := by
  obtain ⟨f, g, hp, hf, hg⟩ := h
  have e1 : ra.map (projRow env items) = (ra.map f).map (projRow env items) := by
    rw [List.map_map]
    apply List.map_congr_left
    intro ρ hρ
    exact (projRow_rowEq env hl (hf ρ hρ)).symm
  have e2 : rb.map (projRow env items) = (rb.map g).map (projRow env items) := by
    rw [List.map_map]
    apply List.map_congr_left
    intro ρ hρ
    exact (projRow_rowEq env hl (hg ρ hρ)).symm
  rw [e1, e2]
  exact hp.map _

theorem canonEq_of_perm {ra rb : List Row} (h : ra.Perm rb) : CanonEq ra rb :=
  ⟨id, id, by simpa using h, fun _ _ _ => rfl, fun _ _ _ => rfl⟩

theorem canonEq_filter (env : Env) {pred : Expr} (hl : pred.local = true) {ra rb : List Row}
    (h : CanonEq ra rb) : CanonEq (ra.filter (keep env pred)) (rb.filter (keep env pred)) := by
  obtain ⟨f, g, hp, hf, hg⟩ := h
  refine ⟨f, g, ?_, fun ρ hρ => hf ρ (List.mem_filter.mp hρ).1, fun ρ hρ => hg ρ (List.mem_filter.mp hρ).1⟩
  have e : ∀ (k : Row → Row) (l : List Row), (∀ ρ ∈ l, RowEq (k ρ) ρ) →
      (l.filter (keep env pred)).map k = (l.map k).filter (keep env pred) := by
    intro k l hk
    rw [List.filter_map]
    congr 1
    apply List.filter_congr
    intro ρ hρ
    exact (keep_rowEq env hl (hk ρ hρ)).symm
  rw [e f ra hf, e g rb hg]
  exact hp.filter _

theorem canonEq_sort (le : Row → Row → Bool) {ra rb : List Row} (h : CanonEq ra rb) (le' : Row → Row → Bool) :
    CanonEq (sortRows le ra) (sortRows le' rb) := by
  obtain ⟨f, g, hp, hf, hg⟩ := h
  refine ⟨f, g, ?_, fun ρ hρ => hf ρ (mem_sortRows hρ), fun ρ hρ => hg ρ (mem_sortRows hρ)⟩
  exact (((sortRows_perm le ra).map f).trans hp).trans ((sortRows_perm le' rb).map g).symm

/-- **C09, join reordering, one join tree.** If the checker accepts `after` as a reordering of the
inner/cross join tree `before` (same bag of leaves, same bag of conditions, every condition placed
where its variables are bound, no column name bound twice), both have the same rows up to row
order and column order — for every graph and every interpretation. -/
theorem joinTree_sound (env : Env) {before after : Plan} (h : joinTreeCheck before after = none) :
    CanonEq (eval env after) (eval env before) := by
  unfold joinTreeCheck at h
  split at h; · simp at h
  rename_i h1
  split at h; · simp at h
  rename_i h2
  split at h; · simp at h
  rename_i h3
  split at h; · simp at h
  rename_i h4
  split at h; · simp at h
  rename_i h5
  simp only [Bool.not_eq_true, Bool.not_eq_false'] at h1 h2 h3 h4 h5
  have pl : (joinLeaves before).Perm (joinLeaves after) := sameBag_perm h1
  have pc : (joinConds before).Perm (joinConds after) := sameBag_perm h2
  have nb : (leafCols (joinLeaves before)).Nodup := nodupStr_nodup h5
  have na : (leafCols (joinLeaves after)).Nodup := (leafCols_perm pl).nodup_iff.mp nb
  have hcols : ∀ v, v ∈ cols after ↔ v ∈ cols before := by
    intro v
    rw [← leafCols_joinLeaves, ← leafCols_joinLeaves]
    exact ((leafCols_perm pl).mem_iff).symm
  refine ⟨conform (cols before), conform (cols before), ?_, ?_, ?_⟩
  · rw [joinTree_flat env after h4 na, joinTree_flat env before h3 nb]
    -- conditions read the same bindings on a re-laid row
    have hc : ∀ ρ : Row, condsHold env (joinConds after) ρ =
        condsHold env (joinConds before) (conform (cols before) ρ) := by
      intro ρ
      rw [← condsHold_perm env pc ρ]
      apply condsHold_congr
      intro c hc
      have := conds_scoped before h3 c hc
      exact ⟨this.1, fun v hv => (get_conform ρ (this.2 v hv)).symm⟩
    have hc' : ∀ ρ : Row, condsHold env (joinConds before) ρ =
        condsHold env (joinConds before) (conform (cols before) ρ) := by
      intro ρ
      apply condsHold_congr
      intro c hc
      have := conds_scoped before h3 c hc
      exact ⟨this.1, fun v hv => (get_conform ρ (this.2 v hv)).symm⟩
    have e : ∀ (l : List Row) (q : Row → Bool),
        (∀ ρ, q ρ = condsHold env (joinConds before) (conform (cols before) ρ)) →
        (l.filter q).map (conform (cols before)) =
          (l.map (conform (cols before))).filter (condsHold env (joinConds before)) := by
      intro l q hq
      rw [List.filter_map]
      congr 1
      apply List.filter_congr
      intro ρ _
      exact hq ρ
    rw [e _ _ hc, e _ _ hc']
    exact ((prod_perm_conform env (cols before) pl nb).symm).filter _
  · intro ρ hρ
    apply rowEq_conform
    intro v hv
    rw [keys_eval env after ρ hρ] at hv
    exact (hcols v).mp hv
  · intro ρ hρ
    apply rowEq_conform
    intro v hv
    rw [keys_eval env before ρ hρ] at hv
    exact hv

theorem joinCheckCtx_sound (env : Env) : ∀ before after : Plan, joinCheckCtx before after = none →
    CanonEq (eval env after) (eval env before) := by
  intro before after
  fun_induction joinCheckCtx before after with
  | case1 d items i d' items' i' hc ih =>
    intro h
    obtain ⟨hd, hd', hi, hl⟩ := hc
    subst hd; subst hd'; subst hi
    simp only [eval, Bool.false_eq_true, if_false]
    exact canonEq_of_perm (canonEq_map_proj env hl (ih h))
  | case2 => intro h; simp at h
  | case3 items i items' i' hc ih =>
    intro h
    obtain ⟨hi, hl⟩ := hc
    subst hi
    simp only [eval]
    exact canonEq_of_perm (canonEq_map_proj env hl (ih h))
  | case4 => intro h; simp at h
  | case5 p i p' i' hc ih =>
    intro h
    obtain ⟨hp, hl⟩ := hc
    subst hp
    simp only [eval]
    exact canonEq_filter env hl (ih h)
  | case6 => intro h; simp at h
  | case7 i k' i' ih =>
    intro h
    simp only [eval]
    exact canonEq_sort _ (ih h) _
  | case8 => intro h; simp at h
  | case9 b a _ _ _ _ hr =>
    intro h
    exact joinTree_sound env h
  | case10 => intro h; simp at h

/-- **C09, join reordering (partial: inner/cross join trees below Return / Project / Filter / Sort).**
Whatever `reorder_joins` answers — with any statistics, any cost model — if the checker accepts the
answer then it has the same rows as the plan it was given, up to row order and column order. -/
theorem joinCheck_sound (env : Env) (before after : Plan) (h : joinCheck before after = none) :
    CanonEq (eval env after) (eval env before) := by
  unfold joinCheck at h
  split at h
  · rename_i he; subst he; exact CanonEq.refl _
  · exact joinCheckCtx_sound env before after h

/-- under a `Return` (or `Project`) the column order is fixed again: plain multiset equality -/
theorem joinCheck_perm_under_return (env : Env) (items : List Item) (b a : Plan)
    (hl : itemsLocal items = true) (h : joinCheck b a = none) :
    (eval env (.ret false items a)).Perm (eval env (.ret false items b)) := by
  simp only [eval, Bool.false_eq_true, if_false]
  exact canonEq_map_proj env hl (joinCheck_sound env b a h)

/-! ### what `reorder_joins` really answers (outputs of the real optimizer, replayed in corpus/C09) -/

def jcond : Expr × Expr := (.prop "a" "k0", .prop "b" "k0")

/-- accepted: `Join(a, b)` → `Join(b, a)` -/
theorem joinCheck_nonvacuous :
    joinCheck (.join .inner [jcond] (.scan "a" none) (.scan "b" none))
        (.join .inner [jcond] (.scan "b" none) (.scan "a" none)) = none
      ∧ (.join .inner [jcond] (.scan "a" none) (.scan "b" none) : Plan)
          ≠ .join .inner [jcond] (.scan "b" none) (.scan "a" none) := by
  decide

/-- `reorder_joins` (real output): the filter under the join is **dropped** —
`collect_join_tree` looks through a `Filter` and registers the scan below it as the relation. -/
def wReorderBefore : Plan :=
  .join .inner [jcond] (.filter (eqE (.prop "a" "k9") (.lit (.int 0))) (.scan "a" none)) (.scan "b" none)

def wReorderAfter : Plan := .join .inner [jcond] (.scan "b" none) (.scan "a" none)

theorem wReorder_witness :
    joinCheck wReorderBefore wReorderAfter = some "leaves"
      ∧ (eval wEnv wReorderBefore).length = 2 ∧ (eval wEnv wReorderAfter).length = 5 := by
  decide

/-- `reorder_joins` (real output): a LEFT join comes back as an inner join -/
theorem wReorderLeft_witness :
    joinCheck (.join .left [(.var "a", .var "b")] (.scan "a" (some "L0")) (.scan "b" (some "L1")))
        (.join .inner [(.var "a", .var "b")] (.scan "b" (some "L1")) (.scan "a" (some "L0"))) = some "shape"
      ∧ (eval wEnv (.join .left [(.var "a", .var "b")] (.scan "a" (some "L0")) (.scan "b" (some "L1")))).length = 2
      ∧ (eval wEnv (.join .inner [(.var "a", .var "b")] (.scan "b" (some "L1")) (.scan "a" (some "L0")))).length = 0 := by
  decide

/-! ## all 2³ switch sets, any statistics

`Optimizer::optimize` = filter push-down if `f`; then `reorder_joins` if `j`; then projection
push-down if `pj`. Join reordering is the only pass that reads statistics (cardinality estimator,
cost model); it enters here as an **arbitrary** function `reorder` — whatever the estimator holds,
fresh, stale or nothing — of which only the checker's verdict on its answer is assumed. -/

def optimize (reorder : Plan → Plan) (f j pj : Bool) (p : Plan) : Plan :=
  let p1 := if f then pushFilters p else p
  let p2 := if j then reorder p1 else p1
  if pj then pushProjections p2 else p2

theorem optimize_sound (env : Env) (reorder : Plan → Plan) (f j pj : Bool) (p : Plan)
    (hwf : f = true → wfPush p = true)
    (hj : j = true → joinCheck (if f then pushFilters p else p) (reorder (if f then pushFilters p else p)) = none) :
    CanonEq (eval env (optimize reorder f j pj p)) (eval env p) := by
  have h1 : eval env (if f then pushFilters p else p) = eval env p := by
    cases f
    · rfl
    · exact pushFilters_sound env p (hwf rfl)
  have h2 : CanonEq (eval env (if j then reorder (if f then pushFilters p else p) else (if f then pushFilters p else p)))
      (eval env p) := by
    cases j
    · simp only [Bool.false_eq_true, if_false, h1]; exact CanonEq.refl _
    · simp only [if_true]
      rw [← h1]
      exact joinCheck_sound env _ _ (hj rfl)
  unfold optimize
  cases pj
  · simpa using h2
  · simp only [if_true, pushProjections_id]
    simpa using h2

/-- with join reordering off (or answering its input, as it does on every plan the GQL and Cypher
translators emit: they never produce a join condition, and DPccp builds no cross products) the
answer is the same row **list** under all four remaining switch sets -/
theorem optimize_sound_identity_reorder (env : Env) (f j pj : Bool) (p : Plan) (hwf : wfPush p = true) :
    eval env (optimize id f j pj p) = eval env p := by
  cases f <;> cases j <;> cases pj <;>
    simp [optimize, pushProjections_id, pushFilters_sound env p hwf]

/-- the same under the plan-wide condition `wfScope` -/
theorem optimize_sound_of_wfScope (env : Env) (f j pj : Bool) (p : Plan) (h : wfScope p = true) :
    eval env (optimize id f j pj p) = eval env p :=
  optimize_sound_identity_reorder env f j pj p (wfPush_of_wfScope p h)

end Grafeo.Plan
