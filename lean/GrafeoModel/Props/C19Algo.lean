import GrafeoModel.Proofs.Algo2Lemmas
import GrafeoModel.Proofs.Algo2Kahn
/-!
C19, stream `alg2` — theorems about the executable models of the algorithms' own code
(`Model/Algo2.lean`; the driver runs exactly these `def`s).

* `bfs` (queue loop of `bfs_with_visitor`): the result lists exactly the nodes reachable from the
  start, each once — for every edge list and start; the fuel `|es| + 1` is never exhausted
  (it is part of the proof: `bfsLoop_spec`).
* `UnionFind` (`find` with path compression, `union` by rank): under the invariant `UFInv`
  (established by `new`, kept by `find` and `union`) `find` returns the representative and does not
  change any class; `union x y` merges exactly the classes of `x` and `y`; `connected` answers
  class equality.  The fuel `rank.sum + 1` is never exhausted (`findF_spec`).
* `connected_components`: after all `union` calls two nodes have the same representative iff they
  are connected in the undirected graph.
-/
namespace Grafeo.Algo2
open Grafeo.Graph

/-! ### BFS -/

/-- **F (BFS)**: for every edge list and every start node, the model of `bfs` returns exactly the
nodes reachable from the start, each once. -/
theorem c19a_bfs_exact (n : Nat) (es : List Edge) (s : Nat) (hs : s < n) :
    (∀ v, v ∈ bfs n es s ↔ Reach es s v) ∧ (bfs n es s).Nodup := by
  have inv0 : BInv es s [] [s] := by
    refine ⟨by simp, ?_, by simp, by simp, by simp⟩
    intro x hx
    have : x = s := by simpa using hx
    exact this ▸ Reach.refl es s
  obtain ⟨h1, h2, h3, h4⟩ := bfsLoop_spec es s (es.length + 1) [] [s] inv0 (by simp)
  simp only [List.nil_append] at h1 h2 h3 h4
  simp only [bfs, hs, if_true]
  refine ⟨fun v => ⟨h2 v, ?_⟩, h1⟩
  rintro ⟨c, hw⟩
  induction hw with
  | nil => exact h3
  | snoc _ he ih => exact h4 _ ih _ (mem_adj.mpr ⟨_, he⟩)

/-- the first discovered node is the start -/
theorem c19a_bfs_not_a_node (n : Nat) (es : List Edge) (s : Nat) (hs : ¬ s < n) :
    bfs n es s = [] := by simp [bfs, hs]

/-- the result is accepted by the closure half of the proved-sound checker `checkReachOrder` -/
theorem c19a_bfs_closed (n : Nat) (es : List Edge) (s : Nat) (hs : s < n) :
    closedUnder es (bfs n es s) = true :=
  c19_reach_closed_complete_partial es s _ (c19a_bfs_exact n es s hs).1

/-! ### union-find -/

theorem get_range (n x : Nat) : get (List.range n) x = x := by
  unfold get
  by_cases h : x < n
  · simp [List.getD_eq_getElem?_getD, h]
  · simp [List.getD_eq_getElem?_getD, h]

/-- **F** `UnionFind::new(n)` satisfies the invariant and every node is its own class -/
theorem c19a_uf_new (n : Nat) : UFInv n (UF.new n) ∧ ∀ a b, Same (UF.new n).parent a b ↔ a = b := by
  constructor
  · refine ⟨by simp [UF.new], by simp [UF.new], ?_, ?_⟩
    · intro x hx; show get (List.range n) x < n; rw [get_range]; exact hx
    · intro x hx; exact absurd (get_range n x) hx
  · intro a b
    have key : ∀ y r, Rep (List.range n) y r → r = y := by
      intro y r h
      cases h with
      | root _ => rfl
      | step hne _ => exact absurd (get_range n y) hne
    constructor
    · rintro ⟨r, h1, h2⟩
      have := key a r h1
      have := key b r h2
      omega
    · intro e
      subst e
      exact ⟨a, Rep.root (get_range n a), Rep.root (get_range n a)⟩

/-- **F** `find` (with path compression, any node): returns the representative, keeps the
invariant, and no node changes its representative -/
theorem c19a_find_sound (n : Nat) (u : UF) (inv : UFInv n u) (x : Nat) :
    Rep u.parent x (u.find x).2 ∧ UFInv n (u.find x).1 ∧
      ∀ y q, Rep u.parent y q ↔ Rep (u.find x).1.parent y q := by
  obtain ⟨r, h1, h2, h3, h4⟩ := find_spec inv x
  exact ⟨h2 ▸ h1, h3, h4⟩

/-- **F** `union` (by rank): keeps the invariant and merges exactly the classes of `x` and `y` -/
theorem c19a_union_merges (n : Nat) (u : UF) (inv : UFInv n u) (x y : Nat) (hx : x < n)
    (hy : y < n) :
    UFInv n (u.union x y).1 ∧ ∀ a b, Same (u.union x y).1.parent a b ↔
      (Same u.parent a b ∨ (Same u.parent a x ∧ Same u.parent y b) ∨
        (Same u.parent a y ∧ Same u.parent x b)) :=
  union_spec inv x y hx hy

/-- **F** `connected` answers "same class" -/
theorem c19a_connected_iff (n : Nat) (u : UF) (inv : UFInv n u) (x y : Nat) :
    (u.connected x y).2 = true ↔ Same u.parent x y := by
  obtain ⟨rx, hrx, ex, inv1, eq1⟩ := find_spec inv x
  obtain ⟨ry, hry, ey, _, _⟩ := find_spec inv1 y
  have hry' : Rep u.parent y ry := (eq1 y ry).mpr hry
  simp only [UF.connected, ex, ey, beq_iff_eq]
  constructor
  · intro e; subst e; exact ⟨rx, hrx, hry'⟩
  · rintro ⟨r, h1, h2⟩
    have := h1.func hrx
    have := h2.func hry'
    omega

/-! ### connected components -/

theorem reach_nil (a b : Nat) : Reach (sym []) a b ↔ a = b := by
  constructor
  · rintro ⟨c, hw⟩
    cases hw with
    | nil => rfl
    | snoc _ he => simp [sym] at he
  · intro e; exact e ▸ Reach.refl _ a

theorem mem_sym_snoc {es : List Edge} {e f : Edge} :
    f ∈ sym (es ++ [e]) ↔ f ∈ sym es ∨ f = e ∨ f = flip e := by
  simp only [sym, List.map_append, List.mem_append, List.map_cons, List.map_nil,
    List.mem_singleton]
  constructor
  · rintro ((h | h) | (h | h))
    · exact Or.inl (Or.inl h)
    · exact Or.inr (Or.inl h)
    · exact Or.inl (Or.inr h)
    · exact Or.inr (Or.inr h)
  · rintro ((h | h) | h | h)
    · exact Or.inl (Or.inl h)
    · exact Or.inr (Or.inl h)
    · exact Or.inl (Or.inr h)
    · exact Or.inr (Or.inr h)

/-- adding one undirected edge to a graph merges exactly the connectivity classes of its ends -/
theorem reach_sym_snoc (es : List Edge) (x y : Nat) (w : Int) (a b : Nat) :
    Reach (sym (es ++ [(x, y, w)])) a b ↔
      (Reach (sym es) a b ∨ (Reach (sym es) a x ∧ Reach (sym es) y b) ∨
        (Reach (sym es) a y ∧ Reach (sym es) x b)) := by
  have up : ∀ {u v}, Reach (sym es) u v → Reach (sym (es ++ [(x, y, w)])) u v := by
    rintro u v ⟨c, hw⟩
    exact ⟨c, Walk.mono (fun e he => mem_sym_snoc.mpr (Or.inl he)) hw⟩
  have exy : Reach (sym (es ++ [(x, y, w)])) x y :=
    ⟨_, Walk.single (mem_sym_snoc.mpr (Or.inr (Or.inl rfl)))⟩
  have eyx : Reach (sym (es ++ [(x, y, w)])) y x :=
    ⟨_, Walk.single (w := w) (mem_sym_snoc.mpr (Or.inr (Or.inr rfl)))⟩
  constructor
  · rintro ⟨c, hw⟩
    induction hw with
    | nil => exact Or.inl (Reach.refl _ a)
    | @snoc v z c w' _ he ih =>
      rcases mem_sym_snoc.mp he with h | h | h
      · have st : Reach (sym es) v z := ⟨_, Walk.single h⟩
        rcases ih with h1 | ⟨h1, h2⟩ | ⟨h1, h2⟩
        · exact Or.inl (h1.trans st)
        · exact Or.inr (Or.inl ⟨h1, h2.trans st⟩)
        · exact Or.inr (Or.inr ⟨h1, h2.trans st⟩)
      · simp only [Prod.mk.injEq] at h
        obtain ⟨rfl, rfl, _⟩ := h
        rcases ih with h1 | ⟨h1, _⟩ | ⟨h1, _⟩
        · exact Or.inr (Or.inl ⟨h1, Reach.refl _ _⟩)
        · exact Or.inr (Or.inl ⟨h1, Reach.refl _ _⟩)
        · exact Or.inl h1
      · simp only [Graph.flip, Prod.mk.injEq] at h
        obtain ⟨rfl, rfl, _⟩ := h
        rcases ih with h1 | ⟨h1, _⟩ | ⟨h1, _⟩
        · exact Or.inr (Or.inr ⟨h1, Reach.refl _ _⟩)
        · exact Or.inl h1
        · exact Or.inr (Or.inr ⟨h1, Reach.refl _ _⟩)
  · rintro (h | ⟨h1, h2⟩ | ⟨h1, h2⟩)
    · exact up h
    · exact ((up h1).trans exy).trans (up h2)
    · exact ((up h1).trans eyx).trans (up h2)

def toE (p : Nat × Nat) : Edge := (p.1, p.2, 0)

/-- **F** any sequence of `union` calls on in-range pairs: the classes of the forest are the
connectivity classes of the undirected graph of the pairs processed so far -/
theorem c19a_unionAll_classes (n : Nat) : ∀ (ps : List (Nat × Nat)) (u : UF) (done : List Edge),
    UFInv n u → (∀ p ∈ ps, p.1 < n ∧ p.2 < n) →
    (∀ a b, Same u.parent a b ↔ Reach (sym done) a b) →
    UFInv n (unionAll u ps) ∧
      ∀ a b, Same (unionAll u ps).parent a b ↔ Reach (sym (done ++ ps.map toE)) a b := by
  intro ps
  induction ps with
  | nil => intro u done inv _ h; simpa [unionAll] using ⟨inv, h⟩
  | cons p ps ih =>
    intro u done inv hr h
    have hp := hr p (by simp)
    obtain ⟨inv', hm⟩ := union_spec inv p.1 p.2 hp.1 hp.2
    have := ih (u.union p.1 p.2).1 (done ++ [toE p]) inv'
      (fun q hq => hr q (List.mem_cons_of_mem _ hq)) (by
        intro a b
        rw [hm a b, toE, reach_sym_snoc done p.1 p.2 0 a b]
        simp only [h])
    simpa [unionAll] using this

theorem reach_congr {E1 E2 : List Edge}
    (hsub : ∀ u v w, (u, v, w) ∈ E1 → ∃ w', (u, v, w') ∈ E2) {a b : Nat}
    (h : Reach E1 a b) : Reach E2 a b := by
  obtain ⟨c, hw⟩ := h
  induction hw with
  | nil => exact Reach.refl _ _
  | snoc _ he ih =>
    obtain ⟨w', hw'⟩ := hsub _ _ _ he
    exact ih.step hw'

theorem mem_inc {es : List Edge} {u v : Nat} : v ∈ inc es u ↔ ∃ w, (v, u, w) ∈ es := by
  unfold inc
  constructor
  · intro h
    obtain ⟨e, he, hv⟩ := List.mem_map.mp h
    obtain ⟨he1, he2⟩ := List.mem_filter.mp he
    obtain ⟨a, b, c⟩ := e
    simp only [beq_iff_eq] at he2
    simp only at hv
    subst he2; subst hv
    exact ⟨c, he1⟩
  · rintro ⟨w, hw⟩
    exact List.mem_map.mpr ⟨(v, u, w), List.mem_filter.mpr ⟨hw, by simp⟩, rfl⟩

theorem mem_ccPairs {n : Nat} {es : List Edge} {u v : Nat} :
    (u, v) ∈ ccPairs n es ↔ u < n ∧ ((∃ w, (u, v, w) ∈ es) ∨ ∃ w, (v, u, w) ∈ es) := by
  unfold ccPairs
  simp only [List.mem_flatMap, List.mem_range, List.mem_append, List.mem_map, Prod.mk.injEq]
  constructor
  · rintro ⟨a, ha, (⟨b, hb, rfl, rfl⟩ | ⟨b, hb, rfl, rfl⟩)⟩
    · exact ⟨ha, Or.inl (mem_adj.mp hb)⟩
    · exact ⟨ha, Or.inr (mem_inc.mp hb)⟩
  · rintro ⟨hu, (h | h)⟩
    · exact ⟨u, hu, Or.inl ⟨v, mem_adj.mpr h, rfl, rfl⟩⟩
    · exact ⟨u, hu, Or.inr ⟨v, mem_inc.mpr h, rfl, rfl⟩⟩

/-- **F (connected components)**: for every graph whose edges join nodes `< n`, after the
`union` calls of `connected_components` two nodes have the same representative iff they are
connected in the undirected graph; the union-find invariant holds (so every later `find` is
covered by `c19a_find_sound`). -/
theorem c19a_components_exact (n : Nat) (es : List Edge)
    (wf : ∀ e ∈ es, e.1 < n ∧ e.2.1 < n) :
    UFInv n (ccUF n es) ∧ ∀ a b, Same (ccUF n es).parent a b ↔ Reach (sym es) a b := by
  obtain ⟨inv0, h0⟩ := c19a_uf_new n
  have hr : ∀ p ∈ ccPairs n es, p.1 < n ∧ p.2 < n := by
    rintro ⟨u, v⟩ hp
    obtain ⟨hu, (⟨w, hw⟩ | ⟨w, hw⟩)⟩ := mem_ccPairs.mp hp
    · exact ⟨hu, (wf _ hw).2⟩
    · exact ⟨hu, (wf _ hw).1⟩
  obtain ⟨inv, h⟩ := c19a_unionAll_classes n (ccPairs n es) (UF.new n) [] inv0 hr
    (fun a b => (h0 a b).trans (reach_nil a b).symm)
  refine ⟨inv, fun a b => (h a b).trans ⟨reach_congr ?_, reach_congr ?_⟩⟩
  · intro u v w he
    simp only [List.nil_append] at he
    rcases mem_sym.mp he with h1 | h1
    · obtain ⟨q, hq, e⟩ := List.mem_map.mp h1
      simp only [toE, Prod.mk.injEq] at e
      obtain ⟨rfl, rfl, _⟩ := e
      obtain ⟨_, (⟨w', hw'⟩ | ⟨w', hw'⟩)⟩ := mem_ccPairs.mp (by simpa using hq : (q.1, q.2) ∈ ccPairs n es)
      · exact ⟨w', mem_sym.mpr (Or.inl hw')⟩
      · exact ⟨w', mem_sym.mpr (Or.inr hw')⟩
    · obtain ⟨q, hq, e⟩ := List.mem_map.mp h1
      simp only [toE, Prod.mk.injEq] at e
      obtain ⟨rfl, rfl, _⟩ := e
      obtain ⟨_, (⟨w', hw'⟩ | ⟨w', hw'⟩)⟩ := mem_ccPairs.mp (by simpa using hq : (q.1, q.2) ∈ ccPairs n es)
      · exact ⟨w', mem_sym.mpr (Or.inr hw')⟩
      · exact ⟨w', mem_sym.mpr (Or.inl hw')⟩
  · intro u v w he
    simp only [List.nil_append]
    refine ⟨0, mem_sym.mpr (Or.inl (List.mem_map.mpr ⟨(u, v), mem_ccPairs.mpr ?_, rfl⟩))⟩
    rcases mem_sym.mp he with h1 | h1
    · exact ⟨(wf _ h1).1, Or.inl ⟨w, h1⟩⟩
    · exact ⟨(wf _ h1).2, Or.inr ⟨w, h1⟩⟩

/-! ### Kahn topological sort -/

/-- **F (Kahn, soundness, any initial stack)**: for every graph with edges between nodes `< n` and
every duplicate-free initial stack of nodes of in-degree 0 (the real code takes them in hash-map
iteration order — any order is covered), an order returned by the model of `topological_sort` is
accepted by the proved-sound checker `checkTopo`: a permutation of `0..n-1` in which every edge
goes forward (`c19_topo_sound`). No fuel assumption is needed: the final `len == n` test rejects
an incomplete run. -/
theorem c19a_kahn_sound (n : Nat) (es : List Edge) (wf : ∀ e ∈ es, e.1 < n ∧ e.2.1 < n)
    (init order : List Nat) (hin : init.Nodup)
    (hi0 : ∀ v ∈ init, v < n ∧ get0 (inDegrees n es) v = 0)
    (h : kahnFrom n es init = some order) : checkTopo es n order = true := by
  unfold kahnFrom at h
  by_cases hn : n = 0
  · subst hn
    simp only [beq_self_eq_true, if_true, Option.some.injEq] at h
    subst h
    have : es = [] := by
      cases es with
      | nil => rfl
      | cons e t => exact absurd (wf e (by simp)).1 (Nat.not_lt_zero _)
    subst this
    simp [checkTopo]
  · have hb : (n == 0) = false := by simpa using hn
    simp only [hb, Bool.false_eq_true, if_false] at h
    obtain ⟨hlen, hex⟩ := inDegrees_spec n es wf
    have inv0 : KInv es n (inDegrees n es) init [] := by
      refine ⟨hlen, hex, by simpa using hin, hi0, by simp, by simp⟩
    obtain ⟨k1, k2, k3⟩ := kahnLoop_spec es n wf (n + 1) _ _ _ inv0
    split at h
    · rename_i hl
      simp only [Option.some.injEq] at h
      subst h
      have hl' : (kahnLoop es (n + 1) (inDegrees n es) init []).length = n := by simpa using hl
      have full := fun v hv => nodup_full k1 k2 hl' (v := v) hv
      simp only [checkTopo, Bool.and_eq_true, decide_eq_true_eq, List.all_eq_true,
        List.mem_range, List.contains_iff_mem]
      refine ⟨⟨⟨k1, k2⟩, full⟩, ?_⟩
      intro e he
      exact (k3 e he (full _ (wf e he).2)).2
    · cases h

/-- the model's own initial stack (ascending node order) satisfies the hypotheses -/
theorem c19a_kahn_accepted (n : Nat) (es : List Edge) (wf : ∀ e ∈ es, e.1 < n ∧ e.2.1 < n)
    (order : List Nat) (h : kahn n es = some order) : checkTopo es n order = true := by
  refine c19a_kahn_sound n es wf (kahnInit n (inDegrees n es)) order ?_ ?_ h
  · unfold kahnInit
    unfold List.Nodup
    rw [List.pairwise_reverse]
    exact ((List.nodup_range (n := n)).imp (fun h => Ne.symm h)).filter _
  · intro v hv
    unfold kahnInit at hv
    simp only [List.mem_reverse, List.mem_filter, List.mem_range, beq_iff_eq] at hv
    refine ⟨hv.1, ?_⟩
    have hl := (inDegrees_spec n es wf).1
    unfold get0
    have : v < (inDegrees n es).length := by rw [hl]; exact hv.1
    have e1 : (inDegrees n es).getD v 1 = (inDegrees n es)[v] := by
      simp [List.getD_eq_getElem?_getD, this]
    have e0 : (inDegrees n es).getD v 0 = (inDegrees n es)[v] := by
      simp [List.getD_eq_getElem?_getD, this]
    rw [e0, ← e1]; exact hv.2

theorem kahnInit_spec (n : Nat) (es : List Edge) (wf : ∀ e ∈ es, e.1 < n ∧ e.2.1 < n) (v : Nat) :
    v ∈ kahnInit n (inDegrees n es) ↔ v < n ∧ get0 (inDegrees n es) v = 0 := by
  unfold kahnInit
  simp only [List.mem_reverse, List.mem_filter, List.mem_range, beq_iff_eq]
  constructor
  · rintro ⟨h1, h2⟩
    refine ⟨h1, ?_⟩
    have hl := (inDegrees_spec n es wf).1
    have : v < (inDegrees n es).length := by rw [hl]; exact h1
    unfold get0
    have e1 : (inDegrees n es).getD v 1 = (inDegrees n es)[v] := by
      simp [List.getD_eq_getElem?_getD, this]
    have e0 : (inDegrees n es).getD v 0 = (inDegrees n es)[v] := by
      simp [List.getD_eq_getElem?_getD, this]
    rw [e0, ← e1]; exact h2
  · rintro ⟨h1, h2⟩
    refine ⟨h1, ?_⟩
    have hl := (inDegrees_spec n es wf).1
    have : v < (inDegrees n es).length := by rw [hl]; exact h1
    unfold get0 at h2
    have e1 : (inDegrees n es).getD v 1 = (inDegrees n es)[v] := by
      simp [List.getD_eq_getElem?_getD, this]
    have e0 : (inDegrees n es).getD v 0 = (inDegrees n es)[v] := by
      simp [List.getD_eq_getElem?_getD, this]
    rw [e1, ← e0]; exact h2

/-- **F (Kahn, `None`)**: when the model of `topological_sort` reports a cycle, the nodes it placed
(`res`, fewer than `n`) leave a non-empty rest in which every node has an in-edge from the rest —
so no topological order can continue, and following such in-edges backwards must repeat a node.
(The last step, extracting the closed walk `Cyclic es`, is not formalised; the stream certifies a
concrete cycle per line with `checkCycle`.) The fuel `n + 1` is shown to suffice. -/
theorem c19a_kahn_none_stuck (n : Nat) (es : List Edge) (wf : ∀ e ∈ es, e.1 < n ∧ e.2.1 < n)
    (h : kahn n es = none) :
    ∃ res : List Nat, res.Nodup ∧ (∀ v ∈ res, v < n) ∧ res.length < n ∧
      ∀ v, v < n → v ∉ res → ∃ e ∈ es, e.2.1 = v ∧ e.1 ∉ res := by
  unfold kahn kahnFrom at h
  by_cases hn : (n == 0) = true
  · simp [hn] at h
  · simp only [hn, Bool.false_eq_true, if_false] at h
    obtain ⟨hlen, hex⟩ := inDegrees_spec n es wf
    have inv0 : KInv es n (inDegrees n es) (kahnInit n (inDegrees n es)) [] := by
      refine ⟨hlen, hex, ?_, fun v hv => (kahnInit_spec n es wf v).mp hv, by simp, by simp⟩
      simp only [List.nil_append]
      unfold kahnInit List.Nodup
      rw [List.pairwise_reverse]
      exact ((List.nodup_range (n := n)).imp (fun h => Ne.symm h)).filter _
    have hc0 : KComp n (inDegrees n es) (kahnInit n (inDegrees n es)) [] :=
      fun v hv _ h0 => (kahnInit_spec n es wf v).mpr ⟨hv, h0⟩
    obtain ⟨k1, k2, _⟩ := kahnLoop_spec es n wf (n + 1) _ _ _ inv0
    have stuck := kahnLoop_stuck es n wf (n + 1) _ _ _ inv0 hc0 (by simp)
    split at h
    · cases h
    · rename_i hl
      have hle := nodup_length_le _ (List.range n) k1 (fun x hx => List.mem_range.mpr (k2 x hx))
      simp only [List.length_range] at hle
      have hne : (kahnLoop es (n + 1) (inDegrees n es) (kahnInit n (inDegrees n es)) []).length ≠ n := by
        simpa using hl
      refine ⟨_, k1, k2, by omega, ?_⟩
      intro v hv hvr
      have := stuck v hv hvr
      unfold inE at this
      obtain ⟨e, he, hp⟩ := List.countP_pos_iff.mp this
      simp only [Bool.and_eq_true, beq_iff_eq, Bool.not_eq_true', List.contains_eq_mem,
        decide_eq_false_iff_not] at hp
      exact ⟨e, he, hp.1, hp.2⟩

/-! ### Kruskal -/

/-- a forest, built edge by edge: every new edge joins two nodes that were not yet connected
(so no edge ever closes a cycle) -/
inductive Forest : List Edge → Prop
  | nil : Forest []
  | snoc {t : List Edge} {e : Edge} : Forest t → ¬ Reach (sym t) e.1 e.2.1 → Forest (t ++ [e])

theorem find2_same {n : Nat} {u : UF} (inv : UFInv n u) (x y : Nat) :
    UFInv n ((u.find x).1.find y).1 ∧
    (∀ a b, Same ((u.find x).1.find y).1.parent a b ↔ Same u.parent a b) ∧
    ((u.find x).2 = ((u.find x).1.find y).2 ↔ Same u.parent x y) := by
  obtain ⟨rx, hrx, ex, inv1, eq1⟩ := find_spec inv x
  obtain ⟨ry, hry, ey, inv2, eq2⟩ := find_spec inv1 y
  have hry' : Rep u.parent y ry := (eq1 y ry).mpr hry
  refine ⟨inv2, ?_, ?_⟩
  · intro a b
    constructor
    · rintro ⟨r, h1, h2⟩
      exact ⟨r, (eq1 a r).mpr ((eq2 a r).mpr h1), (eq1 b r).mpr ((eq2 b r).mpr h2)⟩
    · rintro ⟨r, h1, h2⟩
      exact ⟨r, (eq2 a r).mp ((eq1 a r).mp h1), (eq2 b r).mp ((eq1 b r).mp h2)⟩
  · rw [ex, ey]
    constructor
    · intro e; subst e; exact ⟨rx, hrx, hry'⟩
    · rintro ⟨r, h1, h2⟩
      have := h1.func hrx
      have := h2.func hry'
      omega

theorem reach_sym_mono {t t' : List Edge} (h : ∀ e ∈ t, e ∈ t') {a b : Nat}
    (hr : Reach (sym t) a b) : Reach (sym t') a b := by
  obtain ⟨c, hw⟩ := hr
  refine ⟨c, Walk.mono ?_ hw⟩
  intro e he
  obtain ⟨x, y, w⟩ := e
  rcases mem_sym.mp he with h1 | h1
  · exact mem_sym.mpr (Or.inl (h _ h1))
  · exact mem_sym.mpr (Or.inr (h _ h1))

/-- the loop of `kruskal`: the chosen edges stay a forest of input edges whose classes are the
union-find classes; unless the `n - 1` break fired, every scanned edge ends up inside one tree -/
theorem kruskalLoop_spec (n : Nat) : ∀ (edges : List Edge) (u : UF) (mst : List Edge) (tot : Int),
    UFInv n u → (∀ a b, Same u.parent a b ↔ Reach (sym mst) a b) → Forest mst →
    (∀ e ∈ edges, e.1 < n ∧ e.2.1 < n) →
    Forest (kruskalLoop n u edges mst tot).1 ∧
    (∀ f ∈ (kruskalLoop n u edges mst tot).1, f ∈ mst ∨ f ∈ edges) ∧
    (∀ f ∈ mst, f ∈ (kruskalLoop n u edges mst tot).1) ∧
    ((kruskalLoop n u edges mst tot).1.length ≠ n - 1 →
      ∀ f ∈ edges, Reach (sym (kruskalLoop n u edges mst tot).1) f.1 f.2.1) := by
  intro edges
  induction edges with
  | nil =>
    intro u mst tot _ _ hf _
    simp only [kruskalLoop]
    exact ⟨hf, fun f h => Or.inl h, fun f h => h, fun _ f h => by cases h⟩
  | cons e rest ih =>
    intro u mst tot inv hcls hf hr
    have he := hr e (by simp)
    have hrest : ∀ f ∈ rest, f.1 < n ∧ f.2.1 < n := fun f h => hr f (List.mem_cons_of_mem _ h)
    obtain ⟨inv2, same2, hdec⟩ := find2_same inv e.1 e.2.1
    by_cases hsame : Same u.parent e.1 e.2.1
    · -- skipped
      have hne : ((u.find e.1).2 != ((u.find e.1).1.find e.2.1).2) = false := by
        simpa using hdec.mpr hsame
      have hk : kruskalLoop n u (e :: rest) mst tot =
          kruskalLoop n ((u.find e.1).1.find e.2.1).1 rest mst tot := by
        simp only [kruskalLoop, hne]; simp
      rw [hk]
      obtain ⟨h1, h2, h3, h4⟩ := ih _ mst tot inv2 (fun a b => (same2 a b).trans (hcls a b)) hf hrest
      refine ⟨h1, ?_, h3, ?_⟩
      · intro f hfm
        rcases h2 f hfm with h | h
        · exact Or.inl h
        · exact Or.inr (List.mem_cons_of_mem _ h)
      · intro hl f hfm
        rcases List.mem_cons.mp hfm with h | h
        · subst h
          exact reach_sym_mono h3 ((hcls _ _).mp hsame)
        · exact h4 hl f h
    · -- taken
      have hne : ((u.find e.1).2 != ((u.find e.1).1.find e.2.1).2) = true := by
        simpa using fun h => hsame (hdec.mp h)
      obtain ⟨inv3, hm⟩ := union_spec inv2 e.1 e.2.1 he.1 he.2
      have hnr : ¬ Reach (sym mst) e.1 e.2.1 := fun h => hsame ((hcls _ _).mpr h)
      have hf' : Forest (mst ++ [e]) := Forest.snoc hf hnr
      have hcls' : ∀ a b, Same ((((u.find e.1).1.find e.2.1).1.union e.1 e.2.1).1).parent a b ↔
          Reach (sym (mst ++ [e])) a b := by
        intro a b
        have := reach_sym_snoc mst e.1 e.2.1 e.2.2 a b
        rw [hm a b, this]
        simp only [same2, hcls]
      have hee : Reach (sym (mst ++ [e])) e.1 e.2.1 :=
        ⟨_, Walk.single (w := e.2.2) (mem_sym.mpr (Or.inl (by simp)))⟩
      by_cases hbrk : ((mst ++ [e]).length == n - 1) = true
      · have hk : kruskalLoop n u (e :: rest) mst tot = (mst ++ [e], tot + e.2.2) := by
          simp only [kruskalLoop, hne, if_true, hbrk]
        rw [hk]
        refine ⟨hf', ?_, fun f h => List.mem_append_left _ h, ?_⟩
        · intro f hfm
          rcases List.mem_append.mp hfm with h | h
          · exact Or.inl h
          · exact Or.inr (List.mem_cons.mpr (Or.inl (by simpa using h)))
        · intro hl
          exact absurd (by simpa using hbrk) hl
      · have hk : kruskalLoop n u (e :: rest) mst tot =
            kruskalLoop n (((u.find e.1).1.find e.2.1).1.union e.1 e.2.1).1 rest (mst ++ [e])
              (tot + e.2.2) := by
          simp only [kruskalLoop, hne, if_true, hbrk]; simp
        rw [hk]
        obtain ⟨h1, h2, h3, h4⟩ := ih _ (mst ++ [e]) (tot + e.2.2) inv3 hcls' hf' hrest
        refine ⟨h1, ?_, fun f h => h3 f (List.mem_append_left _ h), ?_⟩
        · intro f hfm
          rcases h2 f hfm with h | h
          · rcases List.mem_append.mp h with h | h
            · exact Or.inl h
            · exact Or.inr (List.mem_cons.mpr (Or.inl (by simpa using h)))
          · exact Or.inr (List.mem_cons_of_mem _ h)
        · intro hl f hfm
          rcases List.mem_cons.mp hfm with h | h
          · subst h
            exact reach_sym_mono h3 hee
          · exact h4 hl f h

theorem mem_insW {e f : Edge} : ∀ {l : List Edge}, f ∈ insW e l ↔ f = e ∨ f ∈ l := by
  intro l
  induction l with
  | nil => simp [insW]
  | cons x xs ih =>
    simp only [insW]
    split
    · simp
    · simp only [List.mem_cons, ih]
      constructor
      · rintro (h | h | h)
        · exact Or.inr (Or.inl h)
        · exact Or.inl h
        · exact Or.inr (Or.inr h)
      · rintro (h | h | h)
        · exact Or.inr (Or.inl h)
        · exact Or.inl h
        · exact Or.inr (Or.inr h)

theorem mem_sortW {f : Edge} {l : List Edge} : f ∈ sortW l ↔ f ∈ l := by
  unfold sortW
  have : ∀ (l acc : List Edge), f ∈ l.foldl (fun acc e => insW e acc) acc ↔ f ∈ acc ∨ f ∈ l := by
    intro l
    induction l with
    | nil => intro acc; simp
    | cons x xs ih =>
      intro acc
      simp only [List.foldl_cons, ih, mem_insW, List.mem_cons]
      constructor
      · rintro ((h | h) | h)
        · exact Or.inr (Or.inl h)
        · exact Or.inl h
        · exact Or.inr (Or.inr h)
      · rintro (h | h | h)
        · exact Or.inl (Or.inr h)
        · exact Or.inl (Or.inl h)
        · exact Or.inr h
  simpa using this l []

theorem mem_edgesByNode {n : Nat} {es : List Edge} {f : Edge} :
    f ∈ edgesByNode n es ↔ f.1 < n ∧ f ∈ es := by
  unfold edgesByNode outEdges
  simp only [List.mem_flatMap, List.mem_range, List.mem_filter, beq_iff_eq]
  constructor
  · rintro ⟨u, hu, hf, e⟩; exact ⟨e ▸ hu, hf⟩
  · rintro ⟨h1, h2⟩; exact ⟨f.1, h1, h2, rfl⟩

/-- **F (Kruskal, forest)**: for every graph with edges between nodes `< n`, the edges chosen by
the model of `kruskal` (sort + union-find, with the `n - 1` break) are input edges and form a
forest: each one joined two nodes not connected by the edges chosen before it. -/
theorem c19a_kruskal_forest (n : Nat) (es : List Edge) (wf : ∀ e ∈ es, e.1 < n ∧ e.2.1 < n) :
    Forest (kruskal n es).1 ∧ ∀ f ∈ (kruskal n es).1, f ∈ es := by
  unfold kruskal
  by_cases hn : (n == 0) = true
  · simp only [hn, if_true]; exact ⟨Forest.nil, fun f h => by cases h⟩
  · simp only [hn]
    obtain ⟨inv0, h0⟩ := c19a_uf_new n
    obtain ⟨h1, h2, _, _⟩ := kruskalLoop_spec n (sortW (edgesByNode n es)) (UF.new n) [] 0 inv0
      (fun a b => (h0 a b).trans (reach_nil a b).symm) Forest.nil
      (fun e he => wf e (mem_edgesByNode.mp (mem_sortW.mp he)).2)
    refine ⟨h1, fun f hf => ?_⟩
    rcases h2 f hf with h | h
    · cases h
    · exact (mem_edgesByNode.mp (mem_sortW.mp h)).2

/-- **P (Kruskal, spanning)**: when the run did not stop at the `n - 1` break, the forest connects
exactly what the graph connects.  Missing for the full statement: a forest with `n - 1` edges on
`n` nodes is connected (a counting argument), which is what justifies the break. -/
theorem c19a_kruskal_spans_partial (n : Nat) (es : List Edge)
    (wf : ∀ e ∈ es, e.1 < n ∧ e.2.1 < n) (hb : (kruskal n es).1.length ≠ n - 1) (a b : Nat) :
    Reach (sym (kruskal n es).1) a b ↔ Reach (sym es) a b := by
  constructor
  · exact reach_sym_mono (c19a_kruskal_forest n es wf).2
  · have key : ∀ f ∈ es, Reach (sym (kruskal n es).1) f.1 f.2.1 := by
      unfold kruskal at hb ⊢
      by_cases hn : (n == 0) = true
      · intro f hf
        have : n = 0 := by simpa using hn
        exact absurd (wf f hf).1 (by omega)
      · simp only [hn] at hb ⊢
        obtain ⟨inv0, h0⟩ := c19a_uf_new n
        obtain ⟨_, _, _, h4⟩ := kruskalLoop_spec n (sortW (edgesByNode n es)) (UF.new n) [] 0 inv0
          (fun a b => (h0 a b).trans (reach_nil a b).symm) Forest.nil
          (fun e he => wf e (mem_edgesByNode.mp (mem_sortW.mp he)).2)
        intro f hf
        exact h4 hb f (mem_sortW.mpr (mem_edgesByNode.mpr ⟨(wf f hf).1, hf⟩))
    rintro ⟨c, hw⟩
    induction hw with
    | nil => exact Reach.refl _ _
    | @snoc v z c w _ he ih =>
      rcases mem_sym.mp he with h | h
      · exact ih.trans (key _ h)
      · exact ih.trans (reach_sym_symm (key _ h))

/-! ### DFS -/

theorem dfsLoop_sound (es : List Edge) (s : Nat) : ∀ (fuel : Nat) (seen : List Nat)
    (st : List (Nat × List Nat)) (fin : List Nat),
    (∀ x ∈ seen, Reach es s x) → (∀ fr ∈ st, fr.1 ∈ seen ∧ ∀ y ∈ fr.2, y ∈ adj es fr.1) →
    (∀ x ∈ fin, x ∈ seen) → ∀ x ∈ dfsLoop es fuel seen st fin, Reach es s x := by
  intro fuel
  induction fuel with
  | zero => intro seen st fin h1 _ h3 x hx; exact h1 x (h3 x (by simpa [dfsLoop] using hx))
  | succ f ih =>
    intro seen st fin h1 h2 h3 x hx
    match st with
    | [] => exact h1 x (h3 x (by simpa [dfsLoop] using hx))
    | (u, []) :: st' =>
      simp only [dfsLoop] at hx
      refine ih seen st' (fin ++ [u]) h1 (fun fr h => h2 fr (List.mem_cons_of_mem _ h)) ?_ x hx
      intro y hy
      rcases List.mem_append.mp hy with h | h
      · exact h3 y h
      · have : y = u := by simpa using h
        exact this ▸ (h2 (u, []) (by simp)).1
    | (u, v :: vs) :: st' =>
      have hu := h2 (u, v :: vs) (by simp)
      simp only [dfsLoop] at hx
      split at hx
      · refine ih seen ((u, vs) :: st') fin h1 ?_ h3 x hx
        intro fr hfr
        rcases List.mem_cons.mp hfr with h | h
        · subst h; exact ⟨hu.1, fun y hy => hu.2 y (List.mem_cons_of_mem _ hy)⟩
        · exact h2 fr (List.mem_cons_of_mem _ h)
      · have hv : Reach es s v := by
          obtain ⟨w, hw⟩ := mem_adj.mp (hu.2 v (by simp))
          exact (h1 u hu.1).step hw
        refine ih (v :: seen) ((v, adj es v) :: (u, vs) :: st') fin ?_ ?_ ?_ x hx
        · intro y hy
          rcases List.mem_cons.mp hy with h | h
          · exact h ▸ hv
          · exact h1 y h
        · intro fr hfr
          rcases List.mem_cons.mp hfr with h | h
          · subst h; exact ⟨List.mem_cons_self, fun y hy => hy⟩
          · rcases List.mem_cons.mp h with h | h
            · subst h
              exact ⟨List.mem_cons_of_mem _ hu.1, fun y hy => hu.2 y (List.mem_cons_of_mem _ hy)⟩
            · exact ⟨List.mem_cons_of_mem _ (h2 fr (List.mem_cons_of_mem _ h)).1,
                (h2 fr (List.mem_cons_of_mem _ h)).2⟩
        · intro y hy; exact List.mem_cons_of_mem _ (h3 y hy)

/-- **F (DFS, soundness half)**: every node in the post-order returned by the model of `dfs` is
reachable from the start — for every graph; completeness (every reachable node is finished) is
validated per line against the certified BFS order, not yet proved. -/
theorem c19a_dfs_sound (n : Nat) (es : List Edge) (s : Nat) :
    ∀ x ∈ dfs n es s, Reach es s x := by
  intro x hx
  unfold dfs at hx
  split at hx
  · refine dfsLoop_sound es s _ [s] [(s, adj es s)] [] ?_ ?_ (by simp) x hx
    · intro y hy
      have : y = s := by simpa using hy
      exact this ▸ Reach.refl es s
    · intro fr hfr
      have : fr = (s, adj es s) := by simpa using hfr
      subst this
      exact ⟨by simp, fun y hy => hy⟩
  · cases hx

/-! ### non-vacuity and concrete runs (kernel-evaluated) -/

/-- a concrete run: discovery order, components, and a compressed `find` -/
theorem c19a_witness_runs :
    bfs 5 [(0, 2, 1), (0, 1, 1), (2, 3, 1), (1, 3, 1), (3, 4, 1), (4, 0, 1)] 0 = [0, 2, 1, 3, 4] ∧
    connectedComponents 4 [(0, 1, 1), (2, 3, 1)] = [0, 0, 1, 1] ∧
    ((unionAll (UF.new 4) [(0, 1), (2, 3), (1, 3)]).find 3).2 = 0 ∧
    kahn 3 [(0, 1, 1), (1, 2, 1), (2, 0, 1)] = none := by decide

end Grafeo.Algo2
