import GrafeoModel.Proofs.Algo2Lemmas
/-!
C19, stream `alg2` — theorems about the executable models of the algorithms' own code
(`Model/Algo2.lean`; the driver runs exactly these `def`s).

* `bfs` (queue loop of `bfs_with_visitor`): the result lists exactly the nodes reachable from the
  start, each once — for every edge list and start; the fuel `|es| + 1` is never exhausted
  (it is part of the proof: `bfsLoop_spec`).
* `UnionFind` (`find` with path compression, `union` by rank): under the invariant `UFInv`
  (established by `new`, kept by `find` and `union`) `find` returns the representative and does not
  change any class; `union x y` merges exactly the classes of `x` and `y`; `connected` answers
  class equality.  The fuel `rank.sum + 1` is never exhausted (`findF_spec`).
* `connected_components`: after all `union` calls two nodes have the same representative iff they
  are connected in the undirected graph.
-/
namespace Grafeo.Algo2
open Grafeo.Graph

/-! ### BFS -/

/-- **F (BFS)**: for every edge list and every start node, the model of `bfs` returns exactly the
nodes reachable from the start, each once. -/
theorem c19a_bfs_exact (n : Nat) (es : List Edge) (s : Nat) (hs : s < n) :
    (∀ v, v ∈ bfs n es s ↔ Reach es s v) ∧ (bfs n es s).Nodup := by
  have inv0 : BInv es s [] [s] := by
    refine ⟨by simp, ?_, by simp, by simp, by simp⟩
    intro x hx
    have : x = s := by simpa using hx
    exact this ▸ Reach.refl es s
  obtain ⟨h1, h2, h3, h4⟩ := bfsLoop_spec es s (es.length + 1) [] [s] inv0 (by simp)
  simp only [List.nil_append] at h1 h2 h3 h4
  simp only [bfs, hs, if_true]
  refine ⟨fun v => ⟨h2 v, ?_⟩, h1⟩
  rintro ⟨c, hw⟩
  induction hw with
  | nil => exact h3
  | snoc _ he ih => exact h4 _ ih _ (mem_adj.mpr ⟨_, he⟩)

/-- the first discovered node is the start -/
theorem c19a_bfs_not_a_node (n : Nat) (es : List Edge) (s : Nat) (hs : ¬ s < n) :
    bfs n es s = [] := by simp [bfs, hs]

/-- the result is accepted by the closure half of the proved-sound checker `checkReachOrder` -/
theorem c19a_bfs_closed (n : Nat) (es : List Edge) (s : Nat) (hs : s < n) :
    closedUnder es (bfs n es s) = true :=
  c19_reach_closed_complete_partial es s _ (c19a_bfs_exact n es s hs).1

/-! ### union-find -/

theorem get_range (n x : Nat) : get (List.range n) x = x := by
  unfold get
  by_cases h : x < n
  · simp [List.getD_eq_getElem?_getD, h]
  · simp [List.getD_eq_getElem?_getD, h]

/-- **F** `UnionFind::new(n)` satisfies the invariant and every node is its own class -/
theorem c19a_uf_new (n : Nat) : UFInv n (UF.new n) ∧ ∀ a b, Same (UF.new n).parent a b ↔ a = b := by
  constructor
  · refine ⟨by simp [UF.new], by simp [UF.new], ?_, ?_⟩
    · intro x hx; show get (List.range n) x < n; rw [get_range]; exact hx
    · intro x hx; exact absurd (get_range n x) hx
  · intro a b
    have key : ∀ y r, Rep (List.range n) y r → r = y := by
      intro y r h
      cases h with
      | root _ => rfl
      | step hne _ => exact absurd (get_range n y) hne
    constructor
    · rintro ⟨r, h1, h2⟩
      have := key a r h1
      have := key b r h2
      omega
    · intro e
      subst e
      exact ⟨a, Rep.root (get_range n a), Rep.root (get_range n a)⟩

/-- **F** `find` (with path compression, any node): returns the representative, keeps the
invariant, and no node changes its representative -/
theorem c19a_find_sound (n : Nat) (u : UF) (inv : UFInv n u) (x : Nat) :
    Rep u.parent x (u.find x).2 ∧ UFInv n (u.find x).1 ∧
      ∀ y q, Rep u.parent y q ↔ Rep (u.find x).1.parent y q := by
  obtain ⟨r, h1, h2, h3, h4⟩ := find_spec inv x
  exact ⟨h2 ▸ h1, h3, h4⟩

/-- **F** `union` (by rank): keeps the invariant and merges exactly the classes of `x` and `y` -/
theorem c19a_union_merges (n : Nat) (u : UF) (inv : UFInv n u) (x y : Nat) (hx : x < n)
    (hy : y < n) :
    UFInv n (u.union x y).1 ∧ ∀ a b, Same (u.union x y).1.parent a b ↔
      (Same u.parent a b ∨ (Same u.parent a x ∧ Same u.parent y b) ∨
        (Same u.parent a y ∧ Same u.parent x b)) :=
  union_spec inv x y hx hy

/-- **F** `connected` answers "same class" -/
theorem c19a_connected_iff (n : Nat) (u : UF) (inv : UFInv n u) (x y : Nat) :
    (u.connected x y).2 = true ↔ Same u.parent x y := by
  obtain ⟨rx, hrx, ex, inv1, eq1⟩ := find_spec inv x
  obtain ⟨ry, hry, ey, _, _⟩ := find_spec inv1 y
  have hry' : Rep u.parent y ry := (eq1 y ry).mpr hry
  simp only [UF.connected, ex, ey, beq_iff_eq]
  constructor
  · intro e; subst e; exact ⟨rx, hrx, hry'⟩
  · rintro ⟨r, h1, h2⟩
    have := h1.func hrx
    have := h2.func hry'
    omega

/-! ### connected components -/

theorem reach_nil (a b : Nat) : Reach (sym []) a b ↔ a = b := by
  constructor
  · rintro ⟨c, hw⟩
    cases hw with
    | nil => rfl
    | snoc _ he => simp [sym] at he
  · intro e; exact e ▸ Reach.refl _ a

theorem mem_sym_snoc {es : List Edge} {e f : Edge} :
    f ∈ sym (es ++ [e]) ↔ f ∈ sym es ∨ f = e ∨ f = flip e := by
  simp only [sym, List.map_append, List.mem_append, List.map_cons, List.map_nil,
    List.mem_singleton]
  constructor
  · rintro ((h | h) | (h | h))
    · exact Or.inl (Or.inl h)
    · exact Or.inr (Or.inl h)
    · exact Or.inl (Or.inr h)
    · exact Or.inr (Or.inr h)
  · rintro ((h | h) | h | h)
    · exact Or.inl (Or.inl h)
    · exact Or.inr (Or.inl h)
    · exact Or.inl (Or.inr h)
    · exact Or.inr (Or.inr h)

/-- adding one undirected edge to a graph merges exactly the connectivity classes of its ends -/
theorem reach_sym_snoc (es : List Edge) (x y : Nat) (w : Int) (a b : Nat) :
    Reach (sym (es ++ [(x, y, w)])) a b ↔
      (Reach (sym es) a b ∨ (Reach (sym es) a x ∧ Reach (sym es) y b) ∨
        (Reach (sym es) a y ∧ Reach (sym es) x b)) := by
  have up : ∀ {u v}, Reach (sym es) u v → Reach (sym (es ++ [(x, y, w)])) u v := by
    rintro u v ⟨c, hw⟩
    exact ⟨c, Walk.mono (fun e he => mem_sym_snoc.mpr (Or.inl he)) hw⟩
  have exy : Reach (sym (es ++ [(x, y, w)])) x y :=
    ⟨_, Walk.single (mem_sym_snoc.mpr (Or.inr (Or.inl rfl)))⟩
  have eyx : Reach (sym (es ++ [(x, y, w)])) y x :=
    ⟨_, Walk.single (w := w) (mem_sym_snoc.mpr (Or.inr (Or.inr rfl)))⟩
  constructor
  · rintro ⟨c, hw⟩
    induction hw with
    | nil => exact Or.inl (Reach.refl _ a)
    | @snoc v z c w' _ he ih =>
      rcases mem_sym_snoc.mp he with h | h | h
      · have st : Reach (sym es) v z := ⟨_, Walk.single h⟩
        rcases ih with h1 | ⟨h1, h2⟩ | ⟨h1, h2⟩
        · exact Or.inl (h1.trans st)
        · exact Or.inr (Or.inl ⟨h1, h2.trans st⟩)
        · exact Or.inr (Or.inr ⟨h1, h2.trans st⟩)
      · simp only [Prod.mk.injEq] at h
        obtain ⟨rfl, rfl, _⟩ := h
        rcases ih with h1 | ⟨h1, _⟩ | ⟨h1, _⟩
        · exact Or.inr (Or.inl ⟨h1, Reach.refl _ _⟩)
        · exact Or.inr (Or.inl ⟨h1, Reach.refl _ _⟩)
        · exact Or.inl h1
      · simp only [Graph.flip, Prod.mk.injEq] at h
        obtain ⟨rfl, rfl, _⟩ := h
        rcases ih with h1 | ⟨h1, _⟩ | ⟨h1, _⟩
        · exact Or.inr (Or.inr ⟨h1, Reach.refl _ _⟩)
        · exact Or.inl h1
        · exact Or.inr (Or.inr ⟨h1, Reach.refl _ _⟩)
  · rintro (h | ⟨h1, h2⟩ | ⟨h1, h2⟩)
    · exact up h
    · exact ((up h1).trans exy).trans (up h2)
    · exact ((up h1).trans eyx).trans (up h2)

def toE (p : Nat × Nat) : Edge := (p.1, p.2, 0)

/-- **F** any sequence of `union` calls on in-range pairs: the classes of the forest are the
connectivity classes of the undirected graph of the pairs processed so far -/
theorem c19a_unionAll_classes (n : Nat) : ∀ (ps : List (Nat × Nat)) (u : UF) (done : List Edge),
    UFInv n u → (∀ p ∈ ps, p.1 < n ∧ p.2 < n) →
    (∀ a b, Same u.parent a b ↔ Reach (sym done) a b) →
    UFInv n (unionAll u ps) ∧
      ∀ a b, Same (unionAll u ps).parent a b ↔ Reach (sym (done ++ ps.map toE)) a b := by
  intro ps
  induction ps with
  | nil => intro u done inv _ h; simpa [unionAll] using ⟨inv, h⟩
  | cons p ps ih =>
    intro u done inv hr h
    have hp := hr p (by simp)
    obtain ⟨inv', hm⟩ := union_spec inv p.1 p.2 hp.1 hp.2
    have := ih (u.union p.1 p.2).1 (done ++ [toE p]) inv'
      (fun q hq => hr q (List.mem_cons_of_mem _ hq)) (by
        intro a b
        rw [hm a b, toE, reach_sym_snoc done p.1 p.2 0 a b]
        simp only [h])
    simpa [unionAll] using this

theorem reach_congr {E1 E2 : List Edge}
    (hsub : ∀ u v w, (u, v, w) ∈ E1 → ∃ w', (u, v, w') ∈ E2) {a b : Nat}
    (h : Reach E1 a b) : Reach E2 a b := by
  obtain ⟨c, hw⟩ := h
  induction hw with
  | nil => exact Reach.refl _ _
  | snoc _ he ih =>
    obtain ⟨w', hw'⟩ := hsub _ _ _ he
    exact ih.step hw'

theorem mem_inc {es : List Edge} {u v : Nat} : v ∈ inc es u ↔ ∃ w, (v, u, w) ∈ es := by
  unfold inc
  constructor
  · intro h
    obtain ⟨e, he, hv⟩ := List.mem_map.mp h
    obtain ⟨he1, he2⟩ := List.mem_filter.mp he
    obtain ⟨a, b, c⟩ := e
    simp only [beq_iff_eq] at he2
    simp only at hv
    subst he2; subst hv
    exact ⟨c, he1⟩
  · rintro ⟨w, hw⟩
    exact List.mem_map.mpr ⟨(v, u, w), List.mem_filter.mpr ⟨hw, by simp⟩, rfl⟩

theorem mem_ccPairs {n : Nat} {es : List Edge} {u v : Nat} :
    (u, v) ∈ ccPairs n es ↔ u < n ∧ ((∃ w, (u, v, w) ∈ es) ∨ ∃ w, (v, u, w) ∈ es) := by
  unfold ccPairs
  simp only [List.mem_flatMap, List.mem_range, List.mem_append, List.mem_map, Prod.mk.injEq]
  constructor
  · rintro ⟨a, ha, (⟨b, hb, rfl, rfl⟩ | ⟨b, hb, rfl, rfl⟩)⟩
    · exact ⟨ha, Or.inl (mem_adj.mp hb)⟩
    · exact ⟨ha, Or.inr (mem_inc.mp hb)⟩
  · rintro ⟨hu, (h | h)⟩
    · exact ⟨u, hu, Or.inl ⟨v, mem_adj.mpr h, rfl, rfl⟩⟩
    · exact ⟨u, hu, Or.inr ⟨v, mem_inc.mpr h, rfl, rfl⟩⟩

/-- **F (connected components)**: for every graph whose edges join nodes `< n`, after the
`union` calls of `connected_components` two nodes have the same representative iff they are
connected in the undirected graph; the union-find invariant holds (so every later `find` is
covered by `c19a_find_sound`). -/
theorem c19a_components_exact (n : Nat) (es : List Edge)
    (wf : ∀ e ∈ es, e.1 < n ∧ e.2.1 < n) :
    UFInv n (ccUF n es) ∧ ∀ a b, Same (ccUF n es).parent a b ↔ Reach (sym es) a b := by
  obtain ⟨inv0, h0⟩ := c19a_uf_new n
  have hr : ∀ p ∈ ccPairs n es, p.1 < n ∧ p.2 < n := by
    rintro ⟨u, v⟩ hp
    obtain ⟨hu, (⟨w, hw⟩ | ⟨w, hw⟩)⟩ := mem_ccPairs.mp hp
    · exact ⟨hu, (wf _ hw).2⟩
    · exact ⟨hu, (wf _ hw).1⟩
  obtain ⟨inv, h⟩ := c19a_unionAll_classes n (ccPairs n es) (UF.new n) [] inv0 hr
    (fun a b => (h0 a b).trans (reach_nil a b).symm)
  refine ⟨inv, fun a b => (h a b).trans ⟨reach_congr ?_, reach_congr ?_⟩⟩
  · intro u v w he
    simp only [List.nil_append] at he
    rcases mem_sym.mp he with h1 | h1
    · obtain ⟨q, hq, e⟩ := List.mem_map.mp h1
      simp only [toE, Prod.mk.injEq] at e
      obtain ⟨rfl, rfl, _⟩ := e
      obtain ⟨_, (⟨w', hw'⟩ | ⟨w', hw'⟩)⟩ := mem_ccPairs.mp (by simpa using hq : (q.1, q.2) ∈ ccPairs n es)
      · exact ⟨w', mem_sym.mpr (Or.inl hw')⟩
      · exact ⟨w', mem_sym.mpr (Or.inr hw')⟩
    · obtain ⟨q, hq, e⟩ := List.mem_map.mp h1
      simp only [toE, Prod.mk.injEq] at e
      obtain ⟨rfl, rfl, _⟩ := e
      obtain ⟨_, (⟨w', hw'⟩ | ⟨w', hw'⟩)⟩ := mem_ccPairs.mp (by simpa using hq : (q.1, q.2) ∈ ccPairs n es)
      · exact ⟨w', mem_sym.mpr (Or.inr hw')⟩
      · exact ⟨w', mem_sym.mpr (Or.inl hw')⟩
  · intro u v w he
    simp only [List.nil_append]
    refine ⟨0, mem_sym.mpr (Or.inl (List.mem_map.mpr ⟨(u, v), mem_ccPairs.mpr ?_, rfl⟩))⟩
    rcases mem_sym.mp he with h1 | h1
    · exact ⟨(wf _ h1).1, Or.inl ⟨w, h1⟩⟩
    · exact ⟨(wf _ h1).2, Or.inr ⟨w, h1⟩⟩

/-! ### non-vacuity and concrete runs (kernel-evaluated) -/

/-- a concrete run: discovery order, components, and a compressed `find` -/
theorem c19a_witness_runs :
    bfs 5 [(0, 2, 1), (0, 1, 1), (2, 3, 1), (1, 3, 1), (3, 4, 1), (4, 0, 1)] 0 = [0, 2, 1, 3, 4] ∧
    connectedComponents 4 [(0, 1, 1), (2, 3, 1)] = [0, 0, 1, 1] ∧
    ((unionAll (UF.new 4) [(0, 1), (2, 3), (1, 3)]).find 3).2 = 0 ∧
    kahn 3 [(0, 1, 1), (1, 2, 1), (2, 0, 1)] = none := by decide

end Grafeo.Algo2
