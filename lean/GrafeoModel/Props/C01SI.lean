import GrafeoModel.Proofs.SessReads
import GrafeoModel.Driver.Sess

/-!
# C01 (and the creation part of C02) — creation-only histories refine the snapshot-isolation oracle

`Model/SessSpec.lean` holds the oracle that the stream `sess` runs next to the model (`SGraph`, `St`,
`St.view`, `SGraph.apply`, …) and `St.step`, what `DriverSess.handle` does to model and oracle for the ops
`begin commit rollback cn(=qcn) ce qce dbcn qmerge`. `run ops` is the state after `sess new; ops`.

For **every** history `ops` of those ops (any sessions, any isolation levels, any interleaving, well formed
or not: edges between nodes that do not exist, commits without a transaction, …) shorter than
`pendingEpoch = 2^64 - 1` (the epoch counter is a `u64` whose top value is the "pending" stamp; each op
advances it by at most one), for every session `k`:

* `c01si_getNode`, `c01si_getEdge`        point lookups return exactly the oracle's entry (labels; `src dst type`);
* `c01si_scanAll`, `c01si_scanLabel`, `c01si_outgoing`   the scans and the neighbour listing are duplicate free
  permutations of the oracle's answers (the stream compares them sorted);
* `c01si_results`                          `begin` / `commit` / `rollback` answer what the oracle answers, the `MATCH`
  of `qce` and of `MERGE` matches exactly when the oracle's view says so;
* `c01si_no_dirty_read`, `c01si_repeatable_read`, `c01si_rollback`, `c01si_commit`   the property in its own words.

No well-formedness hypothesis on edge endpoints is needed: model and oracle agree on dangling edges too.

Proof: `Proofs/SessLemmas.lean` (store as entity tables, the table relation `TabRel`, the manager lemma
`commit_ok_of_empty`), `Proofs/SessInv.lean` (invariant `Inv`, preserved by every step), `Proofs/SessReads.lean`
(state-level consequences).
-/

set_option linter.unusedSimpArgs false
set_option linter.unusedVariables false

namespace Grafeo.SessSpec
open Grafeo.Lpg Grafeo.Sess Grafeo.TxMgr

theorem run_append (a b : List Op) : run (a ++ b) = b.foldl St.step (run a) := by
  simp [run, List.foldl_append]

theorem run_snoc (a : List Op) (op : Op) : run (a ++ [op]) = (run a).step op := by
  simp [run, List.foldl_append]

theorem run_epoch_lt {ops : List Op} (h : ops.length < pendingEpoch) : (run ops).w.mgr.epoch < pendingEpoch :=
  Nat.lt_of_le_of_lt (run_epoch_le ops) h

/-! ## the refinement -/

/-- the invariant holds after every history -/
theorem c01si_invariant (ops : List Op) : Inv (run ops) := inv_run ops

/-- the transaction manager accepts the commit of every active transaction that has recorded no reads and
no writes — which is every transaction of the session layer — and answers the next epoch -/
theorem c01si_mgr_commit_ok (m : Mgr) (i : Nat) (t : Tx) (hg : m.get i = some t) (ha : t.state = .active)
    (hw : t.wset = []) (hr : t.rset = []) :
    m.commit i = (⟨m.epoch + 1, m.slots.set i (some { t with state := .committed, cepoch := some (m.epoch + 1) })⟩,
                  .ok (m.epoch + 1)) :=
  commit_ok_of_empty m i t hg ha hw hr

/-- (1) point lookup: what `get_node` returns in session `k` is the oracle's entry for `id` in the view of
`k` — present in both or absent in both, same label set, no properties -/
theorem c01si_getNode (ops : List Op) (hlen : ops.length < pendingEpoch) (k id : Nat) :
    (run ops).w.getNode k id = aget ((run ops).view k).nodes id :=
  getNode_eq_view (inv_run ops) (run_epoch_lt hlen) k id

/-- … spelled out: visible iff in the view; then the same labels, and no properties on either side -/
theorem c01si_getNode_iff (ops : List Op) (hlen : ops.length < pendingEpoch) (k id : Nat) :
    (((run ops).w.getNode k id).isSome = (aget ((run ops).view k).nodes id).isSome) ∧
    (∀ ls ps, (run ops).w.getNode k id = some (ls, ps) → aget ((run ops).view k).nodes id = some (ls, []) ∧ ps = []) := by
  have h := c01si_getNode ops hlen k id
  refine ⟨by rw [h], ?_⟩
  intro ls ps hg
  have hp : ps = [] := by
    have hi := inv_run ops
    have : (run ops).w.store.getNodeTo id ((run ops).w.ctx k).1 ((run ops).w.ctx k).2 = some (ls, ps) := hg
    obtain ⟨v, hmem, _⟩ := (getNodeTo_iff hi.store id _ _ (ls, ps)).mp this
    obtain ⟨kv, _, he⟩ := List.mem_map.mp hmem
    simp only [Prod.mk.injEq] at he
    rw [← he.2.2.2]
    show (aget (run ops).w.store.nprops kv.1).getD [] = []
    rw [hi.store.nprops]; rfl
  subst hp
  exact ⟨by rw [← h, hg], rfl⟩

/-- (2a) `MATCH (n)` in session `k`: the node ids of the oracle's view, each once -/
theorem c01si_scanAll (ops : List Op) (hlen : ops.length < pendingEpoch) (k : Nat) :
    ((run ops).w.scanAll k).Perm ((run ops).view k).ids ∧ ((run ops).w.scanAll k).Nodup :=
  scanAll_perm_view (inv_run ops) (run_epoch_lt hlen) k

/-- (2b) `MATCH (n:l)`: the ids of the view's nodes that carry `l`, each once -/
theorem c01si_scanLabel (ops : List Op) (hlen : ops.length < pendingEpoch) (k l : Nat) :
    ((run ops).w.scanLabel k l).Perm (((run ops).view k).idsWithLabel l) ∧ ((run ops).w.scanLabel k l).Nodup :=
  scanLabel_perm_view (inv_run ops) (run_epoch_lt hlen) k l

/-- (3a) `get_edge`: the oracle's edge (source, target, type), no properties -/
theorem c01si_getEdge (ops : List Op) (hlen : ops.length < pendingEpoch) (k id : Nat) :
    (run ops).w.getEdge k id = (aget ((run ops).view k).edges id).map (fun r => (r, ([] : AList String))) :=
  getEdge_eq_view (inv_run ops) (run_epoch_lt hlen) k id

/-- (3b) the outgoing neighbour listing of `n`: the edges of the view that leave `n` and whose far endpoint is
in the view (what the stream op `out` computes on the oracle), each once. No hypothesis on the history: edges
whose endpoints were never created, or are not visible, are treated alike by model and oracle. -/
theorem c01si_outgoing (ops : List Op) (hlen : ops.length < pendingEpoch) (k n : Nat) :
    ((run ops).w.outgoing k n).Perm (((run ops).view k).out n) ∧ ((run ops).w.outgoing k n).Nodup :=
  outgoing_perm_view (inv_run ops) (run_epoch_lt hlen) k n

/-- results of the calls: `begin` / `commit` / `rollback` answer what the oracle answers (no commit is ever
refused, first-committer-wins never fires: nothing is modified), and the `MATCH` part of `qce` / `MERGE`
matches exactly when the oracle's view says so -/
theorem c01si_results (ops : List Op) (hlen : ops.length < pendingEpoch) (op : Op) :
    ((run ops).res op).1 = ((run ops).res op).2 ∧ ((run ops).matched op).1 = ((run ops).matched op).2 :=
  ⟨res_agree (inv_run ops) op, matched_agree (inv_run ops) (run_epoch_lt hlen) op⟩

/-- the model part of the stream state is what the session calls alone produce -/
theorem c01si_model_step (z : St) (op : Op) : (z.step op).w = mstep z.w op := step_w z op

/-! ## the property in its own words -/

/-- what the store stamps as work of the open transaction of session `k` is what the oracle lists as that
transaction's writes -/
theorem c01si_owned_iff_written (ops : List Op) (k id : Nat) :
    OwnedNode (run ops) k id ↔ ∃ t ls, otxOf (run ops) k = some t ∧ W.node id ls ∈ t.writes :=
  ownedNode_iff_written (inv_run ops) k id

/-- **no dirty read.** After any history: a node or edge created by the transaction that is open in session
`k` (`OwnedNode` / `OwnedEdge`) is in no result of any other session `k'` — not returned by the point lookup, not
in the unlabelled scan, in no label scan, in no neighbour listing (neither as the edge nor as the far end). -/
theorem c01si_no_dirty_read (ops : List Op) (hlen : ops.length < pendingEpoch) (k k' : Nat) (hne : k' ≠ k) :
    (∀ id, OwnedNode (run ops) k id → NodeHidden (run ops) k' id) ∧
    (∀ e, OwnedEdge (run ops) k e → EdgeHidden (run ops) k' e) :=
  no_dirty_read_state (inv_run ops) (run_epoch_lt hlen) hne

/-- **repeatable read.** Session `k` is inside a transaction after `ops`; `post` is any list of ops none of which
is issued in session `k` (other sessions begin, create, commit, roll back; auto-commit writes; `GrafeoDB`
calls). Every read of `k` after `ops ++ post` returns what it returned after `ops`. -/
theorem c01si_repeatable_read (ops post : List Op) (hlen : (ops ++ post).length < pendingEpoch) (k : Nat)
    (htx : ((run ops).w.curOf k).isSome = true) (hother : ∀ op ∈ post, op.session ≠ some k) :
    SameReads (run ops) (run (ops ++ post)) k k := by
  have h1 := inv_run ops
  have h2 := inv_run (ops ++ post)
  have hl1 : ops.length < pendingEpoch := by simp only [List.length_append] at hlen; omega
  refine sameReads_of_view h1 (run_epoch_lt hl1) h2 (run_epoch_lt hlen) ?_
  cases hx : otxOf (run ops) k with
  | none =>
    have := h1.sess k
    rw [hx, htx] at this; cases this
  | some t =>
    refine view_of_otx hx ?_
    rw [run_append, otxOf_foldl_other _ post k hother, hx]

/-- **rollback.** Session `k` is inside a transaction after `ops` and rolls back; then `post`: anything.
(a) right after the rollback every other session reads exactly what it read before it;
(b) session `k` reads what a non-transactional reader read before it (the committed state, untouched);
(c) whatever the transaction created is in no result of any session — `k` included — right after the
    rollback and after every continuation `post`.
Together: the results are those of the history in which the transaction never ran (up to the ids it used up). -/
theorem c01si_rollback (ops post : List Op) (hlen : ops.length + 1 < pendingEpoch) (k : Nat) :
    (∀ k', k' ≠ k → SameReads (run ops) (run (ops ++ [.rollback k])) k' k') ∧
    (∀ k0, (run ops).w.curOf k0 = none → SameReads (run ops) (run (ops ++ [.rollback k])) k0 k) ∧
    (∀ id, OwnedNode (run ops) k id → ∀ k', NodeHidden (run (ops ++ [.rollback k] ++ post)) k' id) ∧
    (∀ e, OwnedEdge (run ops) k e → ∀ k', EdgeHidden (run (ops ++ [.rollback k] ++ post)) k' e) := by
  have h := inv_run ops
  have hE : (run ops).w.mgr.epoch + 1 < pendingEpoch := by have := run_epoch_le ops; omega
  obtain ⟨a, b, _, _⟩ := rollback_state h hE k
  obtain ⟨c, d⟩ := rollback_forever h k post
  simp only [run_snoc, run_append]
  exact ⟨a, b, c, d⟩

/-- **commit.** Session `k` is inside a transaction after `ops` and commits; then `post`: anything.
(a) snapshots taken before: a session `k'` whose transaction was open at the commit reads right after it exactly
    what it read before — none of the committed transaction's creations (and by repeatable read it stays so);
(b) every non-transactional reader `k0` after `ops ++ [commit k] ++ post` gets every node / edge the transaction
    created, with the content the transaction itself read before committing;
(c) so does every transaction that begins after `ops ++ [commit k] ++ post`, at its first read (and by
    repeatable read from then on). -/
theorem c01si_commit (ops post : List Op) (hlen : ops.length + post.length + 2 < pendingEpoch) (k : Nat)
    (htx : ((run ops).w.curOf k).isSome = true) :
    (∀ k', k' ≠ k → ((run ops).w.curOf k').isSome = true →
        SameReads (run ops) (run (ops ++ [.commit k])) k' k' ∧
        (∀ id, OwnedNode (run ops) k id → NodeHidden (run (ops ++ [.commit k])) k' id) ∧
        (∀ e, OwnedEdge (run ops) k e → EdgeHidden (run (ops ++ [.commit k])) k' e)) ∧
    (∀ k0, (run (ops ++ [.commit k] ++ post)).w.curOf k0 = none →
        (∀ id, OwnedNode (run ops) k id →
            (run (ops ++ [.commit k] ++ post)).w.getNode k0 id = (run ops).w.getNode k id ∧
            ((run ops).w.getNode k id).isSome = true) ∧
        (∀ e, OwnedEdge (run ops) k e →
            (run (ops ++ [.commit k] ++ post)).w.getEdge k0 e = (run ops).w.getEdge k e ∧
            ((run ops).w.getEdge k e).isSome = true)) ∧
    (∀ k1 iso, (run (ops ++ [.commit k] ++ post)).w.curOf k1 = none →
        (∀ id, OwnedNode (run ops) k id →
            (run (ops ++ [.commit k] ++ post ++ [.begin k1 iso])).w.getNode k1 id = (run ops).w.getNode k id) ∧
        (∀ e, OwnedEdge (run ops) k e →
            (run (ops ++ [.commit k] ++ post ++ [.begin k1 iso])).w.getEdge k1 e = (run ops).w.getEdge k e)) := by
  have h := inv_run ops
  have hep := run_epoch_le ops
  obtain ⟨a, _, _⟩ := commit_state h (by omega) k htx
  obtain ⟨b, c⟩ := commit_forever h k htx post (by omega)
  simp only [run_snoc, run_append]
  exact ⟨a, b, c⟩

/-- a transaction that begins reads, from its first read on, what its session read just before as a
non-transactional reader: the snapshot is the committed state of the moment of `begin` -/
theorem c01si_begin_snapshot (ops : List Op) (hlen : ops.length + 1 < pendingEpoch) (k : Nat) (iso : Iso)
    (hk : (run ops).w.curOf k = none) : SameReads (run ops) (run (ops ++ [.begin k iso])) k k := by
  rw [run_snoc]
  exact begin_state (inv_run ops) (by have := run_epoch_le ops; omega) k iso hk


/-! ## non-vacuity, and why the length bound is there -/

/-- two sessions inside transactions (snapshot / serializable), an auto-commit write through the database
handle in between, an edge inside a transaction -/
def demoA : List Op :=
  [.begin 0 .snapshot, .cn 0 [7], .dbcn [5], .begin 1 .serializable, .cn 1 [7], .ce 1 1 2 4]

/-- … then a commit, a rollback, an auto-commit write of a third session, a `MATCH … CREATE` and a `MERGE` -/
def demoB : List Op := [.commit 0, .rollback 1, .cn 2 [7, 7], .qce 2 1 9 7, .qmerge 2 5]

/-- N: the concrete results on the demo history (model on the left, oracle on the right where both are given):
both transactions open — each sees its own work, not the other's, session 0 not even the auto-commit write made
after it began; after commit 0 / rollback 1 everybody sees node 0, nobody node 2 or edge 0. The oracle lists the
nodes in a different order (`[1, 0, 3, 4]`): the scans are permutations, not equal lists. -/
theorem c01si_nonvacuous_values :
    (run demoA).w.scanAll 0 = [0] ∧ ((run demoA).view 0).ids = [0] ∧
    (run demoA).w.scanAll 1 = [1, 2] ∧ ((run demoA).view 1).ids = [1, 2] ∧
    (run demoA).w.scanAll 2 = [1] ∧
    (run demoA).w.outgoing 1 1 = [(2, 0)] ∧ (run demoA).w.outgoing 2 1 = [] ∧
    (run demoA).w.getEdge 1 0 = some (⟨1, 2, 4⟩, []) ∧ (run demoA).w.getEdge 0 0 = none ∧
    (run (demoA ++ demoB)).w.scanAll 1 = [0, 1, 3, 4] ∧ ((run (demoA ++ demoB)).view 1).ids = [1, 0, 3, 4] ∧
    (run (demoA ++ demoB)).w.scanLabel 2 7 = [0, 3, 4] ∧ ((run (demoA ++ demoB)).view 2).idsWithLabel 7 = [0, 3, 4] ∧
    (run (demoA ++ demoB)).w.outgoing 0 1 = [(4, 1)] ∧ ((run (demoA ++ demoB)).view 0).out 1 = [(4, 1)] ∧
    (run (demoA ++ demoB)).w.getNode 1 2 = none ∧ (run (demoA ++ demoB)).w.getNode 1 0 = some ([7], []) ∧
    (run (demoA ++ demoB)).matched (.qmerge 2 5) = (true, true) ∧
    (run (demoA ++ demoB)).w.mgr.epoch = 5 := by decide

/-- N: the general theorems applied to the demo history — their hypotheses are satisfiable and they yield
the concrete facts above: node 2 and edge 0 (work of session 1's open transaction) are hidden from session 0;
session 0 keeps its reads while session 1 and the database write; after `rollback 1` node 2 is gone for good,
after `commit 0` session 2 reads node 0 as session 0 did. -/
theorem c01si_nonvacuous_instances :
    NodeHidden (run demoA) 0 2 ∧ EdgeHidden (run demoA) 0 0 ∧
    SameReads (run [.begin 0 .snapshot, .cn 0 [7]]) (run demoA) 0 0 ∧
    NodeHidden (run (demoA ++ [.rollback 1] ++ [.cn 2 [7, 7], .qce 2 1 9 7])) 2 2 ∧
    (run (demoA ++ [.commit 0] ++ [.rollback 1])).w.getNode 2 0 = (run demoA).w.getNode 0 0 := by
  have hown1 : OwnedNode (run demoA) 1 2 := ⟨1, ⟨pendingEpoch, 3, none⟩, by decide, by decide, by decide⟩
  have hown1e : OwnedEdge (run demoA) 1 0 := ⟨1, ⟨pendingEpoch, 3, none⟩, ⟨1, 2, 4⟩, by decide, by decide, by decide⟩
  have hown0 : OwnedNode (run demoA) 0 0 := ⟨0, ⟨pendingEpoch, 2, none⟩, by decide, by decide, by decide⟩
  have hnd := c01si_no_dirty_read demoA (by decide) 1 0 (by decide)
  refine ⟨hnd.1 2 hown1, hnd.2 0 hown1e, ?_, ?_, ?_⟩
  · exact c01si_repeatable_read [.begin 0 .snapshot, .cn 0 [7]] [.dbcn [5], .begin 1 .serializable, .cn 1 [7], .ce 1 1 2 4]
      (by decide) 0 (by decide) (by decide)
  · exact (c01si_rollback demoA [.cn 2 [7, 7], .qce 2 1 9 7] (by decide) 1).2.2.1 2 hown1 2
  · exact ((c01si_commit demoA [.rollback 1] (by decide) 0 (by decide)).2.1 2 (by decide)).1 0 hown0 |>.1

/-- the state reached from an empty database whose epoch counter already stands at `pendingEpoch` by
`begin 1; cn 1 [7]` -/
def overflowState : St :=
  (({ w := { store := { epoch := pendingEpoch }, mgr := ⟨pendingEpoch, []⟩ } } : St).step (.begin 1 .snapshot)).step (.cn 1 [7])

/-- W: why the histories are bounded by `pendingEpoch` ops. The invariant does not mention the bound and holds
in `overflowState`, but there the pending stamp no longer hides anything: session 0 reads node 0, the work of
session 1's open transaction — a dirty read — while the oracle's view of session 0 is empty. (In the
implementation the epoch counter is a `u64`; it cannot get there in practice.) -/
theorem c01si_epoch_bound_needed :
    Inv overflowState ∧ OwnedNode overflowState 1 0 ∧
    overflowState.w.getNode 0 0 = some ([7], []) ∧ aget (overflowState.view 0).nodes 0 = none :=
  ⟨inv_step (inv_step (inv_empty pendingEpoch) _) _,
   ⟨0, ⟨pendingEpoch, 2, none⟩, by decide, by decide, by decide⟩, by decide, by decide⟩


open Grafeo.Proto
open Grafeo.DriverSess (handle parseIso showEdge mk')
open Grafeo.DriverLpg (showNode showIds showPairs)

/-! ## the stream handler runs these very steps

`DriverSess.handle` (the function the `gdriver` executable applies to every `sess` line) and `St.step` agree
on the state, for every op of the fragment, whatever the arguments parse to; the read ops print the two sides
of the refinement theorems. So the theorems above are about what the correspondence check executes. -/

theorem handle_begin (z : St) (k i : String) (k' : Nat) (iso : Iso) (hk : k.toNat? = some k') (hi : parseIso i = some iso) :
    (handle z ["begin", k, i]).map (·.1) = some (z.step (.begin k' iso)) := by
  simp only [handle, hk, hi, St.step, Option.bind_some, Option.map_some, bind, pure]

theorem handle_commit (z : St) (k : String) (k' : Nat) (hk : k.toNat? = some k') :
    (handle z ["commit", k]).map (·.1) = some (z.step (.commit k')) := by
  cases hx : (aget z.txs k').getD none <;> cases hr : (z.w.commit k').2 <;>
    simp only [handle, hk, St.step, Option.bind_some, Option.map_some, bind, pure, hx, hr]

theorem handle_rollback (z : St) (k : String) (k' : Nat) (hk : k.toNat? = some k') :
    (handle z ["rollback", k]).map (·.1) = some (z.step (.rollback k')) := by
  cases hx : (aget z.txs k').getD none <;>
    simp only [handle, hk, St.step, Option.bind_some, Option.map_some, bind, pure, hx]

theorem handle_cn (z : St) (k ls : String) (k' : Nat) (ls' : List Nat) (hk : k.toNat? = some k')
    (hl : parseNatList ls = some ls') :
    (handle z ["cn", k, ls]).map (·.1) = some (z.step (.cn k' ls')) := by
  cases hx : (aget z.txs k').getD none <;>
    simp only [handle, hk, hl, St.step, Option.bind_some, Option.map_some, bind, pure, hx]

theorem handle_qcn (z : St) (k ls : String) (k' : Nat) (ls' : List Nat) (hk : k.toNat? = some k')
    (hl : parseNatList ls = some ls') :
    (handle z ["qcn", k, ls]).map (·.1) = some (z.step (.cn k' ls')) := by
  cases hx : (aget z.txs k').getD none <;>
    simp only [handle, hk, hl, St.step, Option.bind_some, Option.map_some, bind, pure, hx]

theorem handle_ce (z : St) (k s d t : String) (k' s' d' t' : Nat) (hk : k.toNat? = some k')
    (hs : s.toNat? = some s') (hd : d.toNat? = some d') (ht : t.toNat? = some t') :
    (handle z ["ce", k, s, d, t]).map (·.1) = some (z.step (.ce k' s' d' t')) := by
  cases hx : (aget z.txs k').getD none <;>
    simp only [handle, hk, hs, hd, ht, St.step, Option.bind_some, Option.map_some, bind, pure, hx]

theorem handle_qce (z : St) (k s t l : String) (k' s' t' l' : Nat) (hk : k.toNat? = some k')
    (hs : s.toNat? = some s') (ht : t.toNat? = some t') (hl : l.toNat? = some l') :
    (handle z ["qce", k, s, t, l]).map (·.1) = some (z.step (.qce k' s' t' l')) := by
  cases hx : (aget z.txs k').getD none <;> cases hv : (z.w.scanAll k').contains s' <;>
    simp only [handle, hk, hs, hl, ht, St.step, Option.bind_some, Option.map_some, bind, pure, hx, hv, if_true, if_false,
      Bool.false_eq_true]

theorem handle_dbcn (z : St) (ls : String) (ls' : List Nat) (hl : parseNatList ls = some ls') :
    (handle z ["dbcn", ls]).map (·.1) = some (z.step (.dbcn ls')) := by
  simp only [handle, hl, St.step, Option.bind_some, Option.map_some, bind, pure]

theorem handle_qmerge (z : St) (k l : String) (k' l' : Nat) (hk : k.toNat? = some k') (hl : l.toNat? = some l') :
    (handle z ["qmerge", k, l]).map (·.1) = some (z.step (.qmerge k' l')) := by
  cases hx : (aget z.txs k').getD none <;> cases hr : (z.w.qMerge k' l').2 <;>
    simp only [handle, hk, hl, St.step, Option.bind_some, Option.map_some, bind, pure, hx, hr]


/-- the read ops of the stream leave the state alone and print, in the model column and in the oracle column,
the two sides of `c01si_getNode` / `c01si_getEdge` / `c01si_scanAll` / `c01si_scanLabel` / `c01si_outgoing` -/
theorem handle_gn (z : St) (k id : String) (k' id' : Nat) (hk : k.toNat? = some k') (hi : id.toNat? = some id') :
    (handle z ["gn", k, id]).map (fun r => (r.1, r.2.model, r.2.spec)) =
      some (z, showNode (z.w.getNode k' id'), showNode (aget (z.view k').nodes id')) := by
  simp only [handle, hk, hi, Option.bind_some, Option.map_some, bind, pure, mk']

theorem handle_ge (z : St) (k id : String) (k' id' : Nat) (hk : k.toNat? = some k') (hi : id.toNat? = some id') :
    (handle z ["ge", k, id]).map (fun r => (r.1, r.2.model, r.2.spec)) =
      some (z, showEdge (z.w.getEdge k' id'),
               showEdge ((aget (z.view k').edges id').map (fun r => (r, ([] : AList String))))) := by
  simp only [handle, hk, hi, Option.bind_some, Option.map_some, bind, pure, mk']

theorem handle_scan (z : St) (k : String) (k' : Nat) (hk : k.toNat? = some k') :
    (handle z ["scan", k]).map (fun r => (r.1, r.2.model, r.2.spec)) =
      some (z, showIds (z.w.scanAll k'), showIds (z.view k').ids) := by
  simp only [handle, hk, Option.bind_some, Option.map_some, bind, pure, mk', SGraph.ids]

theorem handle_scanl (z : St) (k l : String) (k' l' : Nat) (hk : k.toNat? = some k') (hl : l.toNat? = some l') :
    (handle z ["scanl", k, l]).map (fun r => (r.1, r.2.model, r.2.spec)) =
      some (z, showIds (z.w.scanLabel k' l'), showIds ((z.view k').idsWithLabel l')) := by
  simp only [handle, hk, hl, Option.bind_some, Option.map_some, bind, pure, mk', SGraph.idsWithLabel]

theorem handle_out (z : St) (k n : String) (k' n' : Nat) (hk : k.toNat? = some k') (hn : n.toNat? = some n') :
    (handle z ["out", k, n]).map (fun r => (r.1, r.2.model, r.2.spec)) =
      some (z, showPairs (z.w.outgoing k' n'), showPairs ((z.view k').out n')) := by
  simp only [handle, hk, hn, Option.bind_some, Option.map_some, bind, pure, mk', SGraph.out]

end Grafeo.SessSpec
