import GrafeoModel.Model.Sess
import GrafeoModel.Proofs.LpgLemmas

/-!
# C01 — snapshot reads;  C02 — commit / rollback all-or-nothing   (what holds, and witnesses)

The full statements are **refuted** on the unchanged tree (witness theorems below, each replayed
against the implementation by the check and listed as a known finding): versions are stamped
with the writer's *start* epoch and never re-stamped at commit, labels / properties / adjacency
are single-version, and enumerations use the store's own epoch. What does hold for every state
and every reader is proved as `_partial` theorems.
-/

namespace Grafeo.Sess
open Grafeo.Lpg Grafeo.TxMgr

/-- P (C01): a version created at an epoch above the reader's viewing epoch by somebody else is
invisible — so a reader never sees creations of transactions that *began* after its snapshot. -/
theorem c01_later_starter_creations_invisible_partial (v : Ver) (epoch tx : Nat)
    (hlater : epoch < v.created) (hother : v.owner ≠ tx) : v.visibleTo epoch tx = false := by
  unfold Ver.visibleTo Ver.visibleAt
  simp [hother]
  intro h; omega

theorem c01_later_starter_node_invisible_partial (s : Store) (id epoch tx : Nat) (c : List Ver)
    (hc : aget s.nodes id = some c) (hall : ∀ v ∈ c, epoch < v.created ∧ v.owner ≠ tx) :
    s.getNodeTo id epoch tx = none := by
  unfold Store.getNodeTo
  rw [hc]
  have : chainVisibleTo c epoch tx = false := by
    unfold chainVisibleTo
    rw [List.any_eq_false]
    intro v hv
    have := c01_later_starter_creations_invisible_partial v epoch tx (hall v hv).1 (hall v hv).2
    simp [this]
  simp [this]

/-- P (C01): a transaction sees every node it created (until it deletes it), whatever else
happens to other identifiers. -/
theorem c01_own_create_visible_partial (w : World) (k : Nat) (labels : List Nat) :
    ((w.createNode k labels).1.getNode k (w.createNode k labels).2).isSome = true := by
  have hctx : (w.createNode k labels).1.ctx k = w.ctx k := rfl
  unfold World.getNode
  rw [hctx]
  unfold World.createNode Store.createNode Store.getNodeTo
  simp only [aget_aset, if_true]
  simp [chainVisibleTo, Ver.visibleTo]

theorem aget_none_of_forall {ν : Type} (l : AList ν) (k : Nat) (h : ∀ kv ∈ l, kv.1 ≠ k) : aget l k = none := by
  induction l with
  | nil => rfl
  | cons kv rest ih =>
    obtain ⟨k0, v0⟩ := kv
    simp only [aget]
    have : k0 ≠ k := h (k0, v0) (by simp)
    rw [if_neg this]
    exact ih (fun x hx => h x (by simp [hx]))

/-- P (C02): after `rollback`, no reader — at any epoch, in any transaction — gets a node all of
whose versions were created by the rolled-back transaction. -/
theorem c02_rollback_removes_created_versions_partial (s : Store) (tx id epoch rtx : Nat)
    (hall : ∀ kv ∈ s.nodes, kv.1 = id → ∀ v ∈ kv.2, v.owner = tx) :
    (s.discard tx).getNodeTo id epoch rtx = none := by
  unfold Store.getNodeTo
  have : aget (s.discard tx).nodes id = none := by
    apply aget_none_of_forall
    intro kv hkv hk
    unfold Store.discard at hkv
    simp only [List.mem_filter, List.mem_map] at hkv
    obtain ⟨⟨kv0, hkv0, rfl⟩, hne⟩ := hkv
    simp only at hk hne
    have hown := hall kv0 hkv0 hk
    have : kv0.2.filter (fun v => v.owner != tx) = [] := by
      rw [List.filter_eq_nil_iff]
      intro v hv; simp [hown v hv]
    rw [this] at hne; simp at hne
  rw [this]

/-- W (C01, dirty read): a node created inside an open transaction of session 1 is returned to
session 0's point lookup and label scan before session 1 commits. -/
theorem c01_dirty_read_witness :
    let w0 : World := {}
    let w1 := (w0.begin 1 .snapshot).1
    let w2 := (w1.createNode 1 [7]).1
    (w2.getNode 0 0).isSome = true ∧ w2.scanLabel 0 7 = [0] := by decide

/-- W (C01, store epoch): after one committed transaction the manager's epoch is 1; a node
created afterwards is stamped 1 and is missing from the unlabelled scan and from the count
(both enumerate at the store's epoch 0), while the label scan finds it. -/
theorem c01_store_epoch_witness :
    let w0 : World := {}
    let w1 := (w0.begin 0 .snapshot).1
    let w2 := (w1.commit 0).1
    let w3 := (w2.createNode 0 [7]).1
    w3.scanAll 0 = [] ∧ w3.store.nodeIds = [] ∧ w3.scanLabel 0 7 = [0] := by decide

/-- W (C02): an edge created in a transaction that is then rolled back stays in the adjacency
list of its source node. -/
theorem c02_rolled_back_edge_in_adjacency_witness :
    let w0 : World := {}
    let w1 := (w0.createNode 0 []).1
    let w2 := (w1.begin 0 .snapshot).1
    let w3 := (w2.createEdge 0 0 0 0).1
    let w4 := (w3.rollback 0).1
    w4.outgoing 0 0 = [(0, 0)] ∧ (w4.getEdge 0 0).isNone = true := by decide

/-- N: the partial theorems are not vacuous. -/
example : (⟨3, 5, none⟩ : Ver).visibleTo 2 4 = false := by decide

end Grafeo.Sess
